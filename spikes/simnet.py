"""Spike: in-memory sockets + simulated asyncio loop, driven by detsched."""
import types, socket as _rs, collections
import detsched as D

class Net:
    def __init__(self, rng): self.rng=rng; self.listeners={}; self.udp={}; self.nextfd=1000; self.nextport=40000; self.max_seg=None
NET=None

class SimSocket:
    def __init__(self, family=None, type=None, *a, **k):
        self.kind = "udp" if type==_rs.SOCK_DGRAM else "tcp"
        self.fd = NET.nextfd; NET.nextfd+=1
        self.inbuf=bytearray(); self.peer=None; self.closed=False; self.peer_closed=False
        self.accept_q=collections.deque(); self.listening=False; self.addr=("127.0.0.1",0); self.timeout=None
        self.dgrams=collections.deque()
    def setsockopt(self,*a): pass
    def setblocking(self,b): self.timeout = None if b else 0
    def settimeout(self,t): self.timeout=t
    def bind(self, addr):
        port=addr[1]
        if port==0: port=NET.nextport; NET.nextport+=1
        if self.kind=="tcp":
            if port in NET.listeners: raise OSError(98,"Address already in use")
        self.addr=("0.0.0.0",port)
        if self.kind=="udp": NET.udp.setdefault(port,[]).append(self)
    def listen(self,n): self.listening=True; NET.listeners[self.addr[1]]=self
    def getsockname(self): return self.addr
    def getpeername(self):
        if self.peer is None: raise OSError("not connected")
        return self.peer.addr
    def fileno(self): return self.fd
    def readable(self):
        if self.listening: return bool(self.accept_q)
        if self.kind=="udp": return bool(self.dgrams)
        return bool(self.inbuf) or self.peer_closed
    def accept(self):
        if not self.accept_q: raise BlockingIOError()
        s=self.accept_q.popleft(); return s, s.peer.addr
    def sendall(self, data):
        if self.closed or self.peer is None or self.peer.closed: raise BrokenPipeError(32,"Broken pipe")
        self.peer.inbuf.extend(data); D.SCHED.yield_point("sock.send")
    def recv(self, n):
        if not (self.inbuf or self.peer_closed):
            if self.timeout==0: raise BlockingIOError()
            ok=D.SCHED.yield_point("sock.recv", blocked_on=lambda: bool(self.inbuf) or self.peer_closed, timeout=self.timeout)
            if not ok: raise _rs.timeout("timed out")
        if not self.inbuf: return b""
        k=min(n,len(self.inbuf)); 
        k=NET.rng.randint(1,k) if NET.rng.random()<0.7 else k
        out=bytes(self.inbuf[:k]); del self.inbuf[:k]; return out
    def recvfrom(self,n):
        if not self.dgrams: raise BlockingIOError()
        return self.dgrams.popleft()
    def sendto(self,data,addr):
        for s in NET.udp.get(addr[1],[]): s.dgrams.append((bytes(data), self.addr))
    def close(self):
        if self.closed: return
        self.closed=True
        if self.listening: NET.listeners.pop(self.addr[1],None)
        if self.kind=="udp" and self in NET.udp.get(self.addr[1],[]): NET.udp[self.addr[1]].remove(self)
        if self.peer is not None: self.peer.peer_closed=True

def create_connection(addr, timeout=None):
    lst=NET.listeners.get(addr[1])
    if lst is None: raise ConnectionRefusedError(111,"refused")
    c=SimSocket(type=_rs.SOCK_STREAM); s=SimSocket(type=_rs.SOCK_STREAM)
    c.addr=("127.0.0.1",NET.nextport); NET.nextport+=1; s.addr=("127.0.0.1",addr[1])
    c.peer=s; s.peer=c; lst.accept_q.append(s); D.SCHED.yield_point("sock.connect"); return c

class SocketShim(types.ModuleType):
    def __init__(self): super().__init__("socket_shim"); self.socket=SimSocket; self.create_connection=create_connection
    def __getattr__(self,k): return getattr(_rs,k)

class SimLoop:
    def __init__(self): self.ready=collections.deque(); self.readers={}; self.stopping=False; self.socks={}
    def call_soon_threadsafe(self, cb, *args): self.ready.append((cb,args))
    def add_reader(self, fd, cb): self.readers[fd]=cb
    def remove_reader(self, fd): self.readers.pop(fd,None)
    def stop(self): self.stopping=True
    def close(self): pass
    def _readable(self):
        return [fd for fd in self.readers if SOCKS[fd].readable()]
    def run_forever(self):
        while True:
            D.SCHED.yield_point("loop.idle", blocked_on=lambda: bool(self.ready) or bool(self._readable()))
            n=len(self.ready)
            for _ in range(n):
                cb,args=self.ready.popleft(); cb(*args); D.SCHED.yield_point("loop.cb")
            for fd in self._readable():
                cb=self.readers.get(fd)
                if cb is not None and SOCKS[fd].readable(): cb(); D.SCHED.yield_point("loop.reader")
            if self.stopping: break
SOCKS={}
_orig_init=SimSocket.__init__
def _init(self,*a,**k): _orig_init(self,*a,**k); SOCKS[self.fd]=self
SimSocket.__init__=_init

class AsyncioShim(types.ModuleType):
    def __init__(self): super().__init__("asyncio_shim"); self.SelectorEventLoop=SimLoop; self.AbstractEventLoop=SimLoop
    def set_event_loop(self, l): pass
