/-! Scratch feasibility: local RPC layer (one object, any number of requests/callers). -/
namespace RpcLocal

abbrev ReqId := Nat

inductive Outcome | value | exc | locked | deliveryErr
  deriving DecidableEq, Repr

inductive Phase | idle | busy (r : ReqId) | drained
  deriving DecidableEq, Repr

structure State where
  running  : Bool
  shutdown : Bool
  phase    : Phase
  fifo     : List ReqId
  issued   : List ReqId
  sent     : List ReqId
  result   : ReqId → Option Outcome

def setRes (f : ReqId → Option Outcome) (r : ReqId) (o : Outcome) : ReqId → Option Outcome :=
  fun x => if x = r then (match f r with | none => some o | some v => some v) else f x

def setAll (f : ReqId → Option Outcome) (rs : List ReqId) (o : Outcome) : ReqId → Option Outcome :=
  rs.foldl (fun g r => setRes g r o) f

inductive Act
  | issue (r : ReqId) | send (r : ReqId) | pop | finish (o : Outcome) | stop1 | stop2 | drain
  deriving DecidableEq, Repr

def step (s : State) : Act → Option State
  | .issue r => if r ∈ s.issued then none else some { s with issued := s.issued ++ [r] }
  | .send r =>
      if r ∈ s.issued ∧ r ∉ s.sent then
        if s.running then some { s with fifo := s.fifo ++ [r], sent := r :: s.sent }
        else some { s with result := setRes s.result r .deliveryErr, sent := r :: s.sent }
      else none
  | .pop => match s.phase, s.fifo with
      | .idle, r :: rest => if s.shutdown then none else some { s with phase := .busy r, fifo := rest }
      | _, _ => none
  | .finish o => match s.phase with
      | .busy r => some { s with phase := .idle, result := setRes s.result r o }
      | _ => none
  | .stop1 => some { s with running := false }
  | .stop2 => if s.running then none else some { s with shutdown := true }
  | .drain => match s.phase with
      | .idle => if s.shutdown then some { s with phase := .drained, fifo := [], result := setAll s.result s.fifo .deliveryErr } else none
      | _ => none

def init : State := ⟨true, false, .idle, [], [], [], fun _ => none⟩

inductive Reach : State → Prop
  | init : Reach init
  | step {s s' a} : Reach s → step s a = some s' → Reach s'

/-! ### at most once: a stored outcome never changes -/

theorem setRes_stable (f r o x v) (h : f x = some v) : setRes f r o x = some v := by
  unfold setRes; split
  · next e => subst e; simp [h]
  · exact h

theorem setAll_stable (rs : List ReqId) (f o x v) (h : f x = some v) : setAll f rs o x = some v := by
  induction rs generalizing f with
  | nil => simpa [setAll]
  | cons r rs ih => simp only [setAll, List.foldl_cons]; exact ih _ (setRes_stable f r o x v h)

theorem result_stable {s s' a} (h : step s a = some s') (x v) (hx : s.result x = some v) :
    s'.result x = some v := by
  cases a <;> simp only [step] at h
  case issue r => split at h <;> simp at h; subst h; exact hx
  case send r =>
    split at h
    · split at h <;> simp at h <;> subst h
      · exact hx
      · exact setRes_stable _ _ _ _ _ hx
    · simp at h
  case pop => split at h <;> (try split at h) <;> simp at h; subst h; exact hx
  case finish o => split at h <;> simp at h; subst h; exact setRes_stable _ _ _ _ _ hx
  case stop1 => simp at h; subst h; exact hx
  case stop2 => split at h <;> simp at h; subst h; exact hx
  case drain => split at h <;> (try split at h) <;> simp at h; subst h; exact setAll_stable _ _ _ _ _ hx

/-! ### carrier invariant -/

def Busy (s : State) (r : ReqId) : Prop := s.phase = .busy r

structure Inv (s : State) : Prop where
  carrier : ∀ r ∈ s.sent, s.result r = none → (r ∈ s.fifo ∨ Busy s r)
  fifo_sent : ∀ r ∈ s.fifo, r ∈ s.sent
  busy_sent : ∀ r, Busy s r → r ∈ s.sent
  drained : s.phase = .drained → s.fifo = []
  sent_issued : ∀ r ∈ s.sent, r ∈ s.issued
  shut : s.shutdown = true → s.running = false
  drained_shut : s.phase = .drained → s.shutdown = true

theorem setRes_none {f r o x} (h : setRes f r o x = none) : f x = none ∧ x ≠ r := by
  unfold setRes at h; split at h
  · next e => subst e; cases hf : f x <;> simp [hf] at h
  · next e => exact ⟨h, e⟩

theorem setAll_none {rs : List ReqId} {f o x} (h : setAll f rs o x = none) : f x = none ∧ x ∉ rs := by
  induction rs generalizing f with
  | nil => simpa [setAll] using h
  | cons r rs ih =>
    simp only [setAll, List.foldl_cons] at h
    have ⟨h1, h2⟩ := ih h
    have ⟨h3, h4⟩ := setRes_none h1
    exact ⟨h3, by simp [h4, h2]⟩

theorem inv_init : Inv init := by
  constructor <;> simp [init, Busy]

theorem inv_step {s s' a} (hi : Inv s) (h : step s a = some s') : Inv s' := by
  obtain ⟨c, fs, bs, dr, si, sh, ds⟩ := hi
  cases a <;> simp only [step] at h
  case issue r =>
    split at h <;> simp at h; subst h
    exact ⟨c, fs, bs, dr, fun r hr => by simp; exact Or.inl (si r hr), sh, ds⟩
  case send r =>
    split at h
    · next hr =>
      split at h <;> simp at h <;> subst h
      · next hrun =>
        refine ⟨?_, ?_, ?_, ?_, ?_, sh, ds⟩
        · intro x hx hn; simp at hx ⊢
          rcases hx with rfl | hx
          · exact Or.inl (Or.inr rfl)
          · rcases c x hx hn with h1 | h1
            · exact Or.inl (Or.inl h1)
            · exact Or.inr h1
        · intro x hx; simp at hx ⊢; rcases hx with hx | rfl
          · exact Or.inr (fs x hx)
          · exact Or.inl rfl
        · intro x hx; simp; exact Or.inr (bs x hx)
        · intro hd; have := sh (ds hd); simp_all
        · intro x hx; simp at hx; rcases hx with rfl | hx
          · exact hr.1
          · exact si x hx
      · refine ⟨?_, ?_, ?_, dr, ?_, sh, ds⟩
        · intro x hx hn; simp at hx
          have ⟨h1, h2⟩ := setRes_none hn
          rcases hx with rfl | hx
          · exact absurd rfl h2
          · exact c x hx h1
        · intro x hx; simp; exact Or.inr (fs x hx)
        · intro x hx; simp; exact Or.inr (bs x hx)
        · intro x hx; simp at hx; rcases hx with rfl | hx
          · exact hr.1
          · exact si x hx
    · simp at h
  case pop =>
    split at h
    · next r rest hp hf =>
      split at h <;> simp at h; subst h
      refine ⟨?_, ?_, ?_, ?_, si, sh, ?_⟩
      · intro x hx hn
        rcases c x hx hn with h1 | h1
        · rw [hf] at h1; simp at h1; rcases h1 with rfl | h1
          · exact Or.inr rfl
          · exact Or.inl h1
        · simp [Busy, hp] at h1
      · intro x hx; exact fs x (by rw [hf]; simp [hx])
      · intro x hx; simp [Busy] at hx; subst hx; exact fs _ (by rw [hf]; simp)
      · intro hd; simp at hd
      · intro hd; simp at hd
    · simp at h
  case finish o =>
    split at h
    · next r hp =>
      simp at h; subst h
      refine ⟨?_, fs, ?_, ?_, si, sh, ?_⟩
      · intro x hx hn
        have ⟨h1, h2⟩ := setRes_none hn
        rcases c x hx h1 with h3 | h3
        · exact Or.inl h3
        · simp [Busy, hp] at h3; exact absurd h3.symm h2
      · intro x hx; simp [Busy] at hx
      · intro hd; simp at hd
      · intro hd; simp at hd
    · simp at h
  case stop1 => simp at h; subst h; exact ⟨c, fs, bs, dr, si, fun _ => rfl, ds⟩
  case stop2 =>
    split at h
    · simp at h
    · next hr => simp at h; subst h; exact ⟨c, fs, bs, dr, si, fun _ => by simpa using hr, fun hd => rfl⟩
  case drain =>
    split at h
    · next hp =>
      split at h <;> simp at h; subst h
      next hsd =>
      refine ⟨?_, ?_, ?_, ?_, si, sh, fun _ => hsd⟩
      · intro x hx hn
        have ⟨h1, h2⟩ := setAll_none hn
        rcases c x hx h1 with h3 | h3
        · exact absurd h3 h2
        · simp [Busy, hp] at h3
      · intro x hx; simp at hx
      · intro x hx; simp [Busy] at hx
      · intro _; rfl
    · simp at h

theorem inv_reach {s} (h : Reach s) : Inv s := by
  induction h with
  | init => exact inv_init
  | step _ hs ih => exact inv_step ih hs

/-- internal (non-environment) actions -/
def Internal : Act → Prop
  | .issue _ | .stop1 | .stop2 => False
  | _ => True

/-- no deadlock: an issued request without outcome always has an enabled internal action,
    provided that a stop, once begun, is completed (stop2 is the stopper's own next step). -/
theorem progress {s} (hi : Inv s) (r : ReqId) (hr : r ∈ s.issued) (hn : s.result r = none)
    (hstop : s.running = false → s.shutdown = true) :
    ∃ a, Internal a ∧ (step s a).isSome := by
  by_cases hs : r ∈ s.sent
  · rcases hi.carrier r hs hn with hf | hb
    · -- r waits in the fifo
      cases hp : s.phase with
      | idle =>
        by_cases hsd : s.shutdown
        · exact ⟨.drain, trivial, by simp [step, hp, hsd]⟩
        · cases hq : s.fifo with
          | nil => simp [hq] at hf
          | cons x rest => exact ⟨.pop, trivial, by simp [step, hp, hq, hsd]⟩
      | busy x => exact ⟨.finish .value, trivial, by simp [step, hp]⟩
      | drained => have := hi.drained hp; simp [this] at hf
    · exact ⟨.finish .value, trivial, by simp [step, show s.phase = .busy r from hb]⟩
  · by_cases hrun : s.running
    · exact ⟨.send r, trivial, by simp [step, hr, hs, hrun]⟩
    · exact ⟨.send r, trivial, by simp [step, hr, hs, hrun]⟩

end RpcLocal
