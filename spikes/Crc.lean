/-! Scratch: CRC-CCITT (init 0) — appending the CRC (hi, lo) yields residue 0. -/
namespace Crc

def stepBit (crc : Nat) : Nat :=
  let x := (crc * 2) % 65536
  if crc / 32768 % 2 = 1 then x ^^^ 0x1021 else x

def step (crc : Nat) (c : Nat) : Nat :=
  let c0 := crc ^^^ (c * 256)
  stepBit (stepBit (stepBit (stepBit (stepBit (stepBit (stepBit (stepBit c0)))))))

def crcOf (bs : List Nat) : Nat := bs.foldl step 0

/-- when the high byte is zero, eight bit-steps just shift left by 8 -/
theorem shift_low (l : Nat) (h : l < 256) :
    stepBit (stepBit (stepBit (stepBit (stepBit (stepBit (stepBit (stepBit l))))))) = l * 256 := by
  have : ∀ l : Fin 256, stepBit (stepBit (stepBit (stepBit (stepBit (stepBit (stepBit (stepBit l.val))))))) = l.val * 256 := by
    decide +kernel
  exact this ⟨l, h⟩

theorem xor_hi (crc : Nat) (h : crc < 65536) : crc ^^^ (crc / 256 * 256) = crc % 256 := by
  have key : ∀ a : Fin 256, ∀ b : Fin 256,
      (a.val * 256 + b.val) ^^^ ((a.val * 256 + b.val) / 256 * 256) = (a.val * 256 + b.val) % 256 := by
    decide +kernel
  have h1 : crc / 256 < 256 := by omega
  have h2 : crc % 256 < 256 := by omega
  have := key ⟨crc / 256, h1⟩ ⟨crc % 256, h2⟩
  have e : crc / 256 * 256 + crc % 256 = crc := by omega
  simpa [e] using this

theorem residue_zero (crc : Nat) (h : crc < 65536) : step (step crc (crc / 256)) (crc % 256) = 0 := by
  unfold step
  simp only [xor_hi crc h]
  rw [shift_low (crc % 256) (Nat.mod_lt _ (by decide))]
  simp
  have : ∀ l : Fin 256, stepBit (stepBit (stepBit (stepBit (stepBit (stepBit (stepBit (stepBit 0))))))) = 0 := by decide +kernel
  simpa using this 0

end Crc
