/-! Scratch feasibility: generic interpreter for small synchronisation programs,
    computed reachable set, closure checked by `decide +kernel`. -/
namespace Sync

inductive Instr
  | acquire (l : Nat) | release (l : Nat)
  | setVar (v : Nat) (b : Bool)
  | load (v : Nat)                       -- local := var v
  | jmpIfVar (v : Nat) (b : Bool) (t : Nat)
  | jmpIfLocal (b : Bool) (t : Nat)
  | jmp (t : Nat)
  | condWait (c l : Nat)                 -- release l, park on c
  | notifyAll (c : Nat)
  | halt
  deriving DecidableEq, Repr

structure Th where
  pc : Nat
  loc : Bool
  parked : Option Nat      -- parked on condition c
  notified : Bool
  deriving DecidableEq, Repr, BEq

structure St where
  vars : List Bool
  locks : List (Option Nat)     -- owner thread id
  ths : List Th
  deriving DecidableEq, Repr, BEq

def setNth {α} : List α → Nat → α → List α
  | [], _, _ => []
  | _ :: r, 0, a => a :: r
  | x :: r, n+1, a => x :: setNth r n a

def stepTh (progs : List (List Instr)) (s : St) (tid : Nat) : Option St :=
  match s.ths[tid]?, progs[tid]? with
  | some th, some prog =>
    match th.parked with
    | some c =>
        -- waiting: can resume only if notified; resuming = go to "reacquire" which is modelled by the
        -- instruction itself: condWait c l re-executes as acquire l once notified
        if th.notified then
          match prog[th.pc]? with
          | some (.condWait _ l) =>
              match s.locks[l]? with
              | some none => some { s with locks := setNth s.locks l (some tid),
                                           ths := setNth s.ths tid { th with parked := none, notified := false, pc := th.pc + 1 } }
              | _ => none
          | _ => none
        else none
    | none =>
      match prog[th.pc]? with
      | none => none
      | some .halt => none
      | some (.acquire l) =>
          match s.locks[l]? with
          | some none => some { s with locks := setNth s.locks l (some tid), ths := setNth s.ths tid { th with pc := th.pc + 1 } }
          | _ => none
      | some (.release l) => some { s with locks := setNth s.locks l none, ths := setNth s.ths tid { th with pc := th.pc + 1 } }
      | some (.setVar v b) => some { s with vars := setNth s.vars v b, ths := setNth s.ths tid { th with pc := th.pc + 1 } }
      | some (.load v) => some { s with ths := setNth s.ths tid { th with pc := th.pc + 1, loc := s.vars.getD v false } }
      | some (.jmpIfVar v b t) =>
          some { s with ths := setNth s.ths tid { th with pc := if s.vars.getD v false = b then t else th.pc + 1 } }
      | some (.jmpIfLocal b t) =>
          some { s with ths := setNth s.ths tid { th with pc := if th.loc = b then t else th.pc + 1 } }
      | some (.jmp t) => some { s with ths := setNth s.ths tid { th with pc := t } }
      | some (.condWait c l) =>
          some { s with locks := setNth s.locks l none, ths := setNth s.ths tid { th with parked := some c } }
      | some (.notifyAll c) =>
          some { s with ths := (setNth s.ths tid { th with pc := th.pc + 1 }).map
                          (fun t => if t.parked = some c then { t with notified := true } else t) }
  | _, _ => none

def succs (progs : List (List Instr)) (s : St) : List St :=
  (List.range progs.length).filterMap (stepTh progs s)

def explore (progs : List (List Instr)) : Nat → List St → List St → List St
  | 0, seen, _ => seen
  | _, seen, [] => seen
  | f+1, seen, s :: work =>
      let new := (succs progs s).filter (fun t => !(seen.contains t) && !(work.contains t))
      explore progs f (seen ++ new.eraseDups) (work ++ new.eraseDups)

def closed (progs : List (List Instr)) (S : List St) : Bool :=
  S.all fun s => (succs progs s).all fun t => S.contains t

-- variables: 0 = FLAG, 1 = WC (registered), 2 = PRED ; locks: 0 = WCL, 1 = C
def stopper : List Instr :=
  [.setVar 0 true, .acquire 0, .load 1, .release 0, .jmpIfLocal false 8, .acquire 1, .notifyAll 1, .release 1, .halt]
def waiter : List Instr :=
  [.acquire 0, .setVar 1 true, .release 0,
   .jmpIfVar 0 true 7, .jmpIfVar 2 true 7, .condWait 1 1, .jmp 3,
   .acquire 0, .setVar 1 false, .release 0, .halt]
-- BROKEN stopper: looks up the condition before setting the flag
def stopperBad : List Instr :=
  [.acquire 0, .load 1, .release 0, .setVar 0 true, .jmpIfLocal false 8, .acquire 1, .notifyAll 1, .release 1, .halt]

def init : St := ⟨[false, false, false], [none, some 1], [⟨0, false, none, false⟩, ⟨0, false, none, false⟩]⟩

def lostWakeup (progs : List (List Instr)) (s : St) : Bool :=
  match s.ths[0]?, s.ths[1]?, progs[0]? with
  | some st, some w, some p0 => (p0[st.pc]? == some .halt) && s.vars.getD 0 false && w.parked.isSome && !w.notified
  | _, _, _ => false

def sys := [stopper, waiter]
def sysBad := [stopperBad, waiter]
def R := explore sys 2000 [init] [init]
def Rbad := explore sysBad 2000 [init] [init]

#eval (R.length, closed sys R, R.any (lostWakeup sys))
#eval (Rbad.length, closed sysBad Rbad, Rbad.any (lostWakeup sysBad))

theorem closed_ok : closed sys R = true := by decide +kernel
theorem safe_ok : R.any (lostWakeup sys) = false := by decide +kernel
theorem bad_found : Rbad.any (lostWakeup sysBad) = true := by decide +kernel
#print axioms closed_ok

end Sync
