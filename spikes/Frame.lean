/-! Scratch feasibility: chunking invariance of the frame reassembly loop. -/
namespace Frame

abbrev Bytes := List UInt8

def le (bs : Bytes) : Nat := bs.foldr (fun b acc => b.toNat + 256 * acc) 0

def maxSize : Nat := 10000000

inductive Ev | msg (p : Bytes) | violation
  deriving DecidableEq, Repr

/-- mirror of the `while True` loop in `_receive_data`; returns events and the remaining buffer
    (`none` = connection closed because of a protocol violation). -/
def consume (buf : Bytes) : List Ev × Option Bytes :=
  match h : buf with
  | [] => ([], some [])
  | b :: rest =>
    if b ≠ 0x50 then ([.violation], none)
    else if rest.length < 8 then ([], some buf)
    else
      let size := le (rest.take 8)
      if size > maxSize then ([.violation], none)
      else if (rest.drop 8).length < size then ([], some buf)
      else
        let payload := (rest.drop 8).take size
        let tail := (rest.drop 8).drop size
        have : tail.length < buf.length := by
          simp [tail, h, List.length_drop]; omega
        let (evs, r) := consume tail
        (.msg payload :: evs, r)
termination_by buf.length

/-- sequential composition of two consume results -/
def andThen (r1 : List Ev × Option Bytes) (y : Bytes) : List Ev × Option Bytes :=
  match r1 with
  | (e1, none) => (e1, none)
  | (e1, some r) => let (e2, r2) := consume (r ++ y); (e1 ++ e2, r2)

theorem consume_nil : consume [] = ([], some []) := by rw [consume]

theorem consume_cons (b : UInt8) (rest : Bytes) : consume (b :: rest) =
    if b ≠ 0x50 then ([.violation], none)
    else if rest.length < 8 then ([], some (b :: rest))
    else if le (rest.take 8) > maxSize then ([.violation], none)
    else if (rest.drop 8).length < le (rest.take 8) then ([], some (b :: rest))
    else
      let r := consume ((rest.drop 8).drop (le (rest.take 8)))
      (.msg ((rest.drop 8).take (le (rest.take 8))) :: r.1, r.2) := by
  rw [consume]

theorem consume_append (x y : Bytes) : consume (x ++ y) = andThen (consume x) y := by
  induction h : x.length using Nat.strongRecOn generalizing x with
  | _ n ih =>
    match x with
    | [] => simp [consume_nil, andThen]
    | b :: rest =>
      simp only [List.cons_append, consume_cons]
      by_cases hb : b ≠ 0x50
      · simp [hb, andThen]
      · simp only [hb, ↓reduceIte]
        by_cases h8 : rest.length < 8
        · simp [h8, andThen, consume_cons, hb]
        · have h8' : ¬ (rest ++ y).length < 8 := by simp; omega
          have ht : (rest ++ y).take 8 = rest.take 8 := by
            rw [List.take_append_of_le_length (by omega)]
          simp only [h8, h8', ↓reduceIte, ht]
          by_cases hs : le (rest.take 8) > maxSize
          · simp [hs, andThen]
          · simp only [hs, ↓reduceIte]
            have hd : (rest ++ y).drop 8 = rest.drop 8 ++ y := by
              rw [List.drop_append_of_le_length (by omega)]
            rw [hd]
            by_cases hl : (rest.drop 8).length < le (rest.take 8)
            · simp only [hl, ↓reduceIte, andThen, List.cons_append, consume_cons, hb, h8', ht, hs, hd, List.nil_append]
            · have hl' : ¬ (rest.drop 8 ++ y).length < le (rest.take 8) := by simp at hl ⊢; omega
              simp only [hl, hl', ↓reduceIte]
              have hp : (rest.drop 8 ++ y).take (le (rest.take 8)) = (rest.drop 8).take (le (rest.take 8)) := by
                rw [List.take_append_of_le_length (by omega)]
              have hq : (rest.drop 8 ++ y).drop (le (rest.take 8)) = (rest.drop 8).drop (le (rest.take 8)) ++ y := by
                rw [List.drop_append_of_le_length (by omega)]
              rw [hp, hq]
              have := ih ((rest.drop 8).drop (le (rest.take 8))).length (by simp [← h]; omega) _ rfl
              rw [this]
              cases hc : consume ((rest.drop 8).drop (le (rest.take 8))) with
              | mk e1 r1 => cases r1 <;> simp [andThen]

end Frame
