/-! Scratch feasibility: lost-wakeup model for stop_task / wait_for_condition. -/
namespace Wake

/-- program counter of the task thread inside wait_for_condition (cond lock already held by caller) -/
inductive TPc | idle | registered | tested | waiting | woken | raisedStop | returned
  deriving DecidableEq, Repr
/-- program counter of a stopper inside stop_task -/
inductive SPc | start | flagSet | looked (seen : Bool) | locked | notified | done
  deriving DecidableEq, Repr

structure St where
  flag    : Bool
  wc      : Bool          -- _wait_cond registered
  condHeld : Option Bool  -- none = free, some true = task holds, some false = stopper holds
  pending : Bool          -- a notify has been delivered to a waiting task
  t : TPc
  s : SPc
  deriving DecidableEq, Repr

def init : St := ⟨false, false, some true, false, .idle, .start⟩

inductive Act | task | stop deriving DecidableEq, Repr

def step (x : St) : Act → Option St
  | .task => match x.t with
    | .idle => some { x with wc := true, t := .registered }
    | .registered => if x.flag then some { x with t := .raisedStop, wc := false } else some { x with t := .tested }
    | .tested => some { x with t := .waiting, condHeld := none }          -- atomically release + sleep
    | .waiting => if x.pending ∧ x.condHeld = none then some { x with t := .woken, pending := false, condHeld := some true } else none
    | .woken => if x.flag then some { x with t := .raisedStop, wc := false } else some { x with t := .tested }
    | _ => none
  | .stop => match x.s with
    | .start => some { x with flag := true, s := .flagSet }
    | .flagSet => some { x with s := .looked x.wc }
    | .looked false => some { x with s := .done }
    | .looked true => if x.condHeld = none then some { x with condHeld := some false, s := .locked } else none
    | .locked => some { x with pending := (x.t = .waiting) || x.pending, s := .notified }
    | .notified => some { x with condHeld := none, s := .done }
    | .done => none

/-- bad: stopper finished, flag set, task parked forever with no pending notify -/
def Stuck (x : St) : Prop := x.s = .done ∧ x.t = .waiting ∧ x.pending = false

def Inv (x : St) : Prop :=
  (x.t = .waiting → x.wc = true ∧ x.condHeld ≠ some true) ∧
  (x.t = .tested → x.condHeld = some true ∧ x.wc = true) ∧
  (x.t = .registered → x.condHeld = some true ∧ x.wc = true) ∧
  (x.t = .woken → x.condHeld = some true) ∧
  (x.t = .idle → x.condHeld = some true) ∧
  (x.s = .start → x.flag = false) ∧ (x.s ≠ .start → x.flag = true) ∧
  (x.s = .looked false → x.t = .idle ∨ x.t = .raisedStop ∨ x.t = .returned) ∧
  (x.s = .locked → x.condHeld = some false) ∧
  ((x.s = .notified ∨ x.s = .done) → x.t = .waiting → x.pending = true) ∧
  (x.t = .tested → x.s = .start ∨ x.s = .flagSet ∨ x.s = .looked true)

theorem inv_init : Inv init := by simp [Inv, init]

theorem inv_step (x y : St) (a : Act) (h : Inv x) (hs : step x a = some y) : Inv y := by
  obtain ⟨f, wc, ch, p, t, s⟩ := x
  cases a <;> cases t <;> cases s <;> simp only [step] at hs <;>
    (try split at hs) <;> (try (simp at hs)) <;> (try subst hs) <;>
    (try (simp_all [Inv]; done)) <;> (try (simp_all [Inv] <;> grind))

theorem inv_no_stuck (x : St) (h : Inv x) : ¬ Stuck x := by
  intro ⟨h1, h2, h3⟩; have := h.2.2.2.2.2.2.2.2.2.1 (Or.inr h1) h2; simp_all

end Wake
