import sys, logging, collections, random, threading as _rt
logging.disable(logging.CRITICAL)
import detsched as D, simnet as S
import qmi.core.rpc, qmi.core.task, qmi.core.pubsub, qmi.core.context, qmi.core.messaging, qmi.core.util
from qmi.core.rpc import QMI_RpcObject, rpc_method
from qmi.core.context import QMI_Context
from qmi.core.thread import QMI_Thread
from qmi.core.config_defs import CfgQmi, CfgContext
shim = D.ThreadingShim()
for m in (qmi.core.rpc, qmi.core.task, qmi.core.pubsub, qmi.core.context, qmi.core.messaging, qmi.core.util):
    m.threading = shim
qmi.core.messaging.socket = S.SocketShim(); qmi.core.messaging.asyncio = S.AsyncioShim()
D.patch_qmi_thread()

class Obj(QMI_RpcObject):
    @rpc_method
    def f(self, x): return x*2

class Caller(QMI_Thread):
    def __init__(self, p, out): super().__init__(); self.p=p; self.out=out
    def run(self):
        for i in range(3):
            try: self.out.append(("v", self.p.f(i)))
            except D.Deadlock: self.out.append(("DEADLOCK",)); raise
            except BaseException as e: self.out.append(("e", type(e).__name__))

def scenario(seed):
    D.SCHED = s = D.Sched(seed); S.NET = S.Net(random.Random(seed)); S.SOCKS.clear()
    s.register_current("main")
    srv = QMI_Context("srv", CfgQmi(contexts={"srv": CfgContext(tcp_server_port=0)})); srv.start()
    port = srv.get_tcp_server_port(); srv.make_rpc_object("o", Obj)
    cli = QMI_Context("cli"); cli.start(); cli.connect_to_peer("srv", "localhost:%d"%port)
    p = cli.get_rpc_object_by_name("srv.o")
    out=[]; c=Caller(p,out); c.start()
    cli.stop()          # caller's own context stops while calls are outstanding
    c.join()
    srv.stop()
    return tuple(out)

res=collections.Counter(); dl=[]
for seed in range(600):
    try: res[scenario(seed)]+=1
    except D.Deadlock as e: res[("DEADLOCK",)]+=1; dl.append(seed)
    except BaseException as e: res[("HARNESS", type(e).__name__, str(e)[:80])]+=1
for k,v in res.most_common(12): print("  ",v,k)
print("deadlock seeds", dl[:10])
sys.stdout.flush()
import os; os._exit(0)
