import pkgutil, importlib, inspect, sys, logging, traceback, collections, typing
logging.disable(logging.CRITICAL)
import qmi.instruments
from qmi.core.rpc import QMI_RpcObject
from qmi.core.instrument import QMI_Instrument
from qmi.core.transport import QMI_Transport
from qmi.core.exceptions import *
import qmi.core.transport as T

class Fault(Exception): pass
class Budget(BaseException): pass
import time as _time
_clock=[1000.0]
def _sleep(d): _clock[0]+=max(d,0.0)
def _mono():
    _clock[0]+=0.01; return _clock[0]
_time.sleep=_sleep; _time.monotonic=_mono; _time.time=_mono; _time.perf_counter=_mono
class FakeTransport(QMI_Transport):
    def __init__(self, plan): super().__init__(); self.plan=plan; self.n=0; self.log=[]; self.opened=0; self.closed=0
    def _io(self, what):
        self.n+=1; self.log.append(what)
        if self.n>3000: raise Budget()
        if self.plan is not None and self.n==self.plan[0]: raise self.plan[1]
    def _open_transport(self): self.opened+=1
    def close(self): super().close(); self.closed+=1
    def write(self, data): self._check_is_open(); self._io("write")
    def read(self, nbytes, timeout=None): self._check_is_open(); self._io("read"); return b"0"*nbytes
    def read_until(self, message_terminator, timeout=None): self._check_is_open(); self._io("read_until"); return b"0"+message_terminator
    def read_until_timeout(self, nbytes, timeout): self._check_is_open(); self._io("rut"); return b""
    def discard_read(self): self._check_is_open(); self._io("discard")

mods=[importlib.import_module(m.name) for m in pkgutil.walk_packages(qmi.instruments.__path__, "qmi.instruments.")]
classes=set()
def walk(c):
    for s in c.__subclasses__(): classes.add(s); walk(s)
walk(QMI_Instrument)
cur=[None]
def fake_create(desc, default_attributes=None):
    t=FakeTransport(cur[0]); made.append(t); return t
for m in mods:
    if hasattr(m,"create_transport"): m.create_transport=fake_create
class Ctx:  # minimal context stand-in
    name="ctx"
    def __getattr__(self,k): raise AttributeError(k)
def build(cls):
    sig=inspect.signature(cls.__init__); kw={}
    for n,p in list(sig.parameters.items())[3:]:
        if p.default is not inspect._empty: continue
        if p.kind in (p.VAR_POSITIONAL,p.VAR_KEYWORD): continue
        a=p.annotation
        if 'transport' in n: kw[n]="tcp:localhost:1234"
        elif a is int or a=='int': kw[n]=1
        elif a is float: kw[n]=1.0
        elif a is str: kw[n]="x"
        elif a is bool: kw[n]=False
        else: kw[n]=None
    return cls(Ctx(),"inst",**kw)
res=collections.OrderedDict()
tb=[c for c in sorted(classes,key=lambda c:c.__module__+c.__name__) if "create_transport" in inspect.getsource(sys.modules[c.__module__]) and not inspect.isabstract(c)]
bad=0; okc=0; cant=[]
for cls in tb:
    print('..',cls.__name__,file=sys.stderr,flush=True)
    made=[]; cur[0]=None
    try: inst=build(cls)
    except BaseException as e: cant.append((cls.__name__,type(e).__name__,str(e)[:50])); continue
    if not made: cant.append((cls.__name__,"no transport made","")); continue
    # fault-free open to count IOs
    try:
        inst.open(); n_io=sum(t.n for t in made); okopen=True
    except BaseException as e:
        n_io=sum(t.n for t in made); okopen=False
    viol=[]
    for k in range(1, n_io+2):
        for exc in (QMI_TimeoutException("t"), OSError("os"), QMI_InstrumentException("i")):
            made=[]; cur[0]=(k,exc)
            try: inst=build(cls)
            except BaseException: continue
            raised=None
            try: inst.open()
            except BaseException as e: raised=e
            link=any(t._is_open for t in made); alllink=all(t._is_open for t in made)
            io=inst._is_open
            consistent = (io and alllink) or ((not io) and (not link))
            if not consistent:
                viol.append((k,type(exc).__name__, "instr_open=%s links=%s last_io=%s"%(io,[t._is_open for t in made],[t.log[-1:] for t in made])))
    res[cls.__name__]=(okopen,n_io,viol)
    if viol: bad+=1
    else: okc+=1
print("built:",len(res),"cannot build:",len(cant)); 
for c in cant: print("   ",c)
print("classes with inconsistency under some fault:",bad,"clean:",okc)
for n,(okopen,n_io,viol) in res.items():
    if viol: print(n,"openok=%s ios=%d"%(okopen,n_io), viol[:2], "(+%d)"%(len(viol)-2) if len(viol)>2 else "")
