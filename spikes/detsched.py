"""Spike: deterministic cooperative scheduler for real Python threads (baton passing)."""
import threading as _rt, random, collections, types, sys

class Deadlock(Exception): pass

class Sched:
    def __init__(self, seed, max_steps=200000):
        self.rng = random.Random(seed)
        self.mu = _rt.Lock()
        self.threads = {}       # ident -> TState
        self.current = None
        self.trace = []
        self.steps = 0
        self.max_steps = max_steps
        self.now = 0.0
        self.deadlocked = False

    class TState:
        def __init__(self, name):
            self.name = name; self.go = _rt.Semaphore(0); self.blocked_on = None; self.done = False
            self.deadline = None; self.timed_out = False

    def register_current(self, name):
        ts = Sched.TState(name); self.threads[_rt.get_ident()] = ts; self.current = ts; return ts

    def weight(self, ts):
        if not hasattr(ts,'w'): ts.w = 10**self.rng.uniform(-2,2)
        return ts.w

    def me(self):
        return self.threads.get(_rt.get_ident())

    def runnable(self):
        out = []
        for ts in self.threads.values():
            if ts.done: continue
            if ts.blocked_on is None or ts.blocked_on():
                out.append((ts, False))
            elif ts.deadline is not None:
                out.append((ts, True))   # may be woken by timeout
        return out

    def yield_point(self, label, blocked_on=None, timeout=None):
        """Called by the running thread. Optionally blocks until predicate true. Returns False if timed out."""
        me = self.me()
        if me is None:   # unmanaged thread: run freely
            return True
        me.blocked_on = blocked_on
        me.deadline = None if timeout is None else self.now + timeout
        me.timed_out = False
        self.steps += 1
        if self.steps > self.max_steps: raise RuntimeError("step budget")
        cands = self.runnable()
        if not cands:
            self.deadlocked = True
            raise Deadlock("no runnable thread at %s in %s" % (label, me.name))
        # prefer non-timeout wakeups with prob 0.9
        nt = [c for c in cands if not c[1]]
        pool = nt if (nt and self.rng.random() < 0.9) else cands
        ws=[self.weight(c[0]) for c in pool]
        ts, by_timeout = self.rng.choices(pool, weights=ws)[0]
        if by_timeout:
            self.now = max(self.now, ts.deadline); ts.timed_out = True; ts.blocked_on = None
        self.trace.append((ts.name, label if ts is me else None))
        if ts is not me:
            self.current = ts
            ts.go.release()
            me.go.acquire()
        me.blocked_on = None; me.deadline = None
        return not me.timed_out

    def thread_exit(self):
        me = self.me(); me.done = True
        cands = self.runnable()
        if not cands:
            return
        ts, by_timeout = self.rng.choice(cands)
        if by_timeout:
            self.now = max(self.now, ts.deadline); ts.timed_out = True; ts.blocked_on = None
        self.current = ts; ts.go.release()

SCHED = None

class Lock:
    def __init__(self): self.owner = None
    def acquire(self, blocking=True, timeout=-1):
        s = SCHED
        ok = s.yield_point("lock.acquire", blocked_on=lambda: self.owner is None)
        self.owner = _rt.get_ident(); return True
    def release(self):
        self.owner = None; SCHED.yield_point("lock.release")
    def locked(self): return self.owner is not None
    __enter__ = lambda self: self.acquire()
    def __exit__(self, *a): self.release()

class RLock(Lock):
    def __init__(self): self.owner=None; self.count=0
    def acquire(self, blocking=True, timeout=-1):
        me=_rt.get_ident()
        if self.owner==me: self.count+=1; return True
        SCHED.yield_point("rlock.acquire", blocked_on=lambda: self.owner is None)
        self.owner=me; self.count=1; return True
    def release(self):
        self.count-=1
        if self.count==0: self.owner=None; SCHED.yield_point("rlock.release")
    __enter__ = lambda self: self.acquire()
    def __exit__(self,*a): self.release()

class Condition:
    def __init__(self, lock=None):
        self.lock = lock if lock is not None else RLock()
        self.waiters = []
    def acquire(self,*a): return self.lock.acquire()
    def release(self): return self.lock.release()
    def __enter__(self): return self.lock.acquire()
    def __exit__(self,*a): self.lock.release()
    def wait(self, timeout=None):
        tok = [False]; self.waiters.append(tok)
        # release fully
        saved = getattr(self.lock,'count',None)
        self.lock.owner=None
        if saved is not None: self.lock.count=0
        ok = SCHED.yield_point("cond.wait", blocked_on=lambda: tok[0], timeout=timeout)
        if tok in self.waiters: self.waiters.remove(tok)
        SCHED.yield_point("cond.reacquire", blocked_on=lambda: self.lock.owner is None)
        self.lock.owner=_rt.get_ident()
        if saved is not None: self.lock.count=saved
        return ok
    def wait_for(self, predicate, timeout=None):
        end = None if timeout is None else SCHED.now+timeout
        r = predicate()
        while not r:
            if end is not None:
                rem = end-SCHED.now
                if rem<=0: break
                self.wait(rem)
            else: self.wait(None)
            r = predicate()
        return r
    def notify(self,n=1):
        for tok in self.waiters[:n]: tok[0]=True
        del self.waiters[:n]
    def notify_all(self): self.notify(len(self.waiters))

class Event:
    def __init__(self): self.flag=False
    def is_set(self): return self.flag
    def set(self): self.flag=True; SCHED.yield_point("event.set")
    def clear(self): self.flag=False
    def wait(self, timeout=None):
        if self.flag: return True
        SCHED.yield_point("event.wait", blocked_on=lambda: self.flag, timeout=timeout)
        return self.flag

class ThreadingShim(types.ModuleType):
    def __init__(self):
        super().__init__("threading_shim")
        self.Lock=Lock; self.RLock=RLock; self.Condition=Condition; self.Event=Event
    def __getattr__(self, k): return getattr(_rt, k)

def patch_qmi_thread():
    from qmi.core.thread import QMI_Thread
    orig_start = _rt.Thread.start; 
    def start(self):
        s = SCHED
        ts = Sched.TState(type(self).__name__+"-"+str(len(s.threads)))
        orig_run = self.run
        def run():
            s.threads[_rt.get_ident()] = ts
            self._ds_registered.set()
            ts.go.acquire()
            try: orig_run()
            finally: s.thread_exit()
        self.run = run
        self._ds_registered = _rt.Event(); self._ds_ts = ts
        orig_start(self)
        self._ds_registered.wait()
        s.yield_point("thread.start")
    def join(self, timeout=None):
        ts = self._ds_ts
        SCHED.yield_point("thread.join", blocked_on=lambda: ts.done)
        _rt.Thread.join(self)
    QMI_Thread.start = start; QMI_Thread.join = join
