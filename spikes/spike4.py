import sys, logging, collections, random, threading as _rt
logging.disable(logging.CRITICAL)
import detsched as D, simnet as S
import qmi.core.rpc, qmi.core.task, qmi.core.pubsub, qmi.core.context, qmi.core.messaging, qmi.core.util
from qmi.core.rpc import QMI_RpcObject, rpc_method
from qmi.core.pubsub import QMI_Signal, QMI_SignalReceiver
from qmi.core.context import QMI_Context
from qmi.core.thread import QMI_Thread
from qmi.core.config_defs import CfgQmi, CfgContext
shim = D.ThreadingShim()
for m in (qmi.core.rpc, qmi.core.task, qmi.core.pubsub, qmi.core.context, qmi.core.messaging, qmi.core.util):
    m.threading = shim
qmi.core.messaging.socket = S.SocketShim(); qmi.core.messaging.asyncio = S.AsyncioShim()
D.patch_qmi_thread()

class Pub(QMI_RpcObject):
    sig = QMI_Signal([int])
    @rpc_method
    def fire(self, x): self.sig.publish(x)

class Sub(QMI_Thread):
    def __init__(self, ctx, recv, out): super().__init__(); self.ctx=ctx; self.recv=recv; self.out=out
    def run(self):
        try:
            self.ctx.subscribe_signal("P", "pub", "sig", self.recv); self.out.append("subscribed")
        except D.Deadlock: raise
        except BaseException as e: self.out.append(type(e).__name__)

def scenario(seed):
    D.SCHED = s = D.Sched(seed); S.NET = S.Net(random.Random(seed)); S.SOCKS.clear()
    s.register_current("main")
    P = QMI_Context("P", CfgQmi(contexts={"P": CfgContext(tcp_server_port=0)})); P.start()
    port = P.get_tcp_server_port(); pp = P.make_rpc_object("pub", Pub)
    A = QMI_Context("A"); A.start(); A.connect_to_peer("P", "localhost:%d"%port)
    recv = QMI_SignalReceiver(); out=[]
    t = Sub(A, recv, out); t.start()
    P.remove_rpc_object(pp)          # races with the subscribe request
    t.join()
    # drain: let socket threads run until idle
    for _ in range(200): s.yield_point("drain")
    a_l = {k: len(v) for k,v in A._signal_manager._local_subscriptions.items()}
    p_r = {k: set(v) for k,v in P._signal_manager._remote_subscriptions.items()}
    # re-create the publisher with the same name and publish
    pp2 = P.make_rpc_object("pub", Pub); pp2.fire(7)
    for _ in range(200): s.yield_point("drain")
    got = recv.get_queue_length()
    A.stop(); P.stop()
    return (tuple(out), tuple(sorted(a_l.items())), tuple(sorted((k,tuple(v)) for k,v in p_r.items())), got)

res=collections.Counter(); ex={}
for seed in range(3000):
    try:
        r=scenario(seed); res[r]+=1; ex.setdefault(r, seed)
    except D.Deadlock as e: res[("DEADLOCK",)]+=1; ex.setdefault(("DEADLOCK",), seed)
    except BaseException as e: res[("HARNESS", type(e).__name__, str(e)[:60])]+=1
for k,v in res.most_common(12): print("  ",v,k,"seed",ex.get(k))
sys.stdout.flush()
import os; os._exit(0)
