import sys, logging, collections, random, threading as _rt
logging.disable(logging.CRITICAL)
import detsched as D, simnet as S
import qmi.core.rpc, qmi.core.task, qmi.core.pubsub, qmi.core.context, qmi.core.messaging, qmi.core.util
from qmi.core.rpc import QMI_RpcObject, rpc_method
from qmi.core.context import QMI_Context
from qmi.core.config_defs import CfgQmi, CfgContext
shim = D.ThreadingShim()
for m in (qmi.core.rpc, qmi.core.task, qmi.core.pubsub, qmi.core.context, qmi.core.messaging, qmi.core.util):
    m.threading = shim
qmi.core.messaging.socket = S.SocketShim(); qmi.core.messaging.asyncio = S.AsyncioShim()
D.patch_qmi_thread()

class Obj(QMI_RpcObject):
    @rpc_method
    def f(self, x): return x*2
    @rpc_method
    def bad(self): return _rt.Lock()

def run_to(fn):
    try: return ("v", fn())
    except D.Deadlock: raise
    except BaseException as e: return ("e", type(e).__name__)

def scenario(seed, what):
    D.SCHED = s = D.Sched(seed); S.NET = S.Net(random.Random(seed)); S.SOCKS.clear()
    s.register_current("main")
    srv = QMI_Context("srv", CfgQmi(contexts={"srv": CfgContext(tcp_server_port=0)})); srv.start()
    port = srv.get_tcp_server_port(); srv.make_rpc_object("o", Obj)
    cli = QMI_Context("cli"); cli.start(); cli.connect_to_peer("srv", "localhost:%d"%port)
    p = cli.get_rpc_object_by_name("srv.o")
    out=[]
    if what=="plain":
        out.append(run_to(lambda: p.f(21)))
        futs=[p.rpc_nonblocking.f(i) for i in range(4)]
        out += [run_to(f.wait) for f in futs]
    elif what=="remove":
        futs=[p.rpc_nonblocking.f(i) for i in range(3)]
        lp = srv.get_rpc_object_by_name("srv.o"); srv.remove_rpc_object(lp)
        out += [run_to(f.wait) for f in futs]
    elif what=="unpicklable":
        out.append(run_to(lambda: p.bad()))
    elif what=="srvstop":
        futs=[p.rpc_nonblocking.f(i) for i in range(3)]
        srv.stop()
        out += [run_to(f.wait) for f in futs]
        cli.stop(); return tuple(out)
    cli.stop(); srv.stop()
    return tuple(out)

for what in ("plain","remove","srvstop","unpicklable"):
    res=collections.Counter()
    for seed in range(150):
        try: res[scenario(seed, what)]+=1
        except D.Deadlock as e: res[("DEADLOCK",)]+=1
        except BaseException as e: res[("HARNESS", type(e).__name__, str(e)[:80])]+=1
    print("==",what)
    for k,v in res.most_common(8): print("  ",v,k)
sys.stdout.flush()
import os; os._exit(0)
