/-! Scratch feasibility: abstract open() programs, fault plans, per-program `decide`. -/
namespace OpenProg

inductive Kind | timeout | instr | os | other deriving DecidableEq, Repr

inductive Stmt
  | pure                                    -- cannot raise
  | checkClosed                             -- raises if instrument flag set
  | tOpen (t : Nat)                         -- open link t (fault point)
  | tClose (t : Nat)                        -- close link t (raises if not open)
  | io (t : Nat)                            -- device I/O on link t (fault point; raises invalid-op if link closed)
  | superOpen                               -- checkClosed; flag := true
  | tryExcept (body : List Stmt) (catches : List Kind) (handler : List Stmt)   -- handler then re-raise
  deriving Repr

structure St where
  flag : Bool
  links : List Nat          -- open links
  cnt : Nat                 -- fault points passed so far
  deriving DecidableEq, Repr

inductive Res | ok | raised (k : Kind) deriving DecidableEq, Repr

structure Plan where
  k : Nat
  kind : Kind

mutual
def runStmt (p : Plan) : Nat → Stmt → St → St × Res
  | 0, _, s => (s, .raised .other)
  | _+1, .pure, s => (s, .ok)
  | _+1, .checkClosed, s => if s.flag then (s, .raised .other) else (s, .ok)
  | _+1, .tOpen t, s =>
      if s.links.contains t then (s, .raised .other)
      else if s.cnt = p.k then ({ s with cnt := s.cnt + 1 }, .raised p.kind)
      else ({ s with cnt := s.cnt + 1, links := t :: s.links }, .ok)
  | _+1, .tClose t, s => if s.links.contains t then ({ s with links := s.links.erase t }, .ok) else (s, .raised .other)
  | _+1, .io t, s =>
      if ¬ s.links.contains t then (s, .raised .other)
      else if s.cnt = p.k then ({ s with cnt := s.cnt + 1 }, .raised p.kind)
      else ({ s with cnt := s.cnt + 1 }, .ok)
  | _+1, .superOpen, s => if s.flag then (s, .raised .other) else ({ s with flag := true }, .ok)
  | f+1, .tryExcept body catches handler, s =>
      match runList p f body s with
      | (s1, .ok) => (s1, .ok)
      | (s1, .raised k) =>
          if catches.contains k then
            match runList p f handler s1 with
            | (s2, .ok) => (s2, .raised k)
            | (s2, .raised k2) => (s2, .raised k2)
          else (s1, .raised k)
def runList (p : Plan) : Nat → List Stmt → St → St × Res
  | 0, _, s => (s, .raised .other)
  | _+1, [], s => (s, .ok)
  | f+1, st :: rest, s =>
      match runStmt p f st s with
      | (s1, .ok) => runList p f rest s1
      | r => r
end

def init : St := ⟨false, [], 0⟩

def Consistent (links : List Nat) (s : St) : Bool :=
  if s.flag then links.all (s.links.contains ·) else s.links.isEmpty

/-- number of fault points passed by the fault-free run -/
def freeCount (prog : List Stmt) : Nat := (runList ⟨1000000, .other⟩ 1000 prog { flag := false, links := [], cnt := 0 }).1.cnt

def allKinds : List Kind := [.timeout, .instr, .os, .other]

/-- check every plan with k ≤ bound and every kind -/
def checkAll (prog : List Stmt) (links : List Nat) (bound : Nat) : Bool :=
  (List.range (bound + 1)).all fun k => allKinds.all fun kd => Consistent links (runList ⟨k, kd⟩ 1000 prog init).1

def all4 : List Kind := allKinds

-- K10CR1-style: open link, guarded I/O, then flag
def good : List Stmt :=
  [.pure, .checkClosed, .tOpen 0, .tryExcept [.pure, .io 0, .io 0, .io 0] all4 [.tClose 0], .superOpen]
-- Cobolt-style: discard_read between link open and flag, no handler
def bad : List Stmt := [.pure, .tOpen 0, .io 0, .superOpen]
-- TGF-style: handler only for OSError
def bad2 : List Stmt := [.pure, .tOpen 0, .tryExcept [.io 0] [.os] [.tClose 0], .superOpen]

example : checkAll good [0] (freeCount good) = true := by decide +kernel
example : checkAll bad [0] (freeCount bad) = false := by decide +kernel
example : checkAll bad2 [0] (freeCount bad2) = false := by decide +kernel
theorem good_ok : checkAll good [0] (freeCount good) = true := by decide +kernel
#print axioms good_ok
#eval (List.range 5).filterMap fun k => if Consistent [0] (runList ⟨k, .timeout⟩ 1000 bad init).1 then none else some k
end OpenProg
