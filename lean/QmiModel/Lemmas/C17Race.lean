import QmiModel.Lemmas.C17Store
/-!
# C17 — two callers inside `DataStore.make_folder` at the same time

All interleavings of the two callers' steps (`RaceReach`).  Only the two `mkdir` system calls are
atomic; the `isdir` / `exists` tests are separate steps.
-/
namespace QmiModel.C17.RaceL
open QmiModel.C17 QmiModel.C17.StoreL

/-- what one step of caller `i` does -/
theorem step_spec (d f : Bool → Str) (r r' : Race) (i : Bool) (hs : raceStep d f r i = some r') :
    (∀ j, j ≠ i → r'.pc j = r.pc j) ∧
    (∀ d' f', r.st.hasFolder d' f' = true → r'.st.hasFolder d' f' = true) ∧
    (r'.pc i = .ok → r.st.hasFolder (d i) (f i) = false ∧ r'.st.hasFolder (d i) (f i) = true) ∧
    r.pc i ≠ .ok ∧ r.pc i ≠ .failed := by
  simp only [raceStep] at hs
  split at hs
  next hpc =>
    -- ensure
    split at hs
    next hget =>
      injection hs with hs; subst hs
      refine ⟨fun j hj => by simp [hj], ?_, by simp, by simp [hpc], by simp [hpc]⟩
      intro d' f' h
      rw [hasFolder_put]
      by_cases hd : d' = d i
      · subst hd
        simp [DStore.hasFolder, hget] at h
      · simp [hd, h]
    next v hget =>
      injection hs with hs; subst hs
      exact ⟨fun j hj => by simp [hj], fun _ _ h => h, by simp, by simp [hpc], by simp [hpc]⟩
  next hpc =>
    -- check
    split at hs
    next hh =>
      injection hs with hs; subst hs
      exact ⟨fun j hj => by simp [hj], fun _ _ h => h, by simp, by simp [hpc], by simp [hpc]⟩
    next hh =>
      injection hs with hs; subst hs
      exact ⟨fun j hj => by simp [hj], fun _ _ h => h, by simp, by simp [hpc], by simp [hpc]⟩
  next hpc =>
    -- mkdir
    split at hs
    next ch hget =>
      split at hs
      next hany =>
        injection hs with hs; subst hs
        exact ⟨fun j hj => by simp [hj], fun _ _ h => h, by simp, by simp [hpc], by simp [hpc]⟩
      next hany =>
        injection hs with hs; subst hs
        refine ⟨fun j hj => by simp [hj], ?_, ?_, by simp [hpc], by simp [hpc]⟩
        · intro d' f' h
          rw [hasFolder_put]
          by_cases hd : d' = d i
          · subst hd
            simp only [DStore.hasFolder, hget] at h
            simp only [if_true, List.any_append, h, Bool.true_or]
          · simp [hd, h]
        · intro _
          refine ⟨?_, ?_⟩
          · simp only [DStore.hasFolder, hget]
            exact (Bool.not_eq_true _).mp hany
          · rw [hasFolder_put]
            simp
    next hne =>
      injection hs with hs; subst hs
      exact ⟨fun j hj => by simp [hj], fun _ _ h => h, by simp, by simp [hpc], by simp [hpc]⟩
  next hpc => cases hs
  next hpc => cases hs

/-- folders never disappear during the race -/
theorem race_mono (d f : Bool → Str) (st0 : DStore) (r : Race) (h : RaceReach d f st0 r) :
    ∀ d' f', st0.hasFolder d' f' = true → r.st.hasFolder d' f' = true := by
  induction h with
  | init => exact fun _ _ h => h
  | step i _ hs ih =>
    intro d' f' h0
    exact (step_spec d f _ _ i hs).2.1 d' f' (ih d' f' h0)

/-- a caller that was told "ok" has its folder -/
theorem race_ok_has (d f : Bool → Str) (st0 : DStore) (r : Race) (h : RaceReach d f st0 r) (i : Bool)
    (hi : r.pc i = .ok) : r.st.hasFolder (d i) (f i) = true := by
  induction h with
  | init => cases hi
  | step j _ hs ih =>
    have sp := step_spec d f _ _ j hs
    by_cases hij : i = j
    · subst hij
      exact (sp.2.2.1 hi).2
    · rw [sp.1 i hij] at hi
      exact sp.2.1 _ _ (ih hi)

/-- a folder that existed before is handed out to nobody -/
theorem race_existing_not_handed_out (d f : Bool → Str) (st0 : DStore) (r : Race) (h : RaceReach d f st0 r)
    (i : Bool) (hex : st0.hasFolder (d i) (f i) = true) : r.pc i ≠ .ok := by
  induction h with
  | init => intro hi; cases hi
  | step j hr hs ih =>
    have sp := step_spec d f _ _ j hs
    intro hi
    by_cases hij : i = j
    · subst hij
      have h1 := (sp.2.2.1 hi).1
      have h2 := race_mono d f st0 _ hr _ _ hex
      rw [h1] at h2
      cases h2
    · rw [sp.1 i hij] at hi
      exact ih hi

/-- the same folder is never handed out to both callers, whatever the interleaving -/
theorem race_one_winner (d f : Bool → Str) (st0 : DStore) (r : Race) (h : RaceReach d f st0 r)
    (hsame : d false = d true ∧ f false = f true) : ¬ (r.pc false = .ok ∧ r.pc true = .ok) := by
  induction h with
  | init => intro h; cases h.1
  | step j hr hs ih =>
    rename_i r0 r1
    have sp := step_spec d f _ _ j hs
    intro hboth
    -- the other caller `!j` did not move and was already told "ok"; `j` has just succeeded
    have hj : r1.pc j = .ok := by cases j; exact hboth.1; exact hboth.2
    have ho : r1.pc (!j) = .ok := by cases j; exact hboth.2; exact hboth.1
    have hne : (!j) ≠ j := by cases j <;> decide
    rw [sp.1 _ hne] at ho
    have hhas := race_ok_has d f st0 r0 hr (!j) ho
    have hdf : d (!j) = d j ∧ f (!j) = f j := by
      cases j
      · exact ⟨hsame.1.symm, hsame.2.symm⟩
      · exact hsame
    rw [hdf.1, hdf.2, (sp.2.2.1 hj).1] at hhas
    cases hhas

/-- the general form: whenever the two callers aim at the same (date, folder), not only when all their
arguments coincide — stated for arbitrary callers `i ≠ j` -/
theorem race_one_winner' (d f : Bool → Str) (st0 : DStore) (r : Race) (h : RaceReach d f st0 r)
    (i j : Bool) (hij : i ≠ j) (hd : d i = d j) (hf : f i = f j) : ¬ (r.pc i = .ok ∧ r.pc j = .ok) := by
  have hsame : d false = d true ∧ f false = f true := by
    cases i <;> cases j <;> first | exact absurd rfl hij | exact ⟨hd, hf⟩ | exact ⟨hd.symm, hf.symm⟩
  have := race_one_winner d f st0 r h hsame
  cases i <;> cases j <;> first | exact absurd rfl hij | exact this | exact fun h => this ⟨h.2, h.1⟩

/-- every caller finishes within three steps (progress): a step is enabled unless the caller is done -/
theorem race_step_enabled (d f : Bool → Str) (r : Race) (i : Bool) :
    (raceStep d f r i).isSome = true ↔ (r.pc i ≠ .ok ∧ r.pc i ≠ .failed) := by
  simp only [raceStep]
  split
  next hpc => split <;> simp [hpc]
  next hpc => split <;> simp [hpc]
  next hpc =>
    split
    · split <;> simp [hpc]
    · simp [hpc]
  next hpc => simp [hpc]
  next hpc => simp [hpc]

/-- the program counter only moves forward: ensure → check → (mkdir | failed) → (ok | failed) -/
def pcRank : MkPC → Nat
  | .ensure => 0 | .check => 1 | .mkdir => 2 | .ok => 3 | .failed => 3

theorem race_step_rank (d f : Bool → Str) (r r' : Race) (i : Bool) (hs : raceStep d f r i = some r') :
    pcRank (r.pc i) < pcRank (r'.pc i) := by
  simp only [raceStep] at hs
  split at hs
  next hpc => split at hs <;> (injection hs with hs; subst hs; simp [hpc, pcRank])
  next hpc => split at hs <;> (injection hs with hs; subst hs; simp [hpc, pcRank])
  next hpc =>
    split at hs
    · split at hs <;> (injection hs with hs; subst hs; simp [hpc, pcRank])
    · injection hs with hs; subst hs; simp [hpc, pcRank]
  next hpc => cases hs
  next hpc => cases hs

end QmiModel.C17.RaceL
