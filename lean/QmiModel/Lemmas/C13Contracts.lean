import QmiModel.Lemmas.C13Loops
import QmiModel.Lemmas.C13Find
/-!
# C13 helper lemmas, part 4: the per-call contracts (exactly n / shortest message / at most n)
-/
namespace QmiModel.Transport

/-- every byte string the call can return satisfies `P` -/
def RetOK (P : Bytes → Prop) (r : St × Out) : Prop := ∀ bs, r.2 = .ret bs → P bs

theorem retOK_exc (P : Bytes → Prop) (s : St) (e : Exc) : RetOK P (s, .exc e) := by
  intro bs h; cases h

theorem retOK_takeBuf_len {s : St} {n : Nat} (h : n ≤ s.buf.length) :
    RetOK (fun bs => bs.length = n) (takeBuf s n) := by
  intro bs hb
  simp only [takeBuf, Out.ret.injEq] at hb
  subst hb
  simp only [List.length_take]; omega

/-! ## exactly n -/

theorem sockReadLoop_len (n : Nat) (timeout : Option Int) (tstart : Nat) :
    ∀ (fuel : Nat) (tremain : Option Int) (s : St),
      RetOK (fun bs => bs.length = n) (sockReadLoop n timeout tstart fuel tremain s) := by
  intro fuel
  induction fuel with
  | zero =>
    intro tremain s
    simp only [sockReadLoop]
    split
    · exact retOK_takeBuf_len ‹_›
    · exact retOK_exc _ _ _
  | succ fuel ih =>
    intro tremain s
    simp only [sockReadLoop]
    repeat' split
    all_goals first
      | exact retOK_exc _ _ _
      | exact ih _ _
      | exact retOK_takeBuf_len ‹_›

theorem sockRead_len (s : St) (n : Nat) (t : Option Int) :
    RetOK (fun bs => bs.length = n) (sockRead s n t) := by
  simp only [sockRead]
  split
  · exact retOK_exc _ _ _
  · exact sockReadLoop_len _ _ _ _ _ _

theorem serReadFinish_len (s : St) (n : Nat) : RetOK (fun bs => bs.length = n) (serReadFinish s n) := by
  simp only [serReadFinish]
  split
  · exact retOK_exc _ _ _
  · split
    · exact retOK_exc _ _ _
    · rename_i h1 h2
      intro bs hb
      simp only [takeAll, Out.ret.injEq] at hb
      subst hb
      omega

theorem serialRead_len (s : St) (n : Nat) (t : Option Int) :
    RetOK (fun bs => bs.length = n) (serialRead s n t) := by
  simp only [serialRead]
  repeat' split
  all_goals first
    | exact retOK_exc _ _ _
    | exact serReadFinish_len _ _
    | exact retOK_takeBuf_len ‹_›

/-! ## shortest message -/

theorem retOK_takeMsg {s : St} {term : Bytes} {p : Nat} (h : findSub term s.buf = some p) :
    RetOK (Shortest term) (takeMsg s p term) := by
  intro bs hb
  simp only [takeMsg, takeBuf, Out.ret.injEq] at hb
  subst hb
  exact shortest_of_first h

theorem sockUntilLoop_shortest (term : Bytes) (timeout : Option Int) (tstart : Nat) :
    ∀ (fuel : Nat) (tremain : Option Int) (s : St),
      RetOK (Shortest term) (sockUntilLoop term timeout tstart fuel tremain s) := by
  intro fuel
  induction fuel with
  | zero => intro tremain s; exact retOK_exc _ _ _
  | succ fuel ih =>
    intro tremain s
    simp only [sockUntilLoop]
    repeat' split
    all_goals first
      | exact retOK_exc _ _ _
      | exact ih _ _
      | exact retOK_takeMsg ‹_›

theorem sockUntil_shortest (s : St) (term : Bytes) (t : Option Int) :
    RetOK (Shortest term) (sockUntil s term t) := by
  simp only [sockUntil]
  repeat' split
  all_goals first
    | exact retOK_exc _ _ _
    | exact sockUntilLoop_shortest _ _ _ _ _ _
    | exact retOK_takeMsg ‹_›

theorem serUntilLoop_shortest (term : Bytes) (timeout : Option Int) (tstart : Nat) :
    ∀ (fuel : Nat) (tremain : Option Int) (s : St), NoOcc term s.buf →
      RetOK (Shortest term) (serUntilLoop term timeout tstart fuel tremain s) := by
  intro fuel
  induction fuel with
  | zero =>
    intro tremain s _
    simp only [serUntilLoop]
    split <;> exact retOK_exc _ _ _
  | succ fuel ih =>
    intro tremain s hno
    simp only [serUntilLoop]
    split
    · exact retOK_exc _ _ _
    · have hR := serRead_spec s 1
      generalize serRead s 1 = rr at *
      obtain ⟨s1, ob⟩ := rr
      obtain ⟨_, hB, _, hM⟩ := hR
      cases ob with
      | none => exact retOK_exc _ _ _
      | some b =>
        simp only at hB hM ⊢
        have hb : b.length ≤ 1 := hM.2
        rw [hB]
        split
        · rename_i he
          intro bs hbs
          simp only [takeAll, Out.ret.injEq] at hbs
          subst hbs
          exact shortest_of_endsWith hno hb he
        · rename_i he
          have hno' : NoOcc term (s.buf ++ b) := noOcc_step hno hb he
          cases timeout with
          | none => exact ih _ _ (by simpa [hB] using hno')
          | some t => exact ih _ _ (by simpa [hB] using hno')

theorem serialUntil_shortest (s : St) (term : Bytes) (t : Option Int) :
    RetOK (Shortest term) (serialUntil s term t) := by
  rw [serialUntil_eq]
  split
  · exact retOK_exc _ _ _
  · split
    · exact retOK_takeMsg ‹_›
    · exact serUntilLoop_shortest _ _ _ _ _ _ (findSub_none ‹_›)

/-! ## at most n (`read_until_timeout`) -/

/-- `read` reports end of input only while fewer than `n` bytes are buffered (every transport kind) -/
theorem sockReadLoop_eof_lt (n : Nat) (timeout : Option Int) (tstart : Nat) :
    ∀ (fuel : Nat) (tremain : Option Int) (s : St),
      (sockReadLoop n timeout tstart fuel tremain s).2 = .exc .eof →
        (sockReadLoop n timeout tstart fuel tremain s).1.buf.length < n := by
  intro fuel
  induction fuel with
  | zero =>
    intro tremain s h
    simp only [sockReadLoop] at h
    split at h <;> simp [takeBuf] at h
  | succ fuel ih =>
    intro tremain s h
    simp only [sockReadLoop] at h ⊢
    split at h
    · simp [takeBuf] at h
    · rename_i hlt
      simp only [hlt, if_false] at ⊢
      have hEb := setTimeout_buf s tremain
      generalize setTimeout s tremain = st at *
      obtain ⟨s0, ok⟩ := st
      cases ok with
      | false => simp at h
      | true =>
        have hEb' : s0.buf.length = s.buf.length := congrArg List.length hEb
        simp only at h ⊢
        have hR := readFromSocket_spec s0 (max (n - s.buf.length) s.minP)
        generalize readFromSocket s0 (max (n - s.buf.length) s.minP) = rr at *
        obtain ⟨s1, ro⟩ := rr
        obtain ⟨_, hB, _⟩ := hR
        have hB' : s1.buf.length = s.buf.length := (congrArg List.length hB).trans hEb'
        cases ro with
        | timeout => simp at h
        | exhausted => simp at h
        | runtime => simp at h
        | eof => simp only; omega
        | ok b =>
          simp only at h ⊢
          cases timeout with
          | none => exact ih _ _ h
          | some t =>
            simp only at h ⊢
            split
            · rename_i hneg; simp [hneg] at h
            · rename_i hneg
              simp only [hneg, if_false] at h
              exact ih _ _ h

/-- socket `read_until_timeout`, every kind and every packet-size constant: at most `n` bytes -/
theorem sockRut_le (s : St) (n : Nat) (t : Option Int) :
    RetOK (fun bs => bs.length ≤ n) (sockRut s n t) := by
  have hlen := sockRead_len s n t
  have heof : (sockRead s n t).2 = .exc .eof → (sockRead s n t).1.buf.length < n := by
    intro he
    simp only [sockRead] at he ⊢
    split at he
    · simp at he
    · rename_i ho
      simp only [ho]
      exact sockReadLoop_eof_lt _ _ _ _ _ _ he
  simp only [sockRut]
  generalize sockRead s n t = r at *
  obtain ⟨s1, o⟩ := r
  cases o with
  | unit => intro bs h; cases h
  | ret bs =>
    intro bs' h
    have := hlen bs' h
    simp only at this; omega
  | exc e =>
    cases e with
    | timeout =>
      intro bs h
      simp only [takeBuf, Out.ret.injEq] at h
      subst h
      simp only [List.length_take]; omega
    | eof =>
      have hb := heof rfl
      simp only
      split
      · exact retOK_exc _ _ _
      · intro bs h
        simp only [takeAll, Out.ret.injEq] at h
        subst h; simp only at hb; omega
    | _ => exact retOK_exc _ _ _

theorem serReadFinish_timeout_lt {s s1 : St} {n : Nat} (h : serReadFinish s n = (s1, .exc .timeout)) :
    s1.buf.length < n := by
  simp only [serReadFinish] at h
  split at h
  · simp only [Prod.mk.injEq] at h
    rw [← h.1]; assumption
  · split at h
    · simp at h
    · simp [takeAll] at h

theorem serialRead_timeout_lt (s : St) (n : Nat) (t : Option Int) :
    ∀ s1, serialRead s n t = (s1, .exc .timeout) → s1.buf.length < n := by
  intro s1 h1
  simp only [serialRead] at h1
  repeat' split at h1
  all_goals first
    | exact serReadFinish_timeout_lt h1
    | (simp [takeBuf] at h1; done)

end QmiModel.Transport
