import QmiModel.Lemmas.C01Basic
/-! A call never receives another call's outcome: every non-error outcome stored in a future (or travelling
towards it) was produced by the worker *for that request*. Holds for every `Cfg`. -/
namespace QmiModel.Rpc

variable (cfg : Cfg) (attr : ReqId → Attr)

def Own (s : State) (r : ReqId) (o : Outcome) : Prop := o = .deliveryErr ∨ (r, o) ∈ s.executed

structure OInv (s : State) : Prop where
  res  : ∀ r o, s.result r = some o → Own s r o
  bq   : ∀ r o, Cb.sendRep r o ∈ s.bQ → Own s r o
  wire : ∀ r o, Msg.rep r o ∈ s.wireBA → Own s r o

theorem oinv_init : OInv init := by
  constructor <;> intro r o h <;> simp [init] at h

theorem own_setRes {s : State} {f : ReqId → Option Outcome} {x : ReqId} {ox : Outcome}
    (hf : ∀ r o, f r = some o → Own s r o) (hx : Own s x ox) :
    ∀ r o, setRes f x ox r = some o → Own s r o := by
  intro r o h
  rcases setRes_some h with h1 | ⟨_, h2, h3⟩
  · exact hf r o h1
  · subst h2; subst h3; exact hx

theorem own_setAll {s : State} {f : ReqId → Option Outcome} {xs : List ReqId}
    (hf : ∀ r o, f r = some o → Own s r o) :
    ∀ r o, setAll f xs .deliveryErr r = some o → Own s r o := by
  intro r o h
  rcases setAll_some h with h1 | ⟨_, _, h3⟩
  · exact hf r o h1
  · exact Or.inl h3

theorem route_oinv {s : State} {x : ReqId} {ox : Outcome} (hi : OInv s) (hx : Own s x ox) :
    OInv (route attr s x ox) := by
  have c := route_core attr s x ox
  have up : ∀ r o, Own s r o → Own (route attr s x ox) r o := by
    intro r o h; unfold Own at *; rw [c.executed]; exact h
  refine ⟨?_, ?_, ?_⟩
  · intro r o h
    rcases route_cases attr s x ox with e | e | e <;> rw [e] at h
    · exact up _ _ (own_setRes hi.res hx r o h)
    · exact up _ _ (hi.res r o h)
    · exact up _ _ (hi.res r o h)
  · intro r o h
    rcases route_bQ attr s x ox with e | e <;> rw [e] at h
    · exact up _ _ (hi.bq r o h)
    · simp only [List.mem_append, List.mem_singleton] at h
      rcases h with h | h
      · exact up _ _ (hi.bq r o h)
      · injection h with h1 h2; subst h1; subst h2; exact up _ _ hx
  · intro r o h
    rw [c.wireBA] at h; exact up _ _ (hi.wire r o h)

theorem routeAll_oinv {s : State} (xs : List ReqId) (hi : OInv s) :
    OInv (routeAll attr s xs .deliveryErr) := by
  induction xs generalizing s with
  | nil => exact hi
  | cons x xs ih => rw [routeAll_cons]; exact ih (route_oinv attr hi (Or.inl rfl))

theorem oinv_step {s s' : State} {a : Act} (hi : OInv s) (h : step cfg attr s a = some s') : OInv s' := by
  obtain ⟨i1, i2, i3⟩ := hi
  have derr : ∀ (t : State) r, Own t r .deliveryErr := fun _ _ => Or.inl rfl
  cases a <;> simp only [step] at h
  case finish o =>
    split at h
    · next x hph =>
      split at h
      · simp at h
      · split at h
        · simp at h; subst h; exact ⟨i1, i2, i3⟩
        · simp at h; subst h
          refine route_oinv attr ⟨?_, ?_, ?_⟩ (Or.inr (by simp))
          · intro r o hm; rcases i1 r o hm with h1 | h1
            · exact Or.inl h1
            · exact Or.inr (List.mem_append_left _ h1)
          · intro r o hm; rcases i2 r o hm with h1 | h1
            · exact Or.inl h1
            · exact Or.inr (List.mem_append_left _ h1)
          · intro r o hm; rcases i3 r o hm with h1 | h1
            · exact Or.inl h1
            · exact Or.inr (List.mem_append_left _ h1)
    · simp at h
  case drain =>
    split at h
    · split at h
      · simp at h; subst h
        exact routeAll_oinv attr _ ⟨i1, i2, i3⟩
      · simp at h
    · simp at h
  case send x =>
    split at h
    · split at h
      · split at h <;> simp at h <;> subst h
        · exact ⟨i1, i2, i3⟩
        · exact ⟨own_setRes (s := s) i1 (Or.inl rfl), i2, i3⟩
      · split at h <;> simp at h <;> subst h
        · exact ⟨own_setRes (s := s) i1 (Or.inl rfl), i2, i3⟩
        · exact ⟨i1, i2, i3⟩
    · simp at h
  case loopA =>
    split at h
    · simp at h
    · split at h
      · simp at h
      · split at h
        · simp at h; subst h; exact ⟨own_setRes (s := s) i1 (Or.inl rfl), i2, i3⟩
        · split at h
          · split at h <;> simp at h <;> subst h
            · exact ⟨i1, i2, i3⟩
            · exact ⟨own_setRes (s := s) i1 (Or.inl rfl), i2, i3⟩
          · split at h <;> simp at h <;> subst h
            · exact ⟨own_setRes (s := s) i1 (Or.inl rfl), i2, i3⟩
            · exact ⟨i1, i2, i3⟩
      · simp at h; subst h; exact ⟨i1, i2, i3⟩
      · simp at h; subst h; exact ⟨own_setAll (s := s) i1, i2, i3⟩
      · simp at h; subst h; exact ⟨i1, i2, i3⟩
  case recvA =>
    split at h
    · simp at h
    · split at h
      · next x o w hw =>
        simp at h; subst h
        refine ⟨own_setRes (s := s) i1 (i3 x o (by rw [hw]; simp)), i2, ?_⟩
        intro r o' hm; exact i3 r o' (by rw [hw]; exact List.mem_cons_of_mem _ hm)
      · next x w hw =>
        simp at h; subst h
        refine ⟨i1, i2, ?_⟩
        intro r o' hm; exact i3 r o' (by rw [hw]; exact List.mem_cons_of_mem _ hm)
      · simp at h
  case eofA =>
    split at h
    · simp at h; subst h; exact ⟨own_setAll (s := s) i1, i2, i3⟩
    · simp at h
  case loopB =>
    split at h
    · simp at h
    · split at h
      · simp at h
      · next x o q hbq =>
        have t2 : ∀ r o', Cb.sendRep r o' ∈ q → Own s r o' := fun r o' hm => i2 r o' (by rw [hbq]; exact List.mem_cons_of_mem _ hm)
        have hx : Own s x o := i2 x o (by rw [hbq]; simp)
        have t3 : ∀ (ox : Outcome), Own s x ox → ∀ r o', Msg.rep r o' ∈ s.wireBA ++ [Msg.rep x ox] → Own s r o' := by
          intro ox hox r o' hm
          simp only [List.mem_append, List.mem_singleton] at hm
          rcases hm with hm | hm
          · exact i3 r o' hm
          · injection hm with h1 h2; subst h1; subst h2; exact hox
        repeat' split at h
        all_goals
          simp at h; subst h
          first
            | exact ⟨i1, t2, i3⟩
            | exact ⟨i1, t2, t3 _ (Or.inl rfl)⟩
            | exact ⟨i1, t2, t3 _ hx⟩
      · next x q hbq =>
        simp at h; subst h
        exact ⟨i1, fun r o' hm => i2 r o' (by rw [hbq]; exact List.mem_cons_of_mem _ hm), i3⟩
      · next q hbq =>
        simp at h; subst h
        exact ⟨i1, fun r o' hm => i2 r o' (by rw [hbq]; exact List.mem_cons_of_mem _ hm), i3⟩
      · next q hbq =>
        simp at h; subst h
        exact ⟨i1, fun r o' hm => i2 r o' (by rw [hbq]; exact List.mem_cons_of_mem _ hm), i3⟩
  case loopExitB =>
    split at h
    · simp at h; subst h; exact ⟨i1, fun r o hm => by simp at hm, i3⟩
    · simp at h
  case recvB =>
    split at h
    · simp at h
    · split at h
      · split at h <;> simp at h <;> subst h
        · exact ⟨i1, i2, i3⟩
        · refine ⟨i1, i2, ?_⟩
          intro r o' hm
          simp only [List.mem_append, List.mem_singleton] at hm
          rcases hm with hm | hm
          · exact i3 r o' hm
          · injection hm with h1 h2; subst h2; exact Or.inl rfl
      · simp at h; subst h; exact ⟨i1, i2, i3⟩
      · simp at h
  case stopB =>
    split at h <;> simp at h; subst h
    refine ⟨i1, ?_, i3⟩
    intro r o hm
    simp only [List.mem_append, List.mem_cons, List.mem_singleton] at hm
    rcases hm with hm | hm | hm
    · exact i2 r o hm
    · cases hm
    · rcases hm with hm | hm <;> cases hm
  all_goals
    repeat' split at h
    all_goals first
      | (simp at h; done)
      | (simp at h; subst h; exact ⟨i1, i2, i3⟩)

end QmiModel.Rpc
