import QmiModel.Model.Hdf5Map
/-!
# C17 — DataSet ↔ HDF5 attribute mapping: write → read round trip

Lemmas about `QmiModel.C17.writeH` / `readH` (model of `write_dataset_to_hdf5` /
`read_dataset_from_hdf5` in qmi/data/dataset.py).  Core Lean only.
-/
namespace QmiModel.C17.Hdf5L
open QmiModel.C17

/-! ## decimal digits (same proofs as in `C17Attr`, which this file does not import) -/

theorem parseNat_concat (a : Str) (c : Nat) : parseNat (a ++ [c]) = parseNat a * 10 + (c - 48) := by
  simp [parseNat, List.foldl_append]

theorem natDigitsAux_spec (fuel : Nat) : ∀ (n : Nat) (acc : Str), n < fuel →
    ∃ ds, natDigitsAux fuel n acc = ds ++ acc ∧ ds ≠ [] ∧ (∀ x ∈ ds, isDigit x = true) ∧ parseNat ds = n := by
  induction fuel with
  | zero => intro n acc h; omega
  | succ fuel ih =>
    intro n acc h
    unfold natDigitsAux
    split
    · rename_i hn
      refine ⟨[48 + n], rfl, by simp, ?_, ?_⟩
      · intro x hx
        simp only [List.mem_singleton] at hx
        subst hx
        simp only [isDigit, Bool.and_eq_true, decide_eq_true_eq]; omega
      · simp [parseNat]
    · rename_i hn
      obtain ⟨ds, h1, h2, h3, h4⟩ := ih (n / 10) ((48 + n % 10) :: acc) (by omega)
      refine ⟨ds ++ [48 + n % 10], by rw [h1]; simp, by simp, ?_, ?_⟩
      · intro x hx
        rcases List.mem_append.1 hx with hx | hx
        · exact h3 x hx
        · simp only [List.mem_singleton] at hx
          subst hx
          simp only [isDigit, Bool.and_eq_true, decide_eq_true_eq]; omega
      · rw [parseNat_concat, h4]; omega

theorem natDigits_spec (n : Nat) :
    natDigits n ≠ [] ∧ (∀ x ∈ natDigits n, isDigit x = true) ∧ parseNat (natDigits n) = n := by
  obtain ⟨ds, h1, h2, h3, h4⟩ := natDigitsAux_spec (n + 1) n [] (by omega)
  unfold natDigits
  rw [h1, List.append_nil]
  exact ⟨h2, h3, h4⟩

theorem natDigits_inj {i j : Nat} (h : natDigits i = natDigits j) : i = j := by
  have h' := congrArg parseNat h
  rwa [(natDigits_spec i).2.2, (natDigits_spec j).2.2] at h'

/-- two strings "digits, then a non-digit, then anything" are equal only piecewise -/
theorem digit_split : ∀ (l1 l2 : Str) (c1 c2 : Nat) (r1 r2 : Str),
    (∀ x ∈ l1, isDigit x = true) → (∀ x ∈ l2, isDigit x = true) →
    isDigit c1 = false → isDigit c2 = false →
    l1 ++ c1 :: r1 = l2 ++ c2 :: r2 → l1 = l2 ∧ c1 :: r1 = c2 :: r2 := by
  intro l1
  induction l1 with
  | nil =>
    intro l2 c1 c2 r1 r2 _ h2 hc1 _ h
    cases l2 with
    | nil => exact ⟨rfl, by simpa using h⟩
    | cons y l2 =>
      simp only [List.nil_append, List.cons_append, List.cons.injEq] at h
      have := h2 y (by simp)
      rw [← h.1, hc1] at this
      cases this
  | cons x l1 ih =>
    intro l2 c1 c2 r1 r2 h1 h2 hc1 hc2 h
    cases l2 with
    | nil =>
      simp only [List.nil_append, List.cons_append, List.cons.injEq] at h
      have := h1 x (by simp)
      rw [h.1, hc2] at this
      cases this
    | cons y l2 =>
      simp only [List.cons_append, List.cons.injEq] at h
      obtain ⟨hxy, ht⟩ := h
      obtain ⟨e1, e2⟩ := ih l2 c1 c2 r1 r2 (fun z hz => h1 z (by simp [hz]))
        (fun z hz => h2 z (by simp [hz])) hc1 hc2 ht
      exact ⟨by rw [hxy, e1], e2⟩

theorem digits_suffix_eq {i j c1 c2 : Nat} {r1 r2 : Str}
    (h1 : isDigit c1 = false) (h2 : isDigit c2 = false)
    (h : natDigits i ++ c1 :: r1 = natDigits j ++ c2 :: r2) : i = j ∧ c1 :: r1 = c2 :: r2 := by
  obtain ⟨e1, e2⟩ := digit_split _ _ _ _ _ _ (natDigits_spec i).2.1 (natDigits_spec j).2.1 h1 h2 h
  exact ⟨natDigits_inj e1, e2⟩

/-! ## the attribute store as a dictionary -/

theorem get_nil (k : Str) : HAttrs.get [] k = none := rfl

theorem get_cons (e : Str × HVal) (m : HAttrs) (k : Str) :
    HAttrs.get (e :: m) k = if e.1 = k then some e.2 else HAttrs.get m k := by
  by_cases h : e.1 = k <;> simp [HAttrs.get, h]

theorem get_put_self (m : HAttrs) (k : Str) (v : HVal) : (m.put k v).get k = some v := by
  induction m with
  | nil => simp [HAttrs.put, get_cons]
  | cons e rest ih =>
    by_cases h : e.1 = k
    · simp [HAttrs.put, h, get_cons]
    · simp [HAttrs.put, h, get_cons, ih]

theorem get_put_other (m : HAttrs) (k k' : Str) (v : HVal) (hne : k' ≠ k) :
    (m.put k v).get k' = m.get k' := by
  induction m with
  | nil => simp [HAttrs.put, get_cons, get_nil, Ne.symm hne]
  | cons e rest ih =>
    by_cases h : e.1 = k
    · simp [HAttrs.put, h, get_cons, Ne.symm hne]
    · simp [HAttrs.put, h, get_cons, ih]

theorem get_put (m : HAttrs) (k k' : Str) (v : HVal) :
    (m.put k v).get k' = if k' = k then some v else m.get k' := by
  by_cases h : k' = k
  · subst h; simp [get_put_self]
  · simp [h, get_put_other _ _ _ _ h]

theorem get_filter (p : Str → Bool) (m : HAttrs) (k : Str) :
    HAttrs.get (m.filter (fun e => p e.1)) k = if p k then HAttrs.get m k else none := by
  induction m with
  | nil => simp [get_nil]
  | cons e rest ih =>
    by_cases hp : p e.1 = true
    · rw [List.filter_cons_of_pos (by simpa using hp), get_cons, get_cons, ih]
      by_cases hk : e.1 = k
      · subst hk; simp [hp]
      · simp [hk]
    · rw [List.filter_cons_of_neg (by simpa using hp), get_cons, ih]
      by_cases hk : e.1 = k
      · subst hk; simp [hp]
      · simp [hk]

theorem get_eq_none_of_forall (m : HAttrs) (k : Str) (h : ∀ e ∈ m, e.1 ≠ k) : HAttrs.get m k = none := by
  induction m with
  | nil => rfl
  | cons e rest ih =>
    rw [get_cons, if_neg (h e (by simp))]
    exact ih (fun e' he' => h e' (by simp [he']))

theorem get_eq_none_of_not_mem (m : HAttrs) (k : Str) (h : k ∉ m.map (·.1)) : HAttrs.get m k = none := by
  apply get_eq_none_of_forall
  intro e he hk
  exact h (List.mem_map.2 ⟨e, he, hk⟩)

/-! ## reserved names -/

theorem reserved_prefix (x : Str) : reservedH5 (kPrefix ++ x) = true := by
  simp [reservedH5, startsWith, kPrefix]

theorem reserved_marker : reservedH5 kMarker = true := by decide
theorem reserved_timestamp : reservedH5 kTimestamp = true := reserved_prefix _
theorem reserved_timeStr : reservedH5 kTimeStr = true := reserved_prefix _
theorem reserved_axisLabel (i : Nat) : reservedH5 (kAxisLabel i) = true := by
  unfold kAxisLabel; simp only [List.append_assoc]; exact reserved_prefix _
theorem reserved_axisUnit (i : Nat) : reservedH5 (kAxisUnit i) = true := by
  unfold kAxisUnit; simp only [List.append_assoc]; exact reserved_prefix _
theorem reserved_colLabel (i : Nat) : reservedH5 (kColLabel i) = true := by
  unfold kColLabel; simp only [List.append_assoc]; exact reserved_prefix _
theorem reserved_colUnit (i : Nat) : reservedH5 (kColUnit i) = true := by
  unfold kColUnit; simp only [List.append_assoc]; exact reserved_prefix _

theorem ne_of_reserved {k k' : Str} (h : reservedH5 k = false) (h' : reservedH5 k' = true) : k ≠ k' := by
  intro e; rw [e, h'] at h; cases h

/-! ## the reserved keys are pairwise different -/

theorem nd95 : isDigit 95 = false := by decide

theorem axisLabel_inj {i j : Nat} (h : kAxisLabel i = kAxisLabel j) : i = j := by
  simp only [kAxisLabel, List.append_assoc, List.append_cancel_left_eq] at h
  exact (digits_suffix_eq nd95 nd95 h).1
theorem axisUnit_inj {i j : Nat} (h : kAxisUnit i = kAxisUnit j) : i = j := by
  simp only [kAxisUnit, List.append_assoc, List.append_cancel_left_eq] at h
  exact (digits_suffix_eq nd95 nd95 h).1
theorem colLabel_inj {i j : Nat} (h : kColLabel i = kColLabel j) : i = j := by
  simp only [kColLabel, List.append_assoc, List.append_cancel_left_eq] at h
  exact (digits_suffix_eq nd95 nd95 h).1
theorem colUnit_inj {i j : Nat} (h : kColUnit i = kColUnit j) : i = j := by
  simp only [kColUnit, List.append_assoc, List.append_cancel_left_eq] at h
  exact (digits_suffix_eq nd95 nd95 h).1

theorem axisLabel_ne_axisUnit (i j : Nat) : kAxisLabel i ≠ kAxisUnit j := by
  intro h
  simp only [kAxisLabel, kAxisUnit, List.append_assoc, List.append_cancel_left_eq] at h
  have := (digits_suffix_eq nd95 nd95 h).2
  revert this; decide
theorem colLabel_ne_colUnit (i j : Nat) : kColLabel i ≠ kColUnit j := by
  intro h
  simp only [kColLabel, kColUnit, List.append_assoc, List.append_cancel_left_eq] at h
  have := (digits_suffix_eq nd95 nd95 h).2
  revert this; decide

theorem axisLabel_ne_colLabel (i j : Nat) : kAxisLabel i ≠ kColLabel j := by
  intro h; simp [kAxisLabel, kColLabel, kPrefix, sAxis, sColumn] at h
theorem axisLabel_ne_colUnit (i j : Nat) : kAxisLabel i ≠ kColUnit j := by
  intro h; simp [kAxisLabel, kColUnit, kPrefix, sAxis, sColumn] at h
theorem axisUnit_ne_colLabel (i j : Nat) : kAxisUnit i ≠ kColLabel j := by
  intro h; simp [kAxisUnit, kColLabel, kPrefix, sAxis, sColumn] at h
theorem axisUnit_ne_colUnit (i j : Nat) : kAxisUnit i ≠ kColUnit j := by
  intro h; simp [kAxisUnit, kColUnit, kPrefix, sAxis, sColumn] at h

theorem timestamp_ne_timeStr : kTimestamp ≠ kTimeStr := by decide
theorem timestamp_ne_marker : kTimestamp ≠ kMarker := by decide
theorem timeStr_ne_marker : kTimeStr ≠ kMarker := by decide

theorem axisLabel_ne_timestamp (i : Nat) : kAxisLabel i ≠ kTimestamp := by
  intro h; simp [kAxisLabel, kTimestamp, kPrefix, sAxis, sTimestamp] at h
theorem axisUnit_ne_timestamp (i : Nat) : kAxisUnit i ≠ kTimestamp := by
  intro h; simp [kAxisUnit, kTimestamp, kPrefix, sAxis, sTimestamp] at h
theorem colLabel_ne_timestamp (i : Nat) : kColLabel i ≠ kTimestamp := by
  intro h; simp [kColLabel, kTimestamp, kPrefix, sColumn, sTimestamp] at h
theorem colUnit_ne_timestamp (i : Nat) : kColUnit i ≠ kTimestamp := by
  intro h; simp [kColUnit, kTimestamp, kPrefix, sColumn, sTimestamp] at h

theorem axisLabel_ne_timeStr (i : Nat) : kAxisLabel i ≠ kTimeStr := by
  intro h; simp [kAxisLabel, kTimeStr, kPrefix, sAxis, sTimeStr] at h
theorem axisUnit_ne_timeStr (i : Nat) : kAxisUnit i ≠ kTimeStr := by
  intro h; simp [kAxisUnit, kTimeStr, kPrefix, sAxis, sTimeStr] at h
theorem colLabel_ne_timeStr (i : Nat) : kColLabel i ≠ kTimeStr := by
  intro h; simp [kColLabel, kTimeStr, kPrefix, sColumn, sTimeStr] at h
theorem colUnit_ne_timeStr (i : Nat) : kColUnit i ≠ kTimeStr := by
  intro h; simp [kColUnit, kTimeStr, kPrefix, sColumn, sTimeStr] at h

theorem axisLabel_ne_marker (i : Nat) : kAxisLabel i ≠ kMarker := by
  intro h; simp [kAxisLabel, kMarker, kPrefix, sAxis] at h
theorem axisUnit_ne_marker (i : Nat) : kAxisUnit i ≠ kMarker := by
  intro h; simp [kAxisUnit, kMarker, kPrefix, sAxis] at h
theorem colLabel_ne_marker (i : Nat) : kColLabel i ≠ kMarker := by
  intro h; simp [kColLabel, kMarker, kPrefix, sColumn] at h
theorem colUnit_ne_marker (i : Nat) : kColUnit i ≠ kMarker := by
  intro h; simp [kColUnit, kMarker, kPrefix, sColumn] at h

/-! ## the label / unit loop -/

theorem get_putNonEmpty_other (m : HAttrs) (k k' v : Str) (hne : k' ≠ k) :
    (putNonEmpty m k v).get k' = m.get k' := by
  unfold putNonEmpty
  split
  · rfl
  · exact get_put_other _ _ _ _ hne

theorem get_putNonEmpty_self (m : HAttrs) (k v : Str) :
    (putNonEmpty m k v).get k = if v = [] then m.get k else some (.s v) := by
  unfold putNonEmpty
  by_cases h : v = []
  · subst h; simp
  · have : v.isEmpty = false := by
      cases v with
      | nil => exact absurd rfl h
      | cons _ _ => rfl
    simp [this, h, get_put_self]

/-- keys that are none of the loop's keys keep their value -/
theorem putLabels_untouched (kl ku : Nat → Str) (labels units : List Str) :
    ∀ (cnt i : Nat) (m : HAttrs) (k : Str),
      (∀ j, i ≤ j → j < i + cnt → k ≠ kl j ∧ k ≠ ku j) →
      (putLabels kl ku labels units cnt i m).get k = m.get k := by
  intro cnt
  induction cnt with
  | zero => intro i m k _; rfl
  | succ cnt ih =>
    intro i m k h
    simp only [putLabels]
    rw [ih (i + 1) _ k (fun j h1 h2 => h j (by omega) (by omega))]
    obtain ⟨hl, hu⟩ := h i (Nat.le_refl _) (by omega)
    rw [get_putNonEmpty_other _ _ _ _ hu, get_putNonEmpty_other _ _ _ _ hl]

/-- after the loop over `i … i+cnt-1`, a label/unit key of that range holds the non-empty
label/unit, or is as before when the label/unit is empty -/
theorem putLabels_spec (kl ku : Nat → Str) (labels units : List Str)
    (hl : ∀ i j, kl i = kl j → i = j) (hu : ∀ i j, ku i = ku j → i = j)
    (hlu : ∀ i j, kl i ≠ ku j) :
    ∀ (cnt i : Nat) (m : HAttrs) (j : Nat), i ≤ j → j < i + cnt →
      (putLabels kl ku labels units cnt i m).get (kl j)
          = (if labels.getD j [] = [] then m.get (kl j) else some (.s (labels.getD j []))) ∧
      (putLabels kl ku labels units cnt i m).get (ku j)
          = (if units.getD j [] = [] then m.get (ku j) else some (.s (units.getD j []))) := by
  intro cnt
  induction cnt with
  | zero => intro i m j h1 h2; omega
  | succ cnt ih =>
    intro i m j h1 h2
    simp only [putLabels]
    by_cases hj : j = i
    · subst hj
      have e1 := putLabels_untouched kl ku labels units cnt (j + 1)
        (putNonEmpty (putNonEmpty m (kl j) (labels.getD j [])) (ku j) (units.getD j [])) (kl j)
        (fun j' h1' _ => ⟨fun e => by have := hl _ _ e; omega, hlu _ _⟩)
      have e2 := putLabels_untouched kl ku labels units cnt (j + 1)
        (putNonEmpty (putNonEmpty m (kl j) (labels.getD j [])) (ku j) (units.getD j [])) (ku j)
        (fun j' h1' _ => ⟨fun e => hlu _ _ e.symm, fun e => by have := hu _ _ e; omega⟩)
      rw [e1, e2]
      constructor
      · rw [get_putNonEmpty_other _ _ _ _ (hlu _ _), get_putNonEmpty_self]
      · rw [get_putNonEmpty_self, get_putNonEmpty_other _ _ _ _ (fun e => hlu _ _ e.symm)]
    · obtain ⟨a, b⟩ := ih (i + 1)
        (putNonEmpty (putNonEmpty m (kl i) (labels.getD i [])) (ku i) (units.getD i [])) j
        (by omega) (by omega)
      rw [a, b]
      constructor
      · rw [get_putNonEmpty_other _ _ _ _ (hlu _ _),
          get_putNonEmpty_other _ _ _ _ (fun e => hj (hl _ _ e))]
      · rw [get_putNonEmpty_other _ _ _ _ (fun e => hj (hu _ _ e)),
          get_putNonEmpty_other _ _ _ _ (fun e => hlu _ _ e.symm)]

/-! ## the custom attribute loop -/

def foldPut (m : HAttrs) (l : List (Str × HVal)) : HAttrs := l.foldl (fun m e => m.put e.1 e.2) m

theorem putCustom_ok (l : List (Str × HVal)) (h : ∀ e ∈ l, reservedH5 e.1 = false) :
    ∀ m, putCustom m l = .ok (foldPut m l) := by
  induction l with
  | nil => intro m; rfl
  | cons e rest ih =>
    intro m
    obtain ⟨k, v⟩ := e
    have hk : reservedH5 k = false := h (k, v) (by simp)
    simp only [putCustom, hk, Bool.false_eq_true, if_false]
    rw [ih (fun e he => h e (by simp [he]))]
    rfl

theorem putCustom_reserved (l : List (Str × HVal)) (h : ∃ e ∈ l, reservedH5 e.1 = true) :
    ∀ m, putCustom m l = .error .valueError := by
  induction l with
  | nil => obtain ⟨e, he, _⟩ := h; cases he
  | cons e rest ih =>
    intro m
    obtain ⟨k, v⟩ := e
    by_cases hk : reservedH5 k = true
    · simp [putCustom, hk]
    · obtain ⟨e', he', hr⟩ := h
      have : e' ∈ rest := by
        rcases List.mem_cons.1 he' with rfl | h'
        · exact absurd hr hk
        · exact h'
      simp only [putCustom, hk]
      exact ih ⟨e', this, hr⟩ _

/-- with distinct keys the custom loop is a dictionary update: custom keys get their value,
all other keys keep theirs -/
theorem get_foldPut (l : List (Str × HVal)) (hnd : (l.map (·.1)).Nodup) :
    ∀ (m : HAttrs) (k : Str), (foldPut m l).get k = (HAttrs.get l k).or (m.get k) := by
  induction l with
  | nil => intro m k; simp [foldPut, get_nil]
  | cons e rest ih =>
    intro m k
    simp only [List.map_cons, List.nodup_cons] at hnd
    have := ih hnd.2 (m.put e.1 e.2) k
    simp only [foldPut, List.foldl_cons] at this ⊢
    rw [this, get_cons, get_put]
    by_cases hk : e.1 = k
    · subst hk
      simp [get_eq_none_of_not_mem _ _ hnd.1]
    · have hk' : ¬ k = e.1 := fun e' => hk e'.symm
      simp [hk, hk']

/-! ## `writeH` / `readH` -/

structure WF (d : DSMeta) (naxes ncol : Nat) : Prop where
  al : d.axisLabel.length = naxes
  au : d.axisUnit.length = naxes
  sc : d.scales.length = naxes
  cl : d.colLabel.length = ncol
  cu : d.colUnit.length = ncol
  keys_nodup   : (d.attrs.map (·.1)).Nodup
  not_reserved : ∀ e ∈ d.attrs, reservedH5 e.1 = false

def attrs0 (d : DSMeta) (timeStr : Str) : HAttrs :=
  HAttrs.put (HAttrs.put [] kTimestamp d.ts) kTimeStr (.s timeStr)
def attrs1 (d : DSMeta) (naxes : Nat) (timeStr : Str) : HAttrs :=
  putLabels kAxisLabel kAxisUnit d.axisLabel d.axisUnit naxes 0 (attrs0 d timeStr)
def attrs2 (d : DSMeta) (naxes ncol : Nat) (timeStr : Str) : HAttrs :=
  putLabels kColLabel kColUnit d.colLabel d.colUnit ncol 0 (attrs1 d naxes timeStr)
/-- the attribute store of the written HDF5 dataset -/
def attrsF (d : DSMeta) (naxes ncol : Nat) (timeStr : Str) : HAttrs :=
  (foldPut (attrs2 d naxes ncol timeStr) d.attrs).put kMarker (.n 1)

theorem writeH_ok (d : DSMeta) (naxes ncol : Nat) (timeStr : Str)
    (h : ∀ e ∈ d.attrs, reservedH5 e.1 = false) :
    writeH d naxes ncol timeStr = .ok
      { name := d.name, attrs := attrsF d naxes ncol timeStr,
        dimLabel := (List.range naxes).map (fun i => d.axisLabel.getD i []),
        dimScale := (List.range naxes).map (fun i => d.scales.getD i none) } := by
  simp only [writeH, putCustom_ok d.attrs h]
  rfl

/-- a custom attribute with a reserved name makes the writer raise ValueError -/
theorem reserved_rejected (d : DSMeta) (naxes ncol : Nat) (timeStr : Str)
    (h : ∃ e ∈ d.attrs, reservedH5 e.1 = true) : writeH d naxes ncol timeStr = .error .valueError := by
  simp only [writeH, putCustom_reserved d.attrs h]

/-! ### what each stage holds -/

theorem attrs0_timestamp (d : DSMeta) (timeStr : Str) : (attrs0 d timeStr).get kTimestamp = some d.ts := by
  unfold attrs0
  rw [get_put_other _ _ _ _ timestamp_ne_timeStr, get_put_self]

theorem attrs0_other (d : DSMeta) (timeStr : Str) (k : Str) (h1 : k ≠ kTimestamp) (h2 : k ≠ kTimeStr) :
    (attrs0 d timeStr).get k = none := by
  unfold attrs0
  rw [get_put_other _ _ _ _ h2, get_put_other _ _ _ _ h1]; rfl

/-- reserved keys other than the marker are not touched by the custom loop / the marker write -/
theorem attrsF_reserved (d : DSMeta) (naxes ncol : Nat) (timeStr : Str)
    (hnd : (d.attrs.map (·.1)).Nodup) (hnr : ∀ e ∈ d.attrs, reservedH5 e.1 = false)
    (k : Str) (hk : reservedH5 k = true) (hm : k ≠ kMarker) :
    (attrsF d naxes ncol timeStr).get k = (attrs2 d naxes ncol timeStr).get k := by
  unfold attrsF
  rw [get_put_other _ _ _ _ hm, get_foldPut _ hnd,
    get_eq_none_of_forall d.attrs k (fun e he => ne_of_reserved (hnr e he) hk)]
  rfl

theorem attrsF_marker (d : DSMeta) (naxes ncol : Nat) (timeStr : Str) :
    (attrsF d naxes ncol timeStr).get kMarker = some (.n 1) := get_put_self _ _ _

theorem attrs2_timestamp (d : DSMeta) (naxes ncol : Nat) (timeStr : Str) :
    (attrs2 d naxes ncol timeStr).get kTimestamp = some d.ts := by
  unfold attrs2 attrs1
  rw [putLabels_untouched _ _ _ _ _ _ _ _
        (fun j _ _ => ⟨(colLabel_ne_timestamp j).symm, (colUnit_ne_timestamp j).symm⟩),
    putLabels_untouched _ _ _ _ _ _ _ _
        (fun j _ _ => ⟨(axisLabel_ne_timestamp j).symm, (axisUnit_ne_timestamp j).symm⟩)]
  exact attrs0_timestamp d timeStr

theorem attrs2_not_reserved (d : DSMeta) (naxes ncol : Nat) (timeStr : Str) (k : Str)
    (hk : reservedH5 k = false) : (attrs2 d naxes ncol timeStr).get k = none := by
  unfold attrs2 attrs1
  rw [putLabels_untouched _ _ _ _ _ _ _ _
        (fun j _ _ => ⟨ne_of_reserved hk (reserved_colLabel j), ne_of_reserved hk (reserved_colUnit j)⟩),
    putLabels_untouched _ _ _ _ _ _ _ _
        (fun j _ _ => ⟨ne_of_reserved hk (reserved_axisLabel j), ne_of_reserved hk (reserved_axisUnit j)⟩)]
  exact attrs0_other d timeStr k (ne_of_reserved hk reserved_timestamp) (ne_of_reserved hk reserved_timeStr)

theorem attrs2_axis (d : DSMeta) (naxes ncol : Nat) (timeStr : Str) (i : Nat) (hi : i < naxes) :
    (attrs2 d naxes ncol timeStr).get (kAxisLabel i)
        = (if d.axisLabel.getD i [] = [] then none else some (.s (d.axisLabel.getD i []))) ∧
    (attrs2 d naxes ncol timeStr).get (kAxisUnit i)
        = (if d.axisUnit.getD i [] = [] then none else some (.s (d.axisUnit.getD i []))) := by
  unfold attrs2
  rw [putLabels_untouched _ _ _ _ _ _ _ _
        (fun j _ _ => ⟨axisLabel_ne_colLabel i j, axisLabel_ne_colUnit i j⟩),
    putLabels_untouched _ _ _ _ _ _ _ _
        (fun j _ _ => ⟨axisUnit_ne_colLabel i j, axisUnit_ne_colUnit i j⟩)]
  unfold attrs1
  obtain ⟨a, b⟩ := putLabels_spec kAxisLabel kAxisUnit d.axisLabel d.axisUnit
    (fun _ _ => axisLabel_inj) (fun _ _ => axisUnit_inj) axisLabel_ne_axisUnit
    naxes 0 (attrs0 d timeStr) i (Nat.zero_le _) (by omega)
  rw [a, b, attrs0_other _ _ _ (axisLabel_ne_timestamp i) (axisLabel_ne_timeStr i),
    attrs0_other _ _ _ (axisUnit_ne_timestamp i) (axisUnit_ne_timeStr i)]
  exact ⟨rfl, rfl⟩

theorem attrs2_col (d : DSMeta) (naxes ncol : Nat) (timeStr : Str) (i : Nat) (hi : i < ncol) :
    (attrs2 d naxes ncol timeStr).get (kColLabel i)
        = (if d.colLabel.getD i [] = [] then none else some (.s (d.colLabel.getD i []))) ∧
    (attrs2 d naxes ncol timeStr).get (kColUnit i)
        = (if d.colUnit.getD i [] = [] then none else some (.s (d.colUnit.getD i []))) := by
  unfold attrs2
  obtain ⟨a, b⟩ := putLabels_spec kColLabel kColUnit d.colLabel d.colUnit
    (fun _ _ => colLabel_inj) (fun _ _ => colUnit_inj) colLabel_ne_colUnit
    ncol 0 (attrs1 d naxes timeStr) i (Nat.zero_le _) (by omega)
  rw [a, b]
  unfold attrs1
  rw [putLabels_untouched _ _ _ _ _ _ _ _
        (fun j _ _ => ⟨(axisLabel_ne_colLabel j i).symm, (axisUnit_ne_colLabel j i).symm⟩),
    putLabels_untouched _ _ _ _ _ _ _ _
        (fun j _ _ => ⟨(axisLabel_ne_colUnit j i).symm, (axisUnit_ne_colUnit j i).symm⟩),
    attrs0_other _ _ _ (colLabel_ne_timestamp i) (colLabel_ne_timeStr i),
    attrs0_other _ _ _ (colUnit_ne_timestamp i) (colUnit_ne_timeStr i)]
  exact ⟨rfl, rfl⟩

/-! ### the written store, key by key -/

theorem attrsF_timestamp (d : DSMeta) (naxes ncol : Nat) (timeStr : Str) (h : WF d naxes ncol) :
    (attrsF d naxes ncol timeStr).get kTimestamp = some d.ts := by
  rw [attrsF_reserved d naxes ncol timeStr h.keys_nodup h.not_reserved _ reserved_timestamp
    timestamp_ne_marker]
  exact attrs2_timestamp d naxes ncol timeStr

theorem attrsF_axisLabel (d : DSMeta) (naxes ncol : Nat) (timeStr : Str) (h : WF d naxes ncol)
    (i : Nat) (hi : i < naxes) :
    (attrsF d naxes ncol timeStr).get (kAxisLabel i)
      = (if d.axisLabel.getD i [] = [] then none else some (.s (d.axisLabel.getD i []))) := by
  rw [attrsF_reserved d naxes ncol timeStr h.keys_nodup h.not_reserved _ (reserved_axisLabel i)
    (axisLabel_ne_marker i)]
  exact (attrs2_axis d naxes ncol timeStr i hi).1

theorem attrsF_axisUnit (d : DSMeta) (naxes ncol : Nat) (timeStr : Str) (h : WF d naxes ncol)
    (i : Nat) (hi : i < naxes) :
    (attrsF d naxes ncol timeStr).get (kAxisUnit i)
      = (if d.axisUnit.getD i [] = [] then none else some (.s (d.axisUnit.getD i []))) := by
  rw [attrsF_reserved d naxes ncol timeStr h.keys_nodup h.not_reserved _ (reserved_axisUnit i)
    (axisUnit_ne_marker i)]
  exact (attrs2_axis d naxes ncol timeStr i hi).2

theorem attrsF_colLabel (d : DSMeta) (naxes ncol : Nat) (timeStr : Str) (h : WF d naxes ncol)
    (i : Nat) (hi : i < ncol) :
    (attrsF d naxes ncol timeStr).get (kColLabel i)
      = (if d.colLabel.getD i [] = [] then none else some (.s (d.colLabel.getD i []))) := by
  rw [attrsF_reserved d naxes ncol timeStr h.keys_nodup h.not_reserved _ (reserved_colLabel i)
    (colLabel_ne_marker i)]
  exact (attrs2_col d naxes ncol timeStr i hi).1

theorem attrsF_colUnit (d : DSMeta) (naxes ncol : Nat) (timeStr : Str) (h : WF d naxes ncol)
    (i : Nat) (hi : i < ncol) :
    (attrsF d naxes ncol timeStr).get (kColUnit i)
      = (if d.colUnit.getD i [] = [] then none else some (.s (d.colUnit.getD i []))) := by
  rw [attrsF_reserved d naxes ncol timeStr h.keys_nodup h.not_reserved _ (reserved_colUnit i)
    (colUnit_ne_marker i)]
  exact (attrs2_col d naxes ncol timeStr i hi).2

/-- the non-reserved part of the written store is exactly the custom attribute map -/
theorem attrsF_custom (d : DSMeta) (naxes ncol : Nat) (timeStr : Str) (h : WF d naxes ncol) (k : Str) :
    HAttrs.get ((attrsF d naxes ncol timeStr).filter (fun e => !reservedH5 e.1)) k
      = HAttrs.get d.attrs k := by
  rw [get_filter (fun k => !reservedH5 k)]
  by_cases hk : reservedH5 k = true
  · simp only [hk, Bool.not_true, Bool.false_eq_true, if_false]
    exact (get_eq_none_of_forall d.attrs k (fun e he => ne_of_reserved (h.not_reserved e he) hk)).symm
  · have hk' : reservedH5 k = false := by simpa using hk
    simp only [hk', Bool.not_false, if_true]
    unfold attrsF
    rw [get_put_other _ _ _ _ (ne_of_reserved hk' reserved_marker), get_foldPut _ h.keys_nodup,
      attrs2_not_reserved _ _ _ _ _ hk']
    simp

/-! ### the theorems -/

theorem h5_of_writeH {d : DSMeta} {naxes ncol : Nat} {timeStr : Str} {h5 : H5DS} (h : WF d naxes ncol)
    (hw : writeH d naxes ncol timeStr = .ok h5) :
    h5 = { name := d.name, attrs := attrsF d naxes ncol timeStr,
           dimLabel := (List.range naxes).map (fun i => d.axisLabel.getD i []),
           dimScale := (List.range naxes).map (fun i => d.scales.getD i none) } := by
  rw [writeH_ok d naxes ncol timeStr h.not_reserved] at hw
  injection hw with hw
  exact hw.symm

/-- empty label ↔ absent attribute; non-empty label ↔ attribute holding it -/
theorem empty_label_absent (d : DSMeta) (naxes ncol : Nat) (timeStr : Str) (h5 : H5DS) (h : WF d naxes ncol)
    (hw : writeH d naxes ncol timeStr = .ok h5) (i : Nat) (hi : i < naxes) :
    h5.attrs.get (kAxisLabel i)
      = (if d.axisLabel.getD i [] = [] then none else some (.s (d.axisLabel.getD i []))) := by
  rw [h5_of_writeH h hw]; exact attrsF_axisLabel d naxes ncol timeStr h i hi

theorem empty_axisUnit_absent (d : DSMeta) (naxes ncol : Nat) (timeStr : Str) (h5 : H5DS) (h : WF d naxes ncol)
    (hw : writeH d naxes ncol timeStr = .ok h5) (i : Nat) (hi : i < naxes) :
    h5.attrs.get (kAxisUnit i)
      = (if d.axisUnit.getD i [] = [] then none else some (.s (d.axisUnit.getD i []))) := by
  rw [h5_of_writeH h hw]; exact attrsF_axisUnit d naxes ncol timeStr h i hi

theorem empty_colLabel_absent (d : DSMeta) (naxes ncol : Nat) (timeStr : Str) (h5 : H5DS) (h : WF d naxes ncol)
    (hw : writeH d naxes ncol timeStr = .ok h5) (i : Nat) (hi : i < ncol) :
    h5.attrs.get (kColLabel i)
      = (if d.colLabel.getD i [] = [] then none else some (.s (d.colLabel.getD i []))) := by
  rw [h5_of_writeH h hw]; exact attrsF_colLabel d naxes ncol timeStr h i hi

theorem empty_colUnit_absent (d : DSMeta) (naxes ncol : Nat) (timeStr : Str) (h5 : H5DS) (h : WF d naxes ncol)
    (hw : writeH d naxes ncol timeStr = .ok h5) (i : Nat) (hi : i < ncol) :
    h5.attrs.get (kColUnit i)
      = (if d.colUnit.getD i [] = [] then none else some (.s (d.colUnit.getD i []))) := by
  rw [h5_of_writeH h hw]; exact attrsF_colUnit d naxes ncol timeStr h i hi

theorem getLabel_of_get {m : HAttrs} {k v : Str}
    (h : HAttrs.get m k = if v = [] then none else some (.s v)) : getLabel m k = v := by
  unfold getLabel
  rw [h]
  by_cases hv : v = []
  · simp [hv]
  · simp [hv]

theorem map_range_getD {α : Type} (l : List α) (n : Nat) (dflt : α) (h : l.length = n) :
    (List.range n).map (fun i => l.getD i dflt) = l := by
  subst h
  apply List.ext_getElem
  · simp
  · intro i h1 h2
    simp [List.getD_eq_getElem?_getD, h2]

theorem map_range_congr {α : Type} (n : Nat) (f g : Nat → α) (h : ∀ i, i < n → f i = g i) :
    (List.range n).map f = (List.range n).map g := by
  apply List.map_congr_left
  intro i hi
  exact h i (List.mem_range.1 hi)

theorem readH_ok (h5 : H5DS) (naxes ncol : Nat) (ts : HVal)
    (hm : h5.attrs.get kMarker = some (.n 1)) (ht : h5.attrs.get kTimestamp = some ts) :
    readH h5 naxes ncol = .ok
      { name := h5.name, ts := ts,
        axisLabel := (List.range naxes).map (fun i => getLabel h5.attrs (kAxisLabel i)),
        axisUnit := (List.range naxes).map (fun i => getLabel h5.attrs (kAxisUnit i)),
        colLabel := (List.range ncol).map (fun i => getLabel h5.attrs (kColLabel i)),
        colUnit := (List.range ncol).map (fun i => getLabel h5.attrs (kColUnit i)),
        scales := (List.range naxes).map (fun i => h5.dimScale.getD i none),
        attrs := h5.attrs.filter (fun e => !reservedH5 e.1) } := by
  unfold readH
  rw [if_neg (by simp [hm])]
  simp only [ht]

/-- label / unit / timestamp / scale / custom attributes all survive write → read;
custom attributes as a finite map -/
theorem hdf5_roundtrip (d : DSMeta) (naxes ncol : Nat) (timeStr : Str) (h : WF d naxes ncol) :
    ∃ h5 d', writeH d naxes ncol timeStr = .ok h5 ∧ readH h5 naxes ncol = .ok d' ∧
      d'.name = d.name ∧ d'.ts = d.ts ∧ d'.axisLabel = d.axisLabel ∧ d'.axisUnit = d.axisUnit ∧
      d'.colLabel = d.colLabel ∧ d'.colUnit = d.colUnit ∧ d'.scales = d.scales ∧
      (∀ k, HAttrs.get d'.attrs k = HAttrs.get d.attrs k) := by
  refine ⟨_, _, writeH_ok d naxes ncol timeStr h.not_reserved,
    readH_ok _ naxes ncol d.ts (attrsF_marker d naxes ncol timeStr)
      (attrsF_timestamp d naxes ncol timeStr h), rfl, rfl, ?_, ?_, ?_, ?_, ?_, ?_⟩
  · show (List.range naxes).map (fun i => getLabel (attrsF d naxes ncol timeStr) (kAxisLabel i)) = d.axisLabel
    rw [map_range_congr naxes _ (fun i => d.axisLabel.getD i [])
      (fun i hi => getLabel_of_get (attrsF_axisLabel d naxes ncol timeStr h i hi))]
    exact map_range_getD _ _ _ h.al
  · show (List.range naxes).map (fun i => getLabel (attrsF d naxes ncol timeStr) (kAxisUnit i)) = d.axisUnit
    rw [map_range_congr naxes _ (fun i => d.axisUnit.getD i [])
      (fun i hi => getLabel_of_get (attrsF_axisUnit d naxes ncol timeStr h i hi))]
    exact map_range_getD _ _ _ h.au
  · show (List.range ncol).map (fun i => getLabel (attrsF d naxes ncol timeStr) (kColLabel i)) = d.colLabel
    rw [map_range_congr ncol _ (fun i => d.colLabel.getD i [])
      (fun i hi => getLabel_of_get (attrsF_colLabel d naxes ncol timeStr h i hi))]
    exact map_range_getD _ _ _ h.cl
  · show (List.range ncol).map (fun i => getLabel (attrsF d naxes ncol timeStr) (kColUnit i)) = d.colUnit
    rw [map_range_congr ncol _ (fun i => d.colUnit.getD i [])
      (fun i hi => getLabel_of_get (attrsF_colUnit d naxes ncol timeStr h i hi))]
    exact map_range_getD _ _ _ h.cu
  · show (List.range naxes).map (fun i =>
        ((List.range naxes).map (fun i => d.scales.getD i none)).getD i none) = d.scales
    rw [map_range_getD _ _ _ h.sc]
    exact map_range_getD _ _ _ h.sc
  · intro k
    exact attrsF_custom d naxes ncol timeStr h k

/-! ## non-vacuity: concrete instances -/


/-- 2 axes, 3 columns, some labels / units empty, one scale, two custom attributes -/
def exD : DSMeta :=
  { name := [100, 115],
    ts := .n 1700000000,
    axisLabel := [[116], []],
    axisUnit := [[], [115]],
    colLabel := [[97], [], [99, 99]],
    colUnit := [[86], [65], []],
    scales := [some 7, none],
    attrs := [([102, 111, 111], .s [98, 97, 114]), ([110], .n 42)] }

example : (writeH exD 2 3 [50, 48, 50, 51]).bind (fun h5 => readH h5 2 3) = .ok exD := by decide +kernel

example : WF exD 2 3 :=
  ⟨rfl, rfl, rfl, rfl, rfl, by decide, by decide⟩

/-- a custom attribute called `QMI_DataSet_foo` is refused -/
example : writeH { exD with attrs := [([110], .n 42), (kPrefix ++ [95, 102, 111, 111], .n 1)] } 2 3 []
    = .error .valueError := by decide +kernel

/-- … and so is `DIMENSION_LIST` -/
example : writeH { exD with attrs := [(kDimension ++ [76, 73, 83, 84], .n 1)] } 2 3 []
    = .error .valueError := by decide +kernel

end QmiModel.C17.Hdf5L
