import QmiModel.Lemmas.C12
import QmiModel.Lemmas.C12Conc
/-!
# `stop ‖ make` for an arbitrary population (property C12, layer C)

An inductive invariant of the interleaved system `cstep` (any schedule, any number of objects present at `stop()`).
`R` = the fully registered managers `stop()` has not yet taken care of; `front` = the manager `stop()` has just
unregistered and is about to stop; `XO m` / `Xm a m` = what the maker currently holds half-built (its manager,
its reservation).
-/
namespace QmiModel.Context

/-- the maker's half-built manager -/
def XO : MPc → List Obj
  | .publish o => [o]
  | .failStop _ (some o) _ => [o]
  | _ => []

/-- the maker's reservation in the object map -/
def Xm (a : MakeArgs) : MPc → List (Name × Option Nat)
  | .construct => [(a.n, none)]
  | .publish _ => [(a.n, none)]
  | .failStop _ _ _ => [(a.n, none)]
  | .failDel _ => [(a.n, none)]
  | _ => []

/-- where `stop()` is, in terms of `R` and `front` -/
def SShape : SPc → Bool → List Conn → Bool → List Obj → List Obj → Prop
  | .head, act, _, _, _, front => act = true ∧ front = []
  | .collect, act, conns, up, _, front => act = true ∧ front = [] ∧ conns = [] ∧ up = false
  | .unreg n id rest, act, conns, up, R, front =>
      act = false ∧ front = [] ∧ keys R = (n, id) :: rest ∧ conns = [] ∧ up = false
  | .mstop id rest, act, conns, up, R, front =>
      act = false ∧ (∃ o, front = [o] ∧ o.id = id) ∧ rest = keys R ∧ conns = [] ∧ up = false
  | .done r, act, conns, up, R, front => r = .ok ∧ act = false ∧ front = [] ∧ R = [] ∧ conns = [] ∧ up = false

structure CI (a : MakeArgs) (st : CState) (R front : List Obj) : Prop where
  hm   : st.c.mgrs = front ++ R ++ XO st.m
  hh   : st.c.handlers = keys R
  ho   : st.c.objMap = (if st.c.active then mapOf R else []) ++ Xm a st.m
  hn   : (R.map Obj.name).Nodup
  hi   : (st.c.mgrs.map Obj.id).Nodup
  hlt  : ∀ o ∈ st.c.mgrs, o.id < st.c.nextId
  hrn  : st.c.released.Nodup
  hrl  : ∀ i ∈ st.c.released, i < st.c.nextId
  hrd  : ∀ o ∈ st.c.mgrs, o.id ∉ st.c.released
  hfr  : Xm a st.m ≠ [] → a.n ∉ R.map Obj.name
  hxn  : ∀ o ∈ XO st.m, o.name = a.n
  hb   : firstBase st.c.stopH 0 = none
  hs   : SShape st.s st.c.active st.c.conns st.c.routerUp R front

def CInv (a : MakeArgs) (st : CState) : Prop := ∃ R front, CI a st R front

theorem cinv_init {c : Ctx} (h : WF c) (ha : c.active = true) (hb : firstBase c.stopH 0 = none) (a : MakeArgs) :
    CInv a (cinit c) := by
  refine ⟨c.mgrs, [], ?_⟩
  constructor
  · simp [cinit, XO]
  · exact h.h_eq
  · simp [cinit, Xm, ha]; exact h.map_eq
  · exact h.names
  · exact h.ids
  · exact h.ids_lt
  · exact h.rel_nodup
  · exact h.rel_lt
  · exact h.rel_disj
  · intro hx; simp [cinit, Xm] at hx
  · intro o ho; simp [cinit, XO] at ho
  · exact hb
  · exact ⟨ha, rfl⟩


theorem Xm_all_none (a : MakeArgs) (m : MPc) : ∀ e ∈ Xm a m, e.2 = none := by
  intro e he
  cases m <;> simp [Xm] at he <;> (subst he; rfl)

theorem filter_isNone_Xm (a : MakeArgs) (m : MPc) : (Xm a m).filter (fun e => e.2.isNone) = Xm a m := by
  rw [List.filter_eq_self]
  intro e he
  rw [Xm_all_none a m e he]; rfl

theorem collect_Xm (a : MakeArgs) (m : MPc) :
    (Xm a m).filterMap (fun e => match e.2 with | some i => some (e.1, i) | none => none) = [] := by
  rw [List.filterMap_eq_nil_iff]
  intro e he
  rw [Xm_all_none a m e he]

theorem collect_of (c : Ctx) (R : List Obj) (X : List (Name × Option Nat)) (h : c.objMap = mapOf R ++ X)
    (hX : ∀ e ∈ X, e.2 = none) : collect c = keys R := by
  unfold collect
  rw [h]
  clear h
  induction R with
  | nil =>
    simp only [mapOf, List.map_nil, List.nil_append, keys]
    rw [List.filterMap_eq_nil_iff]
    intro e he
    rw [hX e he]
  | cons o r ih =>
    simp only [mapOf, keys, List.map_cons, List.cons_append, List.filterMap_cons] at ih ⊢
    rw [ih]

theorem nextS_shape (R : List Obj) :
    SShape (nextS (keys R)) false [] false R [] := by
  cases R with
  | nil => exact ⟨rfl, rfl, rfl, rfl, rfl, rfl⟩
  | cons o r => exact ⟨rfl, rfl, rfl, rfl, rfl⟩

/-- the stopper's steps preserve the invariant -/
theorem cinv_stepS {a : MakeArgs} {c : Ctx} {m : MPc} {s : SPc} (h : CInv a ⟨c, m, s⟩) :
    CInv a ⟨(stepS c s).1, m, (stepS c s).2⟩ := by
  obtain ⟨R, front, h⟩ := h
  cases s with
  | head =>
    have hs := h.hs
    simp only [SShape] at hs
    obtain ⟨hact, hfront⟩ := hs
    have hact' : c.active = true := hact
    have e : stopHead c = .ok { c with hcalls := c.hcalls.map (· + 1), conns := [], routerUp := false, tcpSet := false,
                                       log := c.log ++ (List.range c.stopH.length).map Ev.handler } := by
      have hb : firstBase c.stopH 0 = none := h.hb
      simp [stopHead, hact', hb]
    simp only [stepS, e]
    exact ⟨R, front, ⟨h.hm, h.hh, h.ho, h.hn, h.hi, h.hlt, h.hrn, h.hrl, h.hrd, h.hfr, h.hxn, h.hb,
      ⟨hact, hfront, rfl, rfl⟩⟩⟩
  | collect =>
    have hs := h.hs
    simp only [SShape] at hs
    obtain ⟨hact, hfront, hconn, hup⟩ := hs
    have hact' : c.active = true := hact
    have ho : c.objMap = mapOf R ++ Xm a m := by have := h.ho; simpa [hact'] using this
    have hf : c.objMap.filter (fun e => e.2.isNone) = Xm a m := by
      rw [ho, List.filter_append, filter_isNone_mapOf, filter_isNone_Xm, List.nil_append]
    have hc : collect c = keys R := collect_of c R _ ho (Xm_all_none a m)
    simp only [stepS, stopCollect, hc, hf]
    refine ⟨R, front, ⟨h.hm, h.hh, ?_, h.hn, h.hi, h.hlt, h.hrn, h.hrl, h.hrd, h.hfr, h.hxn, h.hb, ?_⟩⟩
    · simp
    · have hconn' : c.conns = [] := hconn
      have hup' : c.routerUp = false := hup
      subst hfront
      show SShape (nextS (keys R)) false c.conns c.routerUp R []
      rw [hconn', hup']; exact nextS_shape R
  | unreg n id rest =>
    have hs := h.hs
    simp only [SShape] at hs
    obtain ⟨hact, hfront, hk, hconn, hup⟩ := hs
    subst hfront
    cases R with
    | nil => simp [keys] at hk
    | cons o R' =>
      simp only [keys, List.map_cons, List.cons.injEq, Prod.mk.injEq] at hk
      obtain ⟨⟨rfl, rfl⟩, rfl⟩ := hk
      have hh : c.handlers = (o.name, o.id) :: keys R' := h.hh
      have hn := h.hn
      simp only [List.map_cons, List.nodup_cons] at hn
      have hdel : delKey c.handlers o.name = keys R' := by
        rw [hh, delKey_cons]
        simp only [bne_self_eq_false, Bool.false_eq_true, if_false]
        apply delKey_of_not_mem
        intro e he
        simp only [keys, List.mem_map] at he
        obtain ⟨x, hx, rfl⟩ := he
        intro e2; exact hn.1 (List.mem_map.2 ⟨x, hx, e2⟩)
      have e : unregister c o.name o.id =
          .ok { c with handlers := keys R', log := c.log ++ [.unreg o.name o.id] } := by
        simp only [unregister, hh, List.find?_cons, beq_self_eq_true, if_true, hdel]
        rw [← hh, hdel]
      simp only [stepS, e]
      have hact' : c.active = false := hact
      have ho' : c.objMap = (if c.active then mapOf R' else []) ++ Xm a m := by
        have := h.ho
        simp only [hact', Bool.false_eq_true, if_false] at this ⊢
        exact this
      refine ⟨R', [o], ⟨?_, rfl, ho', hn.2, h.hi, h.hlt, h.hrn, h.hrl, h.hrd, ?_, h.hxn, h.hb, ?_⟩⟩
      · have := h.hm; simpa using this
      · intro hx hmem
        exact h.hfr hx (List.mem_cons_of_mem _ hmem)
      · exact ⟨hact, ⟨o, rfl, rfl⟩, rfl, hconn, hup⟩
  | mstop id rest =>
    have hs := h.hs
    simp only [SShape] at hs
    obtain ⟨hact, ⟨o, hfront, hid⟩, hrest, hconn, hup⟩ := hs
    subst hfront hid hrest
    have hm : c.mgrs = o :: (R ++ XO m) := by have := h.hm; simpa using this
    have hi := h.hi
    rw [hm] at hi
    simp only [List.map_cons, List.nodup_cons, List.mem_map, not_exists, not_and] at hi
    have hfind : findMgr c o.id = some o := by
      simp only [findMgr, hm, List.find?_cons, beq_self_eq_true]
    have hfil : c.mgrs.filter (fun x => x.id != o.id) = R ++ XO m := by
      rw [hm, List.filter_cons]
      simp only [bne_self_eq_false, Bool.false_eq_true, if_false, List.filter_eq_self]
      intro x hx
      have := hi.1 x hx
      simpa [bne_iff_ne] using this
    simp only [stepS, hfind, mgrStop, hfil]
    have hmem : o ∈ c.mgrs := by rw [hm]; exact List.mem_cons_self
    refine ⟨R, [], ⟨by simp, h.hh, h.ho, h.hn, ?_, ?_, ?_, ?_, ?_, h.hfr, h.hxn, h.hb, ?_⟩⟩
    · exact hi.2
    · intro x hx; exact h.hlt x (by rw [hm]; exact List.mem_cons_of_mem _ hx)
    · show (c.released ++ [o.id]).Nodup
      rw [List.nodup_append]
      refine ⟨h.hrn, by simp, ?_⟩
      intro x hx y hy
      simp only [List.mem_singleton] at hy
      subst hy; intro e; exact h.hrd o hmem (e ▸ hx)
    · intro i hi'
      simp only [List.mem_append, List.mem_singleton] at hi'
      rcases hi' with hi' | rfl
      · exact h.hrl i hi'
      · exact h.hlt o hmem
    · intro x hx
      simp only [List.mem_append, List.mem_singleton, not_or]
      refine ⟨h.hrd x (by rw [hm]; exact List.mem_cons_of_mem _ hx), ?_⟩
      intro e; exact hi.1 x hx e
    · have hconn' : c.conns = [] := hconn
      have hup' : c.routerUp = false := hup
      have hact' : c.active = false := hact
      show SShape (nextS (keys R)) c.active c.conns c.routerUp R []
      rw [hconn', hup', hact']; exact nextS_shape R
  | done r => exact ⟨R, front, h⟩


theorem sshape_of_active {s : SPc} {conns : List Conn} {up : Bool} {R front : List Obj}
    (h : SShape s true conns up R front) (R' : List Obj) : SShape s true conns up R' front ∧ front = [] := by
  cases s with
  | head => exact ⟨h, h.2⟩
  | collect => exact ⟨h, h.2.1⟩
  | unreg n id rest => exact absurd h.1 (by simp)
  | mstop id rest => exact absurd h.1 (by simp)
  | done r => exact absurd h.2.1 (by simp)

theorem not_mem_keys_of {R : List Obj} {n : Name} (h : n ∉ R.map Obj.name) : ∀ e ∈ mapOf R, e.1 ≠ n := by
  intro e he
  simp only [mapOf, List.mem_map] at he
  obtain ⟨o, ho, rfl⟩ := he
  intro e2; exact h (List.mem_map.2 ⟨o, ho, e2⟩)

/-- the maker's steps preserve the invariant -/
theorem cinv_stepM {a : MakeArgs} {c : Ctx} {m : MPc} {s : SPc} (h : CInv a ⟨c, m, s⟩) :
    CInv a ⟨(stepM a c m).1, (stepM a c m).2, s⟩ := by
  obtain ⟨R, front, h⟩ := h
  cases m with
  | reserve =>
    have ho0 : c.objMap = (if c.active then mapOf R else []) ++ [] := h.ho
    cases hact : c.active with
    | false =>
      have e : mkReserve c a.n = .error .invalidOp := by simp [mkReserve, hact]
      simp only [stepM, e]
      exact ⟨R, front, ⟨h.hm, h.hh, h.ho, h.hn, h.hi, h.hlt, h.hrn, h.hrl, h.hrd, fun hx => absurd rfl hx, h.hxn, h.hb, h.hs⟩⟩
    | true =>
      have ho : c.objMap = mapOf R := by simpa [hact] using ho0
      cases hk : hasKey c.objMap a.n with
      | true =>
        have e : mkReserve c a.n = .error .duplicate := by simp [mkReserve, hact, hk]
        simp only [stepM, e]
        exact ⟨R, front, ⟨h.hm, h.hh, h.ho, h.hn, h.hi, h.hlt, h.hrn, h.hrl, h.hrd, fun hx => absurd rfl hx, h.hxn, h.hb, h.hs⟩⟩
      | false =>
        have e : mkReserve c a.n = .ok { c with objMap := c.objMap ++ [(a.n, none)] } := by simp [mkReserve, hact, hk]
        simp only [stepM, e]
        refine ⟨R, front, ⟨h.hm, h.hh, ?_, h.hn, h.hi, h.hlt, h.hrn, h.hrl, h.hrd, ?_, h.hxn, h.hb, h.hs⟩⟩
        · show c.objMap ++ [(a.n, none)] = (if c.active then mapOf R else []) ++ [(a.n, none)]
          rw [ho, hact]; rfl
        · intro _ hmem
          have : hasKey (mapOf R) a.n = true := hasKey_mapOf.2 hmem
          rw [← ho, hk] at this; cases this
  | construct =>
    cases hcf : a.ctorF with
    | true =>
      have e : mkConstruct c a.k a.n a.ctorF a.relF a.runB = ({ c with nextId := c.nextId + 1 }, none) := by
        simp [mkConstruct, hcf]
      simp only [stepM, e]
      exact ⟨R, front, ⟨h.hm, h.hh, h.ho, h.hn, h.hi, fun o ho => Nat.lt_succ_of_lt (h.hlt o ho), h.hrn,
        fun i hi => Nat.lt_succ_of_lt (h.hrl i hi), h.hrd, h.hfr, h.hxn, h.hb, h.hs⟩⟩
    | false =>
      have e : mkConstruct c a.k a.n a.ctorF a.relF a.runB =
          ({ c with nextId := c.nextId + 1, mgrs := c.mgrs ++ [newObj c a.k a.n a.relF a.runB] },
            some (newObj c a.k a.n a.relF a.runB)) := by
        simp [mkConstruct, hcf, newObj]
      simp only [stepM, e]
      have hm : c.mgrs = front ++ R := by have := h.hm; simpa [XO] using this
      have hid : c.nextId ∉ c.mgrs.map Obj.id := by
        intro e2
        obtain ⟨o, ho, e3⟩ := List.mem_map.1 e2
        have hl : o.id < c.nextId := h.hlt o ho
        omega
      refine ⟨R, front, ⟨?_, h.hh, h.ho, h.hn, ?_, ?_, h.hrn, fun i hi => Nat.lt_succ_of_lt (h.hrl i hi), ?_, h.hfr, ?_, h.hb, h.hs⟩⟩
      · show c.mgrs ++ [_] = front ++ R ++ [_]; rw [hm]
      · show ((c.mgrs ++ [newObj c a.k a.n a.relF a.runB]).map Obj.id).Nodup
        simp only [List.map_append, List.map_cons, List.map_nil]
        rw [List.nodup_append]
        refine ⟨h.hi, by simp, ?_⟩
        intro x hx y hy
        simp only [List.mem_singleton] at hy
        subst hy; intro e2
        have e3 : x = c.nextId := e2
        exact hid (e3 ▸ hx)
      · intro o ho
        simp only [List.mem_append, List.mem_singleton] at ho
        rcases ho with ho | rfl
        · exact Nat.lt_succ_of_lt (h.hlt o ho)
        · simp [newObj]
      · intro o ho
        simp only [List.mem_append, List.mem_singleton] at ho
        rcases ho with ho | rfl
        · exact h.hrd o ho
        · intro e2; exact absurd (h.hrl _ e2) (by simp [newObj])
      · intro o ho
        simp only [XO, List.mem_singleton] at ho
        subst ho; rfl
  | publish o =>
    have hfr : a.n ∉ R.map Obj.name := h.hfr (by simp [Xm])
    have hon : o.name = a.n := h.hxn o (by simp [XO])
    cases hact : c.active with
    | false =>
      have e : mkPublish c a.n o = .error .invalidOp := by simp [mkPublish, hact]
      simp only [stepM, e]
      exact ⟨R, front, ⟨h.hm, h.hh, h.ho, h.hn, h.hi, h.hlt, h.hrn, h.hrl, h.hrd, h.hfr, h.hxn, h.hb, h.hs⟩⟩
    | true =>
      have hs := h.hs
      have hs' : SShape s true c.conns c.routerUp R front := by have := h.hs; rwa [show ({ c := c, m := MPc.publish o, s := s } : CState).c.active = true from hact] at this
      obtain ⟨hs2, hfront⟩ := sshape_of_active hs' (R ++ [o])
      subst hfront
      have ho : c.objMap = mapOf R ++ [(a.n, none)] := by have := h.ho; simpa [hact, Xm] using this
      have hmap : setKey c.objMap a.n (some o.id) = mapOf (R ++ [o]) := by
        rw [ho, setKey_append_self _ _ _ _ (not_mem_keys_of hfr)]
        simp [mapOf, hon]
      have hk : hasKey c.handlers a.n = false := by
        rw [h.hh, Bool.eq_false_iff]; intro e2; exact hfr (hasKey_keys.1 e2)
      have e1 : mkPublish c a.n o = .ok { c with objMap := mapOf (R ++ [o]) } := by
        simp [mkPublish, hact, hmap]
      have e2 : register { c with objMap := mapOf (R ++ [o]) } a.n o.id =
          .ok { c with objMap := mapOf (R ++ [o]), handlers := c.handlers ++ [(a.n, o.id)],
                       log := c.log ++ [.reg a.n o.id] } := by
        simp [register, hk]
      simp only [stepM, e1, e2]
      have hm : c.mgrs = R ++ [o] := by have := h.hm; simpa [XO] using this
      refine ⟨R ++ [o], [], ⟨?_, ?_, ?_, ?_, h.hi, h.hlt, h.hrn, h.hrl, h.hrd, fun hx => absurd rfl hx, ?_, h.hb, ?_⟩⟩
      · show c.mgrs = [] ++ (R ++ [o]) ++ []; rw [hm]; simp
      · show c.handlers ++ [(a.n, o.id)] = keys (R ++ [o])
        rw [h.hh]; simp [keys, hon]
      · show mapOf (R ++ [o]) = (if c.active then mapOf (R ++ [o]) else []) ++ []
        rw [hact]; simp
      · simp only [List.map_append, List.map_cons, List.map_nil]
        rw [List.nodup_append]
        refine ⟨h.hn, by simp, ?_⟩
        intro x hx y hy
        simp only [List.mem_singleton] at hy
        subst hy; intro e3; exact hfr (by rw [← hon, ← e3]; exact hx)
      · intro x hx; simp [XO] at hx
      · show SShape s c.active c.conns c.routerUp (R ++ [o]) []
        rw [hact]; exact hs2
  | failStop e oo i =>
    cases oo with
    | none =>
      simp only [stepM, mgrStopFailed]
      exact ⟨R, front, ⟨h.hm, h.hh, h.ho, h.hn, h.hi, h.hlt, h.hrn, h.hrl, h.hrd, h.hfr, h.hxn, h.hb, h.hs⟩⟩
    | some o =>
      have hm : c.mgrs = front ++ R ++ [o] := h.hm
      have hi := h.hi
      rw [hm, List.map_append] at hi
      have hnd := List.nodup_append.1 hi
      have hfil : c.mgrs.filter (fun x => x.id != o.id) = front ++ R := by
        rw [hm, List.filter_append]
        have h1 : (front ++ R).filter (fun x => x.id != o.id) = front ++ R := by
          rw [List.filter_eq_self]
          intro x hx
          have := hnd.2.2 x.id (List.mem_map.2 ⟨x, hx, rfl⟩) o.id (by simp)
          simpa [bne_iff_ne] using this
        rw [h1]; simp
      have hmem : o ∈ c.mgrs := by rw [hm]; simp
      simp only [stepM, mgrStop, hfil]
      refine ⟨R, front, ⟨by simp [XO], h.hh, h.ho, h.hn, ?_, ?_, ?_, ?_, ?_, h.hfr, by intro x hx; simp [XO] at hx, h.hb, h.hs⟩⟩
      · show ((front ++ R).map Obj.id).Nodup
        exact hnd.1
      · intro x hx; exact h.hlt x (by rw [hm]; exact List.mem_append_left _ hx)
      · show (c.released ++ [o.id]).Nodup
        rw [List.nodup_append]
        refine ⟨h.hrn, by simp, ?_⟩
        intro x hx y hy
        simp only [List.mem_singleton] at hy
        subst hy; intro e2; exact h.hrd o hmem (e2 ▸ hx)
      · intro j hj
        simp only [List.mem_append, List.mem_singleton] at hj
        rcases hj with hj | rfl
        · exact h.hrl j hj
        · exact h.hlt o hmem
      · intro x hx
        simp only [List.mem_append, List.mem_singleton, not_or]
        refine ⟨h.hrd x (by rw [hm]; exact List.mem_append_left _ hx), ?_⟩
        exact hnd.2.2 x.id (List.mem_map.2 ⟨x, hx, rfl⟩) o.id (by simp)
  | failDel e =>
    have hfr : a.n ∉ R.map Obj.name := h.hfr (by simp [Xm])
    have ho : c.objMap = (if c.active then mapOf R else []) ++ [(a.n, none)] := h.ho
    have hdel : delKey c.objMap a.n = (if c.active then mapOf R else []) := by
      rw [ho]
      apply delKey_append_self
      cases c.active with
      | true => exact not_mem_keys_of hfr
      | false => intro x hx; cases hx
    simp only [stepM, delName, hdel]
    exact ⟨R, front, ⟨h.hm, h.hh, by simp [Xm], h.hn, h.hi, h.hlt, h.hrn, h.hrl, h.hrd, fun hx => absurd rfl hx, h.hxn, h.hb, h.hs⟩⟩
  | done r => exact ⟨R, front, h⟩


theorem cinv_cstep {a : MakeArgs} {st : CState} (h : CInv a st) (b : Bool) : CInv a (cstep a st b) := by
  obtain ⟨c, m, s⟩ := st
  unfold cstep
  split
  · exact h
  · split
    · exact cinv_stepM h
    · exact cinv_stepS h

theorem cinv_crun {a : MakeArgs} : ∀ (fuel : Nat) (st : CState) (sched : List Bool), CInv a st → CInv a (crun a st sched fuel)
  | 0, _, _, h => h
  | fuel + 1, st, sched, h => by
    simp only [crun]
    exact cinv_crun fuel _ _ (cinv_cstep h _)

/-- when both threads are done the outcome is clean -/
theorem clean_of_done {a : MakeArgs} {st : CState} (h : CInv a st) (hm : st.m.isDone = true) (hs : st.s.isDone = true) :
    st.outcome.clean = true := by
  obtain ⟨c, m, s⟩ := st
  obtain ⟨R, front, h⟩ := h
  cases m with
  | done r =>
    cases s with
    | done r' =>
      have hsh := h.hs
      simp only [SShape] at hsh
      obtain ⟨rfl, hact, rfl, rfl, hconn, hup⟩ := hsh
      have hact' : c.active = false := hact
      have hconn' : c.conns = [] := hconn
      have hup' : c.routerUp = false := hup
      have hmg : c.mgrs = [] := by have := h.hm; simpa [XO] using this
      have hh : c.handlers = [] := by have := h.hh; simpa [keys] using this
      have ho : c.objMap = [] := by have := h.ho; simpa [Xm, hact'] using this
      have hrel : c.released.all (fun i => c.released.count i == 1) = true := by
        rw [List.all_eq_true]
        intro i hi
        have := (h.hrn : c.released.Nodup).count (a := i)
        simp [this, hi]
      simp [CState.outcome, COutcome.clean, Ctx.residue, Residue.empty, sResult, mResult, hact', hconn', hup', hmg, hh, ho, hrel]
    | head => cases hs
    | collect => cases hs
    | unreg _ _ _ => cases hs
    | mstop _ _ => cases hs
  | reserve => cases hm
  | construct => cases hm
  | publish _ => cases hm
  | failStop _ _ _ => cases hm
  | failDel _ => cases hm

/-! ### termination: both threads finish within the fuel -/

def mRank : MPc → Nat
  | .reserve => 5 | .construct => 4 | .publish _ => 3 | .failStop _ _ _ => 2 | .failDel _ => 1 | .done _ => 0

def mAdd : MPc → Nat | .reserve => 1 | _ => 0

def sRank (c : Ctx) (m : MPc) : SPc → Nat
  | .head => 2 * (c.objMap.length + mAdd m) + 2
  | .collect => 2 * (c.objMap.length + mAdd m) + 1
  | .unreg _ _ rest => 2 * rest.length + 2
  | .mstop _ rest => 2 * rest.length + 1
  | .done _ => 0

def crank (st : CState) : Nat := mRank st.m + sRank st.c st.m st.s

theorem sRank_nextS (c : Ctx) (m : MPc) (l : List (Name × Nat)) : sRank c m (nextS l) ≤ 2 * l.length := by
  cases l with
  | nil => simp [nextS, sRank]
  | cons e r => obtain ⟨n, i⟩ := e; simp only [nextS, sRank, List.length_cons]; omega

theorem delKey_length_le {β : Type} (m : List (Name × β)) (n : Name) : (delKey m n).length ≤ m.length := by
  simp only [delKey]; exact List.length_filter_le _ _

theorem setKey_length {β : Type} (m : List (Name × β)) (n : Name) (v : β) : (setKey m n v).length = m.length := by
  simp only [setKey, List.length_map]

/-- the stopper's rank does not depend on anything the maker changes except the length of the object map -/
theorem sRank_congr {c c' : Ctx} {m m' : MPc} (s : SPc) (h : c'.objMap.length + mAdd m' ≤ c.objMap.length + mAdd m) :
    sRank c' m' s ≤ sRank c m s := by
  cases s <;> simp only [sRank] <;> omega

theorem crank_stepM (a : MakeArgs) (c : Ctx) (m : MPc) (s : SPc) (hm : m.isDone = false) :
    crank ⟨(stepM a c m).1, (stepM a c m).2, s⟩ < crank ⟨c, m, s⟩ := by
  cases m with
  | reserve =>
    simp only [stepM]
    cases h1 : mkReserve c a.n with
    | error e =>
      simp only [crank, mRank]
      have := sRank_congr (c := c) (c' := c) (m := .reserve) (m' := .done (.exc e)) s (by simp [mAdd])
      omega
    | ok c1 =>
      have hl : c1.objMap.length = c.objMap.length + 1 := by
        unfold mkReserve at h1
        split at h1
        · cases h1
        · split at h1
          · cases h1
          · cases h1; simp
      simp only [crank, mRank]
      have := sRank_congr (c := c) (c' := c1) (m := .reserve) (m' := .construct) s (by simp [mAdd, hl])
      omega
  | construct =>
    simp only [stepM]
    cases h1 : mkConstruct c a.k a.n a.ctorF a.relF a.runB with
    | mk c1 oo =>
      have hl : c1.objMap = c.objMap := by
        unfold mkConstruct at h1
        split at h1 <;> (cases h1; rfl)
      cases oo with
      | none =>
        simp only [crank, mRank]
        have := sRank_congr (c := c) (c' := c1) (m := .construct) (m' := .failStop (ctorExc a.k) none c.nextId) s (by simp [mAdd, hl])
        omega
      | some o =>
        simp only [crank, mRank]
        have := sRank_congr (c := c) (c' := c1) (m := .construct) (m' := .publish o) s (by simp [mAdd, hl])
        omega
  | publish o =>
    cases h1 : mkPublish c a.n o with
    | error e =>
      simp only [stepM, h1, crank, mRank]
      have := sRank_congr (c := c) (c' := c) (m := .publish o) (m' := .failStop e (some o) o.id) s (by simp [mAdd])
      omega
    | ok c1 =>
      have hl : c1.objMap.length = c.objMap.length := by
        unfold mkPublish at h1
        split at h1
        · cases h1
        · cases h1; exact setKey_length _ _ _
      cases h2 : register c1 a.n o.id with
      | error e =>
        simp only [stepM, h1, h2, crank, mRank]
        have := sRank_congr (c := c) (c' := c1) (m := .publish o) (m' := .done (.exc e)) s (by simp [mAdd, hl])
        omega
      | ok c2 =>
        have hl2 : c2.objMap = c1.objMap := by
          unfold register at h2
          split at h2
          · cases h2
          · cases h2; rfl
        simp only [stepM, h1, h2, crank, mRank]
        have := sRank_congr (c := c) (c' := c2) (m := .publish o) (m' := .done .ok) s (by simp [mAdd, hl, hl2])
        omega
  | failStop e oo i =>
    cases oo with
    | none =>
      simp only [stepM, crank, mRank]
      have := sRank_congr (c := c) (c' := mgrStopFailed c i) (m := .failStop e none i) (m' := .failDel e) s (by simp [mAdd, mgrStopFailed])
      omega
    | some o =>
      simp only [stepM, crank, mRank]
      have := sRank_congr (c := c) (c' := mgrStop c o) (m := .failStop e (some o) i) (m' := .failDel e) s (by simp [mAdd, mgrStop])
      omega
  | failDel e =>
    simp only [stepM, crank, mRank]
    have := sRank_congr (c := c) (c' := delName c a.n) (m := .failDel e) (m' := .done (.exc e)) s
      (by simp only [mAdd, delName, Nat.add_zero]; exact delKey_length_le _ _)
    omega
  | done r => cases hm

theorem crank_stepS (c : Ctx) (m : MPc) (s : SPc) (hs : s.isDone = false) :
    crank ⟨(stepS c s).1, m, (stepS c s).2⟩ < crank ⟨c, m, s⟩ := by
  cases s with
  | head =>
    simp only [stepS]
    cases h1 : stopHead c with
    | error e =>
      cases e <;> simp only [crank, sRank] <;> omega
    | ok c1 =>
      have hl : c1.objMap = c.objMap := by
        unfold stopHead at h1
        split at h1
        · cases h1
        · split at h1
          · cases h1
          · cases h1; rfl
      simp only [crank, sRank, hl]; omega
  | collect =>
    simp only [stepS, stopCollect, crank]
    have h1 := sRank_nextS { c with active := false, objMap := c.objMap.filter (fun e => e.2.isNone) } m (collect c)
    have h2 := collect_length c
    have h3 : sRank c m .collect = 2 * (c.objMap.length + mAdd m) + 1 := rfl
    rw [h3]
    omega
  | unreg n id rest =>
    simp only [stepS]
    cases h1 : unregister c n id with
    | error e => simp only [crank, sRank]; omega
    | ok c1 => simp only [crank, sRank]; omega
  | mstop id rest =>
    simp only [stepS]
    cases h1 : findMgr c id with
    | none => simp only [crank, sRank]; omega
    | some o =>
      simp only [crank]
      have := sRank_nextS (mgrStop c o) m rest
      have h3 : sRank c m (.mstop id rest) = 2 * rest.length + 1 := rfl
      rw [h3]; omega
  | done r => cases hs

theorem crank_cstep (a : MakeArgs) (st : CState) (b : Bool) (h : (st.m.isDone && st.s.isDone) = false) :
    crank (cstep a st b) < crank st := by
  obtain ⟨c, m, s⟩ := st
  unfold cstep
  simp only [h, Bool.false_eq_true, if_false]
  split
  · rename_i hc
    have hm : m.isDone = false := by
      cases hmd : m.isDone with
      | false => rfl
      | true =>
        cases hsd : s.isDone with
        | true => simp [hmd, hsd] at h
        | false => simp [hmd, hsd] at hc
    exact crank_stepM a c m s hm
  · rename_i hc
    have hs : s.isDone = false := by
      cases hsd : s.isDone with
      | false => rfl
      | true => simp [hsd] at hc
    exact crank_stepS c m s hs

theorem done_of_fuel (a : MakeArgs) : ∀ (fuel : Nat) (st : CState) (sched : List Bool), crank st ≤ fuel →
    ((crun a st sched fuel).m.isDone && (crun a st sched fuel).s.isDone) = true
  | 0, st, sched, h => by
    simp only [crun]
    cases hd : (st.m.isDone && st.s.isDone) with
    | true => rfl
    | false =>
      obtain ⟨c, m, s⟩ := st
      cases m <;> cases s <;> simp [MPc.isDone, SPc.isDone] at hd <;> simp [crank, mRank, sRank] at h
  | fuel + 1, st, sched, h => by
    simp only [crun]
    cases hd : (st.m.isDone && st.s.isDone) with
    | true =>
      have e : cstep a st (sched.headD true) = st := by unfold cstep; simp [hd]
      rw [e]
      exact done_of_fuel a fuel st sched.tail (by
        obtain ⟨c, m, s⟩ := st
        cases m <;> cases s <;> simp [MPc.isDone, SPc.isDone] at hd
        simp [crank, mRank, sRank])
    | false =>
      have := crank_cstep a st (sched.headD true) hd
      exact done_of_fuel a fuel _ sched.tail (by omega)

end QmiModel.Context
