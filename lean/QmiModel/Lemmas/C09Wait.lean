import QmiModel.Lemmas.C09Lin
/-!
# C09 — what readers know about the queue, and how calls end, under every interleaving (`CInv_reachable`)

`WOk`: `popleft` is only reached with a non-empty queue; a wait that returned `False` left the queue empty (so the
timeout is raised on an empty queue only); a parked reader that has not been notified implies an empty queue, except
while the deliverer that appended is about to call `notify_all` (no lost wake-up).  `ROk`: a call ends with a timeout or
the task-stop exception only after it found the queue empty when it first tested it; never with `IndexError`.
-/
set_option linter.unusedSimpArgs false
namespace QmiModel.RecvConc
open QmiModel.RecvQueue

/-- the lock holder has appended a signal and has not yet called `notify_all` -/
def at5 : Option Hold → Bool
  | some ⟨.recv _, 5, _⟩ => true
  | _ => false

/-- what a reader knows about the queue (`q`) at its various statements; `h5`: the lock holder is between
`self._queue.append(sig)` and `notify_all()` -/
structure WOk (q : List Sig) (h5 : Bool) (t : Thr) : Prop where
  pop_ne    : isGet t.call = true → t.pc = 3 → q ≠ []
  ret_f     : ∀ w, t.wpc = some w → 1 ≤ w → t.ret = false → q = []
  ret_t     : ∀ w, t.wpc = some w → 1 ≤ w → t.ret = true → q ≠ [] ∨ (isTask t.call = true ∧ w = 1 ∧ t.stop = true)
  nlw       : t.parked = true → t.notified = false → q = [] ∨ h5 = true

def WInv (s : St) : Prop := ∀ j, WOk s.g.r.q (at5 (holdOf s)) (s.thr j)

theorem WInv_init (cap : Nat) (pol : Policy) : WInv (St.init cap pol) := by
  intro j; constructor <;> simp [St.init, Thr.init, isGet, ginit, init]

/-- how calls end: a timeout or the task-stop exception only after the call found the queue empty; the task-stop
exception only with the stop flag set; `popleft` never meets an empty queue (`res_noerr` needs `WOk.pop_ne`) -/
structure ROk (t : Thr) : Prop where
  saw       : isGet t.call = true → t.pc = 2 → t.sawEmpty = true
  res_saw   : t.res = some .timeout ∨ t.res = some .taskStop → t.sawEmpty = true
  res_stop  : t.res = some .taskStop → t.stop = true
  res_noerr : t.res ≠ some .indexErr
  exp_pos   : t.expired = true → isGet t.call = true → ∃ task, t.call = .get task .pos
  retf_tmo  : ∀ w, t.wpc = some w → 1 ≤ w → t.ret = false → ∀ task, t.call ≠ .get task .none

def OInv (s : St) : Prop := ∀ j, ROk (s.thr j)

theorem OInv_init (cap : Nat) (pol : Policy) : OInv (St.init cap pol) := by
  intro j; constructor <;> simp [St.init, Thr.init, isGet]

/-- a thread that is not inside the `with` block claims nothing about the queue, except through `nlw` -/
theorem WOk_outside {q q' : List Sig} {h5 h5' : Bool} {l : Option Nat} {j : Nat} {t : Thr} (h : WOk q h5 t) (ht : TOk l j t)
    (hl : l ≠ some j) (hn : t.parked = true → t.notified = false → q' = [] ∨ h5' = true) : WOk q' h5' t := by
  have hin : inside t = false := by
    cases hi : inside t with
    | false => rfl
    | true => exact absurd (ht.holder.1 hi) hl
  have hp0 : t.call = .idle ∨ t.pc = 0 ∨ t.parked = true := by
    by_cases h0 : t.pc = 0
    · exact Or.inr (Or.inl h0)
    · cases hpk : t.parked with
      | true => exact Or.inr (Or.inr rfl)
      | false =>
        left
        unfold inside at hin
        cases hc : t.call <;> simp_all <;> omega
  have hpw := ht.parked_w
  have hwg := ht.wpc_get
  have hpc := ht.pc_ok
  refine ⟨?_, ?_, ?_, hn⟩
  · intro hg h3
    rcases hp0 with h0 | h0 | h0
    · simp [h0, isGet] at hg
    · omega
    · have := (hwg 0 (hpw h0)).2.1; omega
  · intro w hw h1 hr
    have h2 := (hwg w hw)
    rcases hp0 with h0 | h0 | h0
    · simp [h0, isGet] at h2
    · omega
    · have := hpw h0; rw [hw] at this; cases this; omega
  · intro w hw h1 hr
    have h2 := (hwg w hw)
    rcases hp0 with h0 | h0 | h0
    · simp [h0, isGet] at h2
    · omega
    · have := hpw h0; rw [hw] at this; cases this; omega


theorem WOk_notified {q : List Sig} {h5 h5' : Bool} {t : Thr} (h : WOk q h5 t) : WOk q h5' { t with notified := true } :=
  ⟨h.pop_ne, h.ret_f, h.ret_t, by simp⟩

set_option maxHeartbeats 800000 in
theorem WInv_Step0 {s s' : St} {i : Nat} (hl : LInv s) (h : WInv s) (hs : Step0 s i s') : WInv s' := by
  have hf := Step0_frame hs
  intro j
  by_cases hj : j = i
  · subst hj
    obtain ⟨p1, p2, p3, p8⟩ := h j
    have hwg := (hl j).wpc_get
    have hpw := (hl j).parked_w
    clear h hl hf
    cases hs <;> constructor
    all_goals (try (simp_all [holdOf, at5, unlock, upd_same, finish_thr_same, isGet, isTask, setQ]; done))
    · rename_i task tmo hc hpc hw hp hlk hret
      intro _ _
      have := p3 _ hw (by cases task <;> simp) hret
      rcases this with h1 | ⟨_, h2, _⟩
      · exact h1
      · cases task <;> simp_all [isTask]
  · have hjw := h j
    have hjt := hl j
    cases hs
    case same => exact hjw
    case append tag hc hpc hlk =>
      have hne : s.lock ≠ some j := by rw [hlk]; intro e; cases e; exact hj rfl
      simp only [upd_other _ _ _ _ hj]
      exact WOk_outside hjw hjt hne (by intro _ _; right; simp [holdOf, hlk, at5, hc])
    case pop task tmo x rest hc hpc hlk hw hq =>
      have hne : s.lock ≠ some j := by rw [hlk]; intro e; cases e; exact hj rfl
      simp only [finish_thr_other _ _ _ _ hj, upd_other _ _ _ _ hj]
      refine WOk_outside hjw hjt hne ?_
      intro hp hn
      have := hjw.nlw hp hn
      simp [hold_some hlk, at5, hc, hq] at this
    case clear hc hpc hlk =>
      have hne : s.lock ≠ some j := by rw [hlk]; intro e; cases e; exact hj rfl
      simp only [upd_other _ _ _ _ hj]
      exact WOk_outside hjw hjt hne (by intro _ _; left; simp [setQ])
    case notifyAll tag hc hpc hlk =>
      simp only [upd_other _ _ _ _ hj]
      split
      · exact WOk_notified hjw
      · rename_i hnp
        refine ⟨hjw.pop_ne, hjw.ret_f, hjw.ret_t, ?_⟩
        intro hp; exact absurd hp hnp
    all_goals (try (simpa [holdOf, at5, unlock, upd_same, finish_thr_same, finish_thr_other _ _ _ _ hj, upd_other _ _ _ _ hj, *] using hjw))
    · simpa [holdOf, at5, setNext, upd_same, upd_other _ _ _ _ hj, *] using hjw
    · rename_i hc hpc hpc1 hlk
      cases hcc : (s.thr i).call <;>
        simp_all [holdOf, at5, unlock, pcBound, isGet, finish_thr_other _ _ _ _ hj]

theorem ROk_notified {t : Thr} (h : ROk t) : ROk { t with notified := true } :=
  ⟨h.saw, h.res_saw, h.res_stop, h.res_noerr, h.exp_pos, h.retf_tmo⟩

set_option maxHeartbeats 800000 in
theorem OInv_Step0 {s s' : St} {i : Nat} (hw : WInv s) (h : OInv s) (hs : Step0 s i s') : OInv s' := by
  have hf := Step0_frame hs
  intro j
  by_cases hj : j = i
  · subst hj
    obtain ⟨p4, p5, p6, p7, p9, p10⟩ := h j
    have p1 := (hw j).pop_ne
    clear h hw hf
    cases hs <;> constructor
    all_goals (try (simp_all [upd_same, finish_thr_same, isGet, isTask]; done))
    · cases hr : (s.thr j).res <;> simp_all [finish_thr_same]
    · cases hr : (s.thr j).res <;> simp_all [finish_thr_same]
    · cases hr : (s.thr j).res <;> simp_all [finish_thr_same]
    · rename_i task tmo hc hpc hw hp hlk hpred hexp
      intro w hw' h1 hr task' hc'
      simp only [upd_same] at hc'
      rw [hc] at hc'; cases hc'
      rcases hexp with hexp | hexp
      · obtain ⟨t2, ht2⟩ := p9 hexp (by simp [hc, isGet])
        rw [hc] at ht2; cases ht2
      · cases hexp
    · rename_i ready _ _ _; cases ready <;> simp [upd_same]
    · rename_i ready _ _ _; cases ready <;> simp [upd_same]
    · rename_i ready _ _ _; cases ready <;> simp [upd_same]
  · rcases hf.other j hj with e | e <;> rw [e]
    · exact h j
    · exact ROk_notified (h j)

theorem Env0_at5 {s s' : St} {i : Nat} (hs : Env0 s i s') : at5 (holdOf s') = at5 (holdOf s) ∧ s'.g = s.g := by
  cases hs
  case same => exact ⟨rfl, rfl⟩
  case call c hidle =>
    refine ⟨?_, rfl⟩
    cases hl : s.lock with
    | none => simp [holdOf, hl]
    | some k =>
      by_cases hk : k = i
      · subst hk; cases c <;> simp [holdOf, hl, at5, hidle, upd_same]
      · simp [holdOf, hl, upd_other _ _ _ _ hk]
  all_goals
    refine ⟨?_, rfl⟩
    cases hl : s.lock with
    | none => simp [holdOf, hl]
    | some k =>
      by_cases hk : k = i
      · subst hk; simp [holdOf, hl, upd_same]
      · simp [holdOf, hl, upd_other _ _ _ _ hk]

theorem WInv_Env0 {s s' : St} {i : Nat} (h : WInv s) (hs : Env0 s i s') : WInv s' := by
  have hf := Env0_frame hs
  obtain ⟨e5, eg⟩ := Env0_at5 hs
  intro j
  rw [e5, eg]
  by_cases hj : j = i
  · subst hj
    obtain ⟨p1, p2, p3, p8⟩ := h j
    clear h hf e5 eg
    cases hs <;> constructor
    all_goals (try (simp_all [upd_same, isGet, isTask]; done))
    · intro w hw h1 hr
      simp only [upd_same] at hw hr ⊢
      rcases p3 w hw h1 hr with h2 | ⟨h2, h3, _⟩
      · exact Or.inl h2
      · exact Or.inr ⟨h2, h3, trivial⟩
  · rcases hf.other j hj with e | e <;> rw [e]
    · exact h j
    · exact WOk_notified (h j)

theorem OInv_Env0 {s s' : St} {i : Nat} (h : OInv s) (hs : Env0 s i s') : OInv s' := by
  have hf := Env0_frame hs
  intro j
  by_cases hj : j = i
  · subst hj
    obtain ⟨p4, p5, p6, p7, p9, p10⟩ := h j
    clear h hf
    cases hs <;> constructor
    all_goals (try (simp_all [upd_same, isGet, isTask]; done))
  · rcases hf.other j hj with e | e <;> rw [e]
    · exact h j
    · exact ROk_notified (h j)

/-- all four layers together -/
structure CInv (cap : Nat) (pol : Policy) (s : St) : Prop where
  lk  : LInv s
  lin : RInv cap pol s
  wt  : WInv s
  out : OInv s

theorem CInv_init (cap : Nat) (pol : Policy) : CInv cap pol (St.init cap pol) :=
  ⟨LInv_init cap pol, RInv_init cap pol, WInv_init cap pol, OInv_init cap pol⟩

theorem CInv_cstep {cap : Nat} {pol : Policy} {s : St} (h : CInv cap pol s) (a : Act) : CInv cap pol (cstep P0 s a) := by
  rcases cstep_cases s h.lk a with hs | hs
  · exact ⟨LInv_Step0 h.lk hs, RInv_Step0 h.lin hs, WInv_Step0 h.lk h.wt hs, OInv_Step0 h.wt h.out hs⟩
  · exact ⟨LInv_Env0 h.lk hs, RInv_Env0 h.lin hs, WInv_Env0 h.wt hs, OInv_Env0 h.out hs⟩

theorem CInv_crun {cap : Nat} {pol : Policy} (sched : List Act) : ∀ s, CInv cap pol s → CInv cap pol (crun P0 s sched) := by
  induction sched with
  | nil => intro s h; exact h
  | cons a rest ih => intro s h; exact ih _ (CInv_cstep h a)

theorem CInv_reachable (cap : Nat) (pol : Policy) (sched : List Act) : CInv cap pol (crun P0 (St.init cap pol) sched) :=
  CInv_crun sched _ (CInv_init cap pol)

end QmiModel.RecvConc
