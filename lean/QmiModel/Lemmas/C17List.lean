import QmiModel.Lemmas.C17Store
/-!
# C17 lemmas: DataStore.list_folders agrees with DataStore.find_latest_folder
-/
namespace QmiModel.C17.ListL
open QmiModel.C17 QmiModel.C17.StoreL

/-! ## helpers -/

theorem mem_sortAsc (l : List Str) (x : Str) : x ∈ sortAsc l ↔ x ∈ l := by
  unfold sortAsc
  rw [List.mem_reverse, mem_sortDesc]

/-- "some entry named `ff` is a directory" = "`(ff, true)` is an entry" -/
theorem any_dir_iff (ch : List (Str × Bool)) (ff : Str) :
    ch.any (fun e => e.1 = ff && e.2) = true ↔ (ff, true) ∈ ch := by
  rw [List.any_eq_true]
  constructor
  · rintro ⟨e, he, hee⟩
    simp only [Bool.and_eq_true, decide_eq_true_eq] at hee
    have : e = (ff, true) := by
      cases e; simp only at hee; rw [hee.1, hee.2]
    rw [← this]; exact he
  · intro h
    exact ⟨(ff, true), h, by simp⟩

/-- the entries `listDate` produces for one date directory -/
theorem mem_listDate (label : Option Str) (dd : Str) (ch : List (Str × Bool)) (names : List Str)
    (dd' ff t : Str) :
    (dd', ff, t) ∈ listDate label dd ch names ↔
      dd' = dd ∧ ff ∈ names ∧ ∃ lab, matchFolderName ff = some (t, lab) ∧
        (label = none ∨ label = some lab) ∧ (ff, true) ∈ ch := by
  induction names with
  | nil => simp [listDate]
  | cons y ys ih =>
    unfold listDate
    split
    · rename_i t0 lab0 hm
      split
      · rename_i hc
        rw [any_dir_iff] at hc
        rw [List.mem_cons, ih]
        constructor
        · rintro (h | ⟨h1, h2, h3⟩)
          · injection h with h1 h2; injection h2 with h2 h3
            subst h1; subst h2; subst h3
            exact ⟨rfl, List.mem_cons_self .., lab0, hm, hc.1, hc.2⟩
          · exact ⟨h1, List.mem_cons_of_mem _ h2, h3⟩
        · rintro ⟨h1, h2, lab, h3, h4, h5⟩
          rcases List.mem_cons.mp h2 with h2 | h2
          · left
            subst h2
            rw [hm] at h3
            injection h3 with h3; injection h3 with h3 _
            rw [h1, h3]
          · exact Or.inr ⟨h1, h2, lab, h3, h4, h5⟩
      · rename_i hc
        rw [any_dir_iff] at hc
        rw [ih]
        constructor
        · rintro ⟨h1, h2, h3⟩
          exact ⟨h1, List.mem_cons_of_mem _ h2, h3⟩
        · rintro ⟨h1, h2, lab, h3, h4, h5⟩
          rcases List.mem_cons.mp h2 with h2 | h2
          · subst h2
            rw [hm] at h3
            injection h3 with h3; injection h3 with _ h3
            subst h3
            exact absurd ⟨h4, h5⟩ hc
          · exact ⟨h1, h2, lab, h3, h4, h5⟩
    · rename_i hm
      rw [ih]
      constructor
      · rintro ⟨h1, h2, h3⟩
        exact ⟨h1, List.mem_cons_of_mem _ h2, h3⟩
      · rintro ⟨h1, h2, lab, h3, h4, h5⟩
        rcases List.mem_cons.mp h2 with h2 | h2
        · subst h2
          rw [hm] at h3; cases h3
        · exact ⟨h1, h2, lab, h3, h4, h5⟩

/-- the entries a successful `listIn` produces -/
theorem mem_listIn (st : DStore) (label : Option Str) (names : List Str) (l : List (Str × Str × Str))
    (h : listIn st label names = .ok l) (dd ff t : Str) :
    (dd, ff, t) ∈ l ↔
      dd ∈ names ∧ matchDigitsN 8 dd = true ∧ ∃ ch, st.get dd = some (some ch) ∧ (ff, true) ∈ ch ∧
        ∃ lab, matchFolderName ff = some (t, lab) ∧ (label = none ∨ label = some lab) := by
  induction names generalizing l with
  | nil =>
    unfold listIn at h
    injection h with h
    subst h
    simp
  | cons y ys ih =>
    unfold listIn at h
    split at h
    · rename_i hmy
      split at h
      · cases h
      · cases h
      · rename_i ch hg
        split at h
        · cases h
        · rename_i l' hl'
          injection h with h
          subst h
          rw [List.mem_append, mem_listDate, ih l' hl']
          constructor
          · rintro (⟨h1, h2, lab, h3, h4, h5⟩ | ⟨h1, h2⟩)
            · subst h1
              exact ⟨List.mem_cons_self .., hmy, ch, hg, h5, lab, h3, h4⟩
            · exact ⟨List.mem_cons_of_mem _ h1, h2⟩
          · rintro ⟨h1, h2, ch', h3, h4, lab, h5, h6⟩
            rcases List.mem_cons.mp h1 with h1 | h1
            · left
              subst h1
              rw [hg] at h3
              injection h3 with h3; injection h3 with h3
              subst h3
              refine ⟨rfl, ?_, lab, h5, h6, h4⟩
              rw [mem_sortAsc]
              exact List.mem_map.mpr ⟨(ff, true), h4, rfl⟩
            · exact Or.inr ⟨h1, h2, ch', h3, h4, lab, h5, h6⟩
    · rename_i hmy
      rw [ih l h]
      constructor
      · rintro ⟨h1, h2⟩
        exact ⟨List.mem_cons_of_mem _ h1, h2⟩
      · rintro ⟨h1, h2, h3⟩
        rcases List.mem_cons.mp h1 with h1 | h1
        · subst h1; exact absurd h2 hmy
        · exact ⟨h1, h2, h3⟩

/-- the entries a successful `listFolders` produces -/
theorem mem_listFolders (st : DStore) (label : Option Str) (l : List (Str × Str × Str))
    (h : listFolders st label = .ok l) (dd ff t : Str) :
    (dd, ff, t) ∈ l ↔
      ∃ lab, IsCandidate st lab dd ff t ∧ (label = none ∨ label = some lab) := by
  unfold listFolders at h
  rw [mem_listIn st label _ l h]
  constructor
  · rintro ⟨_, h2, ch, h3, h4, lab, h5, h6⟩
    exact ⟨lab, ⟨h2, ch, h3, h4, h5⟩, h6⟩
  · rintro ⟨lab, ⟨h2, ch, h3, h4, h5⟩, h6⟩
    refine ⟨?_, h2, ch, h3, h4, lab, h5, h6⟩
    rw [mem_sortAsc]
    exact dstore_get_mem st dd _ h3

/-! ## the wanted statements -/

/-- list_folders(label) lists exactly the folders find_latest_folder may return for that label -/
theorem list_folders_spec (st : DStore) (label : Str) (l : List (Str × Str × Str))
    (h : listFolders st (some label) = .ok l) :
    ∀ dd ff t, (dd, ff, t) ∈ l ↔ IsCandidate st label dd ff t := by
  intro dd ff t
  rw [mem_listFolders st (some label) l h]
  constructor
  · rintro ⟨lab, hc, h1 | h1⟩
    · cases h1
    · injection h1 with h1
      rw [h1]; exact hc
  · intro hc
    exact ⟨label, hc, Or.inr rfl⟩

/-- the latest folder is one of the listed ones, and no listed one is later -/
theorem latest_in_list (st : DStore) (label dd ff t : Str) (l : List (Str × Str × Str))
    (hl : listFolders st (some label) = .ok l)
    (h : findLatest st label none = .ok (some (dd, ff, t))) :
    (dd, ff, t) ∈ l ∧ ∀ x ∈ l, strLe x.1 dd = true ∧ (x.1 = dd → strLe x.2.2 t = true) := by
  obtain ⟨hc, hmax⟩ := find_latest_is_max st label dd ff t h
  refine ⟨(list_folders_spec st label l hl dd ff t).mpr hc, ?_⟩
  rintro ⟨dd', ff', t'⟩ hx
  exact hmax dd' ff' t' ((list_folders_spec st label l hl dd' ff' t').mp hx)

/-- the lookup says "none" exactly when the listing for the label is empty -/
theorem latest_none_iff_list_empty (st : DStore) (label : Str) (l : List (Str × Str × Str))
    (hl : listFolders st (some label) = .ok l) (r : Option (Str × Str × Str))
    (h : findLatest st label none = .ok r) : r = none ↔ l = [] := by
  constructor
  · intro hr
    subst hr
    rw [List.eq_nil_iff_forall_not_mem]
    rintro ⟨dd, ff, t⟩ hx
    exact find_latest_none st label h dd ff t ((list_folders_spec st label l hl dd ff t).mp hx)
  · intro hnil
    subst hnil
    cases r with
    | none => rfl
    | some x =>
      obtain ⟨dd, ff, t⟩ := x
      have hc := (find_latest_is_max st label dd ff t h).1
      have := (list_folders_spec st label [] hl dd ff t).mpr hc
      cases this

/-- without a label every folder of every label is listed -/
theorem list_all_spec (st : DStore) (l : List (Str × Str × Str)) (h : listFolders st none = .ok l) :
    ∀ dd ff t, (dd, ff, t) ∈ l ↔ ∃ lab, IsCandidate st lab dd ff t := by
  intro dd ff t
  rw [mem_listFolders st none l h]
  constructor
  · rintro ⟨lab, hc, _⟩
    exact ⟨lab, hc⟩
  · rintro ⟨lab, hc⟩
    exact ⟨lab, hc, Or.inl rfl⟩

/-- a listing raises only where the lookup over all dates may raise: on a date-coded entry of the
base directory that is not a directory (the `none` case cannot occur for a listed name) -/
theorem listFolders_error (st : DStore) (label : Option Str) (e : PyExc)
    (h : listFolders st label = .error e) :
    e = .notADirectoryError ∧ ∃ dd, matchDigitsN 8 dd = true ∧ st.get dd = some none := by
  unfold listFolders at h
  have hmem : ∀ x ∈ sortAsc (st.map (·.1)), ∃ v, st.get x = some v := by
    intro x hx
    rw [mem_sortAsc] at hx
    obtain ⟨en, hen, hx⟩ := List.mem_map.mp hx
    unfold DStore.get
    cases hf : st.find? (fun e => e.1 = x) with
    | none =>
      have := List.find?_eq_none.mp hf en hen
      simp [hx] at this
    | some e' => exact ⟨e'.2, rfl⟩
  generalize sortAsc (st.map (·.1)) = names at h hmem
  induction names with
  | nil => unfold listIn at h; cases h
  | cons y ys ih =>
    have ih' := fun h' => ih h' (fun x hx => hmem x (List.mem_cons_of_mem _ hx))
    unfold listIn at h
    split at h
    · rename_i hmy
      split at h
      · rename_i hg
        obtain ⟨v, hv⟩ := hmem y (List.mem_cons_self ..)
        rw [hg] at hv; cases hv
      · rename_i hg
        injection h with h
        exact ⟨h.symm, y, hmy, hg⟩
      · split at h
        · rename_i e' hl'
          injection h with h
          subst h
          exact ih' hl'
        · cases h
    · exact ih' h

/-! ## non-vacuity: a concrete store, listed oldest first -/

example : listFolders exStore (some [120]) =
    .ok [ (exD1, exF1, [50, 51, 53, 57, 53, 57]),
          (exD2, exF2, [48, 56, 48, 48, 48, 48]),
          (exD2, exF3, [48, 57, 48, 48, 48, 48]) ] := by decide

example : listFolders exStore (some [121]) = .ok [ (exD2, exF4, [49, 48, 48, 48, 48, 48]) ] := by decide

example : listFolders exStore (some [122]) = .ok [] := by decide

example : listFolders exStore none =
    .ok [ (exD1, exF1, [50, 51, 53, 57, 53, 57]),
          (exD2, exF2, [48, 56, 48, 48, 48, 48]),
          (exD2, exF3, [48, 57, 48, 48, 48, 48]),
          (exD2, exF4, [49, 48, 48, 48, 48, 48]) ] := by decide

/-- a date-coded plain file in the base directory makes the listing raise, as the lookup does -/
example : listFolders [(exD1, none)] none = .error .notADirectoryError := by decide

end QmiModel.C17.ListL
