import QmiModel.Model.Rpc
/-! Helper lemmas for C01: result slots, reply routing. -/
namespace QmiModel.Rpc

variable (cfg : Cfg) (attr : ReqId → Attr)

theorem setRes_stable (f r o x v) (h : f x = some v) : setRes f r o x = some v := by
  unfold setRes; split
  · next e => subst e; simp [h]
  · exact h

theorem setAll_stable (rs : List ReqId) (f o x v) (h : f x = some v) : setAll f rs o x = some v := by
  induction rs generalizing f with
  | nil => simpa [setAll]
  | cons r rs ih => simp only [setAll, List.foldl_cons]; exact ih _ (setRes_stable f r o x v h)

theorem setRes_none {f r o x} (h : setRes f r o x = none) : f x = none ∧ x ≠ r := by
  unfold setRes at h; split at h
  · next e => subst e; cases hf : f x <;> simp [hf] at h
  · next e => exact ⟨h, e⟩

theorem setAll_none {rs : List ReqId} {f o x} (h : setAll f rs o x = none) : f x = none ∧ x ∉ rs := by
  induction rs generalizing f with
  | nil => simpa [setAll] using h
  | cons r rs ih =>
    simp only [setAll, List.foldl_cons] at h
    have ⟨h1, h2⟩ := ih h
    have ⟨h3, h4⟩ := setRes_none h1
    exact ⟨h3, by simp [h4, h2]⟩

/-- what a slot holds after `setRes`: the old value if there was one, else possibly the new one -/
theorem setRes_some {f r o x v} (h : setRes f r o x = some v) : f x = some v ∨ (f x = none ∧ x = r ∧ v = o) := by
  unfold setRes at h; split at h
  · next e =>
    subst e
    cases hf : f x with
    | none => simp [hf] at h; exact Or.inr ⟨rfl, rfl, h.symm⟩
    | some w => simp [hf] at h; exact Or.inl (by rw [h])
  · exact Or.inl h

theorem setAll_some {rs : List ReqId} {f o x v} (h : setAll f rs o x = some v) :
    f x = some v ∨ (f x = none ∧ x ∈ rs ∧ v = o) := by
  induction rs generalizing f with
  | nil => exact Or.inl (by simpa [setAll] using h)
  | cons r rs ih =>
    simp only [setAll, List.foldl_cons] at h
    rcases ih h with h1 | ⟨h1, h2, h3⟩
    · rcases setRes_some h1 with h4 | ⟨h4, h5, h6⟩
      · exact Or.inl h4
      · exact Or.inr ⟨h4, by simp [h5], h6⟩
    · exact Or.inr ⟨(setRes_none h1).1, by simp [h2], h3⟩

/-! ### `route` / `routeAll` field lemmas -/

theorem route_cases (s : State) (r : ReqId) (o : Outcome) :
    route attr s r o = { s with result := setRes s.result r o } ∨
    route attr s r o = { s with bQ := s.bQ ++ [.sendRep r o] } ∨
    route attr s r o = s := by
  unfold route
  split
  · exact Or.inl rfl
  · split
    · exact Or.inr (Or.inl rfl)
    · exact Or.inr (Or.inr rfl)

/-- fields that `route` never touches -/
structure SameCore (s t : State) : Prop where
  registered : t.registered = s.registered
  running : t.running = s.running
  shutdown : t.shutdown = s.shutdown
  phase : t.phase = s.phase
  fifo : t.fifo = s.fifo
  bRouter : t.bRouter = s.bRouter
  bSock : t.bSock = s.bSock
  aRouter : t.aRouter = s.aRouter
  aSock : t.aSock = s.aSock
  aQ : t.aQ = s.aQ
  aStop : t.aStop = s.aStop
  connA : t.connA = s.connA
  connB : t.connB = s.connB
  pendA : t.pendA = s.pendA
  wireAB : t.wireAB = s.wireAB
  wireBA : t.wireBA = s.wireBA
  issued : t.issued = s.issued
  unsent : t.unsent = s.unsent
  checked : t.checked = s.checked
  executed : t.executed = s.executed
  lost : t.lost = s.lost

theorem SameCore.refl (s : State) : SameCore s s := by constructor <;> rfl

theorem SameCore.trans {s t u : State} (h1 : SameCore s t) (h2 : SameCore t u) : SameCore s u := by
  constructor
  all_goals first
    | exact h2.registered.trans h1.registered | exact h2.running.trans h1.running
    | exact h2.shutdown.trans h1.shutdown | exact h2.phase.trans h1.phase | exact h2.fifo.trans h1.fifo
    | exact h2.bRouter.trans h1.bRouter | exact h2.bSock.trans h1.bSock | exact h2.aRouter.trans h1.aRouter
    | exact h2.aSock.trans h1.aSock | exact h2.aQ.trans h1.aQ | exact h2.aStop.trans h1.aStop
    | exact h2.connA.trans h1.connA | exact h2.connB.trans h1.connB | exact h2.pendA.trans h1.pendA
    | exact h2.wireAB.trans h1.wireAB | exact h2.wireBA.trans h1.wireBA | exact h2.issued.trans h1.issued
    | exact h2.unsent.trans h1.unsent | exact h2.checked.trans h1.checked | exact h2.executed.trans h1.executed
    | exact h2.lost.trans h1.lost

theorem routeAll_nil (s : State) (o : Outcome) : routeAll attr s [] o = s := rfl

theorem routeAll_cons (s : State) (r : ReqId) (rs : List ReqId) (o : Outcome) :
    routeAll attr s (r :: rs) o = routeAll attr (route attr s r o) rs o := rfl

theorem route_core (s : State) (r : ReqId) (o : Outcome) : SameCore s (route attr s r o) := by
  rcases route_cases attr s r o with h | h | h <;> rw [h] <;> constructor <;> rfl

theorem routeAll_core (s : State) (rs : List ReqId) (o : Outcome) : SameCore s (routeAll attr s rs o) := by
  induction rs generalizing s with
  | nil => exact SameCore.refl s
  | cons r rs ih =>
    simp only [routeAll, List.foldl_cons]
    exact (route_core attr s r o).trans (ih _)

theorem route_result_stable (s : State) (r : ReqId) (o : Outcome) (x v) (h : s.result x = some v) :
    (route attr s r o).result x = some v := by
  rcases route_cases attr s r o with e | e | e <;> rw [e]
  · exact setRes_stable _ _ _ _ _ h
  · exact h
  · exact h

theorem routeAll_result_stable (s : State) (rs : List ReqId) (o : Outcome) (x v) (h : s.result x = some v) :
    (routeAll attr s rs o).result x = some v := by
  induction rs generalizing s with
  | nil => exact h
  | cons r rs ih =>
    simp only [routeAll, List.foldl_cons]
    exact ih _ (route_result_stable attr s r o x v h)

/-- the B-loop queue after routing a reply: unchanged, or the reply appended -/
theorem route_bQ (s : State) (r : ReqId) (o : Outcome) :
    (route attr s r o).bQ = s.bQ ∨ (route attr s r o).bQ = s.bQ ++ [.sendRep r o] := by
  rcases route_cases attr s r o with e | e | e <;> rw [e]
  · exact Or.inl rfl
  · exact Or.inr rfl
  · exact Or.inl rfl

end QmiModel.Rpc
