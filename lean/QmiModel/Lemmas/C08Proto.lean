import QmiModel.Model.PubSub
/-! C08 — the subscription protocol of one (connection, publisher object, signal), as a finite-state abstraction.

`AS` keeps what the two tables say (`R`: the publisher context has the peer as remote subscriber; `A`: the subscribing
context has a receiver), the state of the object at the publisher, where the thread that removes the object is, what
the subscriber's pending-request table says for the signal, where the one outstanding request is, and the content of the
FIFO channel publisher → subscriber (event-loop queue of the publisher context followed by the connection) as far as
this signal goes.  `next` lists the successors.  Lemmas/C08Sim shows that every step of the model is a step of `next` or
leaves the abstraction unchanged. -/
namespace QmiModel.PubSub.Proto

/-- the remover thread of the object (`remove_rpc_object`): not there / before `handle_object_removed` /
between it and handing the removal notice for this peer and signal to the event loop / after that, before `del` -/
inductive Rm | none | pre | np | post
  deriving DecidableEq, Repr

/-- the subscriber's pending request for the signal: none / subscribe (flag `publisher_removed`) / unsubscribe
(flag: new subscribers are waiting) -/
inductive P | none | sub (m : Bool) | unsub (w : Bool)
  deriving DecidableEq, Repr

/-- where the outstanding request is: not yet with the publisher's handler / handler before the first object check /
before `_add_remote_subscriber` / after it / before `_remove_remote_subscriber` (reply `ok` follows) / reply being handed
to the event loop / reply in the channel / `_handle_subscription_reply(ok)` about to run -/
inductive T | none | req | chk1 | preAdd | added | preRem (ok : Bool) | rep (ok : Bool) | inD | hr (ok : Bool)
  deriving DecidableEq, Repr

/-- channel content: removal notice / reply -/
inductive DTok | N | Rep (ok : Bool)
  deriving DecidableEq, Repr

structure AS where
  R : Bool
  A : Bool
  obj : ObjSt
  rm : Rm
  pend : P
  tok : T
  D : List DTok
  sr : Bool      -- `_handle_remote_signal_removed` about to run in the subscriber's socket thread
  wp : Bool      -- a `handle_peer_context_removed` left over from an earlier connection to the same peer is about to run
  deriving DecidableEq, Repr

/-- the subscriber's socket thread is free to read the next message -/
def idleSock (x : AS) : Bool := !x.sr && !x.wp && (x.tok != .hr true)

/-- user threads of the subscriber: `_subscribe_remote` -/
def segSub (x : AS) : List AS :=
  if !x.A then
    (match x.pend with
     | .none => [{ x with pend := .sub false, tok := .req }]
     | .unsub _ => [{ x with pend := .unsub true }]
     | .sub _ => [])
  else []

/-- `_unsubscribe_remote`, last receiver -/
def segUnsub (x : AS) : List AS :=
  if x.A then
    (match x.pend with
     | .none => [{ x with A := false, pend := .unsub false, tok := .req }]
     | _ => [{ x with A := false }])
  else []

/-- the request and its reply -/
def segTok (x : AS) : List AS :=
  match x.tok with
  | .req => (match x.pend with
      | .sub _ => [{ x with tok := .chk1 }]
      | .unsub _ => [{ x with tok := .preRem true }]
      | .none => [])
  | .chk1 => if x.obj = .present then [{ x with tok := .preAdd }] else [{ x with tok := .rep false }]
  | .preAdd => [{ x with tok := .added, R := true }]
  | .added => if x.obj = .present then [{ x with tok := .rep true }] else [{ x with tok := .preRem false }]
  | .preRem ok => [{ x with tok := .rep ok, R := false }]
  | .rep ok => [{ x with tok := .inD, D := x.D ++ [.Rep ok] }]
  | .hr ok => (match x.pend with
      | .sub m =>
        if ok && m then [{ x with pend := .sub false, tok := .req }]
        else [{ x with A := x.A || ok, pend := .none, tok := .none }]
      | .unsub w => if w then [{ x with pend := .sub false, tok := .req }] else [{ x with pend := .none, tok := .none }]
      | .none => [])
  | _ => []

/-- the subscriber's socket thread reads the next message -/
def segRead (x : AS) : List AS :=
  if idleSock x then
    (match x.D with
     | .Rep ok :: d => [{ x with tok := .hr ok, D := d }]
     | .N :: d => [{ x with sr := true, D := d }]
     | [] => [])
  else []

/-- a removal notice marks a pending subscribe request -/
def P.mark : P → P
  | .sub _ => .sub true
  | p => p

/-- `_handle_remote_signal_removed` -/
def segSr (x : AS) : List AS :=
  if x.sr then [{ x with sr := false, A := false, pend := x.pend.mark }] else []

/-- the left-over `handle_peer_context_removed` -/
def segWp (x : AS) : List AS := if x.wp then [{ x with wp := false, A := false }] else []

/-- `remove_rpc_object` begins -/
def segMark (x : AS) : List AS := if x.obj = .present ∧ x.rm = .none then [{ x with obj := .reserved, rm := .pre }] else []

/-- the remover thread -/
def segRm (x : AS) : List AS :=
  match x.rm with
  | .pre => if x.R then [{ x with R := false, rm := .np }] else [{ x with rm := .post }]
  | .np => [{ x with rm := .post, D := x.D ++ [.N] }]
  | .post => [{ x with obj := .absent, rm := .none }]
  | .none => []

/-- `make_rpc_object` -/
def segReserve (x : AS) : List AS := if x.obj = .absent ∧ x.rm = .none then [{ x with obj := .reserved }] else []
def segRegister (x : AS) : List AS := if x.obj = .reserved ∧ x.rm = .none then [{ x with obj := .present }] else []

def next (x : AS) : List AS :=
  segSub x ++ segUnsub x ++ segTok x ++ segRead x ++ segSr x ++ segWp x ++ segMark x ++ segRm x ++ segReserve x ++ segRegister x

/-- nothing of the protocol is in flight -/
def settled (x : AS) : Bool :=
  x.tok = .none && x.pend = .none && x.D.isEmpty && !x.sr && !x.wp && x.rm = .none

/-- the abstract states a new connection can start in: the publisher does not know the new alias; the subscriber may
have receivers (then the cleanup of the previous connection is still to run), or a pending request whose message is not
yet sent or is lost with the previous connection -/
def inits : List AS :=
  [ObjSt.absent, .reserved, .present].flatMap fun obj =>
  [Rm.none, .pre, .post].flatMap fun rm =>
  (if (rm = .none) ∨ obj = .reserved then
    [(false, P.none, T.none), (true, P.none, T.none),
     (false, P.sub false, T.req), (false, P.sub true, T.req), (false, P.unsub false, T.req), (false, P.unsub true, T.req),
     (false, P.sub false, T.hr false), (false, P.sub true, T.hr false), (false, P.unsub false, T.hr false),
     (false, P.unsub true, T.hr false),
     (true, P.sub false, T.req), (true, P.sub true, T.req), (true, P.unsub false, T.req), (true, P.unsub true, T.req),
     (true, P.sub false, T.hr false), (true, P.sub true, T.hr false), (true, P.unsub false, T.hr false),
     (true, P.unsub true, T.hr false)].flatMap fun (a, pend, tok) =>
    (if a then [true] else [false, true]).map fun wp =>
      ({ R := false, A := a, obj := obj, rm := rm, pend := pend, tok := tok, D := [], sr := false, wp := wp } : AS)
   else [])

end QmiModel.PubSub.Proto
