import QmiModel.Lemmas.C20BatchGet
/-! Which registers the batch accessors touch (access log). Core Lean only. -/
namespace QmiModel.Adbasic

/-- some call in the log reads or writes register `r` -/
def touchedBy (log : List Access) (r : Desc) : Prop := ∃ a ∈ log, a.touches r = true

theorem touchedBy_nil (r : Desc) : ¬ touchedBy [] r := by
  intro ⟨a, ha, _⟩; simp at ha

theorem touchedBy_append (l1 l2 : List Access) (r : Desc) :
    touchedBy (l1 ++ l2) r ↔ touchedBy l1 r ∨ touchedBy l2 r := by
  simp only [touchedBy, List.mem_append]
  constructor
  · rintro ⟨a, ha | ha, h⟩
    · exact Or.inl ⟨a, ha, h⟩
    · exact Or.inr ⟨a, ha, h⟩
  · rintro (⟨a, ha, h⟩ | ⟨a, ha, h⟩)
    · exact ⟨a, Or.inl ha, h⟩
    · exact ⟨a, Or.inr ha, h⟩

theorem touchedBy_single (a : Access) (r : Desc) : touchedBy [a] r ↔ a.touches r = true := by
  simp [touchedBy]

theorem touches_setData (d s c : Nat) (r : Desc) :
    (Access.setData d s c).touches r = true ↔ ∃ e, r = .elem d e ∧ s ≤ e ∧ e < s + c := by
  cases r with
  | par i => simp [Access.touches]
  | fpar i => simp [Access.touches]
  | elem d' e' =>
    simp only [Access.touches, Bool.and_eq_true, beq_iff_eq, decide_eq_true_eq]
    constructor
    · rintro ⟨⟨h1, h2⟩, h3⟩
      exact ⟨e', by rw [h1], h2, h3⟩
    · rintro ⟨e, he, h2, h3⟩
      injection he with h4 h5
      subst h4; subst h5
      exact ⟨⟨rfl, h2⟩, h3⟩

theorem touches_getData (d s c : Nat) (r : Desc) :
    (Access.getData d s c).touches r = true ↔ ∃ e, r = .elem d e ∧ s ≤ e ∧ e < s + c := by
  cases r with
  | par i => simp [Access.touches]
  | fpar i => simp [Access.touches]
  | elem d' e' =>
    simp only [Access.touches, Bool.and_eq_true, beq_iff_eq, decide_eq_true_eq]
    constructor
    · rintro ⟨⟨h1, h2⟩, h3⟩
      exact ⟨e', by rw [h1], h2, h3⟩
    · rintro ⟨e, he, h2, h3⟩
      injection he with h4 h5
      subst h4; subst h5
      exact ⟨⟨rfl, h2⟩, h3⟩

theorem collectValues_length (elems : Dict Nat Val) (s c : Nat) (vs : List Val)
    (h : collectValues elems s c = .ok vs) : vs.length = c := by
  induction c generalizing s vs with
  | zero => simp [collectValues] at h; subst h; rfl
  | succ c ih =>
    simp only [collectValues] at h
    cases hv : dictGet elems s with
    | none => rw [hv] at h; simp at h
    | some v =>
      rw [hv] at h
      simp only at h
      cases hr : collectValues elems (s + 1) c with
      | error x => rw [hr] at h; simp at h
      | ok vs' =>
        rw [hr] at h
        simp only at h
        injection h with h
        subst h
        simp [ih _ _ hr]

/-! ### set side -/

theorem setRanges_log (d : Nat) (elems : Dict Nat Val) (rs : List (Nat × Nat)) (dv dv' : Dev)
    (h : setRanges d elems rs dv = .ok dv') :
    ∃ L, dv'.log = L ++ dv.log ∧ ∀ r, touchedBy L r ↔ ∃ e, r = .elem d e ∧ covered rs e := by
  induction rs generalizing dv with
  | nil =>
    simp only [setRanges] at h
    injection h with h; subst h
    refine ⟨[], rfl, fun r => ⟨fun hh => absurd hh (touchedBy_nil r), ?_⟩⟩
    rintro ⟨e, _, ⟨x, hx, _⟩⟩; simp at hx
  | cons r0 rs ih =>
    obtain ⟨s, e0⟩ := r0
    simp only [setRanges] at h
    cases hc : collectValues elems s (e0 + 1 - s) with
    | error x => rw [hc] at h; simp at h
    | ok vals =>
      rw [hc] at h
      simp only at h
      obtain ⟨L', h1, h2⟩ := ih _ h
      have hlen := collectValues_length _ _ _ _ hc
      refine ⟨L' ++ [.setData d s vals.length], by rw [h1]; simp [Dev.doSetData], ?_⟩
      intro r
      rw [touchedBy_append, h2 r, touchedBy_single, touches_setData, hlen]
      constructor
      · rintro (⟨e, he, x, hx, hx2⟩ | ⟨e, he, h3, h4⟩)
        · exact ⟨e, he, x, List.mem_cons_of_mem _ hx, hx2⟩
        · exact ⟨e, he, (s, e0), List.mem_cons_self, h3, by simp only; omega⟩
      · rintro ⟨e, he, x, hx, hx2⟩
        rcases List.mem_cons.1 hx with rfl | hx
        · exact Or.inr ⟨e, he, hx2.1, by have := hx2.2; simp only at this hx2; omega⟩
        · exact Or.inl ⟨e, he, x, hx, hx2⟩

theorem setArrays_log (pd : Dict Nat (Dict Nat Val)) (ds : List Nat) (dv dv' : Dev)
    (h : setArrays pd ds dv = .ok dv') :
    ∃ L, dv'.log = L ++ dv.log ∧
      ∀ r, touchedBy L r ↔ ∃ d e, r = .elem d e ∧ d ∈ ds ∧ (pendGet pd d e).isSome := by
  induction ds generalizing dv with
  | nil =>
    simp only [setArrays] at h
    injection h with h; subst h
    refine ⟨[], rfl, fun r => ⟨fun hh => absurd hh (touchedBy_nil r), ?_⟩⟩
    rintro ⟨d, e, _, hd, _⟩; simp at hd
  | cons d0 ds ih =>
    simp only [setArrays] at h
    cases hm : dictGet pd d0 with
    | none => rw [hm] at h; simp at h
    | some elems =>
      rw [hm] at h
      simp only at h
      cases hr : setRanges d0 elems (findRanges (dictKeys elems)) dv with
      | error x => rw [hr] at h; simp at h
      | ok dv1 =>
        rw [hr] at h
        simp only at h
        obtain ⟨L1, a1, a2⟩ := setRanges_log _ _ _ _ _ hr
        obtain ⟨L2, b1, b2⟩ := ih _ h
        have pg : ∀ e, pendGet pd d0 e = dictGet elems e := by
          intro e; unfold pendGet; rw [hm]
        refine ⟨L2 ++ L1, by rw [b1, a1]; simp, ?_⟩
        intro r
        rw [touchedBy_append, a2 r, b2 r]
        constructor
        · rintro (⟨d, e, he, hd, hp⟩ | ⟨e, he, hc⟩)
          · exact ⟨d, e, he, List.mem_cons_of_mem _ hd, hp⟩
          · exact ⟨d0, e, he, List.mem_cons_self, by rw [pg]; exact ((findRanges_keys elems).2 e).1 hc⟩
        · rintro ⟨d, e, he, hd, hp⟩
          rcases List.mem_cons.1 hd with rfl | hd
          · exact Or.inr ⟨e, he, ((findRanges_keys elems).2 e).2 (by rw [← pg]; exact hp)⟩
          · exact Or.inl ⟨d, e, he, hd, hp⟩

theorem touches_scalar {i : Nat} (a : Access) (r : Desc) (ha : a = .setPar i ∨ a = .getPar i) :
    a.touches r = true ↔ r = .par i := by
  rcases ha with rfl | rfl <;> cases r <;> simp [Access.touches] <;> (try exact eq_comm)

theorem touches_fscalar {i : Nat} (a : Access) (r : Desc) (ha : a = .setFPar i ∨ a = .getFPar i) :
    a.touches r = true ↔ r = .fpar i := by
  rcases ha with rfl | rfl <;> cases r <;> simp [Access.touches] <;> (try exact eq_comm)

theorem setPhase1_log (b : Dict Str Desc) (params : List (Str × Val)) (st st' : SState)
    (h : setPhase1 b params st = .ok st') :
    ∃ L, st'.dev.log = L ++ st.dev.log ∧
      (∀ r, touchedBy L r ↔ r.isElem = false ∧ ∃ nv ∈ params, lookupCI b nv.1 = some r) ∧
      (∀ d e, (pendGet st'.pdata d e).isSome ↔
        (pendGet st.pdata d e).isSome ∨ ∃ nv ∈ params, lookupCI b nv.1 = some (.elem d e)) := by
  induction params generalizing st with
  | nil =>
    simp only [setPhase1] at h
    injection h with h; subst h
    refine ⟨[], rfl, fun r => ⟨fun hh => absurd hh (touchedBy_nil r), ?_⟩, fun d e => ?_⟩
    · rintro ⟨_, nv, hnv, _⟩; simp at hnv
    · simp
  | cons nv ps ih =>
    obtain ⟨n, v⟩ := nv
    simp only [setPhase1] at h
    cases hl : lookupCI b n with
    | none => rw [hl] at h; simp at h
    | some r0 =>
      rw [hl] at h
      cases r0 with
      | par i =>
        cases v with
        | flt x => simp at h
        | int x =>
          simp only at h
          obtain ⟨L, a1, a2, a3⟩ := ih _ h
          refine ⟨L ++ [.setPar i], by rw [a1]; simp [Dev.doSetPar], ?_, ?_⟩
          · intro r
            rw [touchedBy_append, a2 r, touchedBy_single, touches_scalar _ r (Or.inl rfl)]
            constructor
            · rintro (⟨h1, nv, hnv, h2⟩ | h1)
              · exact ⟨h1, nv, List.mem_cons_of_mem _ hnv, h2⟩
              · subst h1; exact ⟨rfl, (n, .int x), List.mem_cons_self, hl⟩
            · rintro ⟨h1, nv, hnv, h2⟩
              rcases List.mem_cons.1 hnv with rfl | hnv
              · simp only at h2; rw [hl] at h2; injection h2 with h2; exact Or.inr h2.symm
              · exact Or.inl ⟨h1, nv, hnv, h2⟩
          · intro d e
            rw [a3 d e]
            constructor
            · rintro (h1 | ⟨nv, hnv, h2⟩)
              · exact Or.inl h1
              · exact Or.inr ⟨nv, List.mem_cons_of_mem _ hnv, h2⟩
            · rintro (h1 | ⟨nv, hnv, h2⟩)
              · exact Or.inl h1
              · rcases List.mem_cons.1 hnv with rfl | hnv
                · simp only at h2; rw [hl] at h2; simp at h2
                · exact Or.inr ⟨nv, hnv, h2⟩
      | fpar i =>
        simp only at h
        obtain ⟨L, a1, a2, a3⟩ := ih _ h
        refine ⟨L ++ [.setFPar i], by rw [a1]; simp [Dev.doSetFPar], ?_, ?_⟩
        · intro r
          rw [touchedBy_append, a2 r, touchedBy_single, touches_fscalar _ r (Or.inl rfl)]
          constructor
          · rintro (⟨h1, nv, hnv, h2⟩ | h1)
            · exact ⟨h1, nv, List.mem_cons_of_mem _ hnv, h2⟩
            · subst h1; exact ⟨rfl, (n, v), List.mem_cons_self, hl⟩
          · rintro ⟨h1, nv, hnv, h2⟩
            rcases List.mem_cons.1 hnv with rfl | hnv
            · simp only at h2; rw [hl] at h2; injection h2 with h2; exact Or.inr h2.symm
            · exact Or.inl ⟨h1, nv, hnv, h2⟩
        · intro d e
          rw [a3 d e]
          constructor
          · rintro (h1 | ⟨nv, hnv, h2⟩)
            · exact Or.inl h1
            · exact Or.inr ⟨nv, List.mem_cons_of_mem _ hnv, h2⟩
          · rintro (h1 | ⟨nv, hnv, h2⟩)
            · exact Or.inl h1
            · rcases List.mem_cons.1 hnv with rfl | hnv
              · simp only at h2; rw [hl] at h2; simp at h2
              · exact Or.inr ⟨nv, hnv, h2⟩
      | elem d0 e0 =>
        simp only at h
        obtain ⟨L, a1, a2, a3⟩ := ih _ h
        refine ⟨L, a1, ?_, ?_⟩
        · intro r
          rw [a2 r]
          constructor
          · rintro ⟨h1, nv, hnv, h2⟩
            exact ⟨h1, nv, List.mem_cons_of_mem _ hnv, h2⟩
          · rintro ⟨h1, nv, hnv, h2⟩
            rcases List.mem_cons.1 hnv with rfl | hnv
            · simp only at h2; rw [hl] at h2; injection h2 with h2; subst h2; simp [Desc.isElem] at h1
            · exact ⟨h1, nv, hnv, h2⟩
        · intro d e
          rw [a3 d e]
          simp only [pendGet_pdataSet]
          constructor
          · rintro (h1 | ⟨nv, hnv, h2⟩)
            · by_cases hde : d0 = d ∧ e0 = e
              · obtain ⟨rfl, rfl⟩ := hde
                exact Or.inr ⟨(n, v), List.mem_cons_self, hl⟩
              · rw [if_neg hde] at h1; exact Or.inl h1
            · exact Or.inr ⟨nv, List.mem_cons_of_mem _ hnv, h2⟩
          · rintro (h1 | ⟨nv, hnv, h2⟩)
            · by_cases hde : d0 = d ∧ e0 = e
              · left; rw [if_pos hde]; rfl
              · left; rw [if_neg hde]; exact h1
            · rcases List.mem_cons.1 hnv with rfl | hnv
              · simp only at h2; rw [hl] at h2
                injection h2 with h2
                injection h2 with h3 h4
                left; rw [if_pos ⟨h3, h4⟩]; rfl
              · exact Or.inr ⟨nv, hnv, h2⟩

/-! ### get side -/

theorem getRanges_log (d : Nat) (elems : Dict Nat Str) (rs : List (Nat × Nat)) (dv dv' : Dev)
    (res res' : Dict Str Val) (h : getRanges d elems rs dv res = .ok (dv', res')) :
    ∃ L, dv'.log = L ++ dv.log ∧ ∀ r, touchedBy L r ↔ ∃ e, r = .elem d e ∧ covered rs e := by
  induction rs generalizing dv res with
  | nil =>
    simp only [getRanges] at h
    injection h with h
    injection h with h1 h2
    subst h1
    refine ⟨[], rfl, fun r => ⟨fun hh => absurd hh (touchedBy_nil r), ?_⟩⟩
    rintro ⟨e, _, ⟨x, hx, _⟩⟩; simp at hx
  | cons r0 rs ih =>
    obtain ⟨s, e0⟩ := r0
    simp only [getRanges, Dev.doGetData] at h
    cases hc : storeValues elems s 0 ((List.range (e0 + 1 - s)).map (fun k => dv.data d (s + k))) res with
    | error x => rw [hc] at h; simp at h
    | ok res1 =>
      rw [hc] at h
      simp only at h
      obtain ⟨L', h1, h2⟩ := ih _ _ h
      refine ⟨L' ++ [.getData d s (e0 + 1 - s)], by rw [h1]; simp, ?_⟩
      intro r
      rw [touchedBy_append, h2 r, touchedBy_single, touches_getData]
      constructor
      · rintro (⟨e, he, x, hx, hx2⟩ | ⟨e, he, h3, h4⟩)
        · exact ⟨e, he, x, List.mem_cons_of_mem _ hx, hx2⟩
        · exact ⟨e, he, (s, e0), List.mem_cons_self, h3, by simp only; omega⟩
      · rintro ⟨e, he, x, hx, hx2⟩
        rcases List.mem_cons.1 hx with rfl | hx
        · exact Or.inr ⟨e, he, hx2.1, by have := hx2.2; simp only at this hx2; omega⟩
        · exact Or.inl ⟨e, he, x, hx, hx2⟩

theorem getArrays_log (pd : Dict Nat (Dict Nat Str)) (ds : List Nat) (dv dv' : Dev)
    (res res' : Dict Str Val) (h : getArrays pd ds dv res = .ok (dv', res')) :
    ∃ L, dv'.log = L ++ dv.log ∧
      ∀ r, touchedBy L r ↔ ∃ d e, r = .elem d e ∧ d ∈ ds ∧ (pendGet pd d e).isSome := by
  induction ds generalizing dv res with
  | nil =>
    simp only [getArrays] at h
    injection h with h
    injection h with h1 h2
    subst h1
    refine ⟨[], rfl, fun r => ⟨fun hh => absurd hh (touchedBy_nil r), ?_⟩⟩
    rintro ⟨d, e, _, hd, _⟩; simp at hd
  | cons d0 ds ih =>
    simp only [getArrays] at h
    cases hm : dictGet pd d0 with
    | none => rw [hm] at h; simp at h
    | some elems =>
      rw [hm] at h
      simp only at h
      cases hr : getRanges d0 elems (findRanges (dictKeys elems)) dv res with
      | error x => rw [hr] at h; simp at h
      | ok p =>
        obtain ⟨dv1, res1⟩ := p
        rw [hr] at h
        simp only at h
        obtain ⟨L1, a1, a2⟩ := getRanges_log _ _ _ _ _ _ _ hr
        obtain ⟨L2, b1, b2⟩ := ih _ _ h
        have pg : ∀ e, pendGet pd d0 e = dictGet elems e := by
          intro e; unfold pendGet; rw [hm]
        refine ⟨L2 ++ L1, by rw [b1, a1]; simp, ?_⟩
        intro r
        rw [touchedBy_append, a2 r, b2 r]
        constructor
        · rintro (⟨d, e, he, hd, hp⟩ | ⟨e, he, hc⟩)
          · exact ⟨d, e, he, List.mem_cons_of_mem _ hd, hp⟩
          · exact ⟨d0, e, he, List.mem_cons_self, by rw [pg]; exact ((findRanges_keys elems).2 e).1 hc⟩
        · rintro ⟨d, e, he, hd, hp⟩
          rcases List.mem_cons.1 hd with rfl | hd
          · exact Or.inr ⟨e, he, ((findRanges_keys elems).2 e).2 (by rw [← pg]; exact hp)⟩
          · exact Or.inl ⟨d, e, he, hd, hp⟩

theorem getPhase1_log (b : Dict Str Desc) (names : List Str) (st st' : GState)
    (h : getPhase1 b names st = .ok st') :
    ∃ L, st'.dev.log = L ++ st.dev.log ∧
      (∀ r, touchedBy L r ↔ r.isElem = false ∧ ∃ n ∈ names, lookupCI b n = some r) ∧
      (∀ d e, (pendGet st'.pdata d e).isSome ↔
        (pendGet st.pdata d e).isSome ∨ ∃ n ∈ names, lookupCI b n = some (.elem d e)) := by
  induction names generalizing st with
  | nil =>
    simp only [getPhase1] at h
    injection h with h; subst h
    refine ⟨[], rfl, fun r => ⟨fun hh => absurd hh (touchedBy_nil r), ?_⟩, fun d e => ?_⟩
    · rintro ⟨_, n, hn, _⟩; simp at hn
    · simp
  | cons n ns ih =>
    simp only [getPhase1] at h
    cases hl : lookupCI b n with
    | none => rw [hl] at h; simp at h
    | some r0 =>
      rw [hl] at h
      cases r0 with
      | par i =>
        simp only [Dev.doGetPar] at h
        obtain ⟨L, a1, a2, a3⟩ := ih _ h
        refine ⟨L ++ [.getPar i], by rw [a1]; simp, ?_, ?_⟩
        · intro r
          rw [touchedBy_append, a2 r, touchedBy_single, touches_scalar _ r (Or.inr rfl)]
          constructor
          · rintro (⟨h1, m, hm, h2⟩ | h1)
            · exact ⟨h1, m, List.mem_cons_of_mem _ hm, h2⟩
            · subst h1; exact ⟨rfl, n, List.mem_cons_self, hl⟩
          · rintro ⟨h1, m, hm, h2⟩
            rcases List.mem_cons.1 hm with rfl | hm
            · rw [hl] at h2; injection h2 with h2; exact Or.inr h2.symm
            · exact Or.inl ⟨h1, m, hm, h2⟩
        · intro d e
          rw [a3 d e]
          constructor
          · rintro (h1 | ⟨m, hm, h2⟩)
            · exact Or.inl h1
            · exact Or.inr ⟨m, List.mem_cons_of_mem _ hm, h2⟩
          · rintro (h1 | ⟨m, hm, h2⟩)
            · exact Or.inl h1
            · rcases List.mem_cons.1 hm with rfl | hm
              · rw [hl] at h2; simp at h2
              · exact Or.inr ⟨m, hm, h2⟩
      | fpar i =>
        simp only [Dev.doGetFPar] at h
        obtain ⟨L, a1, a2, a3⟩ := ih _ h
        refine ⟨L ++ [.getFPar i], by rw [a1]; simp, ?_, ?_⟩
        · intro r
          rw [touchedBy_append, a2 r, touchedBy_single, touches_fscalar _ r (Or.inr rfl)]
          constructor
          · rintro (⟨h1, m, hm, h2⟩ | h1)
            · exact ⟨h1, m, List.mem_cons_of_mem _ hm, h2⟩
            · subst h1; exact ⟨rfl, n, List.mem_cons_self, hl⟩
          · rintro ⟨h1, m, hm, h2⟩
            rcases List.mem_cons.1 hm with rfl | hm
            · rw [hl] at h2; injection h2 with h2; exact Or.inr h2.symm
            · exact Or.inl ⟨h1, m, hm, h2⟩
        · intro d e
          rw [a3 d e]
          constructor
          · rintro (h1 | ⟨m, hm, h2⟩)
            · exact Or.inl h1
            · exact Or.inr ⟨m, List.mem_cons_of_mem _ hm, h2⟩
          · rintro (h1 | ⟨m, hm, h2⟩)
            · exact Or.inl h1
            · rcases List.mem_cons.1 hm with rfl | hm
              · rw [hl] at h2; simp at h2
              · exact Or.inr ⟨m, hm, h2⟩
      | elem d0 e0 =>
        simp only at h
        obtain ⟨L, a1, a2, a3⟩ := ih _ h
        refine ⟨L, a1, ?_, ?_⟩
        · intro r
          rw [a2 r]
          constructor
          · rintro ⟨h1, m, hm, h2⟩
            exact ⟨h1, m, List.mem_cons_of_mem _ hm, h2⟩
          · rintro ⟨h1, m, hm, h2⟩
            rcases List.mem_cons.1 hm with rfl | hm
            · rw [hl] at h2; injection h2 with h2; subst h2; simp [Desc.isElem] at h1
            · exact ⟨h1, m, hm, h2⟩
        · intro d e
          rw [a3 d e]
          simp only [pendGet_pdataSet]
          constructor
          · rintro (h1 | ⟨m, hm, h2⟩)
            · by_cases hde : d0 = d ∧ e0 = e
              · obtain ⟨rfl, rfl⟩ := hde
                exact Or.inr ⟨n, List.mem_cons_self, hl⟩
              · rw [if_neg hde] at h1; exact Or.inl h1
            · exact Or.inr ⟨m, List.mem_cons_of_mem _ hm, h2⟩
          · rintro (h1 | ⟨m, hm, h2⟩)
            · by_cases hde : d0 = d ∧ e0 = e
              · left; rw [if_pos hde]; rfl
              · left; rw [if_neg hde]; exact h1
            · rcases List.mem_cons.1 hm with rfl | hm
              · rw [hl] at h2
                injection h2 with h2
                injection h2 with h3 h4
                left; rw [if_pos ⟨h3, h4⟩]; rfl
              · exact Or.inr ⟨m, hm, h2⟩

end QmiModel.Adbasic
