import QmiModel.Lemmas.C12MM
namespace QmiModel.Context
/-- kernel-checked: first maker `rpc` (constructor raises: false) against every second maker under all 512 schedules -/
theorem mmTable_rpc_false : mmTable (mmMk .rpc false) = true := by decide +kernel
end QmiModel.Context
