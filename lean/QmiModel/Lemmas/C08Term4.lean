import QmiModel.Lemmas.C08Term3
/-! C08 — termination measure: the socket thread starts a callback, reads a message, sees an end-of-stream; every
internal step lowers the measure; `activity_terminates`. -/
namespace QmiModel.PubSub
set_option linter.unusedSimpArgs false

/-- the internal steps that are not micro steps: the socket thread of a context starts something -/
inductive IStep (s : State) : State → Prop
  | cbUnknown (c : Ctx) (d : Peer) (m : Msg) (q : List Cb) : (s.ctx c).alive = true → s.prog (.sock c) = [] →
      (s.ctx c).loopQ = .smSend d m :: q → (s.ctx c).peers d = none →
      IStep s ((s.setCtx c { (s.ctx c) with loopQ := q }).setProg (.sock c) (onSendFail m))
  | cbSent (c : Ctx) (d : Peer) (m : Msg) (q : List Cb) (cn : ConnId) : (s.ctx c).alive = true → s.prog (.sock c) = [] →
      (s.ctx c).loopQ = .smSend d m :: q → (s.ctx c).peers d = some cn →
      IStep s (({ (s.setCtx c { (s.ctx c) with loopQ := q }) with conn := upd s.conn cn (sentConn (s.conn cn) d.isName m) }).setProg (.sock c) [])
  | cbFail (c : Ctx) (d : Peer) (m : Msg) (q : List Cb) (cn : ConnId) : (s.ctx c).alive = true → s.prog (.sock c) = [] →
      (s.ctx c).loopQ = .smSend d m :: q → (s.ctx c).peers d = some cn → ((s.conn cn).half (!d.isName)).isOpen = false →
      IStep s ((s.setCtx c { (s.ctx c) with loopQ := q }).setProg (.sock c) (onSendFail m))
  | cbDiscNone (c : Ctx) (n : Peer) (t : Tid) (q : List Cb) : (s.ctx c).alive = true → s.prog (.sock c) = [] →
      (s.ctx c).loopQ = .disconnect n t :: q → (s.ctx c).peers n = none →
      IStep s ((s.setCtx c { (s.ctx c) with loopQ := q }).setProg (.sock c) [.finish t false])
  | cbDisc (c : Ctx) (n : Peer) (t : Tid) (q : List Cb) (cn : ConnId) : (s.ctx c).alive = true → s.prog (.sock c) = [] →
      (s.ctx c).loopQ = .disconnect n t :: q → (s.ctx c).peers n = some cn →
      IStep s ((s.setCtx c { (s.ctx c) with loopQ := q }).setProg (.sock c) [.popPeer n, .peerRemoved n, .closeConn cn n.isName, .finish t true])
  | arrive (cn : ConnId) (cli : Bool) (m : Msg) (ms : List Msg) : cn < s.nextConn →
      (s.ctx ((s.conn cn).half cli).owner).alive = true → s.prog (.sock ((s.conn cn).half cli).owner) = [] →
      ((s.conn cn).half cli).isOpen = true → ((s.conn cn).half cli).inbox = m :: ms →
      IStep s (({ s with conn := upd s.conn cn ((s.conn cn).setHalf cli (readHalf ((s.conn cn).half cli) m ms)) }).setProg
        (.sock ((s.conn cn).half cli).owner) (dispatch (srcName s cn cli) m))
  | eof (cn : ConnId) (cli : Bool) : cn < s.nextConn →
      (s.ctx ((s.conn cn).half cli).owner).alive = true → s.prog (.sock ((s.conn cn).half cli).owner) = [] →
      ((s.conn cn).half cli).isOpen = true → ((s.conn cn).half cli).inbox = [] → ((s.conn cn).half (!cli)).isOpen = false →
      IStep s (s.setProg (.sock ((s.conn cn).half cli).owner)
        [.popPeer (srcName s cn cli), .peerRemoved (srcName s cn cli), .closeConn cn cli])

/-- an internal action is a micro step or one of the steps of `IStep` -/
theorem step_internal_cases {s s' : State} {a : Act} {o : Out} (hi : a.internal = true) (hs : step s a = some (s', o)) :
    (∃ th ch ch2, a = .micro th ch ch2) ∨ IStep s s' := by
  cases a with
  | micro th ch ch2 => exact Or.inl ⟨th, ch, ch2, rfl⟩
  | cb c ok =>
    refine Or.inr ?_
    simp only [step] at hs
    split at hs
    · rename_i hc
      split at hs
      · simp at hs
      · rename_i d m q hq
        split at hs
        · simp at hs
        · rename_i s1 pr heq
          simp only [Option.some.injEq, Prod.mk.injEq] at hs
          obtain ⟨rfl, -⟩ := hs
          unfold smSendStep at heq
          simp only [setCtx_ctx, if_true] at heq
          split at heq
          · rename_i hp
            simp only [Option.some.injEq, Prod.mk.injEq] at heq; obtain ⟨rfl, rfl⟩ := heq
            exact IStep.cbUnknown c d m q hc.1 hc.2 hq hp
          · rename_i cn hp
            split at heq
            · simp only [Option.some.injEq, Prod.mk.injEq] at heq; obtain ⟨rfl, rfl⟩ := heq
              exact IStep.cbSent c d m q cn hc.1 hc.2 hq hp
            · split at heq
              · simp at heq
              · rename_i hopen
                simp only [Option.some.injEq, Prod.mk.injEq] at heq; obtain ⟨rfl, rfl⟩ := heq
                exact IStep.cbFail c d m q cn hc.1 hc.2 hq hp (by simpa using hopen)
      · rename_i n t q hq
        split at hs
        · rename_i hp
          simp only [Option.some.injEq, Prod.mk.injEq] at hs; obtain ⟨rfl, -⟩ := hs
          exact IStep.cbDiscNone c n t q hc.1 hc.2 hq hp
        · rename_i cn hp
          simp only [Option.some.injEq, Prod.mk.injEq] at hs; obtain ⟨rfl, -⟩ := hs
          exact IStep.cbDisc c n t q cn hc.1 hc.2 hq hp
    · simp at hs
  | arrive cn cli =>
    refine Or.inr ?_
    simp only [step] at hs
    split at hs
    · rename_i hc
      split at hs
      · simp at hs
      · rename_i m ms hin
        simp only [Option.some.injEq, Prod.mk.injEq] at hs; obtain ⟨rfl, -⟩ := hs
        have := IStep.arrive (s := s) cn cli m ms hc.1 hc.2.1 hc.2.2.1 hc.2.2.2 hin
        cases m <;> exact this
    · simp at hs
  | eof cn cli =>
    refine Or.inr ?_
    simp only [step] at hs
    split at hs
    · rename_i hc
      simp only [Option.some.injEq, Prod.mk.injEq] at hs; obtain ⟨rfl, -⟩ := hs
      exact IStep.eof cn cli hc.1 hc.2.1 hc.2.2.1 hc.2.2.2.1 hc.2.2.2.2.1 hc.2.2.2.2.2
    · simp at hs
  | _ => simp [Act.internal] at hi


/-! ### what the started program and the changed connection weigh -/

theorem inboxW_append (l m : List Msg) : inboxW (l ++ m) = inboxW l + inboxW m := by simp [inboxW]
theorem inboxW_cons (m : Msg) (l : List Msg) : inboxW (m :: l) = wMsg m + inboxW l := by simp [inboxW]

theorem connW_sent (x : Conn) (b : Bool) (m : Msg) : connW (sentConn x b m) ≤ connW x + wMsg m + reqW m := by
  unfold sentConn connW reqW
  cases b <;> cases hm : m.reqId? <;> simp only [] <;> split <;>
    simp [Conn.half, Conn.setHalf, halfW, inboxW_append, inboxW_cons, inboxW, Whr_eq] <;> omega

theorem sentConn_meta (x : Conn) (b : Bool) (m : Msg) (b' : Bool) :
    ((sentConn x b m).half b').owner = (x.half b').owner ∧ ((sentConn x b m).half b').isOpen = (x.half b').isOpen := by
  unfold sentConn
  cases b <;> cases b' <;> cases hm : m.reqId? <;> simp only [] <;> split <;> simp [Conn.half, Conn.setHalf]

theorem connW_read (x : Conn) (cli : Bool) (m : Msg) (ms : List Msg) (h : (x.half cli).inbox = m :: ms) :
    connW (x.setHalf cli (readHalf (x.half cli) m ms)) + wMsg m ≤ connW x := by
  unfold connW
  have hl : ∀ (l : List ReqId) (id : ReqId), (l.erase id).length ≤ l.length := fun l id => List.length_erase_le
  cases cli <;> cases m <;> simp only [Conn.half, Conn.setHalf, readHalf, if_true, Bool.false_eq_true, if_false] at h ⊢ <;>
    simp only [halfW, h, inboxW_cons, Whr_eq] <;> (try omega)
  all_goals (rename_i id ok; first | (have := hl x.srv.pend id; omega) | (have := hl x.cli.pend id; omega))

theorem readHalf_meta (h : Half) (m : Msg) (ms : List Msg) :
    (readHalf h m ms).owner = h.owner ∧ (readHalf h m ms).isOpen = h.isOpen := by
  cases m <;> simp [readHalf]

theorem setHalf_meta (x : Conn) (cli : Bool) (h : Half) (ho : h.owner = (x.half cli).owner) (hop : h.isOpen = (x.half cli).isOpen) (b : Bool) :
    ((x.setHalf cli h).half b).owner = (x.half b).owner ∧ ((x.setHalf cli h).half b).isOpen = (x.half b).isOpen := by
  cases cli <;> cases b <;> simp_all [Conn.half, Conn.setHalf]

theorem W1_dispatch (src : Peer) (m : Msg) : W1 (dispatch src m) < wMsg m := by
  cases m with
  | subReq id ob sg b => cases b <;> simp [dispatch, W1, w1, wMsg, wCb, reqW, Msg.reqId?, wmReq_eq, wReqChk1_eq, wmReply_eq]
  | _ => simp [dispatch, W1, w1, wMsg, wmSignal_eq, wmReply_eq, Whr_eq, wmRemoved_eq, wSigRemoved_eq]

theorem W0_dispatch (src : Peer) (m : Msg) : W0 (dispatch src m) = 0 := by
  cases m with
  | subReq id ob sg b => cases b <;> simp [dispatch, W0, w0]
  | _ => simp [dispatch, W0, w0]

/-! ### the socket thread starts a program -/

theorem openPot_start {s s' : State} {c : Ctx} {pr : List MOp} (h0 : s.prog (.sock c) = [])
    (hprog : ∀ th, s'.prog th = if th = .sock c then pr else s.prog th)
    (hown : ∀ n b, ((s'.conn n).half b).owner = ((s.conn n).half b).owner)
    (hopen : ∀ n b, ((s'.conn n).half b).isOpen = ((s.conn n).half b).isOpen) (n : ConnId) (b : Bool) :
    openPot s' n b ≤ openPot s n b := by
  refine openPot_le_of (hown n b) (fun h => by rw [← hopen n b]; exact h) (fun _ hm => ?_)
  rw [hprog]
  split
  · rename_i e; rw [e, h0] at hm; cases hm
  · exact hm

/-- the socket thread of `c`, idle, starts `pr`: the measure falls if what `pr`, the context and the connections weigh
afterwards is less than what the context and the connections weighed before -/
theorem start_decr {B T : Nat} {s s' : State} {c : Ctx} {pr : List MOp} (hc : c < B)
    (h0 : s.prog (.sock c) = [])
    (hprog : ∀ th, s'.prog th = if th = .sock c then pr else s.prog th)
    (hctx : ∀ c', c' ≠ c → s'.ctx c' = s.ctx c')
    (hn : s'.nextConn = s.nextConn)
    (hown : ∀ n b, ((s'.conn n).half b).owner = ((s.conn n).half b).owner)
    (hopen : ∀ n b, ((s'.conn n).half b).isOpen = ((s.conn n).half b).isOpen)
    (hw0 : W0 pr = 0)
    (hdec : W1 pr + ctxW (s'.ctx c) + sumTo s.nextConn (fun n => connW (s'.conn n))
      < ctxW (s.ctx c) + sumTo s.nextConn (fun n => connW (s.conn n))) :
    Lt3 (mu B T s') (mu B T s) := by
  have hbl : (Th.sock c).below B T := hc
  have hoth : ∀ th', th' ≠ .sock c → s'.prog th' = s.prog th' := fun th' hne => by rw [hprog, if_neg hne]
  have hself : s'.prog (.sock c) = pr := by rw [hprog, if_pos rfl]
  have hP0 := progSum_update (W := W0) hbl hoth
  have hP1 := progSum_update (W := W1) hbl hoth
  have hC := ctxSum_update hc hctx
  rw [h0, hself, W0_nil, hw0] at hP0
  rw [h0, hself, W1_nil] at hP1
  have hO : sumTo s'.nextConn (fun n => openPot s' n true + openPot s' n false)
      ≤ sumTo s.nextConn (fun n => openPot s n true + openPot s n false) := by
    rw [hn]
    exact sumTo_le (fun n _ => Nat.add_le_add (openPot_start h0 hprog hown hopen n true) (openPot_start h0 hprog hown hopen n false))
  refine lt3_of1 ?_ ?_
  · show mu0 B T s' ≤ mu0 B T s
    simp only [mu0]; omega
  · show mu1 B T s' < mu1 B T s
    rw [mu1_eq, mu1_eq, hn]
    omega

/-- the socket thread begins to close an open connection end -/
theorem start_mu0_lt {B T : Nat} {s s' : State} {c : Ctx} {pr : List MOp} {cn : ConnId} {cli : Bool} (hc : c < B)
    (h0 : s.prog (.sock c) = [])
    (hprog : ∀ th, s'.prog th = if th = .sock c then pr else s.prog th)
    (hn : s'.nextConn = s.nextConn)
    (hown : ∀ n b, ((s'.conn n).half b).owner = ((s.conn n).half b).owner)
    (hopen : ∀ n b, ((s'.conn n).half b).isOpen = ((s.conn n).half b).isOpen)
    (hw0 : W0 pr = 0) (hlt : cn < s.nextConn) (hco : ((s.conn cn).half cli).owner = c)
    (hop : ((s.conn cn).half cli).isOpen = true) (hmem : MOp.closeConn cn cli ∈ pr) :
    mu0 B T s' < mu0 B T s := by
  have hbl : (Th.sock c).below B T := hc
  have hoth : ∀ th', th' ≠ .sock c → s'.prog th' = s.prog th' := fun th' hne => by rw [hprog, if_neg hne]
  have hself : s'.prog (.sock c) = pr := by rw [hprog, if_pos rfl]
  have hP0 := progSum_update (W := W0) hbl hoth
  rw [h0, hself, W0_nil, hw0] at hP0
  have hle := fun n b => openPot_start (s := s) (s' := s') h0 hprog hown hopen n b
  have hnew : openPot s' cn cli = 0 := by
    unfold openPot
    rw [if_neg]
    intro h
    exact h.2 (by rw [hown, hco, hself]; exact hmem)
  have hold : openPot s cn cli = 1 := by
    unfold openPot
    rw [if_pos ⟨hop, by rw [hco, h0]; simp⟩]
  have hO := sumTo_le_at (n := s.nextConn) (W := 1)
    (g := fun n => openPot s' n true + openPot s' n false) (f := fun n => openPot s n true + openPot s n false) hlt
    (fun j _ => Nat.add_le_add (hle j true) (hle j false))
    (by
      have h1 := hle cn true
      have h2 := hle cn false
      show openPot s' cn true + openPot s' cn false + 1 ≤ openPot s cn true + openPot s cn false
      cases cli <;> omega)
  simp only [mu0]
  rw [hn]
  omega

theorem ctxW_pop {cs : CtxSt} {cb : Cb} {q : List Cb} (hq : cs.loopQ = cb :: q) :
    ctxW { cs with loopQ := q } + wCb cb = ctxW cs := by
  simp only [ctxW, potPend, hq, loopW_cons]; omega

/-- every internal step that is not a micro step lowers the measure -/
theorem istep_decr {B T : Nat} {s s' : State} (hb : Bnd B T s) (h : IStep s s') : Lt3 (mu B T s') (mu B T s) := by
  have hcB : ∀ c, (s.ctx c).loopQ ≠ [] → c < B := fun c hne =>
    Nat.lt_of_not_le (fun hle => hne (by rw [hb.ctx c hle]; rfl))
  cases h with
  | cbUnknown c d m q ha h0 hq hp =>
    refine start_decr (c := c) (pr := onSendFail m) (hcB c (by rw [hq]; simp)) h0 (fun th => by simp [State.setProg, upd])
      (fun c' hne => by simp [State.setProg, State.setCtx, upd, hne]) rfl (fun _ _ => rfl) (fun _ _ => rfl) (W0_onSendFail m) ?_
    have := ctxW_pop hq
    simp only [State.setProg, State.setCtx, upd, if_true, W1_onSendFail, wCb] at this ⊢
    omega
  | cbSent c d m q cn ha h0 hq hp =>
    refine start_decr (c := c) (pr := []) (hcB c (by rw [hq]; simp)) h0 (fun th => by simp [State.setProg, upd])
      (fun c' hne => by simp [State.setProg, State.setCtx, upd, hne]) rfl
      (fun n b => ?_) (fun n b => ?_) rfl ?_
    · simp only [State.setProg, State.setCtx, upd]; split
      · rename_i e; subst e; exact (sentConn_meta _ _ _ _).1
      · rfl
    · simp only [State.setProg, State.setCtx, upd]; split
      · rename_i e; subst e; exact (sentConn_meta _ _ _ _).2
      · rfl
    · have := ctxW_pop hq
      have hN : sumTo s.nextConn (fun n => connW (upd s.conn cn (sentConn (s.conn cn) d.isName m) n))
          ≤ sumTo s.nextConn (fun n => connW (s.conn n)) + (wMsg m + reqW m) :=
        sumTo_le_add_at cn _ (fun j hj => by simp [upd, hj]) (by simp only [upd, if_true]; have := connW_sent (s.conn cn) d.isName m; omega)
      simp only [State.setProg, State.setCtx, upd, if_true, W1_nil, wCb] at this hN ⊢
      omega
  | cbFail c d m q cn ha h0 hq hp hcl =>
    refine start_decr (c := c) (pr := onSendFail m) (hcB c (by rw [hq]; simp)) h0 (fun th => by simp [State.setProg, upd])
      (fun c' hne => by simp [State.setProg, State.setCtx, upd, hne]) rfl (fun _ _ => rfl) (fun _ _ => rfl) (W0_onSendFail m) ?_
    have := ctxW_pop hq
    simp only [State.setProg, State.setCtx, upd, if_true, W1_onSendFail, wCb] at this ⊢
    omega
  | cbDiscNone c n t q ha h0 hq hp =>
    refine start_decr (c := c) (pr := [.finish t false]) (hcB c (by rw [hq]; simp)) h0 (fun th => by simp [State.setProg, upd])
      (fun c' hne => by simp [State.setProg, State.setCtx, upd, hne]) rfl (fun _ _ => rfl) (fun _ _ => rfl) rfl ?_
    have := ctxW_pop hq
    simp only [State.setProg, State.setCtx, upd, if_true, W1_cons, W1_nil, w1, wCb] at this ⊢
    omega
  | cbDisc c n t q cn ha h0 hq hp =>
    refine start_decr (c := c) (pr := [.popPeer n, .peerRemoved n, .closeConn cn n.isName, .finish t true])
      (hcB c (by rw [hq]; simp)) h0 (fun th => by simp [State.setProg, upd])
      (fun c' hne => by simp [State.setProg, State.setCtx, upd, hne]) rfl (fun _ _ => rfl) (fun _ _ => rfl) rfl ?_
    have := ctxW_pop hq
    simp only [State.setProg, State.setCtx, upd, if_true, W1_cons, W1_nil, w1, wCb] at this ⊢
    omega
  | arrive cn cli m ms hlt ha h0 hop hin =>
    refine start_decr (c := ((s.conn cn).half cli).owner) (pr := dispatch (srcName s cn cli) m) (hb.own cn cli) h0
      (fun th => by simp [State.setProg, upd]) (fun c' hne => rfl) rfl (fun n b => ?_) (fun n b => ?_) (W0_dispatch _ _) ?_
    · simp only [State.setProg, upd]; split
      · rename_i e; subst e
        exact (setHalf_meta _ _ _ (readHalf_meta _ _ _).1 (readHalf_meta _ _ _).2 b).1
      · rfl
    · simp only [State.setProg, upd]; split
      · rename_i e; subst e
        exact (setHalf_meta _ _ _ (readHalf_meta _ _ _).1 (readHalf_meta _ _ _).2 b).2
      · rfl
    · have hN := sumTo_update (n := s.nextConn)
        (f := fun n => connW (upd s.conn cn ((s.conn cn).setHalf cli (readHalf ((s.conn cn).half cli) m ms)) n))
        (g := fun n => connW (s.conn n)) hlt (fun j hj => by simp [upd, hj])
      have h1 := connW_read (s.conn cn) cli m ms hin
      have h2 := W1_dispatch (srcName s cn cli) m
      simp only [State.setProg, upd, if_true] at hN ⊢
      omega
  | eof cn cli hlt ha h0 hop hin hcl =>
    exact lt3_of0 (start_mu0_lt (c := ((s.conn cn).half cli).owner)
      (pr := [.popPeer (srcName s cn cli), .peerRemoved (srcName s cn cli), .closeConn cn cli]) (hb.own cn cli) h0
      (fun th => by simp [State.setProg, upd]) rfl (fun _ _ => rfl) (fun _ _ => rfl) rfl hlt rfl hop (by simp))


/-! ### termination -/

/-- one internal step: a thread continues, a socket thread runs a queued callback, reads a message or sees an
end-of-stream.  (The actions of the environment are `begin`, `connect`, `routerOk`, `stopReq`, `stop`.) -/
def IntStep (s s' : State) : Prop := ∃ a o, a.internal = true ∧ step s a = some (s', o)

/-- a finite run of internal steps -/
inductive IntRun : State → State → Prop
  | refl (s : State) : IntRun s s
  | step {s s1 s' : State} : IntStep s s1 → IntRun s1 s' → IntRun s s'

theorem lt3_wf : WellFounded Lt3 := by
  refine Subrelation.wf ?_ (Prod.lex Nat.lt_wfRel (Prod.lex Nat.lt_wfRel Nat.lt_wfRel)).wf
  intro a b h
  obtain ⟨a0, a1, a2⟩ := a
  obtain ⟨b0, b1, b2⟩ := b
  rcases h with h | ⟨h0, h | ⟨h1, h2⟩⟩
  · exact Prod.Lex.left _ _ h
  · simp only at h0; subst h0; exact Prod.Lex.right _ (Prod.Lex.left _ _ h)
  · simp only at h0 h1; subst h0; subst h1; exact Prod.Lex.right _ (Prod.Lex.right _ h2)

/-- an internal step of a reachable, bounded state lowers the measure and keeps the bounds -/
theorem intStep_decr {B T : Nat} {s s' : State} (hr : Reach s) (hb : Bnd B T s) (h : IntStep s s') :
    Lt3 (mu B T s') (mu B T s) ∧ Reach s' ∧ Bnd B T s' := by
  obtain ⟨a, o, hi, hs⟩ := h
  refine ⟨?_, Reach.step hr hs, bnd_step hb hs (internal_below hb hi hs)⟩
  rcases step_internal_cases hi hs with ⟨th, ch, ch2, rfl⟩ | h
  · obtain ⟨-, op, rest, hp, hm⟩ := step_micro_inv hs
    exact micro_decr hr hb hp hm
  · exact istep_decr hb h

/-- **the internal activity terminates**: every reachable state is accessible for the converse of `IntStep` -/
theorem intStep_acc {s : State} (hr : Reach s) : Acc (fun s2 s1 => IntStep s1 s2) s := by
  obtain ⟨B, T, hb⟩ := reach_bounded hr
  have key : ∀ m : Nat × Nat × Nat, ∀ s, Reach s → Bnd B T s → mu B T s = m → Acc (fun s2 s1 => IntStep s1 s2) s := by
    intro m
    refine lt3_wf.induction (C := fun m => ∀ s, Reach s → Bnd B T s → mu B T s = m → Acc (fun s2 s1 => IntStep s1 s2) s) m ?_
    intro m ih s hr hb hm
    refine Acc.intro _ (fun s2 h => ?_)
    obtain ⟨hlt, hr2, hb2⟩ := intStep_decr hr hb h
    exact ih _ (hm ▸ hlt) s2 hr2 hb2 rfl
  exact key _ s hr hb rfl

/-- there is no infinite run of internal steps from a reachable state -/
theorem no_infinite_run {s : State} (hr : Reach s) : ¬ ∃ f : Nat → State, f 0 = s ∧ ∀ i, IntStep (f i) (f (i + 1)) := by
  have hacc := intStep_acc hr
  induction hacc with
  | intro x _ ih =>
    rintro ⟨f, h0, hf⟩
    exact ih (f 1) (by rw [← h0]; exact hf 0) (by obtain ⟨a, o, -, hs⟩ := (h0 ▸ hf 0 : IntStep x (f 1)); exact Reach.step hr hs)
      ⟨fun i => f (i + 1), rfl, fun i => hf (i + 1)⟩

theorem intRun_reach {s s' : State} (h : IntRun s s') (hr : Reach s) : Reach s' := by
  induction h with
  | refl => exact hr
  | step h1 _ ih => obtain ⟨a, o, -, hs⟩ := h1; exact ih (Reach.step hr hs)

/-- internal steps neither stop a context nor begin to stop it -/
theorem intStep_flags {s s' : State} (h : IntStep s s') (c : Ctx) :
    (s'.ctx c).alive = (s.ctx c).alive ∧ (s'.ctx c).routerDown = (s.ctx c).routerDown := by
  obtain ⟨a, o, hi, hs⟩ := h
  rcases step_internal_cases hi hs with ⟨th, ch, ch2, rfl⟩ | h
  · obtain ⟨-, op, rest, hp, hm⟩ := step_micro_inv hs
    exact ⟨(microStep_fields hm).alive c, (microStep_fields hm).routerDown c⟩
  · cases h <;> simp only [State.setProg, State.setCtx, upd] <;> (try split) <;> simp_all

theorem intRun_noStop {s s' : State} (h : IntRun s s') (hns : NoStopPending s) : NoStopPending s' := by
  induction h with
  | refl => exact hns
  | step h1 _ ih =>
    refine ih (fun c ha => ?_)
    rw [(intStep_flags h1 c).1] at ha
    rw [(intStep_flags h1 c).2]
    exact hns c ha

/-- from every reachable state the internal activity can be run to its end -/
theorem run_to_stuck {s : State} (hr : Reach s) : ∃ s', IntRun s s' ∧ Stuck s' := by
  have hacc := intStep_acc hr
  induction hacc with
  | intro x _ ih =>
    by_cases hst : Stuck x
    · exact ⟨x, IntRun.refl x, hst⟩
    · have : ∃ a, a.internal = true ∧ step x a ≠ none := Classical.byContradiction (fun hn =>
        hst (fun a hi => Classical.byContradiction (fun hne => hn ⟨a, hi, hne⟩)))
      obtain ⟨a, hi, hne⟩ := this
      cases hs : step x a with
      | none => exact absurd hs hne
      | some r =>
        obtain ⟨s1, o⟩ := r
        have h1 : IntStep x s1 := ⟨a, o, hi, hs⟩
        obtain ⟨s', hrun, hst'⟩ := ih s1 h1 (Reach.step hr hs)
        exact ⟨s', IntRun.step h1 hrun, hst'⟩

end QmiModel.PubSub
