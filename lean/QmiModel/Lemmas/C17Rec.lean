import QmiModel.Model.Recorder
/-!
# Recorder: the inductive invariant over all interleavings (helper lemmas for Props/C17.lean)
-/
namespace QmiModel.C17.RecL
open QmiModel.C17

structure Inv (s : RecSt) : Prop where
  /-- nothing recorded is lost or duplicated: file, then the writer's batch, then the hand-off queue -/
  conserve    : ∀ d, s.file d ++ (s.loc d).flatten ++ (s.shared d).flatten = s.recorded d
  split       : ∀ d, s.recorded d = s.pre d ++ s.late d
  idle_loc    : (s.pc = .idle ∨ s.pc = .done) → ∀ d, s.loc d = []
  quit_sd     : s.quit = true → s.shutdown = true
  late_sh     : s.quit = true → s.pc ≠ .idle → ∀ d, ∃ x, s.late d = x ++ (s.shared d).flatten
  noshut_late : s.shutdown = false → ∀ d, s.late d = []
  done_quit   : s.pc = .done → s.quit = true

theorem inv_init : Inv RecSt.init := by
  refine ⟨?_, ?_, ?_, ?_, ?_, ?_, ?_⟩ <;> simp [RecSt.init]

theorem fupd_same {β : Type} (f : Nat → β) (d : Nat) (v : β) : fupd f d v d = v := by simp [fupd]
theorem fupd_other {β : Type} (f : Nat → β) (d e : Nat) (v : β) (h : e ≠ d) : fupd f d v e = f e := by simp [fupd, h]

theorem inv_record (s : RecSt) (d : Nat) (b : List Nat) (s' : RecSt) (h : Inv s)
    (hs : recStep s (.record d b) = some s') : Inv s' := by
  simp only [recStep] at hs
  split at hs
  · cases hs; exact h
  · cases hs
    refine ⟨?_, ?_, h.idle_loc, h.quit_sd, ?_, ?_, h.done_quit⟩
    · intro e
      by_cases he : e = d
      · subst he
        simp only [fupd_same, List.flatten_append, List.flatten_cons, List.flatten_nil, List.append_nil]
        rw [← h.conserve e]; simp only [List.append_assoc]
      · simp only [fupd_other _ _ _ _ he]; exact h.conserve e
    · intro e
      by_cases hsd : s.shutdown = true
      · simp only [hsd, if_true]
        by_cases he : e = d
        · subst he; simp only [fupd_same]; rw [h.split e]; simp only [List.append_assoc]
        · simp only [fupd_other _ _ _ _ he]; exact h.split e
      · have hsd' : s.shutdown = false := by cases hh : s.shutdown <;> simp_all
        simp only [hsd', Bool.false_eq_true, if_false]
        by_cases he : e = d
        · subst he
          simp only [fupd_same]
          rw [h.split e, h.noshut_late hsd' e]; simp
        · simp only [fupd_other _ _ _ _ he]; exact h.split e
    · intro hq hpc e
      have hsd := h.quit_sd hq
      obtain ⟨x, hx⟩ := h.late_sh hq hpc e
      simp only [hsd, if_true]
      by_cases he : e = d
      · subst he
        refine ⟨x, ?_⟩
        simp only [fupd_same, List.flatten_append, List.flatten_cons, List.flatten_nil, List.append_nil]
        rw [hx]; simp only [List.append_assoc]
      · refine ⟨x, ?_⟩; simp only [fupd_other _ _ _ _ he]; exact hx
    · intro hsd e
      have hsd' : s.shutdown = false := hsd
      simp only [hsd', Bool.false_eq_true, if_false]
      exact h.noshut_late hsd' e

theorem inv_step (s s' : RecSt) (a : RecAct) (h : Inv s) (hs : recStep s a = some s') : Inv s' := by
  cases a with
  | record d b => exact inv_record s d b s' h hs
  | setAttr d k v =>
    simp only [recStep] at hs; cases hs
    exact ⟨h.conserve, h.split, h.idle_loc, h.quit_sd, h.late_sh, h.noshut_late, h.done_quit⟩
  | shutdown =>
    simp only [recStep] at hs; cases hs
    exact ⟨h.conserve, h.split, h.idle_loc, fun _ => rfl, h.late_sh, fun hh => by simp at hh, h.done_quit⟩
  | swap =>
    simp only [recStep] at hs
    split at hs
    · rename_i hen
      cases hs
      have hloc := h.idle_loc (Or.inl hen.1)
      refine ⟨?_, h.split, ?_, ?_, ?_, h.noshut_late, ?_⟩
      · intro d
        have := h.conserve d
        rw [hloc d] at this
        show s.file d ++ (s.shared d).flatten ++ (s.loc d).flatten = s.recorded d
        rw [hloc d]
        simpa using this
      · intro hp; rcases hp with hp | hp <;> cases hp
      · intro hq; exact hq
      · intro _ _ d
        refine ⟨s.late d, ?_⟩
        show s.late d = s.late d ++ (s.loc d).flatten
        rw [hloc d]; simp
      · intro hp; cases hp
    · cases hs
  | flush =>
    simp only [recStep] at hs
    split at hs
    · rename_i hpc
      cases hs
      refine ⟨?_, h.split, ?_, h.quit_sd, ?_, h.noshut_late, ?_⟩
      · intro d
        have := h.conserve d
        simpa [List.append_assoc] using this
      · intro _ d; rfl
      · intro hq _ d
        exact h.late_sh hq (by rw [hpc]; decide) d
      · intro hp
        by_cases hq : s.quit = true
        · exact hq
        · simp [hq] at hp
    · cases hs
  | crash =>
    simp only [recStep] at hs
    split at hs
    · rename_i hpc
      cases hs
      refine ⟨h.conserve, h.split, ?_, h.quit_sd, ?_, h.noshut_late, ?_⟩
      · intro hp; rcases hp with hp | hp <;> cases hp
      · intro hq _ d; exact h.late_sh hq (by rw [hpc]; decide) d
      · intro hp; cases hp
    · cases hs

theorem inv_reach {s : RecSt} (h : RecReach s) : Inv s := by
  induction h with
  | init => exact inv_init
  | step a _ hs ih => exact inv_step _ _ a ih hs

/-- the writer's own actions after a shutdown request lead to `done` in at most three steps -/
theorem writer_finishes (s : RecSt) (hsd : s.shutdown = true) (hpc : s.pc ≠ .done) (hpf : s.pc ≠ .failed) :
    ∃ acts : List RecAct, acts.length ≤ 3 ∧ (∀ a ∈ acts, a = .swap ∨ a = .flush) ∧
      (recRun s acts).map (·.pc) = some .done := by
  cases hp : s.pc with
  | done => exact absurd hp hpc
  | failed => exact absurd hp hpf
  | idle =>
    refine ⟨[.swap, .flush], by simp, by simp, ?_⟩
    simp [recRun, recStep, hp, hsd]
  | flushing =>
    by_cases hq : s.quit = true
    · refine ⟨[.flush], by simp, by simp, ?_⟩
      simp [recRun, recStep, hp, hq]
    · refine ⟨[.flush, .swap, .flush], by simp, by simp, ?_⟩
      simp [recRun, recStep, hp, hq, hsd]

end QmiModel.C17.RecL

/-! ## attributes: newest value wins, nothing is dropped while the dataset exists or is still to come -/
namespace QmiModel.C17.RecL
open QmiModel.C17

theorem upd_empty (a : Attrs) : a.upd Attrs.empty = a := by
  funext k; simp [Attrs.upd, Attrs.empty]

theorem upd_assoc (a b c : Attrs) : (a.upd b).upd c = a.upd (b.upd c) := by
  funext k; simp only [Attrs.upd]; cases c k <;> rfl

theorem upd_set (a b : Attrs) (k v : Nat) : (a.upd b).set k v = a.upd (b.set k v) := by
  funext x; simp only [Attrs.upd, Attrs.set]; split <;> rfl

structure AInv (s : RecSt) : Prop where
  eff       : ∀ d, effAttrs s d = s.want d
  idle_new  : (s.pc = .idle ∨ s.pc = .done) → ∀ d, s.newA d = none
  pend_file : ∀ d, s.pendA d ≠ none → s.file d = []

theorem ainv_init : AInv RecSt.init := by
  refine ⟨?_, ?_, ?_⟩
  · intro d; funext k; simp [effAttrs, RecSt.init, Attrs.upd, Attrs.empty]
  · intro _ d; rfl
  · intro d h; exact absurd rfl h

theorem ainv_step (s s' : RecSt) (a : RecAct) (h : AInv s) (hs : recStep s a = some s') : AInv s' := by
  cases a with
  | record d b =>
    simp only [recStep] at hs
    split at hs
    · cases hs; exact h
    · cases hs
      exact ⟨h.eff, h.idle_new, h.pend_file⟩
  | setAttr d k v =>
    simp only [recStep] at hs; cases hs
    refine ⟨?_, h.idle_new, h.pend_file⟩
    intro e
    by_cases he : e = d
    · subst he
      show (((s.fattrs e).upd ((s.pendA e).getD Attrs.empty)).upd ((s.newA e).getD Attrs.empty)).upd
          ((fupd s.sattrs e (some (((s.sattrs e).getD Attrs.empty).set k v)) e).getD Attrs.empty) = fupd s.want e ((s.want e).set k v) e
      rw [fupd_same, fupd_same, Option.getD_some, ← upd_set, ← h.eff e]; rfl
    · show (((s.fattrs e).upd ((s.pendA e).getD Attrs.empty)).upd ((s.newA e).getD Attrs.empty)).upd
          ((fupd s.sattrs d (some (((s.sattrs d).getD Attrs.empty).set k v)) e).getD Attrs.empty) = fupd s.want d ((s.want d).set k v) e
      rw [fupd_other _ _ _ _ he, fupd_other _ _ _ _ he]; exact h.eff e
  | shutdown =>
    simp only [recStep] at hs; cases hs
    exact ⟨h.eff, h.idle_new, h.pend_file⟩
  | swap =>
    simp only [recStep] at hs
    split at hs
    · rename_i hen
      cases hs
      have hn := h.idle_new (Or.inl hen.1)
      refine ⟨?_, (fun hp => by rcases hp with hp | hp <;> cases hp), h.pend_file⟩
      intro d
      have := h.eff d
      simp only [effAttrs, hn d, Option.getD_none, upd_empty] at this ⊢
      exact this
    · cases hs
  | flush =>
    simp only [recStep] at hs
    split at hs
    · cases hs
      refine ⟨?_, fun _ _ => rfl, ?_⟩
      · intro d
        have he := h.eff d
        show ((((flushAttrs s d).1).upd (((flushAttrs s d).2).getD Attrs.empty)).upd ((none : Option Attrs).getD Attrs.empty)).upd
            ((s.sattrs d).getD Attrs.empty) = s.want d
        rw [← he]
        simp only [effAttrs, flushAttrs, Option.getD_none, upd_empty]
        split
        · simp only [Option.getD_none, upd_empty]
        · cases hn : s.newA d with
          | none => simp only [Option.getD_none, upd_empty]
          | some a =>
            cases hp : s.pendA d with
            | some p => simp only [Option.getD_some, upd_assoc]
            | none =>
              simp only [Option.getD_none, Option.getD_some, upd_empty]
              split <;> simp only [Option.getD_none, Option.getD_some, upd_empty]
      · intro d hpd
        show s.file d ++ (s.loc d).flatten = []
        have hpd' : (flushAttrs s d).2 ≠ none := hpd
        simp only [flushAttrs] at hpd'
        split at hpd'
        · exact absurd rfl hpd'
        · rename_i hw
          have hl : (s.loc d).flatten = [] := by
            by_cases hh : (s.loc d).flatten = []
            · exact hh
            · exact absurd hh hw
          cases hn : s.newA d with
          | none =>
            rw [hn] at hpd'
            rw [hl, List.append_nil]; exact h.pend_file d hpd'
          | some a =>
            rw [hn] at hpd'
            cases hp : s.pendA d with
            | some p => rw [hl, List.append_nil]; exact h.pend_file d (by rw [hp]; simp)
            | none =>
              rw [hp] at hpd'
              simp only at hpd'
              split at hpd'
              · exact absurd rfl hpd'
              · rename_i hex
                by_cases hh : s.file d ++ (s.loc d).flatten = []
                · exact hh
                · exact absurd hh hex
    · cases hs
  | crash =>
    simp only [recStep] at hs
    split at hs
    · cases hs
      exact ⟨h.eff, (fun hp => by rcases hp with hp | hp <;> cases hp), h.pend_file⟩
    · cases hs

theorem ainv_reach {s : RecSt} (h : RecReach s) : AInv s := by
  induction h with
  | init => exact ainv_init
  | step a _ hs ih => exact ainv_step _ _ a ih hs

end QmiModel.C17.RecL
