import QmiModel.Lemmas.C13Discard
/-!
# C13 helper lemmas, part 10: `discard_read` drains the device until it says "nothing more"
-/
namespace QmiModel.Transport

/-- a script entry the drain loop of the socket `discard_read` swallows and continues after: non-empty data
(for a datagram socket: that fits the receive size) -/
def isLive (dg : Bool) (maxP : Nat) (ev : Ev) : Bool :=
  match ev.res with
  | .data bs => !bs.isEmpty && (!dg || decide (bs.length ≤ maxP))
  | _ => false

/-- what is left of the script after the drain: everything up to and including the first answer that is not
live data (time-out, EOF, empty read, oversize datagram) is gone -/
def drained (dg : Bool) (maxP : Nat) (d : Script) : Script := (d.dropWhile (isLive dg maxP)).tail

theorem drained_live (dg : Bool) (maxP : Nat) (ev : Ev) (rest : Script) (h : isLive dg maxP ev = true) :
    drained dg maxP (ev :: rest) = drained dg maxP rest := by
  simp [drained, List.dropWhile, h]

theorem drained_stop (dg : Bool) (maxP : Nat) (ev : Ev) (rest : Script) (h : isLive dg maxP ev = false) :
    drained dg maxP (ev :: rest) = rest := by
  simp [drained, List.dropWhile, h]

theorem sockDiscardLoop_drains : ∀ (fuel : Nat) (s : St), 0 < s.maxP →
    (sockDiscardLoop fuel s).2 = .unit →
    (sockDiscardLoop fuel s).1.dev = drained (s.kind == .udp) s.maxP s.dev := by
  intro fuel
  induction fuel with
  | zero => intro s _ h; simp [sockDiscardLoop] at h
  | succ fuel ih =>
    intro s
    obtain ⟨kind, minP, maxP, isOpen, buf, clock, dev, io, log, openPlan, wlog⟩ := s
    intro hp h
    simp only at hp
    cases dev with
    | nil => simp [sockDiscardLoop, sockRecv, popDev] at h
    | cons x rest =>
      obtain ⟨e, r⟩ := x
      cases r with
      | timeout =>
        simp only [sockDiscardLoop, sockRecv, popDev]
        exact (drained_stop _ _ _ _ rfl).symm
      | eof =>
        simp only [sockDiscardLoop, sockRecv, popDev]
        exact (drained_stop _ _ _ _ rfl).symm
      | data bs =>
        by_cases hfit : bs.length ≤ maxP
        · by_cases hemp : bs.isEmpty = true
          · have hdead : isLive (kind == .udp) maxP ⟨e, .data bs⟩ = false := by simp [isLive, hemp]
            simp only [sockDiscardLoop, sockRecv, popDev, hfit, if_true, hemp]
            exact (drained_stop _ _ _ _ hdead).symm
          · have hlive : isLive (kind == .udp) maxP ⟨e, .data bs⟩ = true := by
              simp [isLive, hemp, hfit]
            simp only [sockDiscardLoop, sockRecv, popDev, hfit, if_true, hemp] at h ⊢
            rw [drained_live _ _ _ _ hlive]
            exact ih _ hp h
        · by_cases hdg : (kind == .udp) = true
          · have hdead : isLive (kind == .udp) maxP ⟨e, .data bs⟩ = false := by
              simp [isLive, hdg, hfit]
            simp only [sockDiscardLoop, sockRecv, popDev, hfit, if_false, hdg, if_true]
            rw [← hdg]
            exact (drained_stop _ _ _ _ hdead).symm
          · have hdg' : (kind == .udp) = false := by simpa using hdg
            have hne : ¬ bs.isEmpty = true := by
              intro he; have : bs = [] := by simpa using he
              subst this; simp at hfit
            have htake : ¬ (bs.take maxP).isEmpty = true := by
              intro he
              have h0 : bs.take maxP = [] := by simpa using he
              have : (bs.take maxP).length = 0 := by rw [h0]; rfl
              simp only [List.length_take] at this
              omega
            have hdrop : ¬ (bs.drop maxP).isEmpty = true := by
              intro he
              have h0 : bs.drop maxP = [] := by simpa using he
              have : (bs.drop maxP).length = 0 := by rw [h0]; rfl
              simp only [List.length_drop] at this
              omega
            have hlive : isLive (kind == .udp) maxP ⟨e, .data bs⟩ = true := by
              simp [isLive, hne, hdg']
            have hlive2 : isLive (kind == .udp) maxP ⟨0, .data (bs.drop maxP)⟩ = true := by
              simp [isLive, hdrop, hdg']
            simp only [sockDiscardLoop, sockRecv, popDev, hfit, if_false, hdg', Bool.false_eq_true, htake] at h ⊢
            rw [← hdg', drained_live _ _ _ _ hlive, ← drained_live _ _ _ rest hlive2]
            have := ih _ hp h
            simpa [hdg'] using this

/-- socket `discard_read` on an open transport, when it returns normally -/
theorem sockDiscard_drains (s : St) (ho : s.isOpen = true) (hp : 0 < s.maxP) (h : (sockDiscard s).2 = .unit) :
    (sockDiscard s).1.dev = drained (s.kind == .udp) s.maxP s.dev ∧ (sockDiscard s).1.buf = [] := by
  simp only [sockDiscard, ho, Bool.not_true, Bool.false_eq_true, if_false] at h ⊢
  exact ⟨sockDiscardLoop_drains _ _ hp h, (sockDiscardLoop_spec _ _ rfl).2.2⟩

/-- serial `discard_read`: nothing that is available without delay is left at the head of the script -/
theorem flushSplit_head : ∀ d : Script, inWaitingOf (flushSplit d).2 = 0 ∨ ∃ e rest, (flushSplit d).2 = ⟨e, .data []⟩ :: rest := by
  intro d
  induction d with
  | nil => left; rfl
  | cons x rest ih =>
    obtain ⟨e, r⟩ := x
    cases e with
    | succ k => left; simp [flushSplit, inWaitingOf]
    | zero =>
      cases r with
      | timeout => left; simp [flushSplit, inWaitingOf]
      | eof => left; simp [flushSplit, inWaitingOf]
      | data bs => simpa [flushSplit] using ih

end QmiModel.Transport
