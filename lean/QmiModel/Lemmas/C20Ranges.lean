import QmiModel.Model.Adbasic
/-! Helper lemmas for C20: dictionaries, sorting, `_find_sequential_ranges`. Core Lean only. -/
namespace QmiModel.Adbasic

/-! ### dict -/

theorem dictGet_dictSet {α β : Type} [DecidableEq α] (d : Dict α β) (k k' : α) (v : β) :
    dictGet (dictSet d k v) k' = if k = k' then some v else dictGet d k' := by
  induction d with
  | nil => simp [dictSet, dictGet]
  | cons kv rest ih =>
    obtain ⟨a, b⟩ := kv
    simp only [dictSet]
    by_cases h : a = k
    · subst h
      simp only [if_true, dictGet]
      by_cases h2 : a = k' <;> simp [h2]
    · simp only [h, if_false, dictGet, ih]
      by_cases h2 : a = k'
      · subst h2
        have : ¬ k = a := fun e => h e.symm
        simp [this]
      · simp [h2]

theorem dictGet_dictSet_self {α β : Type} [DecidableEq α] (d : Dict α β) (k : α) (v : β) :
    dictGet (dictSet d k v) k = some v := by simp [dictGet_dictSet]

theorem dictGet_dictSet_ne {α β : Type} [DecidableEq α] (d : Dict α β) {k k' : α} (v : β) (h : k ≠ k') :
    dictGet (dictSet d k v) k' = dictGet d k' := by simp [dictGet_dictSet, h]

theorem mem_dictKeys_dictSet {α β : Type} [DecidableEq α] (d : Dict α β) (k a : α) (v : β) :
    a ∈ dictKeys (dictSet d k v) ↔ a = k ∨ a ∈ dictKeys d := by
  induction d with
  | nil => simp [dictSet, dictKeys]
  | cons kv rest ih =>
    obtain ⟨x, y⟩ := kv
    simp only [dictSet]
    by_cases h : x = k
    · subst h; simp [dictKeys]
    · simp only [h, if_false]
      simp only [dictKeys, List.map_cons, List.mem_cons] at ih ⊢
      rw [ih]
      constructor
      · rintro (h1 | h1 | h1) <;> simp [h1]
      · rintro (h1 | h1 | h1) <;> simp [h1]

theorem dictGet_isSome_iff {α β : Type} [DecidableEq α] (d : Dict α β) (a : α) :
    (dictGet d a).isSome ↔ a ∈ dictKeys d := by
  induction d with
  | nil => simp [dictGet, dictKeys]
  | cons kv rest ih =>
    obtain ⟨x, y⟩ := kv
    simp only [dictGet, dictKeys, List.map_cons, List.mem_cons]
    by_cases h : x = a
    · subst h; simp
    · simp only [h, if_false]
      simp only [dictKeys] at ih
      rw [ih]
      constructor
      · intro h1; exact Or.inr h1
      · rintro (h1 | h1)
        · exact absurd h1.symm h
        · exact h1

theorem dictGet_eq_none_iff {α β : Type} [DecidableEq α] (d : Dict α β) (a : α) :
    dictGet d a = none ↔ a ∉ dictKeys d := by
  rw [← dictGet_isSome_iff]
  cases dictGet d a <;> simp

theorem dictKeys_nodup_dictSet {α β : Type} [DecidableEq α] (d : Dict α β) (k : α) (v : β)
    (h : (dictKeys d).Nodup) : (dictKeys (dictSet d k v)).Nodup := by
  induction d with
  | nil => simp [dictSet, dictKeys]
  | cons kv rest ih =>
    obtain ⟨x, y⟩ := kv
    simp only [dictKeys, List.map_cons, List.nodup_cons] at h
    simp only [dictSet]
    by_cases hx : x = k
    · subst hx
      simp only [if_true, dictKeys, List.map_cons, List.nodup_cons]
      exact h
    · simp only [hx, if_false, dictKeys, List.map_cons, List.nodup_cons]
      refine ⟨?_, ih h.2⟩
      intro hm
      have := (mem_dictKeys_dictSet rest k x v).1 hm
      rcases this with h1 | h1
      · exact hx h1
      · exact h.1 h1

/-! ### sorting -/

theorem mem_insertSorted (x a : Nat) (l : List Nat) : a ∈ insertSorted x l ↔ a = x ∨ a ∈ l := by
  induction l with
  | nil => simp [insertSorted]
  | cons y ys ih =>
    simp only [insertSorted]
    split
    · simp
    · simp only [List.mem_cons, ih]
      constructor
      · rintro (h | h | h) <;> simp [h]
      · rintro (h | h | h) <;> simp [h]

theorem mem_sortNat (a : Nat) (l : List Nat) : a ∈ sortNat l ↔ a ∈ l := by
  induction l with
  | nil => simp [sortNat]
  | cons x xs ih => simp [sortNat, mem_insertSorted, ih]

theorem sorted_insertSorted (x : Nat) (l : List Nat) (h : l.Pairwise (· ≤ ·)) :
    (insertSorted x l).Pairwise (· ≤ ·) := by
  induction l with
  | nil => simp [insertSorted]
  | cons y ys ih =>
    simp only [insertSorted]
    have hy := List.pairwise_cons.1 h
    split
    · rename_i hxy
      refine List.pairwise_cons.2 ⟨?_, h⟩
      intro a ha
      rcases List.mem_cons.1 ha with rfl | ha
      · exact hxy
      · exact Nat.le_trans hxy (hy.1 a ha)
    · rename_i hxy
      refine List.pairwise_cons.2 ⟨?_, ih hy.2⟩
      intro a ha
      rcases (mem_insertSorted x a ys).1 ha with rfl | ha
      · omega
      · exact hy.1 a ha

theorem sorted_sortNat (l : List Nat) : (sortNat l).Pairwise (· ≤ ·) := by
  induction l with
  | nil => simp [sortNat]
  | cons x xs ih => exact sorted_insertSorted x _ ih

/-! ### `_find_sequential_ranges` -/

/-- `n` lies in one of the closed ranges -/
def covered (rs : List (Nat × Nat)) (n : Nat) : Prop := ∃ r ∈ rs, r.1 ≤ n ∧ n ≤ r.2

theorem covered_rangesAux (s e : Nat) (l : List Nat) (hse : s ≤ e)
    (hge : ∀ x ∈ l, e ≤ x) (hsorted : l.Pairwise (· ≤ ·)) (n : Nat) :
    covered (rangesAux s e l) n ↔ (s ≤ n ∧ n ≤ e) ∨ n ∈ l := by
  induction l generalizing s e with
  | nil => simp [rangesAux, covered]
  | cons v vs ih =>
    have hs := List.pairwise_cons.1 hsorted
    have hev : e ≤ v := hge v (List.mem_cons_self)
    simp only [rangesAux]
    split
    · rename_i hv
      rw [ih s v (by omega) hs.1 hs.2]
      simp only [List.mem_cons]
      constructor
      · rintro (h | h)
        · by_cases hn : n = v
          · exact Or.inr (Or.inl hn)
          · exact Or.inl ⟨h.1, by omega⟩
        · exact Or.inr (Or.inr h)
      · rintro (h | h | h)
        · exact Or.inl ⟨h.1, by omega⟩
        · exact Or.inl ⟨by omega, by omega⟩
        · exact Or.inr h
    · split
      · rename_i hv1 hv2
        have : covered ((s, e) :: rangesAux v v vs) n ↔ (s ≤ n ∧ n ≤ e) ∨ covered (rangesAux v v vs) n := by
          simp [covered]
        rw [this, ih v v (Nat.le_refl _) hs.1 hs.2]
        simp only [List.mem_cons]
        constructor
        · rintro (h | h | h)
          · exact Or.inl h
          · exact Or.inr (Or.inl (by omega))
          · exact Or.inr (Or.inr h)
        · rintro (h | h | h)
          · exact Or.inl h
          · exact Or.inr (Or.inl (by omega))
          · exact Or.inr (Or.inr h)
      · rename_i hv1 hv2
        rw [ih s e hse (fun x hx => hge x (List.mem_cons_of_mem _ hx)) hs.2]
        simp only [List.mem_cons]
        constructor
        · rintro (h | h)
          · exact Or.inl h
          · exact Or.inr (Or.inr h)
        · rintro (h | h | h)
          · exact Or.inl h
          · exact Or.inl ⟨by omega, by omega⟩
          · exact Or.inr h

/-- every range produced starts at or after `s`, and is non-empty -/
theorem rangesAux_bounds (s e : Nat) (l : List Nat) (hse : s ≤ e)
    (hge : ∀ x ∈ l, e ≤ x) (hsorted : l.Pairwise (· ≤ ·)) :
    ∀ r ∈ rangesAux s e l, s ≤ r.1 ∧ r.1 ≤ r.2 := by
  induction l generalizing s e with
  | nil => intro r hr; simp [rangesAux] at hr; subst hr; exact ⟨Nat.le_refl _, hse⟩
  | cons v vs ih =>
    have hs := List.pairwise_cons.1 hsorted
    have hev : e ≤ v := hge v (List.mem_cons_self)
    simp only [rangesAux]
    split
    · exact ih s v (by omega) hs.1 hs.2
    · split
      · intro r hr
        rcases List.mem_cons.1 hr with rfl | hr
        · exact ⟨Nat.le_refl _, hse⟩
        · have := ih v v (Nat.le_refl _) hs.1 hs.2 r hr
          exact ⟨by omega, this.2⟩
      · exact ih s e hse (fun x hx => hge x (List.mem_cons_of_mem _ hx)) hs.2

/-- consecutive ranges are separated by at least one missing integer: sorted, disjoint and maximal -/
theorem rangesAux_separated (s e : Nat) (l : List Nat) (hse : s ≤ e)
    (hge : ∀ x ∈ l, e ≤ x) (hsorted : l.Pairwise (· ≤ ·)) :
    (rangesAux s e l).Pairwise (fun a b => a.2 + 1 < b.1) := by
  induction l generalizing s e with
  | nil => simp [rangesAux]
  | cons v vs ih =>
    have hs := List.pairwise_cons.1 hsorted
    have hev : e ≤ v := hge v (List.mem_cons_self)
    simp only [rangesAux]
    split
    · exact ih s v (by omega) hs.1 hs.2
    · split
      · rename_i hv1 hv2
        refine List.pairwise_cons.2 ⟨?_, ih v v (Nat.le_refl _) hs.1 hs.2⟩
        intro r hr
        have := (rangesAux_bounds v v vs (Nat.le_refl _) hs.1 hs.2 r hr).1
        show e + 1 < r.1
        omega
      · exact ih s e hse (fun x hx => hge x (List.mem_cons_of_mem _ hx)) hs.2

theorem findRanges_eq (seq : List Nat) :
    findRanges seq = match sortNat seq with | [] => [] | x :: xs => rangesAux x x xs := rfl

end QmiModel.Adbasic
