import QmiModel.Model.Discovery
/-! Helper lemmas for C18: the receive loop of `ping_qmi_contexts` with its clock. -/
namespace QmiModel.Discovery

theorem pingLoop_eq_ping (L : Layout) (rid dl : Nat) (turns : List Turn) :
    pingLoop L rid dl turns = ping L rid (received dl turns) := by
  induction turns with
  | nil => rfl
  | cons u rest ih =>
    unfold pingLoop received
    rw [List.takeWhile_cons]
    by_cases h : dl ≤ u.t
    · rw [if_pos h]
      have : decide (u.t < dl) = false := by simp; omega
      rw [this]
      rfl
    · rw [if_neg h]
      have : decide (u.t < dl) = true := by simp; omega
      rw [this]
      simp only [if_true]
      rw [ih]
      unfold received ping
      cases hr : u.ready with
      | none => simp [hr]
      | some d =>
        simp only [List.filterMap_cons, hr]
        cases pingAccept L rid d <;> simp

theorem pingLoop_stops (L : Layout) (rid dl : Nat) (pre post : List Turn) (u : Turn) (h : dl ≤ u.t) :
    pingLoop L rid dl (pre ++ u :: post) = pingLoop L rid dl pre := by
  induction pre with
  | nil => simp [pingLoop, h]
  | cons v pre ih =>
    simp only [List.cons_append, pingLoop]
    split
    · rfl
    · rw [ih]

theorem window_bounded (n lo : Nat) (l : List Nat) (hs : l.Pairwise (· < ·)) (hlo : ∀ x ∈ l, lo ≤ x) :
    (l.takeWhile (fun x => decide (x < lo + n))).length ≤ n := by
  induction l generalizing lo n with
  | nil => simp
  | cons h t ih =>
    rw [List.takeWhile_cons]
    split
    · rename_i hh
      simp only [decide_eq_true_eq] at hh
      have hlo' := hlo h List.mem_cons_self
      rw [List.pairwise_cons] at hs
      have := ih (n - 1) (lo + 1) hs.2 (fun x hx => by have := hs.1 x hx; omega)
      have e : lo + 1 + (n - 1) = lo + n := by omega
      rw [e] at this
      simp only [List.length_cons]
      omega
    · simp


theorem pingLoop_junk_turn (L : Layout) (rid dl : Nat) (pre post : List Turn) (t : Nat) (d : Nat × Bytes)
    (h : pingAccept L rid d = none) :
    pingLoop L rid dl (pre ++ { t := t, ready := some d } :: post) = pingLoop L rid dl (pre ++ { t := t, ready := none } :: post) := by
  induction pre with
  | nil => simp [pingLoop, h]
  | cons v pre ih =>
    simp only [List.cons_append, pingLoop]
    rw [ih]

end QmiModel.Discovery
