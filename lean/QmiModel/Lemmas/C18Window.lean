import QmiModel.Model.Discovery
/-! Helper lemmas for C18: the receive loop of `ping_qmi_contexts` with its clock. -/
namespace QmiModel.Discovery

theorem pingLoop_eq_ping (L : Layout) (rid dl : Nat) (turns : List Turn) :
    pingLoop L rid dl turns = ping L rid (received dl turns) := by
  induction turns with
  | nil => rfl
  | cons u rest ih =>
    unfold pingLoop received
    rw [List.takeWhile_cons]
    by_cases h : dl ≤ u.t
    · rw [if_pos h]
      have : decide (u.t < dl) = false := by simp; omega
      rw [this]
      rfl
    · rw [if_neg h]
      have : decide (u.t < dl) = true := by simp; omega
      rw [this]
      simp only [if_true]
      rw [ih]
      unfold received ping
      cases hr : u.ready with
      | none => simp [hr]
      | some d =>
        simp only [List.filterMap_cons, hr]
        cases pingAccept L rid d <;> simp

theorem pingLoop_stops (L : Layout) (rid dl : Nat) (pre post : List Turn) (u : Turn) (h : dl ≤ u.t) :
    pingLoop L rid dl (pre ++ u :: post) = pingLoop L rid dl pre := by
  induction pre with
  | nil => simp [pingLoop, h]
  | cons v pre ih =>
    simp only [List.cons_append, pingLoop]
    split
    · rfl
    · rw [ih]

theorem window_bounded (n lo : Nat) (l : List Nat) (hs : l.Pairwise (· < ·)) (hlo : ∀ x ∈ l, lo ≤ x) :
    (l.takeWhile (fun x => decide (x < lo + n))).length ≤ n := by
  induction l generalizing lo n with
  | nil => simp
  | cons h t ih =>
    rw [List.takeWhile_cons]
    split
    · rename_i hh
      simp only [decide_eq_true_eq] at hh
      have hlo' := hlo h List.mem_cons_self
      rw [List.pairwise_cons] at hs
      have := ih (n - 1) (lo + 1) hs.2 (fun x hx => by have := hs.1 x hx; omega)
      have e : lo + 1 + (n - 1) = lo + n := by omega
      rw [e] at this
      simp only [List.length_cons]
      omega
    · simp


theorem pingLoop_junk_turn (L : Layout) (rid dl : Nat) (pre post : List Turn) (t : Nat) (d : Nat × Bytes)
    (h : pingAccept L rid d = none) :
    pingLoop L rid dl (pre ++ { t := t, ready := some d } :: post) = pingLoop L rid dl (pre ++ { t := t, ready := none } :: post) := by
  induction pre with
  | nil => simp [pingLoop, h]
  | cons v pre ih =>
    simp only [List.cons_append, pingLoop]
    rw [ih]

/-! ### context start -/

theorem lrun_port_const (bound : Nat) (s : LState) (calls : List StartCall)
    (h : calls.all (· != .setsReported) = true) : (lrun bound s calls).port = s.port := by
  induction calls generalizing s with
  | nil => rfl
  | cons c cs ih =>
    simp only [List.all_cons, Bool.and_eq_true] at h
    unfold lrun at ih ⊢
    rw [List.foldl_cons, ih _ h.2]
    cases c <;> simp [lstep] at h ⊢

theorem start_order_port_final (bound : Nat) (s : LState) (calls pre post : List StartCall) (hs : s.up = false)
    (hok : orderOk calls = true) (hsplit : calls = pre ++ post) (hup : (lrun bound s pre).up = true) :
    (lrun bound s pre).port = (lrun bound s calls).port := by
  induction calls generalizing s pre with
  | nil =>
    cases pre with
    | nil => simp [lrun, hs] at hup
    | cons a b => cases hsplit
  | cons c cs ih =>
    cases pre with
    | nil => simp [lrun, hs] at hup
    | cons c' pre' =>
      simp only [List.cons_append, List.cons.injEq] at hsplit
      obtain ⟨rfl, hcs⟩ := hsplit
      cases c with
      | startsResponder =>
        simp only [orderOk] at hok
        have hall : (pre' ++ post).all (· != StartCall.setsReported) = true := hcs ▸ hok
        rw [List.all_append, Bool.and_eq_true] at hall
        have h1 := lrun_port_const bound (lstep bound s .startsResponder) pre' hall.1
        have h2 := lrun_port_const bound (lstep bound s .startsResponder) cs hok
        unfold lrun at h1 h2 ⊢
        rw [List.foldl_cons, List.foldl_cons, h1, h2]
      | other =>
        unfold lrun at hup ⊢
        rw [List.foldl_cons] at hup ⊢
        rw [List.foldl_cons]
        exact ih (lstep bound s .other) pre' (by simpa [lstep] using hs) (by simpa [orderOk] using hok) hcs hup
      | setsReported =>
        unfold lrun at hup ⊢
        rw [List.foldl_cons] at hup ⊢
        rw [List.foldl_cons]
        exact ih (lstep bound s .setsReported) pre' (by simpa [lstep] using hs) (by simpa [orderOk] using hok) hcs hup

end QmiModel.Discovery
