import QmiModel.Lemmas.C16Round
/-!
# C16 — the constructor call `cls(**items)` at the end of `_parse_config_struct`

`@configstruct.__init__` validates every keyword value again with `_parse_config_value(value, f.type, [])`;
the values it sees are *already parsed* (tuples, nested instances — an instance is validated through its own
items, see the `.inst` branch of `parseValue`; before commit f3ca37f through `dataclasses.asdict`, lemmas kept below).
`Model/Config.lean` models that call as "build the instance". This file proves that this is faithful for
well-formed descriptors: the re-validation of parsed items cannot fail and stores the items unchanged.
-/
namespace QmiModel.Config

mutual
theorem asdict_of_isJson : ∀ (j : PV), isJson j = true → asdict j = j
  | .none, _ => by simp [asdict]
  | .bool _, _ => by simp [asdict]
  | .int _, _ => by simp [asdict]
  | .flt _, _ => by simp [asdict]
  | .fltOfInt _, _ => by simp [asdict]
  | .str _, _ => by simp [asdict]
  | .list xs, h => by simp only [isJson] at h; simp [asdict, asdictL_of_isJsonL xs h]
  | .tuple _, h => by simp [isJson] at h
  | .dict kvs, h => by simp only [isJson] at h; simp [asdict, asdictK_of_isJsonK kvs h]
  | .inst _ _, h => by simp [isJson] at h
theorem asdictL_of_isJsonL : ∀ (xs : List PV), isJsonL xs = true → asdictL xs = xs
  | [], _ => by simp [asdictL]
  | x :: xs, h => by
    simp only [isJsonL, Bool.and_eq_true] at h
    simp [asdictL, asdict_of_isJson x h.1, asdictL_of_isJsonL xs h.2]
theorem asdictK_of_isJsonK : ∀ (kvs : List (Str × PV)), isJsonK kvs = true → asdictK kvs = kvs
  | [], _ => by simp [asdictK]
  | (k, v) :: kvs, h => by
    simp only [isJsonK, Bool.and_eq_true] at h
    simp [asdictK, asdict_of_isJson v h.1, asdictK_of_isJsonK kvs h.2]
end

mutual
theorem isJson_toDict : ∀ (v : PV), isJson (toDict v) = true
  | .none => rfl
  | .bool _ => rfl
  | .int _ => rfl
  | .flt _ => rfl
  | .fltOfInt _ => rfl
  | .str _ => rfl
  | .list xs => by simp only [toDict, isJson]; exact isJsonL_toDictL xs
  | .tuple xs => by simp only [toDict, isJson]; exact isJsonL_toDictL xs
  | .dict kvs => by simp only [toDict, isJson]; exact isJsonK_toDictK kvs
  | .inst _ kvs => by simp only [toDict, isJson]; exact isJsonK_toDictK kvs
theorem isJsonL_toDictL : ∀ (xs : List PV), isJsonL (toDictL xs) = true
  | [] => rfl
  | x :: xs => by simp [toDictL, isJsonL, isJson_toDict x, isJsonL_toDictL xs]
theorem isJsonK_toDictK : ∀ (kvs : List (Str × PV)), isJsonK (toDictK kvs) = true
  | [] => rfl
  | (k, v) :: kvs => by simp [toDictK, isJsonK, isJson_toDict v, isJsonK_toDictK kvs]
end

theorem asdict_eq_none (v : PV) (h : asdict v = .none) : v = .none := by
  cases v <;> simp [asdict] at h ⊢

theorem keysOf_asdictK (items : List (Str × PV)) : keysOf (asdictK items) = keysOf items := by
  induction items with
  | nil => rfl
  | cons kv items ih => obtain ⟨k, v⟩ := kv; simp [asdictK, keysOf, ih]

theorem assoc_asdictK_of_nodup {items : List (Str × PV)} (hd : hasDup (keysOf items) = false)
    {n : Str} {y : PV} (h : (n, y) ∈ items) : assoc n (asdictK items) = some (asdict y) := by
  induction items with
  | nil => simp at h
  | cons kv items ih =>
    obtain ⟨k, v⟩ := kv
    simp only [keysOf, hasDup_cons] at hd
    simp only [List.mem_cons, Prod.mk.injEq] at h
    rcases h with ⟨rfl, rfl⟩ | h
    · simp [asdictK, assoc]
    · have hne : k ≠ n := by
        intro hkn; subst hkn; exact hd.1 (mem_keysOf h)
      simp [asdictK, assoc, hne, ih hd.2 h]

theorem assoc_of_nodup {items : List (Str × PV)} (hd : hasDup (keysOf items) = false)
    {n : Str} {y : PV} (h : (n, y) ∈ items) : assoc n items = some y := by
  induction items with
  | nil => simp at h
  | cons kv items ih =>
    obtain ⟨k, v⟩ := kv
    simp only [keysOf, hasDup_cons] at hd
    simp only [List.mem_cons, Prod.mk.injEq] at h
    rcases h with ⟨rfl, rfl⟩ | h
    · simp [assoc]
    · have hne : k ≠ n := by
        intro hkn; subst hkn; exact hd.1 (mem_keysOf h)
      simp [assoc, hne, ih hd.2 h]

theorem admitsL_asdict {t : Ty} (ih : ∀ x y, isJson x = true → Admits t x y → Admits t (asdict y) y) :
    ∀ (xs ys : List PV), isJsonL xs = true → AdmitsL t xs ys → AdmitsL t (asdictL ys) ys := by
  intro xs
  induction xs with
  | nil => intro ys _ h; cases h; exact .nil t
  | cons x xs ihx =>
    intro ys hj h
    simp only [isJsonL, Bool.and_eq_true] at hj
    cases h with
    | cons hx hr => exact .cons (ih _ _ hj.1 hx) (ihx _ hj.2 hr)

theorem admitsK_asdict {t : Ty} (ih : ∀ x y, isJson x = true → Admits t x y → Admits t (asdict y) y) :
    ∀ (kvs kvs' : List (Str × PV)), isJsonK kvs = true → AdmitsK t kvs kvs' → AdmitsK t (asdictK kvs') kvs' := by
  intro kvs
  induction kvs with
  | nil => intro ys _ h; cases h; exact .nil t
  | cons kv kvs ihx =>
    intro ys hj h
    cases h with
    | cons hx hr =>
      simp only [isJsonK, Bool.and_eq_true] at hj
      exact .cons (ih _ _ hj.1 hx) (ihx _ hj.2 hr)

/-- the default of a well-formed field is admitted in its `toDict` form -/
theorem default_admits {t : Ty} {dv : PV} (hd : defaultOk (parseValue t (toDict dv) []) dv = true) :
    Admits t (toDict dv) dv := by
  simp only [defaultOk] at hd
  cases hp : parseValue t (toDict dv) [] with
  | error e => simp [hp] at hd
  | ok dv' =>
    simp only [hp] at hd
    have := beq_eq dv' dv hd; subst this
    exact admits_of_ok t _ _ _ hp

mutual
/-- a parsed value, passed through `dataclasses.asdict`, parses to itself -/
theorem admits_asdict : ∀ (τ : Ty) (j v : PV), wf τ = true → isJson j = true → Admits τ j v → Admits τ (asdict v) v
  | .any, j, v, _, hj, h => by cases h; rw [asdict_of_isJson j hj]; exact .any j
  | .opt t, j, v, hw, hj, h => by
    cases h with
    | optNone => exact .optNone t
    | optSome hne h' =>
      have ih := admits_asdict t j v (by simpa [wf] using hw) hj h'
      by_cases hn : asdict v = .none
      · have := asdict_eq_none v hn; subst this; exact .optNone t
      · exact .optSome hn ih
  | .int, j, v, _, _, h => by cases h <;> simp only [asdict] <;> constructor
  | .float, j, v, _, _, h => by
    cases h with
    | floatFlt l => exact .floatFlt l
    | floatConv n => exact .floatConv n
    | floatInt n _ => exact .floatConv n
    | floatBool b => exact .floatConv _
  | .str, j, v, _, _, h => by cases h; exact .str _
  | .bool, j, v, _, _, h => by cases h; exact .bool _
  | .never, j, v, _, _, h => by cases h
  | .listAny, j, v, _, hj, h => by
    cases h; rw [asdict_of_isJson _ hj]; exact .listAny _
  | .tupleAny, j, v, _, hj, h => by
    cases h with
    | tupleAnyL xs =>
      simp only [isJson] at hj
      simp only [asdict, asdictL_of_isJsonL xs hj]; exact .tupleAnyT xs
    | tupleAnyT xs => simp [isJson] at hj
  | .dictAny, j, v, _, hj, h => by
    cases h; rw [asdict_of_isJson _ hj]; exact .dictAny _
  | .list t, j, v, hw, hj, h => by
    cases h with
    | list hl =>
      simp only [isJson] at hj
      simp only [asdict]
      exact .list (admitsL_asdict (fun x y hx hxy => admits_asdict t x y (by simpa [wf] using hw) hx hxy) _ _ hj hl)
  | .tupleVar t, j, v, hw, hj, h => by
    cases h with
    | tupleVarL hl =>
      simp only [isJson] at hj
      simp only [asdict]
      exact .tupleVarT (admitsL_asdict (fun x y hx hxy => admits_asdict t x y (by simpa [wf] using hw) hx hxy) _ _ hj hl)
    | tupleVarT hl => simp [isJson] at hj
  | .tupleFix ts, j, v, hw, hj, h => by
    cases h with
    | tupleFixL hl =>
      simp only [isJson] at hj
      simp only [asdict]
      exact .tupleFixT (admitsT_asdict ts _ _ (by simpa [wf] using hw) hj hl)
    | tupleFixT hl => simp [isJson] at hj
  | .dict t, j, v, hw, hj, h => by
    cases h with
    | dict hl =>
      simp only [isJson] at hj
      simp only [asdict]
      exact .dict (admitsK_asdict (fun x y hx hxy => admits_asdict t x y (by simpa [wf] using hw) hx hxy) _ _ hj hl)
  | .struct name fs, j, v, hw, hj, h => by
    cases h with
    | structDict hf hk =>
      simp only [isJson] at hj
      simp only [wf, Bool.and_eq_true, Bool.not_eq_eq_eq_not, Bool.not_true] at hw
      simp only [asdict]
      have hkeys := hf.keys
      refine .structDict (admitsF_asdict fs _ _ hw.2 hj hf (asdictK _) ?_) ?_
      · intro n y hm
        exact assoc_asdictK_of_nodup (by rw [hkeys]; exact hw.1) hm
      · rw [keysOf_asdictK, hkeys]; exact fun k hk => hk
    | structInst hf hk => simp [isJson] at hj
theorem admitsT_asdict : ∀ (ts : List Ty) (xs ys : List PV), wfL ts = true → isJsonL xs = true →
    AdmitsT ts xs ys → AdmitsT ts (asdictL ys) ys
  | [], xs, ys, _, _, h => by cases h; exact .nil
  | t :: ts, xs, ys, hw, hj, h => by
    cases h with
    | cons hx hr =>
      simp only [wfL, Bool.and_eq_true] at hw
      simp only [isJsonL, Bool.and_eq_true] at hj
      exact .cons (admits_asdict t _ _ hw.1 hj.1 hx) (admitsT_asdict ts _ _ hw.2 hj.2 hr)
theorem admitsF_asdict : ∀ (fs : List Field) (kvs items : List (Str × PV)), wfF fs = true → isJsonK kvs = true →
    AdmitsF fs kvs items →
    ∀ (all : List (Str × PV)), (∀ n y, (n, y) ∈ items → assoc n all = some (asdict y)) → AdmitsF fs all items
  | [], kvs, items, _, _, h, all, _ => by cases h; exact .nil all
  | (n, t, d) :: fs, kvs, items, hw, hj, h, all, hall => by
    simp only [wfF, Bool.and_eq_true] at hw
    cases h with
    | present ha hx hr =>
      refine .present (hall _ _ (by simp)) (admits_asdict t _ _ hw.1.1 (isJson_of_assoc hj ha) hx) ?_
      exact admitsF_asdict fs kvs _ hw.1.2 hj hr all (fun n y hm => hall n y (by simp [hm]))
    | default ha hr =>
      rename_i dv items'
      have hd := default_admits hw.2
      refine .present (hall _ _ (by simp)) (admits_asdict t _ _ hw.1.1 (isJson_toDict dv) hd) ?_
      exact admitsF_asdict fs kvs _ hw.1.2 hj hr all (fun n y hm => hall n y (by simp [hm]))
end

theorem admitsL_self {t : Ty} (ih : ∀ x y, isJson x = true → Admits t x y → Admits t y y) :
    ∀ (xs ys : List PV), isJsonL xs = true → AdmitsL t xs ys → AdmitsL t ys ys := by
  intro xs
  induction xs with
  | nil => intro ys _ h; cases h; exact .nil t
  | cons x xs ihx =>
    intro ys hj h
    simp only [isJsonL, Bool.and_eq_true] at hj
    cases h with
    | cons hx hr => exact .cons (ih _ _ hj.1 hx) (ihx _ hj.2 hr)

theorem admitsK_self {t : Ty} (ih : ∀ x y, isJson x = true → Admits t x y → Admits t y y) :
    ∀ (kvs kvs' : List (Str × PV)), isJsonK kvs = true → AdmitsK t kvs kvs' → AdmitsK t kvs' kvs' := by
  intro kvs
  induction kvs with
  | nil => intro ys _ h; cases h; exact .nil t
  | cons kv kvs ihx =>
    intro ys hj h
    cases h with
    | cons hx hr =>
      simp only [isJsonK, Bool.and_eq_true] at hj
      exact .cons (ih _ _ hj.1 hx) (ihx _ hj.2 hr)

mutual
/-- **a parsed value is admitted by its own type, as itself** — what the constructor's re-validation checks -/
theorem admits_self : ∀ (τ : Ty) (j v : PV), wf τ = true → isJson j = true → Admits τ j v → Admits τ v v
  | .any, j, v, _, _, h => .any v
  | .opt t, j, v, hw, hj, h => by
    cases h with
    | optNone => exact .optNone t
    | optSome hne h' =>
      have ih := admits_self t j v (by simpa [wf] using hw) hj h'
      by_cases hn : v = .none
      · subst hn; exact .optNone t
      · exact .optSome hn ih
  | .int, j, v, _, _, h => by cases h <;> constructor
  | .float, j, v, _, _, h => by
    cases h with
    | floatFlt l => exact .floatFlt l
    | floatConv n => exact .floatConv n
    | floatInt n _ => exact .floatConv n
    | floatBool b => exact .floatConv _
  | .str, j, v, _, _, h => by cases h; exact .str _
  | .bool, j, v, _, _, h => by cases h; exact .bool _
  | .never, j, v, _, _, h => by cases h
  | .listAny, j, v, _, _, h => by cases h; exact .listAny _
  | .tupleAny, j, v, _, _, h => by cases h <;> exact .tupleAnyT _
  | .dictAny, j, v, _, _, h => by cases h; exact .dictAny _
  | .list t, j, v, hw, hj, h => by
    cases h with
    | list hl =>
      simp only [isJson] at hj
      exact .list (admitsL_self (fun x y hx hxy => admits_self t x y (by simpa [wf] using hw) hx hxy) _ _ hj hl)
  | .tupleVar t, j, v, hw, hj, h => by
    cases h with
    | tupleVarL hl =>
      simp only [isJson] at hj
      exact .tupleVarT (admitsL_self (fun x y hx hxy => admits_self t x y (by simpa [wf] using hw) hx hxy) _ _ hj hl)
    | tupleVarT hl => simp [isJson] at hj
  | .tupleFix ts, j, v, hw, hj, h => by
    cases h with
    | tupleFixL hl =>
      simp only [isJson] at hj
      exact .tupleFixT (admitsT_self ts _ _ (by simpa [wf] using hw) hj hl)
    | tupleFixT hl => simp [isJson] at hj
  | .dict t, j, v, hw, hj, h => by
    cases h with
    | dict hl =>
      simp only [isJson] at hj
      exact .dict (admitsK_self (fun x y hx hxy => admits_self t x y (by simpa [wf] using hw) hx hxy) _ _ hj hl)
  | .struct name fs, j, v, hw, hj, h => by
    cases h with
    | structDict hf hk =>
      simp only [isJson] at hj
      simp only [wf, Bool.and_eq_true, Bool.not_eq_eq_eq_not, Bool.not_true] at hw
      have hkeys := hf.keys
      refine .structInst (admitsF_self fs _ _ hw.2 hj hf _ ?_) ?_
      · intro n y hm
        exact assoc_of_nodup (by rw [hkeys]; exact hw.1) hm
      · rw [hkeys]; exact fun k hk => hk
    | structInst hf hk => simp [isJson] at hj
theorem admitsF_self : ∀ (fs : List Field) (kvs items : List (Str × PV)), wfF fs = true → isJsonK kvs = true →
    AdmitsF fs kvs items →
    ∀ (all : List (Str × PV)), (∀ n y, (n, y) ∈ items → assoc n all = some y) → AdmitsF fs all items
  | [], kvs, items, _, _, h, all, _ => by cases h; exact .nil all
  | (n, t, d) :: fs, kvs, items, hw, hj, h, all, hall => by
    simp only [wfF, Bool.and_eq_true] at hw
    cases h with
    | present ha hx hr =>
      refine .present (hall _ _ (by simp)) (admits_self t _ _ hw.1.1 (isJson_of_assoc hj ha) hx) ?_
      exact admitsF_self fs kvs _ hw.1.2 hj hr all (fun n y hm => hall n y (by simp [hm]))
    | default ha hr =>
      rename_i dv items'
      refine .present (hall _ _ (by simp)) (admits_self t _ _ hw.1.1 (isJson_toDict dv) (default_admits hw.2)) ?_
      exact admitsF_self fs kvs _ hw.1.2 hj hr all (fun n y hm => hall n y (by simp [hm]))
theorem admitsT_self : ∀ (ts : List Ty) (xs ys : List PV), wfL ts = true → isJsonL xs = true →
    AdmitsT ts xs ys → AdmitsT ts ys ys
  | [], xs, ys, _, _, h => by cases h; exact .nil
  | t :: ts, xs, ys, hw, hj, h => by
    cases h with
    | cons hx hr =>
      simp only [wfL, Bool.and_eq_true] at hw
      simp only [isJsonL, Bool.and_eq_true] at hj
      exact .cons (admits_self t _ _ hw.1 hj.1 hx) (admitsT_self ts _ _ hw.2 hj.2 hr)
end

/-- the constructor loop over parsed items: every stored item is found, validates, and is stored as is -/
theorem ctorFields_of_parsed : ∀ (fs : List Field) (kvs items : List (Str × PV)), wfF fs = true →
    isJsonK kvs = true → AdmitsF fs kvs items →
    ∀ (all : List (Str × PV)), (∀ n y, (n, y) ∈ items → assoc n all = some y) → ctorFields fs all = .ok items
  | [], kvs, items, _, _, h, all, _ => by cases h; simp [ctorFields]
  | (n, t, d) :: fs, kvs, items, hw, hj, h, all, hall => by
    simp only [wfF, Bool.and_eq_true] at hw
    cases h with
    | present ha hx hr =>
      rename_i items' x y
      have hself := admits_self t _ _ hw.1.1 (isJson_of_assoc hj ha) hx
      have ih := ctorFields_of_parsed fs kvs _ hw.1.2 hj hr all (fun n y hm => hall n y (by simp [hm]))
      simp [ctorFields, hall n y (by simp), ok_of_admits t _ _ hself [], ih]
    | default ha hr =>
      rename_i dv items'
      have hself := admits_self t _ _ hw.1.1 (isJson_toDict dv) (default_admits hw.2)
      have ih := ctorFields_of_parsed fs kvs _ hw.1.2 hj hr all (fun n y hm => hall n y (by simp [hm]))
      simp [ctorFields, hall n dv (by simp), ok_of_admits t _ _ hself [], ih]

end QmiModel.Config
