import QmiModel.Lemmas.C20Touch
/-! The accessors over the validating `Adwin_Base` driver coincide with the library-level semantics on
registers that exist and values of the register's type. Core Lean only. -/
namespace QmiModel.Adbasic

/-- every given name is bound to a register `Adwin_Base` accepts -/
def NamesOk (b : Dict Str Desc) (names : List Str) : Prop :=
  ∀ n ∈ names, ∀ r, lookupCI b n = some r → regOk r = true

/-- no float is assigned to an element of an integer array -/
def ValuesOk (b : Dict Str Desc) (ty : Nat → Bool) (params : List (Str × Val)) : Prop :=
  ∀ nv ∈ params, ∀ d e, lookupCI b nv.1 = some (.elem d e) → ty d = true → nv.2.isFlt = false

theorem getParC_eq (b : Dict Str Desc) (dv : Dev) (n : Str) (h : ∀ r, lookupCI b n = some r → regOk r = true) :
    getParC b dv n = getPar b dv n := by
  unfold getParC
  cases hl : lookupCI b n with
  | none => simp [getPar, hl]
  | some r => simp [h r hl]

theorem setParC_eq (b : Dict Str Desc) (ty : Nat → Bool) (dv : Dev) (n : Str) (v : Val)
    (h : ∀ r, lookupCI b n = some r → regOk r = true)
    (hv : ∀ d e, lookupCI b n = some (.elem d e) → ty d = true → v.isFlt = false) :
    setParC b ty dv n v = setPar b dv n v := by
  unfold setParC setPar
  cases hl : lookupCI b n with
  | none => rfl
  | some r =>
    have hr := h r hl
    cases r with
    | par i => cases v <;> simp [regOk] at hr ⊢ <;> simp [hr]
    | fpar i => simp [regOk] at hr ⊢; simp [hr]
    | elem d e =>
      have : dtypeOk ty d [v] = true := by
        unfold dtypeOk
        cases ht : ty d with
        | false => simp
        | true => simp [hv d e hl ht]
      simp [hr, this]

theorem getFoldC_eq (b : Dict Str Desc) (names : List Str) (dv : Dev) (res : Dict Str Val) (h : NamesOk b names) :
    getFoldC b names dv res = getFold b names dv res := by
  induction names generalizing dv res with
  | nil => rfl
  | cons n ns ih =>
    simp only [getFoldC, getFold]
    rw [getParC_eq b dv n (h n List.mem_cons_self)]
    cases hg : getPar b dv n with
    | mk dv' r =>
      cases r with
      | error x => rfl
      | ok v => exact ih dv' _ (fun m hm => h m (List.mem_cons_of_mem _ hm))

theorem setFoldC_eq (b : Dict Str Desc) (ty : Nat → Bool) (params : List (Str × Val)) (dv : Dev)
    (h : NamesOk b (params.map Prod.fst)) (hv : ValuesOk b ty params) :
    setFoldC b ty params dv = setFold b params dv := by
  induction params generalizing dv with
  | nil => rfl
  | cons nv ps ih =>
    obtain ⟨n, v⟩ := nv
    simp only [setFoldC, setFold]
    rw [setParC_eq b ty dv n v (h n (by simp)) (fun d e hl ht => hv (n, v) List.mem_cons_self d e hl ht)]
    cases hg : setPar b dv n v with
    | mk dv' r =>
      cases r with
      | error x => rfl
      | ok u =>
        exact ih dv' (fun m hm => h m (by simp only [List.map_cons, List.mem_cons]; exact Or.inr hm))
          (fun nv hnv => hv nv (List.mem_cons_of_mem _ hnv))

/-! ### batch read -/

theorem getPhase1C_eq (b : Dict Str Desc) (names : List Str) (st : GState) (h : NamesOk b names) :
    getPhase1C b names st = getPhase1 b names st := by
  induction names generalizing st with
  | nil => rfl
  | cons n ns ih =>
    have hn := h n List.mem_cons_self
    have h' : NamesOk b ns := fun m hm => h m (List.mem_cons_of_mem _ hm)
    simp only [getPhase1C, getPhase1]
    cases hl : lookupCI b n with
    | none => rfl
    | some r =>
      have hr := hn r hl
      cases r with
      | par i => simp only [regOk] at hr; simp only [hr, if_true]; exact ih _ h'
      | fpar i => simp only [regOk] at hr; simp only [hr, if_true]; exact ih _ h'
      | elem d e => exact ih _ h'

theorem getRangesC_eq (d : Nat) (elems : Dict Nat Str) (rs : List (Nat × Nat)) (dv : Dev) (res : Dict Str Val)
    (h : ∀ r ∈ rs, dataOk d = true ∧ 1 ≤ r.1 ∧ r.1 ≤ r.2) :
    getRangesC d elems rs dv res = getRanges d elems rs dv res := by
  induction rs generalizing dv res with
  | nil => rfl
  | cons r rs ih =>
    obtain ⟨s, e⟩ := r
    have hr := h (s, e) List.mem_cons_self
    simp only at hr
    have c : (dataOk d && decide (1 ≤ s) && decide (1 ≤ e + 1 - s)) = true := by
      simp only [hr.1, Bool.true_and, Bool.and_eq_true, decide_eq_true_eq]
      omega
    simp only [getRangesC, getRanges, c, if_true]
    cases storeValues elems s 0 (dv.doGetData d s (e + 1 - s)).2 res with
    | error x => rfl
    | ok res' => exact ih _ _ (fun r hr' => h r (List.mem_cons_of_mem _ hr'))

theorem getArraysC_eq (pd : Dict Nat (Dict Nat Str)) (ds : List Nat) (dv : Dev) (res : Dict Str Val)
    (h : ∀ d ∈ ds, ∀ e, (pendGet pd d e).isSome → dataOk d = true ∧ 1 ≤ e) :
    getArraysC pd ds dv res = getArrays pd ds dv res := by
  induction ds generalizing dv res with
  | nil => rfl
  | cons d ds ih =>
    simp only [getArraysC, getArrays]
    cases hm : dictGet pd d with
    | none => rfl
    | some elems =>
      have pg : ∀ e, pendGet pd d e = dictGet elems e := by intro e; unfold pendGet; rw [hm]
      have hr : ∀ r ∈ findRanges (dictKeys elems), dataOk d = true ∧ 1 ≤ r.1 ∧ r.1 ≤ r.2 := by
        intro r hr
        obtain ⟨h1, h2⟩ := (findRanges_keys elems).1 r hr
        have := h d List.mem_cons_self r.1 (by rw [pg]; exact h2 r.1 (Nat.le_refl _) h1)
        exact ⟨this.1, this.2, h1⟩
      simp only
      rw [getRangesC_eq d elems _ dv res hr]
      cases getRanges d elems (findRanges (dictKeys elems)) dv res with
      | error x => rfl
      | ok p => exact ih _ _ (fun d' hd' => h d' (List.mem_cons_of_mem _ hd'))

theorem getParMultipleC_eq (b : Dict Str Desc) (dv : Dev) (names : List Str) (h : NamesOk b names) :
    getParMultipleC b dv names = getParMultiple b dv names := by
  unfold getParMultipleC getParMultiple
  rw [getPhase1C_eq b names _ h]
  cases h1 : getPhase1 b names { dev := dv, result := [], pdata := [] } with
  | error x => rfl
  | ok st =>
    obtain ⟨L, _, _, a3⟩ := getPhase1_log b names _ _ h1
    have : getArraysC st.pdata (sortNat (dictKeys st.pdata)) st.dev st.result
         = getArrays st.pdata (sortNat (dictKeys st.pdata)) st.dev st.result := by
      apply getArraysC_eq
      intro d _ e he
      rcases (a3 d e).1 he with h0 | ⟨n, hn, hl⟩
      · simp [pendGet, dictGet] at h0
      · have := h n hn _ hl
        simp only [regOk, Bool.and_eq_true, decide_eq_true_eq] at this
        exact this
    simp only [this]

/-! ### batch write -/

theorem setPhase1C_eq (b : Dict Str Desc) (params : List (Str × Val)) (st : SState)
    (h : NamesOk b (params.map Prod.fst)) : setPhase1C b params st = setPhase1 b params st := by
  induction params generalizing st with
  | nil => rfl
  | cons nv ps ih =>
    obtain ⟨n, v⟩ := nv
    have hn := h n (by simp)
    have h' : NamesOk b (ps.map Prod.fst) :=
      fun m hm => h m (by simp only [List.map_cons, List.mem_cons]; exact Or.inr hm)
    simp only [setPhase1C, setPhase1]
    cases hl : lookupCI b n with
    | none => rfl
    | some r =>
      have hr := hn r hl
      cases r with
      | par i =>
        simp only [regOk] at hr
        cases v with
        | int x => simp only [hr, if_true]; exact ih _ h'
        | flt x => rfl
      | fpar i => simp only [regOk] at hr; simp only [hr, if_true]; exact ih _ h'
      | elem d e => exact ih _ h'

/-- where a pending value comes from -/
theorem setPhase1_prov (b : Dict Str Desc) (params : List (Str × Val)) (st st' : SState)
    (h : setPhase1 b params st = .ok st') :
    ∀ d e v, pendGet st'.pdata d e = some v →
      pendGet st.pdata d e = some v ∨ ∃ nv ∈ params, nv.2 = v ∧ lookupCI b nv.1 = some (.elem d e) := by
  induction params generalizing st with
  | nil =>
    simp only [setPhase1] at h
    injection h with h; subst h
    intro d e v hv; exact Or.inl hv
  | cons nv ps ih =>
    obtain ⟨n, x⟩ := nv
    simp only [setPhase1] at h
    cases hl : lookupCI b n with
    | none => rw [hl] at h; simp at h
    | some r =>
      rw [hl] at h
      have lift : ∀ d e v, (∃ nv ∈ ps, nv.2 = v ∧ lookupCI b nv.1 = some (.elem d e)) →
          ∃ nv ∈ (n, x) :: ps, nv.2 = v ∧ lookupCI b nv.1 = some (.elem d e) :=
        fun d e v ⟨nv, h1, h2⟩ => ⟨nv, List.mem_cons_of_mem _ h1, h2⟩
      cases r with
      | par i =>
        cases x with
        | flt y => simp at h
        | int y =>
          simp only at h
          intro d e v hv
          rcases ih _ h d e v hv with h1 | h1
          · exact Or.inl h1
          · exact Or.inr (lift d e v h1)
      | fpar i =>
        simp only at h
        intro d e v hv
        rcases ih _ h d e v hv with h1 | h1
        · exact Or.inl h1
        · exact Or.inr (lift d e v h1)
      | elem d0 e0 =>
        simp only at h
        intro d e v hv
        rcases ih _ h d e v hv with h1 | h1
        · simp only [pendGet_pdataSet] at h1
          by_cases hde : d0 = d ∧ e0 = e
          · rw [if_pos hde] at h1
            injection h1 with h1
            obtain ⟨rfl, rfl⟩ := hde
            exact Or.inr ⟨(n, x), List.mem_cons_self, h1, hl⟩
          · rw [if_neg hde] at h1
            exact Or.inl h1
        · exact Or.inr (lift d e v h1)

theorem collectValues_mem (elems : Dict Nat Val) (s c : Nat) (vs : List Val)
    (h : collectValues elems s c = .ok vs) : ∀ v ∈ vs, ∃ i, dictGet elems i = some v := by
  induction c generalizing s vs with
  | zero => simp [collectValues] at h; subst h; intro v hv; simp at hv
  | succ c ih =>
    simp only [collectValues] at h
    cases hv : dictGet elems s with
    | none => rw [hv] at h; simp at h
    | some x =>
      rw [hv] at h
      simp only at h
      cases hr : collectValues elems (s + 1) c with
      | error y => rw [hr] at h; simp at h
      | ok vs' =>
        rw [hr] at h
        simp only at h
        injection h with h
        subst h
        intro v hvm
        rcases List.mem_cons.1 hvm with rfl | hvm
        · exact ⟨s, hv⟩
        · exact ih _ _ hr v hvm

theorem setRangesC_eq (ty : Nat → Bool) (d : Nat) (elems : Dict Nat Val) (rs : List (Nat × Nat)) (dv : Dev)
    (h : ∀ r ∈ rs, dataOk d = true ∧ 1 ≤ r.1)
    (hv : ty d = true → ∀ i v, dictGet elems i = some v → v.isFlt = false) :
    setRangesC ty d elems rs dv = setRanges d elems rs dv := by
  induction rs generalizing dv with
  | nil => rfl
  | cons r rs ih =>
    obtain ⟨s, e⟩ := r
    have hr := h (s, e) List.mem_cons_self
    simp only at hr
    simp only [setRangesC, setRanges]
    cases hc : collectValues elems s (e + 1 - s) with
    | error x => rfl
    | ok vals =>
      have hd : dtypeOk ty d vals = true := by
        unfold dtypeOk
        cases ht : ty d with
        | false => simp
        | true =>
          have : vals.any Val.isFlt = false := by
            rw [List.any_eq_false]
            intro v hvm
            obtain ⟨i, hi⟩ := collectValues_mem elems _ _ _ hc v hvm
            simp [hv ht i v hi]
          simp [this]
      have c : (dataOk d && decide (1 ≤ s) && dtypeOk ty d vals) = true := by
        simp [hr.1, hr.2, hd]
      simp only [c, if_true]
      exact ih _ (fun r hr' => h r (List.mem_cons_of_mem _ hr'))

theorem setArraysC_eq (ty : Nat → Bool) (pd : Dict Nat (Dict Nat Val)) (ds : List Nat) (dv : Dev)
    (h : ∀ d ∈ ds, ∀ e v, pendGet pd d e = some v → dataOk d = true ∧ 1 ≤ e ∧ (ty d = true → v.isFlt = false)) :
    setArraysC ty pd ds dv = setArrays pd ds dv := by
  induction ds generalizing dv with
  | nil => rfl
  | cons d ds ih =>
    simp only [setArraysC, setArrays]
    cases hm : dictGet pd d with
    | none => rfl
    | some elems =>
      have pg : ∀ e, pendGet pd d e = dictGet elems e := by intro e; unfold pendGet; rw [hm]
      have hr : ∀ r ∈ findRanges (dictKeys elems), dataOk d = true ∧ 1 ≤ r.1 := by
        intro r hr
        obtain ⟨h1, h2⟩ := (findRanges_keys elems).1 r hr
        obtain ⟨v, hv⟩ := Option.isSome_iff_exists.1 (h2 r.1 (Nat.le_refl _) h1)
        have := h d List.mem_cons_self r.1 v (by rw [pg]; exact hv)
        exact ⟨this.1, this.2.1⟩
      have hv : ty d = true → ∀ i v, dictGet elems i = some v → v.isFlt = false := by
        intro ht i v hi
        exact (h d List.mem_cons_self i v (by rw [pg]; exact hi)).2.2 ht
      simp only
      rw [setRangesC_eq ty d elems _ dv hr hv]
      cases setRanges d elems (findRanges (dictKeys elems)) dv with
      | error x => rfl
      | ok dv' => exact ih _ (fun d' hd' => h d' (List.mem_cons_of_mem _ hd'))

theorem setParMultipleC_eq (b : Dict Str Desc) (ty : Nat → Bool) (dv : Dev) (params : List (Str × Val))
    (h : NamesOk b (params.map Prod.fst)) (hv : ValuesOk b ty params) :
    setParMultipleC b ty dv params = setParMultiple b dv params := by
  unfold setParMultipleC setParMultiple
  rw [setPhase1C_eq b params _ h]
  cases h1 : setPhase1 b params { dev := dv, pdata := [] } with
  | error x => rfl
  | ok st =>
    have prov := setPhase1_prov b params _ _ h1
    have : setArraysC ty st.pdata (sortNat (dictKeys st.pdata)) st.dev
         = setArrays st.pdata (sortNat (dictKeys st.pdata)) st.dev := by
      apply setArraysC_eq
      intro d _ e v hp
      rcases prov d e v hp with h0 | ⟨nv, hnv, hval, hl⟩
      · simp [pendGet, dictGet] at h0
      · have hr := h nv.1 (List.mem_map_of_mem (f := Prod.fst) hnv) _ hl
        simp only [regOk, Bool.and_eq_true, decide_eq_true_eq] at hr
        refine ⟨hr.1, hr.2, ?_⟩
        intro ht
        rw [← hval]
        exact hv nv hnv d e hl ht
    simp only [this]

end QmiModel.Adbasic
