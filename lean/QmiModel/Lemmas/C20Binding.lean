import QmiModel.Lemmas.C20Ranges
/-! Invariant of the extraction loops of `adbasic_parser` (generic in the target type). Core Lean only. -/
namespace QmiModel.Adbasic

variable {τ : Type} [DecidableEq τ]

/-- the three dictionaries describe one and the same one-to-one relation -/
structure BInv (st : BState τ) : Prop where
  fwd : ∀ n t, dictGet st.info n = some t → dictGet st.ncm (upper n) = some n ∧ dictGet st.ref t = some n
  ncm : ∀ u p, dictGet st.ncm u = some p → u = upper p ∧ (dictGet st.info p).isSome
  ref : ∀ t p, dictGet st.ref t = some p → dictGet st.info p = some t
  nodup : (dictKeys st.info).Nodup

theorem binv_empty : BInv (BState.empty : BState τ) := by
  constructor <;> simp [BState.empty, dictGet, dictKeys]

/-- two entries of a binding: same name ignoring case ⇒ same spelling; same target ⇒ same name -/
def OneToOne (d : Dict Str τ) : Prop :=
  ∀ n1 n2 t1 t2, dictGet d n1 = some t1 → dictGet d n2 = some t2 →
    (upper n1 = upper n2 → n1 = n2) ∧ (t1 = t2 → n1 = n2)

theorem BInv.oneToOne {st : BState τ} (h : BInv st) : OneToOne st.info := by
  intro n1 n2 t1 t2 h1 h2
  have a1 := h.fwd n1 t1 h1
  have a2 := h.fwd n2 t2 h2
  constructor
  · intro hu
    rw [hu] at a1
    have := a1.1.symm.trans a2.1
    exact Option.some.inj this
  · intro ht
    subst ht
    have := a1.2.symm.trans a2.2
    exact Option.some.inj this

/-- a definition `(n', t')` that cannot live in one one-to-one binding together with `(name, t)` -/
def Conflicts (n' : Str) (t' : τ) (name : Str) (t : τ) : Prop :=
  (upper n' = upper name ∧ n' ≠ name) ∨ (n' = name ∧ t' ≠ t) ∨ (n' ≠ name ∧ t' = t)

private theorem bne_false_iff {α : Type} [DecidableEq α] (a b : α) : (a != b) = false ↔ a = b := by
  simp

theorem bindOne_ok {st st' : BState τ} {name : Str} {t : τ} (hinv : BInv st)
    (h : bindOne st name t = .ok st') :
    BInv st' ∧ dictGet st'.info name = some t ∧
    (∀ n t', dictGet st.info n = some t' → dictGet st'.info n = some t') ∧
    (∀ n t', dictGet st'.info n = some t' → (n = name ∧ t' = t) ∨ dictGet st.info n = some t') := by
  unfold bindOne at h
  generalize hc1 : differs (dictGet st.ncm (upper name)) name = b1 at h
  generalize hc2 : differs (dictGet st.info name) t = b2 at h
  generalize hc3 : differs (dictGet st.ref t) name = b3 at h
  cases b1 <;> cases b2 <;> cases b3 <;> simp at h
  have c1 := hc1
  have c2 := hc2
  have c3 := hc3
  have hst : st' = { info := dictSet st.info name t, ref := dictSet st.ref t name,
                     ncm := dictSet st.ncm (upper name) name } := h.symm
  subst hst
  -- what the passed checks say
  have k1 : ∀ p, dictGet st.ncm (upper name) = some p → p = name := by
    intro p hp; rw [hp] at c1; simpa [differs] using c1
  have k2 : ∀ j, dictGet st.info name = some j → j = t := by
    intro j hj; rw [hj] at c2; simpa [differs] using c2
  have k3 : ∀ p, dictGet st.ref t = some p → p = name := by
    intro p hp; rw [hp] at c3; simpa [differs] using c3
  have mono : ∀ n t', dictGet st.info n = some t' → dictGet (dictSet st.info name t) n = some t' := by
    intro n t' hn
    rw [dictGet_dictSet]
    by_cases e : name = n
    · subst e; simp [k2 t' hn]
    · simp [e, hn]
  refine ⟨⟨?_, ?_, ?_, dictKeys_nodup_dictSet _ _ _ hinv.nodup⟩, dictGet_dictSet_self _ _ _, mono, ?_⟩
  · -- fwd
    intro n t' hn
    simp only [dictGet_dictSet] at hn ⊢
    by_cases e : name = n
    · subst e
      simp only [if_true] at hn
      have : t = t' := Option.some.inj hn
      subst this
      simp
    · simp only [e, if_false] at hn
      have f := hinv.fwd n t' hn
      constructor
      · by_cases eu : upper name = upper n
        · -- the case check passed, so the stored spelling is `name`; but it is also `n`
          have := k1 n (eu ▸ f.1)
          exact absurd this.symm e
        · simp [eu, f.1]
      · by_cases et : t = t'
        · subst et
          have := k3 n f.2
          exact absurd this.symm e
        · simp [et, f.2]
  · -- ncm
    intro u p hu
    simp only [dictGet_dictSet] at hu
    by_cases e : upper name = u
    · subst e
      simp only [if_true] at hu
      have : name = p := Option.some.inj hu
      subst this
      exact ⟨rfl, by simp [dictGet_dictSet_self]⟩
    · simp only [e, if_false] at hu
      have g := hinv.ncm u p hu
      refine ⟨g.1, ?_⟩
      cases hp : dictGet st.info p with
      | none => rw [hp] at g; exact absurd g.2 (by simp)
      | some t' => rw [mono p t' hp]; rfl
  · -- ref
    intro t' p ht
    simp only [dictGet_dictSet] at ht
    by_cases e : t = t'
    · subst e
      simp only [if_true] at ht
      have : name = p := Option.some.inj ht
      subst this
      exact dictGet_dictSet_self _ _ _
    · simp only [e, if_false] at ht
      exact mono p t' (hinv.ref t' p ht)
  · intro n t' hn
    simp only [dictGet_dictSet] at hn
    by_cases e : name = n
    · subst e
      simp only [if_true] at hn
      exact Or.inl ⟨rfl, (Option.some.inj hn).symm⟩
    · simp only [e, if_false] at hn
      exact Or.inr hn

/-- a failed check means the new definition really conflicts with one accepted earlier -/
theorem bindOne_error {st : BState τ} {name : Str} {t : τ} {k : ErrKind} (hinv : BInv st)
    (h : bindOne st name t = .error k) :
    (k ≠ .unknownArray ∧ k ≠ .invalidIndex) ∧ ∃ n' t', dictGet st.info n' = some t' ∧ Conflicts n' t' name t := by
  unfold bindOne at h
  generalize hc1 : differs (dictGet st.ncm (upper name)) name = b1 at h
  generalize hc2 : differs (dictGet st.info name) t = b2 at h
  generalize hc3 : differs (dictGet st.ref t) name = b3 at h
  cases b1
  · cases b2
    · cases b3
      · simp at h
      · simp only [Bool.false_eq_true, if_false, if_true] at h
        refine ⟨by injection h with h; subst h; simp, ?_⟩
        cases hp : dictGet st.ref t with
        | none => rw [hp] at hc3; simp [differs] at hc3
        | some p =>
          rw [hp] at hc3
          have hne : p ≠ name := by simpa [differs] using hc3
          exact ⟨p, t, hinv.ref _ _ hp, Or.inr (Or.inr ⟨hne, rfl⟩)⟩
    · simp only [Bool.false_eq_true, if_false, if_true] at h
      refine ⟨by injection h with h; subst h; simp, ?_⟩
      cases hp : dictGet st.info name with
      | none => rw [hp] at hc2; simp [differs] at hc2
      | some j =>
        rw [hp] at hc2
        have hne : j ≠ t := by simpa [differs] using hc2
        exact ⟨name, j, hp, Or.inr (Or.inl ⟨rfl, hne⟩)⟩
  · simp only [if_true] at h
    refine ⟨by injection h with h; subst h; simp, ?_⟩
    cases hp : dictGet st.ncm (upper name) with
    | none => rw [hp] at hc1; simp [differs] at hc1
    | some p =>
      rw [hp] at hc1
      have hne : p ≠ name := by simpa [differs] using hc1
      have g := hinv.ncm _ _ hp
      cases hi : dictGet st.info p with
      | none => rw [hi] at g; exact absurd g.2 (by simp)
      | some t' => exact ⟨p, t', hi, Or.inl ⟨g.1.symm, hne⟩⟩

/-! ### the loop -/

/-- the definitions among `syms`, as the loop sees them -/
def defsOf (cls : Sym → Cls τ) (syms : List Sym) : List (Str × τ) :=
  syms.filterMap (fun s => match cls s with | .defn n t => some (n, t) | _ => none)

theorem loopCls_ok (cls : Sym → Cls τ) (syms : List Sym) {st st' : BState τ} (hinv : BInv st)
    (h : loopCls cls st syms = .ok st') :
    BInv st' ∧
    (∀ n t, dictGet st.info n = some t → dictGet st'.info n = some t) ∧
    (∀ nt ∈ defsOf cls syms, dictGet st'.info nt.1 = some nt.2) ∧
    (∀ n t, dictGet st'.info n = some t → dictGet st.info n = some t ∨ (n, t) ∈ defsOf cls syms) ∧
    (∀ s ∈ syms, match cls s with | .defn _ _ => True | .skip => True | _ => False) := by
  induction syms generalizing st with
  | nil =>
    simp only [loopCls] at h
    injection h with h; subst h
    exact ⟨hinv, fun _ _ h => h, by simp [defsOf], fun _ _ h => Or.inl h, by simp⟩
  | cons s ss ih =>
    simp only [loopCls] at h
    cases hc : cls s with
    | skip =>
      rw [hc] at h
      simp only [stepCls] at h
      obtain ⟨i1, i2, i3, i4, i5⟩ := ih hinv h
      refine ⟨i1, i2, ?_, ?_, ?_⟩
      · simpa [defsOf, hc] using i3
      · simpa [defsOf, hc] using i4
      · intro x hx
        rcases List.mem_cons.1 hx with rfl | hx
        · simp [hc]
        · exact i5 x hx
    | tooLong => rw [hc] at h; simp [stepCls] at h
    | unknownArray a => rw [hc] at h; simp [stepCls] at h
    | defn name t =>
      rw [hc] at h
      simp only [stepCls] at h
      cases hb : bindOne st name t with
      | error k => rw [hb] at h; simp at h
      | ok st1 =>
        rw [hb] at h
        simp only at h
        obtain ⟨b1, b2, b3, b4⟩ := bindOne_ok hinv hb
        obtain ⟨i1, i2, i3, i4, i5⟩ := ih b1 h
        have hdefs : defsOf cls (s :: ss) = (name, t) :: defsOf cls ss := by
          simp [defsOf, hc]
        refine ⟨i1, fun n t' hn => i2 n t' (b3 n t' hn), ?_, ?_, ?_⟩
        · intro nt hnt
          rw [hdefs] at hnt
          rcases List.mem_cons.1 hnt with rfl | hnt
          · exact i2 _ _ b2
          · exact i3 nt hnt
        · intro n t' hn
          rw [hdefs]
          rcases i4 n t' hn with h1 | h1
          · rcases b4 n t' h1 with ⟨rfl, rfl⟩ | h2
            · exact Or.inr (List.mem_cons_self)
            · exact Or.inl h2
          · exact Or.inr (List.mem_cons_of_mem _ h1)
        · intro x hx
          rcases List.mem_cons.1 hx with rfl | hx
          · simp [hc]
          · exact i5 x hx

/-- a rejected run: the error carries the position of the first symbol the loop could not accept, and that
symbol either conflicts with a definition accepted before it or names an unknown array -/
theorem loopCls_error (cls : Sym → Cls τ) (syms : List Sym) {st : BState τ} {e : ParseErr} (hinv : BInv st)
    (h : loopCls cls st syms = .error (.parse e)) :
    ∃ pre s post st1, syms = pre ++ s :: post ∧ loopCls cls st pre = .ok st1 ∧
      e.file = s.file ∧ e.line = s.line ∧ e.label = s.label ∧
      ((∃ a, cls s = .unknownArray a ∧ e.kind = .unknownArray ∧ e.extra = a) ∨
       (cls s = .tooLong ∧ e.kind = .invalidIndex) ∨
       (∃ name t n' t', cls s = .defn name t ∧ e.kind ≠ .unknownArray ∧ e.kind ≠ .invalidIndex ∧
          dictGet st1.info n' = some t' ∧ Conflicts n' t' name t)) := by
  induction syms generalizing st with
  | nil => simp [loopCls] at h
  | cons s ss ih =>
    simp only [loopCls] at h
    cases hstep : stepCls st s (cls s) with
    | ok st1 =>
      rw [hstep] at h
      simp only at h
      have hinv1 : BInv st1 := by
        cases hc : cls s with
        | skip => rw [hc] at hstep; simp only [stepCls] at hstep; injection hstep with hs; subst hs; exact hinv
        | tooLong => rw [hc] at hstep; simp [stepCls] at hstep
        | unknownArray a => rw [hc] at hstep; simp [stepCls] at hstep
        | defn name t =>
          rw [hc] at hstep
          simp only [stepCls] at hstep
          cases hb : bindOne st name t with
          | error k => rw [hb] at hstep; simp at hstep
          | ok st2 =>
            rw [hb] at hstep
            simp only at hstep
            injection hstep with hs; subst hs
            exact (bindOne_ok hinv hb).1
      obtain ⟨pre, s', post, st2, h1, h2, h3⟩ := ih hinv1 h
      refine ⟨s :: pre, s', post, st2, by simp [h1], ?_, h3⟩
      simp only [loopCls, hstep]
      exact h2
    | error e' =>
      rw [hstep] at h
      simp only at h
      injection h with h
      subst h
      refine ⟨[], s, ss, st, by simp, by simp [loopCls], ?_⟩
      cases hc : cls s with
      | skip => rw [hc] at hstep; simp [stepCls] at hstep
      | tooLong =>
        rw [hc] at hstep
        simp only [stepCls, mkErr] at hstep
        injection hstep with hs
        injection hs with hs
        subst hs
        exact ⟨rfl, rfl, rfl, Or.inr (Or.inl ⟨rfl, rfl⟩)⟩
      | unknownArray a =>
        rw [hc] at hstep
        simp only [stepCls, mkErr] at hstep
        injection hstep with hs
        injection hs with hs
        subst hs
        exact ⟨rfl, rfl, rfl, Or.inl ⟨a, rfl, rfl, rfl⟩⟩
      | defn name t =>
        rw [hc] at hstep
        simp only [stepCls] at hstep
        cases hb : bindOne st name t with
        | ok st2 => rw [hb] at hstep; simp at hstep
        | error k =>
          rw [hb] at hstep
          simp only [mkErr] at hstep
          injection hstep with hs
          injection hs with hs
          subst hs
          obtain ⟨hk, n', t', hg, hcf⟩ := bindOne_error hinv hb
          exact ⟨rfl, rfl, rfl, Or.inr (Or.inr ⟨name, t, n', t', rfl, hk.1, hk.2, hg, hcf⟩)⟩

end QmiModel.Adbasic
