import QmiModel.Lemmas.C20Valid
/-! What the one-at-a-time write fold leaves in the registers. Core Lean only. -/
namespace QmiModel.Adbasic

theorem setPar_readReg (b : Dict Str Desc) (dv dv1 : Dev) (n : Str) (v : Val) (r : Desc)
    (hl : lookupCI b n = some r) (h : setPar b dv n v = ⟨dv1, .ok ()⟩) :
    dv1.readReg r = v ∧ ∀ r', r' ≠ r → dv1.readReg r' = dv.readReg r' := by
  unfold setPar at h
  rw [hl] at h
  cases r with
  | par i =>
    cases v with
    | flt x => simp at h
    | int x =>
      simp only at h
      injection h with h1 _
      subst h1
      refine ⟨by simp [Dev.readReg, Dev.doSetPar], ?_⟩
      intro r' hne
      cases r' with
      | par j =>
        have : j ≠ i := fun e => hne (by rw [e])
        simp [Dev.readReg, Dev.doSetPar, this]
      | fpar j => rfl
      | elem d e => rfl
  | fpar i =>
    simp only at h
    injection h with h1 _
    subst h1
    refine ⟨by simp [Dev.readReg, Dev.doSetFPar], ?_⟩
    intro r' hne
    cases r' with
    | fpar j =>
      have : j ≠ i := fun e => hne (by rw [e])
      simp [Dev.readReg, Dev.doSetFPar, this]
    | par j => rfl
    | elem d e => rfl
  | elem d e =>
    simp only at h
    injection h with h1 _
    subst h1
    refine ⟨by simp [Dev.readReg, lookup_doSetData_single], ?_⟩
    intro r' hne
    cases r' with
    | elem d' e' =>
      have : ¬ (d = d' ∧ e = e') := fun ⟨h1, h2⟩ => hne (by rw [h1, h2])
      simp [Dev.readReg, lookup_doSetData_single, this]
    | par j => rfl
    | fpar j => rfl

theorem setFold_preserves (b : Dict Str Desc) (params : List (Str × Val)) (dv dvF : Dev) (r : Desc)
    (h : setFold b params dv = ⟨dvF, .ok ()⟩) (hno : ∀ q ∈ params, lookupCI b q.1 ≠ some r) :
    dvF.readReg r = dv.readReg r := by
  induction params generalizing dv with
  | nil => simp only [setFold] at h; injection h with h1 _; rw [← h1]
  | cons nv ps ih =>
    obtain ⟨n, v⟩ := nv
    simp only [setFold] at h
    cases hs : setPar b dv n v with
    | mk dv1 res =>
      rw [hs] at h
      cases res with
      | error x => simp at h
      | ok u =>
        simp only at h
        cases hl : lookupCI b n with
        | none => simp [setPar, hl] at hs
        | some r0 =>
          have hne : r ≠ r0 := fun e => hno (n, v) List.mem_cons_self (by rw [hl, e])
          have := (setPar_readReg b dv dv1 n v r0 hl hs).2 r hne
          rw [ih dv1 h (fun q hq => hno q (List.mem_cons_of_mem _ hq)), this]

/-- after the fold, a register that is assigned by exactly one pair of the list holds that pair's value -/
theorem setFold_readReg (b : Dict Str Desc) (params : List (Str × Val)) (dv dvF : Dev)
    (h : setFold b params dv = ⟨dvF, .ok ()⟩)
    (hinj : ∀ p ∈ params, ∀ q ∈ params, lookupCI b p.1 = lookupCI b q.1 → p = q) :
    ∀ nv ∈ params, ∀ r, lookupCI b nv.1 = some r → dvF.readReg r = nv.2 := by
  induction params generalizing dv with
  | nil => intro nv hnv; simp at hnv
  | cons p ps ih =>
    obtain ⟨n, v⟩ := p
    simp only [setFold] at h
    cases hs : setPar b dv n v with
    | mk dv1 res =>
      rw [hs] at h
      cases res with
      | error x => simp at h
      | ok u =>
        simp only at h
        intro nv hnv r hr
        by_cases hin : nv ∈ ps
        · exact ih dv1 h (fun p hp q hq => hinj p (List.mem_cons_of_mem _ hp) q (List.mem_cons_of_mem _ hq)) nv hin r hr
        · rcases List.mem_cons.1 hnv with rfl | hnv'
          · have hno : ∀ q ∈ ps, lookupCI b q.1 ≠ some r := by
              intro q hq hc
              have := hinj (n, v) List.mem_cons_self q (List.mem_cons_of_mem _ hq) (by simp only; rw [hr, hc])
              exact hin (this ▸ hq)
            rw [setFold_preserves b ps dv1 dvF r h hno]
            exact (setPar_readReg b dv dv1 n v r hr hs).1
          · exact absurd hnv' hin

end QmiModel.Adbasic
