import QmiModel.Lemmas.C08Sim9
import QmiModel.Lemmas.C08Quiet
/-! C08, simulation layer — the simulation theorem: in every reachable state, the abstraction of every live connection,
object and signal is a reachable state of the abstract protocol. -/
set_option linter.unusedSimpArgs false
namespace QmiModel.PubSub
open Proto

set_option maxHeartbeats 2000000 in
/-- a connection that is live after a step was live before it, or has just been made -/
theorem live_back {s s' : State} {a : Act} {o : Out} (hr : Reach s) (hs : step s a = some (s', o)) {cn : ConnId}
    (hl : Live s' cn) : Live s cn ∨ (cn = s.nextConn ∧ ∃ a0 p0, NStep s (connState s a0 p0) ∧ s' = connState s a0 p0 ∧ a0 ≠ p0 ∧
      (s.ctx a0).peers (.name p0) = none) := by
  by_cases ha : ∃ th ch ch2, a = .micro th ch ch2
  · obtain ⟨th, ch, ch2, rfl⟩ := ha
    obtain ⟨-, op, rest, hp, hm⟩ := step_micro_inv hs
    left
    have hown := microStep_owner hm
    have hfl := microStep_fields hm
    have hc : cliOf s' cn = cliOf s cn := hown cn true
    have hpp : srvOf s' cn = srvOf s cn := hown cn false
    have hpeers : ∀ c n m, (s'.ctx c).peers n = some m → (s.ctx c).peers n = some m := by
      intro c n m h
      by_cases hpop : op.isPop = true
      · cases op <;> simp only [MOp.isPop] at hpop <;> try contradiction
        rename_i n0
        simp only [microStep, Option.some.injEq, Prod.mk.injEq] at hm
        obtain ⟨rfl, -⟩ := hm
        simp only [setProg_ctx, setCtx_ctx] at h
        split at h
        · rename_i e; subst e
          simp only [upd] at h
          split at h
          · cases h
          · exact h
        · exact h
      · rw [hfl.peers (by simpa using hpop)] at h; exact h
    exact ⟨by rw [← hc, ← hfl.alive]; exact hl.aliveA, by rw [← hpp, ← hfl.alive]; exact hl.aliveP,
      by rw [← hc, ← hfl.routerDown]; exact hl.upA, by rw [← hpp, ← hfl.routerDown]; exact hl.upP,
      by rw [← hc, ← hpp]; exact hpeers _ _ _ hl.regA, by rw [← hpp]; exact hpeers _ _ _ hl.regP⟩
  · have hn := step_nonmicro_cases (fun th ch ch2 e => ha ⟨th, ch, ch2, e⟩) hs
    have key : ∀ (hown : ∀ b, ((s'.conn cn).half b).owner = ((s.conn cn).half b).owner)
        (hal : ∀ c, (s'.ctx c).alive = true → (s.ctx c).alive = true)
        (hrd : ∀ c, (s'.ctx c).routerDown = false → (s.ctx c).routerDown = false)
        (hpe : ∀ c n, (s'.ctx c).peers n = some cn → (s.ctx c).peers n = some cn), Live s cn := by
      intro hown hal hrd hpe
      have hc : cliOf s' cn = cliOf s cn := hown true
      have hpp : srvOf s' cn = srvOf s cn := hown false
      exact ⟨hal _ (hc ▸ hl.aliveA), hal _ (hpp ▸ hl.aliveP), hrd _ (hc ▸ hl.upA), hrd _ (hpp ▸ hl.upP),
        hpe _ _ (by rw [← hc, ← hpp]; exact hl.regA), hpe _ _ (by rw [← hpp]; exact hl.regP)⟩
    have hq : ∀ (c : Ctx) (q : List Cb) (x : Ctx), ((s.setCtx c { (s.ctx c) with loopQ := q }).ctx x).alive = (s.ctx x).alive ∧
        ((s.setCtx c { (s.ctx c) with loopQ := q }).ctx x).routerDown = (s.ctx x).routerDown ∧
        ((s.setCtx c { (s.ctx c) with loopQ := q }).ctx x).peers = (s.ctx x).peers := by
      intro c q x; simp only [setCtx_ctx]; split <;> (try (rename_i e; subst e)) <;> exact ⟨rfl, rfl, rfl⟩
    cases hn
    case beginPub => exact Or.inl (key (fun _ => rfl) (fun _ h => h) (fun _ h => h) (fun _ _ h => h))
    case beginOther => exact Or.inl (key (fun _ => rfl) (fun _ h => h) (fun _ h => h) (fun _ _ h => h))
    case cbUnknown c d m q _ _ _ _ =>
      exact Or.inl (key (fun _ => rfl) (fun x h => by rw [← (hq c q x).1]; exact h) (fun x h => by rw [← (hq c q x).2.1]; exact h)
        (fun x n h => by rw [← (hq c q x).2.2]; exact h))
    case cbSent c d m q n _ _ _ _ =>
      refine Or.inl (key (fun b => ?_) (fun x h => by rw [← (hq c q x).1]; exact h) (fun x h => by rw [← (hq c q x).2.1]; exact h)
        (fun x n h => by rw [← (hq c q x).2.2]; exact h))
      simp only [setProg_conn, upd]; split
      · rename_i e; subst e; exact sentConn_owner _ _ _ _
      · rfl
    case cbFail c d m q n _ _ _ _ _ =>
      exact Or.inl (key (fun _ => rfl) (fun x h => by rw [← (hq c q x).1]; exact h) (fun x h => by rw [← (hq c q x).2.1]; exact h)
        (fun x n h => by rw [← (hq c q x).2.2]; exact h))
    case cbDiscNone c n t q _ _ _ _ =>
      exact Or.inl (key (fun _ => rfl) (fun x h => by rw [← (hq c q x).1]; exact h) (fun x h => by rw [← (hq c q x).2.1]; exact h)
        (fun x n h => by rw [← (hq c q x).2.2]; exact h))
    case cbDisc c n t q n' _ _ _ _ =>
      exact Or.inl (key (fun _ => rfl) (fun x h => by rw [← (hq c q x).1]; exact h) (fun x h => by rw [← (hq c q x).2.1]; exact h)
        (fun x n h => by rw [← (hq c q x).2.2]; exact h))
    case arrive n cli m ms _ _ _ _ _ =>
      exact Or.inl (key (fun b => arrState_owner s n cli m ms cn b) (fun _ h => h) (fun _ h => h) (fun _ _ h => h))
    case eof => exact Or.inl (key (fun _ => rfl) (fun _ h => h) (fun _ h => h) (fun _ _ h => h))
    case routerOk => exact Or.inl (key (fun _ => rfl) (fun _ h => h) (fun _ h => h) (fun _ _ h => h))
    case stopReq c _ =>
      refine Or.inl (key (fun _ => rfl) (fun x h => ?_) (fun x h => ?_) (fun x n h => ?_))
      · simp only [setCtx_ctx] at h; split at h <;> (try (rename_i e; subst e)) <;> simpa using h
      · simp only [setCtx_ctx] at h; split at h
        · simp at h
        · exact h
      · simp only [setCtx_ctx] at h; split at h <;> (try (rename_i e; subst e)) <;> exact h
    case stop c _ =>
      refine Or.inl (key (fun b => stopConn_owner _ _ _) (fun x h => ?_) (fun x h => ?_) (fun x n h => ?_))
      · simp only [setCtx_ctx] at h; split at h
        · simp at h
        · exact h
      · simp only [setCtx_ctx] at h; split at h <;> (try (rename_i e; subst e)) <;> exact h
      · simp only [setCtx_ctx] at h; split at h <;> (try (rename_i e; subst e)) <;> exact h
    case connect a0 p0 hne ha0 hp0 hnone =>
      by_cases hcn : cn = s.nextConn
      · exact Or.inr ⟨hcn, a0, p0, NStep.connect a0 p0 hne ha0 hp0 hnone, rfl, hne, hnone⟩
      · left
        have hl0 : Live (connState s a0 p0) cn := hl
        have htopo := topoInv_reach hr
        refine key (fun b => ?_) (fun x h => ?_) (fun x h => ?_) (fun x n h => ?_)
        · show (((connState s a0 p0).conn cn).half b).owner = _
          rw [connState_conn, if_neg hcn]
        · have h' : ((connState s a0 p0).ctx x).alive = true := h
          simp only [connState, setCtx_ctx] at h'
          split at h' <;> (try (rename_i e; subst e)) <;> (try split at h') <;> (try (rename_i e; subst e)) <;> exact h'
        · have h' : ((connState s a0 p0).ctx x).routerDown = false := h
          simp only [connState, setCtx_ctx] at h'
          split at h' <;> (try (rename_i e; subst e)) <;> (try split at h') <;> (try (rename_i e; subst e)) <;> exact h'
        · have h' : ((connState s a0 p0).ctx x).peers n = some cn := h
          rw [connState_peers s hne] at h'
          split at h'
          · exact absurd (Option.some.inj h').symm hcn
          · split at h'
            · exact absurd (Option.some.inj h').symm hcn
            · exact h'


theorem hdl_in_srvIds_list {cn : ConnId} {id : ReqId} {t : T} {l : List MOp}
    (h : hdlTok (.alias cn) id l = some t) : id ∈ srvIds cn l := by
  have key : ∀ op ∈ l, opSrvId cn op = some id → id ∈ srvIds cn l := fun op ho he => by
    simp only [srvIds, List.mem_filterMap]; exact ⟨op, ho, he⟩
  cases l with
  | nil => simp [hdlTok] at h
  | cons op l =>
    cases op <;> (try (simp only [hdlTok] at h)) <;> try (cases h; done)
    case reqChk1 src i ob sg =>
      split at h <;> try (cases h; done)
      rename_i e; obtain ⟨rfl, rfl⟩ := e
      exact key _ List.mem_cons_self (by simp [opSrvId])
    case reqChk2 src i ob sg =>
      split at h <;> try (cases h; done)
      rename_i e; obtain ⟨rfl, rfl⟩ := e
      exact key _ List.mem_cons_self (by simp [opSrvId])
    case addRemote src ob sg =>
      cases l with
      | nil => simp [hdlTok] at h
      | cons op2 l =>
        cases op2 <;> (try (simp only [hdlTok] at h)) <;> try (cases h; done)
        split at h <;> try (cases h; done)
        rename_i e; obtain ⟨rfl, rfl⟩ := e
        exact key _ (List.mem_cons_of_mem _ List.mem_cons_self) (by simp [opSrvId])
    case removeRemote src ob sg =>
      cases l with
      | nil => simp [hdlTok] at h
      | cons op2 l =>
        cases op2 <;> (try (simp only [hdlTok] at h)) <;> try (cases h; done)
        rename_i d m
        cases m <;> (try (simp only [hdlTok] at h)) <;> try (cases h; done)
        split at h <;> try (cases h; done)
        rename_i e; obtain ⟨rfl, rfl⟩ := e
        exact key _ (List.mem_cons_of_mem _ List.mem_cons_self) (by simp [opSrvId, msgRepId])
    case sendChk d m =>
      cases m <;> (try (simp only [hdlTok] at h)) <;> try (cases h; done)
      split at h <;> try (cases h; done)
      rename_i e; obtain ⟨rfl, rfl⟩ := e
      exact key _ List.mem_cons_self (by simp [opSrvId, msgRepId])
    case enq d m =>
      cases m <;> (try (simp only [hdlTok] at h)) <;> try (cases h; done)
      split at h <;> try (cases h; done)
      rename_i e; obtain ⟨rfl, rfl⟩ := e
      exact key _ List.mem_cons_self (by simp [opSrvId, msgRepId])


theorem remPhase_fresh {N : Nat} {ob : Obj} {sg : Sg} {l : List MOp} (h : okOps N l = true) : remPhase N ob sg l ≠ .np := by
  cases l with
  | nil => simp [remPhase]
  | cons op l =>
    have hop := (List.all_eq_true.1 h) op List.mem_cons_self
    have hno : ∀ ns : List (Sg × Peer), ns.all (fun x => x.2.okA N) = true → (sg, Peer.alias N) ∉ ns := by
      intro ns hns hm
      have := List.all_eq_true.1 hns _ hm
      simp [Peer.okA] at this
    cases op <;> simp only [remPhase] <;> (try (simp; done))
    case objRemoved ob' => split <;> simp
    case notify ns ob' =>
      have := hno ns (by simpa [MOp.ok] using hop)
      split <;> simp [this]
    case delObj ob' => split <;> simp
    case enq d m =>
      cases m <;> (try (simp [remPhase]; done))
      rename_i ob' sg'
      simp only [remPhase]
      have hd : d ≠ .alias N := by
        intro e; subst e
        simp [MOp.ok, sendOk, Msg.isUp, Peer.okA] at hop
      split
      · rw [if_neg (fun e => hd e.1)]
        cases l with
        | nil => simp
        | cons op2 l2 =>
          cases op2 <;> (try (simp; done))
          rename_i ns ob2
          have hop2 := (List.all_eq_true.1 h) (.notify ns ob2) (List.mem_cons_of_mem _ List.mem_cons_self)
          have := hno ns (by simpa [MOp.ok] using hop2)
          simp [this]
      · simp

set_option maxHeartbeats 2000000 in
/-- **a new connection starts in one of the initial states of the abstract protocol** -/
theorem sim_init {s : State} (hr : Reach s) {a p : Ctx} (hne : a ≠ p) (hnone : (s.ctx a).peers (.name p) = none)
    (ob : Obj) (sg : Sg) : ∃ x, Sim (connState s a p) s.nextConn ob sg x ∧ x ∈ inits := by
  have hty := typInv_reach hr
  have hrem := remInv_reach hr
  have hpo := pendInv_reach hr a
  have hN : (connState s a p).conn s.nextConn = newConn a p := by rw [connState_conn, if_pos rfl]
  have hc : cliOf (connState s a p) s.nextConn = a := by simp only [cliOf, hN]; rfl
  have hp : srvOf (connState s a p) s.nextConn = p := by simp only [srvOf, hN]; rfl
  have hk : keyOf (connState s a p) s.nextConn ob sg = ⟨.name p, ob, sg⟩ := by simp only [keyOf, hp]
  have hfields : ∀ y, ((connState s a p).ctx y).lsubs = (s.ctx y).lsubs ∧ ((connState s a p).ctx y).byKey = (s.ctx y).byKey ∧
      ((connState s a p).ctx y).pobj = (s.ctx y).pobj ∧ ((connState s a p).ctx y).rsubs = (s.ctx y).rsubs ∧
      ((connState s a p).ctx y).objs = (s.ctx y).objs ∧ ((connState s a p).ctx y).loopQ = (s.ctx y).loopQ := by
    intro y; simp only [connState, setCtx_ctx]
    split <;> (try (rename_i e; subst e)) <;> (try split) <;> (try (rename_i e; subst e)) <;> exact ⟨rfl, rfl, rfl, rfl, rfl, rfl⟩
  -- the remover of the object, if any
  have hrmEx : ∃ rm, RmRel (connState s a p) s.nextConn ob sg rm ∧ rm ≠ .np ∧ (rm ≠ .none → (s.ctx p).objs ob = .reserved) := by
    by_cases hex : ∃ th : Th, th.ctx = p ∧ remPhase s.nextConn ob sg (s.prog th) ≠ .none
    · obtain ⟨th0, hth0, hph0⟩ := hex
      refine ⟨remPhase s.nextConn ob sg (s.prog th0), ⟨?_, ?_⟩, remPhase_fresh (hty.ops th0), ?_⟩
      · intro th hth hph
        rw [hp] at hth
        have : th = th0 := hrem.uniq th th0 ob (hth.trans hth0.symm) (remPhase_holds hph) (remPhase_holds hph0)
        rw [this]; rfl
      · intro _; exact ⟨th0, by rw [hp]; exact hth0, rfl⟩
      · intro _; rw [← hth0]; exact hrem.res th0 ob (remPhase_holds hph0)
    · refine ⟨.none, ⟨?_, fun h => absurd rfl h⟩, by simp, fun h => absurd rfl h⟩
      intro th hth hph
      rw [hp] at hth
      exact absurd ⟨th, hth, hph⟩ hex
  obtain ⟨rm, hrel, hnp, hres⟩ := hrmEx
  -- is the pending request lost?
  have hfEx : ∃ failed : Bool, ∀ id, curOf ((connState s a p).ctx (cliOf (connState s a p) s.nextConn))
      (keyOf (connState s a p) s.nextConn ob sg) = some id → (failed = true ↔ FailCar (connState s a p) s.nextConn id) := by
    cases hcur : curOf ((connState s a p).ctx (cliOf (connState s a p) s.nextConn)) (keyOf (connState s a p) s.nextConn ob sg) with
    | none => exact ⟨false, fun id h => by cases h⟩
    | some id0 =>
      by_cases hf : FailCar (connState s a p) s.nextConn id0
      · exact ⟨true, fun id h => by cases h; simp [hf]⟩
      · exact ⟨false, fun id h => by cases h; simp [hf]⟩
  obtain ⟨failed, hfs⟩ := hfEx
  refine ⟨absOf (connState s a p) s.nextConn ob sg rm failed, ⟨rm, failed, hrel, hfs, rfl⟩, ?_⟩
  -- the fields
  have hview : viewOf (connState s a p) s.nextConn ob sg =
      { rs := (s.ctx p).rsubs ⟨ob, sg⟩, ls := (s.ctx a).lsubs ⟨.name p, ob, sg⟩, obj := (s.ctx p).objs ob,
        po := poOf (s.ctx a) ⟨.name p, ob, sg⟩, psp := s.prog (.sock p), psa := s.prog (.sock a),
        lq := (s.ctx p).loopQ, ib := [] } := by
    simp only [viewOf, hc, hp, hk, (hfields _).1, (hfields _).2.2.2.1, (hfields _).2.2.2.2.1, (hfields _).2.2.2.2.2,
      poOf, (hfields _).2.1, (hfields _).2.2.1, hN, connState_prog]
    rfl
  have hnoAlias : Peer.alias s.nextConn ∉ (s.ctx p).rsubs ⟨ob, sg⟩ := by
    intro hm; have := hty.rsubs p _ _ hm; simp [Peer.okA] at this
  have hlq : ∀ cur, (s.ctx p).loopQ.filterMap (relevCb s.nextConn ob sg cur) = [] := by
    intro cur
    simp only [List.filterMap_eq_nil_iff]
    intro cb hcb
    have hok := hty.cbs p cb hcb
    cases cb with
    | smSend d m =>
      simp only [relevCb]
      split
      · rename_i e; subst e
        cases m <;> simp_all [Cb.ok, sendOk, Msg.isUp, Peer.okA, relev]
      · rfl
    | disconnect n t => rfl
  have hsr : MOp.sigRemoved ⟨.name p, ob, sg⟩ ∉ s.prog (.sock a) := by
    intro hm; exact srInv_reach hr a _ hm hnone
  have hpp : MOp.popPeer (.name p) ∉ s.prog (.sock a) := by
    intro hm
    have hsh := (tdInv_reach hr).sock a
    generalize hl : s.prog (.sock a) = l at hsh hm
    cases hsh with
    | free hfree => have := hfree _ hm; simp [MOp.isTd] at this
    | pop n cn' cli r hr' =>
      simp only [List.mem_cons, MOp.popPeer.injEq, reduceCtorEq, false_or] at hm
      rcases hm with rfl | hm
      · have := ((regInv_reach hr).pop a _ _ cn' cli r hl).1
        rw [hnone] at this; cases this
      · have := hr' _ hm; simp [MOp.isTd] at this
    | rem n cn' cli r hr' =>
      simp only [List.mem_cons, reduceCtorEq, false_or] at hm
      have := hr' _ hm; simp [MOp.isTd] at this
    | close cn' cli r hr' =>
      simp only [List.mem_cons, reduceCtorEq, false_or] at hm
      have := hr' _ hm; simp [MOp.isTd] at this
  apply mem_inits
  · simp only [absOf, absV, hview]; simp [hnoAlias]
  · simp only [absOf, absV, dV, hview, hk, hlq]; simp
  · simp only [absOf, absV, hview, hk]; simp [hsr]
  · by_cases hrm0 : rm = .none
    · left; exact hrm0
    · right
      refine ⟨?_, ?_⟩
      · show rm = .pre ∨ rm = .post
        cases rm <;> simp_all
      · simp only [absOf, absV, hview]; exact hres hrm0
  · simp only [absOf, absV, hview, hk]
    cases hpoe : poOf (s.ctx a) ⟨.name p, ob, sg⟩ with
    | none => left; simp [pendP]
    | some po =>
      right
      refine ⟨by simp only [pendP]; split <;> simp, ?_⟩
      simp only [Option.map_some]
      cases failed with
      | true => right; rfl
      | false =>
        left
        simp only [Bool.false_eq_true, if_false]
        have hcur : curOf (s.ctx a) ⟨.name p, ob, sg⟩ = some po.cur := by simp only [curOf, hpoe, Option.map_some]
        rw [tokV_client]
        · rw [if_neg]
          intro hm
          obtain ⟨pid, po', h1, h2, h3⟩ := hrInv_reach hr (.sock a) _ hm
          obtain ⟨pid0, po0, -, g2, -, g4, g5⟩ := cur_spec hpo hcur
          simp only [Th.ctx] at h1 h2 h3
          rw [g5] at h1; cases h1
          rw [g2] at h2; cases h2
          rw [g4] at h3
          exact h3 hnone
        · cases ht : hdlTok (.alias s.nextConn) po.cur (s.prog (.sock p)) with
          | none => rfl
          | some t =>
            have h1 : po.cur ∈ srvIds s.nextConn (s.prog (.sock p)) := hdl_in_srvIds_list ht
            rw [srvIds_fresh (hty.ops _)] at h1; simp at h1
        · exact ⟨by simp, fun ok hm => by
            have := hty.cbs p _ hm
            simp [Cb.ok, sendOk, Msg.isUp, Peer.okA] at this⟩
  · intro hA
    simp only [absOf, absV, hview, hk, decide_eq_true_eq] at hA ⊢
    refine ⟨?_, hpp⟩
    rcases lsubInv_reach hr a p ob sg hA (Ne.symm hne) with h1 | h1
    · exact absurd hnone h1
    · exact h1


/-- **every step of the model is a step of the abstract protocol, or invisible** -/
theorem sim_step {s s' : State} {act : Act} {o : Out} (hr : Reach s) (hs : step s act = some (s', o))
    {cn : ConnId} {ob : Obj} {sg : Sg} {x : AS} (hl : Live s cn) (hl' : Live s' cn) (h : Sim s cn ob sg x) :
    ∃ x', Sim s' cn ob sg x' ∧ (x' = x ∨ x' ∈ next x) := by
  by_cases ha : ∃ th ch ch2, act = .micro th ch ch2
  · obtain ⟨th, ch, ch2, rfl⟩ := ha
    obtain ⟨-, op, rest, hp, hm⟩ := step_micro_inv hs
    by_cases hA : th.ctx = cliOf s cn
    · exact sim_micro_a hr hp hm hA hl hl' h
    · by_cases hP : th.ctx = srvOf s cn
      · exact sim_micro_p hr hp hm hP hl h
      · exact ⟨x, sim_micro_foreign hr hp hm hA hP h, Or.inl rfl⟩
  · exact sim_nstep hr (Reach.step hr hs) (step_nonmicro_cases (fun th ch ch2 e => ha ⟨th, ch, ch2, e⟩) hs) hl hl' h

/-- **the simulation theorem**: the abstraction of every live connection, object and signal of a reachable state is a
reachable state of the abstract protocol -/
theorem sim_reach {s : State} (hr : Reach s) : ∀ cn ob sg, Live s cn → ∃ x, Sim s cn ob sg x ∧ memB x = true := by
  induction hr with
  | init =>
    intro cn ob sg hl
    have := hl.regA
    simp [State.init, CtxSt.init] at this
  | step hr hs ih =>
    rename_i s0 s1 a o
    intro cn ob sg hl
    rcases live_back hr hs hl with hl0 | ⟨rfl, a0, p0, -, rfl, hne, hnone⟩
    · obtain ⟨x, hx, hm⟩ := ih cn ob sg hl0
      obtain ⟨x', hx', hn⟩ := sim_step hr hs hl0 hl hx
      refine ⟨x', hx', ?_⟩
      rcases hn with rfl | hn
      · exact hm
      · exact reach_closed hm hn
    · obtain ⟨x, hx, hi⟩ := sim_init hr hne hnone ob sg
      exact ⟨x, hx, reach_inits hi⟩


/-- **quiescent consistency**: in a reachable state in which nothing is in flight and no context is half-way through its
stop, a context transmits a signal to a connected peer exactly when that peer has a receiver for it -/
theorem quiescent_consistent {s : State} (hr : Reach s) (hq : Quiescent s) (hns : NoStopPending s) : Consistent s := by
  intro a p cn ob sg haA haP hlink
  have htopo := topoInv_reach hr
  obtain ⟨hlt, hoa, hop⟩ := htopo.peersN a p cn hlink
  have hca : cliOf s cn = a := hoa
  have hcp : srvOf s cn = p := hop
  have hopenA : ((s.conn cn).half true).isOpen = true := registered_is_open hr haA hlink
  have hopenP : ((s.conn cn).half false).isOpen = true := (hq.conns cn true hlt hopenA (by rw [hoa]; exact haA)).2
  have hregP : (s.ctx p).peers (.alias cn) = some cn := by
    rcases (regInv_reach hr).reg cn false hopenP with h1 | h1
    · simp only [srcName, Bool.false_eq_true, if_false] at h1; rw [hop] at h1; exact h1
    · rw [hop, hq.idle (.sock p) haP] at h1; simp at h1
  have hl : Live s cn := ⟨by rw [hca]; exact haA, by rw [hcp]; exact haP, by rw [hca]; exact hns a haA,
    by rw [hcp]; exact hns p haP, by rw [hca, hcp]; exact hlink, by rw [hcp]; exact hregP⟩
  obtain ⟨x, ⟨rm, failed, hrel, hfs, rfl⟩, hm⟩ := sim_reach hr cn ob sg hl
  -- nothing of the protocol is in flight
  have hpo := pendInv_reach hr a
  have hbk : (s.ctx a).byKey ⟨.name p, ob, sg⟩ = none := by
    cases hb : (s.ctx a).byKey ⟨.name p, ob, sg⟩ with
    | none => rfl
    | some pid =>
      cases hp : (s.ctx a).pobj pid with
      | none => exact absurd hp (hpo.byKey_some _ _ hb)
      | some po =>
        have := hpo.byKey_cur _ pid po hb hp
        rw [hq.pend a po.cur haA] at this; cases this
  have hpoOf : poOf (s.ctx (cliOf s cn)) (keyOf s cn ob sg) = none := by
    simp only [poOf, keyOf, hca, hcp, hbk, Option.bind_none]
  have hrm : rm = .none := by
    cases hrmv : rm with
    | none => rfl
    | _ =>
      obtain ⟨th, hth, e⟩ := hrel.ex (by rw [hrmv]; simp)
      rw [hq.idle th (by rw [hth, hcp]; exact haP), hrmv] at e
      simp [remPhase] at e
  have hsettled : settled (absOf s cn ob sg rm failed) = true := by
    have hpsa : s.prog (.sock (cliOf s cn)) = [] := hq.idle _ (by simp only [Th.ctx, hca]; exact haA)
    have hib : ((s.conn cn).half true).inbox = [] := (hq.conns cn true hlt hopenA (by rw [hoa]; exact haA)).1
    have hlq : (s.ctx (srvOf s cn)).loopQ = [] := by rw [hcp]; exact hq.loops p haP
    simp only [settled, absOf, absV, viewOf, hpoOf, pendP, dV, hpsa, hib, hlq, hrm]
    simp
  have hsafe := reach_safe hm hsettled
  have hR : (absOf s cn ob sg rm failed).R = true ↔ Peer.alias cn ∈ (s.ctx p).rsubs ⟨ob, sg⟩ := by rw [← hcp]; exact absOf_R
  have hA : (absOf s cn ob sg rm failed).A = true ↔ (s.ctx a).lsubs ⟨.name p, ob, sg⟩ ≠ [] := by
    simp only [absOf, absV, viewOf, keyOf, hca, hcp]; exact decide_eq_true_iff
  rw [← hR, ← hA, hsafe]

end QmiModel.PubSub
