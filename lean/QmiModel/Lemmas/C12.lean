import QmiModel.Model.Context
/-! Helper lemmas for property C12 (dictionary helpers, the well-formedness invariant of layer A). Core Lean only. -/
namespace QmiModel.Context

theorem hasKey_false_iff {β : Type} (m : List (Name × β)) (n : Name) :
    hasKey m n = false ↔ ∀ e ∈ m, e.1 ≠ n := by
  simp [hasKey]

theorem hasKey_true_iff {β : Type} (m : List (Name × β)) (n : Name) :
    hasKey m n = true ↔ ∃ e ∈ m, e.1 = n := by
  simp [hasKey]

theorem delKey_of_not_mem {β : Type} (m : List (Name × β)) (n : Name) (h : ∀ e ∈ m, e.1 ≠ n) : delKey m n = m := by
  simp only [delKey, List.filter_eq_self]
  intro e he
  simpa using h e he

theorem delKey_append_self {β : Type} (m : List (Name × β)) (n : Name) (v : β) (h : ∀ e ∈ m, e.1 ≠ n) :
    delKey (m ++ [(n, v)]) n = m := by
  have := delKey_of_not_mem m n h
  simp only [delKey] at this ⊢
  rw [List.filter_append, this]
  simp

theorem setKey_of_not_mem {β : Type} (m : List (Name × β)) (n : Name) (w : β) (h : ∀ e ∈ m, e.1 ≠ n) : setKey m n w = m := by
  simp only [setKey]
  conv => rhs; rw [← List.map_id m]
  apply List.map_congr_left
  intro e he
  have := h e he
  simp [this]

theorem setKey_append_self {β : Type} (m : List (Name × β)) (n : Name) (v w : β) (h : ∀ e ∈ m, e.1 ≠ n) :
    setKey (m ++ [(n, v)]) n w = m ++ [(n, w)] := by
  have := setKey_of_not_mem m n w h
  simp only [setKey] at this ⊢
  rw [List.map_append, this]
  simp


/-! ### the invariant of layer A -/

/-- (name, id) of every live manager, creation order -/
def keys (ms : List Obj) : List (Name × Nat) := ms.map (fun o => (o.name, o.id))

def mapOf (ms : List Obj) : List (Name × Option Nat) := ms.map (fun o => (o.name, some o.id))

/-- Between two operations of a single-threaded program: the object map, the router's handler map and the set of
live managers describe the same objects in the same order; names and ids are unique; nothing was released twice
and no live manager has been released. -/
structure WF (c : Ctx) : Prop where
  map_eq    : c.objMap = mapOf c.mgrs
  h_eq      : c.handlers = keys c.mgrs
  names     : (c.mgrs.map Obj.name).Nodup
  ids       : (c.mgrs.map Obj.id).Nodup
  ids_lt    : ∀ o ∈ c.mgrs, o.id < c.nextId
  rel_nodup : c.released.Nodup
  rel_lt    : ∀ i ∈ c.released, i < c.nextId
  rel_disj  : ∀ o ∈ c.mgrs, o.id ∉ c.released

theorem WF.congr {c c' : Ctx} (h : WF c) (h1 : c'.objMap = c.objMap) (h2 : c'.handlers = c.handlers)
    (h3 : c'.mgrs = c.mgrs) (h4 : c'.nextId = c.nextId) (h5 : c'.released = c.released) : WF c' := by
  constructor
  · rw [h1, h3]; exact h.map_eq
  · rw [h2, h3]; exact h.h_eq
  · rw [h3]; exact h.names
  · rw [h3]; exact h.ids
  · rw [h3, h4]; exact h.ids_lt
  · rw [h5]; exact h.rel_nodup
  · rw [h5, h4]; exact h.rel_lt
  · rw [h3, h5]; exact h.rel_disj

theorem wf_init (t : Bool) : WF (Ctx.init t) := by
  constructor <;> simp [Ctx.init, mapOf, keys, ctxObj]

theorem nodup_map_inj {α β : Type} (f : α → β) : ∀ (l : List α), (l.map f).Nodup →
    ∀ x ∈ l, ∀ y ∈ l, f x = f y → x = y
  | [], _, x, hx, _, _, _ => by cases hx
  | a :: t, h, x, hx, y, hy, hxy => by
    simp only [List.map_cons, List.nodup_cons, List.mem_map, not_exists, not_and] at h
    simp only [List.mem_cons] at hx hy
    rcases hx with rfl | hx <;> rcases hy with rfl | hy
    · rfl
    · exact absurd hxy.symm (h.1 y hy)
    · exact absurd hxy (h.1 x hx)
    · exact nodup_map_inj f t h.2 x hx y hy hxy

/-- in a well-formed list a name and an id identify the same manager -/
theorem name_iff_id {ms : List Obj} (hn : (ms.map Obj.name).Nodup) (hi : (ms.map Obj.id).Nodup)
    {o o' : Obj} (ho : o ∈ ms) (ho' : o' ∈ ms) : o'.name = o.name ↔ o'.id = o.id := by
  constructor
  · intro h; rw [nodup_map_inj Obj.name ms hn o' ho' o ho h]
  · intro h; rw [nodup_map_inj Obj.id ms hi o' ho' o ho h]


/-! ### lookups in well-formed lists -/

theorem find?_key {α : Type} (f : α → Nat) : ∀ (l : List α), (l.map f).Nodup → ∀ x ∈ l,
    l.find? (fun y => f y == f x) = some x
  | [], _, x, hx => by cases hx
  | a :: t, h, x, hx => by
    simp only [List.map_cons, List.nodup_cons, List.mem_map, not_exists, not_and] at h
    simp only [List.mem_cons] at hx
    rcases hx with rfl | hx
    · simp
    · have hne : f a ≠ f x := fun e => h.1 x hx e.symm
      have hb : (f a == f x) = false := by simp [hne]
      simp only [List.find?_cons, hb]
      exact find?_key f t h.2 x hx

theorem find?_none_of {α : Type} (f : α → Nat) (l : List α) (k : Nat) (h : k ∉ l.map f) :
    l.find? (fun y => f y == k) = none := by
  simp only [List.find?_eq_none, beq_iff_eq]
  intro x hx e
  exact h (e ▸ List.mem_map_of_mem (f := f) hx)

theorem keys_find {ms : List Obj} (hn : (ms.map Obj.name).Nodup) {o : Obj} (ho : o ∈ ms) :
    (keys ms).find? (fun e => e.1 == o.name) = some (o.name, o.id) := by
  have := find?_key Obj.name ms hn o ho
  simp only [keys, List.find?_map]
  have e : ((fun e : Name × Nat => e.1 == o.name) ∘ fun o : Obj => (o.name, o.id)) = fun y => y.name == o.name := rfl
  rw [e, this]; rfl

theorem keys_find_none {ms : List Obj} {n : Name} (hn : n ∉ ms.map Obj.name) :
    (keys ms).find? (fun e => e.1 == n) = none := by
  have := find?_none_of Obj.name ms n hn
  simp only [keys, List.find?_map]
  have e : ((fun e : Name × Nat => e.1 == n) ∘ fun o : Obj => (o.name, o.id)) = fun y => y.name == n := rfl
  rw [e, this]; rfl

theorem lookupId_mapOf {ms : List Obj} (hn : (ms.map Obj.name).Nodup) {o : Obj} (ho : o ∈ ms) :
    lookupId (mapOf ms) o.name = some o.id := by
  have := find?_key Obj.name ms hn o ho
  simp only [lookupId, mapOf, List.find?_map]
  have e : ((fun e : Name × Option Nat => e.1 == o.name) ∘ fun o : Obj => (o.name, some o.id)) = fun y => y.name == o.name := rfl
  rw [e, this]; rfl

theorem lookupId_mapOf_none {ms : List Obj} {n : Name} (hn : n ∉ ms.map Obj.name) :
    lookupId (mapOf ms) n = none := by
  have := find?_none_of Obj.name ms n hn
  simp only [lookupId, mapOf, List.find?_map]
  have e : ((fun e : Name × Option Nat => e.1 == n) ∘ fun o : Obj => (o.name, some o.id)) = fun y => y.name == n := rfl
  rw [e, this]; rfl

theorem lookupId_some_mem {ms : List Obj} {n : Name} {i : Nat} (h : lookupId (mapOf ms) n = some i) :
    ∃ o ∈ ms, o.name = n ∧ o.id = i := by
  simp only [lookupId, mapOf, List.find?_map] at h
  cases hf : ms.find? ((fun e : Name × Option Nat => e.1 == n) ∘ fun o : Obj => (o.name, some o.id)) with
  | none => simp [hf] at h
  | some o =>
    simp only [hf, Option.map_some] at h
    have hm := List.mem_of_find?_eq_some hf
    have hp := List.find?_some hf
    simp only [Function.comp, beq_iff_eq] at hp
    refine ⟨o, hm, hp, ?_⟩
    simpa using h

theorem findMgr_mem {c : Ctx} (hi : (c.mgrs.map Obj.id).Nodup) {o : Obj} (ho : o ∈ c.mgrs) :
    findMgr c o.id = some o := find?_key Obj.id c.mgrs hi o ho

theorem hasKey_mapOf {ms : List Obj} {n : Name} : hasKey (mapOf ms) n = true ↔ n ∈ ms.map Obj.name := by
  simp only [hasKey, mapOf, List.any_eq_true, List.mem_map, beq_iff_eq]
  constructor
  · rintro ⟨e, ⟨o, ho, rfl⟩, h⟩; exact ⟨o, ho, h⟩
  · rintro ⟨o, ho, h⟩; exact ⟨_, ⟨o, ho, rfl⟩, h⟩

theorem hasKey_keys {ms : List Obj} {n : Name} : hasKey (keys ms) n = true ↔ n ∈ ms.map Obj.name := by
  simp only [hasKey, keys, List.any_eq_true, List.mem_map, beq_iff_eq]
  constructor
  · rintro ⟨e, ⟨o, ho, rfl⟩, h⟩; exact ⟨o, ho, h⟩
  · rintro ⟨o, ho, h⟩; exact ⟨_, ⟨o, ho, rfl⟩, h⟩

theorem setKey_cons {β : Type} (e : Name × β) (t : List (Name × β)) (n : Name) (v : β) :
    setKey (e :: t) n v = (if e.1 == n then (n, v) else e) :: setKey t n v := rfl

theorem delKey_cons {β : Type} (e : Name × β) (t : List (Name × β)) (n : Name) :
    delKey (e :: t) n = if e.1 != n then e :: delKey t n else delKey t n := by
  simp only [delKey, List.filter_cons]

theorem delKey_setKey {β : Type} (m : List (Name × β)) (n : Name) (v : β) : delKey (setKey m n v) n = delKey m n := by
  induction m with
  | nil => rfl
  | cons e t ih =>
    rw [setKey_cons, delKey_cons, delKey_cons, ih]
    by_cases h : e.1 = n <;> simp [h]

theorem filter_name_eq_filter_id {ms : List Obj} (hn : (ms.map Obj.name).Nodup) (hi : (ms.map Obj.id).Nodup)
    {o : Obj} (ho : o ∈ ms) : ms.filter (fun x => x.name != o.name) = ms.filter (fun x => x.id != o.id) := by
  apply List.filter_congr
  intro x hx
  have := name_iff_id hn hi ho hx
  have hb : (x.name == o.name) = (x.id == o.id) := by
    rw [Bool.eq_iff_iff]; simp only [beq_iff_eq]; exact this
  simp only [bne, hb]

theorem delKey_keys {ms : List Obj} (hn : (ms.map Obj.name).Nodup) (hi : (ms.map Obj.id).Nodup)
    {o : Obj} (ho : o ∈ ms) : delKey (keys ms) o.name = keys (ms.filter (fun x => x.id != o.id)) := by
  rw [← filter_name_eq_filter_id hn hi ho]
  simp only [delKey, keys, List.filter_map]
  rfl

theorem delKey_mapOf {ms : List Obj} (hn : (ms.map Obj.name).Nodup) (hi : (ms.map Obj.id).Nodup)
    {o : Obj} (ho : o ∈ ms) : delKey (mapOf ms) o.name = mapOf (ms.filter (fun x => x.id != o.id)) := by
  rw [← filter_name_eq_filter_id hn hi ho]
  simp only [delKey, mapOf, List.filter_map]
  rfl


/-! ### what the operations do to a well-formed context -/

theorem remove_live {c : Ctx} (h : WF c) {o : Obj} (ho : o ∈ c.mgrs) :
    remove c o.name =
      ({ c with objMap := mapOf (c.mgrs.filter (fun x => x.id != o.id)),
                handlers := keys (c.mgrs.filter (fun x => x.id != o.id)),
                mgrs := c.mgrs.filter (fun x => x.id != o.id),
                released := c.released ++ [o.id],
                leftOpen := c.leftOpen ++ leftOpenOf o,
                log := c.log ++ [.unreg o.name o.id] ++ relEvents o }, .ok) := by
  have hl : lookupId c.objMap o.name = some o.id := by rw [h.map_eq]; exact lookupId_mapOf h.names ho
  have hf : c.handlers.find? (fun e => e.1 == o.name) = some (o.name, o.id) := by
    rw [h.h_eq]; exact keys_find h.names ho
  have hm : c.mgrs.find? (fun x => x.id == o.id) = some o := find?_key Obj.id c.mgrs h.ids o ho
  have e1 : delKey c.handlers o.name = keys (c.mgrs.filter (fun x => x.id != o.id)) := by
    rw [h.h_eq]; exact delKey_keys h.names h.ids ho
  have e2 : delKey (setKey c.objMap o.name none) o.name = mapOf (c.mgrs.filter (fun x => x.id != o.id)) := by
    rw [delKey_setKey, h.map_eq]; exact delKey_mapOf h.names h.ids ho
  simp only [remove, hl, unregister, hf, beq_self_eq_true, if_true, delName, findMgr, hm, mgrStop, e1, e2,
    List.append_assoc, List.cons_append, List.nil_append]


theorem remove_absent {c : Ctx} (h : WF c) {n : Name} (hn : n ∉ c.mgrs.map Obj.name) :
    remove c n = (c, .exc .unknownName) := by
  have hl : lookupId c.objMap n = none := by rw [h.map_eq]; exact lookupId_mapOf_none hn
  simp only [remove, hl]

def newObj (c : Ctx) (k : Kind) (n : Name) (relF : Bool) (runB : RunB) : Obj :=
  { id := c.nextId, name := n, kind := k, relF, runB, isOpen := false, ts := .ready, started := false }

theorem make_ok {c : Ctx} (h : WF c) (ha : c.active = true) {n : Name} (hn : n ∉ c.mgrs.map Obj.name)
    (k : Kind) (rf : Bool) (rb : RunB) :
    make c k n true false rf rb =
      ({ c with nextId := c.nextId + 1,
                objMap := c.objMap ++ [(n, some c.nextId)],
                handlers := c.handlers ++ [(n, c.nextId)],
                mgrs := c.mgrs ++ [newObj c k n rf rb],
                log := c.log ++ [.reg n c.nextId] }, .ok) := by
  have h1 : hasKey c.objMap n = false := by
    rw [h.map_eq, Bool.eq_false_iff]; intro e; exact hn (hasKey_mapOf.1 e)
  have h2 : hasKey c.handlers n = false := by
    rw [h.h_eq, Bool.eq_false_iff]; intro e; exact hn (hasKey_keys.1 e)
  have h3 : setKey (c.objMap ++ [(n, (none : Option Nat))]) n (some c.nextId) = c.objMap ++ [(n, some c.nextId)] :=
    setKey_append_self _ _ _ _ ((hasKey_false_iff _ _).1 h1)
  simp only [make, mkReserve, ha, h1, mkConstruct, mkPublish, register, h2, h3, newObj, Bool.not_true, Bool.not_false,
    if_true, if_false, Bool.false_eq_true]

theorem step_make_ok {c : Ctx} (h : WF c) (ha : c.active = true) {n : Name} (hn : n ∉ c.mgrs.map Obj.name)
    (k : Kind) (rf : Bool) (rb : RunB) : (step c (.make k n true false rf rb)).2 = .ok := by
  have h0 : WF { c with log := [] } := h.congr rfl rfl rfl rfl rfl
  show (make { c with log := [] } k n true false rf rb).2 = .ok
  rw [make_ok h0 ha hn]

theorem make_ctor_fail {c : Ctx} (ha : c.active = true) {n : Name} (h1 : hasKey c.objMap n = false)
    (k : Kind) (rf : Bool) (rb : RunB) :
    make c k n true true rf rb =
      ({ c with nextId := c.nextId + 1, log := c.log ++ [.join c.nextId] }, .exc (ctorExc k)) := by
  have h3 : delKey (c.objMap ++ [(n, (none : Option Nat))]) n = c.objMap :=
    delKey_append_self _ _ _ ((hasKey_false_iff _ _).1 h1)
  simp only [make, mkReserve, ha, h1, mkConstruct, mgrStopFailed, delName, h3, Bool.not_true, Bool.not_false,
    if_true, if_false, Bool.false_eq_true]

theorem make_dup {c : Ctx} (ha : c.active = true) {n : Name} (h1 : hasKey c.objMap n = true)
    (k : Kind) (cf rf : Bool) (rb : RunB) : make c k n true cf rf rb = (c, .exc .duplicate) := by
  simp only [make, mkReserve, ha, h1, Bool.not_true, if_true, if_false, Bool.false_eq_true]

theorem make_inactive {c : Ctx} (ha : c.active = false) (k : Kind) (n : Name) (cf rf : Bool) (rb : RunB) :
    make c k n true cf rf rb = (c, .exc .invalidOp) := by
  simp only [make, mkReserve, ha, Bool.not_true, Bool.not_false, if_true, if_false, Bool.false_eq_true]

theorem make_invalid (c : Ctx) (k : Kind) (n : Name) (cf rf : Bool) (rb : RunB) :
    make c k n false cf rf rb = (c, .exc .usage) := by
  simp only [make, Bool.not_false, if_true]


def stopEvents : List Obj → List Ev
  | [] => []
  | o :: r => [.unreg o.name o.id] ++ relEvents o ++ stopEvents r

/-- the manager loop of `stop()` on a state whose handler map and manager list describe exactly `ms` -/
theorem stopManagers_all : ∀ (ms : List Obj) (c : Ctx), c.handlers = keys ms → c.mgrs = ms →
    (ms.map Obj.name).Nodup → (ms.map Obj.id).Nodup →
    stopManagers c (keys ms) =
      ({ c with handlers := [], mgrs := [], released := c.released ++ ms.map Obj.id,
                leftOpen := c.leftOpen ++ ms.flatMap leftOpenOf,
                log := c.log ++ stopEvents ms }, .ok)
  | [], c, hh, hm, _, _ => by
    simp only [keys, List.map_nil] at hh
    simp only [keys, List.map_nil, stopManagers, stopEvents, List.append_nil, List.flatMap_nil]
    rw [← hh, ← hm]
  | o :: r, c, hh, hm, hn, hi => by
    have ho : o ∈ c.mgrs := by rw [hm]; exact List.mem_cons_self
    have hn' : (c.mgrs.map Obj.name).Nodup := by rw [hm]; exact hn
    have hi' : (c.mgrs.map Obj.id).Nodup := by rw [hm]; exact hi
    have hf : c.handlers.find? (fun e => e.1 == o.name) = some (o.name, o.id) := by
      rw [hh, ← hm]; exact keys_find hn' ho
    have hmg : c.mgrs.find? (fun x => x.id == o.id) = some o := find?_key Obj.id c.mgrs hi' o ho
    have hfil : c.mgrs.filter (fun x => x.id != o.id) = r := by
      rw [hm]
      simp only [List.map_cons, List.nodup_cons, List.mem_map, not_exists, not_and] at hi
      simp only [List.filter_cons, bne_self_eq_false, Bool.false_eq_true, if_false, List.filter_eq_self]
      intro x hx
      have := hi.1 x hx
      simpa [bne_iff_ne] using this
    have e1 : delKey c.handlers o.name = keys r := by
      rw [hh, ← hm, delKey_keys hn' hi' ho, hfil]
    simp only [List.map_cons, List.nodup_cons] at hn hi
    have ih := stopManagers_all r
      { c with handlers := keys r, released := c.released ++ [o.id], mgrs := r,
               leftOpen := c.leftOpen ++ leftOpenOf o,
               log := c.log ++ [.unreg o.name o.id] ++ relEvents o } rfl rfl hn.2 hi.2
    simp only [keys, List.map_cons] at ih ⊢
    simp only [stopManagers, unregister, hf, beq_self_eq_true, if_true, findMgr, hmg, mgrStop, hfil]
    simp only [keys] at e1
    rw [e1, ih]
    simp only [stopEvents, List.map_cons, List.append_assoc, List.cons_append, List.nil_append, List.flatMap_cons]


theorem filterMap_mapOf (ms : List Obj) :
    (mapOf ms).filterMap (fun e => match e.2 with | some i => some (e.1, i) | none => none) = keys ms := by
  induction ms with
  | nil => rfl
  | cons o r ih => simp only [mapOf, keys, List.map_cons, List.filterMap_cons] at ih ⊢; rw [ih]

theorem filter_isNone_mapOf (ms : List Obj) : (mapOf ms).filter (fun e => e.2.isNone) = [] := by
  induction ms with
  | nil => rfl
  | cons o r ih => simp only [mapOf, List.map_cons, List.filter_cons] at ih ⊢; simpa using ih

/-- `stop()` of an active, well-formed context whose stop handlers raise at most `Exception`s -/
theorem stop_ok {c : Ctx} (h : WF c) (ha : c.active = true) (hb : firstBase c.stopH 0 = none) :
    stop c =
      ({ c with hcalls := c.hcalls.map (· + 1), conns := [], routerUp := false, tcpSet := false, active := false,
                objMap := [], handlers := [], mgrs := [],
                released := c.released ++ c.mgrs.map Obj.id,
                leftOpen := c.leftOpen ++ c.mgrs.flatMap leftOpenOf,
                log := c.log ++ (List.range c.stopH.length).map Ev.handler ++ stopEvents c.mgrs }, .ok) := by
  have hc : collect c = keys c.mgrs := by
    simp only [collect]; rw [h.map_eq]; exact filterMap_mapOf _
  have hf : c.objMap.filter (fun e => e.2.isNone) = [] := by rw [h.map_eq]; exact filter_isNone_mapOf _
  simp only [stop, stopHead, ha, hb, stopRpcObjects, stopCollect, collect, Bool.not_true, if_false, Bool.false_eq_true]
  simp only [collect] at hc
  rw [hc, hf]
  exact stopManagers_all c.mgrs _ h.h_eq rfl h.names h.ids


/-! ### the invariant is preserved by every operation -/

theorem mem_names_iff {c : Ctx} {n : Name} : n ∈ c.mgrs.map Obj.name ↔ ∃ o ∈ c.mgrs, o.name = n := by
  simp [List.mem_map]

theorem wf_make {c : Ctx} (h : WF c) (k : Kind) (n : Name) (v cf rf : Bool) (rb : RunB) :
    WF (make c k n v cf rf rb).1 := by
  cases v with
  | false => rw [make_invalid]; exact h
  | true =>
    cases ha : c.active with
    | false => rw [make_inactive ha]; exact h
    | true =>
      by_cases hn : n ∈ c.mgrs.map Obj.name
      · have : hasKey c.objMap n = true := by rw [h.map_eq]; exact hasKey_mapOf.2 hn
        rw [make_dup ha this]; exact h
      · have h1 : hasKey c.objMap n = false := by
          rw [h.map_eq, Bool.eq_false_iff]; intro e; exact hn (hasKey_mapOf.1 e)
        cases cf with
        | true =>
          rw [make_ctor_fail ha h1]
          exact ⟨h.map_eq, h.h_eq, h.names, h.ids, fun o ho => Nat.lt_succ_of_lt (h.ids_lt o ho), h.rel_nodup,
            fun i hi => Nat.lt_succ_of_lt (h.rel_lt i hi), h.rel_disj⟩
        | false =>
          rw [make_ok h ha hn]
          have hid : c.nextId ∉ c.mgrs.map Obj.id := by
            intro e
            obtain ⟨o, ho, e⟩ := List.mem_map.1 e
            exact absurd (h.ids_lt o ho) (by omega)
          refine ⟨?_, ?_, ?_, ?_, ?_, h.rel_nodup, fun i hi => Nat.lt_succ_of_lt (h.rel_lt i hi), ?_⟩
          · simp only [mapOf, List.map_append, List.map_cons, List.map_nil, newObj]; rw [h.map_eq]; rfl
          · simp only [keys, List.map_append, List.map_cons, List.map_nil, newObj]; rw [h.h_eq]; rfl
          · simp only [List.map_append, List.map_cons, List.map_nil, newObj]
            rw [List.nodup_append]
            refine ⟨h.names, by simp, ?_⟩
            intro a ha' b hb'
            simp only [List.mem_singleton] at hb'
            subst hb'
            intro e; exact hn (e ▸ ha')
          · simp only [List.map_append, List.map_cons, List.map_nil, newObj]
            rw [List.nodup_append]
            refine ⟨h.ids, by simp, ?_⟩
            intro a ha' b hb'
            simp only [List.mem_singleton] at hb'
            subst hb'
            intro e; exact hid (e ▸ ha')
          · intro o ho
            simp only [List.mem_append, List.mem_singleton] at ho
            rcases ho with ho | rfl
            · exact Nat.lt_succ_of_lt (h.ids_lt o ho)
            · simp [newObj]
          · intro o ho
            simp only [List.mem_append, List.mem_singleton] at ho
            rcases ho with ho | rfl
            · exact h.rel_disj o ho
            · intro e; exact absurd (h.rel_lt _ e) (by simp [newObj])

theorem wf_filter {c : Ctx} (h : WF c) {o : Obj} (ho : o ∈ c.mgrs) (l : List Ev) (lo : List Nat) :
    WF { c with objMap := mapOf (c.mgrs.filter (fun x => x.id != o.id)),
                handlers := keys (c.mgrs.filter (fun x => x.id != o.id)),
                mgrs := c.mgrs.filter (fun x => x.id != o.id),
                released := c.released ++ [o.id], leftOpen := lo, log := l } := by
  refine ⟨rfl, rfl, ?_, ?_, ?_, ?_, ?_, ?_⟩
  · exact (h.names.sublist ((List.filter_sublist).map Obj.name))
  · exact (h.ids.sublist ((List.filter_sublist).map Obj.id))
  · intro x hx; exact h.ids_lt x ((List.mem_filter.1 hx).1)
  · show (c.released ++ [o.id]).Nodup
    rw [List.nodup_append]
    refine ⟨h.rel_nodup, by simp, ?_⟩
    intro a ha b hb
    simp only [List.mem_singleton] at hb
    subst hb
    intro e; exact h.rel_disj o ho (e ▸ ha)
  · intro i hi
    simp only [List.mem_append, List.mem_singleton] at hi
    rcases hi with hi | rfl
    · exact h.rel_lt i hi
    · exact h.ids_lt o ho
  · intro x hx
    have hx' := (List.mem_filter.1 hx).1
    have hne : x.id ≠ o.id := by
      have := (List.mem_filter.1 hx).2
      simpa [bne_iff_ne] using this
    simp only [List.mem_append, List.mem_singleton, not_or]
    exact ⟨h.rel_disj x hx', hne⟩

theorem wf_remove {c : Ctx} (h : WF c) (n : Name) : WF (remove c n).1 := by
  by_cases hn : n ∈ c.mgrs.map Obj.name
  · obtain ⟨o, ho, rfl⟩ := List.mem_map.1 hn
    rw [remove_live h ho]
    exact wf_filter h ho _ _
  · rw [remove_absent h hn]; exact h


def updF (i : Nat) (f : Obj → Obj) (o : Obj) : Obj := if o.id == i then f o else o

theorem updMgr_eq (c : Ctx) (i : Nat) (f : Obj → Obj) : updMgr c i f = { c with mgrs := c.mgrs.map (updF i f) } := rfl

theorem updF_keeps {i : Nat} {f : Obj → Obj} (hf : ∀ o, (f o).name = o.name ∧ (f o).id = o.id) (o : Obj) :
    (updF i f o).name = o.name ∧ (updF i f o).id = o.id := by
  by_cases e : (o.id == i) = true
  · rw [updF, if_pos e]; exact hf o
  · rw [updF, if_neg e]; exact ⟨rfl, rfl⟩

theorem wf_updMgr {c : Ctx} (h : WF c) (i : Nat) (f : Obj → Obj)
    (hf : ∀ o, (f o).name = o.name ∧ (f o).id = o.id) : WF (updMgr c i f) := by
  have g := updF_keeps (i := i) hf
  have e1 : mapOf (c.mgrs.map (updF i f)) = mapOf c.mgrs := by
    simp only [mapOf, List.map_map]; apply List.map_congr_left; intro o _
    show ((updF i f o).name, some (updF i f o).id) = (o.name, some o.id)
    rw [(g o).1, (g o).2]
  have e2 : keys (c.mgrs.map (updF i f)) = keys c.mgrs := by
    simp only [keys, List.map_map]; apply List.map_congr_left; intro o _
    show ((updF i f o).name, (updF i f o).id) = (o.name, o.id)
    rw [(g o).1, (g o).2]
  have e3 : (c.mgrs.map (updF i f)).map Obj.name = c.mgrs.map Obj.name := by
    simp only [List.map_map]; apply List.map_congr_left; intro o _; exact (g o).1
  have e4 : (c.mgrs.map (updF i f)).map Obj.id = c.mgrs.map Obj.id := by
    simp only [List.map_map]; apply List.map_congr_left; intro o _; exact (g o).2
  rw [updMgr_eq]
  refine ⟨?_, ?_, ?_, ?_, ?_, h.rel_nodup, h.rel_lt, ?_⟩
  · show c.objMap = mapOf (c.mgrs.map (updF i f)); rw [e1]; exact h.map_eq
  · show c.handlers = keys (c.mgrs.map (updF i f)); rw [e2]; exact h.h_eq
  · show (List.map Obj.name (c.mgrs.map (updF i f))).Nodup; rw [e3]; exact h.names
  · show (List.map Obj.id (c.mgrs.map (updF i f))).Nodup; rw [e4]; exact h.ids
  · intro o ho
    obtain ⟨o', ho', rfl⟩ := List.mem_map.1 ho
    rw [(g o').2]; exact h.ids_lt o' ho'
  · intro o ho
    obtain ⟨o', ho', rfl⟩ := List.mem_map.1 ho
    rw [(g o').2]; exact h.rel_disj o' ho'

theorem wf_iopen {c : Ctx} (h : WF c) (n : Name) : WF (iopen c n).1 := by
  unfold iopen
  split
  · exact h
  · split
    · exact h
    · split
      · exact h
      · exact wf_updMgr h _ _ (fun _ => ⟨rfl, rfl⟩)

theorem wf_iclose {c : Ctx} (h : WF c) (n : Name) : WF (iclose c n).1 := by
  unfold iclose
  split
  · exact h
  · split
    · exact h
    · split
      · exact h
      · exact wf_updMgr h _ _ (fun _ => ⟨rfl, rfl⟩)

theorem wf_tstart {c : Ctx} (h : WF c) (n : Name) : WF (tstart c n).1 := by
  unfold tstart
  split
  · exact h
  · split
    · exact h
    · split
      · exact h
      · exact wf_updMgr h _ _ (fun _ => ⟨rfl, rfl⟩)

theorem wf_tjoin {c : Ctx} (h : WF c) (n : Name) : WF (tjoin c n).1 := by
  unfold tjoin
  split
  · exact h
  · split
    · exact h
    · exact wf_updMgr h _ _ (fun _ => ⟨rfl, rfl⟩)

theorem wf_start {c : Ctx} (h : WF c) (t u : Bool) : WF (start c t u).1 := by
  cases hA : c.active <;> cases hU : c.used <;> cases hR : c.routerUp <;> cases hT : c.cfgTcp <;> cases t <;> cases u <;>
    simp [start, hA, hU, hR, hT] <;> exact h.congr rfl rfl rfl rfl rfl

theorem wf_stop {c : Ctx} (h : WF c) : WF (stop c).1 := by
  cases ha : c.active with
  | false => simp only [stop, stopHead, ha, Bool.not_false, if_true]; exact h
  | true =>
    cases hb : firstBase c.stopH 0 with
    | some i =>
      simp only [stop, stopHead, ha, hb, stopAborted, Bool.not_true, if_false, Bool.false_eq_true]
      exact h.congr rfl rfl rfl rfl rfl
    | none =>
      rw [stop_ok h ha hb]
      refine ⟨rfl, rfl, by simp, by simp, by simp, ?_, ?_, by simp⟩
      · show (c.released ++ c.mgrs.map Obj.id).Nodup
        rw [List.nodup_append]
        refine ⟨h.rel_nodup, h.ids, ?_⟩
        intro a ha' b hb' e
        obtain ⟨o, ho, rfl⟩ := List.mem_map.1 hb'
        exact h.rel_disj o ho (e ▸ ha')
      · intro i hi
        simp only [List.mem_append] at hi
        rcases hi with hi | hi
        · exact h.rel_lt i hi
        · obtain ⟨o, ho, rfl⟩ := List.mem_map.1 hi
          exact h.ids_lt o ho

theorem wf_step {c : Ctx} (h : WF c) (op : Op) : WF (step c op).1 := by
  have h0 : WF { c with log := [] } := h.congr rfl rfl rfl rfl rfl
  cases op with
  | make k n v cf rf rb => exact wf_make h0 k n v cf rf rb
  | remove n => exact wf_remove h0 n
  | removeForeign => exact h0
  | get n => exact h0
  | call n => exact h0
  | iopen n => exact wf_iopen h0 n
  | iclose n => exact wf_iclose h0 n
  | tstart n => exact wf_tstart h0 n
  | tjoin n => exact wf_tjoin h0 n
  | addH f => exact h0.congr rfl rfl rfl rfl rfl
  | start t u => exact wf_start h0 t u
  | stop => exact wf_stop h0

theorem wf_run {c : Ctx} (h : WF c) (ops : List Op) : WF (run c ops) := by
  induction ops generalizing c with
  | nil => exact h
  | cons op ops ih => exact ih (wf_step h op)


/-! ### a stopped context stays stopped; flags -/

/-- what `stop()` leaves: inactive, used, nothing registered, nothing alive -/
structure Stopped (c : Ctx) : Prop where
  inactive : c.active = false
  used     : c.used = true
  h_empty  : c.handlers = []
  m_empty  : c.mgrs = []
  map_empty : c.objMap = []
  conns_empty : c.conns = []
  router_down : c.routerUp = false

theorem reach_of_stopped {c : Ctx} (h : Stopped c) (n : Name) : reach c n = .error (.exc .delivery) := by
  simp only [reach, h.h_empty, List.find?_nil]

theorem stopped_step {c : Ctx} (h : Stopped c) (op : Op) : Stopped (step c op).1 := by
  have h0 : Stopped { c with log := [] } := ⟨h.1, h.2, h.3, h.4, h.5, h.6, h.7⟩
  have hr := reach_of_stopped h0
  cases op with
  | make k n v cf rf rb =>
    cases v with
    | false => simp only [step, make_invalid]; exact h0
    | true => simp only [step]; rw [make_inactive h0.inactive]; exact h0
  | remove n =>
    have : remove { c with log := [] } n = ({ c with log := [] }, .exc .unknownName) := by
      simp [remove, lookupId, h.map_empty]
    simp only [step, this]; exact h0
  | removeForeign => exact h0
  | get n => exact h0
  | call n => exact h0
  | iopen n => simp only [step, iopen, hr]; exact h0
  | iclose n => simp only [step, iclose, hr]; exact h0
  | tstart n => simp only [step, tstart, hr]; exact h0
  | tjoin n => simp only [step, tjoin, hr]; exact h0
  | addH f => exact ⟨h.1, h.2, h.3, h.4, h.5, h.6, h.7⟩
  | start t u =>
    have : start { c with log := [] } t u = ({ c with log := [] }, .exc .usage) := by
      simp [start, h.inactive, h.used]
    simp only [step, this]; exact h0
  | stop =>
    have : stop { c with log := [] } = ({ c with log := [] }, .exc .usage) := by
      simp [stop, stopHead, h.inactive]
    simp only [step, this]; exact h0

theorem stopped_run {c : Ctx} (h : Stopped c) (ops : List Op) : Stopped (run c ops) := by
  induction ops generalizing c with
  | nil => exact h
  | cons op ops ih => exact ih (stopped_step h op)

theorem stopped_of_stop {c : Ctx} (h : WF c) (ha : c.active = true) (hu : c.used = true) (hb : firstBase c.stopH 0 = none) :
    Stopped (stop c).1 := by
  rw [stop_ok h ha hb]; exact ⟨rfl, hu, rfl, rfl, rfl, rfl, rfl⟩


/-! ### lifecycle flags are only touched by `start` and `stop` -/

structure Flags where
  active : Bool
  used : Bool
  routerUp : Bool
  conns : List Conn
  cfgTcp : Bool
  tcpSet : Bool
  stopH : List HF
  deriving DecidableEq

def Ctx.flags (c : Ctx) : Flags :=
  { active := c.active, used := c.used, routerUp := c.routerUp, conns := c.conns, cfgTcp := c.cfgTcp, tcpSet := c.tcpSet,
    stopH := c.stopH }

theorem flags_mkReserve {c c1 : Ctx} {n : Name} (h : mkReserve c n = .ok c1) : c1.flags = c.flags := by
  unfold mkReserve at h
  split at h
  · cases h
  · split at h
    · cases h
    · cases h; rfl

theorem flags_mkPublish {c c1 : Ctx} {n : Name} {o : Obj} (h : mkPublish c n o = .ok c1) : c1.flags = c.flags := by
  unfold mkPublish at h
  split at h
  · cases h
  · cases h; rfl

theorem flags_register {c c1 : Ctx} {n : Name} {i : Nat} (h : register c n i = .ok c1) : c1.flags = c.flags := by
  unfold register at h
  split at h
  · cases h
  · cases h; rfl

theorem flags_unregister {c c1 : Ctx} {n : Name} {i : Nat} (h : unregister c n i = .ok c1) : c1.flags = c.flags := by
  unfold unregister at h
  split at h
  · split at h
    · cases h; rfl
    · cases h
  · cases h

theorem flags_mkConstruct (c : Ctx) (k : Kind) (n : Name) (cf rf : Bool) (rb : RunB) :
    (mkConstruct c k n cf rf rb).1.flags = c.flags := by
  unfold mkConstruct
  cases cf <;> rfl

theorem flags_make (c : Ctx) (k : Kind) (n : Name) (v cf rf : Bool) (rb : RunB) :
    (make c k n v cf rf rb).1.flags = c.flags := by
  unfold make
  split
  · rfl
  · split
    · rfl
    · rename_i c1 h1
      have f1 := flags_mkReserve h1
      have f2 := flags_mkConstruct c1 k n cf rf rb
      split
      · rename_i c2 h2
        rw [h2] at f2
        show c2.flags = c.flags
        rw [← f1]; exact f2
      · rename_i c2 o h2
        rw [h2] at f2
        split
        · show c2.flags = c.flags
          rw [← f1]; exact f2
        · rename_i c3 h3
          have f3 := flags_mkPublish h3
          split
          · show c3.flags = c.flags
            rw [f3, ← f1]; exact f2
          · rename_i c4 h4
            have f4 := flags_register h4
            show c4.flags = c.flags
            rw [f4, f3, ← f1]; exact f2

theorem flags_remove (c : Ctx) (n : Name) : (remove c n).1.flags = c.flags := by
  unfold remove
  split
  · rfl
  · dsimp only
    split
    · rfl
    · rename_i c2 h2
      have f2 := flags_unregister h2
      split
      · show c2.flags = _; rw [f2]; rfl
      · show c2.flags = _; rw [f2]; rfl

theorem flags_iopen (c : Ctx) (n : Name) : (iopen c n).1.flags = c.flags := by
  unfold iopen; repeat' split
  all_goals rfl

theorem flags_iclose (c : Ctx) (n : Name) : (iclose c n).1.flags = c.flags := by
  unfold iclose; repeat' split
  all_goals rfl

theorem flags_tstart (c : Ctx) (n : Name) : (tstart c n).1.flags = c.flags := by
  unfold tstart; repeat' split
  all_goals rfl

theorem flags_tjoin (c : Ctx) (n : Name) : (tjoin c n).1.flags = c.flags := by
  unfold tjoin; repeat' split
  all_goals rfl

/-- operations other than `start` / `stop` leave the lifecycle state (flags, router, sockets) alone -/
theorem flags_step (c : Ctx) (op : Op) (h1 : ∀ t u, op ≠ .start t u) (h2 : op ≠ .stop) (h3 : ∀ f, op ≠ .addH f) :
    (step c op).1.flags = c.flags := by
  cases op with
  | make k n v cf rf rb => exact flags_make _ k n v cf rf rb
  | remove n => exact flags_remove _ n
  | removeForeign => rfl
  | get n => rfl
  | call n => rfl
  | iopen n => exact flags_iopen _ n
  | iclose n => exact flags_iclose _ n
  | tstart n => exact flags_tstart _ n
  | tjoin n => exact flags_tjoin _ n
  | addH f => exact absurd rfl (h3 f)
  | start t u => exact absurd rfl (h1 t u)
  | stop => exact absurd rfl h2


theorem flags_stopManagers : ∀ (l : List (Name × Nat)) (d : Ctx), (stopManagers d l).1.flags = d.flags
  | [], d => rfl
  | (n, i) :: l, d => by
    unfold stopManagers
    split
    · rfl
    · rename_i d1 hd1
      have f := flags_unregister hd1
      split
      · rename_i o ho
        rw [flags_stopManagers l (mgrStop d1 o)]
        exact f
      · exact f

/-- `stop()` never sets `active` and never touches `used` -/
theorem stop_used_active (c : Ctx) : (stop c).1.used = c.used ∧ ((stop c).1.active = true → c.active = true) := by
  cases hA : c.active with
  | false => simp [stop, stopHead, hA]
  | true =>
    cases hB : firstBase c.stopH 0 with
    | some i => simp [stop, stopHead, hA, hB, stopAborted]
    | none =>
      simp only [stop, stopHead, hA, hB, Bool.not_true, if_false, Bool.false_eq_true, stopRpcObjects, stopCollect]
      have f := flags_stopManagers
        (collect { c with hcalls := c.hcalls.map (· + 1), conns := [], routerUp := false, tcpSet := false,
                          log := c.log ++ (List.range c.stopH.length).map Ev.handler })
        { c with hcalls := c.hcalls.map (· + 1), conns := [], routerUp := false, tcpSet := false,
                 log := c.log ++ (List.range c.stopH.length).map Ev.handler, active := false,
                 objMap := c.objMap.filter (fun e => e.2.isNone) }
      exact ⟨congrArg Flags.used f, fun _ => trivial⟩

/-- `used` is set together with `active` and never cleared -/
theorem used_of_active_step {c : Ctx} (h : c.active = true → c.used = true) (op : Op) :
    (step c op).1.active = true → (step c op).1.used = true := by
  by_cases h1 : ∃ t u, op = .start t u
  · obtain ⟨t, u, rfl⟩ := h1
    cases hA : c.active <;> cases hU : c.used <;> cases hR : c.routerUp <;> cases hT : c.cfgTcp <;> cases t <;> cases u <;>
      simp_all [step, start, routerStop]
  · by_cases h2 : op = .stop
    · subst h2
      intro hact
      have := stop_used_active { c with log := [] }
      show (stop { c with log := [] }).1.used = true
      rw [this.1]; exact h (this.2 hact)
    · by_cases h3 : ∃ f, op = .addH f
      · obtain ⟨f, rfl⟩ := h3; exact h
      have f := flags_step c op (fun t u e => h1 ⟨t, u, e⟩) h2 (fun f e => h3 ⟨f, e⟩)
      intro hact
      have a1 : (step c op).1.active = c.active := congrArg Flags.active f
      have a2 : (step c op).1.used = c.used := congrArg Flags.used f
      rw [a2]; exact h (a1 ▸ hact)


/-! ### layer B: the good states -/

/-- no singleton, or an active well-formed one whose stop handlers raise at most `Exception`s -/
def GoodP (p : Proc) : Prop :=
  p.single = none ∨ ∃ c, p.single = some c ∧ WF c ∧ c.active = true ∧ firstBase c.stopH 0 = none

/-- operations that cannot leave the good states -/
def Harmless : POp → Prop
  | .op .stop => False
  | .op (.addH .base) => False
  | _ => True

theorem firstBase_append (l : List HF) (f : HF) (i : Nat) (h : firstBase l i = none) (hf : f ≠ .base) :
    firstBase (l ++ [f]) i = none := by
  induction l generalizing i with
  | nil => cases f <;> simp_all [firstBase]
  | cons a r ih => cases a <;> simp_all [firstBase]

theorem connectPeers_good : ∀ (peers : List Bool) (c : Ctx) (i : Nat), WF c → c.active = true → firstBase c.stopH 0 = none →
    WF (connectPeers c peers i).1 ∧ (connectPeers c peers i).1.active = true ∧ firstBase (connectPeers c peers i).1.stopH 0 = none
  | [], c, i, hw, ha, hb => ⟨hw, ha, hb⟩
  | true :: r, c, i, hw, ha, hb => by
    unfold connectPeers
    exact connectPeers_good r _ _ (hw.congr rfl rfl rfl rfl rfl) ha hb
  | false :: r, c, i, hw, ha, hb => ⟨hw, ha, hb⟩

theorem start_stopH (c : Ctx) (t u : Bool) : (start c t u).1.stopH = c.stopH := by
  cases hA : c.active <;> cases hU : c.used <;> cases hR : c.routerUp <;> cases hT : c.cfgTcp <;> cases t <;> cases u <;>
    simp [start, routerStop, hA, hU, hR, hT]

theorem start_ok_active (c : Ctx) (t u : Bool) (h : (start c t u).2 = .ok) : (start c t u).1.active = true := by
  revert h
  cases hA : c.active <;> cases hU : c.used <;> cases hR : c.routerUp <;> cases hT : c.cfgTcp <;> cases t <;> cases u <;>
    simp [start, routerStop, hA, hU, hR, hT]

theorem qstartFailed_single (p : Proc) (c : Ctx) (o : Out) : (qstartFailed p c o).1.single = none := by
  unfold qstartFailed
  split <;> rfl

theorem goodP_pstep {p : Proc} (hp : GoodP p) {o : POp} (ho : Harmless o) : GoodP (pstep p o).1 := by
  rcases hp with hn | ⟨c, hc, hw, ha, hb⟩
  · cases o with
    | qstart v t tf uf peers lf =>
      cases v with
      | false => left; simp only [pstep, pstep', Proc.clr, hn, Option.map_none, qstart]; rfl
      | true =>
        simp only [pstep, pstep', Proc.clr, hn, Option.map_none, qstart, Bool.not_true, Bool.false_eq_true, if_false]
        cases lf with
        | true => left; simp only [if_true]; exact qstartFailed_single _ _ _
        | false =>
        simp only [Bool.false_eq_true, if_false]
        have hw1 : WF (start (Ctx.init t) tf uf).1 := wf_start (wf_init t) tf uf
        have hst := start_ok_active (Ctx.init t) tf uf
        have hsh : (start (Ctx.init t) tf uf).1.stopH = [] := start_stopH _ _ _
        cases hs : start (Ctx.init t) tf uf with
        | mk c1 o1 =>
          rw [hs] at hw1 hst hsh
          cases o1 with
          | ok =>
            have hg := connectPeers_good peers c1 0 hw1 (hst rfl) (by rw [hsh]; rfl)
            cases hcp : connectPeers c1 peers 0 with
            | mk c2 o2 =>
              rw [hcp] at hg
              cases o2 with
              | ok => right; simp only [hcp]; exact ⟨c2, rfl, hg.1, hg.2.1, hg.2.2⟩
              | exc e => left; simp only [hcp]; exact qstartFailed_single _ _ _
              | hang => left; simp only [hcp]; exact qstartFailed_single _ _ _
          | exc e => left; simp only; exact qstartFailed_single _ _ _
          | hang => left; simp only; exact qstartFailed_single _ _ _
    | qstop => left; simp only [pstep, pstep', Proc.clr, hn, Option.map_none, qstop]
    | qcontext => left; simp only [pstep, pstep', Proc.clr, hn, Option.map_none]
    | op o => left; simp only [pstep, pstep', Proc.clr, hn, Option.map_none]
  · have h0 : WF { c with log := [] } := hw.congr rfl rfl rfl rfl rfl
    cases o with
    | qstart v t tf uf peers lf =>
      right
      simp only [pstep, pstep', Proc.clr, hc, Option.map_some, qstart]
      exact ⟨_, rfl, h0, ha, hb⟩
    | qstop =>
      left
      simp only [pstep, pstep', Proc.clr, hc, Option.map_some, qstop]
      rw [stop_ok h0 ha hb]
    | qcontext =>
      right
      simp only [pstep, pstep', Proc.clr, hc, Option.map_some]
      exact ⟨_, rfl, h0, ha, hb⟩
    | op o =>
      right
      simp only [pstep, pstep', Proc.clr, hc, Option.map_some]
      refine ⟨_, rfl, wf_step h0 o, ?_, ?_⟩
      · by_cases h1 : ∃ t u, o = .start t u
        · obtain ⟨t, u, rfl⟩ := h1
          simp [step, start, ha]
        · by_cases h2 : o = .stop
          · subst h2; exact absurd ho (by simp [Harmless])
          · by_cases h3 : ∃ f, o = .addH f
            · obtain ⟨f, rfl⟩ := h3; exact ha
            · have f := flags_step { c with log := [] } o (fun t u e => h1 ⟨t, u, e⟩) h2 (fun f e => h3 ⟨f, e⟩)
              exact (congrArg Flags.active f).trans ha
      · by_cases h1 : ∃ t u, o = .start t u
        · obtain ⟨t, u, rfl⟩ := h1
          show firstBase (start _ t u).1.stopH 0 = none
          rw [start_stopH]; exact hb
        · by_cases h2 : o = .stop
          · subst h2; exact absurd ho (by simp [Harmless])
          · by_cases h3 : ∃ f, o = .addH f
            · obtain ⟨f, rfl⟩ := h3
              have hf : f ≠ .base := by intro e; subst e; exact absurd ho (by simp [Harmless])
              exact firstBase_append _ _ _ hb hf
            · have f := flags_step { c with log := [] } o (fun t u e => h1 ⟨t, u, e⟩) h2 (fun f e => h3 ⟨f, e⟩)
              have : (step { c with log := [] } o).1.stopH = c.stopH := congrArg Flags.stopH f
              show firstBase (step { c with log := [] } o).1.stopH 0 = none
              rw [this]; exact hb

/-! ### roll-back: what a failed start and `_discard()` leave -/

/-- a context whose router is down owns no socket and has forgotten its TCP port -/
def RouterClean (c : Ctx) : Prop := c.routerUp = false → c.conns = [] ∧ c.tcpSet = false

theorem routerClean_init (t : Bool) : RouterClean (Ctx.init t) := fun _ => ⟨rfl, rfl⟩

theorem stop_flags (c : Ctx) : (stop c).1.flags = c.flags ∨
    ((stop c).1.routerUp = false ∧ (stop c).1.conns = [] ∧ (stop c).1.tcpSet = false) := by
  cases hA : c.active with
  | false => left; simp [stop, stopHead, hA]
  | true =>
    cases hB : firstBase c.stopH 0 with
    | some i => left; simp [stop, stopHead, hA, hB, stopAborted, Ctx.flags]
    | none =>
      right
      simp only [stop, stopHead, hA, hB, Bool.not_true, if_false, Bool.false_eq_true, stopRpcObjects, stopCollect]
      have f := flags_stopManagers
        (collect { c with hcalls := c.hcalls.map (· + 1), conns := [], routerUp := false, tcpSet := false,
                          log := c.log ++ (List.range c.stopH.length).map Ev.handler })
        { c with hcalls := c.hcalls.map (· + 1), conns := [], routerUp := false, tcpSet := false,
                 log := c.log ++ (List.range c.stopH.length).map Ev.handler, active := false,
                 objMap := c.objMap.filter (fun e => e.2.isNone) }
      exact ⟨congrArg Flags.routerUp f, congrArg Flags.conns f, congrArg Flags.tcpSet f⟩

theorem routerClean_step {c : Ctx} (h : RouterClean c) (op : Op) : RouterClean (step c op).1 := by
  by_cases h1 : ∃ t u, op = .start t u
  · obtain ⟨t, u, rfl⟩ := h1
    intro hr
    revert hr h
    unfold RouterClean
    cases hA : c.active <;> cases hU : c.used <;> cases hR : c.routerUp <;> cases hT : c.cfgTcp <;> cases t <;> cases u <;>
      simp [step, start, routerStop, hA, hU, hR, hT]
  · by_cases h2 : op = .stop
    · subst h2
      rcases stop_flags { c with log := [] } with f | f
      · intro hr
        have r1 : (step c .stop).1.routerUp = c.routerUp := congrArg Flags.routerUp f
        have r2 : (step c .stop).1.conns = c.conns := congrArg Flags.conns f
        have r3 : (step c .stop).1.tcpSet = c.tcpSet := congrArg Flags.tcpSet f
        rw [r2, r3]; exact h (r1 ▸ hr)
      · intro _; exact ⟨f.2.1, f.2.2⟩
    · by_cases h3 : ∃ f, op = .addH f
      · obtain ⟨f, rfl⟩ := h3; exact h
      · have f := flags_step c op (fun t u e => h1 ⟨t, u, e⟩) h2 (fun f e => h3 ⟨f, e⟩)
        intro hr
        have r1 : (step c op).1.routerUp = c.routerUp := congrArg Flags.routerUp f
        have r2 : (step c op).1.conns = c.conns := congrArg Flags.conns f
        have r3 : (step c op).1.tcpSet = c.tcpSet := congrArg Flags.tcpSet f
        rw [r2, r3]; exact h (r1 ▸ hr)

theorem routerClean_run {c : Ctx} (h : RouterClean c) (ops : List Op) : RouterClean (run c ops) := by
  induction ops generalizing c with
  | nil => exact h
  | cons op ops ih => exact ih (routerClean_step h op)

/-- `_stop_rpc_objects()` on a well-formed context stops and releases every manager -/
theorem stopRpcObjects_ok {c : Ctx} (h : WF c) :
    stopRpcObjects c =
      ({ c with active := false, objMap := [], handlers := [], mgrs := [],
                released := c.released ++ c.mgrs.map Obj.id, leftOpen := c.leftOpen ++ c.mgrs.flatMap leftOpenOf,
                log := c.log ++ stopEvents c.mgrs }, .ok) := by
  have hc : collect c = keys c.mgrs := by
    simp only [collect]; rw [h.map_eq]; exact filterMap_mapOf _
  have hf : c.objMap.filter (fun e => e.2.isNone) = [] := by rw [h.map_eq]; exact filter_isNone_mapOf _
  simp only [stopRpcObjects, stopCollect, hc, hf]
  exact stopManagers_all c.mgrs _ h.h_eq rfl h.names h.ids

/-- `_discard()` leaves nothing: no thread, handler, name, socket -/
theorem discard_empty {c : Ctx} (h : WF c) (hb : firstBase c.stopH 0 = none)
    (hcl : c.active = false → c.routerUp = false ∧ c.conns = []) :
    (discard c).2 = .ok ∧ (discard c).1.residue = Residue.empty ∧ (discard c).1.threadCount = 0 := by
  cases ha : c.active with
  | true =>
    simp only [discard, ha, if_true]
    rw [stop_ok h ha hb]
    exact ⟨rfl, rfl, rfl⟩
  | false =>
    have h1 : WF { c with used := true } := h.congr rfl rfl rfl rfl rfl
    have e : discard c = stopRpcObjects { c with used := true } := by
      unfold discard; rw [if_neg (by rw [ha]; simp)]
    rw [e, stopRpcObjects_ok h1]
    obtain ⟨hr, hc⟩ := hcl ha
    refine ⟨rfl, ?_, ?_⟩
    · simp only [Ctx.residue, Residue.empty, hr, hc]
    · simp only [Ctx.threadCount, Ctx.threads, hr]
      rfl

/-- what `qmi.start()` hands to `_discard()` is well-formed, has no stop handlers, and is either active or fully rolled back -/
theorem start_init_facts (t tf uf : Bool) :
    WF (start (Ctx.init t) tf uf).1 ∧ (start (Ctx.init t) tf uf).1.stopH = [] ∧
    ((start (Ctx.init t) tf uf).1.active = false →
      (start (Ctx.init t) tf uf).1.routerUp = false ∧ (start (Ctx.init t) tf uf).1.conns = []) := by
  refine ⟨wf_start (wf_init t) tf uf, start_stopH _ _ _, ?_⟩
  cases t <;> cases tf <;> cases uf <;> simp [start, routerStop, Ctx.init]

/-- every context dropped by a failed `qmi.start()` is empty -/
def DroppedEmpty (p : Proc) : Prop := ∀ d ∈ p.dropped, d.residue = Residue.empty ∧ d.threadCount = 0

theorem qstartFailed_dropped {p : Proc} (hp : DroppedEmpty p) {c : Ctx} (h : WF c) (hb : firstBase c.stopH 0 = none)
    (hcl : c.active = false → c.routerUp = false ∧ c.conns = []) (o : Out) :
    DroppedEmpty (qstartFailed p c o).1 ∧ (qstartFailed p c o).2 = o := by
  have hd := discard_empty h hb hcl
  unfold qstartFailed
  cases hdc : discard c with
  | mk d e =>
    rw [hdc] at hd
    simp only at hd
    obtain ⟨he, hr, ht⟩ := hd
    subst he
    simp only
    refine ⟨?_, trivial⟩
    intro x hx
    simp only [List.mem_append, List.mem_singleton] at hx
    rcases hx with hx | rfl
    · exact hp x hx
    · exact ⟨hr, ht⟩

theorem droppedEmpty_pstep {p : Proc} (hp : DroppedEmpty p) (o : POp) : DroppedEmpty (pstep p o).1 := by
  have hclr : DroppedEmpty p.clr := hp
  cases o with
  | qstart v t tf uf peers lf =>
    simp only [pstep, pstep', qstart]
    cases hs : p.clr.single with
    | some c => exact hclr
    | none =>
      simp only
      cases v with
      | false => exact hclr
      | true =>
        simp only [Bool.not_true, Bool.false_eq_true, if_false]
        cases lf with
        | true =>
          simp only [if_true]
          exact (qstartFailed_dropped hclr (wf_init t) rfl (fun _ => ⟨rfl, rfl⟩) _).1
        | false =>
        simp only [Bool.false_eq_true, if_false]
        have hf := start_init_facts t tf uf
        cases hst : start (Ctx.init t) tf uf with
        | mk c1 o1 =>
          rw [hst] at hf
          have hb1 : firstBase c1.stopH 0 = none := by rw [hf.2.1]; rfl
          cases o1 with
          | ok =>
            simp only
            have hact : c1.active = true := by
              have := start_ok_active (Ctx.init t) tf uf (by rw [hst])
              rw [hst] at this; exact this
            have hg := connectPeers_good peers c1 0 hf.1 hact hb1
            cases hcp : connectPeers c1 peers 0 with
            | mk c2 o2 =>
              rw [hcp] at hg
              cases o2 with
              | ok => simp only; exact hclr
              | exc e => simp only; exact (qstartFailed_dropped hclr hg.1 hg.2.2 (fun h => by rw [hg.2.1] at h; cases h) _).1
              | hang => simp only; exact (qstartFailed_dropped hclr hg.1 hg.2.2 (fun h => by rw [hg.2.1] at h; cases h) _).1
          | exc e => simp only; exact (qstartFailed_dropped hclr hf.1 hb1 hf.2.2 _).1
          | hang => simp only; exact (qstartFailed_dropped hclr hf.1 hb1 hf.2.2 _).1
  | qstop =>
    simp only [pstep, pstep', qstop]
    cases hs : p.clr.single with
    | none => exact hclr
    | some c =>
      simp only
      split <;> exact hclr
  | qcontext => exact hclr
  | op o =>
    simp only [pstep, pstep']
    cases hs : p.clr.single with
    | none => exact hclr
    | some c => exact hclr

theorem droppedEmpty_prun {p : Proc} (hp : DroppedEmpty p) (ops : List POp) : DroppedEmpty (prun p ops) := by
  induction ops generalizing p with
  | nil => exact hp
  | cons o os ih => exact ih (droppedEmpty_pstep hp o)

/-! ### the two excluded misuses, precisely -/

theorem firstBase_append_some (l : List HF) (f : HF) (i j : Nat) (h : firstBase l i = some j) :
    firstBase (l ++ [f]) i = some j := by
  induction l generalizing i with
  | nil => cases h
  | cons a r ih => cases a <;> simp_all [firstBase]

theorem stop_stopH (c : Ctx) : (stop c).1.stopH = c.stopH := by
  cases hA : c.active with
  | false => simp [stop, stopHead, hA]
  | true =>
    cases hB : firstBase c.stopH 0 with
    | some i => simp [stop, stopHead, hA, hB, stopAborted]
    | none =>
      simp only [stop, stopHead, hA, hB, Bool.not_true, if_false, Bool.false_eq_true, stopRpcObjects, stopCollect]
      exact congrArg Flags.stopH (flags_stopManagers _ _)

/-- once a stop handler raising a non-`Exception` is registered it stays the first such handler for ever -/
theorem firstBase_step {c : Ctx} {i : Nat} (h : firstBase c.stopH 0 = some i) (op : Op) :
    firstBase (step c op).1.stopH 0 = some i := by
  by_cases h1 : ∃ t u, op = .start t u
  · obtain ⟨t, u, rfl⟩ := h1
    show firstBase (start _ t u).1.stopH 0 = some i
    rw [start_stopH]; exact h
  · by_cases h2 : op = .stop
    · subst h2
      show firstBase (stop _).1.stopH 0 = some i
      rw [stop_stopH]; exact h
    · by_cases h3 : ∃ f, op = .addH f
      · obtain ⟨f, rfl⟩ := h3
        exact firstBase_append_some _ _ _ _ h
      · have f := flags_step c op (fun t u e => h1 ⟨t, u, e⟩) h2 (fun f e => h3 ⟨f, e⟩)
        have e : (step c op).1.stopH = c.stopH := congrArg Flags.stopH f
        rw [e]; exact h

theorem firstBase_run {c : Ctx} {i : Nat} (h : firstBase c.stopH 0 = some i) (ops : List Op) :
    firstBase (run c ops).stopH 0 = some i := by
  induction ops generalizing c with
  | nil => exact h
  | cons op ops ih => exact ih (firstBase_step h op)

/-- the singleton holds a context that was stopped behind `qmi`'s back -/
def StoppedP (p : Proc) : Prop := ∃ d, p.single = some d ∧ Stopped d

theorem stoppedP_pstep {p : Proc} (h : StoppedP p) (o : POp) :
    StoppedP (pstep p o).1 ∧
    ((∃ v t tf uf peers lf, o = .qstart v t tf uf peers lf) ∨ o = .qstop → (pstep p o).2 = .exc .usage) := by
  obtain ⟨d, hd, hs⟩ := h
  have h0 : Stopped { d with log := [] } := ⟨hs.1, hs.2, hs.3, hs.4, hs.5, hs.6, hs.7⟩
  cases o with
  | qstart v t tf uf peers lf =>
    simp only [pstep, pstep', Proc.clr, hd, Option.map_some, qstart]
    exact ⟨⟨_, rfl, h0⟩, fun _ => trivial⟩
  | qstop =>
    have e : stop { d with log := [] } = ({ d with log := [] }, .exc .usage) := by simp [stop, stopHead, hs.inactive]
    simp only [pstep, pstep', Proc.clr, hd, Option.map_some, qstop, e]
    exact ⟨⟨_, rfl, h0⟩, fun _ => trivial⟩
  | qcontext =>
    simp only [pstep, pstep', Proc.clr, hd, Option.map_some]
    exact ⟨⟨_, rfl, h0⟩, fun h => by rcases h with ⟨_, _, _, _, _, _, h⟩ | h <;> cases h⟩
  | op o =>
    simp only [pstep, pstep', Proc.clr, hd, Option.map_some]
    exact ⟨⟨_, rfl, stopped_step h0 o⟩, fun h => by rcases h with ⟨_, _, _, _, _, _, h⟩ | h <;> cases h⟩

theorem stoppedP_prun {p : Proc} (h : StoppedP p) (ops : List POp) : StoppedP (prun p ops) := by
  induction ops generalizing p with
  | nil => exact h
  | cons o os ih => exact ih (stoppedP_pstep h o).1

theorem qclean_ok (p : Proc) (hn : p.single = none) (t : Bool) :
    (pstep p (.qstart true t false false [] false)).2 = .ok := by
  simp only [pstep, pstep', Proc.clr, hn, Option.map_none, qstart, Bool.not_true, Bool.false_eq_true, if_false]
  cases t <;> simp [start, Ctx.init, connectPeers]

theorem goodP_prun {p : Proc} (hp : GoodP p) (ops : List POp) (h : ∀ o ∈ ops, Harmless o) : GoodP (prun p ops) := by
  induction ops generalizing p with
  | nil => exact hp
  | cons o os ih =>
    exact ih (goodP_pstep hp (h o List.mem_cons_self)) (fun x hx => h x (List.mem_cons_of_mem _ hx))

end QmiModel.Context
