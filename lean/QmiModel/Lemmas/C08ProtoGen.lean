import QmiModel.Lemmas.C08Proto
/-! Generator of Lemmas/C08ProtoReach.lean (the table of reachable abstract states): explores `Proto.next` from
`Proto.inits` and prints the table bucketed by (tok, pend, rm, obj).  Usage, from /verif/lean:
`lake env lean --run QmiModel/Lemmas/C08ProtoGen.lean > QmiModel/Lemmas/C08ProtoReach.lean`.
The output is not trusted: Lemmas/C08ProtoSafe.lean re-checks closure, the initial states and the safety of the settled
states by kernel evaluation. -/
namespace QmiModel.PubSub.ProtoGen
open QmiModel.PubSub QmiModel.PubSub.Proto

partial def explore (todo : List AS) (seen : List AS) : List AS :=
  match todo with
  | [] => seen
  | x :: rest => if seen.contains x then explore rest seen else explore (next x ++ rest) (x :: seen)

def b (x : Bool) : String := if x then "true" else "false"
def obL : ObjSt → String | .absent => ".absent" | .reserved => ".reserved" | .present => ".present"
def rmL : Rm → String | .none => ".none" | .pre => ".pre" | .np => ".np" | .post => ".post"
def pL : P → String | .none => ".none" | .sub m => s!".sub {b m}" | .unsub w => s!".unsub {b w}"
def tL : T → String
  | .none => ".none" | .req => ".req" | .chk1 => ".chk1" | .preAdd => ".preAdd" | .added => ".added"
  | .preRem ok => s!".preRem {b ok}" | .rep ok => s!".rep {b ok}" | .inD => ".inD" | .hr ok => s!".hr {b ok}"
def dL : DTok → String | .N => ".N" | .Rep ok => s!".Rep {b ok}"

def allT : List T := [.none, .req, .chk1, .preAdd, .added, .preRem false, .preRem true, .rep false, .rep true, .inD, .hr false, .hr true]
def allP : List P := [.none, .sub false, .sub true, .unsub false, .unsub true]
def allRm : List Rm := [.none, .pre, .np, .post]
def allOb : List ObjSt := [.absent, .reserved, .present]

def main : IO Unit := do
  let seen := explore inits []
  IO.println "import QmiModel.Lemmas.C08Proto"
  IO.println "/-! generated: the reachable states of `Proto.next` from `Proto.inits`, bucketed by (tok, pend, rm, obj);"
  IO.println "each entry is (R, A, D, sr, wp).  Checked (closed under `next`, contains `inits`, settled states agree) in C08ProtoSafe. -/"
  IO.println "namespace QmiModel.PubSub.Proto"
  IO.println "def reachFn : T → P → Rm → ObjSt → List (Bool × Bool × List DTok × Bool × Bool)"
  for t in allT do for p in allP do for r in allRm do for o in allOb do
    let l := seen.filter (fun x => x.tok = t ∧ x.pend = p ∧ x.rm = r ∧ x.obj = o)
    if !l.isEmpty then
      let es := l.map (fun x => s!"({b x.R}, {b x.A}, [{", ".intercalate (x.D.map dL)}], {b x.sr}, {b x.wp})")
      IO.println s!"  | {tL t}, {pL p}, {rmL r}, {obL o} => [{", ".intercalate es}]"
  IO.println "  | _, _, _, _ => []"
  IO.println "end QmiModel.PubSub.Proto"

end QmiModel.PubSub.ProtoGen

def main : IO Unit := QmiModel.PubSub.ProtoGen.main
