import QmiModel.Lemmas.C08Live
/-! C07/C08, network layer — shared base: which fields a step touches (`MicroFields`), the non-micro actions with their
successor states spelled out (`NStep`), and the structural invariants of connections (`TopoInv`). -/
namespace QmiModel.PubSub

def MOp.isPop : MOp → Bool | .popPeer .. => true | _ => false
def MOp.isEnq : MOp → Bool | .enq .. => true | .enqDisc .. => true | _ => false
def MOp.isRsub : MOp → Bool | .addRemote .. => true | .removeRemote .. => true | .objRemoved .. => true | .peerRemoved .. => true | _ => false

/-- which fields a micro step leaves alone -/
structure MicroFields (s s' : State) (th : Th) (op : MOp) : Prop where
  conn : op.isClose = false → s'.conn = s.conn
  peers : op.isPop = false → ∀ c, (s'.ctx c).peers = (s.ctx c).peers
  alive : ∀ c, (s'.ctx c).alive = (s.ctx c).alive
  routerDown : ∀ c, (s'.ctx c).routerDown = (s.ctx c).routerDown
  loopQ : op.isEnq = false → ∀ c, (s'.ctx c).loopQ = (s.ctx c).loopQ
  rsubs : op.isRsub = false → ∀ c, (s'.ctx c).rsubs = (s.ctx c).rsubs
  snaps : op.isSnapLocal = false → s'.snaps = s.snaps
  nextConn : s'.nextConn = s.nextConn
  nextSeq : s'.nextSeq = s.nextSeq

theorem handleReplyStep_fields {cs cs' : CtxSt} {id : ReqId} {ok : Bool} {more : List MOp} {o : Out}
    (h : handleReplyStep cs id ok = some (cs', more, o)) :
    cs'.peers = cs.peers ∧ cs'.alive = cs.alive ∧ cs'.routerDown = cs.routerDown ∧ cs'.loopQ = cs.loopQ ∧ cs'.rsubs = cs.rsubs := by
  unfold handleReplyStep at h
  split at h
  · simp only [Option.some.injEq, Prod.mk.injEq] at h; obtain ⟨rfl, -, -⟩ := h; simp
  · split at h
    · simp only [Option.some.injEq, Prod.mk.injEq] at h; obtain ⟨rfl, -, -⟩ := h; simp
    · split at h
      · simp only [Option.some.injEq, Prod.mk.injEq] at h; obtain ⟨rfl, -, -⟩ := h; simp
      · split at h
        · simp only [Option.some.injEq, Prod.mk.injEq] at h; obtain ⟨rfl, -, -⟩ := h; simp
        · simp only [Option.some.injEq, Prod.mk.injEq] at h; obtain ⟨rfl, -, -⟩ := h; simp

set_option maxHeartbeats 2000000 in
theorem microStep_fields {s s' : State} {th : Th} {ch ch2 : Nat} {op : MOp} {rest : List MOp} {o : Out}
    (hs : microStep s th ch ch2 op rest = some (s', o)) : MicroFields s s' th op := by
  cases op <;> simp only [microStep] at hs
  all_goals (try (split at hs))
  all_goals (try (split at hs))
  all_goals (try (split at hs))
  all_goals (try (split at hs))
  all_goals (try (simp at hs))
  all_goals (try (obtain ⟨rfl, -⟩ := hs))
  all_goals (try (have hf := handleReplyStep_fields ‹handleReplyStep _ _ _ = some _›))
  all_goals (constructor <;> (try intro hx) <;> (try intro c) <;>
    simp only [setCtx_ctx, setCtx_conn, setCtx_nextConn, setCtx_snaps, setCtx_nextSeq, State.setProg] <;> (try split) <;> (try subst_vars) <;>
    (first | rfl | simp_all [MOp.isClose, MOp.isPop, MOp.isEnq, MOp.isRsub, MOp.isSnapLocal] | skip))


/-- the connection after a successful `sendall` of `m` from the end `cli` -/
def sentConn (cnn : Conn) (cli : Bool) (m : Msg) : Conn :=
  let mine := cnn.half cli
  let mine' := match m.reqId? with
    | some id => { mine with pend := mine.pend ++ [id] }
    | none => mine
  let cnn1 := cnn.setHalf cli mine'
  if (cnn.half (!cli)).isOpen then cnn1.setHalf (!cli) { (cnn1.half (!cli)) with inbox := (cnn1.half (!cli)).inbox ++ [m] } else cnn1

/-- the end `cli` after reading its first message `m` (rest `ms`) -/
def readHalf (h : Half) (m : Msg) (ms : List Msg) : Half :=
  match m with
  | .subReply id _ => { h with inbox := ms, pend := h.pend.erase id }
  | _ => { h with inbox := ms }

/-- the connections after `stop c` -/
def stopConn (c : Ctx) (x : Conn) : Conn :=
  let x1 := if x.cli.owner = c then { x with cli := { x.cli with isOpen := false, inbox := [] } } else x
  if x1.srv.owner = c then { x1 with srv := { x1.srv with isOpen := false, inbox := [] } } else x1

/-- the actions other than `micro`, with their successor states spelled out -/
inductive NStep (s : State) : State → Prop
  | beginPub (c : Ctx) (t : Tid) (ob : Obj) (sg : Sg) : (s.ctx c).alive = true → s.prog (.user c t) = [] →
      NStep s { (s.setProg (.user c t) (beginProg c t (s.nextSeq t) (.publish ob sg))) with nextSeq := upd s.nextSeq t (s.nextSeq t + 1) }
  | beginOther (c : Ctx) (t : Tid) (op : Op) : (s.ctx c).alive = true → s.prog (.user c t) = [] → (∀ ob sg, op ≠ .publish ob sg) →
      NStep s (s.setProg (.user c t) (beginProg c t 0 op))
  | cbUnknown (c : Ctx) (d : Peer) (m : Msg) (q : List Cb) : (s.ctx c).alive = true → s.prog (.sock c) = [] →
      (s.ctx c).loopQ = .smSend d m :: q → (s.ctx c).peers d = none →
      NStep s ((s.setCtx c { (s.ctx c) with loopQ := q }).setProg (.sock c) (onSendFail m))
  | cbSent (c : Ctx) (d : Peer) (m : Msg) (q : List Cb) (cn : ConnId) : (s.ctx c).alive = true → s.prog (.sock c) = [] →
      (s.ctx c).loopQ = .smSend d m :: q → (s.ctx c).peers d = some cn →
      NStep s (({ (s.setCtx c { (s.ctx c) with loopQ := q }) with conn := upd s.conn cn (sentConn (s.conn cn) d.isName m) }).setProg (.sock c) [])
  | cbFail (c : Ctx) (d : Peer) (m : Msg) (q : List Cb) (cn : ConnId) : (s.ctx c).alive = true → s.prog (.sock c) = [] →
      (s.ctx c).loopQ = .smSend d m :: q → (s.ctx c).peers d = some cn → ((s.conn cn).half (!d.isName)).isOpen = false →
      NStep s ((s.setCtx c { (s.ctx c) with loopQ := q }).setProg (.sock c) (onSendFail m))
  | cbDiscNone (c : Ctx) (n : Peer) (t : Tid) (q : List Cb) : (s.ctx c).alive = true → s.prog (.sock c) = [] →
      (s.ctx c).loopQ = .disconnect n t :: q → (s.ctx c).peers n = none →
      NStep s ((s.setCtx c { (s.ctx c) with loopQ := q }).setProg (.sock c) [.finish t false])
  | cbDisc (c : Ctx) (n : Peer) (t : Tid) (q : List Cb) (cn : ConnId) : (s.ctx c).alive = true → s.prog (.sock c) = [] →
      (s.ctx c).loopQ = .disconnect n t :: q → (s.ctx c).peers n = some cn →
      NStep s ((s.setCtx c { (s.ctx c) with loopQ := q }).setProg (.sock c) [.popPeer n, .peerRemoved n, .closeConn cn n.isName, .finish t true])
  | arrive (cn : ConnId) (cli : Bool) (m : Msg) (ms : List Msg) : cn < s.nextConn →
      (s.ctx ((s.conn cn).half cli).owner).alive = true → s.prog (.sock ((s.conn cn).half cli).owner) = [] →
      ((s.conn cn).half cli).isOpen = true → ((s.conn cn).half cli).inbox = m :: ms →
      NStep s (({ s with conn := upd s.conn cn ((s.conn cn).setHalf cli (readHalf ((s.conn cn).half cli) m ms)) }).setProg
        (.sock ((s.conn cn).half cli).owner) (dispatch (srcName s cn cli) m))
  | eof (cn : ConnId) (cli : Bool) : cn < s.nextConn →
      (s.ctx ((s.conn cn).half cli).owner).alive = true → s.prog (.sock ((s.conn cn).half cli).owner) = [] →
      ((s.conn cn).half cli).isOpen = true → ((s.conn cn).half cli).inbox = [] → ((s.conn cn).half (!cli)).isOpen = false →
      NStep s (s.setProg (.sock ((s.conn cn).half cli).owner)
        [.popPeer (srcName s cn cli), .peerRemoved (srcName s cn cli), .closeConn cn cli])
  | connect (a p : Ctx) : a ≠ p → (s.ctx a).alive = true → (s.ctx p).alive = true → (s.ctx a).peers (.name p) = none →
      NStep s { ((s.setCtx a { (s.ctx a) with peers := upd (s.ctx a).peers (.name p) (some s.nextConn) }).setCtx p
                  { ((s.setCtx a { (s.ctx a) with peers := upd (s.ctx a).peers (.name p) (some s.nextConn) }).ctx p) with
                    peers := upd ((s.setCtx a { (s.ctx a) with peers := upd (s.ctx a).peers (.name p) (some s.nextConn) }).ctx p).peers
                      (.alias s.nextConn) (some s.nextConn) }) with
                conn := upd s.conn s.nextConn { cli := { owner := a, isOpen := true, inbox := [], pend := [] },
                                                srv := { owner := p, isOpen := true, inbox := [], pend := [] } },
                nextConn := s.nextConn + 1 }
  | routerOk (th : Th) : NStep s { s with passed := upd s.passed th true }
  | stopReq (c : Ctx) : (s.ctx c).alive = true → NStep s (s.setCtx c { (s.ctx c) with routerDown := true })
  | stop (c : Ctx) : (s.ctx c).alive = true →
      NStep s { (s.setCtx c { (s.ctx c) with alive := false, loopQ := [] }) with conn := fun cn => stopConn c (s.conn cn) }

theorem step_nonmicro_cases {s s' : State} {a : Act} {o : Out} (ha : ∀ th ch ch2, a ≠ .micro th ch ch2)
    (hs : step s a = some (s', o)) : NStep s s' := by
  cases a with
  | micro th ch ch2 => exact absurd rfl (ha th ch ch2)
  | begin c t op =>
    simp only [step] at hs
    split at hs
    · rename_i hc
      cases op with
      | publish ob sg =>
        simp only [Option.some.injEq, Prod.mk.injEq] at hs; obtain ⟨rfl, -⟩ := hs
        exact NStep.beginPub c t ob sg hc.1 hc.2
      | _ =>
        simp only [Option.some.injEq, Prod.mk.injEq] at hs; obtain ⟨rfl, -⟩ := hs
        exact NStep.beginOther c t _ hc.1 hc.2 (by intro ob sg e; cases e)
    · simp at hs
  | cb c ok =>
    simp only [step] at hs
    split at hs
    · rename_i hc
      split at hs
      · simp at hs
      · rename_i d m q hq
        split at hs
        · simp at hs
        · rename_i s1 pr heq
          simp only [Option.some.injEq, Prod.mk.injEq] at hs
          obtain ⟨rfl, -⟩ := hs
          unfold smSendStep at heq
          simp only [setCtx_ctx, if_true] at heq
          split at heq
          · rename_i hp
            simp only [Option.some.injEq, Prod.mk.injEq] at heq; obtain ⟨rfl, rfl⟩ := heq
            exact NStep.cbUnknown c d m q hc.1 hc.2 hq hp
          · rename_i cn hp
            split at heq
            · simp only [Option.some.injEq, Prod.mk.injEq] at heq; obtain ⟨rfl, rfl⟩ := heq
              exact NStep.cbSent c d m q cn hc.1 hc.2 hq hp
            · split at heq
              · simp at heq
              · rename_i hopen
                simp only [Option.some.injEq, Prod.mk.injEq] at heq; obtain ⟨rfl, rfl⟩ := heq
                exact NStep.cbFail c d m q cn hc.1 hc.2 hq hp (by simpa using hopen)
      · rename_i n t q hq
        split at hs
        · rename_i hp
          simp only [Option.some.injEq, Prod.mk.injEq] at hs; obtain ⟨rfl, -⟩ := hs
          exact NStep.cbDiscNone c n t q hc.1 hc.2 hq hp
        · rename_i cn hp
          simp only [Option.some.injEq, Prod.mk.injEq] at hs; obtain ⟨rfl, -⟩ := hs
          exact NStep.cbDisc c n t q cn hc.1 hc.2 hq hp
    · simp at hs
  | arrive cn cli =>
    simp only [step] at hs
    split at hs
    · rename_i hc
      split at hs
      · simp at hs
      · rename_i m ms hin
        simp only [Option.some.injEq, Prod.mk.injEq] at hs; obtain ⟨rfl, -⟩ := hs
        have := NStep.arrive (s := s) cn cli m ms hc.1 hc.2.1 hc.2.2.1 hc.2.2.2 hin
        cases m <;> exact this
    · simp at hs
  | eof cn cli =>
    simp only [step] at hs
    split at hs
    · rename_i hc
      simp only [Option.some.injEq, Prod.mk.injEq] at hs; obtain ⟨rfl, -⟩ := hs
      exact NStep.eof cn cli hc.1 hc.2.1 hc.2.2.1 hc.2.2.2.1 hc.2.2.2.2.1 hc.2.2.2.2.2
    · simp at hs
  | connect a p =>
    simp only [step] at hs
    split at hs
    · rename_i hc
      simp only [Option.some.injEq, Prod.mk.injEq] at hs; obtain ⟨rfl, -⟩ := hs
      exact NStep.connect a p hc.1 hc.2.1 hc.2.2.1 hc.2.2.2
    · simp at hs
  | routerOk th =>
    simp only [step] at hs
    split at hs
    · simp only [Option.some.injEq, Prod.mk.injEq] at hs; obtain ⟨rfl, -⟩ := hs
      exact NStep.routerOk th
    · simp at hs
  | stopReq c =>
    simp only [step] at hs
    split at hs
    · rename_i hc
      simp only [Option.some.injEq, Prod.mk.injEq] at hs; obtain ⟨rfl, -⟩ := hs
      exact NStep.stopReq c hc
    · simp at hs
  | stop c =>
    simp only [step] at hs
    split at hs
    · rename_i hc
      simp only [Option.some.injEq, Prod.mk.injEq] at hs; obtain ⟨rfl, -⟩ := hs
      exact NStep.stop c hc
    · simp at hs



/-! ### halves of the updated connections -/

theorem sentConn_owner (cnn : Conn) (cli : Bool) (m : Msg) (b : Bool) :
    ((sentConn cnn cli m).half b).owner = (cnn.half b).owner := by
  unfold sentConn
  cases cli <;> cases b <;> cases hm : m.reqId? <;> simp [Conn.half, Conn.setHalf] <;> split <;> simp

theorem sentConn_isOpen (cnn : Conn) (cli : Bool) (m : Msg) (b : Bool) :
    ((sentConn cnn cli m).half b).isOpen = (cnn.half b).isOpen := by
  unfold sentConn
  cases cli <;> cases b <;> cases hm : m.reqId? <;> simp [Conn.half, Conn.setHalf] <;> split <;> simp

theorem sentConn_inbox (cnn : Conn) (cli : Bool) (m : Msg) (b : Bool) :
    ((sentConn cnn cli m).half b).inbox =
      if b = !cli ∧ (cnn.half b).isOpen = true then (cnn.half b).inbox ++ [m] else (cnn.half b).inbox := by
  unfold sentConn
  cases cli <;> cases b <;> cases hm : m.reqId? <;> simp [Conn.half, Conn.setHalf] <;> split <;> simp_all

theorem sentConn_pend (cnn : Conn) (cli : Bool) (m : Msg) (b : Bool) :
    ((sentConn cnn cli m).half b).pend =
      if b = cli then (match m.reqId? with | some id => (cnn.half b).pend ++ [id] | none => (cnn.half b).pend) else (cnn.half b).pend := by
  unfold sentConn
  cases cli <;> cases b <;> cases hm : m.reqId? <;> simp [Conn.half, Conn.setHalf] <;> split <;> simp_all

theorem readHalf_owner (h : Half) (m : Msg) (ms : List Msg) : (readHalf h m ms).owner = h.owner := by cases m <;> rfl
theorem readHalf_isOpen (h : Half) (m : Msg) (ms : List Msg) : (readHalf h m ms).isOpen = h.isOpen := by cases m <;> rfl
theorem readHalf_inbox (h : Half) (m : Msg) (ms : List Msg) : (readHalf h m ms).inbox = ms := by cases m <;> rfl

theorem half_setHalf' (x : Conn) (cli b : Bool) (h : Half) : (x.setHalf cli h).half b = if b = cli then h else x.half b := by
  cases cli <;> cases b <;> simp [Conn.half, Conn.setHalf]

theorem stopConn_owner (c : Ctx) (x : Conn) (b : Bool) : ((stopConn c x).half b).owner = (x.half b).owner := by
  unfold stopConn
  cases b <;> simp only [Conn.half] <;> (repeat' split) <;> simp_all

theorem stopConn_isOpen (c : Ctx) (x : Conn) (b : Bool) :
    ((stopConn c x).half b).isOpen = if (x.half b).owner = c then false else (x.half b).isOpen := by
  unfold stopConn
  cases b <;> simp only [Conn.half] <;> (repeat' split) <;> simp_all

theorem stopConn_inbox (c : Ctx) (x : Conn) (b : Bool) :
    ((stopConn c x).half b).inbox = if (x.half b).owner = c then [] else (x.half b).inbox := by
  unfold stopConn
  cases b <;> simp only [Conn.half] <;> (repeat' split) <;> simp_all

theorem stopConn_pend (c : Ctx) (x : Conn) (b : Bool) : ((stopConn c x).half b).pend = (x.half b).pend := by
  unfold stopConn
  cases b <;> simp only [Conn.half] <;> (repeat' split) <;> simp_all



/-- structure of connections: distinct owners, registrations point to the right ends, unborn / closed ends are empty -/
structure TopoInv (s : State) : Prop where
  owners : ∀ cn, cn < s.nextConn → ((s.conn cn).half true).owner ≠ ((s.conn cn).half false).owner
  peersN : ∀ c p cn, (s.ctx c).peers (.name p) = some cn →
    cn < s.nextConn ∧ ((s.conn cn).half true).owner = c ∧ ((s.conn cn).half false).owner = p
  peersA : ∀ c m cn, (s.ctx c).peers (.alias m) = some cn → cn = m ∧ cn < s.nextConn ∧ ((s.conn cn).half false).owner = c
  unborn : ∀ cn cli, s.nextConn ≤ cn → ((s.conn cn).half cli).isOpen = false
  closed : ∀ cn cli, ((s.conn cn).half cli).isOpen = false → ((s.conn cn).half cli).inbox = []
  alive : ∀ cn cli, ((s.conn cn).half cli).isOpen = true → (s.ctx ((s.conn cn).half cli).owner).alive = true

theorem topoInv_init : TopoInv State.init := by
  constructor <;> simp [State.init, CtxSt.init, Half.init, Conn.half]

theorem topoInv_micro {s s' : State} {th : Th} {ch ch2 : Nat} {op : MOp} {rest : List MOp} {o : Out}
    (h : TopoInv s) (hs : microStep s th ch ch2 op rest = some (s', o)) : TopoInv s' := by
  have hf := microStep_fields hs
  by_cases hc : op.isClose = true
  · cases op <;> simp only [MOp.isClose] at hc <;> try contradiction
    rename_i cn0 cli0
    have hp := hf.peers rfl
    simp only [microStep, Option.some.injEq, Prod.mk.injEq] at hs
    obtain ⟨rfl, -⟩ := hs
    constructor
    · intro cn hlt
      have := h.owners cn hlt
      simp only [State.setProg, upd] at hlt ⊢
      split
      · rename_i e; subst e; simp only [half_setHalf']; cases cli0 <;> simpa using this
      · exact this
    · intro c p cn hpe
      rw [hp] at hpe
      have := h.peersN c p cn hpe
      simp only [State.setProg, upd] at ⊢
      split
      · rename_i e; subst e; simp only [half_setHalf']; cases cli0 <;> simpa using this
      · exact this
    · intro c m cn hpe
      rw [hp] at hpe
      have := h.peersA c m cn hpe
      simp only [State.setProg, upd] at ⊢
      split
      · rename_i e; subst e; simp only [half_setHalf']; cases cli0 <;> simpa using this
      · exact this
    · intro cn cli hle
      have := h.unborn cn cli hle
      simp only [State.setProg, upd] at hle ⊢
      split
      · rename_i e; subst e; simp only [half_setHalf']; split <;> simp [this]
      · exact this
    · intro cn cli
      have := h.closed cn cli
      simp only [State.setProg, upd] at ⊢
      split
      · rename_i e; subst e; simp only [half_setHalf']; split <;> first | exact this | simp
      · exact this
    · intro cn cli
      have := h.alive cn cli
      simp only [State.setProg, upd] at ⊢
      split
      · rename_i e; subst e; simp only [half_setHalf']; split <;> simp_all
      · exact this
  · have hc' : op.isClose = false := by simpa using hc
    have hcn := hf.conn hc'
    have hpe : ∀ c n cn, (s'.ctx c).peers n = some cn → (s.ctx c).peers n = some cn := microStep_peers hs
    constructor
    · intro cn hlt; rw [hcn]; rw [hf.nextConn] at hlt; exact h.owners cn hlt
    · intro c p cn hq; rw [hcn, hf.nextConn]; exact h.peersN c p cn (hpe _ _ _ hq)
    · intro c m cn hq; rw [hcn, hf.nextConn]; exact h.peersA c m cn (hpe _ _ _ hq)
    · intro cn cli hle; rw [hcn]; rw [hf.nextConn] at hle; exact h.unborn cn cli hle
    · intro cn cli; rw [hcn]; exact h.closed cn cli
    · intro cn cli; rw [hcn, hf.alive]; exact h.alive cn cli

/-- `TopoInv` depends on the state only through `nextConn`, the registrations, liveness, and owner / open flag / emptiness
of the connection ends -/
theorem TopoInv.congr {s s' : State} (h : TopoInv s) (hn : s'.nextConn = s.nextConn)
    (hp : ∀ c, (s'.ctx c).peers = (s.ctx c).peers) (ha : ∀ c, (s'.ctx c).alive = (s.ctx c).alive)
    (ho : ∀ cn cli, ((s'.conn cn).half cli).owner = ((s.conn cn).half cli).owner)
    (hop : ∀ cn cli, ((s'.conn cn).half cli).isOpen = ((s.conn cn).half cli).isOpen)
    (hin : ∀ cn cli, ((s.conn cn).half cli).isOpen = false → ((s'.conn cn).half cli).inbox = []) : TopoInv s' := by
  constructor
  · intro cn hlt; rw [ho, ho]; rw [hn] at hlt; exact h.owners cn hlt
  · intro c p cn hq; rw [hp] at hq; rw [ho, ho, hn]; exact h.peersN c p cn hq
  · intro c m cn hq; rw [hp] at hq; rw [ho, hn]; exact h.peersA c m cn hq
  · intro cn cli hle; rw [hop]; rw [hn] at hle; exact h.unborn cn cli hle
  · intro cn cli hcl; rw [hop] at hcl; exact hin cn cli hcl
  · intro cn cli hopn; rw [hop] at hopn; rw [ho, ha]; exact h.alive cn cli hopn

theorem setCtx_peers_of_eq (s : State) (c : Ctx) (cs : CtxSt) (h : cs.peers = (s.ctx c).peers) (x : Ctx) :
    ((s.setCtx c cs).ctx x).peers = (s.ctx x).peers := by
  simp only [setCtx_ctx]; split
  · rename_i e; subst e; exact h
  · rfl

theorem setCtx_alive_of_eq (s : State) (c : Ctx) (cs : CtxSt) (h : cs.alive = (s.ctx c).alive) (x : Ctx) :
    ((s.setCtx c cs).ctx x).alive = (s.ctx x).alive := by
  simp only [setCtx_ctx]; split
  · rename_i e; subst e; exact h
  · rfl

theorem topoInv_nstep {s s' : State} (h : TopoInv s) (hs : NStep s s') : TopoInv s' := by
  cases hs
  case beginPub => exact h.congr rfl (fun _ => rfl) (fun _ => rfl) (fun _ _ => rfl) (fun _ _ => rfl) h.closed
  case beginOther => exact h.congr rfl (fun _ => rfl) (fun _ => rfl) (fun _ _ => rfl) (fun _ _ => rfl) h.closed
  case routerOk => exact h.congr rfl (fun _ => rfl) (fun _ => rfl) (fun _ _ => rfl) (fun _ _ => rfl) h.closed
  case eof => exact h.congr rfl (fun _ => rfl) (fun _ => rfl) (fun _ _ => rfl) (fun _ _ => rfl) h.closed
  case cbUnknown => exact h.congr rfl (setCtx_peers_of_eq _ _ _ rfl) (setCtx_alive_of_eq _ _ _ rfl) (fun _ _ => rfl) (fun _ _ => rfl) h.closed
  case cbFail => exact h.congr rfl (setCtx_peers_of_eq _ _ _ rfl) (setCtx_alive_of_eq _ _ _ rfl) (fun _ _ => rfl) (fun _ _ => rfl) h.closed
  case cbDiscNone => exact h.congr rfl (setCtx_peers_of_eq _ _ _ rfl) (setCtx_alive_of_eq _ _ _ rfl) (fun _ _ => rfl) (fun _ _ => rfl) h.closed
  case cbDisc => exact h.congr rfl (setCtx_peers_of_eq _ _ _ rfl) (setCtx_alive_of_eq _ _ _ rfl) (fun _ _ => rfl) (fun _ _ => rfl) h.closed
  case stopReq => exact h.congr rfl (setCtx_peers_of_eq _ _ _ rfl) (setCtx_alive_of_eq _ _ _ rfl) (fun _ _ => rfl) (fun _ _ => rfl) h.closed
  case cbSent c d m q cn _ _ _ _ =>
    refine h.congr rfl (setCtx_peers_of_eq _ _ _ rfl) (setCtx_alive_of_eq _ _ _ rfl) ?_ ?_ ?_
    all_goals (intro cn' cli'; simp only [setProg_conn, upd]; split)
    all_goals (try (rename_i e; subst e))
    all_goals (try rfl)
    · exact sentConn_owner _ _ _ _
    · exact sentConn_isOpen _ _ _ _
    · intro hcl; rw [sentConn_inbox]; simp [hcl, h.closed _ _ hcl]
    · exact h.closed _ _
  case arrive cn cli m ms _ _ _ _ _ =>
    refine h.congr rfl (fun _ => rfl) (fun _ => rfl) ?_ ?_ ?_
    all_goals (intro cn' cli'; simp only [setProg_conn, upd]; split)
    all_goals (try (rename_i e; subst e))
    all_goals (try rfl)
    all_goals (try (simp only [half_setHalf']; split))
    all_goals (try (rename_i e; subst e))
    all_goals (try rfl)
    · exact readHalf_owner _ _ _
    · exact readHalf_isOpen _ _ _
    · intro hcl; simp_all
    · exact h.closed _ _
    · exact h.closed _ _
  case connect a p hne hal hpl hnone =>
    have hpe : ∀ x n cn, ((((s.setCtx a { (s.ctx a) with peers := upd (s.ctx a).peers (.name p) (some s.nextConn) }).setCtx p
                  { ((s.setCtx a { (s.ctx a) with peers := upd (s.ctx a).peers (.name p) (some s.nextConn) }).ctx p) with
                    peers := upd ((s.setCtx a { (s.ctx a) with peers := upd (s.ctx a).peers (.name p) (some s.nextConn) }).ctx p).peers
                      (.alias s.nextConn) (some s.nextConn) }).ctx x).peers n = some cn) →
        (s.ctx x).peers n = some cn ∨ (x = a ∧ n = .name p ∧ cn = s.nextConn) ∨ (x = p ∧ n = .alias s.nextConn ∧ cn = s.nextConn) := by
      intro x n cn
      simp only [setCtx_ctx, upd]
      intro hq
      (repeat' split at hq) <;> (try (simp only [upd] at hq; split at hq)) <;> simp_all
    have hal' : ∀ x, ((((s.setCtx a { (s.ctx a) with peers := upd (s.ctx a).peers (.name p) (some s.nextConn) }).setCtx p
                  { ((s.setCtx a { (s.ctx a) with peers := upd (s.ctx a).peers (.name p) (some s.nextConn) }).ctx p) with
                    peers := upd ((s.setCtx a { (s.ctx a) with peers := upd (s.ctx a).peers (.name p) (some s.nextConn) }).ctx p).peers
                      (.alias s.nextConn) (some s.nextConn) }).ctx x).alive) = (s.ctx x).alive := by
      intro x
      simp only [setCtx_ctx]
      (repeat' split) <;> simp_all
    constructor
    · intro cn (hlt : cn < s.nextConn + 1)
      simp only [upd]
      split
      · simpa [Conn.half] using hne
      · rename_i hne'
        exact h.owners cn (Nat.lt_of_le_of_ne (Nat.le_of_lt_succ hlt) hne')
    · intro c p' cn hq
      rcases hpe _ _ _ hq with h0 | ⟨rfl, h0, rfl⟩ | ⟨rfl, h0, rfl⟩
      · obtain ⟨t1, t2⟩ := h.peersN c p' cn h0
        simp only [upd]
        have hne' : cn ≠ s.nextConn := Nat.ne_of_lt t1
        simp only [hne', if_false]
        exact ⟨Nat.lt_succ_of_lt t1, t2⟩
      · cases h0; simp [upd, Conn.half]
      · cases h0
    · intro c m cn hq
      rcases hpe _ _ _ hq with h0 | ⟨rfl, h0, rfl⟩ | ⟨rfl, h0, rfl⟩
      · obtain ⟨t1, t2, t3⟩ := h.peersA c m cn h0
        simp only [upd]
        have hne' : cn ≠ s.nextConn := Nat.ne_of_lt t2
        simp only [hne', if_false]
        exact ⟨t1, Nat.lt_succ_of_lt t2, t3⟩
      · cases h0
      · cases h0; simp [upd, Conn.half]
    · intro cn cli (hle : s.nextConn + 1 ≤ cn)
      have hne' : cn ≠ s.nextConn := Nat.ne_of_gt hle
      simp only [upd, hne', if_false]
      exact h.unborn cn cli (Nat.le_of_succ_le hle)
    · intro cn cli
      simp only [upd]
      split
      · cases cli <;> simp [Conn.half]
      · exact h.closed cn cli
    · intro cn cli
      simp only [upd]
      split
      · cases cli <;> simp only [Conn.half] <;> intro _ <;> rw [hal'] <;> assumption
      · intro ho; rw [hal']; exact h.alive cn cli ho
  case stop c hal =>
    constructor
    · intro cn hlt; simp only [stopConn_owner]; exact h.owners cn hlt
    · intro c' p cn hq
      simp only [stopConn_owner]
      refine h.peersN c' p cn ?_
      simp only [setCtx_ctx] at hq; split at hq
      · rename_i e; subst e; exact hq
      · exact hq
    · intro c' m cn hq
      simp only [stopConn_owner]
      refine h.peersA c' m cn ?_
      simp only [setCtx_ctx] at hq; split at hq
      · rename_i e; subst e; exact hq
      · exact hq
    · intro cn cli hle
      simp only [stopConn_isOpen]
      split
      · rfl
      · exact h.unborn cn cli hle
    · intro cn cli
      simp only [stopConn_isOpen, stopConn_inbox]
      split
      · intro _; rfl
      · exact h.closed cn cli
    · intro cn cli
      simp only [stopConn_isOpen, stopConn_owner, setCtx_ctx]
      split
      · intro h0; cases h0
      · rename_i hne
        intro ho
        exact h.alive cn cli ho



/-! ### direction typing: requests travel client → server under the peer's real name; replies, signals and removal
notices travel server → client under the alias of an existing connection -/

def Peer.okA (N : Nat) : Peer → Bool
  | .alias n => decide (n < N)
  | .name _ => false

def Msg.isUp : Msg → Bool
  | .subReq .. => true
  | _ => false

def sendOk (N : Nat) (d : Peer) (m : Msg) : Bool := if m.isUp then d.isName else d.okA N

def MOp.ok (N : Nat) : MOp → Bool
  | .pubSend ps _ _ _ => ps.all (Peer.okA N)
  | .sendChk d m => sendOk N d m
  | .enq d m => sendOk N d m
  | .subRemote k _ => k.pc.isName
  | .unsubRemote k _ => k.pc.isName
  | .notify ns _ => ns.all (fun x => x.2.okA N)
  | .reqChk1 src _ _ _ => src.okA N
  | .addRemote src _ _ => src.okA N
  | .reqChk2 src _ _ _ => src.okA N
  | _ => true

def Cb.ok (N : Nat) : Cb → Bool
  | .smSend d m => sendOk N d m
  | .disconnect .. => true

def okOps (N : Nat) (l : List MOp) : Bool := l.all (MOp.ok N)

theorem okOps_cons (N : Nat) (op : MOp) (l : List MOp) : okOps N (op :: l) = (op.ok N && okOps N l) := by simp [okOps]
theorem okOps_nil (N : Nat) : okOps N [] = true := rfl
theorem okOps_append (N : Nat) (l m : List MOp) : okOps N (l ++ m) = (okOps N l && okOps N m) := by simp [okOps]

theorem Peer.okA_mono {N M : Nat} (h : N ≤ M) {d : Peer} (hd : d.okA N = true) : d.okA M = true := by
  cases d with
  | name c => simp [Peer.okA] at hd
  | alias n => simp only [Peer.okA, decide_eq_true_eq] at hd ⊢; exact Nat.lt_of_lt_of_le hd h

theorem sendOk_mono {N M : Nat} (h : N ≤ M) {d : Peer} {m : Msg} (hd : sendOk N d m = true) : sendOk M d m = true := by
  unfold sendOk at hd ⊢
  split
  · rename_i e; simpa [e] using hd
  · rename_i e; simp only [e] at hd; exact Peer.okA_mono h hd

theorem MOp.ok_mono {N M : Nat} (h : N ≤ M) {op : MOp} (hd : op.ok N = true) : op.ok M = true := by
  cases op <;> simp only [MOp.ok] at hd ⊢ <;> first
    | exact hd
    | exact sendOk_mono h hd
    | exact Peer.okA_mono h hd
    | (simp only [List.all_eq_true] at hd ⊢; intro x hx; exact Peer.okA_mono h (hd x hx))

theorem handleReplyStep_ok {cs cs' : CtxSt} {id : ReqId} {ok : Bool} {more : List MOp} {o : Out} (N : Nat)
    (hpo : ∀ pid po, cs.pobj pid = some po → po.key.pc.isName = true)
    (h : handleReplyStep cs id ok = some (cs', more, o)) :
    okOps N more = true ∧ (∀ pid po, cs'.pobj pid = some po → po.key.pc.isName = true) := by
  unfold handleReplyStep at h
  split at h
  · simp only [Option.some.injEq, Prod.mk.injEq] at h; obtain ⟨rfl, rfl, rfl⟩ := h; exact ⟨rfl, hpo⟩
  · split at h
    · simp only [Option.some.injEq, Prod.mk.injEq] at h; obtain ⟨rfl, rfl, rfl⟩ := h; exact ⟨rfl, hpo⟩
    · rename_i pid po hp
      have := hpo _ _ hp
      split at h
      · simp only [Option.some.injEq, Prod.mk.injEq] at h; obtain ⟨rfl, rfl, -⟩ := h
        refine ⟨rfl, ?_⟩
        intro pid' po' hq; simp only [upd] at hq; split at hq
        · simp only [Option.some.injEq] at hq; subst hq; exact this
        · exact hpo _ _ hq
      · split at h
        · simp only [Option.some.injEq, Prod.mk.injEq] at h; obtain ⟨rfl, rfl, -⟩ := h
          refine ⟨by simp [okOps, MOp.ok, sendOk, Msg.isUp, this], ?_⟩
          intro pid' po' hq; simp only [upd] at hq; split at hq
          · simp only [Option.some.injEq] at hq; subst hq; exact this
          · exact hpo _ _ hq
        · simp only [Option.some.injEq, Prod.mk.injEq] at h; obtain ⟨rfl, rfl, -⟩ := h
          exact ⟨rfl, hpo⟩

theorem okA_of_find {N : Nat} {ps : List Peer} {f : Peer → Bool} {d : Peer}
    (h : ps.all (Peer.okA N) = true) (hf : ps.find? f = some d) : d.okA N = true :=
  List.all_eq_true.1 h d (List.mem_of_find?_eq_some hf)

theorem all_erase {α : Type} [BEq α] {l : List α} {f : α → Bool} (h : l.all f = true) (x : α) : (l.erase x).all f = true := by
  simp only [List.all_eq_true] at h ⊢
  intro y hy; exact h y (List.mem_of_mem_erase hy)

theorem notifyList_ok {N : Nat} {cs : CtxSt} (hr : ∀ k d, d ∈ cs.rsubs k → d.okA N = true) (ob : Obj) :
    (notifyList cs ob).all (fun x => x.2.okA N) = true := by
  simp only [List.all_eq_true, notifyList, List.mem_flatMap, List.mem_map]
  rintro x ⟨k, -, d, hd, rfl⟩
  exact hr k d hd

set_option maxHeartbeats 2000000 in
theorem microStep_okOps {s s' : State} {th : Th} {ch ch2 : Nat} {op : MOp} {rest : List MOp} {o : Out} (N : Nat)
    (hr : ∀ k d, d ∈ (s.ctx th.ctx).rsubs k → d.okA N = true)
    (hpo : ∀ pid po, (s.ctx th.ctx).pobj pid = some po → po.key.pc.isName = true)
    (hop : op.ok N = true) (hrest : okOps N rest = true)
    (hs : microStep s th ch ch2 op rest = some (s', o)) : okOps N (s'.prog th) = true := by
  cases op <;> simp only [microStep] at hs
  all_goals (try (split at hs))
  all_goals (try (split at hs))
  all_goals (try (split at hs))
  all_goals (try (split at hs))
  all_goals (try (simp at hs))
  all_goals (try (obtain ⟨rfl, -⟩ := hs))
  all_goals (simp only [setProg_prog, if_true, State.setProg, upd])
  all_goals (try split)
  all_goals (try exact hrest)
  all_goals (try (simp only [MOp.ok] at hop))
  all_goals (try (simp [okOps_cons, okOps_append, okOps_nil, MOp.ok, hrest, sendOk, Msg.isUp, hop]; done))
  all_goals (try (simp [okOps_cons, okOps_append, okOps_nil, MOp.ok, hrest, hop]; done))
  all_goals first
    | (simp only [okOps_cons, MOp.ok, hrest, Bool.and_true]; exact List.all_eq_true.2 (fun d hd => hr _ d hd))
    | (have hd := okA_of_find hop ‹_›; have he := all_erase hop ‹Peer›
       simp [okOps_cons, MOp.ok, sendOk, Msg.isUp, hd, he, hrest]; done)
    | (rename_i m _; cases m <;> simp [onSendFail, okOps_cons, okOps_append, okOps_nil, MOp.ok, hrest]; done)
    | (rw [okOps_append, (handleReplyStep_ok N hpo ‹_›).1, hrest]; rfl)
    | (simp only [okOps_cons, MOp.ok, hrest, Bool.and_true]; exact notifyList_ok hr _)
    | (have hd : Peer.okA N (‹Sg × Peer›).2 = true := List.all_eq_true.1 hop _ (List.mem_of_find?_eq_some ‹_›)
       have he := all_erase hop ‹Sg × Peer›
       simp only [okOps_cons, MOp.ok, sendOk, Msg.isUp, hd, he, hrest, Bool.and_self, Bool.false_eq_true, if_false]; done)
    | (simp [okOps, MOp.ok] at hrest ⊢; exact hrest)
    | skip

set_option maxHeartbeats 2000000 in
theorem microStep_typ_ctx {s s' : State} {th : Th} {ch ch2 : Nat} {op : MOp} {rest : List MOp} {o : Out} (N : Nat)
    (hcb : ∀ cb ∈ (s.ctx th.ctx).loopQ, cb.ok N = true)
    (hr : ∀ k d, d ∈ (s.ctx th.ctx).rsubs k → d.okA N = true)
    (hpo : ∀ pid po, (s.ctx th.ctx).pobj pid = some po → po.key.pc.isName = true)
    (hop : op.ok N = true)
    (hs : microStep s th ch ch2 op rest = some (s', o)) :
    (∀ cb ∈ (s'.ctx th.ctx).loopQ, cb.ok N = true) ∧ (∀ k d, d ∈ (s'.ctx th.ctx).rsubs k → d.okA N = true) ∧
    (∀ pid po, (s'.ctx th.ctx).pobj pid = some po → po.key.pc.isName = true) := by
  cases op <;> simp only [microStep] at hs
  all_goals (try (split at hs))
  all_goals (try (split at hs))
  all_goals (try (split at hs))
  all_goals (try (split at hs))
  all_goals (try (simp at hs))
  all_goals (try (obtain ⟨rfl, -⟩ := hs))
  all_goals (simp only [setProg_ctx, setCtx_ctx, if_true, State.setProg])
  all_goals (try exact ⟨hcb, hr, hpo⟩)
  all_goals (try (simp only [MOp.ok] at hop))
  all_goals (try (have hf := handleReplyStep_fields ‹handleReplyStep _ _ _ = some _›
                  have hk := (handleReplyStep_ok N hpo ‹handleReplyStep _ _ _ = some _›).2
                  rw [hf.2.2.2.1, hf.2.2.2.2]; exact ⟨hcb, hr, hk⟩))
  all_goals (refine ⟨?_, ?_, ?_⟩)
  all_goals (first | exact hcb | exact hr | exact hpo | skip)
  all_goals (try (intro (cb : Cb) hm; simp only [List.mem_append, List.mem_singleton] at hm))
  all_goals (try (intro (k : RKey) d hm))
  all_goals (try (intro (pid : ReqId) po hm))
  all_goals first
    | (rcases hm with hm | rfl
       · exact hcb _ hm
       · first | exact hop | rfl)
    | (simp only [upd] at hm; split at hm
       · simp only [Option.some.injEq] at hm; subst hm; exact hop
       · exact hpo _ _ hm)
    | (simp only [upd] at hm; split at hm
       · simp only [Option.some.injEq] at hm; subst hm; exact hpo _ _ (by assumption : (s.ctx th.ctx).pobj _ = some ‹PObj›)
       · exact hpo _ _ hm)
    | (split at hm
       · simp at hm
       · exact hr _ _ hm)
    | (simp only [upd] at hm; split at hm
       · exact hr _ _ hm
       · exact hr _ _ hm)
    | (simp only [upd] at hm; split at hm
       · rcases List.mem_append.1 hm with h1 | h1
         · exact hr _ _ h1
         · simp only [List.mem_singleton] at h1; subst h1; exact hop
       · exact hr _ _ hm)
    | (simp only [upd] at hm; split at hm
       · exact hr _ _ ((List.mem_filter.1 hm).1)
       · exact hr _ _ hm)
    | (cases hq : (s.ctx th.ctx).pobj pid with
       | none => rw [hq] at hm; simp at hm
       | some po0 => rw [hq] at hm; simp only [Option.map_some, Option.some.injEq] at hm; subst hm
                     rw [PObj.cancelIf_key]; exact hpo _ _ hq)
    | (simp only [peerRemovedStep] at hm; exact hr _ _ ((List.mem_filter.1 hm).1))
    | skip
  all_goals (simp only [upd] at hm; split at hm)
  · simp only [Option.some.injEq] at hm; subst hm
    have := hpo _ ‹PObj› (by assumption)
    exact this
  · exact hpo _ _ hm

/-- **direction typing** of everything that is in flight -/
structure TypInv (s : State) : Prop where
  ops : ∀ th, okOps s.nextConn (s.prog th) = true
  cbs : ∀ c, ∀ cb ∈ (s.ctx c).loopQ, cb.ok s.nextConn = true
  inbox : ∀ cn cli, ∀ m ∈ ((s.conn cn).half cli).inbox, m.isUp = !cli
  rsubs : ∀ c k d, d ∈ (s.ctx c).rsubs k → d.okA s.nextConn = true
  pobj : ∀ c pid po, (s.ctx c).pobj pid = some po → po.key.pc.isName = true

theorem typInv_init : TypInv State.init := by
  constructor <;> simp [State.init, CtxSt.init, Half.init, Conn.half, okOps]

theorem typInv_micro {s s' : State} {th : Th} {ch ch2 : Nat} {op : MOp} {rest : List MOp} {o : Out}
    (h : TypInv s) (hprog : s.prog th = op :: rest) (hs : microStep s th ch ch2 op rest = some (s', o)) : TypInv s' := by
  have hf := microStep_frame hs
  have hfl := microStep_fields hs
  have hops := h.ops th
  rw [hprog, okOps_cons, Bool.and_eq_true] at hops
  have hctx := microStep_typ_ctx s.nextConn (h.cbs th.ctx) (h.rsubs th.ctx) (h.pobj th.ctx) hops.1 hs
  constructor
  · intro th'
    rw [hf.nextConn]
    by_cases e : th' = th
    · subst e; exact microStep_okOps s.nextConn (h.rsubs _) (h.pobj _) hops.1 hops.2 hs
    · rw [hf.prog_other _ e]; exact h.ops th'
  · intro c
    rw [hf.nextConn]
    by_cases e : c = th.ctx
    · subst e; exact hctx.1
    · rw [hf.ctx_other _ e]; exact h.cbs c
  · intro cn cli m hm
    by_cases hc : op.isClose = true
    · cases op <;> simp only [MOp.isClose] at hc <;> try contradiction
      simp only [microStep, Option.some.injEq, Prod.mk.injEq] at hs
      obtain ⟨rfl, -⟩ := hs
      simp only [setProg_conn, upd] at hm
      split at hm
      · rename_i e; subst e
        rw [half_setHalf'] at hm
        split at hm
        · simp at hm
        · exact h.inbox _ _ m hm
      · exact h.inbox _ _ m hm
    · rw [hfl.conn (by simpa using hc)] at hm; exact h.inbox _ _ m hm
  · intro c
    rw [hf.nextConn]
    by_cases e : c = th.ctx
    · subst e; exact hctx.2.1
    · rw [hf.ctx_other _ e]; exact h.rsubs c
  · intro c
    by_cases e : c = th.ctx
    · subst e; exact hctx.2.2
    · rw [hf.ctx_other _ e]; exact h.pobj c

theorem sendOk_dir {N : Nat} {d : Peer} {m : Msg} (h : sendOk N d m = true) : m.isUp = d.isName := by
  unfold sendOk at h
  split at h
  · rename_i e; rw [e, h]
  · rename_i e
    cases d with
    | name c => simp [Peer.okA] at h
    | alias n => simpa [Peer.isName] using e

theorem okOps_beginProg (N : Nat) (c : Ctx) (t : Tid) (n : Nat) (o : Op) : okOps N (beginProg c t n o) = true := by
  cases o <;> simp only [beginProg] <;> (try split) <;> simp [okOps, MOp.ok, Peer.isName]

theorem okOps_onSendFail (N : Nat) (m : Msg) : okOps N (onSendFail m) = true := by
  cases m <;> simp [onSendFail, okOps, MOp.ok]

theorem okOps_dispatch {N : Nat} {cn : ConnId} (hcn : cn < N) (s : State) (cli : Bool) {m : Msg} (hm : m.isUp = !cli) :
    okOps N (dispatch (srcName s cn cli) m) = true := by
  cases cli with
  | true => cases m <;> simp_all [Msg.isUp, dispatch, okOps, MOp.ok]
  | false =>
    cases m with
    | subReq id ob sg b => cases b <;> simp [dispatch, okOps, MOp.ok, srcName, Peer.okA, sendOk, Msg.isUp, hcn]
    | _ => simp [Msg.isUp] at hm

theorem TypInv.of {s s' : State} (h : TypInv s) (hN : s.nextConn ≤ s'.nextConn)
    (hops : ∀ th, s'.prog th = s.prog th ∨ okOps s'.nextConn (s'.prog th) = true)
    (hcbs : ∀ c, ∀ cb ∈ (s'.ctx c).loopQ, cb ∈ (s.ctx c).loopQ)
    (hin : ∀ cn cli, ∀ m ∈ ((s'.conn cn).half cli).inbox, m ∈ ((s.conn cn).half cli).inbox ∨ m.isUp = !cli)
    (hr : ∀ c, (s'.ctx c).rsubs = (s.ctx c).rsubs) (hp : ∀ c, (s'.ctx c).pobj = (s.ctx c).pobj) : TypInv s' := by
  constructor
  · intro th
    rcases hops th with e | e
    · rw [e]
      have := h.ops th
      simp only [okOps, List.all_eq_true] at this ⊢
      exact fun op ho => MOp.ok_mono hN (this op ho)
    · exact e
  · intro c cb hcb
    have := h.cbs c cb (hcbs c cb hcb)
    cases cb with
    | smSend d m => exact sendOk_mono hN this
    | disconnect n t => rfl
  · intro cn cli m hm
    rcases hin cn cli m hm with e | e
    · exact h.inbox cn cli m e
    · exact e
  · intro c k d hd; rw [hr] at hd; exact Peer.okA_mono hN (h.rsubs c k d hd)
  · intro c pid po hq; rw [hp] at hq; exact h.pobj c pid po hq

theorem setCtx_rsubs_of_eq (s : State) (c : Ctx) (cs : CtxSt) (h : cs.rsubs = (s.ctx c).rsubs) (x : Ctx) :
    ((s.setCtx c cs).ctx x).rsubs = (s.ctx x).rsubs := by
  simp only [setCtx_ctx]; split
  · rename_i e; subst e; exact h
  · rfl

theorem setCtx_pobj_of_eq (s : State) (c : Ctx) (cs : CtxSt) (h : cs.pobj = (s.ctx c).pobj) (x : Ctx) :
    ((s.setCtx c cs).ctx x).pobj = (s.ctx x).pobj := by
  simp only [setCtx_ctx]; split
  · rename_i e; subst e; exact h
  · rfl

theorem setCtx_loopQ_mem (s : State) (c : Ctx) (cs : CtxSt) (h : ∀ cb ∈ cs.loopQ, cb ∈ (s.ctx c).loopQ) (x : Ctx) :
    ∀ cb ∈ ((s.setCtx c cs).ctx x).loopQ, cb ∈ (s.ctx x).loopQ := by
  simp only [setCtx_ctx]; split
  · rename_i e; subst e; exact h
  · exact fun _ h => h

theorem setProg_ops (s : State) (th : Th) (pr : List MOp) (N : Nat) (h : okOps N pr = true) (x : Th) :
    (s.setProg th pr).prog x = s.prog x ∨ okOps N ((s.setProg th pr).prog x) = true := by
  simp only [setProg_prog]; split
  · exact Or.inr h
  · exact Or.inl rfl

theorem typInv_nstep {s s' : State} (h : TypInv s) (hs : NStep s s') : TypInv s' := by
  cases hs
  case beginPub c t ob sg _ _ =>
    exact h.of (Nat.le_refl _) (setProg_ops _ _ _ _ (okOps_beginProg _ _ _ _ _)) (fun _ _ h => h) (fun _ _ _ h => Or.inl h)
      (fun _ => rfl) (fun _ => rfl)
  case beginOther c t op _ _ _ =>
    exact h.of (Nat.le_refl _) (setProg_ops _ _ _ _ (okOps_beginProg _ _ _ _ _)) (fun _ _ h => h) (fun _ _ _ h => Or.inl h)
      (fun _ => rfl) (fun _ => rfl)
  case routerOk => exact h.of (Nat.le_refl _) (fun _ => Or.inl rfl) (fun _ _ h => h) (fun _ _ _ h => Or.inl h) (fun _ => rfl) (fun _ => rfl)
  case eof => exact h.of (Nat.le_refl _) (setProg_ops _ _ _ _ (by simp [okOps, MOp.ok])) (fun _ _ h => h) (fun _ _ _ h => Or.inl h) (fun _ => rfl) (fun _ => rfl)
  case stopReq c _ =>
    refine h.of (Nat.le_refl _) (fun _ => Or.inl rfl) ?_ (fun _ _ _ h => Or.inl h) ?_ ?_
    · exact setCtx_loopQ_mem s c _ (fun _ h => h)
    · exact setCtx_rsubs_of_eq s c _ rfl
    · exact setCtx_pobj_of_eq s c _ rfl
  case cbUnknown c d m q _ _ hq _ =>
    refine h.of (Nat.le_refl _) ?_ ?_ (fun _ _ _ h => Or.inl h) ?_ ?_
    · exact setProg_ops _ _ _ _ (okOps_onSendFail _ _)
    · exact setCtx_loopQ_mem s c _ (fun cb hcb => by rw [hq]; exact List.mem_cons_of_mem _ hcb)
    · exact setCtx_rsubs_of_eq s c _ rfl
    · exact setCtx_pobj_of_eq s c _ rfl
  case cbFail c d m q cn _ _ hq _ _ =>
    refine h.of (Nat.le_refl _) ?_ ?_ (fun _ _ _ h => Or.inl h) ?_ ?_
    · exact setProg_ops _ _ _ _ (okOps_onSendFail _ _)
    · exact setCtx_loopQ_mem s c _ (fun cb hcb => by rw [hq]; exact List.mem_cons_of_mem _ hcb)
    · exact setCtx_rsubs_of_eq s c _ rfl
    · exact setCtx_pobj_of_eq s c _ rfl
  case cbDiscNone c n t q _ _ hq _ =>
    refine h.of (Nat.le_refl _) ?_ ?_ (fun _ _ _ h => Or.inl h) ?_ ?_
    · exact setProg_ops _ _ _ _ (by simp [okOps, MOp.ok])
    · exact setCtx_loopQ_mem s c _ (fun cb hcb => by rw [hq]; exact List.mem_cons_of_mem _ hcb)
    · exact setCtx_rsubs_of_eq s c _ rfl
    · exact setCtx_pobj_of_eq s c _ rfl
  case cbDisc c n t q cn _ _ hq _ =>
    refine h.of (Nat.le_refl _) ?_ ?_ (fun _ _ _ h => Or.inl h) ?_ ?_
    · exact setProg_ops _ _ _ _ (by simp [okOps, MOp.ok])
    · exact setCtx_loopQ_mem s c _ (fun cb hcb => by rw [hq]; exact List.mem_cons_of_mem _ hcb)
    · exact setCtx_rsubs_of_eq s c _ rfl
    · exact setCtx_pobj_of_eq s c _ rfl
  case cbSent c d m q cn _ _ hq _ =>
    have hok : sendOk s.nextConn d m = true := h.cbs c (.smSend d m) (by rw [hq]; exact List.mem_cons_self)
    refine h.of (Nat.le_refl _) ?_ ?_ ?_ ?_ ?_
    · exact setProg_ops _ _ _ _ rfl
    · exact setCtx_loopQ_mem s c _ (fun cb hcb => by rw [hq]; exact List.mem_cons_of_mem _ hcb)
    rotate_left
    · exact setCtx_rsubs_of_eq s c _ rfl
    · exact setCtx_pobj_of_eq s c _ rfl
    intro cn' cli' m' hm'
    simp only [setProg_conn, upd] at hm'
    split at hm'
    · rename_i e; subst e
      rw [sentConn_inbox] at hm'
      split at hm'
      · rename_i hc
        rcases List.mem_append.1 hm' with h1 | h1
        · exact Or.inl h1
        · simp only [List.mem_singleton] at h1; subst h1
          right; rw [sendOk_dir hok, hc.1]; simp
      · exact Or.inl hm'
    · exact Or.inl hm'
  case arrive cn cli m ms hlt _ _ _ hin =>
    have hm : m.isUp = !cli := h.inbox cn cli m (by rw [hin]; exact List.mem_cons_self)
    refine h.of (Nat.le_refl _) (setProg_ops _ _ _ _ (okOps_dispatch hlt s cli hm)) (fun _ _ h => h) ?_ (fun _ => rfl) (fun _ => rfl)
    intro cn' cli' m' hm'
    simp only [setProg_conn, upd] at hm'
    split at hm'
    · rename_i e; subst e
      rw [half_setHalf'] at hm'
      split at hm'
      · rename_i e; subst e
        rw [readHalf_inbox] at hm'
        left; rw [hin]; exact List.mem_cons_of_mem _ hm'
      · exact Or.inl hm'
    · exact Or.inl hm'
  case connect a p hne hal hpl hnone =>
    refine h.of (Nat.le_succ _) (fun _ => Or.inl rfl) ?_ ?_ ?_ ?_
    · intro c cb hcb
      simp only [setCtx_ctx] at hcb
      (repeat' split at hcb) <;> simp_all
    · intro cn cli m hm
      simp only [upd] at hm
      split at hm
      · cases cli <;> simp [Conn.half] at hm
      · exact Or.inl hm
    · intro c; simp only [setCtx_ctx]; (repeat' split) <;> simp_all
    · intro c; simp only [setCtx_ctx]; (repeat' split) <;> simp_all
  case stop c hal =>
    refine h.of (Nat.le_refl _) (fun _ => Or.inl rfl) ?_ ?_ ?_ ?_
    rotate_left 2
    · exact setCtx_rsubs_of_eq s c _ rfl
    · exact setCtx_pobj_of_eq s c _ rfl
    · exact setCtx_loopQ_mem s c _ (fun cb hcb => by simp at hcb)
    · intro cn cli m hm
      simp only [stopConn_inbox] at hm
      split at hm
      · simp at hm
      · exact Or.inl hm

theorem typInv_reach {s : State} (h : Reach s) : TypInv s := by
  induction h with
  | init => exact typInv_init
  | step hr hs ih =>
    rename_i s0 s1 a o
    by_cases ha : ∃ th ch ch2, a = .micro th ch ch2
    · obtain ⟨th, ch, ch2, rfl⟩ := ha
      obtain ⟨-, op, rest, hp, hm⟩ := step_micro_inv hs
      exact typInv_micro ih hp hm
    · exact typInv_nstep ih (step_nonmicro_cases (fun th ch ch2 e => ha ⟨th, ch, ch2, e⟩) hs)

theorem topoInv_reach {s : State} (h : Reach s) : TopoInv s := by
  induction h with
  | init => exact topoInv_init
  | step hr hs ih =>
    rename_i s0 s1 a o
    by_cases ha : ∃ th ch ch2, a = .micro th ch ch2
    · obtain ⟨th, ch, ch2, rfl⟩ := ha
      obtain ⟨-, op, rest, hp, hm⟩ := step_micro_inv hs
      exact topoInv_micro ih hm
    · exact topoInv_nstep ih (step_nonmicro_cases (fun th ch ch2 e => ha ⟨th, ch, ch2, e⟩) hs)


end QmiModel.PubSub
