import QmiModel.Model.RecvConc
/-!
# C09 — the interpreter of `Model/RecvConc.lean` specialised to the programs `P0`

`next0 s i` is what thread `i` does next, written out per statement; `stepThr_P0` shows that the generic interpreter on
`P0` is `next0` whenever the statement counters are in range (`LInv`, proved invariant here together with the lock
discipline: a thread is inside its `with` block and not parked iff it is the lock holder).
-/
set_option linter.unusedSimpArgs false
namespace QmiModel.RecvConc
open QmiModel.RecvQueue

@[simp] theorem upd_same (f : Nat → α) (i : Nat) (v : α) : upd f i v i = v := by simp [upd]
theorem upd_other (f : Nat → α) (i j : Nat) (v : α) (h : j ≠ i) : upd f i v j = f j := by simp [upd, h]
@[simp] theorem upd_upd (f : Nat → α) (i : Nat) (v w : α) : upd (upd f i v) i w = upd f i w := by
  funext j; simp only [upd]; split <;> rfl

/-- highest statement index a call can be at -/
def pcBound : Call → Nat
  | .idle => 0
  | .recv _ => 6
  | .get _ _ => 3
  | .discard => 2
  | .query _ => 2

/-- the thread is inside its `with self._queue_cond:` block and not parked in `cond.wait` -/
def inside (t : Thr) : Bool :=
  match t.call with
  | .idle => false
  | _ => decide (1 ≤ t.pc) && !t.parked

def isGet : Call → Bool
  | .get _ _ => true
  | _ => false

def isTask : Call → Bool
  | .get task _ => task
  | _ => false

/-- what the lock discipline says about one thread, given the lock holder `l` -/
structure TOk (l : Option Nat) (i : Nat) (t : Thr) : Prop where
  pc_ok    : t.pc ≤ pcBound t.call
  holder   : inside t = true ↔ l = some i
  wpc_get  : ∀ w, t.wpc = some w → isGet t.call = true ∧ t.pc = 2 ∧ w ≤ (if isTask t.call then 2 else 1)
  parked_w : t.parked = true → t.wpc = some 0

def LInv (s : St) : Prop := ∀ i, TOk s.lock i (s.thr i)

theorem LInv.pc_ok {s : St} (h : LInv s) (i : Nat) : (s.thr i).pc ≤ pcBound (s.thr i).call := (h i).pc_ok
theorem LInv.holder {s : St} (h : LInv s) (i : Nat) : inside (s.thr i) = true ↔ s.lock = some i := (h i).holder
theorem LInv.wpc_get {s : St} (h : LInv s) (i w : Nat) (hw : (s.thr i).wpc = some w) :
    isGet (s.thr i).call = true ∧ (s.thr i).pc = 2 ∧ w ≤ (if isTask (s.thr i).call then 2 else 1) := (h i).wpc_get w hw
theorem LInv.parked_w {s : St} (h : LInv s) (i : Nat) (hp : (s.thr i).parked = true) : (s.thr i).wpc = some 0 := (h i).parked_w hp

theorem LInv_init (cap : Nat) (pol : Policy) : LInv (St.init cap pol) := by
  intro i
  constructor <;> simp [St.init, Thr.init, pcBound, inside]

/-- threads other than the one that moved keep their status when the lock passes between `none` and `some i` -/
theorem TOk_frame {l l' : Option Nat} {i j : Nat} {t : Thr} (h : TOk l j t) (hj : j ≠ i)
    (hl : l' = l ∨ ((l = none ∨ l = some i) ∧ (l' = none ∨ l' = some i))) : TOk l' j t := by
  refine ⟨h.pc_ok, ?_, h.wpc_get, h.parked_w⟩
  rcases hl with rfl | ⟨h1, h2⟩
  · exact h.holder
  · have hne : some i ≠ some j := by intro h'; cases h'; exact hj rfl
    have a : l ≠ some j := by rcases h1 with rfl | rfl <;> simp [hne]
    have b : l' ≠ some j := by rcases h2 with rfl | rfl <;> simp [hne]
    constructor
    · intro hin; exact absurd (h.holder.1 hin) a
    · intro hl'; exact absurd hl' b

@[simp] theorem finish_lock (s : St) (i : Nat) (r : Res) : (finish s i r).lock = unlock s.lock i := rfl
@[simp] theorem finish_g (s : St) (i : Nat) (r : Res) : (finish s i r).g = s.g := rfl
@[simp] theorem finish_lin (s : St) (i : Nat) (r : Res) : (finish s i r).lin = s.lin := rfl
@[simp] theorem finish_thr_same (s : St) (i : Nat) (r : Res) :
    (finish s i r).thr i = { (s.thr i) with call := .idle, pc := 0, wpc := none, parked := false, res := some r } := by
  simp [finish]
theorem finish_thr_other (s : St) (i j : Nat) (r : Res) (h : j ≠ i) : (finish s i r).thr j = s.thr j := by
  simp [finish, upd_other _ _ _ _ h]

/-- what thread `i` does next under the programs `P0`, statement by statement -/
def next0 (s : St) (i : Nat) : St :=
  let t := s.thr i
  match t.call, t.pc, t.wpc with
  | .idle, _, _ => s
  -- _receive_signal
  | .recv _, 0, _ => if s.lock = none then { s with lock := some i, thr := upd s.thr i { t with pc := 1 } } else s
  | .recv tag, 1, _ => { s with thr := upd s.thr i { t with sig := ⟨s.g.r.next, tag⟩, pc := 2 } }
  | .recv _, 2, _ => { s with g := setNext s.g (s.g.r.next + 1), thr := upd s.thr i { t with pc := 3 } }
  | .recv tag, 3, _ =>
    if s.g.r.q.length = s.g.r.cap ∧ s.g.r.pol = .new then
      finish { s with g := { s.g with dropped := s.g.dropped ++ [t.sig.seq] }, lin := s.lin ++ [.recv tag] } i .unit
    else { s with thr := upd s.thr i { t with pc := 4 } }
  | .recv tag, 4, _ =>
    { s with g := { setQ s.g (dequeAppend s.g.r.cap s.g.r.q t.sig) with
                    dropped := s.g.dropped ++ ((s.g.r.q ++ [t.sig]).take ((s.g.r.q ++ [t.sig]).length - s.g.r.cap)).map Sig.seq },
             lin := s.lin ++ [.recv tag], thr := upd s.thr i { t with pc := 5 } }
  | .recv _, 5, _ =>
    { s with thr := upd (fun j => if (s.thr j).parked then { (s.thr j) with notified := true } else s.thr j) i
                      { (if t.parked then { t with notified := true } else t) with pc := 6 } }
  | .recv _, _, _ => finish { s with lock := unlock s.lock i } i (t.res.getD .unit)
  -- get_next_signal
  | .get _ _, 0, _ => if s.lock = none then { s with lock := some i, thr := upd s.thr i { t with pc := 1 } } else s
  | .get _ _, 1, _ =>
    match s.g.r.q with
    | [] => { s with thr := upd s.thr i { t with sawEmpty := true, pc := 2 } }
    | _ :: _ => { s with thr := upd s.thr i { t with pc := 3 } }
  | .get _ _, 2, none => { s with thr := upd s.thr i { t with wpc := some 0 } }
  | .get task tmo, 2, some 0 =>
    if t.parked then
      if (t.notified ∨ t.expired) ∧ s.lock = none then { s with lock := some i, thr := upd s.thr i { t with parked := false } } else s
    else if s.g.r.q ≠ [] ∨ (task = true ∧ t.stop = true) then { s with thr := upd s.thr i { t with ret := true, wpc := some 1 } }
    else if t.expired = true ∨ tmo = .zero then { s with thr := upd s.thr i { t with ret := false, wpc := some 1 } }
    else { s with lock := unlock s.lock i, thr := upd s.thr i { t with parked := true, notified := false } }
  | .get true _, 2, some 1 =>
    if t.stop then finish s i .taskStop else { s with thr := upd s.thr i { t with wpc := some 2 } }
  | .get _ _, 2, some _ =>      -- `return ret` (index 1 in a plain thread, 2 in a task)
    if t.ret then { s with thr := upd s.thr i { t with wpc := none, pc := 3 } } else finish s i .timeout
  | .get _ _, _, _ =>
    match s.g.r.q with
    | [] => finish s i .indexErr
    | x :: rest =>
      finish { s with g := { setQ s.g rest with delivered := s.g.delivered ++ [x.seq] }, lin := s.lin ++ [.get],
                      thr := upd s.thr i { t with got := t.got ++ [x.seq] } } i (.sig x)
  -- discard_all
  | .discard, 0, _ => if s.lock = none then { s with lock := some i, thr := upd s.thr i { t with pc := 1 } } else s
  | .discard, 1, _ =>
    { s with g := { setQ s.g [] with discarded := s.g.discarded ++ s.g.r.q.map Sig.seq }, lin := s.lin ++ [.discard],
             thr := upd s.thr i { t with pc := 2 } }
  | .discard, _, _ => finish { s with lock := unlock s.lock i } i (t.res.getD .unit)
  -- get_queue_length / has_signal_ready
  | .query _, 0, _ => if s.lock = none then { s with lock := some i, thr := upd s.thr i { t with pc := 1 } } else s
  | .query ready, 1, _ =>
    { s with thr := upd s.thr i { t with res := some (if ready then .bool (s.g.r.q.length != 0) else .nat s.g.r.q.length), pc := 2 } }
  | .query _, _, _ => finish { s with lock := unlock s.lock i } i (t.res.getD .unit)

/-- on `P0` the generic interpreter is `next0` -/
theorem stepThr_P0 (s : St) (h : LInv s) (i : Nat) : stepThr P0 s i = next0 s i := by
  have hpc := h.pc_ok i
  have hw := h.wpc_get i
  have hp := h.parked_w i
  unfold stepThr next0
  cases hc : (s.thr i).call with
  | idle => simp [hc]
  | recv tag =>
    simp only [hc, pcBound] at hpc
    have hnp : (s.thr i).parked = false := by
      cases hpk : (s.thr i).parked with
      | false => rfl
      | true => have := (hw 0 (hp hpk)).1; simp [hc, isGet] at this
    have : (s.thr i).pc = 0 ∨ (s.thr i).pc = 1 ∨ (s.thr i).pc = 2 ∨ (s.thr i).pc = 3 ∨ (s.thr i).pc = 4 ∨ (s.thr i).pc = 5 ∨ (s.thr i).pc = 6 := by omega
    rcases this with h0 | h0 | h0 | h0 | h0 | h0 | h0 <;>
      simp [h0, hnp, P0, jump, finish, hc]
  | get task tmo =>
    simp only [hc, pcBound] at hpc
    simp only [hc, isGet, isTask] at hw
    cases hwp : (s.thr i).wpc with
    | none =>
      have : (s.thr i).pc = 0 ∨ (s.thr i).pc = 1 ∨ (s.thr i).pc = 2 ∨ (s.thr i).pc = 3 := by omega
      rcases this with h0 | h0 | h0 | h0 <;> simp [h0, P0, jump, finish, hc, hwp]
      · cases s.g.r.q <;> simp
      · cases s.g.r.q <;> simp
    | some w =>
      have h2 := (hw w hwp).2.1
      have hwle := (hw w hwp).2.2
      have hnp : w ≠ 0 → (s.thr i).parked = false := by
        intro hne
        cases hpk : (s.thr i).parked with
        | false => rfl
        | true => have := hp hpk; rw [hwp] at this; cases this; exact absurd rfl hne
      cases task with
      | false =>
        simp only [Bool.false_eq_true, if_false] at hwle
        have : w = 0 ∨ w = 1 := by omega
        rcases this with rfl | rfl
        · simp [h2, P0, jump, finish, hc, hwp]
        · simp [h2, P0, jump, finish, hc, hwp, hnp (by decide)]
      | true =>
        simp only [if_true] at hwle
        have : w = 0 ∨ w = 1 ∨ w = 2 := by omega
        rcases this with rfl | rfl | rfl
        · simp [h2, P0, jump, finish, hc, hwp]
        · simp [h2, P0, jump, finish, hc, hwp, hnp (by decide)]
        · simp [h2, P0, jump, finish, hc, hwp, hnp (by decide)]
  | discard =>
    simp only [hc, pcBound] at hpc
    have : (s.thr i).pc = 0 ∨ (s.thr i).pc = 1 ∨ (s.thr i).pc = 2 := by omega
    rcases this with h0 | h0 | h0 <;> simp [h0, P0, jump, finish, hc]
  | query r =>
    simp only [hc, pcBound] at hpc
    have : (s.thr i).pc = 0 ∨ (s.thr i).pc = 1 ∨ (s.thr i).pc = 2 := by omega
    rcases this with h0 | h0 | h0 <;> cases r <;> simp [h0, P0, jump, finish, hc]

/-- the transitions of thread `i` under `P0`, one constructor per statement and branch, with what the lock discipline
tells about the thread at that point -/
inductive Step0 (s : St) (i : Nat) : St → Prop
  | same : Step0 s i s
  | acquire (hc : (s.thr i).call ≠ .idle) (hpc : (s.thr i).pc = 0) (hl : s.lock = none)
      (hw : (s.thr i).wpc = none) (hp : (s.thr i).parked = false) :
      Step0 s i { s with lock := some i, thr := upd s.thr i { (s.thr i) with pc := 1 } }
  -- _receive_signal
  | mkSig (tag : Nat) (hc : (s.thr i).call = .recv tag) (hpc : (s.thr i).pc = 1) (hl : s.lock = some i) :
      Step0 s i { s with thr := upd s.thr i { (s.thr i) with sig := ⟨s.g.r.next, tag⟩, pc := 2 } }
  | incSeq (tag : Nat) (hc : (s.thr i).call = .recv tag) (hpc : (s.thr i).pc = 2) (hl : s.lock = some i) :
      Step0 s i { s with g := setNext s.g (s.g.r.next + 1), thr := upd s.thr i { (s.thr i) with pc := 3 } }
  | dropNew (tag : Nat) (hc : (s.thr i).call = .recv tag) (hpc : (s.thr i).pc = 3) (hl : s.lock = some i)
      (hfull : s.g.r.q.length = s.g.r.cap ∧ s.g.r.pol = .new) :
      Step0 s i (finish { s with g := { s.g with dropped := s.g.dropped ++ [(s.thr i).sig.seq] }, lin := s.lin ++ [.recv tag] } i .unit)
  | noDrop (tag : Nat) (hc : (s.thr i).call = .recv tag) (hpc : (s.thr i).pc = 3) (hl : s.lock = some i)
      (hfull : ¬ (s.g.r.q.length = s.g.r.cap ∧ s.g.r.pol = .new)) :
      Step0 s i { s with thr := upd s.thr i { (s.thr i) with pc := 4 } }
  | append (tag : Nat) (hc : (s.thr i).call = .recv tag) (hpc : (s.thr i).pc = 4) (hl : s.lock = some i) :
      Step0 s i { s with g := { setQ s.g (dequeAppend s.g.r.cap s.g.r.q (s.thr i).sig) with
                                dropped := s.g.dropped ++ ((s.g.r.q ++ [(s.thr i).sig]).take ((s.g.r.q ++ [(s.thr i).sig]).length - s.g.r.cap)).map Sig.seq },
                         lin := s.lin ++ [.recv tag], thr := upd s.thr i { (s.thr i) with pc := 5 } }
  | notifyAll (tag : Nat) (hc : (s.thr i).call = .recv tag) (hpc : (s.thr i).pc = 5) (hl : s.lock = some i) :
      Step0 s i { s with thr := upd (fun j => if (s.thr j).parked then { (s.thr j) with notified := true } else s.thr j) i
                                  { (s.thr i) with pc := 6 } }
  | endCall (hc : isGet (s.thr i).call = false) (hpc : (s.thr i).pc = pcBound (s.thr i).call) (hpc1 : 1 ≤ (s.thr i).pc)
      (hl : s.lock = some i) :
      Step0 s i (finish { s with lock := unlock s.lock i } i ((s.thr i).res.getD .unit))
  -- get_next_signal
  | testEmpty (task : Bool) (tmo : Tmo) (hc : (s.thr i).call = .get task tmo) (hpc : (s.thr i).pc = 1) (hl : s.lock = some i)
      (hw : (s.thr i).wpc = none) (hq : s.g.r.q = []) :
      Step0 s i { s with thr := upd s.thr i { (s.thr i) with sawEmpty := true, pc := 2 } }
  | testNonEmpty (task : Bool) (tmo : Tmo) (hc : (s.thr i).call = .get task tmo) (hpc : (s.thr i).pc = 1) (hl : s.lock = some i)
      (hw : (s.thr i).wpc = none) (hq : s.g.r.q ≠ []) :
      Step0 s i { s with thr := upd s.thr i { (s.thr i) with pc := 3 } }
  | enterWait (task : Bool) (tmo : Tmo) (hc : (s.thr i).call = .get task tmo) (hpc : (s.thr i).pc = 2) (hl : s.lock = some i)
      (hw : (s.thr i).wpc = none) :
      Step0 s i { s with thr := upd s.thr i { (s.thr i) with wpc := some 0 } }
  | unpark (task : Bool) (tmo : Tmo) (hc : (s.thr i).call = .get task tmo) (hpc : (s.thr i).pc = 2) (hw : (s.thr i).wpc = some 0)
      (hp : (s.thr i).parked = true) (hn : (s.thr i).notified = true ∨ (s.thr i).expired = true) (hl : s.lock = none) :
      Step0 s i { s with lock := some i, thr := upd s.thr i { (s.thr i) with parked := false } }
  | waitTrue (task : Bool) (tmo : Tmo) (hc : (s.thr i).call = .get task tmo) (hpc : (s.thr i).pc = 2) (hw : (s.thr i).wpc = some 0)
      (hp : (s.thr i).parked = false) (hl : s.lock = some i) (hpred : s.g.r.q ≠ [] ∨ (task = true ∧ (s.thr i).stop = true)) :
      Step0 s i { s with thr := upd s.thr i { (s.thr i) with ret := true, wpc := some 1 } }
  | waitExpired (task : Bool) (tmo : Tmo) (hc : (s.thr i).call = .get task tmo) (hpc : (s.thr i).pc = 2) (hw : (s.thr i).wpc = some 0)
      (hp : (s.thr i).parked = false) (hl : s.lock = some i) (hpred : ¬ (s.g.r.q ≠ [] ∨ (task = true ∧ (s.thr i).stop = true)))
      (hexp : (s.thr i).expired = true ∨ tmo = .zero) :
      Step0 s i { s with thr := upd s.thr i { (s.thr i) with ret := false, wpc := some 1 } }
  | park (task : Bool) (tmo : Tmo) (hc : (s.thr i).call = .get task tmo) (hpc : (s.thr i).pc = 2) (hw : (s.thr i).wpc = some 0)
      (hp : (s.thr i).parked = false) (hl : s.lock = some i) (hpred : ¬ (s.g.r.q ≠ [] ∨ (task = true ∧ (s.thr i).stop = true)))
      (hexp : ¬ ((s.thr i).expired = true ∨ tmo = .zero)) :
      Step0 s i { s with lock := unlock s.lock i, thr := upd s.thr i { (s.thr i) with parked := true, notified := false } }
  | taskStop (tmo : Tmo) (hc : (s.thr i).call = .get true tmo) (hpc : (s.thr i).pc = 2) (hw : (s.thr i).wpc = some 1)
      (hp : (s.thr i).parked = false) (hl : s.lock = some i) (hstop : (s.thr i).stop = true) :
      Step0 s i (finish s i .taskStop)
  | taskNoStop (tmo : Tmo) (hc : (s.thr i).call = .get true tmo) (hpc : (s.thr i).pc = 2) (hw : (s.thr i).wpc = some 1)
      (hp : (s.thr i).parked = false) (hl : s.lock = some i) (hstop : (s.thr i).stop = false) :
      Step0 s i { s with thr := upd s.thr i { (s.thr i) with wpc := some 2 } }
  | retTrue (task : Bool) (tmo : Tmo) (hc : (s.thr i).call = .get task tmo) (hpc : (s.thr i).pc = 2)
      (hw : (s.thr i).wpc = some (if task then 2 else 1))
      (hp : (s.thr i).parked = false) (hl : s.lock = some i) (hret : (s.thr i).ret = true) :
      Step0 s i { s with thr := upd s.thr i { (s.thr i) with wpc := none, pc := 3 } }
  | retFalse (task : Bool) (tmo : Tmo) (hc : (s.thr i).call = .get task tmo) (hpc : (s.thr i).pc = 2)
      (hw : (s.thr i).wpc = some (if task then 2 else 1))
      (hp : (s.thr i).parked = false) (hl : s.lock = some i) (hret : (s.thr i).ret = false) :
      Step0 s i (finish s i .timeout)
  | popEmpty (task : Bool) (tmo : Tmo) (hc : (s.thr i).call = .get task tmo) (hpc : (s.thr i).pc = 3) (hl : s.lock = some i)
      (hw : (s.thr i).wpc = none) (hq : s.g.r.q = []) :
      Step0 s i (finish s i .indexErr)
  | pop (task : Bool) (tmo : Tmo) (x : Sig) (rest : List Sig) (hc : (s.thr i).call = .get task tmo) (hpc : (s.thr i).pc = 3)
      (hl : s.lock = some i) (hw : (s.thr i).wpc = none) (hq : s.g.r.q = x :: rest) :
      Step0 s i (finish { s with g := { setQ s.g rest with delivered := s.g.delivered ++ [x.seq] }, lin := s.lin ++ [.get],
                                 thr := upd s.thr i { (s.thr i) with got := (s.thr i).got ++ [x.seq] } } i (.sig x))
  -- discard_all
  | clear (hc : (s.thr i).call = .discard) (hpc : (s.thr i).pc = 1) (hl : s.lock = some i) :
      Step0 s i { s with g := { setQ s.g [] with discarded := s.g.discarded ++ s.g.r.q.map Sig.seq }, lin := s.lin ++ [.discard],
                         thr := upd s.thr i { (s.thr i) with pc := 2 } }
  -- get_queue_length / has_signal_ready
  | readLen (ready : Bool) (hc : (s.thr i).call = .query ready) (hpc : (s.thr i).pc = 1) (hl : s.lock = some i) :
      Step0 s i { s with thr := upd s.thr i { (s.thr i) with
        res := some (if ready then .bool (s.g.r.q.length != 0) else .nat s.g.r.q.length), pc := 2 } }

theorem holds_of_inside {s : St} (h : LInv s) (i : Nat) (h1 : (s.thr i).call ≠ .idle) (h2 : 1 ≤ (s.thr i).pc)
    (h3 : (s.thr i).parked = false) : s.lock = some i := by
  apply (h.holder i).1
  unfold inside
  cases hc : (s.thr i).call <;> simp_all

theorem not_parked_of_not_get {s : St} (h : LInv s) (i : Nat) (h1 : isGet (s.thr i).call = false) :
    (s.thr i).parked = false ∧ (s.thr i).wpc = none := by
  have hw := h.wpc_get i
  have hp := h.parked_w i
  constructor
  · cases hpk : (s.thr i).parked with
    | false => rfl
    | true => have := (hw 0 (hp hpk)).1; simp [h1] at this
  · cases hwp : (s.thr i).wpc with
    | none => rfl
    | some w => have := (hw w hwp).1; simp [h1] at this

theorem next0_Step0 (s : St) (h : LInv s) (i : Nat) : Step0 s i (next0 s i) := by
  have hpc := h.pc_ok i
  have hw := h.wpc_get i
  have hp := h.parked_w i
  cases hc : (s.thr i).call with
  | idle => simp only [next0, hc]; exact .same
  | recv tag =>
    simp only [hc, pcBound] at hpc
    obtain ⟨hnp, hnw⟩ := not_parked_of_not_get h i (by simp [hc, isGet])
    have hne : (s.thr i).call ≠ .idle := by simp [hc]
    have hh : 1 ≤ (s.thr i).pc → s.lock = some i := fun h1 => holds_of_inside h i hne h1 hnp
    have : (s.thr i).pc = 0 ∨ (s.thr i).pc = 1 ∨ (s.thr i).pc = 2 ∨ (s.thr i).pc = 3 ∨ (s.thr i).pc = 4 ∨ (s.thr i).pc = 5 ∨ (s.thr i).pc = 6 := by omega
    rcases this with h0 | h0 | h0 | h0 | h0 | h0 | h0
    · simp only [next0, hc, h0]; split
      · have := Step0.acquire (s := s) (i := i) hne h0 ‹_› hnw hnp
        simpa only [hc] using this
      · exact .same
    · have := Step0.mkSig (s := s) (i := i) tag hc h0 (hh (by omega))
      simpa only [next0, hc, h0] using this
    · have := Step0.incSeq (s := s) (i := i) tag hc h0 (hh (by omega))
      simpa only [next0, hc, h0] using this
    · simp only [next0, hc, h0]; split
      · have := Step0.dropNew (s := s) (i := i) tag hc h0 (hh (by omega)) ‹_›
        simpa only [hc] using this
      · have := Step0.noDrop (s := s) (i := i) tag hc h0 (hh (by omega)) ‹_›
        simpa only [hc] using this
    · have := Step0.append (s := s) (i := i) tag hc h0 (hh (by omega))
      simpa only [next0, hc, h0] using this
    · have := Step0.notifyAll (s := s) (i := i) tag hc h0 (hh (by omega))
      simpa only [next0, hc, h0, hnp, Bool.false_eq_true, if_false] using this
    · have := Step0.endCall (s := s) (i := i) (by simp [hc, isGet]) (by simp [hc, pcBound, h0]) (by omega) (hh (by omega))
      simpa only [next0, hc, h0] using this
  | get task tmo =>
    simp only [hc, pcBound] at hpc
    simp only [hc, isGet, isTask] at hw
    have hne : (s.thr i).call ≠ .idle := by simp [hc]
    cases hwp : (s.thr i).wpc with
    | none =>
      have hnp : (s.thr i).parked = false := by
        cases hpk : (s.thr i).parked with
        | false => rfl
        | true => have := hp hpk; rw [hwp] at this; cases this
      have hh : 1 ≤ (s.thr i).pc → s.lock = some i := fun h1 => holds_of_inside h i hne h1 hnp
      have : (s.thr i).pc = 0 ∨ (s.thr i).pc = 1 ∨ (s.thr i).pc = 2 ∨ (s.thr i).pc = 3 := by omega
      rcases this with h0 | h0 | h0 | h0
      · simp only [next0, hc, h0]; split
        · have := Step0.acquire (s := s) (i := i) hne h0 ‹_› hwp hnp
          simpa only [hc] using this
        · exact .same
      · cases hq : s.g.r.q with
        | nil =>
          have := Step0.testEmpty (s := s) (i := i) task tmo hc h0 (hh (by omega)) hwp hq
          simpa only [next0, hc, h0, hq] using this
        | cons x rest =>
          have := Step0.testNonEmpty (s := s) (i := i) task tmo hc h0 (hh (by omega)) hwp (by simp [hq])
          simpa only [next0, hc, h0, hq] using this
      · have := Step0.enterWait (s := s) (i := i) task tmo hc h0 (hh (by omega)) hwp
        simpa only [next0, hc, h0, hwp] using this
      · cases hq : s.g.r.q with
        | nil =>
          have := Step0.popEmpty (s := s) (i := i) task tmo hc h0 (hh (by omega)) hwp hq
          simpa only [next0, hc, h0, hq] using this
        | cons x rest =>
          have := Step0.pop (s := s) (i := i) task tmo x rest hc h0 (hh (by omega)) hwp hq
          simpa only [next0, hc, h0, hq] using this
    | some w =>
      have h2 := (hw w hwp).2.1
      have hwle := (hw w hwp).2.2
      have hnp : w ≠ 0 → (s.thr i).parked = false := by
        intro hne
        cases hpk : (s.thr i).parked with
        | false => rfl
        | true => have := hp hpk; rw [hwp] at this; cases this; exact absurd rfl hne
      have hh : (s.thr i).parked = false → s.lock = some i := fun h3 => holds_of_inside h i hne (by omega) h3
      have hw0 : w = 0 → Step0 s i (next0 s i) := by
        intro h0; subst h0
        cases hpk : (s.thr i).parked with
        | true =>
          by_cases hcond : ((s.thr i).notified = true ∨ (s.thr i).expired = true) ∧ s.lock = none
          · have := Step0.unpark (s := s) (i := i) task tmo hc h2 hwp hpk hcond.1 hcond.2
            simpa only [next0, hc, h2, hwp, hpk, if_true, hcond, and_self] using this
          · simp only [next0, hc, h2, hwp, hpk, if_true, hcond, if_false]; exact .same
        | false =>
          by_cases hpred : s.g.r.q ≠ [] ∨ (task = true ∧ (s.thr i).stop = true)
          · have := Step0.waitTrue (s := s) (i := i) task tmo hc h2 hwp hpk (hh hpk) hpred
            simpa only [next0, hc, h2, hwp, hpk, Bool.false_eq_true, if_false, hpred, if_true] using this
          · by_cases hexp : (s.thr i).expired = true ∨ tmo = .zero
            · have := Step0.waitExpired (s := s) (i := i) task tmo hc h2 hwp hpk (hh hpk) hpred hexp
              simpa only [next0, hc, h2, hwp, hpk, Bool.false_eq_true, if_false, hpred, hexp, if_true] using this
            · have := Step0.park (s := s) (i := i) task tmo hc h2 hwp hpk (hh hpk) hpred hexp
              simpa only [next0, hc, h2, hwp, hpk, Bool.false_eq_true, if_false, hpred, hexp] using this
      have hret : w = (if task then 2 else 1) → Step0 s i (next0 s i) := by
        intro hwe
        have hpk : (s.thr i).parked = false := hnp (by subst hwe; cases task <;> simp)
        cases hr : (s.thr i).ret with
        | true =>
          have := Step0.retTrue (s := s) (i := i) task tmo hc h2 (hwe ▸ hwp) hpk (hh hpk) hr
          cases task <;> simp only [Bool.false_eq_true, if_false, if_true] at hwe <;> subst hwe <;>
            simpa only [next0, hc, h2, hwp, hr, if_true] using this
        | false =>
          have := Step0.retFalse (s := s) (i := i) task tmo hc h2 (hwe ▸ hwp) hpk (hh hpk) hr
          cases task <;> simp only [Bool.false_eq_true, if_false, if_true] at hwe <;> subst hwe <;>
            simpa only [next0, hc, h2, hwp, hr, Bool.false_eq_true, if_false] using this
      cases task with
      | false =>
        simp only [Bool.false_eq_true, if_false] at hwle
        have : w = 0 ∨ w = 1 := by omega
        rcases this with h0 | h0
        · exact hw0 h0
        · exact hret (by simp [h0])
      | true =>
        simp only [if_true] at hwle
        have : w = 0 ∨ w = 1 ∨ w = 2 := by omega
        rcases this with h0 | h0 | h0
        · exact hw0 h0
        · subst h0
          have hpk : (s.thr i).parked = false := hnp (by decide)
          cases hst : (s.thr i).stop with
          | true =>
            have := Step0.taskStop (s := s) (i := i) tmo hc h2 hwp hpk (hh hpk) hst
            simpa only [next0, hc, h2, hwp, hst, if_true] using this
          | false =>
            have := Step0.taskNoStop (s := s) (i := i) tmo hc h2 hwp hpk (hh hpk) hst
            simpa only [next0, hc, h2, hwp, hst, Bool.false_eq_true, if_false] using this
        · exact hret (by simp [h0])
  | discard =>
    simp only [hc, pcBound] at hpc
    obtain ⟨hnp, hnw⟩ := not_parked_of_not_get h i (by simp [hc, isGet])
    have hne : (s.thr i).call ≠ .idle := by simp [hc]
    have hh : 1 ≤ (s.thr i).pc → s.lock = some i := fun h1 => holds_of_inside h i hne h1 hnp
    have : (s.thr i).pc = 0 ∨ (s.thr i).pc = 1 ∨ (s.thr i).pc = 2 := by omega
    rcases this with h0 | h0 | h0
    · simp only [next0, hc, h0]; split
      · have := Step0.acquire (s := s) (i := i) hne h0 ‹_› hnw hnp
        simpa only [hc] using this
      · exact .same
    · have := Step0.clear (s := s) (i := i) hc h0 (hh (by omega))
      simpa only [next0, hc, h0] using this
    · have := Step0.endCall (s := s) (i := i) (by simp [hc, isGet]) (by simp [hc, pcBound, h0]) (by omega) (hh (by omega))
      simpa only [next0, hc, h0] using this
  | query r =>
    simp only [hc, pcBound] at hpc
    obtain ⟨hnp, hnw⟩ := not_parked_of_not_get h i (by simp [hc, isGet])
    have hne : (s.thr i).call ≠ .idle := by simp [hc]
    have hh : 1 ≤ (s.thr i).pc → s.lock = some i := fun h1 => holds_of_inside h i hne h1 hnp
    have : (s.thr i).pc = 0 ∨ (s.thr i).pc = 1 ∨ (s.thr i).pc = 2 := by omega
    rcases this with h0 | h0 | h0
    · simp only [next0, hc, h0]; split
      · have := Step0.acquire (s := s) (i := i) hne h0 ‹_› hnw hnp
        simpa only [hc] using this
      · exact .same
    · have := Step0.readLen (s := s) (i := i) r hc h0 (hh (by omega))
      simpa only [next0, hc, h0] using this
    · have := Step0.endCall (s := s) (i := i) (by simp [hc, isGet]) (by simp [hc, pcBound, h0]) (by omega) (hh (by omega))
      simpa only [next0, hc, h0] using this

end QmiModel.RecvConc
