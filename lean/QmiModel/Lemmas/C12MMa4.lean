import QmiModel.Lemmas.C12MM
namespace QmiModel.Context
/-- kernel-checked: first maker `task` (constructor raises: false) against every second maker under all 512 schedules -/
theorem mmTable_task_false : mmTable (mmMk .task false) = true := by decide +kernel
end QmiModel.Context
