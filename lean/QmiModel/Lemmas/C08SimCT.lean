import QmiModel.Lemmas.C08SimObj
import QmiModel.Lemmas.C08Abs
/-! C08, simulation layer — content typing of requests (`CtInv`): wherever a subscription request is (program, event-loop
queue, pending table of a connection end, the server's inbox, the server's handler), the client's pending-request tables
say what it asks for. -/
set_option linter.unusedSimpArgs false
namespace QmiModel.PubSub

/-- request message `m`, sent to `d`, is the outstanding request of a pending object with that key and direction -/
def reqTyped (cs : CtxSt) (d : Peer) : Msg → Prop
  | .subReq id ob sg b => ∃ pid po, cs.byId id = some pid ∧ cs.pobj pid = some po ∧ po.key = ⟨d, ob, sg⟩ ∧ po.sub = b
  | _ => True

/-- the table entries of request `id` keep what they say about key and direction -/
def PKeep (cs cs' : CtxSt) (id : ReqId) : Prop :=
  ∀ pid po, cs.byId id = some pid → cs.pobj pid = some po →
    cs'.byId id = some pid ∧ ∃ po', cs'.pobj pid = some po' ∧ po'.key = po.key ∧ po'.sub = po.sub

theorem PKeep.rfl' (cs : CtxSt) (id : ReqId) : PKeep cs cs id := fun _ po h1 h2 => ⟨h1, po, h2, rfl, rfl⟩

theorem reqTyped.keep {cs cs' : CtxSt} {d : Peer} {m : Msg} (h : reqTyped cs d m)
    (hk : ∀ id, m.reqId? = some id → PKeep cs cs' id) : reqTyped cs' d m := by
  cases m with
  | subReq id ob sg b =>
    obtain ⟨pid, po, h1, h2, h3, h4⟩ := h
    obtain ⟨g1, po', g2, g3, g4⟩ := hk id rfl pid po h1 h2
    exact ⟨pid, po', g1, g2, g3 ▸ h3, g4 ▸ h4⟩
  | _ => trivial

theorem handleReplyStep_pkeep {cs cs' : CtxSt} {id0 : ReqId} {ok : Bool} {more : List MOp} {o : Out} (hp : PendOk cs)
    (h : handleReplyStep cs id0 ok = some (cs', more, o)) (id : ReqId) (hne : id ≠ id0) : PKeep cs cs' id := by
  have a1 := hp.byId_some
  have a3 := hp.byId_inj
  have a4 := hp.fresh
  unfold handleReplyStep at h
  split at h
  · simp only [Option.some.injEq, Prod.mk.injEq] at h; obtain ⟨rfl, -, -⟩ := h; exact PKeep.rfl' _ _
  · split at h
    · simp only [Option.some.injEq, Prod.mk.injEq] at h; obtain ⟨rfl, -, -⟩ := h; exact PKeep.rfl' _ _
    · split at h
      · simp only [Option.some.injEq, Prod.mk.injEq] at h; obtain ⟨rfl, -, -⟩ := h
        intro pid po h1 h2; simp only [upd]; grind
      · split at h
        · simp only [Option.some.injEq, Prod.mk.injEq] at h; obtain ⟨rfl, -, -⟩ := h
          intro pid po h1 h2; simp only [upd]; grind
        · simp only [Option.some.injEq, Prod.mk.injEq] at h; obtain ⟨rfl, -, -⟩ := h
          intro pid po h1 h2; simp only [upd]; grind

set_option maxHeartbeats 4000000 in
theorem microStep_pkeep {s s' : State} {th : Th} {ch ch2 : Nat} {op : MOp} {rest : List MOp} {o : Out}
    (hp : PendOk (s.ctx th.ctx)) (hs : microStep s th ch ch2 op rest = some (s', o)) (id : ReqId)
    (hne : ∀ ok, op ≠ .handleReply id ok) : PKeep (s.ctx th.ctx) (s'.ctx th.ctx) id := by
  have a1 := hp.byId_some
  have a3 := hp.byId_inj
  have a4 := hp.fresh
  cases op <;> simp only [microStep] at hs
  all_goals (try (split at hs))
  all_goals (try (split at hs))
  all_goals (try (split at hs))
  all_goals (try (split at hs))
  all_goals (try (simp at hs))
  all_goals (try (have f2 := handleReplyStep_pkeep hp ‹handleReplyStep _ _ _ = some _› id (fun e => hne _ (by rw [e]))))
  all_goals (try (obtain ⟨rfl, -⟩ := hs))
  all_goals (simp only [setProg_ctx, setCtx_ctx, State.setProg, if_true])
  all_goals (first | exact PKeep.rfl' _ _ | exact f2 | skip)
  all_goals (intro pid po h1 h2; simp only [upd, peerRemovedStep])
  all_goals (first | grind | (refine ⟨h1, _, by rw [h2]; rfl, by simp, by simp⟩))


structure CtInv (s : State) : Prop where
  ops : ∀ th d m, (MOp.sendChk d m ∈ s.prog th ∨ MOp.enq d m ∈ s.prog th) → reqTyped (s.ctx th.ctx) d m
  cbs : ∀ c d m, Cb.smSend d m ∈ (s.ctx c).loopQ → reqTyped (s.ctx c) d m
  pend : ∀ n id, id ∈ ((s.conn n).half true).pend →
    ∃ pid po, (s.ctx (cliOf s n)).byId id = some pid ∧ (s.ctx (cliOf s n)).pobj pid = some po ∧ po.key.pc = .name (srvOf s n)
  srvIn : ∀ n m, m ∈ ((s.conn n).half false).inbox → ((s.conn n).half true).isOpen = true →
    reqTyped (s.ctx (cliOf s n)) (.name (srvOf s n)) m
  hdl : ∀ th n id ob sg, (MOp.reqChk1 (.alias n) id ob sg ∈ s.prog th ∨ MOp.reqChk2 (.alias n) id ob sg ∈ s.prog th) →
    ((s.conn n).half true).isOpen = true → reqTyped (s.ctx (cliOf s n)) (.name (srvOf s n)) (.subReq id ob sg true)
  rem : ∀ th n id ob sg ok, s.prog th = [.removeRemote (.alias n) ob sg, .sendChk (.alias n) (.subReply id ok)] →
    ((s.conn n).half true).isOpen = true → ∃ b, reqTyped (s.ctx (cliOf s n)) (.name (srvOf s n)) (.subReq id ob sg b)

theorem ctInv_init : CtInv State.init := by
  constructor
  · intro th d m h; simp [State.init] at h
  · intro c d m h; simp [State.init, CtxSt.init] at h
  · intro n id h; simp [State.init, Conn.half, Half.init] at h
  · intro n m h; simp [State.init, Conn.half, Half.init] at h
  · intro th n id ob sg h; simp [State.init] at h
  · intro th n id ob sg ok h; simp [State.init] at h

theorem handleReplyStep_new_typed {cs cs' : CtxSt} {id0 : ReqId} {ok : Bool} {more : List MOp} {o : Out}
    (h : handleReplyStep cs id0 ok = some (cs', more, o)) : ∀ d m, MOp.sendChk d m ∈ more → reqTyped cs' d m := by
  unfold handleReplyStep at h
  split at h
  · simp only [Option.some.injEq, Prod.mk.injEq] at h; obtain ⟨-, rfl, -⟩ := h; simp
  · split at h
    · simp only [Option.some.injEq, Prod.mk.injEq] at h; obtain ⟨-, rfl, -⟩ := h; simp
    · split at h
      · simp only [Option.some.injEq, Prod.mk.injEq] at h; obtain ⟨-, rfl, -⟩ := h; simp
      · split at h
        · rename_i _ pid _ _ po _ _ _
          simp only [Option.some.injEq, Prod.mk.injEq] at h; obtain ⟨rfl, rfl, -⟩ := h
          intro d m hm
          simp only [List.mem_singleton, MOp.sendChk.injEq] at hm
          obtain ⟨rfl, rfl⟩ := hm
          exact ⟨pid, { po with sub := true, cancelled := false, cur := cs.nextReq }, by simp [upd], by simp [upd], rfl, rfl⟩
        · simp only [Option.some.injEq, Prod.mk.injEq] at h; obtain ⟨-, rfl, -⟩ := h; simp

theorem onSendFail_no_send (m' : Msg) (d : Peer) (m : Msg) : MOp.sendChk d m ∉ onSendFail m' ∧ MOp.enq d m ∉ onSendFail m' := by
  cases m' <;> simp [onSendFail]

set_option maxHeartbeats 4000000 in
/-- a send operation in the program after a micro step was there before, or is the hand-over of the head `sendChk` to the
event loop, or is new and typed (a new request, or not a request at all) -/
theorem microStep_carrier_typed {s s' : State} {th : Th} {ch ch2 : Nat} {op : MOp} {rest : List MOp} {o : Out}
    (hs : microStep s th ch ch2 op rest = some (s', o)) (d : Peer) (m : Msg)
    (hm : MOp.sendChk d m ∈ s'.prog th ∨ MOp.enq d m ∈ s'.prog th) :
    (MOp.sendChk d m ∈ rest ∨ MOp.enq d m ∈ rest) ∨ op = .sendChk d m ∨ reqTyped (s'.ctx th.ctx) d m := by
  cases op <;> simp only [microStep] at hs
  all_goals (try (split at hs))
  all_goals (try (split at hs))
  all_goals (try (split at hs))
  all_goals (try (split at hs))
  all_goals (try (simp at hs))
  all_goals (try (have f2 := handleReplyStep_new_typed ‹handleReplyStep _ _ _ = some _› d m))
  all_goals (try (obtain ⟨rfl, -⟩ := hs))
  all_goals (simp only [setProg_prog, if_true, State.setProg, upd, setProg_ctx, setCtx_ctx] at hm ⊢)
  all_goals (try (split at hm))
  all_goals (try (simp only [List.mem_cons, List.mem_append, List.not_mem_nil, or_false, false_or, List.mem_map, reduceCtorEq,
    MOp.sendChk.injEq, MOp.enq.injEq, false_and, exists_false, and_false] at hm))
  all_goals (first | (exact Or.inl hm) | skip)
  all_goals (try (refine Or.elim hm (fun hm => ?_) (fun hm => ?_)))
  all_goals (try (refine Or.elim hm (fun hm => ?_) (fun hm => ?_)))
  all_goals (try (refine Or.elim hm (fun hm => ?_) (fun hm => ?_)))
  all_goals (first
    | (exact Or.inl (Or.inl hm))
    | (exact Or.inl (Or.inr hm))
    | (exact Or.inr (Or.inr (f2 hm)))
    | (obtain ⟨rfl, rfl⟩ := hm; exact Or.inr (Or.inl rfl))
    | (obtain ⟨rfl, rfl⟩ := hm; exact Or.inr (Or.inr trivial))
    | (obtain ⟨rfl, rfl⟩ := hm; right; right; simp [reqTyped, upd]; done)
    | (exact absurd hm (onSendFail_no_send _ _ _).1)
    | (exact absurd hm (onSendFail_no_send _ _ _).2)
    | (obtain ⟨_, _, _, _, e⟩ := handleReplyStep_pushes ‹handleReplyStep _ _ _ = some _› _ hm; cases e)
    | skip)


theorem pushes_reqChk1 {op : MOp} {src : Peer} {id : ReqId} {ob : Obj} {sg : Sg} (hp : Pushes op (.reqChk1 src id ob sg)) : False := by
  cases op with
  | snapLocal => obtain ⟨_, _, e⟩ := hp; cases e
  | deliver => obtain ⟨_, e⟩ := hp; cases e
  | snapRemote => obtain ⟨_, e⟩ := hp; cases e
  | pubSend => rcases hp with ⟨_, e⟩ | ⟨_, e⟩ <;> cases e
  | sendChk d m =>
    rcases hp with e | hp
    · cases e
    · cases m <;> simp [onSendFail] at hp
  | chkObj2 => simp only [Pushes] at hp; cases hp
  | subRemote => rcases hp with ⟨_, e⟩ | ⟨_, e⟩ <;> cases e
  | unsubRemote => obtain ⟨_, e⟩ := hp; cases e
  | handleReply => obtain ⟨_, _, _, _, e⟩ := hp; cases e
  | objRemoved => obtain ⟨_, e⟩ := hp; cases e
  | notify => rcases hp with ⟨_, _, e⟩ | ⟨_, e⟩ <;> cases e
  | reqChk1 => rcases hp with e | e | e <;> cases e
  | reqChk2 => rcases hp with e | e | e <;> cases e
  | closeConn => obtain ⟨_, e⟩ := hp; cases e
  | _ => simp only [Pushes] at hp

theorem pushes_reqChk2 {op : MOp} {src : Peer} {id : ReqId} {ob : Obj} {sg : Sg} (hp : Pushes op (.reqChk2 src id ob sg)) : op = .reqChk1 src id ob sg := by
  cases op with
  | snapLocal => obtain ⟨_, _, e⟩ := hp; cases e
  | deliver => obtain ⟨_, e⟩ := hp; cases e
  | snapRemote => obtain ⟨_, e⟩ := hp; cases e
  | pubSend => rcases hp with ⟨_, e⟩ | ⟨_, e⟩ <;> cases e
  | sendChk d m =>
    rcases hp with e | hp
    · cases e
    · cases m <;> simp [onSendFail] at hp
  | chkObj2 => simp only [Pushes] at hp; cases hp
  | subRemote => rcases hp with ⟨_, e⟩ | ⟨_, e⟩ <;> cases e
  | unsubRemote => obtain ⟨_, e⟩ := hp; cases e
  | handleReply => obtain ⟨_, _, _, _, e⟩ := hp; cases e
  | objRemoved => obtain ⟨_, e⟩ := hp; cases e
  | notify => rcases hp with ⟨_, _, e⟩ | ⟨_, e⟩ <;> cases e
  | reqChk1 => rcases hp with e | e | e <;> cases e <;> rfl
  | reqChk2 => rcases hp with e | e | e <;> cases e
  | closeConn => obtain ⟨_, e⟩ := hp; cases e
  | _ => simp only [Pushes] at hp

/-- a handler check operation in the program after a micro step was in the program before -/
theorem microStep_hdl_old {s s' : State} {th : Th} {ch ch2 : Nat} {op : MOp} {rest : List MOp} {o : Out}
    (hs : microStep s th ch ch2 op rest = some (s', o)) {src : Peer} {id : ReqId} {ob : Obj} {sg : Sg}
    (hm : MOp.reqChk1 src id ob sg ∈ s'.prog th ∨ MOp.reqChk2 src id ob sg ∈ s'.prog th) :
    MOp.reqChk1 src id ob sg ∈ op :: rest ∨ MOp.reqChk2 src id ob sg ∈ op :: rest := by
  rcases microStep_prog hs with ⟨pushed, hp, hpu⟩ | ⟨⟨e, t, hp⟩, -⟩ | ⟨hp, -⟩
  · rw [hp] at hm
    rcases hm with hm | hm
    · rcases List.mem_append.1 hm with h1 | h1
      · exact (pushes_reqChk1 (hpu _ h1)).elim
      · exact Or.inl (List.mem_cons_of_mem _ h1)
    · rcases List.mem_append.1 hm with h1 | h1
      · exact Or.inl (by rw [pushes_reqChk2 (hpu _ h1)]; exact List.mem_cons_self)
      · exact Or.inr (List.mem_cons_of_mem _ h1)
  · rw [hp] at hm; simp at hm
  · rw [hp] at hm; simp at hm

/-- the program `[removeRemote, sendChk reply]` comes from the second object check of the handler -/
theorem microStep_rem_origin {s s' : State} {th : Th} {ch ch2 : Nat} {op : MOp} {rest : List MOp} {o : Out}
    (hd : dspFree (op :: rest) ∨ DspForm (op :: rest)) (hs : microStep s th ch ch2 op rest = some (s', o))
    {src : Peer} {id : ReqId} {ob : Obj} {sg : Sg} {ok : Bool}
    (hp : s'.prog th = [.removeRemote src ob sg, .sendChk src (.subReply id ok)]) : op = .reqChk2 src id ob sg := by
  rcases hd with hfree | hform
  · have := dspFree_micro hfree hs (.removeRemote src ob sg) (by rw [hp]; exact List.mem_cons_self)
    simp [MOp.isDsp] at this
  · generalize hl : op :: rest = l at hform
    cases hform <;> simp only [List.cons.injEq] at hl <;> obtain ⟨rfl, rfl⟩ := hl <;> simp only [microStep] at hs
    case chk1 => split at hs <;> simp only [Option.some.injEq, Prod.mk.injEq] at hs <;> obtain ⟨rfl, -⟩ := hs <;> simp at hp
    case add => simp only [Option.some.injEq, Prod.mk.injEq] at hs; obtain ⟨rfl, -⟩ := hs; simp at hp
    case chk2 =>
      split at hs <;> simp only [Option.some.injEq, Prod.mk.injEq] at hs <;> obtain ⟨rfl, -⟩ := hs <;> simp at hp
      obtain ⟨⟨rfl, rfl, rfl⟩, -, rfl, -⟩ := hp; rfl
    case rem => simp only [Option.some.injEq, Prod.mk.injEq] at hs; obtain ⟨rfl, -⟩ := hs; simp at hp
    case snd =>
      split at hs <;> simp only [Option.some.injEq, Prod.mk.injEq] at hs <;> obtain ⟨rfl, -⟩ := hs <;>
        simp [State.setProg, upd, onSendFail] at hp
    case enq => simp only [Option.some.injEq, Prod.mk.injEq] at hs; obtain ⟨rfl, -⟩ := hs; simp at hp
    case hr =>
      split at hs
      · simp at hs
      · rename_i cs' more o' heq
        simp only [Option.some.injEq, Prod.mk.injEq] at hs; obtain ⟨rfl, -⟩ := hs
        simp only [setProg_prog, if_true, List.append_nil] at hp
        obtain ⟨_, _, _, _, e⟩ := handleReplyStep_pushes heq (.removeRemote src ob sg) (by rw [hp]; exact List.mem_cons_self)
        cases e
    case sr => simp only [Option.some.injEq, Prod.mk.injEq] at hs; obtain ⟨rfl, -⟩ := hs; simp at hp


theorem mem_progIds_of_send {l : List MOp} {d : Peer} {m : Msg} {id : ReqId}
    (h : MOp.sendChk d m ∈ l ∨ MOp.enq d m ∈ l) (hid : m.reqId? = some id) : id ∈ progIds l := by
  simp only [progIds, List.mem_filterMap]
  rcases h with h | h
  · exact ⟨_, h, by simpa [MOp.carId] using hid⟩
  · exact ⟨_, h, by simpa [MOp.carId] using hid⟩

theorem mem_lqIds_of_send {l : List Cb} {d : Peer} {m : Msg} {id : ReqId}
    (h : Cb.smSend d m ∈ l) (hid : m.reqId? = some id) : id ∈ lqIds l := by
  simp only [lqIds, List.mem_filterMap]
  exact ⟨_, h, by simpa [Cb.carId] using hid⟩

/-- a request that is with the server of connection `n` is in the pending table of the client end -/
theorem srv_in_pend {s : State} (hsrv : SrvInv s) {n : ConnId} (ho : ((s.conn n).half true).isOpen = true) {id : ReqId}
    (h : id ∈ srvPipe s n) : id ∈ ((s.conn n).half true).pend := (hsrv.pipe n ho).subset h

theorem srvPipe_inbox {s : State} {n : ConnId} {m : Msg} {id : ReqId} (h : m ∈ ((s.conn n).half false).inbox)
    (hid : m.reqId? = some id) : id ∈ srvPipe s n := by
  simp only [srvPipe, List.mem_append, List.mem_filterMap]
  exact Or.inr ⟨m, h, hid⟩

theorem srvPipe_prog {s : State} {n : ConnId} {op : MOp} {id : ReqId}
    (h : op ∈ s.prog (.sock ((s.conn n).half false).owner)) (hid : opSrvId n op = some id) : id ∈ srvPipe s n := by
  simp only [srvPipe, srvIds, List.mem_append, List.mem_filterMap]
  exact Or.inl (Or.inr ⟨op, h, hid⟩)

/-- a handler operation for the alias of connection `n` runs in the socket thread of the server end's owner -/
theorem hdl_thread {s : State} (hdsp : DspInv s) {th : Th} {op : MOp} {n : ConnId} (hm : op ∈ s.prog th)
    (hsrc : op.hdlSrc = some (.alias n)) : th = .sock ((s.conn n).half false).owner := by
  have hc := hdsp.own th op n hm hsrc
  cases th with
  | sock c => simp only [Th.ctx] at hc; rw [hc]
  | user c t =>
    have := hdsp.user c t op hm
    cases op <;> simp only [MOp.hdlSrc] at hsrc <;> (try (cases hsrc; done)) <;> (try (simp [MOp.isDsp] at this; done))
    all_goals (rename_i d m; cases m <;> simp only [MOp.hdlSrc] at hsrc <;> (try (cases hsrc; done)) <;> simp [MOp.isDsp] at this)


set_option maxHeartbeats 1000000 in
theorem ctInv_micro {s s' : State} {th : Th} {ch ch2 : Nat} {op : MOp} {rest : List MOp} {o : Out}
    (h : CtInv s) (hpi : PendInv s) (htok : TokInv s) (hsrv : SrvInv s) (hdsp : DspInv s)
    (hprog : s.prog th = op :: rest) (hs : microStep s th ch ch2 op rest = some (s', o)) : CtInv s' := by
  have hf := microStep_frame hs
  have hown := microStep_owner hs
  have hcli : ∀ n, cliOf s' n = cliOf s n := fun n => hown n true
  have hsrvO : ∀ n, srvOf s' n = srvOf s n := fun n => hown n false
  have hK : ∀ c' id, (c' = th.ctx → ∀ ok, op ≠ .handleReply id ok) → PKeep (s.ctx c') (s'.ctx c') id := by
    intro c' id hne
    by_cases e : c' = th.ctx
    · subst e; exact microStep_pkeep (hpi _) hs id (hne rfl)
    · rw [hf.ctx_other c' e]; exact PKeep.rfl' _ _
  have hhead : ∀ id0 ok, op = .handleReply id0 ok → id0 ∈ progIds (s.prog th) := by
    intro id0 ok e; rw [hprog, e]; simp [progIds, MOp.carId]
  -- a request registered on a connection end of this context is not the one whose reply is being handled
  have hU4 : ∀ n id, id ∈ ((s.conn n).half true).pend → cliOf s n = th.ctx → ∀ ok, op ≠ .handleReply id ok := by
    intro n id hp hc ok e
    exact htok.dj_prog_pend th n id hc (hhead id ok e) hp
  have hU5 : ∀ n id, id ∈ srvPipe s n → ((s.conn n).half true).isOpen = true → cliOf s n = th.ctx → ∀ ok, op ≠ .handleReply id ok :=
    fun n id hp ho => hU4 n id (srv_in_pend hsrv ho hp)
  have hopen : ∀ n, ((s'.conn n).half true).isOpen = true → ((s.conn n).half true).isOpen = true := by
    intro n ho
    rcases microStep_half hs n true with e | ⟨e, -⟩
    · rw [← e]; exact ho
    · rw [e] at ho; cases ho
  constructor
  · -- ops
    intro th' d m hm
    by_cases e : th' = th
    · subst e
      rcases microStep_carrier_typed hs d m hm with hold | rfl | hnew
      · refine (h.ops th' d m (by rw [hprog]; exact hold.imp (List.mem_cons_of_mem _) (List.mem_cons_of_mem _))).keep ?_
        intro id hid
        refine hK _ id (fun _ ok e2 => ?_)
        have hnd := htok.nd_prog th'
        rw [hprog, e2, progIds_cons] at hnd
        simp only [MOp.carId, Option.toList, List.singleton_append, List.nodup_cons] at hnd
        exact hnd.1 (mem_progIds_of_send hold hid)
      · refine (h.ops th' d m (by rw [hprog]; exact Or.inl List.mem_cons_self)).keep ?_
        intro id _; exact hK _ id (fun _ ok e2 => by cases e2)
      · exact hnew
    · rw [hf.prog_other _ e] at hm
      refine (h.ops th' d m hm).keep ?_
      intro id hid
      refine hK _ id (fun hc ok e2 => ?_)
      exact htok.dj_prog th th' id (Ne.symm e) hc.symm (hhead id ok e2) (mem_progIds_of_send hm hid)
  · -- cbs
    intro c d m hm
    by_cases hc : c = th.ctx
    · subst hc
      by_cases hq : Cb.smSend d m ∈ (s.ctx th.ctx).loopQ
      · refine (h.cbs _ d m hq).keep ?_
        intro id hid
        refine hK _ id (fun _ ok e2 => ?_)
        exact htok.dj_prog_lq th id (hhead id ok e2) (mem_lqIds_of_send hq hid)
      · -- appended by `enq`
        have hen : op = .enq d m := by
          by_cases hE : op.isEnq = true
          · cases op <;> simp only [MOp.isEnq] at hE <;> try contradiction
            · simp only [microStep, Option.some.injEq, Prod.mk.injEq] at hs
              obtain ⟨rfl, -⟩ := hs
              simp only [setProg_ctx, setCtx_ctx, if_true, List.mem_append, List.mem_singleton, Cb.smSend.injEq] at hm
              rcases hm with hm | ⟨rfl, rfl⟩
              · exact absurd hm hq
              · rfl
            · cases th with
              | user c t =>
                simp only [microStep, Option.some.injEq, Prod.mk.injEq] at hs
                obtain ⟨rfl, -⟩ := hs
                simp only [setProg_ctx, setCtx_ctx, if_true, List.mem_append, List.mem_singleton, reduceCtorEq, or_false] at hm
                exact absurd hm hq
              | sock c => simp [microStep] at hs
          · rw [(microStep_fields hs).loopQ (by simpa using hE)] at hm
            exact absurd hm hq
        subst hen
        refine (h.ops th d m (by rw [hprog]; exact Or.inr List.mem_cons_self)).keep ?_
        intro id _; exact hK _ id (fun _ ok e2 => by cases e2)
    · rw [hf.ctx_other c hc] at hm ⊢
      exact h.cbs c d m hm
  · -- pend
    intro n id hp
    rw [hcli, hsrvO]
    have hp0 : id ∈ ((s.conn n).half true).pend := by
      rcases microStep_half hs n true with e | ⟨-, e, -⟩
      · rw [← e]; exact hp
      · rw [e] at hp; cases hp
    obtain ⟨pid, po, h1, h2, h3⟩ := h.pend n id hp0
    obtain ⟨g1, po', g2, g3, -⟩ := hK (cliOf s n) id (fun hc => hU4 n id hp0 hc) pid po h1 h2
    exact ⟨pid, po', g1, g2, g3 ▸ h3⟩
  · -- srvIn
    intro n m hm ho
    rw [hcli, hsrvO]
    have ho0 := hopen n ho
    have hm0 : m ∈ ((s.conn n).half false).inbox := by
      rcases microStep_half hs n false with e | ⟨-, -, e, -⟩
      · rw [← e]; exact hm
      · rw [e] at hm; cases hm
    refine (h.srvIn n m hm0 ho0).keep ?_
    intro id hid
    exact hK _ id (fun hc => hU5 n id (srvPipe_inbox hm0 hid) ho0 hc)
  · -- hdl
    intro th' n id ob sg hm ho
    rw [hcli, hsrvO]
    have ho0 := hopen n ho
    have hm0 : MOp.reqChk1 (.alias n) id ob sg ∈ s.prog th' ∨ MOp.reqChk2 (.alias n) id ob sg ∈ s.prog th' := by
      by_cases e : th' = th
      · subst e; rw [hprog]; exact microStep_hdl_old hs hm
      · rw [hf.prog_other _ e] at hm; exact hm
    refine (h.hdl th' n id ob sg hm0 ho0).keep ?_
    intro id' hid
    simp only [Msg.reqId?, Option.some.injEq] at hid; subst hid
    refine hK _ _ (fun hc => hU5 n _ ?_ ho0 hc)
    rcases hm0 with hm0 | hm0
    · have := hdl_thread hdsp hm0 rfl; subst this
      exact srvPipe_prog hm0 (by simp [opSrvId])
    · have := hdl_thread hdsp hm0 rfl; subst this
      exact srvPipe_prog hm0 (by simp [opSrvId])
  · -- rem
    intro th' n id ob sg ok hp ho
    rw [hcli, hsrvO]
    have ho0 := hopen n ho
    by_cases e : th' = th
    · subst e
      have hd : dspFree (op :: rest) ∨ DspForm (op :: rest) := by
        cases th' with
        | user c t => exact Or.inl (hprog ▸ hdsp.user c t)
        | sock c => exact hprog ▸ hdsp.sock c
      have hop := microStep_rem_origin hd hs hp
      have hm0 : MOp.reqChk2 (.alias n) id ob sg ∈ s.prog th' := by rw [hprog, hop]; exact List.mem_cons_self
      refine ⟨true, (h.hdl th' n id ob sg (Or.inr hm0) ho0).keep ?_⟩
      intro id' hid
      simp only [Msg.reqId?, Option.some.injEq] at hid; subst hid
      exact hK _ _ (fun _ ok e2 => by rw [hop] at e2; cases e2)
    · rw [hf.prog_other _ e] at hp
      obtain ⟨b, hb⟩ := h.rem th' n id ob sg ok hp ho0
      refine ⟨b, hb.keep ?_⟩
      intro id' hid
      simp only [Msg.reqId?, Option.some.injEq] at hid; subst hid
      refine hK _ _ (fun hc => hU5 n _ ?_ ho0 hc)
      have hmem : MOp.sendChk (.alias n) (.subReply id ok) ∈ s.prog th' := by rw [hp]; simp
      have := hdl_thread hdsp hmem rfl; subst this
      exact srvPipe_prog hmem (by simp [opSrvId, msgRepId])


theorem reqTyped.congr {cs cs' : CtxSt} {d : Peer} {m : Msg} (hb : cs'.byId = cs.byId) (hp : cs'.pobj = cs.pobj)
    (h : reqTyped cs d m) : reqTyped cs' d m := by
  cases m with
  | subReq id ob sg b => simpa only [reqTyped, hb, hp] using h
  | _ => trivial

/-- steps that leave the pending-request tables alone -/
theorem CtInv.of {s s' : State} (h : CtInv s)
    (htab : ∀ c, (s'.ctx c).byId = (s.ctx c).byId ∧ (s'.ctx c).pobj = (s.ctx c).pobj)
    (hown : ∀ n b, ((s'.conn n).half b).owner = ((s.conn n).half b).owner)
    (hops : ∀ th d m, (MOp.sendChk d m ∈ s'.prog th ∨ MOp.enq d m ∈ s'.prog th) →
      (MOp.sendChk d m ∈ s.prog th ∨ MOp.enq d m ∈ s.prog th) ∨ reqTyped (s.ctx th.ctx) d m)
    (hcbs : ∀ c d m, Cb.smSend d m ∈ (s'.ctx c).loopQ → Cb.smSend d m ∈ (s.ctx c).loopQ)
    (hpend : ∀ n id, id ∈ ((s'.conn n).half true).pend → id ∈ ((s.conn n).half true).pend ∨
      ∃ pid po, (s.ctx (cliOf s n)).byId id = some pid ∧ (s.ctx (cliOf s n)).pobj pid = some po ∧ po.key.pc = .name (srvOf s n))
    (hsrvIn : ∀ n m, m ∈ ((s'.conn n).half false).inbox → ((s'.conn n).half true).isOpen = true →
      (m ∈ ((s.conn n).half false).inbox ∧ ((s.conn n).half true).isOpen = true) ∨
      reqTyped (s.ctx (cliOf s n)) (.name (srvOf s n)) m)
    (hhdl : ∀ th n id ob sg, (MOp.reqChk1 (.alias n) id ob sg ∈ s'.prog th ∨ MOp.reqChk2 (.alias n) id ob sg ∈ s'.prog th) →
      ((s'.conn n).half true).isOpen = true →
      ((MOp.reqChk1 (.alias n) id ob sg ∈ s.prog th ∨ MOp.reqChk2 (.alias n) id ob sg ∈ s.prog th) ∧
        ((s.conn n).half true).isOpen = true) ∨ reqTyped (s.ctx (cliOf s n)) (.name (srvOf s n)) (.subReq id ob sg true))
    (hrem : ∀ th n id ob sg ok, s'.prog th = [.removeRemote (.alias n) ob sg, .sendChk (.alias n) (.subReply id ok)] →
      ((s'.conn n).half true).isOpen = true →
      (s.prog th = [.removeRemote (.alias n) ob sg, .sendChk (.alias n) (.subReply id ok)] ∧ ((s.conn n).half true).isOpen = true) ∨
      ∃ b, reqTyped (s.ctx (cliOf s n)) (.name (srvOf s n)) (.subReq id ob sg b)) : CtInv s' := by
  have hcli : ∀ n, cliOf s' n = cliOf s n := fun n => hown n true
  have hsrvO : ∀ n, srvOf s' n = srvOf s n := fun n => hown n false
  have hc : ∀ {c d m}, reqTyped (s.ctx c) d m → reqTyped (s'.ctx c) d m := fun h => h.congr (htab _).1 (htab _).2
  constructor
  · intro th d m hm
    rcases hops th d m hm with h1 | h1
    · exact hc (h.ops th d m h1)
    · exact hc h1
  · intro c d m hm; exact hc (h.cbs c d m (hcbs c d m hm))
  · intro n id hp
    rw [hcli, hsrvO, (htab _).1, (htab _).2]
    rcases hpend n id hp with h1 | h1
    · exact h.pend n id h1
    · exact h1
  · intro n m hm ho
    rw [hcli, hsrvO]
    rcases hsrvIn n m hm ho with ⟨h1, h2⟩ | h1
    · exact hc (h.srvIn n m h1 h2)
    · exact hc h1
  · intro th n id ob sg hm ho
    rw [hcli, hsrvO]
    rcases hhdl th n id ob sg hm ho with ⟨h1, h2⟩ | h1
    · exact hc (h.hdl th n id ob sg h1 h2)
    · exact hc h1
  · intro th n id ob sg ok hp ho
    rw [hcli, hsrvO]
    rcases hrem th n id ob sg ok hp ho with ⟨h1, h2⟩ | ⟨b, h1⟩
    · obtain ⟨b, hb⟩ := h.rem th n id ob sg ok h1 h2
      exact ⟨b, hc hb⟩
    · exact ⟨b, hc h1⟩

/-- a program without send operations and without handler checks -/
def plainProg (pr : List MOp) : Prop :=
  (∀ d m, MOp.sendChk d m ∉ pr ∧ MOp.enq d m ∉ pr) ∧ (∀ src id ob sg, MOp.reqChk1 src id ob sg ∉ pr ∧ MOp.reqChk2 src id ob sg ∉ pr)

theorem plain_beginProg (c : Ctx) (t : Tid) (n : Nat) (o : Op) : plainProg (beginProg c t n o) := by
  cases o <;> simp only [beginProg] <;> (try split) <;> simp [plainProg]

theorem plain_onSendFail (m : Msg) : plainProg (onSendFail m) := by
  cases m <;> simp [onSendFail, plainProg]

/-- steps that start a plain program in one thread, may drop callbacks from event-loop queues, and leave the connections alone -/
theorem CtInv.setPlain {s s' : State} (h : CtInv s) (th0 : Th) (pr : List MOp) (hpl : plainProg pr)
    (hprog : ∀ th, s'.prog th = if th = th0 then pr else s.prog th)
    (htab : ∀ c, (s'.ctx c).byId = (s.ctx c).byId ∧ (s'.ctx c).pobj = (s.ctx c).pobj)
    (hcbs : ∀ c d m, Cb.smSend d m ∈ (s'.ctx c).loopQ → Cb.smSend d m ∈ (s.ctx c).loopQ)
    (hconn : s'.conn = s.conn) : CtInv s' := by
  refine h.of htab (fun n b => by rw [hconn]) ?_ hcbs (fun n id hp => Or.inl (by rw [hconn] at hp; exact hp)) ?_ ?_ ?_
  · intro th d m hm
    rw [hprog] at hm; split at hm
    · exact absurd hm (by have := hpl.1 d m; simp only [not_or]; exact this)
    · exact Or.inl hm
  · intro n m hm ho; rw [hconn] at hm ho; exact Or.inl ⟨hm, ho⟩
  · intro th n id ob sg hm ho
    rw [hprog] at hm; rw [hconn] at ho; split at hm
    · exact absurd hm (by have := hpl.2 (.alias n) id ob sg; simp only [not_or]; exact this)
    · exact Or.inl ⟨hm, ho⟩
  · intro th n id ob sg ok hp ho
    rw [hprog] at hp; rw [hconn] at ho; split at hp
    · exact absurd (hp ▸ (hpl.1 (.alias n) (.subReply id ok)).1) (by simp)
    · exact Or.inl ⟨hp, ho⟩


theorem send_dispatch {src : Peer} {m : Msg} {d : Peer} {m' : Msg}
    (h : MOp.sendChk d m' ∈ dispatch src m ∨ MOp.enq d m' ∈ dispatch src m) (cs : CtxSt) : reqTyped cs d m' := by
  cases m with
  | subReq id ob sg b => cases b <;> simp [dispatch] at h; obtain ⟨-, rfl⟩ := h; trivial
  | _ => simp [dispatch] at h

theorem chk_dispatch {src : Peer} {m : Msg} {x : Peer} {id : ReqId} {ob : Obj} {sg : Sg}
    (h : MOp.reqChk1 x id ob sg ∈ dispatch src m ∨ MOp.reqChk2 x id ob sg ∈ dispatch src m) :
    x = src ∧ m = .subReq id ob sg true := by
  cases m with
  | subReq id' ob' sg' b => cases b <;> simp [dispatch] at h; obtain ⟨rfl, rfl, rfl, rfl⟩ := h; exact ⟨rfl, rfl⟩
  | _ => simp [dispatch] at h

theorem remReq_dispatch {src : Peer} {m : Msg} {x : Peer} {id : ReqId} {ob : Obj} {sg : Sg} {ok : Bool}
    (h : dispatch src m = [.removeRemote x ob sg, .sendChk x (.subReply id ok)]) : x = src ∧ m = .subReq id ob sg false := by
  cases m with
  | subReq id' ob' sg' b => cases b <;> simp [dispatch] at h; obtain ⟨⟨rfl, rfl, rfl⟩, -, rfl, -⟩ := h; exact ⟨rfl, rfl⟩
  | _ => simp [dispatch] at h

theorem srcName_alias {s : State} {cn n : ConnId} {cli : Bool} (h : Peer.alias n = srcName s cn cli) : cli = false ∧ n = cn := by
  cases cli <;> simp [srcName] at h
  exact ⟨rfl, h⟩

theorem ctInv_nstep {s s' : State} (h : CtInv s) (hty : TypInv s) (htopo : TopoInv s) (hs : NStep s s') : CtInv s' := by
  cases hs
  case beginPub c t ob sg _ _ =>
    exact h.setPlain (.user c t) (beginProg c t (s.nextSeq t) (.publish ob sg)) (plain_beginProg _ _ _ _) (fun th => by simp only [setProg_prog]) (fun _ => ⟨rfl, rfl⟩)
      (fun _ _ _ h => h) rfl
  case beginOther c t op _ _ _ =>
    exact h.setPlain (.user c t) (beginProg c t 0 op) (plain_beginProg _ _ _ _) (fun th => by simp only [setProg_prog]) (fun _ => ⟨rfl, rfl⟩)
      (fun _ _ _ h => h) rfl
  case cbUnknown c d m q _ _ hq _ =>
    refine h.setPlain (.sock c) (onSendFail m) (plain_onSendFail m) (fun th => by simp only [setProg_prog, setCtx_prog]) ?_ ?_ rfl
    · intro x; simp only [setProg_ctx, setCtx_ctx]; split <;> (try (rename_i e; subst e)) <;> exact ⟨rfl, rfl⟩
    · intro x d' m' hm; simp only [setProg_ctx, setCtx_ctx] at hm; split at hm
      · rename_i e; subst e; rw [hq]; exact List.mem_cons_of_mem _ hm
      · exact hm
  case cbFail c d m q cn _ _ hq _ _ =>
    refine h.setPlain (.sock c) (onSendFail m) (plain_onSendFail m) (fun th => by simp only [setProg_prog, setCtx_prog]) ?_ ?_ rfl
    · intro x; simp only [setProg_ctx, setCtx_ctx]; split <;> (try (rename_i e; subst e)) <;> exact ⟨rfl, rfl⟩
    · intro x d' m' hm; simp only [setProg_ctx, setCtx_ctx] at hm; split at hm
      · rename_i e; subst e; rw [hq]; exact List.mem_cons_of_mem _ hm
      · exact hm
  case cbDiscNone c n t q _ _ hq _ =>
    refine h.setPlain (.sock c) [.finish t false] (by simp [plainProg]) (fun th => by simp only [setProg_prog, setCtx_prog]) ?_ ?_ rfl
    · intro x; simp only [setProg_ctx, setCtx_ctx]; split <;> (try (rename_i e; subst e)) <;> exact ⟨rfl, rfl⟩
    · intro x d' m' hm; simp only [setProg_ctx, setCtx_ctx] at hm; split at hm
      · rename_i e; subst e; rw [hq]; exact List.mem_cons_of_mem _ hm
      · exact hm
  case cbDisc c n t q cn _ _ hq _ =>
    refine h.setPlain (.sock c) [.popPeer n, .peerRemoved n, .closeConn cn n.isName, .finish t true] (by simp [plainProg]) (fun th => by simp only [setProg_prog, setCtx_prog]) ?_ ?_ rfl
    · intro x; simp only [setProg_ctx, setCtx_ctx]; split <;> (try (rename_i e; subst e)) <;> exact ⟨rfl, rfl⟩
    · intro x d' m' hm; simp only [setProg_ctx, setCtx_ctx] at hm; split at hm
      · rename_i e; subst e; rw [hq]; exact List.mem_cons_of_mem _ hm
      · exact hm
  case eof cn cli _ _ _ _ _ _ =>
    exact h.setPlain (.sock ((s.conn cn).half cli).owner)
      [.popPeer (srcName s cn cli), .peerRemoved (srcName s cn cli), .closeConn cn cli] (by simp [plainProg]) (fun th => by simp only [setProg_prog]) (fun _ => ⟨rfl, rfl⟩) (fun _ _ _ h => h) rfl
  case routerOk th =>
    exact h.of (fun _ => ⟨rfl, rfl⟩) (fun _ _ => rfl) (fun _ _ _ h => Or.inl h) (fun _ _ _ h => h) (fun _ _ h => Or.inl h)
      (fun _ _ h1 h2 => Or.inl ⟨h1, h2⟩) (fun _ _ _ _ _ h1 h2 => Or.inl ⟨h1, h2⟩) (fun _ _ _ _ _ _ h1 h2 => Or.inl ⟨h1, h2⟩)
  case stopReq c _ =>
    refine h.of ?_ (fun _ _ => rfl) (fun _ _ _ h => Or.inl h) ?_ (fun _ _ h => Or.inl h)
      (fun _ _ h1 h2 => Or.inl ⟨h1, h2⟩) (fun _ _ _ _ _ h1 h2 => Or.inl ⟨h1, h2⟩) (fun _ _ _ _ _ _ h1 h2 => Or.inl ⟨h1, h2⟩)
    · intro x; simp only [setCtx_ctx]; split <;> (try (rename_i e; subst e)) <;> exact ⟨rfl, rfl⟩
    · intro x d m hm; simp only [setCtx_ctx] at hm; split at hm <;> (try (rename_i e; subst e)) <;> exact hm
  case stop c _ =>
    refine h.of ?_ (fun n b => stopConn_owner _ _ _) (fun _ _ _ h => Or.inl h) ?_ ?_ ?_ ?_ ?_
    · intro x; simp only [setCtx_ctx]; split <;> (try (rename_i e; subst e)) <;> exact ⟨rfl, rfl⟩
    · intro x d m hm; simp only [setCtx_ctx] at hm; split at hm
      · simp at hm
      · exact hm
    · intro n id hp; simp only [stopConn_pend] at hp; exact Or.inl hp
    · intro n m hm ho
      simp only [stopConn_inbox, stopConn_isOpen] at hm ho
      split at hm
      · simp at hm
      · split at ho
        · cases ho
        · exact Or.inl ⟨hm, ho⟩
    · intro th n id ob sg hm ho
      simp only [stopConn_isOpen] at ho
      split at ho
      · cases ho
      · exact Or.inl ⟨hm, ho⟩
    · intro th n id ob sg ok hp ho
      simp only [stopConn_isOpen] at ho
      split at ho
      · cases ho
      · exact Or.inl ⟨hp, ho⟩
  case cbSent c d m q cn _ hidle hq hpeer =>
    have hconn : ∀ n b, ((upd s.conn cn (sentConn (s.conn cn) d.isName m) n).half b) =
        if n = cn then (sentConn (s.conn cn) d.isName m).half b else (s.conn n).half b := by
      intro n b; simp only [upd]; split <;> rfl
    have hcb := h.cbs c d m (by rw [hq]; exact List.mem_cons_self)
    have hprog : ∀ th, (({ (s.setCtx c { (s.ctx c) with loopQ := q }) with
        conn := upd s.conn cn (sentConn (s.conn cn) d.isName m) }).setProg (.sock c) []).prog th =
        if th = .sock c then [] else s.prog th := fun th => by simp only [setProg_prog]; rfl
    refine h.of ?_ ?_ ?_ ?_ ?_ ?_ ?_ ?_
    · intro x; simp only [setProg_ctx, setCtx_ctx]; split <;> (try (rename_i e; subst e)) <;> exact ⟨rfl, rfl⟩
    · intro n b; simp only [setProg_conn, hconn]; split
      · rename_i e; subst e; exact sentConn_owner _ _ _ _
      · rfl
    · intro th d' m' hm; rw [hprog] at hm; split at hm
      · simp at hm
      · exact Or.inl hm
    · intro x d' m' hm; simp only [setProg_ctx, setCtx_ctx] at hm; split at hm
      · rename_i e; subst e; rw [hq]; exact List.mem_cons_of_mem _ hm
      · exact hm
    · intro n id hp
      simp only [setProg_conn, hconn] at hp
      split at hp
      · rename_i e; subst e
        rw [sentConn_pend] at hp
        split at hp
        · rename_i hname
          cases hm : m.reqId? with
          | none => rw [hm] at hp; exact Or.inl hp
          | some id' =>
            rw [hm] at hp
            rcases List.mem_append.1 hp with hp | hp
            · exact Or.inl hp
            · simp only [List.mem_singleton] at hp; subst hp
              right
              cases d with
              | alias x => simp [Peer.isName] at hname
              | name p' =>
                obtain ⟨-, ho1, ho2⟩ := htopo.peersN c p' n hpeer
                cases m <;> simp only [Msg.reqId?] at hm <;> try (cases hm; done)
                cases hm
                obtain ⟨pid, po, h1, h2, h3, -⟩ := hcb
                exact ⟨pid, po, by rw [cliOf, ho1]; exact h1, by rw [cliOf, ho1]; exact h2, by rw [h3, srvOf, ho2]⟩
        · exact Or.inl hp
      · exact Or.inl hp
    · intro n m' hm ho
      simp only [setProg_conn, hconn] at hm ho
      split at hm
      · rename_i e; subst e
        rw [if_pos rfl, sentConn_isOpen] at ho
        rw [sentConn_inbox] at hm
        split at hm
        · rename_i hc
          rcases List.mem_append.1 hm with hm | hm
          · exact Or.inl ⟨hm, ho⟩
          · simp only [List.mem_singleton] at hm; subst hm
            right
            cases d with
            | alias x => simp [Peer.isName] at hc
            | name p' =>
              obtain ⟨-, ho1, ho2⟩ := htopo.peersN c p' n hpeer
              rw [cliOf, srvOf, ho1, ho2]; exact hcb
        · exact Or.inl ⟨hm, ho⟩
      · rw [if_neg ‹_›] at ho; exact Or.inl ⟨hm, ho⟩
    · intro th n id ob sg hm ho
      rw [hprog] at hm
      simp only [setProg_conn, hconn] at ho
      split at hm
      · simp at hm
      · refine Or.inl ⟨hm, ?_⟩
        split at ho
        · rename_i e; subst e; rw [sentConn_isOpen] at ho; exact ho
        · exact ho
    · intro th n id ob sg ok hp ho
      rw [hprog] at hp
      simp only [setProg_conn, hconn] at ho
      split at hp
      · simp at hp
      · refine Or.inl ⟨hp, ?_⟩
        split at ho
        · rename_i e; subst e; rw [sentConn_isOpen] at ho; exact ho
        · exact ho
  case arrive cn cli m ms hcn _ hidle hopen hin =>
    have hhalf : ∀ n b, ((upd s.conn cn ((s.conn cn).setHalf cli (readHalf ((s.conn cn).half cli) m ms)) n).half b) =
        if n = cn ∧ b = cli then readHalf ((s.conn cn).half cli) m ms else (s.conn n).half b := by
      intro n b; simp only [upd]; split
      · rename_i e; subst e; rw [half_setHalf']; split
        · rename_i e2; subst e2; simp
        · rename_i e2; rw [if_neg (by simp [e2])]
      · rename_i e; rw [if_neg (by simp [e])]
    have hprog : ∀ th, (({ s with conn := upd s.conn cn ((s.conn cn).setHalf cli (readHalf ((s.conn cn).half cli) m ms)) }).setProg
        (.sock ((s.conn cn).half cli).owner) (dispatch (srcName s cn cli) m)).prog th =
        if th = .sock ((s.conn cn).half cli).owner then dispatch (srcName s cn cli) m else s.prog th :=
      fun th => by simp only [setProg_prog]
    have hop : ∀ n, ((upd s.conn cn ((s.conn cn).setHalf cli (readHalf ((s.conn cn).half cli) m ms)) n).half true).isOpen =
        ((s.conn n).half true).isOpen := by
      intro n; rw [hhalf]; split
      · rename_i e; obtain ⟨rfl, rfl⟩ := e; exact readHalf_isOpen _ _ _
      · rfl
    have hmem : m ∈ ((s.conn cn).half cli).inbox := by rw [hin]; exact List.mem_cons_self
    refine h.of (fun _ => ⟨rfl, rfl⟩) ?_ ?_ (fun _ _ _ h => h) ?_ ?_ ?_ ?_
    · intro n b; simp only [setProg_conn, hhalf]; split
      · rename_i e; obtain ⟨rfl, rfl⟩ := e; exact readHalf_owner _ _ _
      · rfl
    · intro th d' m' hm; rw [hprog] at hm; split at hm
      · exact Or.inr (send_dispatch hm _)
      · exact Or.inl hm
    · intro n id hp
      simp only [setProg_conn, hhalf] at hp
      split at hp
      · rename_i e; obtain ⟨rfl, rfl⟩ := e
        left
        cases m <;> simp only [readHalf] at hp <;> first | exact hp | exact List.mem_of_mem_erase hp
      · exact Or.inl hp
    · intro n m' hm ho
      simp only [setProg_conn, hop] at ho
      simp only [setProg_conn, hhalf] at hm
      split at hm
      · rename_i e; obtain ⟨rfl, rfl⟩ := e
        rw [readHalf_inbox] at hm
        exact Or.inl ⟨by rw [hin]; exact List.mem_cons_of_mem _ hm, ho⟩
      · exact Or.inl ⟨hm, ho⟩
    · intro th n id ob sg hm ho
      simp only [setProg_conn, hop] at ho
      rw [hprog] at hm; split at hm
      · obtain ⟨e1, e2⟩ := chk_dispatch hm
        obtain ⟨rfl, rfl⟩ := srcName_alias e1
        subst e2
        exact Or.inr (h.srvIn n _ hmem ho)
      · exact Or.inl ⟨hm, ho⟩
    · intro th n id ob sg ok hp ho
      simp only [setProg_conn, hop] at ho
      rw [hprog] at hp; split at hp
      · obtain ⟨e1, e2⟩ := remReq_dispatch hp
        obtain ⟨rfl, rfl⟩ := srcName_alias e1
        subst e2
        exact Or.inr ⟨false, h.srvIn n _ hmem ho⟩
      · exact Or.inl ⟨hp, ho⟩
  case connect a p hne _ _ _ =>
    have hctx : ∀ x, (((s.setCtx a { (s.ctx a) with peers := upd (s.ctx a).peers (.name p) (some s.nextConn) }).setCtx p
        { ((s.setCtx a { (s.ctx a) with peers := upd (s.ctx a).peers (.name p) (some s.nextConn) }).ctx p) with
          peers := upd ((s.setCtx a { (s.ctx a) with peers := upd (s.ctx a).peers (.name p) (some s.nextConn) }).ctx p).peers
            (.alias s.nextConn) (some s.nextConn) }).ctx x).byId = (s.ctx x).byId ∧
        (((s.setCtx a { (s.ctx a) with peers := upd (s.ctx a).peers (.name p) (some s.nextConn) }).setCtx p
        { ((s.setCtx a { (s.ctx a) with peers := upd (s.ctx a).peers (.name p) (some s.nextConn) }).ctx p) with
          peers := upd ((s.setCtx a { (s.ctx a) with peers := upd (s.ctx a).peers (.name p) (some s.nextConn) }).ctx p).peers
            (.alias s.nextConn) (some s.nextConn) }).ctx x).pobj = (s.ctx x).pobj ∧
        (((s.setCtx a { (s.ctx a) with peers := upd (s.ctx a).peers (.name p) (some s.nextConn) }).setCtx p
        { ((s.setCtx a { (s.ctx a) with peers := upd (s.ctx a).peers (.name p) (some s.nextConn) }).ctx p) with
          peers := upd ((s.setCtx a { (s.ctx a) with peers := upd (s.ctx a).peers (.name p) (some s.nextConn) }).ctx p).peers
            (.alias s.nextConn) (some s.nextConn) }).ctx x).loopQ = (s.ctx x).loopQ := by
      intro x; simp only [setCtx_ctx]
      split <;> (try (rename_i e; subst e)) <;> (try split) <;> (try (rename_i e; subst e)) <;> exact ⟨rfl, rfl, rfl⟩
    have hc : ∀ {x d m}, reqTyped (s.ctx x) d m → reqTyped _ d m := fun {x d m} h => h.congr (hctx x).1 (hctx x).2.1
    have hfresh : ∀ th op, op ∈ s.prog th → op.hdlSrc ≠ some (.alias s.nextConn) := by
      intro th op hm hsrc
      have := hdlSrc_ok (List.all_eq_true.1 (hty.ops th) op hm) hsrc
      simp [Peer.okA] at this
    have hconn : ∀ n, n ≠ s.nextConn → (upd s.conn s.nextConn
        { cli := { owner := a, isOpen := true, inbox := [], pend := [] },
          srv := { owner := p, isOpen := true, inbox := [], pend := [] } } n) = s.conn n := by
      intro n hn; simp [upd, hn]
    constructor
    · intro th d m hm; exact hc (h.ops th d m hm)
    · intro x d m hm; rw [(hctx x).2.2] at hm; exact hc (h.cbs x d m hm)
    · intro n id hp
      by_cases hn : n = s.nextConn
      · subst hn; simp [upd, Conn.half] at hp
      · simp only [cliOf, srvOf, hconn n hn] at hp ⊢
        rw [(hctx _).1, (hctx _).2.1]; exact h.pend n id hp
    · intro n m hm ho
      by_cases hn : n = s.nextConn
      · subst hn; simp [upd, Conn.half] at hm
      · simp only [cliOf, srvOf, hconn n hn] at hm ho ⊢
        exact hc (h.srvIn n m hm ho)
    · intro th n id ob sg hm ho
      by_cases hn : n = s.nextConn
      · subst hn
        rcases hm with hm | hm
        · exact absurd rfl (hfresh th _ hm)
        · exact absurd rfl (hfresh th _ hm)
      · simp only [cliOf, srvOf, hconn n hn] at ho ⊢
        exact hc (h.hdl th n id ob sg hm ho)
    · intro th n id ob sg ok hp ho
      by_cases hn : n = s.nextConn
      · subst hn
        have hp' : s.prog th = [.removeRemote (.alias s.nextConn) ob sg, .sendChk (.alias s.nextConn) (.subReply id ok)] := hp
        exact absurd rfl (hfresh th (.sendChk (.alias s.nextConn) (.subReply id ok)) (by rw [hp']; simp))
      · simp only [cliOf, srvOf, hconn n hn] at ho ⊢
        obtain ⟨b, hb⟩ := h.rem th n id ob sg ok hp ho
        exact ⟨b, hc hb⟩


theorem ctInv_reach {s : State} (h : Reach s) : CtInv s := by
  induction h with
  | init => exact ctInv_init
  | step hr hs ih =>
    rename_i s0 s1 a o
    by_cases ha : ∃ th ch ch2, a = .micro th ch ch2
    · obtain ⟨th, ch, ch2, rfl⟩ := ha
      obtain ⟨-, op, rest, hp, hm⟩ := step_micro_inv hs
      exact ctInv_micro ih (pendInv_reach hr) (tokInv_reach hr) (srvInv_reach hr) (dspInv_reach hr) hp hm
    · exact ctInv_nstep ih (typInv_reach hr) (topoInv_reach hr) (step_nonmicro_cases (fun th ch ch2 e => ha ⟨th, ch, ch2, e⟩) hs)

end QmiModel.PubSub
