import QmiModel.Lemmas.C01Carrier
/-! Preservation of the carrier invariant by every action (repaired configuration). -/
namespace QmiModel.Rpc

variable (attr : ReqId → Attr)

/-- `Mid` survives when the relevant fields only grow / stay -/
theorem Mid.mono {s t : State} {r : ReqId} (h : Mid s r)
    (h1 : ∀ m, m ∈ s.wireAB → m ∈ t.wireAB) (h2 : ∀ x, x ∈ s.fifo → x ∈ t.fifo) (h3 : s.phase = .busy r → t.phase = .busy r)
    (h4 : ∀ c, c ∈ s.bQ → c ∈ t.bQ) (h5 : ∀ m, m ∈ s.wireBA → m ∈ t.wireBA) (h6 : s.connB = false → t.connB = false) :
    Mid t r := by
  rcases h with h | h | h | ⟨o, h⟩ | ⟨o, h⟩ | h | h
  · exact Or.inl (h1 _ h)
  · exact Or.inr (Or.inl (h2 _ h))
  · exact Or.inr (Or.inr (Or.inl (h3 h)))
  · exact Or.inr (Or.inr (Or.inr (Or.inl ⟨o, h4 _ h⟩)))
  · exact Or.inr (Or.inr (Or.inr (Or.inr (Or.inl ⟨o, h5 _ h⟩))))
  · exact Or.inr (Or.inr (Or.inr (Or.inr (Or.inr (Or.inl (h6 h))))))
  · exact Or.inr (Or.inr (Or.inr (Or.inr (Or.inr (Or.inr (h4 _ h))))))

theorem mid_of_b_closed {s : State} {r : ReqId} (h : s.connB = false ∨ Cb.closeAll ∈ s.bQ) : Mid s r := by
  rcases h with h | h
  · exact Or.inr (Or.inr (Or.inr (Or.inr (Or.inr (Or.inl h)))))
  · exact Or.inr (Or.inr (Or.inr (Or.inr (Or.inr (Or.inr h)))))

/-- generic transfer: the new state keeps every carrier of `r` -/
theorem Good.mono {s t : State} {r : ReqId} (g : Good attr s r)
    (u : r ∈ s.unsent → r ∈ t.unsent)
    (f : r ∈ s.fifo → r ∈ t.fifo) (b : s.phase = .busy r → t.phase = .busy r)
    (c : r ∈ s.checked → r ∈ t.checked) (q : Cb.sendReq r ∈ s.aQ → Cb.sendReq r ∈ t.aQ)
    (m : r ∈ s.pendA ∧ s.connA = true ∧ Mid s r → r ∈ t.pendA ∧ t.connA = true ∧ Mid t r) : Good attr t r := by
  unfold Good Carrier at *
  rcases g with g | g
  · exact Or.inl (u g)
  · refine Or.inr ?_
    cases hp : (attr r).place <;> simp only [hp] at g ⊢
    · rcases g with g | g
      · exact Or.inl (f g)
      · exact Or.inr (b g)
    · rcases g with g | g | g
      · exact Or.inl (c g)
      · exact Or.inr (Or.inl (q g))
      · exact Or.inr (Or.inr (m g))

theorem cinv_step {s s' : State} {a : Act} (hs : SInv Cfg.sound s) (hc : CInv attr s)
    (h : step Cfg.sound attr s a = some s') : CInv attr s' := by
  intro hA r hr hn
  have hn0 := result_none_back attr _ h r hn
  have hA0 := aStop_back attr _ h hA
  cases a <;> simp only [step] at h
  case issue x =>
    split at h <;> simp at h; subst h
    have hA' : s.aStop = false := hA
    simp only [List.mem_append, List.mem_singleton] at hr
    rcases hr with hr | rfl
    · exact (hc hA' r hr hn0).mono attr (fun u => List.mem_append_left _ u) id id id id id
    · exact Or.inl (by simp)
  case unregister =>
    simp at h; subst h
    exact (hc hA r hr hn0).mono attr id id id id id id
  case stop1 =>
    split at h <;> simp at h; subst h
    exact (hc hA r hr hn0).mono attr id id id id id id
  case stop2 =>
    split at h <;> simp at h; subst h
    exact (hc hA r hr hn0).mono attr id id id id id id
  case stopB =>
    split at h <;> simp at h; subst h
    refine (hc hA r hr hn0).mono attr id id id id id ?_
    rintro ⟨h1, h2, h3⟩
    exact ⟨h1, h2, h3.mono (fun _ => id) (fun _ => id) id (fun _ hc => List.mem_append_left _ hc) (fun _ => id) id⟩
  case stopA =>
    split at h <;> simp at h; subst h
    simp at hA
  case discA =>
    split at h <;> simp at h; subst h
    exact (hc hA r hr hn0).mono attr id id id id (fun hq => List.mem_append_left _ hq) id
  case send x =>
    split at h
    · split at h
      · next hpx =>
        split at h <;> simp at h <;> subst h
        · have g := hc hA r hr hn0
          by_cases e : r = x
          · subst e; exact Or.inr (by unfold Carrier; rw [hpx]; exact Or.inl (by simp))
          · exact g.mono attr (fun u => (List.mem_erase_of_ne e).2 u) (fun f => List.mem_append_left _ f) id id id
              (fun ⟨h1, h2, h3⟩ => ⟨h1, h2, h3.mono (fun _ => id) (fun _ f => List.mem_append_left _ f) id
                (fun _ => id) (fun _ => id) id⟩)
        · by_cases e : r = x
          · subst e; exact absurd hn (setRes_self_ne_none _ _ _)
          · exact (hc hA r hr hn0).mono attr (fun u => (List.mem_erase_of_ne e).2 u) id id id id id
      · next hpx =>
        split at h <;> simp at h <;> subst h
        · by_cases e : r = x
          · subst e; exact absurd hn (setRes_self_ne_none _ _ _)
          · exact (hc hA r hr hn0).mono attr (fun u => (List.mem_erase_of_ne e).2 u) id id id id id
        · by_cases e : r = x
          · subst e; exact Or.inr (by unfold Carrier; rw [hpx]; exact Or.inl (by simp))
          · exact (hc hA r hr hn0).mono attr (fun u => (List.mem_erase_of_ne e).2 u) id id
              (fun c => List.mem_cons_of_mem _ c) id id
    · simp at h
  case enq x =>
    split at h
    · split at h
      · next hd => have := (hs.aNoStop hA0).1; rw [hd] at this; simp at this
      · simp at h; subst h
        have g := hc hA r hr hn0
        by_cases e : r = x
        · subst e
          unfold Good Carrier at g ⊢
          cases hp : (attr r).place <;> simp only [hp] at g ⊢
          · exact g
          · exact Or.inr (Or.inr (Or.inl (by simp)))
        · exact g.mono attr id id id (fun c => (List.mem_erase_of_ne e).2 c) (fun q => List.mem_append_left _ q) id
    · simp at h
  case loopA =>
    split at h
    · simp at h
    · split at h
      · simp at h
      · next x q haq =>
        have g := hc hA0 r (by
          repeat' split at h
          all_goals first
            | (simp at h; done)
            | (simp at h; subst h; exact hr)) hn0
        have tailq : r ≠ x → Cb.sendReq r ∈ s.aQ → Cb.sendReq r ∈ q := by
          intro e hm; rw [haq] at hm
          exact mem_tail_of_ne hm (by intro hh; injection hh with hh; exact e hh)
        split at h
        · simp at h; subst h
          by_cases e : r = x
          · subst e; exact absurd hn (setRes_self_ne_none _ _ _)
          · exact g.mono attr id id id id (tailq e) id
        · split at h
          · split at h
            · next hpe => simp [Cfg.sound] at hpe
            · simp at h; subst h
              by_cases e : r = x
              · subst e; exact absurd hn (setRes_self_ne_none _ _ _)
              · exact g.mono attr id id id id (tailq e) id
          · split at h
            · simp at h; subst h
              by_cases e : r = x
              · subst e; exact absurd hn (setRes_self_ne_none _ _ _)
              · exact g.mono attr id id id id (tailq e) id
            · next hca hao hcb =>
              simp at h; subst h
              by_cases e : r = x
              · subst e
                unfold Good Carrier at g ⊢
                cases hp : (attr r).place <;> simp only [hp] at g ⊢
                · exact g
                · refine Or.inr (Or.inr (Or.inr ⟨by simp, by simpa using hca, Or.inl (by simp)⟩))
              · exact g.mono attr id id id id (tailq e)
                  (fun ⟨h1, h2, h3⟩ => ⟨List.mem_append_left _ h1, h2,
                    h3.mono (fun _ m => List.mem_append_left _ m) (fun _ => id) id (fun _ => id) (fun _ => id) id⟩)
      · next x o q haq =>
        simp at h; subst h
        refine (hc hA r hr hn0).mono attr id id id id ?_ id
        intro hm; rw [haq] at hm; exact mem_tail_of_ne hm (by simp)
      · next q haq =>
        simp at h; subst h
        have g := hc hA r hr hn0
        unfold Good Carrier at g ⊢
        rcases g with g | g
        · exact Or.inl g
        · refine Or.inr ?_
          cases hp : (attr r).place <;> simp only [hp] at g ⊢
          · exact g
          · rcases g with g | g | g
            · exact Or.inl g
            · refine Or.inr (Or.inl ?_)
              rw [haq] at g; exact mem_tail_of_ne g (by simp)
            · exact absurd hn (setAll_mem_ne_none g.1)
      · next q haq =>
        have := (hs.aNoStop hA0).2.2; rw [haq] at this; simp at this
  case loopExitA =>
    split at h
    · next hst => have := (hs.aNoStop hA0).1; rw [hst] at this; simp at this
    · simp at h
  case recvA =>
    split at h
    · simp at h
    · split at h
      · next x o w hw =>
        simp at h; subst h
        by_cases e : r = x
        · subst e; exact absurd hn (setRes_self_ne_none _ _ _)
        · refine (hc hA r hr hn0).mono attr id id id id id ?_
          rintro ⟨h1, h2, h3⟩
          refine ⟨(List.mem_erase_of_ne e).2 h1, h2, ?_⟩
          rcases h3 with h3 | h3 | h3 | ⟨o', h3⟩ | ⟨o', h3⟩ | h3 | h3
          · exact Or.inl h3
          · exact Or.inr (Or.inl h3)
          · exact Or.inr (Or.inr (Or.inl h3))
          · exact Or.inr (Or.inr (Or.inr (Or.inl ⟨o', h3⟩)))
          · refine Or.inr (Or.inr (Or.inr (Or.inr (Or.inl ⟨o', ?_⟩))))
            rw [hw] at h3
            simp only [List.mem_cons] at h3
            rcases h3 with h3 | h3
            · injection h3 with h3; exact absurd h3 e
            · exact h3
          · exact Or.inr (Or.inr (Or.inr (Or.inr (Or.inr (Or.inl h3)))))
          · exact Or.inr (Or.inr (Or.inr (Or.inr (Or.inr (Or.inr h3)))))
      · next x w hw =>
        simp at h; subst h
        refine (hc hA r hr hn0).mono attr id id id id id ?_
        rintro ⟨h1, h2, h3⟩
        refine ⟨h1, h2, ?_⟩
        rcases h3 with h3 | h3 | h3 | ⟨o', h3⟩ | ⟨o', h3⟩ | h3 | h3
        · exact Or.inl h3
        · exact Or.inr (Or.inl h3)
        · exact Or.inr (Or.inr (Or.inl h3))
        · exact Or.inr (Or.inr (Or.inr (Or.inl ⟨o', h3⟩)))
        · refine Or.inr (Or.inr (Or.inr (Or.inr (Or.inl ⟨o', ?_⟩))))
          rw [hw] at h3
          simp only [List.mem_cons] at h3
          rcases h3 with h3 | h3
          · cases h3
          · exact h3
        · exact Or.inr (Or.inr (Or.inr (Or.inr (Or.inr (Or.inl h3)))))
        · exact Or.inr (Or.inr (Or.inr (Or.inr (Or.inr (Or.inr h3)))))
      · simp at h
  case eofA =>
    split at h
    · simp at h; subst h
      have g := hc hA r hr hn0
      unfold Good Carrier at g ⊢
      rcases g with g | g
      · exact Or.inl g
      · refine Or.inr ?_
        cases hp : (attr r).place <;> simp only [hp] at g ⊢
        · exact g
        · rcases g with g | g | g
          · exact Or.inl g
          · exact Or.inr (Or.inl g)
          · exact absurd hn (setAll_mem_ne_none g.1)
    · simp at h
  case loopB =>
    split at h
    · simp at h
    · split at h
      · simp at h
      · next x o q hbq =>
        -- a reply callback at the head of B's queue
        have key : ∀ t : State, t.unsent = s.unsent → t.fifo = s.fifo → t.phase = s.phase → t.checked = s.checked →
            t.aQ = s.aQ → t.pendA = s.pendA → t.connA = s.connA → t.wireAB = s.wireAB → t.connB = s.connB →
            t.bQ = q → (∀ m, m ∈ s.wireBA → m ∈ t.wireBA) →
            (s.connA = true → s.connB = true → ∃ o', Msg.rep x o' ∈ t.wireBA) →
            Good attr s r → Good attr t r := by
          intro t e1 e2 e3 e4 e5 e6 e7 e8 e9 e10 hw hx g
          refine g.mono attr (by rw [e1]; exact id) (by rw [e2]; exact id) (by rw [e3]; exact id)
            (by rw [e4]; exact id) (by rw [e5]; exact id) ?_
          rintro ⟨h1, h2, h3⟩
          refine ⟨by rw [e6]; exact h1, by rw [e7]; exact h2, ?_⟩
          rcases h3 with h3 | h3 | h3 | ⟨o', h3⟩ | ⟨o', h3⟩ | h3 | h3
          · exact Or.inl (by rw [e8]; exact h3)
          · exact Or.inr (Or.inl (by rw [e2]; exact h3))
          · exact Or.inr (Or.inr (Or.inl (by rw [e3]; exact h3)))
          · rw [hbq] at h3
            simp only [List.mem_cons] at h3
            rcases h3 with h3 | h3
            · injection h3 with h3 h4
              subst h3
              cases hcb : s.connB with
              | false => exact Or.inr (Or.inr (Or.inr (Or.inr (Or.inr (Or.inl (by rw [e9]; exact hcb))))))
              | true => exact Or.inr (Or.inr (Or.inr (Or.inr (Or.inl (hx h2 hcb)))))
            · exact Or.inr (Or.inr (Or.inr (Or.inl ⟨o', by rw [e10]; exact h3⟩)))
          · exact Or.inr (Or.inr (Or.inr (Or.inr (Or.inl ⟨o', hw _ h3⟩))))
          · exact Or.inr (Or.inr (Or.inr (Or.inr (Or.inr (Or.inl (by rw [e9]; exact h3))))))
          · rw [hbq] at h3
            exact Or.inr (Or.inr (Or.inr (Or.inr (Or.inr (Or.inr (by rw [e10]; exact mem_tail_of_ne h3 (by simp)))))))
        have g := hc hA0 r (by
          repeat' split at h
          all_goals first
            | (simp at h; done)
            | (simp at h; subst h; exact hr)) hn0
        split at h
        · next hcb =>
          simp at h; subst h
          exact key _ rfl rfl rfl rfl rfl rfl rfl rfl rfl rfl (fun _ => id)
            (fun _ hb => by simp [hb] at hcb) g
        · split at h
          · split at h
            · next hpe => simp [Cfg.sound] at hpe
            · simp at h; subst h
              exact key _ rfl rfl rfl rfl rfl rfl rfl rfl rfl rfl (fun _ m => List.mem_append_left _ m)
                (fun _ _ => ⟨.deliveryErr, by simp⟩) g
          · split at h
            · split at h
              · next hpe => simp [Cfg.sound] at hpe
              · simp at h; subst h
                exact key _ rfl rfl rfl rfl rfl rfl rfl rfl rfl rfl (fun _ m => List.mem_append_left _ m)
                  (fun _ _ => ⟨.deliveryErr, by simp⟩) g
            · split at h
              · next hca =>
                simp at h; subst h
                exact key _ rfl rfl rfl rfl rfl rfl rfl rfl rfl rfl (fun _ => id)
                  (fun ha _ => by simp [ha] at hca) g
              · simp at h; subst h
                exact key _ rfl rfl rfl rfl rfl rfl rfl rfl rfl rfl (fun _ m => List.mem_append_left _ m)
                  (fun _ _ => ⟨o, by simp⟩) g
      · next x q hbq =>
        simp at h; subst h
        refine (hc hA r hr hn0).mono attr id id id id id ?_
        rintro ⟨h1, h2, h3⟩
        refine ⟨h1, h2, ?_⟩
        rcases h3 with h3 | h3 | h3 | ⟨o', h3⟩ | ⟨o', h3⟩ | h3 | h3
        · exact Or.inl h3
        · exact Or.inr (Or.inl h3)
        · exact Or.inr (Or.inr (Or.inl h3))
        · rw [hbq] at h3; exact Or.inr (Or.inr (Or.inr (Or.inl ⟨o', mem_tail_of_ne h3 (by simp)⟩)))
        · exact Or.inr (Or.inr (Or.inr (Or.inr (Or.inl ⟨o', h3⟩))))
        · exact Or.inr (Or.inr (Or.inr (Or.inr (Or.inr (Or.inl h3)))))
        · rw [hbq] at h3; exact Or.inr (Or.inr (Or.inr (Or.inr (Or.inr (Or.inr (mem_tail_of_ne h3 (by simp)))))))
      · next q hbq =>
        simp at h; subst h
        refine (hc hA r hr hn0).mono attr id id id id id ?_
        rintro ⟨h1, h2, _⟩
        exact ⟨h1, h2, Or.inr (Or.inr (Or.inr (Or.inr (Or.inr (Or.inl rfl)))))⟩
      · next q hbq =>
        simp at h; subst h
        refine (hc hA r hr hn0).mono attr id id id id id ?_
        rintro ⟨h1, h2, h3⟩
        refine ⟨h1, h2, ?_⟩
        rcases h3 with h3 | h3 | h3 | ⟨o', h3⟩ | ⟨o', h3⟩ | h3 | h3
        · exact Or.inl h3
        · exact Or.inr (Or.inl h3)
        · exact Or.inr (Or.inr (Or.inl h3))
        · rw [hbq] at h3; exact Or.inr (Or.inr (Or.inr (Or.inl ⟨o', mem_tail_of_ne h3 (by simp)⟩)))
        · exact Or.inr (Or.inr (Or.inr (Or.inr (Or.inl ⟨o', h3⟩))))
        · exact Or.inr (Or.inr (Or.inr (Or.inr (Or.inr (Or.inl h3)))))
        · rw [hbq] at h3; exact Or.inr (Or.inr (Or.inr (Or.inr (Or.inr (Or.inr (mem_tail_of_ne h3 (by simp)))))))
  case loopExitB =>
    split at h
    · next hst =>
      simp at h; subst h
      have hcb : s.connB = false := hs.bSock_conn (by rw [hst]; simp)
      refine (hc hA r hr hn0).mono attr id id id id id ?_
      rintro ⟨h1, h2, _⟩
      exact ⟨h1, h2, Or.inr (Or.inr (Or.inr (Or.inr (Or.inr (Or.inl hcb)))))⟩
    · simp at h
  case recvB =>
    split at h
    · simp at h
    · split at h
      · next x w hw =>
        have tailw : r ≠ x → Msg.req r ∈ s.wireAB → Msg.req r ∈ w := by
          intro e hm; rw [hw] at hm
          simp only [List.mem_cons] at hm
          rcases hm with hm | hm
          · injection hm with hm; exact absurd hm e
          · exact hm
        split at h
        · simp at h; subst h
          refine (hc hA r hr hn0).mono attr id (fun f => List.mem_append_left _ f) id id id ?_
          rintro ⟨h1, h2, h3⟩
          refine ⟨h1, h2, ?_⟩
          rcases h3 with h3 | h3 | h3 | ⟨o', h3⟩ | ⟨o', h3⟩ | h3 | h3
          · by_cases e : r = x
            · subst e; exact Or.inr (Or.inl (by simp))
            · exact Or.inl (tailw e h3)
          · exact Or.inr (Or.inl (List.mem_append_left _ h3))
          · exact Or.inr (Or.inr (Or.inl h3))
          · exact Or.inr (Or.inr (Or.inr (Or.inl ⟨o', h3⟩)))
          · exact Or.inr (Or.inr (Or.inr (Or.inr (Or.inl ⟨o', h3⟩))))
          · exact Or.inr (Or.inr (Or.inr (Or.inr (Or.inr (Or.inl h3)))))
          · exact Or.inr (Or.inr (Or.inr (Or.inr (Or.inr (Or.inr h3)))))
        · simp at h; subst h
          refine (hc hA r hr hn0).mono attr id id id id id ?_
          rintro ⟨h1, h2, h3⟩
          refine ⟨h1, h2, ?_⟩
          rcases h3 with h3 | h3 | h3 | ⟨o', h3⟩ | ⟨o', h3⟩ | h3 | h3
          · by_cases e : r = x
            · subst e; exact Or.inr (Or.inr (Or.inr (Or.inr (Or.inl ⟨.deliveryErr, by simp⟩))))
            · exact Or.inl (tailw e h3)
          · exact Or.inr (Or.inl h3)
          · exact Or.inr (Or.inr (Or.inl h3))
          · exact Or.inr (Or.inr (Or.inr (Or.inl ⟨o', h3⟩)))
          · exact Or.inr (Or.inr (Or.inr (Or.inr (Or.inl ⟨o', List.mem_append_left _ h3⟩))))
          · exact Or.inr (Or.inr (Or.inr (Or.inr (Or.inr (Or.inl h3)))))
          · exact Or.inr (Or.inr (Or.inr (Or.inr (Or.inr (Or.inr h3)))))
      · next x o w hw =>
        simp at h; subst h
        refine (hc hA r hr hn0).mono attr id id id id id ?_
        rintro ⟨h1, h2, h3⟩
        refine ⟨h1, h2, ?_⟩
        rcases h3 with h3 | h3 | h3 | ⟨o', h3⟩ | ⟨o', h3⟩ | h3 | h3
        · rw [hw] at h3; simp only [List.mem_cons] at h3
          rcases h3 with h3 | h3
          · cases h3
          · exact Or.inl h3
        · exact Or.inr (Or.inl h3)
        · exact Or.inr (Or.inr (Or.inl h3))
        · exact Or.inr (Or.inr (Or.inr (Or.inl ⟨o', h3⟩)))
        · exact Or.inr (Or.inr (Or.inr (Or.inr (Or.inl ⟨o', h3⟩))))
        · exact Or.inr (Or.inr (Or.inr (Or.inr (Or.inr (Or.inl h3)))))
        · exact Or.inr (Or.inr (Or.inr (Or.inr (Or.inr (Or.inr h3)))))
      · simp at h
  case eofB =>
    split at h
    · simp at h; subst h
      refine (hc hA r hr hn0).mono attr id id id id id ?_
      rintro ⟨h1, h2, _⟩
      exact ⟨h1, h2, Or.inr (Or.inr (Or.inr (Or.inr (Or.inr (Or.inl rfl)))))⟩
    · simp at h
  case pop =>
    split at h
    · next x rest hph hf =>
      split at h <;> simp at h; subst h
      have g := hc hA r hr hn0
      have hfm : r ∈ s.fifo → r ∈ rest ∨ r = x := by
        intro hm; rw [hf] at hm; simp only [List.mem_cons] at hm
        rcases hm with hm | hm
        · exact Or.inr hm
        · exact Or.inl hm
      unfold Good Carrier at g ⊢
      rcases g with g | g
      · exact Or.inl g
      · refine Or.inr ?_
        cases hp : (attr r).place <;> simp only [hp] at g ⊢
        · rcases g with g | g
          · rcases hfm g with h1 | h1
            · exact Or.inl h1
            · exact Or.inr (by rw [h1])
          · rw [hph] at g; cases g
        · rcases g with g | g | ⟨h1, h2, h3⟩
          · exact Or.inl g
          · exact Or.inr (Or.inl g)
          · refine Or.inr (Or.inr ⟨h1, h2, ?_⟩)
            rcases h3 with h3 | h3 | h3 | ⟨o', h3⟩ | ⟨o', h3⟩ | h3 | h3
            · exact Or.inl h3
            · rcases hfm h3 with h4 | h4
              · exact Or.inr (Or.inl h4)
              · exact Or.inr (Or.inr (Or.inl (by rw [h4])))
            · rw [hph] at h3; cases h3
            · exact Or.inr (Or.inr (Or.inr (Or.inl ⟨o', h3⟩)))
            · exact Or.inr (Or.inr (Or.inr (Or.inr (Or.inl ⟨o', h3⟩))))
            · exact Or.inr (Or.inr (Or.inr (Or.inr (Or.inr (Or.inl h3)))))
            · exact Or.inr (Or.inr (Or.inr (Or.inr (Or.inr (Or.inr h3)))))
    · simp at h
  case finish o =>
    split at h
    · next x hph =>
      split at h
      · simp at h
      · split at h
        · next hcr => simp [Cfg.sound] at hcr
        · simp at h; subst h
          have c := route_core attr { s with phase := .idle, executed := s.executed ++ [(x, o)] } x o
          have g := hc hA0 r (by rw [c.issued] at hr; exact hr) hn0
          have hbusy : s.phase = .busy r → r = x := by
            intro hb; rw [hph] at hb; injection hb with hb; exact hb.symm
          unfold Good Carrier at g ⊢
          rcases g with g | g
          · exact Or.inl (by rw [c.unsent]; exact g)
          · refine Or.inr ?_
            cases hp : (attr r).place <;> simp only [hp] at g ⊢
            · rcases g with g | g
              · exact Or.inl (by rw [c.fifo]; exact g)
              · have e := hbusy g; subst e
                exact absurd hn (route_loc_result attr _ r o hp)
            · rcases g with g | g | ⟨h1, h2, h3⟩
              · exact Or.inl (by rw [c.checked]; exact g)
              · exact Or.inr (Or.inl (by rw [c.aQ]; exact g))
              · refine Or.inr (Or.inr ⟨by rw [c.pendA]; exact h1, by rw [c.connA]; exact h2, ?_⟩)
                rcases h3 with h3 | h3 | h3 | ⟨o', h3⟩ | ⟨o', h3⟩ | h3 | h3
                · exact Or.inl (by rw [c.wireAB]; exact h3)
                · exact Or.inr (Or.inl (by rw [c.fifo]; exact h3))
                · have e := hbusy h3; subst e
                  rcases route_rem_bQ attr { s with phase := .idle, executed := s.executed ++ [(r, o)] } r o hp with h4 | h4
                  · exact Or.inr (Or.inr (Or.inr (Or.inl ⟨o, h4⟩)))
                  · rcases b_cannot_send hs h4 with h5 | h5
                    · exact Or.inr (Or.inr (Or.inr (Or.inr (Or.inr (Or.inl (by rw [c.connB]; exact h5))))))
                    · exact Or.inr (Or.inr (Or.inr (Or.inr (Or.inr (Or.inr (route_bQ_mem attr _ r o _ h5))))))
                · exact Or.inr (Or.inr (Or.inr (Or.inl ⟨o', route_bQ_mem attr _ x o _ h3⟩)))
                · exact Or.inr (Or.inr (Or.inr (Or.inr (Or.inl ⟨o', by rw [c.wireBA]; exact h3⟩))))
                · exact Or.inr (Or.inr (Or.inr (Or.inr (Or.inr (Or.inl (by rw [c.connB]; exact h3))))))
                · exact Or.inr (Or.inr (Or.inr (Or.inr (Or.inr (Or.inr (route_bQ_mem attr _ x o _ h3))))))
    · simp at h
  case drain =>
    split at h
    · next hph =>
      split at h
      · simp at h; subst h
        have c := routeAll_core attr { s with phase := .drained, fifo := [] } s.fifo .deliveryErr
        have g := hc hA0 r (by rw [c.issued] at hr; exact hr) hn0
        unfold Good Carrier at g ⊢
        rcases g with g | g
        · exact Or.inl (by rw [c.unsent]; exact g)
        · refine Or.inr ?_
          cases hp : (attr r).place <;> simp only [hp] at g ⊢
          · rcases g with g | g
            · exact absurd hn (routeAll_loc_result attr _ _ _ r g hp)
            · rw [hph] at g; cases g
          · rcases g with g | g | ⟨h1, h2, h3⟩
            · exact Or.inl (by rw [c.checked]; exact g)
            · exact Or.inr (Or.inl (by rw [c.aQ]; exact g))
            · refine Or.inr (Or.inr ⟨by rw [c.pendA]; exact h1, by rw [c.connA]; exact h2, ?_⟩)
              rcases h3 with h3 | h3 | h3 | ⟨o', h3⟩ | ⟨o', h3⟩ | h3 | h3
              · exact Or.inl (by rw [c.wireAB]; exact h3)
              · rcases routeAll_rem_bQ attr { s with phase := .drained, fifo := [] } s.fifo .deliveryErr r h3 hp with h4 | h4
                · exact Or.inr (Or.inr (Or.inr (Or.inl ⟨.deliveryErr, h4⟩)))
                · rcases b_cannot_send hs h4 with h5 | h5
                  · exact Or.inr (Or.inr (Or.inr (Or.inr (Or.inr (Or.inl (by rw [c.connB]; exact h5))))))
                  · exact Or.inr (Or.inr (Or.inr (Or.inr (Or.inr (Or.inr (routeAll_bQ_mem attr _ _ _ _ h5))))))
              · rw [hph] at h3; cases h3
              · exact Or.inr (Or.inr (Or.inr (Or.inl ⟨o', routeAll_bQ_mem attr _ _ _ _ h3⟩)))
              · exact Or.inr (Or.inr (Or.inr (Or.inr (Or.inl ⟨o', by rw [c.wireBA]; exact h3⟩))))
              · exact Or.inr (Or.inr (Or.inr (Or.inr (Or.inr (Or.inl (by rw [c.connB]; exact h3))))))
              · exact Or.inr (Or.inr (Or.inr (Or.inr (Or.inr (Or.inr (routeAll_bQ_mem attr _ _ _ _ h3))))))
      · simp at h
    · simp at h

end QmiModel.Rpc
