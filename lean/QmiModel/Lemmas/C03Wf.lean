import QmiModel.Model.Pipeline
namespace QmiModel.Pipeline

/-- every place holds only requests routed through it -/
structure WF (T : Topo) (s : State) : Prop where
  hand_c  : ∀ c x, s.hand c = some x → x.caller = c
  heldC_c : ∀ c x, s.heldC c = some x → x.caller = c ∧ T.home x.obj = x.via
  ready_k : ∀ k x, x ∈ s.ready k → x.via = k ∧ T.home x.obj ≠ k
  wire_kd : ∀ k d x, x ∈ s.wire k d → x.via = k ∧ T.home x.obj = d ∧ d ≠ k
  heldL_d : ∀ d x, s.heldL d = some x → T.home x.obj = d ∧ x.via ≠ d
  fifo_o  : ∀ o x, x ∈ s.fifo o → x.obj = o
  cur_o   : ∀ o x, s.cur o = some x → x.obj = o
  exec_o  : ∀ o x, x ∈ s.executed o → x.obj = o
  rej_o   : ∀ o x, x ∈ s.rejected o → x.obj = o
  ref_o   : ∀ o x, x ∈ s.refused o → x.obj = o

theorem wf_init (T : Topo) : WF T init := by
  constructor <;> simp [init]

theorem wf_step {T : Topo} {s s' : State} {a : Act} (h : step T s a = some s') (w : WF T s) : WF T s' := by
  obtain ⟨w1, w2, w3, w4, w5, w6, w7, w8, w9, w10⟩ := w
  cases a <;> simp only [step] at h <;> (repeat' split at h) <;>
    first
      | (simp at h; done)
      | (simp only [Option.some.injEq] at h; subst h
         refine ⟨?_, ?_, ?_, ?_, ?_, ?_, ?_, ?_, ?_, ?_⟩ <;>
           (simp only [upd, upd2]; grind))

/-- the removal flags are monotone and ordered -/
structure FInv (s : State) : Prop where
  rej_left  : ∀ o, s.rejected o ≠ [] → s.left o = true
  left_shut : ∀ o, s.left o = true → s.shutdown o = true
  shut_stop : ∀ o, s.shutdown o = true → s.stopped o = true
  ref_flag  : ∀ o, s.refused o ≠ [] → s.unreg o = true ∨ s.stopped o = true
  left_idle : ∀ o, s.left o = true → s.cur o = none

theorem finv_init : FInv init := by
  constructor <;> simp [init]

theorem finv_step {T : Topo} {s s' : State} {a : Act} (h : step T s a = some s') (f : FInv s) : FInv s' := by
  obtain ⟨f1, f2, f3, f4, f5⟩ := f
  cases a <;> simp only [step] at h <;> (repeat' split at h) <;>
    first
      | (simp at h; done)
      | (simp only [Option.some.injEq] at h; subst h
         refine ⟨?_, ?_, ?_, ?_, ?_⟩ <;>
           (simp only [upd, upd2]; grind))

end QmiModel.Pipeline
