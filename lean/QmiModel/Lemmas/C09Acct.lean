import QmiModel.Lemmas.C09Wait
import QmiModel.Props.C09
/-!
# C09 — numbers: one per arrival (`NInv`), increasing per reader (`GInv`); all layers together (`FInv_reachable`)
-/
set_option linter.unusedSimpArgs false
namespace QmiModel.RecvConc
open QmiModel.RecvQueue

/-- the holder has executed `self._receiver_seqnr += 1` in its current `_receive_signal` call -/
def consumedH : Option Hold → Bool
  | some ⟨.recv _, pc, _⟩ => decide (3 ≤ pc)
  | _ => false

/-- every number consumed belongs to exactly one arrival: completed `_receive_signal` calls plus the one in flight -/
def NInv (s : St) : Prop := s.g.r.next = s.doneRecv + (if consumedH (holdOf s) then 1 else 0)

theorem NInv_init (cap : Nat) (pol : Policy) : NInv (St.init cap pol) := by
  simp [NInv, St.init, holdOf, consumedH, ginit, init]

theorem NInv_Step0 {s s' : St} {i : Nat} (h : NInv s) (hs : Step0 s i s') : NInv s' := by
  unfold NInv at *
  cases hs
  case same => exact h
  case endCall hc hpc hpc1 hlk =>
    cases hcc : (s.thr i).call <;> simp_all [holdOf, consumedH, unlock, finish, pcBound, isGet]
  case acquire hc hpc hlk hw hp =>
    cases hcc : (s.thr i).call <;> simp_all [holdOf, consumedH, upd_same]
  all_goals (simp_all [holdOf, consumedH, unlock, finish, upd_same, setNext, setQ]; done)

theorem NInv_Env0 {s s' : St} {i : Nat} (h : NInv s) (hs : Env0 s i s') : NInv s' := by
  unfold NInv at *
  cases hs
  case same => exact h
  case call c hidle =>
    cases hl : s.lock with
    | none => simpa [holdOf, hl, consumedH] using h
    | some k =>
      by_cases hk : k = i
      · subst hk; cases c <;> simp_all [holdOf, consumedH, upd_same]
      · simpa [holdOf, hl, upd_other _ _ _ _ hk] using h
  all_goals
    cases hl : s.lock with
    | none => simpa [holdOf, hl, consumedH] using h
    | some k =>
      by_cases hk : k = i
      · subst hk; simpa [holdOf, hl, upd_same] using h
      · simpa [holdOf, hl, upd_other _ _ _ _ hk] using h


/-- the numbers handed to one reader increase, and each of them was handed out -/
structure GOk (del : List Nat) (t : Thr) : Prop where
  sorted : t.got.Pairwise (· < ·)
  sub    : ∀ x ∈ t.got, x ∈ del

def GInv (s : St) : Prop := ∀ j, GOk s.g.delivered (s.thr j)

theorem GInv_init (cap : Nat) (pol : Policy) : GInv (St.init cap pol) := by
  intro j; constructor <;> simp [St.init, Thr.init]

theorem GOk_notified {del : List Nat} {t : Thr} (h : GOk del t) : GOk del { t with notified := true } := ⟨h.sorted, h.sub⟩

theorem seqInv_of_RInv {cap : Nat} {pol : Policy} {s : St} (hcap : 1 ≤ cap) (h : RInv cap pol s) : Inv (absV s.g (holdOf s)) := by
  rw [h.abs_eq]; exact inv_reachable cap pol hcap s.lin

theorem GInv_Step0 {cap : Nat} {pol : Policy} {s s' : St} {i : Nat} (hcap : 1 ≤ cap) (hr : RInv cap pol s) (h : GInv s)
    (hs : Step0 s i s') : GInv s' := by
  have hf := Step0_frame hs
  intro j
  have hd : ∀ x ∈ s.g.delivered, x ∈ s'.g.delivered := by
    cases hs <;> simp [setQ, setNext] <;> (intro x hx; exact Or.inl hx)
  by_cases hj : j = i
  · subst hj
    obtain ⟨g1, g2⟩ := h j
    cases hs
    case pop task tmo x rest hc hpc hlk hw hq =>
      have hinv := seqInv_of_RInv hcap hr
      have hm : midH (holdOf s) = false := by simp [hold_some hlk, hc, midH]
      simp only [absV, hm] at hinv
      constructor
      · simp only [finish_thr_same, upd_same]
        rw [List.pairwise_append]
        refine ⟨g1, by simp, ?_⟩
        intro a ha b hb
        simp only [List.mem_singleton] at hb; subst hb
        exact hinv.d_lt_q a (g2 a ha) x (by simp [hq])
      · simp only [finish_thr_same, upd_same, finish_g, setQ]
        intro y hy
        simp only [List.mem_append, List.mem_singleton] at hy ⊢
        rcases hy with hy | hy
        · exact Or.inl (g2 y hy)
        · exact Or.inr hy
    all_goals
      constructor
      · simpa [upd_same, finish_thr_same] using g1
      · intro y hy
        refine hd y (g2 y ?_)
        simpa [upd_same, finish_thr_same] using hy
  · have hg := h j
    have : GOk s'.g.delivered (s.thr j) := ⟨hg.sorted, fun x hx => hd x (hg.sub x hx)⟩
    rcases hf.other j hj with e | e <;> rw [e]
    · exact this
    · exact GOk_notified this

theorem GInv_Env0 {s s' : St} {i : Nat} (h : GInv s) (hs : Env0 s i s') : GInv s' := by
  have hf := Env0_frame hs
  have eg : s'.g = s.g := (Env0_at5 hs).2
  intro j
  rw [eg]
  by_cases hj : j = i
  · subst hj
    obtain ⟨g1, g2⟩ := h j
    cases hs <;> exact ⟨by simpa [upd_same] using g1, by simpa [upd_same] using g2⟩
  · rcases hf.other j hj with e | e <;> rw [e]
    · exact h j
    · exact GOk_notified (h j)

/-- everything that holds in every reachable state of the concurrent receiver -/
structure FInv (cap : Nat) (pol : Policy) (s : St) : Prop where
  c : CInv cap pol s
  n : NInv s
  g : GInv s

theorem FInv_init (cap : Nat) (pol : Policy) : FInv cap pol (St.init cap pol) :=
  ⟨CInv_init cap pol, NInv_init cap pol, GInv_init cap pol⟩

theorem FInv_cstep {cap : Nat} {pol : Policy} {s : St} (hcap : 1 ≤ cap) (h : FInv cap pol s) (a : Act) :
    FInv cap pol (cstep P0 s a) := by
  refine ⟨CInv_cstep h.c a, ?_, ?_⟩
  · rcases cstep_cases s h.c.lk a with hs | hs
    · exact NInv_Step0 h.n hs
    · exact NInv_Env0 h.n hs
  · rcases cstep_cases s h.c.lk a with hs | hs
    · exact GInv_Step0 hcap h.c.lin h.g hs
    · exact GInv_Env0 h.g hs

theorem FInv_crun {cap : Nat} {pol : Policy} (hcap : 1 ≤ cap) (sched : List Act) :
    ∀ s, FInv cap pol s → FInv cap pol (crun P0 s sched) := by
  induction sched with
  | nil => intro s h; exact h
  | cons a rest ih => intro s h; exact ih _ (FInv_cstep hcap h a)

theorem FInv_reachable (cap : Nat) (pol : Policy) (hcap : 1 ≤ cap) (sched : List Act) :
    FInv cap pol (crun P0 (St.init cap pol) sched) :=
  FInv_crun hcap sched _ (FInv_init cap pol)

theorem crun_append (P : Progs) (s : St) (a b : List Act) : crun P s (a ++ b) = crun P (crun P s a) b := by
  simp [crun, List.foldl_append]

/-! ### while thread `i` holds the lock nobody else touches the queue -/

/-- the part of the state a lock holder relies on -/
structure HeldBy (s : St) (i : Nat) (c : Call) (pc : Nat) (w : Option Nat) (q : List Sig) : Prop where
  lock   : s.lock = some i
  call   : (s.thr i).call = c
  pc     : (s.thr i).pc = pc
  wpc    : (s.thr i).wpc = w
  parked : (s.thr i).parked = false
  q      : s.g.r.q = q

theorem HeldBy_other {s : St} {i : Nat} {c : Call} {pc : Nat} {w : Option Nat} {q : List Sig} (hl : LInv s)
    (h : HeldBy s i c pc w q) (hc : c ≠ .idle) (a : Act) (ha : a ≠ .step i) : HeldBy (cstep P0 s a) i c pc w q := by
  obtain ⟨h1, h2, h3, h4, h5, h6⟩ := h
  by_cases hk : a.thread = i
  · -- an environment action on thread `i` itself
    cases a with
    | step k => simp [Act.thread] at hk; subst hk; exact absurd rfl ha
    | call k c' =>
      simp [Act.thread] at hk; subst hk
      simp only [cstep]
      cases hcc : (s.thr k).call with
      | idle => rw [h2] at hcc; exact absurd hcc hc
      | _ => exact ⟨h1, h2, h3, h4, h5, h6⟩
    | stop k => simp [Act.thread] at hk; subst hk; exact ⟨h1, by simpa [cstep] using h2, by simpa [cstep] using h3, by simpa [cstep] using h4, by simpa [cstep] using h5, h6⟩
    | expire k =>
      simp [Act.thread] at hk; subst hk
      simp only [cstep]
      split
      · exact ⟨h1, by simpa using h2, by simpa using h3, by simpa using h4, by simpa using h5, h6⟩
      · exact ⟨h1, h2, h3, h4, h5, h6⟩
    | wake k =>
      simp [Act.thread] at hk; subst hk
      simp only [cstep]
      split
      · exact ⟨h1, by simpa using h2, by simpa using h3, by simpa using h4, by simpa using h5, h6⟩
      · exact ⟨h1, h2, h3, h4, h5, h6⟩
  · rcases cstep_cases s hl a with hs | hs
    · -- a statement of another thread: every statement but a blocked one needs the lock free or held by that thread
      have hne : s.lock ≠ some a.thread := by rw [h1]; intro e; cases e; exact hk rfl
      have hnn : s.lock ≠ none := by rw [h1]; simp
      have : cstep P0 s a = s := by
        generalize cstep P0 s a = s' at hs
        cases hs <;> first | rfl | (exfalso; first | exact hne ‹_› | exact hnn ‹_›)
      rw [this]; exact ⟨h1, h2, h3, h4, h5, h6⟩
    · have hf := Env0_frame hs
      have eg := (Env0_at5 hs).2
      have hne : i ≠ a.thread := fun e => hk e.symm
      have hlk : (cstep P0 s a).lock = s.lock := by
        generalize cstep P0 s a = s' at hs
        cases hs <;> rfl
      have hth : (cstep P0 s a).thr i = s.thr i := by
        generalize cstep P0 s a = s' at hs
        cases hs <;> first | rfl | simp [upd_other _ _ _ _ hne]
      exact ⟨by rw [hlk]; exact h1, by rw [hth]; exact h2, by rw [hth]; exact h3, by rw [hth]; exact h4, by rw [hth]; exact h5,
             by rw [eg]; exact h6⟩

/-- a list of actions none of which is a statement of thread `i` -/
def NoStep (i : Nat) (as : List Act) : Prop := ∀ a ∈ as, a ≠ .step i

theorem HeldBy_others {i : Nat} {c : Call} {pc : Nat} {w : Option Nat} {q : List Sig} (hc : c ≠ .idle) (as : List Act)
    (ha : NoStep i as) : ∀ s, LInv s → HeldBy s i c pc w q → HeldBy (crun P0 s as) i c pc w q := by
  induction as with
  | nil => intro s _ h; exact h
  | cons a rest ih =>
    intro s hl h
    exact ih (fun b hb => ha b (List.mem_cons_of_mem _ hb)) _ (LInv_cstep hl a)
      (HeldBy_other hl h hc a (ha a List.mem_cons_self))

end QmiModel.RecvConc
