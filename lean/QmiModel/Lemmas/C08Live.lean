import QmiModel.Lemmas.C08Own
/-! C08: enabledness of micro-operations and the "stuck ⇒ nobody waits" argument. -/
namespace QmiModel.PubSub

/-- the operations that occur in programs of socket-manager threads -/
def MOp.isSockOp : MOp → Bool
  | .snapLocal .. | .deliver .. | .sendChk .. | .enq .. | .handleReply .. | .reqChk1 .. | .addRemote .. | .reqChk2 ..
  | .removeRemote .. | .sigRemoved .. | .popPeer .. | .peerRemoved .. | .closeConn .. | .finish .. => true
  | _ => false

def sockOps (l : List MOp) : Prop := ∀ op ∈ l, op.isSockOp = true

theorem sockOps_nil : sockOps [] := by simp [sockOps]
theorem sockOps_cons {op : MOp} {l : List MOp} : sockOps (op :: l) ↔ op.isSockOp = true ∧ sockOps l := by simp [sockOps]
theorem sockOps_append {l m : List MOp} : sockOps (l ++ m) ↔ sockOps l ∧ sockOps m := by
  simp only [sockOps, List.mem_append]
  constructor
  · intro h; exact ⟨fun op ho => h op (Or.inl ho), fun op ho => h op (Or.inr ho)⟩
  · rintro ⟨h1, h2⟩ op (ho | ho)
    · exact h1 op ho
    · exact h2 op ho

theorem sockOps_onSendFail (m : Msg) : sockOps (onSendFail m) := by
  cases m <;> simp [onSendFail, sockOps, MOp.isSockOp]

theorem sockOps_dispatch (src : Peer) (m : Msg) : sockOps (dispatch src m) := by
  cases m with
  | subReq id ob sg b => cases b <;> simp [dispatch, sockOps, MOp.isSockOp]
  | _ => simp [dispatch, sockOps, MOp.isSockOp]

theorem sockOps_map_handleReply (l : List ReqId) : sockOps (l.map (fun id => MOp.handleReply id false)) := by
  intro op ho
  simp only [List.mem_map] at ho
  obtain ⟨id, -, rfl⟩ := ho
  rfl

theorem handleReplyStep_sockOps {cs cs' : CtxSt} {id : ReqId} {ok : Bool} {more : List MOp} {o : Out}
    (h : handleReplyStep cs id ok = some (cs', more, o)) : sockOps more := by
  intro op ho
  have := handleReplyStep_cars h op ho
  cases op <;> simp_all [MOp.isCar, MOp.isSockOp]

set_option maxHeartbeats 1000000 in
/-- a socket operation pushes socket operations only -/
theorem microStep_sockOps {s s' : State} {th : Th} {ch ch2 : Nat} {op : MOp} {rest : List MOp} {o : Out}
    (hop : op.isSockOp = true) (hr : sockOps rest) (hs : microStep s th ch ch2 op rest = some (s', o)) :
    sockOps (s'.prog th) := by
  cases op <;> simp only [MOp.isSockOp] at hop <;> (try contradiction) <;> simp only [microStep] at hs
  all_goals (try (split at hs))
  all_goals (try (split at hs))
  all_goals (try (split at hs))
  all_goals (try (split at hs))
  all_goals (try (simp at hs))
  all_goals (try (obtain ⟨rfl, -⟩ := hs))
  all_goals (simp only [setProg_prog, if_true, State.setProg, upd])
  all_goals (try (split))
  all_goals (try (simp only [sockOps_cons, sockOps_append, MOp.isSockOp, true_and]))
  all_goals (try exact hr)
  all_goals (try exact ⟨sockOps_onSendFail _, hr⟩)
  all_goals (try exact ⟨sockOps_map_handleReply _, hr⟩)
  all_goals (try exact ⟨handleReplyStep_sockOps ‹handleReplyStep _ _ _ = some _›, hr⟩)

/-- programs of socket threads consist of socket operations -/
theorem sockOps_reach {s : State} (h : Reach s) : ∀ c, sockOps (s.prog (.sock c)) := by
  induction h with
  | init => intro c; simp [State.init, sockOps]
  | step hr hs ih =>
    rename_i s0 s1 a o
    intro c
    by_cases ha : ∃ th ch ch2, a = .micro th ch ch2
    · obtain ⟨th, ch, ch2, rfl⟩ := ha
      obtain ⟨-, op, rest, hp, hm⟩ := step_micro_inv hs
      by_cases e : Th.sock c = th
      · subst e
        have := ih c
        rw [hp] at this
        exact microStep_sockOps (sockOps_cons.1 this).1 (sockOps_cons.1 this).2 hm
      · rw [(microStep_frame hm).prog_other _ e]; exact ih c
    · have ha' : ∀ th ch ch2, a ≠ .micro th ch ch2 := fun th ch ch2 e => ha ⟨th, ch, ch2, e⟩
      cases a with
      | micro th ch ch2 => exact absurd rfl (ha' th ch ch2)
      | begin c0 t op =>
        rcases step_nonmicro_prog ha' hs (.sock c) with e | ⟨-, -, _ | ⟨c', t', n, op', -, e, -⟩⟩
        · rw [e]; exact ih c
        · rename_i hx
          -- `begin` starts a program on a user thread only
          simp only [step] at hs
          split at hs
          · cases op <;> simp at hs <;> obtain ⟨rfl, -⟩ := hs <;> simpa [State.setProg, upd] using ih c
          · simp at hs
        · simp at e
      | cb c0 ok =>
        simp only [step] at hs
        split at hs
        · split at hs
          · simp at hs
          · split at hs
            · simp at hs
            · rename_i heq
              obtain ⟨-, hpx, -, -, -, hpr⟩ := smSendStep_frame heq
              simp only [Option.some.injEq, Prod.mk.injEq] at hs
              obtain ⟨rfl, -⟩ := hs
              simp only [setProg_prog, hpx, setCtx_prog]
              split
              · rcases hpr with e | e <;> rw [e]
                · exact sockOps_nil
                · exact sockOps_onSendFail _
              · exact ih c
          · split at hs
            all_goals
              simp at hs; obtain ⟨rfl, -⟩ := hs
              simp only [setProg_prog, setCtx_prog]
              split
              · simp [sockOps, MOp.isSockOp]
              · exact ih c
        · simp at hs
      | arrive cn cli =>
        simp only [step] at hs
        split at hs
        · split at hs
          · simp at hs
          · simp only [Option.some.injEq, Prod.mk.injEq] at hs
            obtain ⟨rfl, -⟩ := hs
            simp only [State.setProg, upd]
            split
            · exact sockOps_dispatch _ _
            · exact ih c
        · simp at hs
      | eof cn cli =>
        simp only [step] at hs
        split at hs
        · simp only [Option.some.injEq, Prod.mk.injEq] at hs
          obtain ⟨rfl, -⟩ := hs
          simp only [setProg_prog]
          split
          · simp [sockOps, MOp.isSockOp]
          · exact ih c
        · simp at hs
      | connect a p =>
        simp only [step] at hs
        split at hs
        · simp only [Option.some.injEq, Prod.mk.injEq] at hs
          obtain ⟨rfl, -⟩ := hs
          simpa using ih c
        · simp at hs
      | routerOk c0 =>
        simp only [step] at hs
        split at hs
        · simp only [Option.some.injEq, Prod.mk.injEq] at hs
          obtain ⟨rfl, -⟩ := hs
          simpa using ih c
        · simp at hs
      | stopReq c0 =>
        simp only [step] at hs
        split at hs
        · simp only [Option.some.injEq, Prod.mk.injEq] at hs
          obtain ⟨rfl, -⟩ := hs
          simpa using ih c
        · simp at hs
      | stop c0 =>
        simp only [step] at hs
        split at hs
        · simp only [Option.some.injEq, Prod.mk.injEq] at hs
          obtain ⟨rfl, -⟩ := hs
          simpa using ih c
        · simp at hs


/-- list-carrying operations are never created with an empty list -/
def MOp.wf : MOp → Bool
  | .pubSend ps _ _ _ => !ps.isEmpty
  | .notify ns _ => !ns.isEmpty
  | .deliver _ rs _ _ => !rs.isEmpty
  | _ => true

def wfOps (l : List MOp) : Prop := ∀ op ∈ l, op.wf = true

theorem wfOps_cons {op : MOp} {l : List MOp} : wfOps (op :: l) ↔ op.wf = true ∧ wfOps l := by simp [wfOps]
theorem wfOps_append {l m : List MOp} : wfOps (l ++ m) ↔ wfOps l ∧ wfOps m := by
  simp only [wfOps, List.mem_append]
  constructor
  · intro h; exact ⟨fun op ho => h op (Or.inl ho), fun op ho => h op (Or.inr ho)⟩
  · rintro ⟨h1, h2⟩ op (ho | ho)
    · exact h1 op ho
    · exact h2 op ho

theorem wfOps_of_cars {l : List MOp} (h : ∀ op ∈ l, op.isCar = true) : wfOps l := by
  intro op ho
  have := h op ho
  cases op <;> simp_all [MOp.isCar, MOp.wf]

set_option maxHeartbeats 1000000 in
theorem microStep_wf {s s' : State} {th : Th} {ch ch2 : Nat} {op : MOp} {rest : List MOp} {o : Out}
    (hr : wfOps rest) (hs : microStep s th ch ch2 op rest = some (s', o)) : wfOps (s'.prog th) := by
  have e1 : ∀ {α : Type} (l : List α), l ≠ [] → (!l.isEmpty) = true := by
    intro α l h; cases l <;> simp_all
  cases op <;> simp only [microStep] at hs
  all_goals (try (split at hs))
  all_goals (try (split at hs))
  all_goals (try (split at hs))
  all_goals (try (split at hs))
  all_goals (try (simp at hs))
  all_goals (try (obtain ⟨rfl, -⟩ := hs))
  all_goals (simp only [setProg_prog, if_true, State.setProg, upd])
  all_goals (try (split))
  all_goals (try (simp only [wfOps_cons, wfOps_append, MOp.wf, true_and]))
  all_goals (try exact hr)
  all_goals (try exact ⟨wfOps_of_cars (onSendFail_cars _), hr⟩)
  all_goals (try exact ⟨wfOps_of_cars (handleReplyStep_cars ‹handleReplyStep _ _ _ = some _›), hr⟩)
  all_goals (try exact ⟨wfOps_of_cars (fun op ho => by simp only [List.mem_map] at ho; obtain ⟨_, -, rfl⟩ := ho; rfl), hr⟩)
  all_goals (try (refine ⟨e1 _ ‹_›, hr⟩))
  all_goals (try (exact ⟨by simp [wfOps, MOp.wf], hr⟩))
  all_goals (try (simp [wfOps, MOp.wf]; done))


/-- induction principle for predicates on programs over the actions that start a program -/
theorem nonmicro_prog_ind (P : List MOp → Prop)
    (hnil : P []) (hbegin : ∀ c t n op, P (beginProg c t n op)) (hfail : ∀ m, P (onSendFail m))
    (hfin : ∀ t b, P [.finish t b])
    (hdisc : ∀ n cn b t, P [.popPeer n, .peerRemoved n, .closeConn cn b, .finish t true])
    (harr : ∀ src m, P (dispatch src m)) (heof : ∀ n cn cli, P [.popPeer n, .peerRemoved n, .closeConn cn cli])
    {s s' : State} {a : Act} {o : Out} (ha : ∀ th ch ch2, a ≠ .micro th ch ch2)
    (hs : step s a = some (s', o)) (th' : Th) (hp : P (s.prog th')) : P (s'.prog th') := by
  cases a with
  | micro th ch ch2 => exact absurd rfl (ha th ch ch2)
  | begin c t op =>
    simp only [step] at hs
    split at hs
    · cases op <;> simp at hs <;> obtain ⟨rfl, -⟩ := hs <;> simp only [setProg_prog, State.setProg, upd] <;>
        (split
         · exact hbegin _ _ _ _
         · exact hp)
    · simp at hs
  | cb c ok =>
    simp only [step] at hs
    split at hs
    · split at hs
      · simp at hs
      · split at hs
        · simp at hs
        · rename_i heq
          obtain ⟨-, hpx, -, -, -, hpr⟩ := smSendStep_frame heq
          simp only [Option.some.injEq, Prod.mk.injEq] at hs
          obtain ⟨rfl, -⟩ := hs
          simp only [setProg_prog, hpx, setCtx_prog]
          split
          · rcases hpr with e | e <;> rw [e]
            · exact hnil
            · exact hfail _
          · exact hp
      · split at hs
        · simp at hs; obtain ⟨rfl, -⟩ := hs
          simp only [setProg_prog, setCtx_prog]
          split
          · exact hfin _ _
          · exact hp
        · simp at hs; obtain ⟨rfl, -⟩ := hs
          simp only [setProg_prog, setCtx_prog]
          split
          · exact hdisc _ _ _ _
          · exact hp
    · simp at hs
  | arrive cn cli =>
    simp only [step] at hs
    split at hs
    · split at hs
      · simp at hs
      · simp only [Option.some.injEq, Prod.mk.injEq] at hs
        obtain ⟨rfl, -⟩ := hs
        simp only [State.setProg, upd]
        split
        · exact harr _ _
        · exact hp
    · simp at hs
  | eof cn cli =>
    simp only [step] at hs
    split at hs
    · simp only [Option.some.injEq, Prod.mk.injEq] at hs
      obtain ⟨rfl, -⟩ := hs
      simp only [setProg_prog]
      split
      · exact heof _ _ _
      · exact hp
    · simp at hs
  | connect a p =>
    simp only [step] at hs
    split at hs
    · simp only [Option.some.injEq, Prod.mk.injEq] at hs
      obtain ⟨rfl, -⟩ := hs
      simpa using hp
    · simp at hs
  | routerOk c =>
    simp only [step] at hs
    split at hs
    · simp only [Option.some.injEq, Prod.mk.injEq] at hs
      obtain ⟨rfl, -⟩ := hs
      simpa using hp
    · simp at hs
  | stopReq c =>
    simp only [step] at hs
    split at hs
    · simp only [Option.some.injEq, Prod.mk.injEq] at hs
      obtain ⟨rfl, -⟩ := hs
      simpa using hp
    · simp at hs
  | stop c =>
    simp only [step] at hs
    split at hs
    · simp only [Option.some.injEq, Prod.mk.injEq] at hs
      obtain ⟨rfl, -⟩ := hs
      simpa using hp
    · simp at hs

theorem wfOps_reach {s : State} (h : Reach s) : ∀ th, wfOps (s.prog th) := by
  induction h with
  | init => intro th; simp [State.init, wfOps]
  | step hr hs ih =>
    rename_i s0 s1 a o
    intro th'
    by_cases ha : ∃ th ch ch2, a = .micro th ch ch2
    · obtain ⟨th, ch, ch2, rfl⟩ := ha
      obtain ⟨-, op, rest, hp, hm⟩ := step_micro_inv hs
      by_cases e : th' = th
      · subst e
        have := ih th'
        rw [hp] at this
        exact microStep_wf (wfOps_cons.1 this).2 hm
      · rw [(microStep_frame hm).prog_other _ e]; exact ih th'
    · refine nonmicro_prog_ind wfOps (by simp [wfOps]) ?_ (fun m => wfOps_of_cars (onSendFail_cars m)) (by simp [wfOps, MOp.wf])
        (by simp [wfOps, MOp.wf]) ?_ (by simp [wfOps, MOp.wf]) (fun th ch ch2 e => ha ⟨th, ch, ch2, e⟩) hs th' (ih th')
      · intro c t n op
        cases op <;> simp only [beginProg] <;> (try split) <;> simp [wfOps, MOp.wf]
      · intro src m
        cases m with
        | subReq id ob sg b => cases b <;> simp [dispatch, wfOps, MOp.wf]
        | _ => simp [dispatch, wfOps, MOp.wf]


/-- `ret` / `raise` occur only as the last operation of a program -/
def endLast (l : List MOp) : Prop := ∀ op ∈ l.dropLast, op.isEnd = false

theorem endLast_shape {op : MOp} {rest pr : List MOp} (h : endLast (op :: rest)) (hsh : ProgShape rest pr) : endLast pr := by
  cases hsh with
  | push x hx =>
    by_cases hr : rest = []
    · subst hr
      intro o ho
      rw [List.append_nil] at ho
      exact (hx o ((List.dropLast_sublist x).subset ho)).1
    · intro o ho
      rw [List.dropLast_append_of_ne_nil hr, List.mem_append] at ho
      rcases ho with ho | ho
      · exact (hx o ho).1
      · apply h o
        cases rest with
        | nil => exact absurd rfl hr
        | cons r rs => simp only [List.dropLast_cons_cons]; exact List.mem_cons_of_mem _ ho
  | raised e => intro o ho; simp at ho
  | ended => intro o ho; simp at ho

theorem endLast_reach {s : State} (h : Reach s) : ∀ th, endLast (s.prog th) := by
  induction h with
  | init => intro th; simp [State.init, endLast]
  | step hr hs ih =>
    rename_i s0 s1 a o
    intro th'
    by_cases ha : ∃ th ch ch2, a = .micro th ch ch2
    · obtain ⟨th, ch, ch2, rfl⟩ := ha
      obtain ⟨-, op, rest, hp, hm⟩ := step_micro_inv hs
      by_cases e : th' = th
      · subst e
        exact endLast_shape (hp ▸ ih th') (microStep_shape hm)
      · rw [(microStep_frame hm).prog_other _ e]; exact ih th'
    · refine nonmicro_prog_ind endLast (by simp [endLast]) ?_ ?_ (by simp [endLast])
        (by simp [endLast, MOp.isEnd]) ?_ (by simp [endLast, MOp.isEnd]) (fun th ch ch2 e => ha ⟨th, ch, ch2, e⟩) hs th' (ih th')
      · intro c t n op
        cases op <;> simp only [beginProg] <;> (try split) <;> simp [endLast, MOp.isEnd]
      · intro m; cases m <;> simp [onSendFail, endLast]
      · intro src m
        cases m with
        | subReq id ob sg b => cases b <;> simp [dispatch, endLast, MOp.isEnd]
        | _ => simp [dispatch, endLast]

/-- a `ret` at the head is the whole program -/
theorem ret_is_last {s : State} (h : Reach s) {th : Th} {o : OpTag} {rest : List MOp}
    (hp : s.prog th = .ret o :: rest) : rest = [] := by
  have := endLast_reach h th
  rw [hp] at this
  cases rest with
  | nil => rfl
  | cons r rs =>
    have h2 := this (.ret o) (by simp [List.dropLast_cons_cons])
    simp [MOp.isEnd] at h2


theorem handleReplyStep_isSome (cs : CtxSt) (id : ReqId) (ok : Bool) : (handleReplyStep cs id ok).isSome = true := by
  unfold handleReplyStep
  split
  · rfl
  · split
    · rfl
    · split
      · rfl
      · split <;> rfl

def MOp.isWait : MOp → Bool
  | .wait _ => true
  | .waitFut => true
  | _ => false

set_option maxHeartbeats 1000000 in
/-- **no micro-operation other than the two waits can block**: in every reachable state, the head operation of every
thread is enabled for a suitable choice of the iteration order -/
theorem micro_enabled {s : State} (h : Reach s) {th : Th} {op : MOp} {rest : List MOp}
    (hp : s.prog th = op :: rest) (hw : op.isWait = false) :
    ∃ ch ch2, (microStep s th ch ch2 op rest).isSome = true := by
  have hwf : op.wf = true := (wfOps_reach h th) op (by rw [hp]; exact List.mem_cons_self)
  have hpk := pendInv_reach h th.ctx
  cases op <;> simp only [MOp.isWait] at hw <;> (try contradiction)
  case deliver sid rs k p =>
    cases rs with
    | nil => simp [MOp.wf] at hwf
    | cons r rs' => exact ⟨r, 0, by simp [microStep]⟩
  case pubSend ps ob sg p =>
    cases ps with
    | nil => simp [MOp.wf] at hwf
    | cons d ps' =>
      refine ⟨peerCode d, 0, ?_⟩
      simp only [microStep, List.find?_cons, decide_true]
      split <;> rfl
  case notify ns ob =>
    cases ns with
    | nil => simp [MOp.wf] at hwf
    | cons x ns' =>
      refine ⟨x.1, peerCode x.2, ?_⟩
      simp only [microStep, List.find?_cons, and_self, decide_true]
      split <;> rfl
  case subRemote k r =>
    refine ⟨0, 0, ?_⟩
    simp only [microStep]
    split
    · rfl
    · split
      · rename_i pid hk
        have := hpk.byKey_some k pid hk
        split
        · rename_i hn; exact absurd hn this
        · rfl
      · rfl
  case ret o =>
    have := ret_is_last h hp
    subst this
    exact ⟨0, 0, by simp [microStep]⟩
  case enqDisc n =>
    cases th with
    | user c t => exact ⟨0, 0, by simp [microStep]⟩
    | sock c =>
      have := sockOps_reach h c _ (by rw [hp]; exact List.mem_cons_self)
      simp [MOp.isSockOp] at this
  case handleReply id ok =>
    refine ⟨0, 0, ?_⟩
    simp only [microStep]
    have := handleReplyStep_isSome (s.ctx th.ctx) id ok
    split
    · rename_i hn; rw [hn] at this; simp at this
    · rfl
  all_goals (refine ⟨0, 0, ?_⟩; simp only [microStep]; (try split) <;> (try split) <;> (try split) <;> rfl)


/-- a thread waiting in `wait pid`: the pending object exists, has waiting receivers, and is either completed or
still registered (so that a reply will complete it) -/
structure WaitOk (cs : CtxSt) (pid : ReqId) : Prop where
  ex : cs.pobj pid ≠ none
  live : ∀ po, cs.pobj pid = some po → po.rcvs ≠ [] ∧ (po.done ≠ none ∨ cs.byKey po.key = some pid)

def WaitInv (s : State) : Prop := ∀ th pid, .wait pid ∈ s.prog th → WaitOk (s.ctx th.ctx) pid

theorem ins_ne_nil (l : List Nat) (x : Nat) : ins l x ≠ [] := by
  unfold ins; split
  · rename_i h; intro e; rw [e] at h; simp at h
  · simp

theorem handleReplyStep_waitOk {cs cs' : CtxSt} {id : ReqId} {ok : Bool} {more : List MOp} {o : Out} {pid : ReqId}
    (hp : PendOk cs) (hw : WaitOk cs pid) (hs : handleReplyStep cs id ok = some (cs', more, o)) : WaitOk cs' pid := by
  obtain ⟨w1, w2⟩ := hw
  have a1 := hp.byId_some
  have a2 := hp.byId_key
  have a3 := hp.byId_inj
  have a4 := hp.fresh
  have a5 := hp.byKey_some
  have a6 := hp.byKey_obj
  unfold handleReplyStep at hs
  split at hs
  · simp only [Option.some.injEq, Prod.mk.injEq] at hs; obtain ⟨rfl, rfl, rfl⟩ := hs; exact ⟨w1, w2⟩
  · split at hs
    · simp only [Option.some.injEq, Prod.mk.injEq] at hs; obtain ⟨rfl, rfl, rfl⟩ := hs; exact ⟨w1, w2⟩
    · split at hs
      · simp only [Option.some.injEq, Prod.mk.injEq] at hs
        obtain ⟨rfl, -, -⟩ := hs
        constructor <;> (try intros) <;> simp only [upd] at * <;> grind
      · split at hs
        · simp only [Option.some.injEq, Prod.mk.injEq] at hs
          obtain ⟨rfl, -, -⟩ := hs
          constructor <;> (try intros) <;> simp only [upd] at * <;> grind
        · simp only [Option.some.injEq, Prod.mk.injEq] at hs
          obtain ⟨rfl, -, -⟩ := hs
          constructor <;> (try intros) <;> simp only [upd] at * <;> grind

theorem WaitOk.cancel {cs : CtxSt} {pid : ReqId} (h : WaitOk cs pid) (l : Key → List Rcv) (g : ReqId → PObj → Bool) :
    WaitOk { cs with lsubs := l, pobj := fun p => (cs.pobj p).map (fun po => po.cancelIf (g p po)) } pid := by
  obtain ⟨w1, w2⟩ := h
  constructor
  · simp only
    cases hp : cs.pobj pid <;> simp_all
  · intro po hpo
    simp only at hpo
    cases hp : cs.pobj pid with
    | none => simp [hp] at hpo
    | some po0 =>
      simp only [hp, Option.map_some, Option.some.injEq] at hpo
      subst hpo
      simpa using w2 po0 hp

set_option maxHeartbeats 2000000 in
theorem waitOk_micro {s s' : State} {th : Th} {ch ch2 : Nat} {op : MOp} {rest : List MOp} {o : Out} {pid : ReqId}
    (hp : PendOk (s.ctx th.ctx)) (hw : WaitOk (s.ctx th.ctx) pid)
    (hs : microStep s th ch ch2 op rest = some (s', o)) : WaitOk (s'.ctx th.ctx) pid := by
  have hw' := hw
  obtain ⟨w1, w2⟩ := hw
  have a1 := hp.byId_some
  have a2 := hp.byId_key
  have a4 := hp.fresh
  have a5 := hp.byKey_some
  have a6 := hp.byKey_obj
  have m1 := ins_ne_nil
  cases op <;> simp only [microStep] at hs
  all_goals (try (split at hs))
  all_goals (try (split at hs))
  all_goals (try (split at hs))
  all_goals (try (split at hs))
  all_goals (try (simp at hs))
  all_goals (try (obtain ⟨rfl, -⟩ := hs))
  all_goals (simp only [setProg_ctx, setCtx_ctx, State.setProg, if_true])
  all_goals (try exact hw')
  all_goals (try exact handleReplyStep_waitOk hp hw' ‹handleReplyStep _ _ _ = some _›)
  all_goals (try exact hw'.cancel _ _)
  all_goals (try (constructor <;> (try intros) <;> simp only [upd, peerRemovedStep] at * <;> grind))


set_option maxHeartbeats 2000000 in
/-- a `wait` in the new program of the acting thread was in the rest of its old program, or was just created by
`_subscribe_remote` for a pending object that is registered -/
theorem microStep_wait_new {s s' : State} {th : Th} {ch ch2 : Nat} {op : MOp} {rest : List MOp} {o : Out}
    (hp : PendOk (s.ctx th.ctx)) (hs : microStep s th ch ch2 op rest = some (s', o)) :
    ∀ pid, .wait pid ∈ s'.prog th → .wait pid ∈ rest ∨ WaitOk (s'.ctx th.ctx) pid := by
  have a5 := hp.byKey_some
  have a6 := hp.byKey_obj
  have m1 := ins_ne_nil
  have f1 : ∀ m pid, MOp.wait pid ∉ onSendFail m := by intro m pid; cases m <;> simp [onSendFail]
  cases op <;> simp only [microStep] at hs
  all_goals (try (split at hs))
  all_goals (try (split at hs))
  all_goals (try (split at hs))
  all_goals (try (split at hs))
  all_goals (try (simp at hs))
  all_goals (try (obtain ⟨rfl, -⟩ := hs))
  all_goals (intro pid hm)
  all_goals (simp only [setProg_prog, if_true, State.setProg, upd] at hm)
  all_goals (try (have f2 := handleReplyStep_cars ‹handleReplyStep _ _ _ = some _›))
  all_goals (try (split at hm))
  all_goals (try (simp only [List.mem_append, List.mem_cons, List.mem_map, List.not_mem_nil, or_false, false_or, reduceCtorEq] at hm))
  all_goals (try (left; exact hm))
  all_goals (try (exact absurd hm (f1 _ _)))
  all_goals (try (rcases hm with hm | hm <;> first | (left; exact hm) | exact absurd hm (f1 _ _) | (have := f2 _ hm; simp [MOp.isCar] at this) | (obtain ⟨_, -, hm⟩ := hm; cases hm)))
  all_goals (try (rcases hm with hm | hm
                  · right
                    simp only [MOp.wait.injEq] at hm
                    subst hm
                    simp only [setProg_ctx, setCtx_ctx, if_true]
                    constructor <;> (try intros) <;> simp only [upd] at * <;> grind
                  · left; exact hm))

theorem waitInv_reach {s : State} (h : Reach s) : WaitInv s := by
  induction h with
  | init => intro th pid hm; simp [State.init] at hm
  | step hr hs ih =>
    rename_i s0 s1 a o
    intro th' pid hm
    by_cases ha : ∃ th ch ch2, a = .micro th ch ch2
    · obtain ⟨th, ch, ch2, rfl⟩ := ha
      obtain ⟨-, op, rest, hp, hmic⟩ := step_micro_inv hs
      have hf := microStep_frame hmic
      have hpk := pendInv_reach hr th.ctx
      by_cases e : th' = th
      · subst e
        rcases microStep_wait_new hpk hmic pid hm with h1 | h1
        · exact waitOk_micro hpk (ih th' pid (by rw [hp]; exact List.mem_cons_of_mem _ h1)) hmic
        · exact h1
      · rw [hf.prog_other th' e] at hm
        have := ih th' pid hm
        by_cases hc : th'.ctx = th.ctx
        · rw [hc] at this ⊢; exact waitOk_micro hpk this hmic
        · rw [hf.ctx_other _ hc]; exact this
    · have ha' : ∀ th ch ch2, a ≠ .micro th ch ch2 := fun th ch ch2 e => ha ⟨th, ch, ch2, e⟩
      have hold : MOp.wait pid ∈ s0.prog th' := by
        refine nonmicro_prog_ind (fun l => MOp.wait pid ∈ l → MOp.wait pid ∈ s0.prog th') (by simp) ?_ ?_ (by simp) (by simp) ?_ (by simp)
          ha' hs th' (fun x => x) hm
        · intro c t n op; cases op <;> simp only [beginProg] <;> (try split) <;> simp
        · intro m; cases m <;> simp [onSendFail]
        · intro src m
          cases m with
          | subReq id ob sg b => cases b <;> simp [dispatch]
          | _ => simp [dispatch]
      have := ih th' pid hold
      have e := step_nonmicro_tables ha' hs th'.ctx
      exact ⟨by rw [e.pobj]; exact this.ex, by rw [e.pobj, e.byKey]; exact this.live⟩


/-! ### stuck ⇒ nobody waits -/

/-- the actions the system performs by itself (threads continuing their programs, the socket threads taking the next
callback / message / end-of-stream) — as opposed to new user-level calls, `connect` and `stop` -/
def Act.internal : Act → Bool
  | .micro .. => true
  | .cb .. => true
  | .arrive .. => true
  | .eof .. => true
  | _ => false

/-- no internal action is enabled -/
def Stuck (s : State) : Prop := ∀ a, a.internal = true → step s a = none

/-- **the peer-side obligation** (not mechanised): a request that is registered on a connection end of a live context
is being worked on — its request message, the peer's handler, its reply, or the teardown of the connection provides an
enabled internal action. -/
def NetLive (s : State) : Prop :=
  ∀ cn cli id, cn < s.nextConn → (s.ctx ((s.conn cn).half cli).owner).alive = true → id ∈ ((s.conn cn).half cli).pend →
    ∃ a, a.internal = true ∧ (step s a).isSome = true

theorem head_isCar_of_carPrefix {op : MOp} {rest : List MOp} (h : carPrefix (op :: rest))
    (hex : ∃ op' ∈ op :: rest, op'.isCar = true) : op.isCar = true := by
  cases hc : op.isCar with
  | true => rfl
  | false =>
    obtain ⟨op', hm, hcar⟩ := hex
    have hfree := carFree_rest_of_head h hc
    rcases List.mem_cons.1 hm with rfl | hm
    · rw [hc] at hcar; exact hcar
    · rw [hfree op' hm] at hcar; exact absurd hcar (by simp)

theorem isWait_false_of_isCar {op : MOp} (h : op.isCar = true) : op.isWait = false := by
  cases op <;> simp_all [MOp.isCar, MOp.isWait]

theorem isWait_false_of_sockOp {op : MOp} (h : op.isSockOp = true) : op.isWait = false := by
  cases op <;> simp_all [MOp.isSockOp, MOp.isWait]

theorem step_micro_of_enabled {s : State} {th : Th} {op : MOp} {rest : List MOp} {ch ch2 : Nat}
    (hal : (s.ctx th.ctx).alive = true) (hp : s.prog th = op :: rest)
    (he : (microStep s th ch ch2 op rest).isSome = true) : (step s (.micro th ch ch2)).isSome = true := by
  simp only [step, hal, if_true, hp]; exact he

/-- the socket thread of a live context with a non-empty queue can always take the next callback -/
theorem cb_enabled {s : State} {c : Ctx} (hal : (s.ctx c).alive = true) (hidle : s.prog (.sock c) = [])
    (hq : (s.ctx c).loopQ ≠ []) : (step s (.cb c true)).isSome = true := by
  simp only [step, hal, hidle, and_self, if_true]
  cases hl : (s.ctx c).loopQ with
  | nil => exact absurd hl hq
  | cons cb q =>
    cases cb with
    | smSend d m =>
      simp only [smSendStep, setCtx_ctx, if_true]
      cases hp : (s.ctx c).peers d <;> simp
    | disconnect n t =>
      simp only
      cases hp : (s.ctx c).peers n <;> simp

/-- **stuck ⇒ answered**: if no internal action is enabled (and the peer-side obligation holds), no live context has
an outstanding request, and no thread of a live context sits in a `subscribe` call (the only blocking operation left
is the `waitFut` of a `disconnect_from_peer` call) -/
theorem stuck_implies_answered {s : State} (h : Reach s) (hst : Stuck s) (hnet : NetLive s) :
    (∀ c id, (s.ctx c).alive = true → (s.ctx c).byId id = none) ∧
    (∀ th, (s.ctx th.ctx).alive = true → s.prog th = [] ∨ ∃ rest, s.prog th = .waitFut :: rest) := by
  have hcp := carPrefix_reach h
  -- every live thread with a non-waiting head could move
  have hmove : ∀ th op rest, (s.ctx th.ctx).alive = true → s.prog th = op :: rest → op.isWait = true := by
    intro th op rest hal hp
    cases hw : op.isWait with
    | true => rfl
    | false =>
      obtain ⟨ch, ch2, he⟩ := micro_enabled h hp hw
      have := hst (.micro th ch ch2) rfl
      have h2 := step_micro_of_enabled hal hp he
      rw [this] at h2; simp at h2
  have hans : ∀ c id, (s.ctx c).alive = true → (s.ctx c).byId id = none := by
    intro c id hal
    cases hb : (s.ctx c).byId id with
    | none => rfl
    | some pid =>
      exfalso
      rcases carrierInv_reach h c id hal (by rw [hb]; simp) with ⟨th, hc, op, ho, hcar⟩ | ⟨cb, hcb, hcar⟩ | ⟨cn, cli, h1, h2, h3⟩
      · cases hp : s.prog th with
        | nil => rw [hp] at ho; simp at ho
        | cons hd rest =>
          have hcar' : hd.isCar = true :=
            head_isCar_of_carPrefix (hp ▸ hcp th) ⟨op, hp ▸ ho, MOp.isCar_of_carries hcar⟩
          have := hmove th hd rest (by rw [hc]; exact hal) hp
          rw [isWait_false_of_isCar hcar'] at this; simp at this
      · cases hp : s.prog (.sock c) with
        | nil =>
          have := cb_enabled hal hp (by intro e; rw [e] at hcb; simp at hcb)
          rw [hst (.cb c true) rfl] at this; simp at this
        | cons hd rest =>
          have hso := sockOps_reach h c hd (by rw [hp]; exact List.mem_cons_self)
          have := hmove (.sock c) hd rest hal hp
          rw [isWait_false_of_sockOp hso] at this; simp at this
      · obtain ⟨a, ha, he⟩ := hnet cn cli id h1 (by rw [h2]; exact hal) h3
        rw [hst a ha] at he; simp at he
  refine ⟨hans, ?_⟩
  intro th hal
  cases hp : s.prog th with
  | nil => exact Or.inl rfl
  | cons hd rest =>
    right
    have hw := hmove th hd rest hal hp
    cases hd <;> simp only [MOp.isWait] at hw <;> (try contradiction)
    · -- `wait pid`: the pending object is completed (then `wait` could move) or still registered (then a request is outstanding)
      rename_i pid
      exfalso
      have hwo := waitInv_reach h th pid (by rw [hp]; exact List.mem_cons_self)
      have hpk := pendInv_reach h th.ctx
      cases hpo : (s.ctx th.ctx).pobj pid with
      | none => exact hwo.ex hpo
      | some po =>
        rcases (hwo.live po hpo).2 with hd | hk
        · have : (microStep s th 0 0 (.wait pid) rest).isSome = true := by
            simp only [microStep, hpo]
            cases hdone : po.done with
            | none => exact absurd hdone hd
            | some b => cases b <;> rfl
          have h2 := step_micro_of_enabled hal hp this
          rw [hst (.micro th 0 0) rfl] at h2; simp at h2
        · have := hpk.byKey_cur _ pid po hk hpo
          rw [hans th.ctx po.cur hal] at this; simp at this
    · exact ⟨rest, rfl⟩

end QmiModel.PubSub
