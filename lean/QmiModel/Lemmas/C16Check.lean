import QmiModel.Model.ConfigCheck
import QmiModel.Lemmas.C16Err
import QmiModel.Lemmas.C16Strip
/-!
# C16 — the acceptance test `_check_config_struct_type`, the entry points
-/
namespace QmiModel.Config

/-! ## specification: the field types the documentation of `config_struct.py` allows -/

/-- `args` has exactly one member that is not `None`, namely `t` -/
inductive OneNonNone : List RawTy → RawTy → Prop
  | here {t : RawTy} {rest : List RawTy} : t.isNone = false → rest.all RawTy.isNone = true → OneNonNone (t :: rest) t
  | skip {h t : RawTy} {rest : List RawTy} : h.isNone = true → OneNonNone rest t → OneNonNone (h :: rest) t

mutual
inductive Supported : RawTy → Prop
  | int : Supported .int
  | float : Supported .float
  | str : Supported .str
  | bool : Supported .bool
  | any : Supported .any
  | bareList : Supported .bareList
  | bareTuple : Supported .bareTuple
  | bareDict : Supported .bareDict
  | optional {args : List RawTy} {t : RawTy} : OneNonNone args t → Supported t → Supported (.union args)
  | listOf {t : RawTy} : Supported t → Supported (.listOf t)
  | tupleVar {t : RawTy} : Supported t → Supported (.tupleVar t)
  | tupleFix {ts : List RawTy} : SupportedL ts → Supported (.tupleFix ts)
  | dictOf {t : RawTy} : Supported t → Supported (.dictOf .str t)
  | struct {n : Str} {fs : List RawField} : SupportedF fs → Supported (.struct n fs)
inductive SupportedL : List RawTy → Prop
  | nil : SupportedL []
  | cons {t : RawTy} {ts : List RawTy} : Supported t → SupportedL ts → SupportedL (t :: ts)
/-- fields that are not constructor arguments (`init=False`) are not configuration items: their type is free -/
inductive SupportedF : List RawField → Prop
  | nil : SupportedF []
  | init {n : Str} {t : RawTy} {d : Option PV} {fs : List RawField} :
      Supported t → SupportedF fs → SupportedF ((n, t, d, true) :: fs)
  | noInit {n : Str} {t : RawTy} {d : Option PV} {fs : List RawField} :
      SupportedF fs → SupportedF ((n, t, d, false) :: fs)
end

theorem isStr_iff (k : RawTy) : k.isStr = true ↔ k = .str := by
  cases k <;> simp [RawTy.isStr]

/-! ## `checkType … = ok ↔ Supported` -/

mutual
theorem supported_of_check : ∀ (ρ : RawTy) (p : Path), checkType ρ p = .ok () → Supported ρ
  | .int, _, _ => .int
  | .float, _, _ => .float
  | .str, _, _ => .str
  | .bool, _, _ => .bool
  | .any, _, _ => .any
  | .bareList, _, _ => .bareList
  | .bareTuple, _, _ => .bareTuple
  | .bareDict, _, _ => .bareDict
  | .builtinTuple, p, h => by simp [checkType, cfgErr] at h
  | .noneType, p, h => by simp [checkType, cfgErr] at h
  | .other, p, h => by simp [checkType, cfgErr] at h
  | .union args, p, h => by
    simp only [checkType] at h
    obtain ⟨t, h1, h2⟩ := supportedU_of_check args p h
    exact .optional h1 h2
  | .listOf t, p, h => by simp only [checkType] at h; exact .listOf (supported_of_check t _ h)
  | .tupleVar t, p, h => by simp only [checkType] at h; exact .tupleVar (supported_of_check t _ h)
  | .tupleFix ts, p, h => by simp only [checkType] at h; exact .tupleFix (supportedL_of_check ts 0 p h)
  | .dictOf k t, p, h => by
    simp only [checkType] at h
    by_cases hk : k.isStr = true
    · simp only [hk, if_true] at h
      rw [(isStr_iff k).1 hk]; exact .dictOf (supported_of_check t _ h)
    · simp [hk, cfgErr] at h
  | .struct n fs, p, h => by simp only [checkType] at h; exact .struct (supportedF_of_check fs p h)
theorem supportedU_of_check : ∀ (args : List RawTy) (p : Path), checkUnion args p = .ok () →
    ∃ t, OneNonNone args t ∧ Supported t
  | [], p, h => by simp [checkUnion, cfgErr] at h
  | t :: rest, p, h => by
    simp only [checkUnion] at h
    by_cases hn : t.isNone = true
    · simp only [hn, if_true] at h
      obtain ⟨t', h1, h2⟩ := supportedU_of_check rest p h
      exact ⟨t', .skip hn h1, h2⟩
    · simp only [hn] at h
      by_cases ha : rest.all RawTy.isNone = true
      · simp only [ha, if_true] at h
        exact ⟨t, .here (by simpa using hn) ha, supported_of_check t p h⟩
      · simp [ha, cfgErr] at h
theorem supportedL_of_check : ∀ (ts : List RawTy) (i : Nat) (p : Path), checkTuple ts i p = .ok () → SupportedL ts
  | [], _, _, _ => .nil
  | t :: ts, i, p, h => by
    simp only [checkTuple] at h
    cases ht : checkType t (p ++ [.idx i]) with
    | error e => simp [ht] at h
    | ok u =>
      simp only [ht] at h
      exact .cons (supported_of_check t _ ht) (supportedL_of_check ts (i + 1) p h)
theorem supportedF_of_check : ∀ (fs : List RawField) (p : Path), checkFields fs p = .ok () → SupportedF fs
  | [], _, _ => .nil
  | (n, t, d, init) :: fs, p, h => by
    simp only [checkFields] at h
    cases init with
    | false => simp at h; exact .noInit (supportedF_of_check fs p h)
    | true =>
      simp only [if_true] at h
      cases ht : checkType t (p ++ [.field n]) with
      | error e => simp [ht] at h
      | ok u =>
        simp only [ht] at h
        exact .init (supported_of_check t _ ht) (supportedF_of_check fs p h)
end

mutual
theorem check_of_supported : ∀ (ρ : RawTy), Supported ρ → ∀ p, checkType ρ p = .ok ()
  | .int, _, _ => rfl
  | .float, _, _ => rfl
  | .str, _, _ => rfl
  | .bool, _, _ => rfl
  | .any, _, _ => rfl
  | .bareList, _, _ => rfl
  | .bareTuple, _, _ => rfl
  | .bareDict, _, _ => rfl
  | .builtinTuple, h, _ => by cases h
  | .noneType, h, _ => by cases h
  | .other, h, _ => by cases h
  | .union args, h, p => by
    cases h with
    | optional h1 h2 => simp only [checkType]; exact checkU_of_supported args _ h1 h2 p
  | .listOf t, h, p => by cases h with | listOf h' => simp only [checkType]; exact check_of_supported t h' _
  | .tupleVar t, h, p => by cases h with | tupleVar h' => simp only [checkType]; exact check_of_supported t h' _
  | .tupleFix ts, h, p => by cases h with | tupleFix h' => simp only [checkType]; exact checkL_of_supported ts h' 0 p
  | .dictOf k t, h, p => by
    cases h with
    | dictOf h' => simp only [checkType, RawTy.isStr, if_true]; exact check_of_supported t h' _
  | .struct n fs, h, p => by cases h with | struct h' => simp only [checkType]; exact checkF_of_supported fs h' p
theorem checkU_of_supported : ∀ (args : List RawTy) (t : RawTy), OneNonNone args t → Supported t →
    ∀ p, checkUnion args p = .ok ()
  | [], t, h, _, _ => by cases h
  | a :: rest, t, h, hs, p => by
    cases h with
    | here hn ha => simp only [checkUnion, hn, ha, if_true]; exact check_of_supported a hs p
    | skip hn hr => simp only [checkUnion, hn, if_true]; exact checkU_of_supported rest t hr hs p
theorem checkL_of_supported : ∀ (ts : List RawTy), SupportedL ts → ∀ i p, checkTuple ts i p = .ok ()
  | [], _, _, _ => rfl
  | t :: ts, h, i, p => by
    cases h with
    | cons h1 h2 => simp only [checkTuple, check_of_supported t h1]; exact checkL_of_supported ts h2 _ p
theorem checkF_of_supported : ∀ (fs : List RawField), SupportedF fs → ∀ p, checkFields fs p = .ok ()
  | [], _, _ => rfl
  | (n, t, d, init) :: fs, h, p => by
    cases h with
    | init h1 h2 => simp only [checkFields, if_true, check_of_supported t h1]; exact checkF_of_supported fs h2 p
    | noInit h2 => simp only [checkFields]; exact checkF_of_supported fs h2 p
end

/-! ## the acceptance test raises nothing but its three configuration errors, below the path it was given -/

def IsCheckErr (p : Path) (e : PyExc) : Prop :=
  ∃ k r, e = .config k (p ++ r) ∧ (k = .badUnion ∨ k = .badKey ∨ k = .badType)

theorem IsCheckErr.lift {p : Path} {x : PathItem} {e : PyExc} (h : IsCheckErr (p ++ [x]) e) : IsCheckErr p e := by
  obtain ⟨k, r, he, hk⟩ := h
  exact ⟨k, x :: r, by simpa using he, hk⟩

mutual
theorem check_err : ∀ (ρ : RawTy) (p : Path) (e : PyExc), checkType ρ p = .error e → IsCheckErr p e
  | .int, _, _, h => by simp [checkType] at h
  | .float, _, _, h => by simp [checkType] at h
  | .str, _, _, h => by simp [checkType] at h
  | .bool, _, _, h => by simp [checkType] at h
  | .any, _, _, h => by simp [checkType] at h
  | .bareList, _, _, h => by simp [checkType] at h
  | .bareTuple, _, _, h => by simp [checkType] at h
  | .bareDict, _, _, h => by simp [checkType] at h
  | .builtinTuple, p, e, h => by simp [checkType, cfgErr] at h; exact ⟨.badType, [], by simp [h], by simp⟩
  | .noneType, p, e, h => by simp [checkType, cfgErr] at h; exact ⟨.badType, [], by simp [h], by simp⟩
  | .other, p, e, h => by simp [checkType, cfgErr] at h; exact ⟨.badType, [], by simp [h], by simp⟩
  | .union args, p, e, h => by simp only [checkType] at h; exact checkU_err args p e h
  | .listOf t, p, e, h => by simp only [checkType] at h; exact (check_err t _ e h).lift
  | .tupleVar t, p, e, h => by simp only [checkType] at h; exact (check_err t _ e h).lift
  | .tupleFix ts, p, e, h => by simp only [checkType] at h; exact checkL_err ts 0 p e h
  | .dictOf k t, p, e, h => by
    simp only [checkType] at h
    by_cases hk : k.isStr = true
    · simp only [hk, if_true] at h; exact (check_err t _ e h).lift
    · simp [hk, cfgErr] at h; exact ⟨.badKey, [], by simp [h], by simp⟩
  | .struct n fs, p, e, h => by simp only [checkType] at h; exact checkF_err fs p e h
theorem checkU_err : ∀ (args : List RawTy) (p : Path) (e : PyExc), checkUnion args p = .error e → IsCheckErr p e
  | [], p, e, h => by simp [checkUnion, cfgErr] at h; exact ⟨.badType, [], by simp [h], by simp⟩
  | t :: rest, p, e, h => by
    simp only [checkUnion] at h
    by_cases hn : t.isNone = true
    · simp only [hn, if_true] at h; exact checkU_err rest p e h
    · simp only [hn] at h
      by_cases ha : rest.all RawTy.isNone = true
      · simp only [ha, if_true] at h; exact check_err t p e h
      · simp [ha, cfgErr] at h; exact ⟨.badUnion, [], by simp [h], by simp⟩
theorem checkL_err : ∀ (ts : List RawTy) (i : Nat) (p : Path) (e : PyExc), checkTuple ts i p = .error e → IsCheckErr p e
  | [], _, _, _, h => by simp [checkTuple] at h
  | t :: ts, i, p, e, h => by
    simp only [checkTuple] at h
    cases ht : checkType t (p ++ [.idx i]) with
    | error e' => simp [ht] at h; subst h; exact (check_err t _ _ ht).lift
    | ok u => simp only [ht] at h; exact checkL_err ts (i + 1) p e h
theorem checkF_err : ∀ (fs : List RawField) (p : Path) (e : PyExc), checkFields fs p = .error e → IsCheckErr p e
  | [], _, _, h => by simp [checkFields] at h
  | (n, t, d, init) :: fs, p, e, h => by
    simp only [checkFields] at h
    cases init with
    | false => simp at h; exact checkF_err fs p e h
    | true =>
      simp only [if_true] at h
      cases ht : checkType t (p ++ [.field n]) with
      | error e' => simp [ht] at h; subst h; exact (check_err t _ _ ht).lift
      | ok u => simp only [ht] at h; exact checkF_err fs p e h
end

/-! ## an accepted type is one the parser really handles -/

mutual
/-- no position of the descriptor is the "unrecognised type" fall-through -/
def noNever : Ty → Bool
  | .never => false
  | .opt t => noNever t
  | .list t => noNever t
  | .tupleVar t => noNever t
  | .tupleFix ts => noNeverL ts
  | .dict t => noNever t
  | .struct _ fs => noNeverF fs
  | _ => true
def noNeverL : List Ty → Bool
  | [] => true
  | t :: ts => noNever t && noNeverL ts
def noNeverF : List Field → Bool
  | [] => true
  | (_, t, _) :: fs => noNever t && noNeverF fs
end

mutual
/-- every field of every structure is a constructor argument -/
def allInit : RawTy → Bool
  | .union args => allInitL args
  | .listOf t => allInit t
  | .tupleVar t => allInit t
  | .tupleFix ts => allInitL ts
  | .dictOf k t => allInit k && allInit t
  | .struct _ fs => allInitF fs
  | _ => true
def allInitL : List RawTy → Bool
  | [] => true
  | t :: ts => allInit t && allInitL ts
def allInitF : List RawField → Bool
  | [] => true
  | (_, t, _, init) :: fs => init && allInit t && allInitF fs
end

mutual
theorem elab_of_supported : ∀ (ρ : RawTy), Supported ρ → allInit ρ = true → ∃ τ, elabTy ρ = some τ ∧ noNever τ = true
  | .int, _, _ => ⟨_, rfl, rfl⟩
  | .float, _, _ => ⟨_, rfl, rfl⟩
  | .str, _, _ => ⟨_, rfl, rfl⟩
  | .bool, _, _ => ⟨_, rfl, rfl⟩
  | .any, _, _ => ⟨_, rfl, rfl⟩
  | .bareList, _, _ => ⟨_, rfl, rfl⟩
  | .bareTuple, _, _ => ⟨_, rfl, rfl⟩
  | .bareDict, _, _ => ⟨_, rfl, rfl⟩
  | .builtinTuple, h, _ => by cases h
  | .noneType, h, _ => by cases h
  | .other, h, _ => by cases h
  | .union args, h, ha => by
    cases h with
    | optional h1 h2 =>
      simp only [allInit] at ha
      simp only [elabTy]
      exact elabU_of_supported args _ h1 h2 ha false
  | .listOf t, h, ha => by
    cases h with
    | listOf h' =>
      obtain ⟨τ, h1, h2⟩ := elab_of_supported t h' (by simpa [allInit] using ha)
      exact ⟨.list τ, by simp [elabTy, h1], by simpa [noNever] using h2⟩
  | .tupleVar t, h, ha => by
    cases h with
    | tupleVar h' =>
      obtain ⟨τ, h1, h2⟩ := elab_of_supported t h' (by simpa [allInit] using ha)
      exact ⟨.tupleVar τ, by simp [elabTy, h1], by simpa [noNever] using h2⟩
  | .tupleFix ts, h, ha => by
    cases h with
    | tupleFix h' =>
      obtain ⟨τs, h1, h2⟩ := elabL_of_supported ts h' (by simpa [allInit] using ha)
      exact ⟨.tupleFix τs, by simp [elabTy, h1], by simpa [noNever] using h2⟩
  | .dictOf k t, h, ha => by
    cases h with
    | dictOf h' =>
      simp only [allInit, Bool.and_eq_true] at ha
      obtain ⟨τ, h1, h2⟩ := elab_of_supported t h' ha.2
      exact ⟨.dict τ, by simp [elabTy, h1], by simpa [noNever] using h2⟩
  | .struct n fs, h, ha => by
    cases h with
    | struct h' =>
      obtain ⟨fs', h1, h2⟩ := elabF_of_supported fs h' (by simpa [allInit] using ha)
      exact ⟨.struct n fs', by simp [elabTy, h1], by simpa [noNever] using h2⟩
theorem elabU_of_supported : ∀ (args : List RawTy) (t : RawTy), OneNonNone args t → Supported t →
    allInitL args = true → ∀ seen, ∃ τ, elabUnion args seen = some τ ∧ noNever τ = true
  | [], t, h, _, _, _ => by cases h
  | a :: rest, t, h, hs, ha, seen => by
    simp only [allInitL, Bool.and_eq_true] at ha
    cases h with
    | here hn hall =>
      obtain ⟨τ, h1, h2⟩ := elab_of_supported a hs ha.1
      refine ⟨if seen || !rest.isEmpty then .opt τ else τ, ?_, ?_⟩
      · simp [elabUnion, hn, hall, h1]
      · split
        · simpa [noNever] using h2
        · exact h2
    | skip hn hr =>
      simp only [elabUnion, hn, if_true]
      exact elabU_of_supported rest t hr hs ha.2 true
theorem elabL_of_supported : ∀ (ts : List RawTy), SupportedL ts → allInitL ts = true →
    ∃ τs, elabL ts = some τs ∧ noNeverL τs = true
  | [], _, _ => ⟨[], rfl, rfl⟩
  | t :: ts, h, ha => by
    simp only [allInitL, Bool.and_eq_true] at ha
    cases h with
    | cons h1 h2 =>
      obtain ⟨τ, e1, n1⟩ := elab_of_supported t h1 ha.1
      obtain ⟨τs, e2, n2⟩ := elabL_of_supported ts h2 ha.2
      exact ⟨τ :: τs, by simp [elabL, e1, e2], by simp [noNeverL, n1, n2]⟩
theorem elabF_of_supported : ∀ (fs : List RawField), SupportedF fs → allInitF fs = true →
    ∃ fs', elabF fs = some fs' ∧ noNeverF fs' = true
  | [], _, _ => ⟨[], rfl, rfl⟩
  | (n, t, d, init) :: fs, h, ha => by
    simp only [allInitF, Bool.and_eq_true] at ha
    cases h with
    | init h1 h2 =>
      obtain ⟨τ, e1, n1⟩ := elab_of_supported t h1 ha.1.2
      obtain ⟨fs', e2, n2⟩ := elabF_of_supported fs h2 ha.2
      exact ⟨(n, τ, d) :: fs', by simp [elabF, e1, e2], by simp [noNeverF, n1, n2]⟩
    | noInit h2 => simp at ha
end

/-! ## the top-level call on data that is not a dict -/

theorem topFields_kind : ∀ (fs : List Field) (data : PV) (e : PyExc), topFields fs data = some e →
    e = .typeError ∨ ∃ f, e = .config .missing [.field f]
  | [], _, _, h => by simp [topFields] at h
  | (n, t, d) :: fs, data, e, h => by
    simp only [topFields] at h
    cases hi : inTest data n with
    | none => simp [hi] at h; exact Or.inl h.symm
    | some b =>
      cases b with
      | true => simp [hi] at h; exact Or.inl h.symm
      | false =>
        simp only [hi] at h
        cases d with
        | none => simp at h; exact Or.inr ⟨n, h.symm⟩
        | some dv => exact topFields_kind fs data e h

/-! ## association lists: `cfgdict["config_file"] = …` -/

theorem assoc_setKey_same (k : Str) (v : PV) (kvs : List (Str × PV)) : assoc k (setKey k v kvs) = some v := by
  induction kvs with
  | nil => simp [setKey, assoc]
  | cons kv kvs ih =>
    obtain ⟨k', x⟩ := kv
    by_cases h : k' = k
    · simp [setKey, h, assoc]
    · simp [setKey, h, assoc, ih]

theorem assoc_setKey_other (k k' : Str) (v : PV) (kvs : List (Str × PV)) (hne : k' ≠ k) :
    assoc k' (setKey k v kvs) = assoc k' kvs := by
  induction kvs with
  | nil => simp [setKey, assoc, Ne.symm hne]
  | cons kv kvs ih =>
    obtain ⟨k'', x⟩ := kv
    by_cases h : k'' = k
    · subst h; simp [setKey, assoc, Ne.symm hne]
    · by_cases h2 : k'' = k'
      · subst h2; simp [setKey, h, assoc]
      · simp [setKey, h, assoc, h2, ih]

/-! ## line terminators -/

theorem splitLines_nlNorm (s : List Nat) : splitLines (nlNorm s) = splitLines s := by
  induction s with
  | nil => rfl
  | cons c cs ih =>
    simp only [nlNorm, List.map_cons] at ih ⊢
    by_cases h13 : c = 13
    · subst h13; simp [splitLines, ih]
    · by_cases h10 : c = 10
      · subst h10; simp [splitLines, ih]
      · simp only [h13, if_false, splitLines, h10, or_self, ih]

end QmiModel.Config
