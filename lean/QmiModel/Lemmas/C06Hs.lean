import QmiModel.Lemmas.C06Frame
/-! Helper lemmas for C06: the blocking handshake reader (`receive_handshake`) is exact for every way the socket
    hands out the bytes. Core only. -/
namespace QmiModel.Frame

/-- what a blocking socket hands to the successive `recv(need_len - len(buf))` calls of `receive_handshake`:
    every chunk is non-empty, comes off the front of what the peer has sent (`avail`) and is never longer than
    what was asked for -/
inductive Serves : Bytes → Bytes → List Bytes → Prop
  | nil (buf avail : Bytes) : Serves buf avail []
  | cons (buf ch avail' : Bytes) (rest : List Bytes) : ch ≠ [] → ch.length ≤ hsNeed buf - buf.length →
      Serves (buf ++ ch) avail' rest → Serves buf (ch ++ avail') (ch :: rest)

theorem frame_length (p : Bytes) : (frame p).length = 9 + p.length := by
  simp [frame, length_leBytes]; omega

/-- facts about a buffer that is a prefix of `frame p ++ tail` -/
theorem prefix_facts (p tail buf avail : Bytes) (h64 : p.length < 2 ^ 64)
    (heq : buf ++ avail = frame p ++ tail) :
    badHead buf = false ∧ (9 ≤ buf.length → leNat ((buf.drop 1).take 8) = p.length) := by
  have h8 : (leBytes 8 p.length).length = 8 := length_leBytes 8 _
  have hle : leNat (leBytes 8 p.length) = p.length := leNat_leBytes 8 _ (by simpa using h64)
  constructor
  · cases buf with
    | nil => rfl
    | cons b t =>
      simp only [frame, List.cons_append, List.cons.injEq] at heq
      rw [heq.1]; simp [badHead]
  · intro h9
    have hb : buf = (frame p ++ tail).take buf.length := by rw [← heq, List.take_left']; rfl
    rw [hb]
    simp only [frame, List.cons_append]
    generalize leBytes 8 p.length = hdr at *
    obtain ⟨k, hk⟩ : ∃ k, buf.length = k + 9 := ⟨buf.length - 9, by omega⟩
    rw [hk, List.take_succ_cons, List.drop_succ_cons, List.drop_zero, List.take_take,
      show min 8 (k + 8) = 8 by omega, List.append_assoc, List.take_append_of_le_length (by omega),
      List.take_of_length_le (by omega)]
    exact hle

/-- what `receive_handshake` returns once the complete first frame (payload `p`) is in its buffer:
    the buffer is left empty, the frame went to `_process_message` -/
def hsDone (env : Env) (s : PState) (p : Bytes) : HsRes :=
  match (processMessage env s p).err with
  | some w => ⟨(processMessage env s p).st, [], some (.proc w)⟩
  | none =>
    if (processMessage env s p).st.peer.isNone then ⟨(processMessage env s p).st, [], some .peerNone⟩
    else ⟨(processMessage env s p).st, [], none⟩

theorem hsNeed_le (p tail buf avail : Bytes) (h64 : p.length < 2 ^ 64) (heq : buf ++ avail = frame p ++ tail) :
    hsNeed buf ≤ 9 + p.length ∧ (9 ≤ buf.length → hsNeed buf = 9 + p.length) := by
  have hf := (prefix_facts p tail buf avail h64 heq).2
  unfold hsNeed
  by_cases h9 : buf.length < 9
  · simp [h9]; omega
  · simp only [h9, ↓reduceIte]
    rw [hf (by omega)]
    exact ⟨Nat.le_refl _, fun _ => rfl⟩

theorem recvHs_unfold (env : Env) (s : PState) (buf : Bytes) (chunks : List Bytes) :
    recvHs env s buf chunks =
      if badHead buf then ⟨s, buf, some .marker⟩
      else if buf.length ≥ 9 ∧ leNat ((buf.drop 1).take 8) > env.maxSize then ⟨s, buf, some .oversize⟩
      else
        if buf.length ≥ hsNeed buf then
          match (processMessage env s ((buf.drop 9).take (hsNeed buf - 9))).err with
          | some w => ⟨(processMessage env s ((buf.drop 9).take (hsNeed buf - 9))).st, buf.drop (hsNeed buf), some (.proc w)⟩
          | none =>
            if (processMessage env s ((buf.drop 9).take (hsNeed buf - 9))).st.peer.isNone
            then ⟨(processMessage env s ((buf.drop 9).take (hsNeed buf - 9))).st, buf.drop (hsNeed buf), some .peerNone⟩
            else ⟨(processMessage env s ((buf.drop 9).take (hsNeed buf - 9))).st, buf.drop (hsNeed buf), none⟩
        else
          match chunks with
          | [] => ⟨s, buf, some .needMore⟩
          | ch :: rest => if ch.isEmpty then ⟨s, buf, some .eofBeforeHandshake⟩ else recvHs env s (buf ++ ch) rest := by
  cases chunks <;> (rw [recvHs]; rfl)

theorem recvHs_frame (env : Env) (s : PState) (p : Bytes) (cs : List Bytes)
    (hsz : p.length ≤ env.maxSize) (h64 : p.length < 2 ^ 64) :
    recvHs env s (frame p) cs = hsDone env s p := by
  obtain ⟨hb, hl⟩ := prefix_facts p [] (frame p) [] h64 rfl
  have hlen := frame_length p
  have hn := (hsNeed_le p [] (frame p) [] h64 rfl).2 (by omega)
  have hl' := hl (by omega)
  rw [recvHs_unfold]
  have hov : ¬ ((frame p).length ≥ 9 ∧ leNat (((frame p).drop 1).take 8) > env.maxSize) := by
    rw [hl']; omega
  have hge : (frame p).length ≥ hsNeed (frame p) := by omega
  simp only [hb, Bool.false_eq_true, ↓reduceIte, hov, hn]
  have hp : ((frame p).drop 9).take (9 + p.length - 9) = p := by
    have : (frame p).drop 9 = p := by
      simp only [frame]
      rw [List.drop_succ_cons, List.drop_append_of_le_length (by rw [length_leBytes]; omega),
        List.drop_of_length_le (by rw [length_leBytes]; omega), List.nil_append]
    rw [this]; simp
  have hd : (frame p).drop (9 + p.length) = [] := List.drop_of_length_le (by omega)
  rw [hp, hd]
  have hge' : (frame p).length ≥ 9 + p.length := by omega
  simp only [hge', ↓reduceIte]
  rfl

theorem recvHsReqs_unfold (env : Env) (buf : Bytes) (chunks : List Bytes) :
    recvHsReqs env buf chunks =
      if badHead buf then []
      else if buf.length ≥ 9 ∧ leNat ((buf.drop 1).take 8) > env.maxSize then []
      else if buf.length ≥ hsNeed buf then []
      else
        match chunks with
        | [] => []
        | ch :: rest => (hsNeed buf - buf.length) :: (if ch.isEmpty then [] else recvHsReqs env (buf ++ ch) rest) := by
  cases chunks <;> rw [recvHsReqs]

/-- **the blocking handshake reader is exact for every segmentation**: whatever non-empty pieces (never longer
    than asked for) the socket hands out of a stream that starts with `frame p`, `receive_handshake` either still
    waits (the pieces so far do not complete the frame) or ends exactly as if `frame p` had arrived in one piece —
    and the pieces it took are exactly `frame p`: the rest of the stream stays in the socket for the
    event-driven reader. -/
theorem recvHs_exact_aux (env : Env) (s : PState) (p tail : Bytes)
    (hsz : p.length ≤ env.maxSize) (h64 : p.length < 2 ^ 64) :
    ∀ (chunks : List Bytes) (buf avail : Bytes), Serves buf avail chunks → buf ++ avail = frame p ++ tail →
      buf.length ≤ 9 + p.length →
      (recvHs env s buf chunks).err = some .needMore ∨
      (recvHs env s buf chunks = hsDone env s p ∧
       buf ++ (chunks.take (recvHsReqs env buf chunks).length).flatten = frame p) := by
  intro chunks
  induction chunks with
  | nil =>
    intro buf avail _ heq hlen
    obtain ⟨hb, hl⟩ := prefix_facts p tail buf avail h64 heq
    obtain ⟨hn1, hn2⟩ := hsNeed_le p tail buf avail h64 heq
    by_cases hdone : buf.length ≥ hsNeed buf
    · -- the buffer already holds the whole frame
      have h9 : 9 ≤ buf.length := by unfold hsNeed at hdone; split at hdone <;> omega
      have hfull : buf.length = 9 + p.length := by have := hn2 h9; omega
      have hbuf : buf = frame p := by
        have : buf = (frame p ++ tail).take buf.length := by rw [← heq, List.take_left']; rfl
        rw [this, hfull, ← frame_length p, List.take_left']; rfl
      right
      rw [hbuf]
      refine ⟨recvHs_frame env s p [] hsz h64, ?_⟩
      simp
    · left
      rw [recvHs_unfold]
      have hov : ¬ (buf.length ≥ 9 ∧ leNat ((buf.drop 1).take 8) > env.maxSize) := by
        intro h; have := hl h.1; omega
      simp only [hb, Bool.false_eq_true, ↓reduceIte, hov, hdone]
  | cons ch rest ih =>
    intro buf avail hserve heq hlen
    obtain ⟨hb, hl⟩ := prefix_facts p tail buf avail h64 heq
    obtain ⟨hn1, hn2⟩ := hsNeed_le p tail buf avail h64 heq
    have hov : ¬ (buf.length ≥ 9 ∧ leNat ((buf.drop 1).take 8) > env.maxSize) := by
      intro h; have := hl h.1; omega
    by_cases hdone : buf.length ≥ hsNeed buf
    · have h9 : 9 ≤ buf.length := by unfold hsNeed at hdone; split at hdone <;> omega
      have hfull : buf.length = 9 + p.length := by have := hn2 h9; omega
      have hbuf : buf = frame p := by
        have : buf = (frame p ++ tail).take buf.length := by rw [← heq, List.take_left']; rfl
        rw [this, hfull, ← frame_length p, List.take_left']; rfl
      right
      rw [hbuf]
      refine ⟨recvHs_frame env s p _ hsz h64, ?_⟩
      rw [recvHsReqs_unfold]
      have hb' : badHead (frame p) = false := hbuf ▸ hb
      have hov' : ¬ ((frame p).length ≥ 9 ∧ leNat (((frame p).drop 1).take 8) > env.maxSize) := hbuf ▸ hov
      have hd' : (frame p).length ≥ hsNeed (frame p) := hbuf ▸ hdone
      simp [hb', hd']
    · cases hserve with
      | cons _ _ avail' _ hne hle hrest =>
        have hce : ch.isEmpty = false := by cases ch <;> simp at hne ⊢
        have heq' : (buf ++ ch) ++ avail' = frame p ++ tail := by rw [List.append_assoc]; exact heq
        have hlen' : (buf ++ ch).length ≤ 9 + p.length := by simp only [List.length_append]; omega
        rw [recvHs_unfold, recvHsReqs_unfold]
        simp only [hb, Bool.false_eq_true, ↓reduceIte, hov, hdone, hce]
        rcases ih (buf ++ ch) avail' hrest heq' hlen' with h | ⟨h1, h2⟩
        · exact Or.inl h
        · right
          refine ⟨h1, ?_⟩
          simp only [List.length_cons, List.take_succ_cons, List.flatten_cons]
          rw [← List.append_assoc]; exact h2

theorem hsDone_not_needMore (env : Env) (s : PState) (p : Bytes) : (hsDone env s p).err ≠ some .needMore := by
  unfold hsDone
  split
  · simp
  · split <;> simp

/-- `receive_handshake` keeps waiting only while the frame is incomplete -/
theorem recvHs_needMore_short (env : Env) (s : PState) (p tail : Bytes)
    (hsz : p.length ≤ env.maxSize) (h64 : p.length < 2 ^ 64) :
    ∀ (chunks : List Bytes) (buf avail : Bytes), Serves buf avail chunks → buf ++ avail = frame p ++ tail →
      buf.length ≤ 9 + p.length → (recvHs env s buf chunks).err = some .needMore →
      (buf ++ chunks.flatten).length < 9 + p.length := by
  intro chunks
  induction chunks with
  | nil =>
    intro buf avail hs heq hlen hnm
    rcases recvHs_exact_aux env s p tail hsz h64 [] buf avail hs heq hlen with _ | ⟨h1, h2⟩
    · obtain ⟨hn1, _⟩ := hsNeed_le p tail buf avail h64 heq
      by_cases hdone : buf.length ≥ hsNeed buf
      · exfalso
        have h9 : 9 ≤ buf.length := by unfold hsNeed at hdone; split at hdone <;> omega
        have := (hsNeed_le p tail buf avail h64 heq).2 h9
        have hfull : buf.length = 9 + p.length := by omega
        have hbuf : buf = frame p := by
          have : buf = (frame p ++ tail).take buf.length := by rw [← heq, List.take_left']; rfl
          rw [this, hfull, ← frame_length p, List.take_left']; rfl
        rw [hbuf, recvHs_frame env s p [] hsz h64] at hnm
        exact hsDone_not_needMore env s p hnm
      · simp only [List.flatten_nil, List.append_nil]; omega
    · rw [h1] at hnm; exact absurd hnm (hsDone_not_needMore env s p)
  | cons ch rest ih =>
    intro buf avail hserve heq hlen hnm
    obtain ⟨hb, hl⟩ := prefix_facts p tail buf avail h64 heq
    have hov : ¬ (buf.length ≥ 9 ∧ leNat ((buf.drop 1).take 8) > env.maxSize) := by
      intro h; have := hl h.1; omega
    by_cases hdone : buf.length ≥ hsNeed buf
    · exfalso
      have h9 : 9 ≤ buf.length := by unfold hsNeed at hdone; split at hdone <;> omega
      have := (hsNeed_le p tail buf avail h64 heq).2 h9
      have hfull : buf.length = 9 + p.length := by omega
      have hbuf : buf = frame p := by
        have : buf = (frame p ++ tail).take buf.length := by rw [← heq, List.take_left']; rfl
        rw [this, hfull, ← frame_length p, List.take_left']; rfl
      rw [hbuf, recvHs_frame env s p _ hsz h64] at hnm
      exact hsDone_not_needMore env s p hnm
    · cases hserve with
      | cons _ _ avail' _ hne hle hrest =>
        have hce : ch.isEmpty = false := by cases ch <;> simp at hne ⊢
        have heq' : (buf ++ ch) ++ avail' = frame p ++ tail := by rw [List.append_assoc]; exact heq
        have hn1 := (hsNeed_le p tail buf (ch ++ avail') h64 heq).1
        have hlen' : (buf ++ ch).length ≤ 9 + p.length := by simp only [List.length_append]; omega
        rw [recvHs_unfold] at hnm
        simp only [hb, Bool.false_eq_true, ↓reduceIte, hov, hdone, hce] at hnm
        have := ih (buf ++ ch) avail' hrest heq' hlen' hnm
        simpa [List.append_assoc] using this

/-- the form used by `connect_to_peer`: once the pieces handed out cover the first frame, the reader has
    finished with exactly that frame -/
theorem recvHs_exact (env : Env) (s : PState) (p tail : Bytes) (chunks : List Bytes) (avail : Bytes)
    (hsz : p.length ≤ env.maxSize) (h64 : p.length < 2 ^ 64)
    (hs : Serves [] avail chunks) (heq : avail = frame p ++ tail)
    (hcover : 9 + p.length ≤ chunks.flatten.length) :
    recvHs env s [] chunks = hsDone env s p ∧
    (chunks.take (recvHsReqs env [] chunks).length).flatten = frame p := by
  have heq' : ([] : Bytes) ++ avail = frame p ++ tail := by simpa using heq
  rcases recvHs_exact_aux env s p tail hsz h64 chunks [] avail hs heq' (by simp) with h | h
  · have := recvHs_needMore_short env s p tail hsz h64 chunks [] avail hs heq' (by simp) h
    simp only [List.nil_append] at this; omega
  · simpa using h

theorem lookup_append_new {α β : Type} [BEq α] [LawfulBEq α] (l : List (α × β)) (k : α) (v : β)
    (h : l.lookup k = none) : (l ++ [(k, v)]).lookup k = some v := by
  induction l with
  | nil => simp
  | cons e rest ih =>
    obtain ⟨a, b⟩ := e
    simp only [List.cons_append, List.lookup] at h ⊢
    cases hka : k == a with
    | true => simp [hka] at h
    | false => simp only [hka] at h ⊢; exact ih h

theorem lookup_append_other {α β : Type} [BEq α] [LawfulBEq α] (l : List (α × β)) (k a : α) (v : β)
    (h : a ≠ k) : (l ++ [(k, v)]).lookup a = l.lookup a := by
  have hak : (a == k) = false := by simp [h]
  induction l with
  | nil => simp [List.lookup, hak]
  | cons e rest ih =>
    obtain ⟨x, b⟩ := e
    simp only [List.cons_append, List.lookup]
    cases a == x with
    | true => rfl
    | false => exact ih

/-- one `_handle_read` of connection `i` sees nothing but `env` and connection `i` -/
theorem recv_congr (w1 w2 : World) (i : Nat) (d : Bytes) (henv : w1.env = w2.env)
    (hl : w1.conns.lookup i = w2.conns.lookup i) :
    (w1.recv i d).2 = (w2.recv i d).2 ∧ (w1.recv i d).1.env = (w2.recv i d).1.env ∧
    (w1.recv i d).1.conns.lookup i = (w2.recv i d).1.conns.lookup i := by
  unfold World.recv
  rw [hl, henv]
  cases w2.conns.lookup i with
  | none => exact ⟨rfl, henv, hl⟩
  | some c => exact ⟨rfl, rfl, by simp only [lookup_setConn_eq]⟩

theorem recv_other (w : World) (i j : Nat) (d : Bytes) (h : i ≠ j) :
    (w.recv j d).1.env = w.env ∧ (w.recv j d).1.conns.lookup i = w.conns.lookup i := by
  unfold World.recv
  cases w.conns.lookup j with
  | none => exact ⟨rfl, rfl⟩
  | some c => exact ⟨rfl, lookup_setConn_ne j i _ _ h⟩

theorem run_projection (i : Nat) (ops : List (Nat × Bytes)) : ∀ (w1 w2 : World), w1.env = w2.env →
    w1.conns.lookup i = w2.conns.lookup i →
    (World.run w1 ops).1.conns.lookup i = (World.run w2 (ops.filter fun o => o.1 == i)).1.conns.lookup i ∧
    (World.run w1 ops).2.filter (fun e => e.1 == i) = (World.run w2 (ops.filter fun o => o.1 == i)).2 := by
  induction ops with
  | nil => intro w1 w2 _ hl; exact ⟨hl, rfl⟩
  | cons o ops ih =>
    intro w1 w2 henv hl
    obtain ⟨j, d⟩ := o
    by_cases hji : j = i
    · subst hji
      obtain ⟨h1, h2, h3⟩ := recv_congr w1 w2 j d henv hl
      obtain ⟨i1, i2⟩ := ih (w1.recv j d).1 (w2.recv j d).1 h2 h3
      simp only [List.filter_cons, beq_self_eq_true, ↓reduceIte, World.run]
      refine ⟨i1, ?_⟩
      rw [List.filter_append, i2, h1]
      congr 1
      rw [List.filter_eq_self]
      intro e he
      simp only [List.mem_map] at he
      obtain ⟨_, _, rfl⟩ := he
      simp
    · have hne : (j == i) = false := by simp [hji]
      obtain ⟨h2, h3⟩ := recv_other w1 i j d (fun h => hji h.symm)
      obtain ⟨i1, i2⟩ := ih (w1.recv j d).1 w2 (h2.trans henv) (h3.trans hl)
      simp only [List.filter_cons, hne, Bool.false_eq_true, ↓reduceIte, World.run]
      refine ⟨i1, ?_⟩
      rw [List.filter_append, i2]
      have : ((w1.recv j d).2.map fun e => (j, e)).filter (fun e => e.1 == i) = [] := by
        rw [List.filter_eq_nil_iff]
        intro e he
        simp only [List.mem_map] at he
        obtain ⟨_, _, rfl⟩ := he
        simp [hji]
      rw [this, List.nil_append]

theorem flatMap_congr_mem {α β : Type} (l : List α) (f g : α → List β) (h : ∀ x ∈ l, f x = g x) :
    l.flatMap f = l.flatMap g := by
  induction l with
  | nil => rfl
  | cons a l ih =>
    simp only [List.flatMap_cons]
    rw [h a List.mem_cons_self, ih (fun x hx => h x (List.mem_cons_of_mem _ hx))]

theorem closeIds_lookup_other (env : Env) (ids : List Nat) : ∀ (conns : List (Nat × Conn)) (j : Nat), j ∉ ids →
    (closeIds env conns ids).1.lookup j = conns.lookup j := by
  induction ids with
  | nil => intro conns j _; rfl
  | cons id ids ih =>
    intro conns j hj
    have hne : j ≠ id := fun h => hj (h ▸ List.mem_cons_self)
    have hj' : j ∉ ids := fun h => hj (List.mem_cons_of_mem _ h)
    simp only [closeIds]
    cases hc : conns.lookup id with
    | none => exact ih conns j hj'
    | some c => simp only []; rw [ih _ j hj', lookup_setConn_ne id j _ _ hne]

/-- every listed connection ends closed with an empty pending table (closing is idempotent, so this holds for
    any id list) -/
theorem closeIds_closes (env : Env) (ids : List Nat) : ∀ (conns : List (Nat × Conn)) (id : Nat) (c : Conn),
    id ∈ ids → conns.lookup id = some c →
    ∃ c', (closeIds env conns ids).1.lookup id = some c' ∧ c'.closed = true ∧ c'.st.pending = [] ∧
      c'.st.alias = c.st.alias ∧ c'.st.peer = c.st.peer := by
  induction ids with
  | nil => intro conns id c h; cases h
  | cons i ids ih =>
    intro conns id c hmem hc
    simp only [closeIds]
    by_cases hi : id = i
    · subst hi
      simp only [hc]
      by_cases hin : id ∈ ids
      · obtain ⟨c', h1, h2, h3, h4, h5⟩ := ih (setConn id (closeConn env c).conn conns) id (closeConn env c).conn hin
          (lookup_setConn_eq _ _ _)
        exact ⟨c', h1, h2, h3, by rw [h4, closeConn_eq], by rw [h5, closeConn_eq]⟩
      · refine ⟨(closeConn env c).conn, ?_, ?_, ?_, ?_, ?_⟩
        · rw [closeIds_lookup_other env ids _ id hin, lookup_setConn_eq]
        all_goals (rw [closeConn_eq])
    · have hin : id ∈ ids := by
        rcases List.mem_cons.mp hmem with h | h
        · exact absurd h hi
        · exact h
      cases hci : conns.lookup i with
      | none => exact ih conns id c hin hc
      | some ci =>
        simp only []
        exact ih _ id c hin (by rw [lookup_setConn_ne i id _ _ hi]; exact hc)

/-- with distinct ids the events are exactly the error replies of each connection's own pending table, connection
    after connection in list order -/
theorem closeIds_events (env : Env) (ids : List Nat) : ∀ (conns : List (Nat × Conn)), ids.Nodup →
    (closeIds env conns ids).2 =
      ids.flatMap (fun id => match conns.lookup id with
                             | some c => c.st.pending.map (clearEv env c.st.peer)
                             | none => []) := by
  induction ids with
  | nil => intro conns _; rfl
  | cons i ids ih =>
    intro conns hnd
    obtain ⟨hni, hnd'⟩ := List.nodup_cons.mp hnd
    simp only [closeIds, List.flatMap_cons]
    cases hc : conns.lookup i with
    | none => simp only [List.nil_append]; exact ih conns hnd'
    | some c =>
      simp only []
      rw [ih _ hnd', closeConn_eq]
      congr 1
      apply flatMap_congr_mem
      intro j hj
      have hne : j ≠ i := fun h => hni (h ▸ hj)
      rw [lookup_setConn_ne i j _ _ hne]

end QmiModel.Frame
