import QmiModel.Lemmas.C01Basic
/-! Structural invariants of the RPC model (hold for every `Cfg`). -/
namespace QmiModel.Rpc

variable (cfg : Cfg) (attr : ReqId → Attr)

/-- In an event-loop queue every `stopLoop` is preceded by a `closeAll`, or the connection is closed already.
    (`MessageRouter.stop` queues `close_all` before it asks the loop to stop.) -/
def okQ : Bool → List Cb → Bool
  | _, [] => true
  | _, .closeAll :: q => okQ false q
  | c, .stopLoop :: q => !c && okQ c q
  | c, .sendReq _ :: q => okQ c q
  | c, .sendRep _ _ :: q => okQ c q

theorem okQ_false (q : List Cb) : okQ false q = true := by
  induction q with
  | nil => rfl
  | cons x q ih => cases x <;> simp [okQ, ih]

theorem okQ_append_rep (c : Bool) (q : List Cb) (r o) : okQ c (q ++ [.sendRep r o]) = okQ c q := by
  induction q generalizing c with
  | nil => simp [okQ]
  | cons x q ih => cases x <;> simp [okQ, ih]

theorem okQ_append_req (c : Bool) (q : List Cb) (r) : okQ c (q ++ [.sendReq r]) = okQ c q := by
  induction q generalizing c with
  | nil => simp [okQ]
  | cons x q ih => cases x <;> simp [okQ, ih]

theorem okQ_append_close (c : Bool) (q : List Cb) : okQ c (q ++ [.closeAll]) = okQ c q := by
  induction q generalizing c with
  | nil => simp [okQ]
  | cons x q ih => cases x <;> simp [okQ, ih]

theorem okQ_append_stop (c : Bool) (q : List Cb) : okQ c (q ++ [.closeAll, .stopLoop]) = okQ c q := by
  induction q generalizing c with
  | nil => simp [okQ]
  | cons x q ih => cases x <;> simp [okQ, ih]


structure SInv (s : State) : Prop where
  shut_run   : s.shutdown = true → s.running = false
  drained    : s.phase = .drained → s.shutdown = true ∧ s.fifo = []
  bQ_ok      : okQ s.connB s.bQ = true
  bSock_conn : s.bSock ≠ .up → s.connB = false
  bDown_q    : s.bSock = .down → s.bQ = []
  bRouter_cl : s.bRouter = false → Cb.closeAll ∈ s.bQ ∨ s.connB = false
  aNoStop    : s.aStop = false → s.aSock = .up ∧ s.aRouter = true ∧ Cb.stopLoop ∉ s.aQ
  crash      : cfg.lockCrash = false → s.phase ≠ .crashed
  bSock_rt   : s.bSock ≠ .up → s.bRouter = false
  bStop_rt   : Cb.stopLoop ∈ s.bQ → s.bRouter = false

theorem sinv_init : SInv cfg init := by
  constructor <;> simp [init, okQ]

theorem route_bQ_ok (s : State) (r o) (h : okQ s.connB s.bQ = true) :
    okQ (route attr s r o).connB (route attr s r o).bQ = true := by
  rw [(route_core attr s r o).connB]
  rcases route_bQ attr s r o with e | e <;> rw [e]
  · exact h
  · rw [okQ_append_rep]; exact h

theorem routeAll_bQ_ok (s : State) (rs o) (h : okQ s.connB s.bQ = true) :
    okQ (routeAll attr s rs o).connB (routeAll attr s rs o).bQ = true := by
  induction rs generalizing s with
  | nil => exact h
  | cons r rs ih => simp only [routeAll, List.foldl_cons]; exact ih _ (route_bQ_ok attr s r o h)

/-- `route` appends to B's queue only while B's loop is not down -/
theorem route_bQ_down (s : State) (r o) (h : s.bSock = .down) : (route attr s r o).bQ = s.bQ := by
  unfold route; split
  · rfl
  · split
    · next hc => simp [h] at hc
    · rfl

theorem routeAll_bQ_down (s : State) (rs o) (h : s.bSock = .down) : (routeAll attr s rs o).bQ = s.bQ := by
  induction rs generalizing s with
  | nil => rfl
  | cons r rs ih =>
    rw [routeAll_cons, ih _ (by rw [(route_core attr s r o).bSock]; exact h), route_bQ_down attr s r o h]

theorem route_stop_mem (s : State) (r o) (h : Cb.stopLoop ∈ (route attr s r o).bQ) : Cb.stopLoop ∈ s.bQ := by
  rcases route_bQ attr s r o with e | e <;> rw [e] at h
  · exact h
  · simpa using h

theorem routeAll_stop_mem (s : State) (rs o) (h : Cb.stopLoop ∈ (routeAll attr s rs o).bQ) : Cb.stopLoop ∈ s.bQ := by
  induction rs generalizing s with
  | nil => exact h
  | cons r rs ih => rw [routeAll_cons] at h; exact route_stop_mem attr s r o (ih _ h)

theorem route_bQ_mem (s : State) (r o) (x : Cb) (h : x ∈ s.bQ) : x ∈ (route attr s r o).bQ := by
  rcases route_bQ attr s r o with e | e <;> rw [e]
  · exact h
  · exact List.mem_append_left _ h

theorem routeAll_bQ_mem (s : State) (rs o) (x : Cb) (h : x ∈ s.bQ) : x ∈ (routeAll attr s rs o).bQ := by
  induction rs generalizing s with
  | nil => exact h
  | cons r rs ih => simp only [routeAll, List.foldl_cons]; exact ih _ (route_bQ_mem attr s r o x h)

end QmiModel.Rpc

namespace QmiModel.Rpc
variable (cfg : Cfg) (attr : ReqId → Attr)

theorem okQ_tail_of_cons {c : Bool} {x : Cb} {q : List Cb} (h : okQ c (x :: q) = true) (hx : x ≠ .closeAll) :
    okQ c q = true := by
  cases x with
  | closeAll => exact absurd rfl hx
  | stopLoop => simp only [okQ, Bool.and_eq_true] at h; exact h.2
  | sendReq r => simpa [okQ] using h
  | sendRep r o => simpa [okQ] using h

theorem mem_tail_of_ne {x y : Cb} {q : List Cb} (h : x ∈ y :: q) (hne : x ≠ y) : x ∈ q := by
  simp only [List.mem_cons] at h
  rcases h with h | h
  · exact absurd h hne
  · exact h

theorem sinv_step {s s' : State} {a : Act} (hi : SInv cfg s) (h : step cfg attr s a = some s') : SInv cfg s' := by
  obtain ⟨i1, i2, i3, i4, i5, i6, i7, i8, i9, i10⟩ := hi
  cases a <;> simp only [step] at h
  case issue r =>
    split at h <;> simp at h; subst h
    exact ⟨i1, i2, i3, i4, i5, i6, i7, i8, i9, i10⟩
  case unregister => simp at h; subst h; exact ⟨i1, i2, i3, i4, i5, i6, i7, i8, i9, i10⟩
  case stop1 =>
    split at h <;> simp at h; subst h
    exact ⟨fun _ => rfl, i2, i3, i4, i5, i6, i7, i8, i9, i10⟩
  case stop2 =>
    split at h <;> simp at h; subst h
    next hr => exact ⟨fun _ => by simpa using hr, fun hp => ⟨rfl, (i2 hp).2⟩, i3, i4, i5, i6, i7, i8, i9, i10⟩
  case stopB =>
    split at h <;> simp at h; subst h
    next hbr =>
    refine ⟨i1, i2, ?_, i4, ?_, ?_, i7, i8, fun _ => rfl, fun _ => rfl⟩
    · show okQ s.connB (s.bQ ++ [.closeAll, .stopLoop]) = true
      rw [okQ_append_stop]; exact i3
    · intro hd
      have := i9 (by rw [hd]; simp)
      simp [hbr] at this
    · intro _; exact Or.inl (by simp)
  case stopA =>
    split at h <;> simp at h; subst h
    exact ⟨i1, i2, i3, i4, i5, i6, fun hc => by simp at hc, i8, i9, i10⟩
  case discA =>
    split at h <;> simp at h; subst h
    refine ⟨i1, i2, i3, i4, i5, i6, ?_, i8, i9, i10⟩
    intro hc
    obtain ⟨h1, h2, h3⟩ := i7 hc
    exact ⟨h1, h2, by simp [h3]⟩
  case send r =>
    split at h
    · split at h
      · split at h <;> simp at h <;> subst h
        · next hrr =>
          refine ⟨i1, ?_, i3, i4, i5, i6, i7, i8, i9, i10⟩
          intro hp
          have := i1 (i2 hp).1
          simp [this] at hrr
        · exact ⟨i1, i2, i3, i4, i5, i6, i7, i8, i9, i10⟩
      · split at h <;> simp at h <;> subst h <;> exact ⟨i1, i2, i3, i4, i5, i6, i7, i8, i9, i10⟩
    · simp at h
  case enq r =>
    split at h
    · split at h <;> simp at h <;> subst h
      · exact ⟨i1, i2, i3, i4, i5, i6, i7, i8, i9, i10⟩
      · refine ⟨i1, i2, i3, i4, i5, i6, ?_, i8, i9, i10⟩
        intro hc
        obtain ⟨h1, h2, h3⟩ := i7 hc
        exact ⟨h1, h2, by simp [h3]⟩
    · simp at h
  case loopA =>
    split at h
    · simp at h
    · split at h
      · simp at h
      · -- sendReq
        have hq : ∀ q' : List Cb, (s.aStop = false → Cb.stopLoop ∉ q') →
            (s.aStop = false → s.aSock = .up ∧ s.aRouter = true ∧ Cb.stopLoop ∉ q') := by
          intro q' hq' hc
          obtain ⟨h1, h2, _⟩ := i7 hc
          exact ⟨h1, h2, hq' hc⟩
        next r q haq =>
        have hq' : s.aStop = false → Cb.stopLoop ∉ q := by
          intro hc; have := (i7 hc).2.2; rw [haq] at this; simp at this; exact this
        split at h
        · simp at h; subst h; exact ⟨i1, i2, i3, i4, i5, i6, hq q hq', i8, i9, i10⟩
        · split at h
          · split at h <;> simp at h <;> subst h <;> exact ⟨i1, i2, i3, i4, i5, i6, hq q hq', i8, i9, i10⟩
          · split at h <;> simp at h <;> subst h <;> exact ⟨i1, i2, i3, i4, i5, i6, hq q hq', i8, i9, i10⟩
      · next r o q haq =>
        simp at h; subst h
        refine ⟨i1, i2, i3, i4, i5, i6, ?_, i8, i9, i10⟩
        intro hc; obtain ⟨h1, h2, h3⟩ := i7 hc
        rw [haq] at h3; simp at h3
        exact ⟨h1, h2, h3⟩
      · next q haq =>
        simp at h; subst h
        refine ⟨i1, i2, i3, i4, i5, i6, ?_, i8, i9, i10⟩
        intro hc; obtain ⟨h1, h2, h3⟩ := i7 hc
        rw [haq] at h3; simp at h3
        exact ⟨h1, h2, h3⟩
      · next q haq =>
        simp at h; subst h
        refine ⟨i1, i2, i3, i4, i5, i6, ?_, i8, i9, i10⟩
        intro hc; obtain ⟨h1, h2, h3⟩ := i7 hc
        rw [haq] at h3; simp at h3
  case loopExitA =>
    split at h <;> simp at h; subst h
    next hst =>
    refine ⟨i1, i2, i3, i4, i5, i6, ?_, i8, i9, i10⟩
    intro hc; have := (i7 hc).1; rw [hst] at this; simp at this
  case recvA =>
    split at h
    · simp at h
    · split at h <;> simp at h <;> subst h <;> exact ⟨i1, i2, i3, i4, i5, i6, i7, i8, i9, i10⟩
  case eofA =>
    split at h <;> simp at h; subst h
    exact ⟨i1, i2, i3, i4, i5, i6, i7, i8, i9, i10⟩
  case loopB =>
    split at h
    · simp at h
    · next hnd =>
      split at h
      · simp at h
      · next r o q hbq =>
        have t3 : okQ s.connB q = true := okQ_tail_of_cons (by rw [← hbq]; exact i3) (by simp)
        have t5 : s.bSock = .down → q = [] := fun hd => absurd hd hnd
        have t6 : s.bRouter = false → Cb.closeAll ∈ q ∨ s.connB = false := by
          intro hb; rcases i6 hb with h1 | h1
          · rw [hbq] at h1; exact Or.inl (mem_tail_of_ne h1 (by simp))
          · exact Or.inr h1
        have t10 : Cb.stopLoop ∈ q → s.bRouter = false := fun hm => i10 (by rw [hbq]; exact List.mem_cons_of_mem _ hm)
        have t3' : ∀ m : Msg, okQ s.connB q = true := fun _ => t3
        split at h
        · simp at h; subst h; exact ⟨i1, i2, t3, i4, t5, t6, i7, i8, i9, t10⟩
        · split at h
          · split at h <;> simp at h <;> subst h <;> exact ⟨i1, i2, t3, i4, t5, t6, i7, i8, i9, t10⟩
          · split at h
            · split at h <;> simp at h <;> subst h <;> exact ⟨i1, i2, t3, i4, t5, t6, i7, i8, i9, t10⟩
            · split at h <;> simp at h <;> subst h <;> exact ⟨i1, i2, t3, i4, t5, t6, i7, i8, i9, t10⟩
      · next r q hbq =>
        simp at h; subst h
        have t3 : okQ s.connB q = true := okQ_tail_of_cons (by rw [← hbq]; exact i3) (by simp)
        refine ⟨i1, i2, t3, i4, fun hd => absurd hd hnd, ?_, i7, i8, i9,
          fun hm => i10 (by rw [hbq]; exact List.mem_cons_of_mem _ hm)⟩
        intro hb; rcases i6 hb with h1 | h1
        · rw [hbq] at h1; exact Or.inl (mem_tail_of_ne h1 (by simp))
        · exact Or.inr h1
      · next q hbq =>
        simp at h; subst h
        refine ⟨i1, i2, okQ_false q, fun _ => rfl, fun hd => absurd hd hnd, fun _ => Or.inr rfl, i7, i8, i9,
          fun hm => i10 (by rw [hbq]; exact List.mem_cons_of_mem _ hm)⟩
      · next q hbq =>
        simp at h; subst h
        have hc : s.connB = false := by
          have := i3; rw [hbq] at this; simp only [okQ, Bool.and_eq_true, Bool.not_eq_true'] at this; exact this.1
        have t3 : okQ s.connB q = true := by rw [hc]; exact okQ_false q
        refine ⟨i1, i2, t3, fun _ => hc, ?_, fun _ => Or.inr hc, i7, i8, fun _ => i10 (by rw [hbq]; simp),
          fun hm => i10 (by rw [hbq]; exact List.mem_cons_of_mem _ hm)⟩
        intro hd; simp at hd
  case loopExitB =>
    split at h <;> simp at h; subst h
    next hst =>
    have hc : s.connB = false := i4 (by rw [hst]; simp)
    refine ⟨i1, i2, by simp [okQ], fun _ => hc, fun _ => rfl, fun _ => Or.inr hc, i7, i8,
      fun _ => i9 (by rw [hst]; simp), fun hm => by simp at hm⟩
  case recvB =>
    split at h
    · simp at h
    · split at h
      · split at h <;> simp at h <;> subst h
        · refine ⟨i1, ?_, i3, i4, i5, i6, i7, i8, i9, i10⟩
          intro hp
          next hrr =>
          have := i1 (i2 hp).1
          simp [this] at hrr
        · exact ⟨i1, i2, i3, i4, i5, i6, i7, i8, i9, i10⟩
      · simp at h; subst h; exact ⟨i1, i2, i3, i4, i5, i6, i7, i8, i9, i10⟩
      · simp at h
  case eofB =>
    split at h <;> simp at h; subst h
    exact ⟨i1, i2, by rw [show (false : Bool) = false from rfl]; exact okQ_false _, fun _ => rfl, i5, fun _ => Or.inr rfl, i7, i8, i9, i10⟩
  case pop =>
    split at h
    · split at h <;> simp at h; subst h
      refine ⟨i1, ?_, i3, i4, i5, i6, i7, ?_, i9, i10⟩
      · intro hp; simp at hp
      · intro _ hp; simp at hp
    · simp at h
  case finish o =>
    split at h
    · next r hph =>
      split at h
      · simp at h
      · split at h
        · simp at h; subst h
          next hcr =>
          refine ⟨i1, ?_, i3, i4, i5, i6, i7, ?_, i9, i10⟩
          · intro hp; simp at hp
          · intro hc; simp [hc] at hcr
        · simp at h; subst h
          have c := route_core attr { s with phase := .idle, executed := s.executed ++ [(r, o)] } r o
          refine ⟨?_, ?_, ?_, ?_, ?_, ?_, ?_, ?_, ?_, ?_⟩
          · rw [c.shutdown, c.running]; exact i1
          · rw [c.phase]; intro hp; simp at hp
          · exact route_bQ_ok attr _ r o i3
          · rw [c.bSock, c.connB]; exact i4
          · intro hd; rw [c.bSock] at hd
            rw [route_bQ_down attr _ r o hd]; exact i5 hd
          · rw [c.bRouter, c.connB]; intro hb
            rcases i6 hb with h1 | h1
            · exact Or.inl (route_bQ_mem attr _ r o _ h1)
            · exact Or.inr h1
          · rw [c.aStop, c.aSock, c.aRouter, c.aQ]; exact i7
          · rw [c.phase]; intro _ hp; simp at hp
          · rw [c.bSock, c.bRouter]; exact i9
          · rw [c.bRouter]; intro hm
            rcases route_bQ attr { s with phase := .idle, executed := s.executed ++ [(r, o)] } r o with e | e
            · rw [e] at hm; exact i10 hm
            · rw [e] at hm; simp at hm; exact i10 hm
    · simp at h
  case drain =>
    split at h
    · split at h
      · next hph hsd =>
        simp at h; subst h
        have c := routeAll_core attr { s with phase := .drained, fifo := [] } s.fifo .deliveryErr
        refine ⟨?_, ?_, ?_, ?_, ?_, ?_, ?_, ?_, ?_, ?_⟩
        · rw [c.shutdown, c.running]; exact i1
        · rw [c.shutdown, c.fifo]; intro _; exact ⟨hsd, rfl⟩
        · exact routeAll_bQ_ok attr _ _ _ i3
        · rw [c.bSock, c.connB]; exact i4
        · intro hd; rw [c.bSock] at hd
          rw [routeAll_bQ_down attr _ _ _ hd]; exact i5 hd
        · rw [c.bRouter, c.connB]; intro hb
          rcases i6 hb with h1 | h1
          · exact Or.inl (routeAll_bQ_mem attr _ _ _ _ h1)
          · exact Or.inr h1
        · rw [c.aStop, c.aSock, c.aRouter, c.aQ]; exact i7
        · rw [c.phase]; intro _ hp; simp at hp
        · rw [c.bSock, c.bRouter]; exact i9
        · rw [c.bRouter]; intro hm
          exact i10 (routeAll_stop_mem attr { s with phase := .drained, fifo := [] } _ _ hm)
      · simp at h
    · simp at h

end QmiModel.Rpc
