import QmiModel.Lemmas.C08SimShape
/-! C08, simulation layer — the threads that remove or create an RPC object (`RemInv`): their programs, the removal
notices still to send are distinct, and a reserved name (`_rpc_object_map[name] = None`) is held by exactly one thread. -/
set_option linter.unusedSimpArgs false
namespace QmiModel.PubSub

def MOp.isRem : MOp → Bool
  | .markObj _ => true
  | .objRemoved _ => true
  | .notify _ _ => true
  | .delObj _ => true
  | .reserveObj _ => true
  | .registerObj _ => true
  | .enq _ (.removed _ _) => true
  | .sendChk _ (.removed _ _) => true
  | _ => false

def remFree (l : List MOp) : Prop := ∀ op ∈ l, op.isRem = false

theorem remFree_nil : remFree [] := by simp [remFree]
theorem remFree_append {l m : List MOp} : remFree (l ++ m) ↔ remFree l ∧ remFree m := by
  simp only [remFree, List.mem_append]
  exact ⟨fun h => ⟨fun op ho => h op (Or.inl ho), fun op ho => h op (Or.inr ho)⟩, fun h op ho => ho.elim (h.1 op) (h.2 op)⟩

/-- the programs of `remove_rpc_object` and `make_rpc_object` -/
inductive RemForm : List MOp → Prop
  | rm0 (ob : Obj) : RemForm [.markObj ob, .objRemoved ob, .delObj ob, .ret (.rm ob)]
  | rm1 (ob : Obj) : RemForm [.objRemoved ob, .delObj ob, .ret (.rm ob)]
  | rm2 (ns : List (Sg × Peer)) (ob : Obj) : ns.Nodup → RemForm [.notify ns ob, .delObj ob, .ret (.rm ob)]
  | rm3 (d : Peer) (sg : Sg) (ns : List (Sg × Peer)) (ob : Obj) : ns.Nodup → (sg, d) ∉ ns →
      RemForm [.enq d (.removed ob sg), .notify ns ob, .delObj ob, .ret (.rm ob)]
  | rm4 (d : Peer) (sg : Sg) (ob : Obj) : RemForm [.enq d (.removed ob sg), .delObj ob, .ret (.rm ob)]
  | rm5 (ob : Obj) : RemForm [.delObj ob, .ret (.rm ob)]
  | mk0 (ob : Obj) : RemForm [.reserveObj ob, .registerObj ob, .ret (.mk ob)]
  | mk1 (ob : Obj) : RemForm [.registerObj ob, .ret (.mk ob)]

/-- the thread holds the reserved name `ob` -/
def holds (ob : Obj) : List MOp → Bool
  | .objRemoved ob' :: _ => decide (ob' = ob)
  | .notify _ ob' :: _ => decide (ob' = ob)
  | .delObj ob' :: _ => decide (ob' = ob)
  | .registerObj ob' :: _ => decide (ob' = ob)
  | .enq _ (.removed ob' _) :: _ => decide (ob' = ob)
  | _ => false

theorem holds_isRem {ob : Obj} {op : MOp} {l : List MOp} (h : holds ob (op :: l) = true) : op.isRem = true := by
  cases op <;> simp only [holds] at h <;> (try (cases h; done)) <;> (try rfl)
  rename_i d m; cases m <;> simp only [holds] at h <;> (try (cases h; done)); rfl

theorem holds_remFree {ob : Obj} {l : List MOp} (h : remFree l) : holds ob l = false := by
  cases l with
  | nil => rfl
  | cons op l =>
    cases hh : holds ob (op :: l) with
    | false => rfl
    | true => have := holds_isRem hh; rw [h op List.mem_cons_self] at this; cases this

structure RemInv (s : State) : Prop where
  user : ∀ c t, remFree (s.prog (.user c t)) ∨ RemForm (s.prog (.user c t))
  sock : ∀ c, remFree (s.prog (.sock c))
  rdom : ∀ c, (s.ctx c).rdom.Nodup
  uniq : ∀ th th' ob, th.ctx = th'.ctx → holds ob (s.prog th) = true → holds ob (s.prog th') = true → th = th'
  res : ∀ th ob, holds ob (s.prog th) = true → (s.ctx th.ctx).objs ob = .reserved

theorem pushes_remFree {op op' : MOp} (h : op.isRem = false) (hp : Pushes op op') : op'.isRem = false := by
  cases op with
  | snapLocal k p => obtain ⟨_, _, rfl⟩ := hp; rfl
  | deliver sid rs k p => obtain ⟨_, rfl⟩ := hp; rfl
  | snapRemote ob sg p => obtain ⟨_, rfl⟩ := hp; rfl
  | pubSend ps ob sg p => rcases hp with ⟨_, rfl⟩ | ⟨_, rfl⟩ <;> rfl
  | sendChk d m =>
    rcases hp with rfl | hp
    · cases m <;> first | rfl | (simp [MOp.isRem] at h)
    · cases m <;> simp [onSendFail] at hp
      subst hp; rfl
  | chkObj2 k r => simp only [Pushes] at hp; subst hp; rfl
  | subRemote k r => rcases hp with ⟨_, rfl⟩ | ⟨_, rfl⟩ <;> rfl
  | unsubRemote k r => obtain ⟨_, rfl⟩ := hp; rfl
  | handleReply id ok => obtain ⟨_, _, _, _, rfl⟩ := hp; rfl
  | objRemoved ob => simp [MOp.isRem] at h
  | notify ns ob => simp [MOp.isRem] at h
  | reqChk1 src id ob sg => rcases hp with rfl | rfl | rfl <;> rfl
  | reqChk2 src id ob sg => rcases hp with rfl | rfl | rfl <;> rfl
  | closeConn cn cli => obtain ⟨_, rfl⟩ := hp; rfl
  | _ => simp only [Pushes] at hp

theorem remFree_micro {s s' : State} {th : Th} {ch ch2 : Nat} {op : MOp} {rest : List MOp} {o : Out}
    (h : remFree (op :: rest)) (hs : microStep s th ch ch2 op rest = some (s', o)) : remFree (s'.prog th) := by
  rcases microStep_prog hs with ⟨pushed, hp, hpu⟩ | ⟨⟨e, t, hp⟩, -⟩ | ⟨hp, -⟩
  · rw [hp, remFree_append]
    exact ⟨fun op' ho => pushes_remFree (h op List.mem_cons_self) (hpu op' ho), fun op' ho => h op' (List.mem_cons_of_mem _ ho)⟩
  · rw [hp]; intro op' ho; simp only [List.mem_singleton] at ho; subst ho; rfl
  · rw [hp]; exact remFree_nil

/-- the notifications of `handle_object_removed` are distinct -/
theorem notifyList_nodup {cs : CtxSt} (hd : cs.rdom.Nodup) (hr : ∀ k, (cs.rsubs k).Nodup) (ob : Obj) : (notifyList cs ob).Nodup := by
  unfold notifyList
  simp only [List.Nodup] at hd hr ⊢
  rw [List.pairwise_flatMap]
  constructor
  · intro k _
    rw [List.pairwise_map]
    refine (hr k).imp ?_
    intro a b hne e; simp only [Prod.mk.injEq] at e; exact hne e.2
  · have hf : List.Pairwise (fun a b => a ≠ b) (cs.rdom.filter (fun k => decide (k.ob = ob))) := hd.filter _
    refine List.Pairwise.imp_of_mem ?_ hf
    intro k1 k2 h1 h2 hne x hx1 y hx2 e
    simp only [List.mem_filter, decide_eq_true_eq] at h1 h2
    simp only [List.mem_map] at hx1 hx2
    obtain ⟨d1, -, rfl⟩ := hx1
    obtain ⟨d2, -, rfl⟩ := hx2
    simp only [Prod.mk.injEq] at e
    apply hne
    cases k1; cases k2; simp_all


set_option maxHeartbeats 2000000 in
theorem microStep_rdom {s s' : State} {th : Th} {ch ch2 : Nat} {op : MOp} {rest : List MOp} {o : Out}
    (hs : microStep s th ch ch2 op rest = some (s', o)) (c : Ctx) :
    (s'.ctx c).rdom = (s.ctx c).rdom ∨ ∃ k, k ∉ (s.ctx c).rdom ∧ (s'.ctx c).rdom = (s.ctx c).rdom ++ [k] := by
  cases op <;> simp only [microStep] at hs
  all_goals (try (split at hs))
  all_goals (try (split at hs))
  all_goals (try (split at hs))
  all_goals (try (split at hs))
  all_goals (try (simp at hs))
  all_goals (try (have f2 := (handleReplyStep_rsubs ‹handleReplyStep _ _ _ = some _›).2.1))
  all_goals (try (obtain ⟨rfl, -⟩ := hs))
  all_goals (simp only [setProg_ctx, setCtx_ctx, State.setProg, peerRemovedStep])
  all_goals (try split)
  all_goals (try (rename_i e; subst e))
  all_goals (first | (exact Or.inl trivial) | (exact Or.inl rfl) | (exact Or.inl f2) | skip)
  all_goals (exact Or.inr ⟨_, ‹_›, rfl⟩)

set_option maxHeartbeats 2000000 in
theorem microStep_objs {s s' : State} {th : Th} {ch ch2 : Nat} {op : MOp} {rest : List MOp} {o : Out}
    (hop : op.isRem = false) (hs : microStep s th ch ch2 op rest = some (s', o)) (c : Ctx) : (s'.ctx c).objs = (s.ctx c).objs := by
  cases op <;> simp only [MOp.isRem] at hop <;> (try contradiction) <;> simp only [microStep] at hs
  all_goals (try (split at hs))
  all_goals (try (split at hs))
  all_goals (try (split at hs))
  all_goals (try (split at hs))
  all_goals (try (simp at hs))
  all_goals (try (have f2 := (handleReplyStep_rsubs ‹handleReplyStep _ _ _ = some _›).2.2.1))
  all_goals (try (obtain ⟨rfl, -⟩ := hs))
  all_goals (simp only [setProg_ctx, setCtx_ctx, State.setProg, peerRemovedStep])
  all_goals (try (split <;> (try (rename_i e; subst e)) <;> (first | rfl | exact f2 | skip)))
  all_goals (try rfl)


/-- transfer of the holder clauses over a step of thread `th` -/
theorem RemInv.holders {s s' : State} (h : RemInv s) (th : Th)
    (hother : ∀ th', th' ≠ th → s'.prog th' = s.prog th')
    (hctx : ∀ c, c ≠ th.ctx → (s'.ctx c).objs = (s.ctx c).objs)
    (h1 : ∀ ob, holds ob (s'.prog th) = true → holds ob (s.prog th) = true ∨ (s.ctx th.ctx).objs ob ≠ .reserved)
    (h2 : ∀ ob, holds ob (s'.prog th) = true → (s'.ctx th.ctx).objs ob = .reserved)
    (h3 : ∀ ob, (s'.ctx th.ctx).objs ob ≠ (s.ctx th.ctx).objs ob → holds ob (s.prog th) = true ∨ holds ob (s'.prog th) = true) :
    (∀ th1 th2 ob, th1.ctx = th2.ctx → holds ob (s'.prog th1) = true → holds ob (s'.prog th2) = true → th1 = th2) ∧
    (∀ th1 ob, holds ob (s'.prog th1) = true → (s'.ctx th1.ctx).objs ob = .reserved) := by
  have key : ∀ th2 ob, th2 ≠ th → th2.ctx = th.ctx → holds ob (s.prog th2) = true → holds ob (s'.prog th) = true → False := by
    intro th2 ob hne hc hh2 hh
    rcases h1 ob hh with hb | hb
    · exact hne (h.uniq th2 th ob hc hh2 hb)
    · exact hb (hc ▸ h.res th2 ob hh2)
  constructor
  · intro th1 th2 ob hc hh1 hh2
    by_cases e1 : th1 = th
    · by_cases e2 : th2 = th
      · rw [e1, e2]
      · subst e1
        rw [hother th2 e2] at hh2
        exact (key th2 ob e2 hc.symm hh2 hh1).elim
    · by_cases e2 : th2 = th
      · subst e2
        rw [hother th1 e1] at hh1
        exact (key th1 ob e1 hc hh1 hh2).elim
      · rw [hother th1 e1] at hh1; rw [hother th2 e2] at hh2
        exact h.uniq th1 th2 ob hc hh1 hh2
  · intro th1 ob hh1
    by_cases e1 : th1 = th
    · subst e1; exact h2 ob hh1
    · rw [hother th1 e1] at hh1
      by_cases hc : th1.ctx = th.ctx
      · rw [hc]
        by_cases hobj : (s'.ctx th.ctx).objs ob = (s.ctx th.ctx).objs ob
        · rw [hobj, ← hc]; exact h.res th1 ob hh1
        · rcases h3 ob hobj with hb | hb
          · exact (e1 (h.uniq th1 th ob hc hh1 hb)).elim
          · exact (key th1 ob e1 hc hh1 hb).elim
      · rw [hctx _ hc]; exact h.res th1 ob hh1

theorem holds_raise (ob : Obj) (e : Exc) (t : OpTag) : holds ob [.raise e t] = false := rfl

set_option maxHeartbeats 2000000 in
/-- one step of a thread that removes or creates an object -/
theorem remForm_micro {s s' : State} {th : Th} {ch ch2 : Nat} {op : MOp} {rest : List MOp} {o : Out}
    (hform : RemForm (op :: rest)) (hd : (s.ctx th.ctx).rdom.Nodup) (hr : ∀ k, ((s.ctx th.ctx).rsubs k).Nodup)
    (hs : microStep s th ch ch2 op rest = some (s', o)) :
    (remFree (s'.prog th) ∨ RemForm (s'.prog th)) ∧
    (∀ ob, holds ob (s'.prog th) = true → holds ob (op :: rest) = true ∨ (s.ctx th.ctx).objs ob ≠ .reserved) ∧
    (∀ ob, holds ob (s'.prog th) = true → holds ob (op :: rest) = true → (s'.ctx th.ctx).objs ob = (s.ctx th.ctx).objs ob) ∧
    (∀ ob, holds ob (s'.prog th) = true → holds ob (op :: rest) = false → (s'.ctx th.ctx).objs ob = .reserved) ∧
    (∀ ob, (s'.ctx th.ctx).objs ob ≠ (s.ctx th.ctx).objs ob → holds ob (op :: rest) = true ∨ holds ob (s'.prog th) = true) := by
  generalize hl : op :: rest = l at hform
  cases hform <;> simp only [List.cons.injEq] at hl <;> obtain ⟨rfl, rfl⟩ := hl <;> simp only [microStep] at hs
  case rm0 ob =>
    split at hs <;> simp only [Option.some.injEq, Prod.mk.injEq] at hs <;> obtain ⟨rfl, -⟩ := hs <;>
      simp only [setProg_prog, if_true, setProg_ctx, setCtx_ctx]
    · rename_i hp
      refine ⟨Or.inr (RemForm.rm1 ob), ?_, ?_, ?_, ?_⟩
      · intro ob' hh; simp only [holds, decide_eq_true_eq] at hh; subst hh; right; rw [hp]; simp
      · intro ob' _ hh; simp [holds] at hh
      · intro ob' hh _; simp only [holds, decide_eq_true_eq] at hh; subst hh; simp [upd]
      · intro ob' hne; right; simp only [holds, decide_eq_true_eq]
        simp only [upd] at hne; split at hne
        · rename_i e; exact e.symm
        · exact absurd rfl hne
    · refine ⟨Or.inl (by simp [remFree, MOp.isRem]), ?_, ?_, ?_, ?_⟩ <;> intro ob' hh <;> simp [holds] at hh
  case rm1 ob =>
    simp only [Option.some.injEq, Prod.mk.injEq] at hs; obtain ⟨rfl, -⟩ := hs
    simp only [setProg_prog, if_true, setProg_ctx, setCtx_ctx]
    refine ⟨?_, ?_, ?_, ?_, ?_⟩
    · split
      · exact Or.inr (RemForm.rm5 ob)
      · exact Or.inr (RemForm.rm2 _ ob (notifyList_nodup hd hr ob))
    · intro ob' hh; left; split at hh <;> simpa [holds] using hh
    · intro ob' _ _; first | rfl | trivial
    · intro ob' hh hb; split at hh <;> simp_all [holds]
    · intro ob' hne; exact absurd rfl hne
  case rm2 ns ob hnd =>
    split at hs
    · simp at hs
    · rename_i x hfind
      have hx : x ∈ ns := List.mem_of_find?_eq_some hfind
      have hnd' : (ns.erase x).Nodup := hnd.erase x
      have hnot : (x.1, x.2) ∉ ns.erase x := by
        intro hm; exact ((hnd.mem_erase_iff).1 hm).1 rfl
      split at hs <;> simp only [Option.some.injEq, Prod.mk.injEq] at hs <;> obtain ⟨rfl, -⟩ := hs <;>
        simp only [State.setProg, upd, if_true]
      · refine ⟨?_, ?_, ?_, ?_, ?_⟩
        · split
          · exact Or.inr (RemForm.rm4 _ _ ob)
          · exact Or.inr (RemForm.rm3 _ _ _ ob hnd' hnot)
        · intro ob' hh; left; split at hh <;> simpa [holds] using hh
        · intro ob' _ _; first | rfl | trivial
        · intro ob' hh hb; split at hh <;> simp_all [holds]
        · intro ob' hne; exact absurd rfl hne
      · refine ⟨?_, ?_, ?_, ?_, ?_⟩
        · split
          · exact Or.inr (RemForm.rm5 ob)
          · exact Or.inr (RemForm.rm2 _ ob hnd')
        · intro ob' hh; left; split at hh <;> simpa [holds] using hh
        · intro ob' _ _; first | rfl | trivial
        · intro ob' hh hb; split at hh <;> simp_all [holds]
        · intro ob' hne; exact absurd rfl hne
  case rm3 d sg ns ob hnd hnot =>
    simp only [Option.some.injEq, Prod.mk.injEq] at hs; obtain ⟨rfl, -⟩ := hs
    simp only [setProg_prog, if_true, setProg_ctx, setCtx_ctx]
    refine ⟨Or.inr (RemForm.rm2 ns ob hnd), ?_, ?_, ?_, ?_⟩
    · intro ob' hh; left; simpa [holds] using hh
    · intro ob' _ _; first | rfl | trivial
    · intro ob' hh hb; simp_all [holds]
    · intro ob' hne; exact absurd rfl hne
  case rm4 d sg ob =>
    simp only [Option.some.injEq, Prod.mk.injEq] at hs; obtain ⟨rfl, -⟩ := hs
    simp only [setProg_prog, if_true, setProg_ctx, setCtx_ctx]
    refine ⟨Or.inr (RemForm.rm5 ob), ?_, ?_, ?_, ?_⟩
    · intro ob' hh; left; simpa [holds] using hh
    · intro ob' _ _; first | rfl | trivial
    · intro ob' hh hb; simp_all [holds]
    · intro ob' hne; exact absurd rfl hne
  case rm5 ob =>
    simp only [Option.some.injEq, Prod.mk.injEq] at hs; obtain ⟨rfl, -⟩ := hs
    simp only [setProg_prog, if_true, setProg_ctx, setCtx_ctx]
    refine ⟨Or.inl (by simp [remFree, MOp.isRem]), ?_, ?_, ?_, ?_⟩
    · intro ob' hh; simp [holds] at hh
    · intro ob' hh; simp [holds] at hh
    · intro ob' hh; simp [holds] at hh
    · intro ob' hne; left; simp only [holds, decide_eq_true_eq]
      simp only [upd] at hne; split at hne
      · rename_i e; exact e.symm
      · exact absurd rfl hne
  case mk0 ob =>
    split at hs <;> simp only [Option.some.injEq, Prod.mk.injEq] at hs <;> obtain ⟨rfl, -⟩ := hs <;>
      simp only [setProg_prog, if_true, setProg_ctx, setCtx_ctx]
    · rename_i hp
      refine ⟨Or.inr (RemForm.mk1 ob), ?_, ?_, ?_, ?_⟩
      · intro ob' hh; simp only [holds, decide_eq_true_eq] at hh; subst hh; right; rw [hp]; simp
      · intro ob' _ hh; simp [holds] at hh
      · intro ob' hh _; simp only [holds, decide_eq_true_eq] at hh; subst hh; simp [upd]
      · intro ob' hne; right; simp only [holds, decide_eq_true_eq]
        simp only [upd] at hne; split at hne
        · rename_i e; exact e.symm
        · exact absurd rfl hne
    · refine ⟨Or.inl (by simp [remFree, MOp.isRem]), ?_, ?_, ?_, ?_⟩ <;> intro ob' hh <;> simp [holds] at hh
  case mk1 ob =>
    simp only [Option.some.injEq, Prod.mk.injEq] at hs; obtain ⟨rfl, -⟩ := hs
    simp only [setProg_prog, if_true, setProg_ctx, setCtx_ctx]
    refine ⟨Or.inl (by simp [remFree, MOp.isRem]), ?_, ?_, ?_, ?_⟩
    · intro ob' hh; simp [holds] at hh
    · intro ob' hh; simp [holds] at hh
    · intro ob' hh; simp [holds] at hh
    · intro ob' hne; left; simp only [holds, decide_eq_true_eq]
      simp only [upd] at hne; split at hne
      · rename_i e; exact e.symm
      · exact absurd rfl hne


theorem remInv_init : RemInv State.init := by
  constructor
  · intro c t; exact Or.inl (by simp [State.init, remFree])
  · intro c; simp [State.init, remFree]
  · intro c; simp [State.init, CtxSt.init]
  · intro th th' ob _ h; simp [State.init, holds] at h
  · intro th ob h; simp [State.init, holds] at h

theorem remInv_micro {s s' : State} {th : Th} {ch ch2 : Nat} {op : MOp} {rest : List MOp} {o : Out}
    (h : RemInv s) (hfl : FlowInv s) (hprog : s.prog th = op :: rest) (hs : microStep s th ch ch2 op rest = some (s', o)) :
    RemInv s' := by
  have hf := microStep_frame hs
  -- the acting thread
  have hact : (remFree (op :: rest) ∨ RemForm (op :: rest)) ∧ (∀ c, th = .sock c → remFree (op :: rest)) := by
    cases th with
    | user c t => exact ⟨hprog ▸ h.user c t, fun c' e => by cases e⟩
    | sock c => exact ⟨Or.inl (hprog ▸ h.sock c), fun c' e => by cases e; exact hprog ▸ h.sock c⟩
  have hnew : (remFree (s'.prog th) ∨ RemForm (s'.prog th)) ∧ (∀ c, th = .sock c → remFree (s'.prog th)) ∧
      (∀ ob, holds ob (s'.prog th) = true → holds ob (op :: rest) = true ∨ (s.ctx th.ctx).objs ob ≠ .reserved) ∧
      (∀ ob, holds ob (s'.prog th) = true → (s'.ctx th.ctx).objs ob = .reserved) ∧
      (∀ ob, (s'.ctx th.ctx).objs ob ≠ (s.ctx th.ctx).objs ob → holds ob (op :: rest) = true ∨ holds ob (s'.prog th) = true) := by
    have hfree : remFree (op :: rest) →
        (remFree (s'.prog th) ∨ RemForm (s'.prog th)) ∧ (∀ c, th = .sock c → remFree (s'.prog th)) ∧
        (∀ ob, holds ob (s'.prog th) = true → holds ob (op :: rest) = true ∨ (s.ctx th.ctx).objs ob ≠ .reserved) ∧
        (∀ ob, holds ob (s'.prog th) = true → (s'.ctx th.ctx).objs ob = .reserved) ∧
        (∀ ob, (s'.ctx th.ctx).objs ob ≠ (s.ctx th.ctx).objs ob → holds ob (op :: rest) = true ∨ holds ob (s'.prog th) = true) := by
      intro hfree
      have hn := remFree_micro hfree hs
      refine ⟨Or.inl hn, fun _ _ => hn, ?_, ?_, ?_⟩
      · intro ob hh; rw [holds_remFree hn] at hh; cases hh
      · intro ob hh; rw [holds_remFree hn] at hh; cases hh
      · intro ob hne; exact absurd (congrFun (microStep_objs (hfree op List.mem_cons_self) hs th.ctx) ob) hne
    rcases hact.1 with hfr | hform
    · exact hfree hfr
    · by_cases hsk : ∃ c, th = .sock c
      · obtain ⟨c, e⟩ := hsk; exact hfree (hact.2 c e)
      · obtain ⟨g1, g2, g3, g4, g5⟩ := remForm_micro hform (h.rdom _) (hfl.rnodup _) hs
        refine ⟨g1, fun c e => absurd ⟨c, e⟩ hsk, g2, ?_, g5⟩
        intro ob hh
        cases hb : holds ob (op :: rest) with
        | true => rw [g3 ob hh hb]; exact h.res th ob (hprog ▸ hb)
        | false => exact g4 ob hh hb
  obtain ⟨n1, n2, n3, n4, n5⟩ := hnew
  obtain ⟨hu, hres⟩ := h.holders th hf.prog_other (fun c hc => by rw [hf.ctx_other c hc])
    (fun ob hh => hprog ▸ n3 ob hh) n4 (fun ob hne => hprog ▸ n5 ob hne)
  constructor
  · intro c t
    by_cases e : Th.user c t = th
    · subst e; exact n1
    · rw [hf.prog_other _ e]; exact h.user c t
  · intro c
    by_cases e : Th.sock c = th
    · exact e ▸ n2 c e.symm
    · rw [hf.prog_other _ e]; exact h.sock c
  · intro c
    rcases microStep_rdom hs c with e | ⟨k, hk, e⟩
    · rw [e]; exact h.rdom c
    · rw [e, List.nodup_append]
      refine ⟨h.rdom c, by simp, ?_⟩
      intro a ha b hb; simp only [List.mem_singleton] at hb; subst hb
      intro e2; subst e2; exact hk ha
  · exact hu
  · exact hres


/-- steps that start programs which hold nothing and leave `rdom` / `objs` alone -/
theorem RemInv.of {s s' : State} (h : RemInv s)
    (hp : ∀ th, s'.prog th = s.prog th ∨
      ((∀ ob, holds ob (s'.prog th) = false) ∧ (remFree (s'.prog th) ∨ (RemForm (s'.prog th) ∧ ∃ c t, th = .user c t))))
    (hr : ∀ c, (s'.ctx c).rdom = (s.ctx c).rdom) (ho : ∀ c, (s'.ctx c).objs = (s.ctx c).objs) : RemInv s' := by
  have hh : ∀ th ob, holds ob (s'.prog th) = true → holds ob (s.prog th) = true := by
    intro th ob hx
    rcases hp th with e | ⟨e, -⟩
    · rw [← e]; exact hx
    · rw [e ob] at hx; cases hx
  constructor
  · intro c t
    rcases hp (.user c t) with e | ⟨-, e | ⟨e, -⟩⟩
    · rw [e]; exact h.user c t
    · exact Or.inl e
    · exact Or.inr e
  · intro c
    rcases hp (.sock c) with e | ⟨-, e | ⟨-, c', t', e⟩⟩
    · rw [e]; exact h.sock c
    · exact e
    · cases e
  · intro c; rw [hr]; exact h.rdom c
  · intro th th' ob hc h1 h2; exact h.uniq th th' ob hc (hh _ _ h1) (hh _ _ h2)
  · intro th ob h1; rw [ho]; exact h.res th ob (hh _ _ h1)

theorem rem_beginProg (c : Ctx) (t : Tid) (n : Nat) (o : Op) :
    (∀ ob, holds ob (beginProg c t n o) = false) ∧ (remFree (beginProg c t n o) ∨ RemForm (beginProg c t n o)) := by
  cases o <;> simp only [beginProg]
  case removeObj ob => exact ⟨fun _ => rfl, Or.inr (RemForm.rm0 ob)⟩
  case makeObj ob => exact ⟨fun _ => rfl, Or.inr (RemForm.mk0 ob)⟩
  all_goals (try split)
  all_goals (exact ⟨fun _ => rfl, Or.inl (by simp [remFree, MOp.isRem])⟩)

theorem rem_onSendFail (m : Msg) : (∀ ob, holds ob (onSendFail m) = false) ∧ remFree (onSendFail m) := by
  cases m <;> simp [onSendFail, remFree, MOp.isRem, holds]

theorem rem_dispatch (src : Peer) (m : Msg) : (∀ ob, holds ob (dispatch src m) = false) ∧ remFree (dispatch src m) := by
  cases m with
  | subReq id ob sg b => cases b <;> simp [dispatch, remFree, MOp.isRem, holds]
  | _ => simp [dispatch, remFree, MOp.isRem, holds]

theorem remInv_nstep {s s' : State} (h : RemInv s) (hs : NStep s s') : RemInv s' := by
  cases hs
  case beginPub c t ob sg _ _ =>
    refine h.of (fun th => ?_) (fun _ => rfl) (fun _ => rfl)
    simp only [setProg_prog]; split
    · rename_i e; subst e
      exact Or.inr ⟨(rem_beginProg _ _ _ _).1, (rem_beginProg _ _ _ _).2.imp id (fun x => ⟨x, c, t, rfl⟩)⟩
    · exact Or.inl rfl
  case beginOther c t op _ _ _ =>
    refine h.of (fun th => ?_) (fun _ => rfl) (fun _ => rfl)
    simp only [setProg_prog]; split
    · rename_i e; subst e
      exact Or.inr ⟨(rem_beginProg _ _ _ _).1, (rem_beginProg _ _ _ _).2.imp id (fun x => ⟨x, c, t, rfl⟩)⟩
    · exact Or.inl rfl
  case cbUnknown c d m q _ _ _ _ =>
    refine h.of (fun th => ?_) (fun x => ?_) (fun x => ?_)
    · simp only [setProg_prog, setCtx_prog]; split
      · exact Or.inr ⟨(rem_onSendFail m).1, Or.inl (rem_onSendFail m).2⟩
      · exact Or.inl rfl
    · simp only [setProg_ctx, setCtx_ctx]; split <;> (try (rename_i e; subst e)) <;> rfl
    · simp only [setProg_ctx, setCtx_ctx]; split <;> (try (rename_i e; subst e)) <;> rfl
  case cbSent c d m q cn _ _ _ _ =>
    refine h.of (fun th => ?_) (fun x => ?_) (fun x => ?_)
    · simp only [setProg_prog, setCtx_prog]; split
      · exact Or.inr ⟨fun _ => rfl, Or.inl remFree_nil⟩
      · exact Or.inl rfl
    · simp only [setProg_ctx, setCtx_ctx]; split <;> (try (rename_i e; subst e)) <;> rfl
    · simp only [setProg_ctx, setCtx_ctx]; split <;> (try (rename_i e; subst e)) <;> rfl
  case cbFail c d m q cn _ _ _ _ _ =>
    refine h.of (fun th => ?_) (fun x => ?_) (fun x => ?_)
    · simp only [setProg_prog, setCtx_prog]; split
      · exact Or.inr ⟨(rem_onSendFail m).1, Or.inl (rem_onSendFail m).2⟩
      · exact Or.inl rfl
    · simp only [setProg_ctx, setCtx_ctx]; split <;> (try (rename_i e; subst e)) <;> rfl
    · simp only [setProg_ctx, setCtx_ctx]; split <;> (try (rename_i e; subst e)) <;> rfl
  case cbDiscNone c n t q _ _ _ _ =>
    refine h.of (fun th => ?_) (fun x => ?_) (fun x => ?_)
    · simp only [setProg_prog, setCtx_prog]; split
      · exact Or.inr ⟨fun _ => rfl, Or.inl (by simp [remFree, MOp.isRem])⟩
      · exact Or.inl rfl
    · simp only [setProg_ctx, setCtx_ctx]; split <;> (try (rename_i e; subst e)) <;> rfl
    · simp only [setProg_ctx, setCtx_ctx]; split <;> (try (rename_i e; subst e)) <;> rfl
  case cbDisc c n t q cn _ _ _ _ =>
    refine h.of (fun th => ?_) (fun x => ?_) (fun x => ?_)
    · simp only [setProg_prog, setCtx_prog]; split
      · exact Or.inr ⟨fun _ => rfl, Or.inl (by simp [remFree, MOp.isRem])⟩
      · exact Or.inl rfl
    · simp only [setProg_ctx, setCtx_ctx]; split <;> (try (rename_i e; subst e)) <;> rfl
    · simp only [setProg_ctx, setCtx_ctx]; split <;> (try (rename_i e; subst e)) <;> rfl
  case arrive cn cli m ms _ _ _ _ _ =>
    refine h.of (fun th => ?_) (fun _ => rfl) (fun _ => rfl)
    simp only [setProg_prog]; split
    · exact Or.inr ⟨(rem_dispatch _ m).1, Or.inl (rem_dispatch _ m).2⟩
    · exact Or.inl rfl
  case eof cn cli _ _ _ _ _ _ =>
    refine h.of (fun th => ?_) (fun _ => rfl) (fun _ => rfl)
    simp only [setProg_prog]; split
    · exact Or.inr ⟨fun _ => rfl, Or.inl (by simp [remFree, MOp.isRem])⟩
    · exact Or.inl rfl
  case connect a p _ _ _ _ =>
    refine h.of (fun th => Or.inl rfl) (fun x => ?_) (fun x => ?_)
    · simp only [setCtx_ctx]; split <;> (try (rename_i e; subst e)) <;> (try split) <;> (try (rename_i e; subst e)) <;> rfl
    · simp only [setCtx_ctx]; split <;> (try (rename_i e; subst e)) <;> (try split) <;> (try (rename_i e; subst e)) <;> rfl
  case routerOk => exact h.of (fun th => Or.inl rfl) (fun _ => rfl) (fun _ => rfl)
  case stopReq c _ =>
    refine h.of (fun th => Or.inl rfl) (fun x => ?_) (fun x => ?_)
    · simp only [setCtx_ctx]; split <;> (try (rename_i e; subst e)) <;> rfl
    · simp only [setCtx_ctx]; split <;> (try (rename_i e; subst e)) <;> rfl
  case stop c _ =>
    refine h.of (fun th => Or.inl rfl) (fun x => ?_) (fun x => ?_)
    · simp only [setCtx_ctx]; split <;> (try (rename_i e; subst e)) <;> rfl
    · simp only [setCtx_ctx]; split <;> (try (rename_i e; subst e)) <;> rfl

theorem remInv_reach {s : State} (h : Reach s) : RemInv s := by
  induction h with
  | init => exact remInv_init
  | step hr hs ih =>
    rename_i s0 s1 a o
    by_cases ha : ∃ th ch ch2, a = .micro th ch ch2
    · obtain ⟨th, ch, ch2, rfl⟩ := ha
      obtain ⟨-, op, rest, hp, hm⟩ := step_micro_inv hs
      exact remInv_micro ih (flowInv_reach hr) hp hm
    · exact remInv_nstep ih (step_nonmicro_cases (fun th ch ch2 e => ha ⟨th, ch, ch2, e⟩) hs)

end QmiModel.PubSub
