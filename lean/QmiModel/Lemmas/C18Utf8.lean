import QmiModel.Lemmas.C18Bytes
/-! Helper lemmas for C18: the strict UTF-8 decoder inverts the encoder; encodings of NUL-free text have no zero byte. -/
namespace QmiModel.Discovery

theorem toNat_ofNat_lt (k : Nat) (h : k < 256) : (UInt8.ofNat k).toNat = k := by
  rw [UInt8.toNat_ofNat']; omega

theorem char_range (c : Char) : c.toNat < 0xD800 ∨ (0xDFFF < c.toNat ∧ c.toNat < 0x110000) := by
  have := c.valid
  simp only [Char.toNat, UInt32.isValidChar, Nat.isValidChar] at *
  omega

/-- one step of the decoder on a byte given by its value -/
theorem u8step_val (s : U8State) (k : Nat) (h : k < 256) :
    u8step (some s) (UInt8.ofNat k) =
    (if s.pending = 0 then
      if k < 0x80 then some { s with out := Char.ofNat k :: s.out }
      else if 0xC2 ≤ k ∧ k ≤ 0xDF then some { s with pending := 1, acc := k - 0xC0, lo := 0x80, hi := 0xBF }
      else if k = 0xE0 then some { s with pending := 2, acc := 0, lo := 0xA0, hi := 0xBF }
      else if k = 0xED then some { s with pending := 2, acc := 0xD, lo := 0x80, hi := 0x9F }
      else if 0xE1 ≤ k ∧ k ≤ 0xEF then some { s with pending := 2, acc := k - 0xE0, lo := 0x80, hi := 0xBF }
      else if k = 0xF0 then some { s with pending := 3, acc := 0, lo := 0x90, hi := 0xBF }
      else if 0xF1 ≤ k ∧ k ≤ 0xF3 then some { s with pending := 3, acc := k - 0xF0, lo := 0x80, hi := 0xBF }
      else if k = 0xF4 then some { s with pending := 3, acc := 4, lo := 0x80, hi := 0x8F }
      else none
    else if s.lo ≤ k ∧ k ≤ s.hi then
      if s.pending = 1 then some { pending := 0, acc := 0, lo := 0x80, hi := 0xBF, out := Char.ofNat (s.acc * 64 + (k - 0x80)) :: s.out }
      else some { s with pending := s.pending - 1, acc := s.acc * 64 + (k - 0x80), lo := 0x80, hi := 0xBF }
    else none) := by
  simp only [u8step, toNat_ofNat_lt k h]

theorem u8_char (c : Char) (s : U8State) (hp : s.pending = 0) :
    ∃ s', (utf8EncodeChar c).foldl u8step (some s) = some s' ∧ s'.pending = 0 ∧ s'.out = c :: s.out := by
  have hv := char_range c
  have hc : Char.ofNat c.toNat = c := Char.ofNat_toNat c
  unfold utf8EncodeChar
  simp only
  generalize c.toNat = n at hv hc
  by_cases h1 : n < 0x80
  · rw [if_pos h1]
    simp only [List.foldl_cons, List.foldl_nil]
    rw [u8step_val s n (by omega), if_pos hp, if_pos h1, hc]
    exact ⟨_, rfl, hp, rfl⟩
  · rw [if_neg h1]
    by_cases h2 : n < 0x800
    · rw [if_pos h2]
      simp only [List.foldl_cons, List.foldl_nil]
      rw [u8step_val s _ (by omega), if_pos hp, if_neg (by omega), if_pos (by omega)]
      rw [u8step_val _ _ (by omega)]
      simp only
      rw [if_neg (by omega), if_pos (by omega)]
      simp only [if_true]
      have : (192 + n / 64 - 192) * 64 + (128 + n % 64 - 128) = n := by omega
      rw [this, hc]
      exact ⟨_, rfl, rfl, rfl⟩
    · rw [if_neg h2]
      by_cases h3 : n < 0x10000
      · rw [if_pos h3]
        simp only [List.foldl_cons, List.foldl_nil]
        rw [u8step_val s _ (by omega), if_pos hp, if_neg (by omega), if_neg (by omega)]
        by_cases ha : n / 4096 = 0
        · rw [if_pos (by omega)]
          rw [u8step_val _ _ (by omega)]
          simp only
          rw [if_neg (by omega), if_pos (by omega), if_neg (by omega)]
          rw [u8step_val _ _ (by omega)]
          simp only
          rw [if_neg (by omega), if_pos (by omega)]
          simp only [if_true]
          have : (0 * 64 + (128 + n / 64 % 64 - 128)) * 64 + (128 + n % 64 - 128) = n := by omega
          rw [this, hc]
          exact ⟨_, rfl, rfl, rfl⟩
        · rw [if_neg (by omega)]
          by_cases hb : n / 4096 = 13
          · rw [if_pos (by omega)]
            rw [u8step_val _ _ (by omega)]
            simp only
            rw [if_neg (by omega), if_pos (by omega), if_neg (by omega)]
            rw [u8step_val _ _ (by omega)]
            simp only
            rw [if_neg (by omega), if_pos (by omega)]
            simp only [if_true]
            have : (13 * 64 + (128 + n / 64 % 64 - 128)) * 64 + (128 + n % 64 - 128) = n := by omega
            rw [this, hc]
            exact ⟨_, rfl, rfl, rfl⟩
          · rw [if_neg (by omega), if_pos (by omega)]
            rw [u8step_val _ _ (by omega)]
            simp only
            rw [if_neg (by omega), if_pos (by omega), if_neg (by omega)]
            rw [u8step_val _ _ (by omega)]
            simp only
            rw [if_neg (by omega), if_pos (by omega)]
            simp only [if_true]
            have : ((224 + n / 4096 - 224) * 64 + (128 + n / 64 % 64 - 128)) * 64 + (128 + n % 64 - 128) = n := by omega
            rw [this, hc]
            exact ⟨_, rfl, rfl, rfl⟩
      · rw [if_neg h3]
        simp only [List.foldl_cons, List.foldl_nil]
        rw [u8step_val s _ (by omega), if_pos hp, if_neg (by omega), if_neg (by omega), if_neg (by omega), if_neg (by omega), if_neg (by omega)]
        by_cases ha : n / 262144 = 0
        · rw [if_pos (by omega)]
          rw [u8step_val _ _ (by omega)]
          simp only
          rw [if_neg (by omega), if_pos (by omega), if_neg (by omega)]
          rw [u8step_val _ _ (by omega)]
          simp only
          rw [if_neg (by omega), if_pos (by omega), if_neg (by omega)]
          rw [u8step_val _ _ (by omega)]
          simp only
          rw [if_neg (by omega), if_pos (by omega)]
          simp only [if_true]
          have : ((0 * 64 + (128 + n / 4096 % 64 - 128)) * 64 + (128 + n / 64 % 64 - 128)) * 64 + (128 + n % 64 - 128) = n := by omega
          rw [this, hc]
          exact ⟨_, rfl, rfl, rfl⟩
        · rw [if_neg (by omega)]
          by_cases hb : n / 262144 = 4
          · rw [if_neg (by omega), if_pos (by omega)]
            rw [u8step_val _ _ (by omega)]
            simp only
            rw [if_neg (by omega), if_pos (by omega), if_neg (by omega)]
            rw [u8step_val _ _ (by omega)]
            simp only
            rw [if_neg (by omega), if_pos (by omega), if_neg (by omega)]
            rw [u8step_val _ _ (by omega)]
            simp only
            rw [if_neg (by omega), if_pos (by omega)]
            simp only [if_true]
            have : ((4 * 64 + (128 + n / 4096 % 64 - 128)) * 64 + (128 + n / 64 % 64 - 128)) * 64 + (128 + n % 64 - 128) = n := by omega
            rw [this, hc]
            exact ⟨_, rfl, rfl, rfl⟩
          · rw [if_pos (by omega)]
            rw [u8step_val _ _ (by omega)]
            simp only
            rw [if_neg (by omega), if_pos (by omega), if_neg (by omega)]
            rw [u8step_val _ _ (by omega)]
            simp only
            rw [if_neg (by omega), if_pos (by omega), if_neg (by omega)]
            rw [u8step_val _ _ (by omega)]
            simp only
            rw [if_neg (by omega), if_pos (by omega)]
            simp only [if_true]
            have : (((240 + n / 262144 - 240) * 64 + (128 + n / 4096 % 64 - 128)) * 64 + (128 + n / 64 % 64 - 128)) * 64 + (128 + n % 64 - 128) = n := by omega
            rw [this, hc]
            exact ⟨_, rfl, rfl, rfl⟩

/-- decoding the encoding of a text from an idle decoder state appends exactly that text -/
theorem u8_fold (cs : List Char) (s : U8State) (hp : s.pending = 0) :
    ∃ s', (utf8Encode cs).foldl u8step (some s) = some s' ∧ s'.pending = 0 ∧ s'.out = cs.reverse ++ s.out := by
  induction cs generalizing s with
  | nil => exact ⟨s, rfl, hp, rfl⟩
  | cons c cs ih =>
    obtain ⟨s1, h1, hp1, ho1⟩ := u8_char c s hp
    obtain ⟨s2, h2, hp2, ho2⟩ := ih s1 hp1
    refine ⟨s2, ?_, hp2, ?_⟩
    · unfold utf8Encode at *
      rw [List.flatMap_cons, List.foldl_append, h1, h2]
    · rw [ho2, ho1]; simp

/-- `s.encode().decode() == s` for every text (strict decoder: nothing the encoder produces is rejected) -/
theorem utf8_roundtrip (cs : List Char) : utf8Decode (utf8Encode cs) = some cs := by
  obtain ⟨s', h, hp, ho⟩ := u8_fold cs u8init rfl
  unfold utf8Decode
  rw [h]
  simp only [hp, if_true, ho]
  simp [u8init]

theorem ofNat_ne_zero (k : Nat) (h0 : 0 < k) (h : k < 256) : UInt8.ofNat k ≠ 0 := by
  intro hz
  have := toNat_ofNat_lt k h
  rw [hz] at this
  simp at this
  omega

/-- the encoding of a character other than NUL contains no zero byte -/
theorem utf8EncodeChar_ne_zero (c : Char) (hc : c.toNat ≠ 0) : ∀ b ∈ utf8EncodeChar c, b ≠ 0 := by
  have hv := char_range c
  unfold utf8EncodeChar
  simp only
  generalize c.toNat = n at hv hc
  intro b hb
  split at hb
  · simp only [List.mem_singleton] at hb; subst hb; exact ofNat_ne_zero _ (by omega) (by omega)
  · split at hb
    · simp only [List.mem_cons, List.mem_nil_iff, or_false] at hb
      rcases hb with rfl | rfl <;> exact ofNat_ne_zero _ (by omega) (by omega)
    · split at hb
      · simp only [List.mem_cons, List.mem_nil_iff, or_false] at hb
        rcases hb with rfl | rfl | rfl <;> exact ofNat_ne_zero _ (by omega) (by omega)
      · simp only [List.mem_cons, List.mem_nil_iff, or_false] at hb
        rcases hb with rfl | rfl | rfl | rfl <;> exact ofNat_ne_zero _ (by omega) (by omega)

theorem utf8Encode_ne_zero (cs : List Char) (h : ∀ c ∈ cs, c.toNat ≠ 0) : ∀ b ∈ utf8Encode cs, b ≠ 0 := by
  intro b hb
  unfold utf8Encode at hb
  obtain ⟨c, hc, hbc⟩ := List.mem_flatMap.1 hb
  exact utf8EncodeChar_ne_zero c (h c hc) b hbc

end QmiModel.Discovery
