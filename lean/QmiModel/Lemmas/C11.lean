import QmiModel.Model.Wake
import QmiModel.Model.WakeEnc
/-!
# Helper lemmas for C11 (core Lean only)

* soundness of the hand-written state equality used by the computed reachable set (`St.beq a b = true → a = b`);
* bucket membership implies list membership;
* `closure_sound` and its executable corollary `closedB_sound`;
* `runPath`: a concrete schedule is a witness of reachability (for the non-vacuity examples).
-/
namespace QmiModel.Wake

theorem boolBeq_eq {a b : Bool} (h : boolBeq a b = true) : a = b := by
  cases a <;> cases b <;> simp_all [boolBeq]

theorem optNatBeq_eq {a b : Option Nat} (h : optNatBeq a b = true) : a = b := by
  cases a <;> cases b <;> simp_all [optNatBeq]

theorem stackBeq_eq : ∀ {a b : List (Nat × Nat)}, stackBeq a b = true → a = b
  | [], [], _ => rfl
  | [], _ :: _, h => by simp [stackBeq] at h
  | _ :: _, [], h => by simp [stackBeq] at h
  | (a, b) :: r, (c, d) :: r', h => by
    simp only [stackBeq, Bool.and_eq_true, beq_iff_eq] at h
    obtain ⟨⟨h1, h2⟩, h3⟩ := h
    rw [h1, h2, stackBeq_eq h3]

theorem natListBeq_eq : ∀ {a b : List Nat}, natListBeq a b = true → a = b
  | [], [], _ => rfl
  | [], _ :: _, h => by simp [natListBeq] at h
  | _ :: _, [], h => by simp [natListBeq] at h
  | a :: r, b :: r', h => by
    simp only [natListBeq, Bool.and_eq_true, beq_iff_eq] at h
    rw [h.1, natListBeq_eq h.2]

theorem Park.code_inj {a b : Park} (h : a.code = b.code) : a = b := by
  cases a <;> cases b <;> (try rename_i l x; cases x) <;> (try rename_i l' y; cases y) <;>
    simp only [Park.code] at h <;> (try omega) <;> (try rfl) <;> (congr 1; omega)

theorem Status.code_inj {a b : Status} (h : a.code = b.code) : a = b := by
  cases a <;> cases b <;> (try rename_i x; cases x) <;> (try rename_i y; cases y) <;> simp_all [Status.code]

theorem exCode_inj {a b : Option Ex} (h : exCode a = exCode b) : a = b := by
  cases a <;> cases b <;> (try rename_i x; cases x) <;> (try rename_i y; cases y) <;> simp_all [exCode]

theorem Th.beq_eq {a b : Th} (h : a.beq b = true) : a = b := by
  simp only [Th.beq, Bool.and_eq_true, beq_iff_eq] at h
  obtain ⟨⟨⟨⟨⟨⟨⟨⟨⟨⟨⟨⟨h1, h2⟩, h3⟩, h4⟩, h5⟩, h6⟩, h7⟩, h8⟩, h9⟩, h10⟩, h11⟩, h12⟩, h13⟩ := h
  cases a; cases b
  simp only [Th.mk.injEq]
  exact ⟨h2, h1, stackBeq_eq h7, boolBeq_eq h5, h6, exCode_inj h8, Park.code_inj h3, boolBeq_eq h9, boolBeq_eq h10,
         boolBeq_eq h11, h12, h13, Status.code_inj h4⟩

theorem thsBeq_eq : ∀ {a b : List Th}, thsBeq a b = true → a = b
  | [], [], _ => rfl
  | [], _ :: _, h => by simp [thsBeq] at h
  | _ :: _, [], h => by simp [thsBeq] at h
  | a :: r, b :: r', h => by
    simp only [thsBeq, Bool.and_eq_true] at h
    rw [Th.beq_eq h.1, thsBeq_eq h.2]

theorem St.beq_eq {a b : St} (h : a.beq b = true) : a = b := by
  simp only [St.beq, Bool.and_eq_true, beq_iff_eq] at h
  obtain ⟨⟨⟨⟨⟨⟨⟨⟨⟨⟨⟨h1, h2⟩, h3⟩, h3b⟩, h4⟩, h5⟩, h6⟩, h6b⟩, h7⟩, h9⟩, h10⟩, h8⟩ := h
  cases a; cases b
  simp only [St.mk.injEq]
  exact ⟨boolBeq_eq h1, h2, h3, h3b, optNatBeq_eq h4, optNatBeq_eq h5, optNatBeq_eq h6, optNatBeq_eq h6b, h7, h9,
         natListBeq_eq h10, thsBeq_eq h8⟩

theorem memBucket_sound {k : Nat} {s : St} : ∀ {l : List (Nat × St)}, memBucket k s l = true → s ∈ l.map (·.2)
  | [], h => by simp [memBucket] at h
  | x :: r, h => by
    simp only [memBucket, Bool.or_eq_true, Bool.and_eq_true] at h
    rcases h with ⟨_, h2⟩ | h
    · simp only [List.map_cons, List.mem_cons]
      exact Or.inl (St.beq_eq h2).symm
    · simp only [List.map_cons, List.mem_cons]
      exact Or.inr (memBucket_sound h)

theorem Buckets.mem_sound {b : Buckets} {s : St} (h : b.mem s = true) : s ∈ b.toList := by
  unfold Buckets.mem at h
  simp only at h
  split at h
  · rename_i l hl
    have h1 := memBucket_sound h
    simp only [Buckets.toList, List.mem_map] at h1 ⊢
    obtain ⟨x, hx, rfl⟩ := h1
    exact ⟨x, List.mem_flatten.2 ⟨l, List.mem_of_getElem? hl, hx⟩, rfl⟩
  · simp at h

/-- **closure_sound** (generic, proved once): a set that contains the initial states and is closed under every
    thread's step contains every reachable state. -/
theorem closure_sound (sys : Sys) (S : St → Prop)
    (hinit : ∀ s ∈ inits sys, S s) (hclosed : ∀ s, S s → ∀ t ∈ succs sys s, S t) :
    ∀ s, Reach sys s → S s := by
  intro s h
  induction h with
  | init h => exact hinit _ h
  | step _ ht ih => exact hclosed _ ih _ ht

theorem closedB_sound {sys : Sys} {B : Buckets} (h : closedB sys B = true) : ∀ s, Reach sys s → s ∈ B.toList := by
  simp only [closedB, Bool.and_eq_true, List.all_eq_true] at h
  refine closure_sound sys (· ∈ B.toList) ?_ ?_
  · intro s hs
    exact Buckets.mem_sound (h.1 s hs)
  · intro s hs t ht
    exact Buckets.mem_sound (h.2 s hs t ht)

/-- the certificate evaluated by the kernel for each generated system -/
def certB (sys : Sys) (good : St → Bool) : Bool :=
  closedB sys (explore sys) && (explore sys).toList.all good

theorem cert_sound {sys : Sys} {good : St → Bool} (h : certB sys good = true) :
    ∀ s, Reach sys s → good s = true := by
  simp only [certB, Bool.and_eq_true, List.all_eq_true] at h
  intro s hs
  exact h.2 s (closedB_sound h.1 s hs)

/-! ## certificates: chunk-wise closure (see `Model/WakeEnc.lean`) -/

/-- all packed states of a certificate -/
def Cert.codes (cert : Cert) : List Nat := cert.flatten.flatten

/-- the set of states described by a certificate -/
def InCert (cert : Cert) (s : St) : Prop := ∃ c ∈ cert.codes, dec c = s

theorem natMem_sound {c : Nat} : ∀ {l : List Nat}, natMem c l = true → c ∈ l
  | [], h => by simp [natMem] at h
  | x :: r, h => by
    simp only [natMem, Bool.or_eq_true, beq_iff_eq] at h
    rcases h with h | h
    · exact h ▸ List.mem_cons_self
    · exact List.mem_cons_of_mem _ (natMem_sound h)

theorem Cert.bucket_sub {x : Nat} : ∀ {cert : Cert} {i : Nat}, x ∈ cert.bucket i → x ∈ cert.codes
  | [], _, h => by simp [Cert.bucket] at h
  | g :: gs, i, h => by
    simp only [Cert.bucket] at h
    simp only [Cert.codes, List.flatten_cons, List.flatten_append, List.mem_append]
    split at h
    · rename_i hi
      left
      rw [List.getD_eq_getElem?_getD, List.getElem?_eq_getElem hi] at h
      simp only [Option.getD_some] at h
      exact List.mem_flatten.2 ⟨_, List.getElem_mem hi, h⟩
    · right
      exact Cert.bucket_sub (cert := gs) h

theorem Cert.has_sound {cert : Cert} {nbk : Nat} {t : St} (h : cert.has nbk t = true) : InCert cert t := by
  simp only [Cert.has, Cert.mem, Bool.and_eq_true] at h
  exact ⟨enc t, Cert.bucket_sub (natMem_sound h.1), St.beq_eq h.2⟩

theorem chunk_covers {sys : Sys} {good : St → Bool} {cert : Cert} {nbk : Nat}
    (hch : ∀ j, j < cert.length → chunkOk sys good cert nbk j = true) :
    ∀ c ∈ cert.codes, okCode sys good cert nbk c = true := by
  intro c hc
  simp only [Cert.codes, List.mem_flatten] at hc
  obtain ⟨b, ⟨g, hg, hb⟩, hcb⟩ := hc
  obtain ⟨j, hj, rfl⟩ := List.getElem_of_mem hg
  have := hch j hj
  simp only [chunkOk, List.getElem?_eq_getElem hj, List.all_eq_true] at this
  exact this b hb c hcb

/-- **chunk-wise closure**: if the initial states are in the table and every chunk of the table passes its check, then
    every reachable state is described by the table and satisfies `good`. -/
theorem cert_chunks_sound {sys : Sys} {good : St → Bool} {cert : Cert} {nbk : Nat}
    (hinit : initOk sys cert nbk = true)
    (hch : ∀ j, j < cert.length → chunkOk sys good cert nbk j = true) :
    ∀ s, Reach sys s → good s = true := by
  have hall := chunk_covers hch
  have hin : ∀ s, Reach sys s → InCert cert s := by
    refine closure_sound sys (InCert cert) ?_ ?_
    · intro s hs
      simp only [initOk, List.all_eq_true] at hinit
      exact Cert.has_sound (hinit s hs)
    · intro s ⟨c, hc, hd⟩ t ht
      have := hall c hc
      simp only [okCode, Bool.and_eq_true, List.all_eq_true] at this
      exact Cert.has_sound (this.2 t (hd ▸ ht))
  intro s hs
  obtain ⟨c, hc, hd⟩ := hin s hs
  have := hall c hc
  simp only [okCode, Bool.and_eq_true] at this
  exact hd ▸ this.1

/-! ## concrete schedules as reachability witnesses -/

/-- follow a schedule: each entry is (thread, index among that thread's successors) -/
def runPath (sys : Sys) : List (Nat × Nat) → St → Option St
  | [], s => some s
  | (tid, k) :: r, s =>
    match (stepTh sys s tid)[k]? with
    | some t => runPath sys r t
    | none => none

theorem mem_succsFrom {sys : Sys} {s t : St} : ∀ {n tid : Nat}, tid < n → t ∈ stepTh sys s tid → t ∈ succsFrom sys s n
  | 0, _, h, _ => by omega
  | n+1, tid, h, ht => by
    simp only [succsFrom, List.mem_append]
    by_cases e : tid = n
    · subst e; exact Or.inl ht
    · exact Or.inr (mem_succsFrom (by omega) ht)

theorem stepTh_mem_succs {sys : Sys} {s t : St} {tid : Nat} (ht : t ∈ stepTh sys s tid) : t ∈ succs sys s := by
  by_cases h : tid < s.ths.length
  · exact mem_succsFrom h ht
  · have : s.ths[tid]? = none := by simp; omega
    simp [stepTh, stepThL, this] at ht

theorem runPath_reach {sys : Sys} : ∀ {p : List (Nat × Nat)} {s t : St}, Reach sys s → runPath sys p s = some t → Reach sys t
  | [], s, t, hs, h => by simp only [runPath, Option.some.injEq] at h; exact h ▸ hs
  | (tid, k) :: r, s, t, hs, h => by
    simp only [runPath] at h
    split at h
    · rename_i u hu
      exact runPath_reach (Reach.step hs (stepTh_mem_succs (List.mem_of_getElem? hu))) h
    · simp at h

/-- the state reached by a schedule from the first initial state (`sys.init` itself if the schedule is not executable) -/
def pathState (sys : Sys) (p : List (Nat × Nat)) : St :=
  match inits sys with
  | s0 :: _ => (runPath sys p s0).getD sys.init
  | [] => sys.init

def pathOk (sys : Sys) (p : List (Nat × Nat)) : Bool :=
  match inits sys with
  | s0 :: _ => (runPath sys p s0).isSome
  | [] => false

theorem pathState_reach {sys : Sys} {p : List (Nat × Nat)} (h : pathOk sys p = true) : Reach sys (pathState sys p) := by
  unfold pathOk at h
  unfold pathState
  split at h
  · rename_i s0 rest hi
    cases hr : runPath sys p s0 with
    | none => simp [hr] at h
    | some t =>
      simp only [Option.getD_some]
      exact runPath_reach (Reach.init (by rw [hi]; simp)) hr
  · simp at h

/-! ## `settles` in terms of steps -/

/-- the task thread's own steps only -/
inductive TaskSteps (sys : Sys) : St → St → Prop
  | refl {s} : TaskSteps sys s s
  | step {s t u} : t ∈ stepTh sys s 0 → TaskSteps sys t u → TaskSteps sys s u

theorem TaskSteps.reach {sys : Sys} {s u : St} (h : TaskSteps sys s u) (hs : Reach sys s) : Reach sys u := by
  induction h with
  | refl => exact hs
  | step ht _ ih => exact ih (Reach.step hs (stepTh_mem_succs ht))

/-- the fuel-bounded check implies the fuel-free `Settles` -/
theorem settles_sound {sys : Sys} {good : St → Bool} : ∀ {n : Nat} {s : St}, settles sys good n s = true → Settles sys good s
  | 0, s, h => by simp [settles] at h
  | n+1, s, h => by
    unfold settles at h
    cases ht : taskTh s with
    | none => simp [ht] at h
    | some t =>
      simp only [ht] at h
      by_cases hf : t.finished = true
      · simp only [hf, if_true] at h
        exact Settles.done ht hf h
      · simp only [hf, Bool.false_eq_true, if_false, Bool.and_eq_true, Bool.not_eq_true', List.isEmpty_eq_false_iff,
          List.all_eq_true] at h
        exact Settles.step ht (by simpa using hf) h.1 (fun p hp => (h.2 p hp).1)
          (fun p hp => settles_sound (h.2 p hp).2)

/-- if the task settles, it reaches a finished state satisfying `good` by its own steps alone -/
theorem Settles.reaches {sys : Sys} {good : St → Bool} {s : St} (h : Settles sys good s) :
    ∃ u, TaskSteps sys s u ∧ good u = true ∧ (∃ t, taskTh u = some t ∧ t.finished = true) := by
  induction h with
  | done ht hf hg => exact ⟨_, TaskSteps.refl, hg, _, ht, hf⟩
  | @step s0 _ _ _ hne _ _ ih =>
    obtain ⟨p, hp⟩ := List.exists_mem_of_ne_nil _ hne
    obtain ⟨u, hu, hg, hfin⟩ := ih p hp
    have hmem : p.2 ∈ stepTh sys s0 0 := by
      simp only [stepTh, List.mem_map]
      exact ⟨p, (List.mem_filter.1 hp).1, rfl⟩
    exact ⟨u, TaskSteps.step hmem hu, hg, hfin⟩

end QmiModel.Wake
