import QmiModel.Lemmas.C09Lock
/-!
# C09 — the concurrent receiver refines the sequential one (`Inv12_crun`)

`absV g hold` is the shared state as the sequential model `RecvQueue` sees it; `RInv` says it equals the sequential run
`grun (ginit cap pol) lin` over the linearisation `lin` (the calls in the order they took effect), for every schedule.
-/
set_option linter.unusedSimpArgs false
namespace QmiModel.RecvConc
open QmiModel.RecvQueue

/-- what the refinement needs to know about the lock holder -/
structure Hold where
  call : Call
  pc   : Nat
  sig  : Sig

def holdOf (s : St) : Option Hold := s.lock.map fun i => ⟨(s.thr i).call, (s.thr i).pc, (s.thr i).sig⟩

/-- the holder is between `self._receiver_seqnr += 1` and the statement that queues / drops the signal -/
def midH : Option Hold → Bool
  | some ⟨.recv _, pc, _⟩ => pc == 3 || pc == 4
  | _ => false

/-- the receiver as the sequential model sees it: an arrival whose number is taken but which is not yet queued or
dropped has not happened yet -/
def absV (g : Ghost) (h : Option Hold) : Ghost := if midH h then setNext g (g.r.next - 1) else g

structure RV (cap : Nat) (pol : Policy) (g : Ghost) (lin : List Op) (h : Option Hold) : Prop where
  abs_eq  : absV g h = grun (ginit cap pol) lin
  mid_pos : midH h = true → 1 ≤ g.r.next
  sig_ok  : ∀ tag pc sig, h = some ⟨.recv tag, pc, sig⟩ → 2 ≤ pc → pc ≤ 4 → sig = ⟨(absV g h).r.next, tag⟩
  notfull : ∀ tag sig, h = some ⟨.recv tag, 4, sig⟩ → ¬ (g.r.q.length = g.r.cap ∧ g.r.pol = .new)

def RInv (cap : Nat) (pol : Policy) (s : St) : Prop := RV cap pol s.g s.lin (holdOf s)

theorem grun_snoc (g : Ghost) (ops : List Op) (o : Op) : grun g (ops ++ [o]) = gstep (grun g ops) o := by
  simp [grun, List.foldl_append]

theorem RQ_eq (r : RQ) (c : Nat) (p : Policy) (q : List Sig) (n : Nat) (h1 : r.cap = c) (h2 : r.pol = p) (h3 : r.q = q)
    (h4 : r.next = n) : r = ⟨c, p, q, n⟩ := by cases r; simp_all

theorem RInv_init (cap : Nat) (pol : Policy) : RInv cap pol (St.init cap pol) := by
  constructor <;> simp [St.init, holdOf, absV, midH, grun]

/-- a holder that is not a deliverer between its statements 2 and 4 -/
def plainH : Option Hold → Prop
  | some ⟨.recv _, pc, _⟩ => pc < 2 ∨ 4 < pc
  | _ => True

theorem midH_of_plain {h : Option Hold} (hp : plainH h) : midH h = false := by
  unfold plainH at hp; unfold midH
  split <;> simp_all
  omega

theorem RV_plain {cap pol g lin h h'} (hv : RV cap pol g lin h) (h1 : midH h = false) (h2 : plainH h') : RV cap pol g lin h' := by
  have hm := midH_of_plain h2
  obtain ⟨a, b, c, d⟩ := hv
  refine ⟨?_, by simp [hm], ?_, ?_⟩
  · simpa [absV, h1, hm] using a
  · intro tag pc sig he; subst he; simp [plainH] at h2; omega
  · intro tag sig he; subst he; simp [plainH] at h2

theorem RV_mkSig {cap pol g lin tag sig} (hv : RV cap pol g lin (some ⟨.recv tag, 1, sig⟩)) :
    RV cap pol g lin (some ⟨.recv tag, 2, ⟨g.r.next, tag⟩⟩) := by
  obtain ⟨a, b, c, d⟩ := hv
  refine ⟨?_, by simp [midH], ?_, ?_⟩
  · simpa [absV, midH] using a
  · intro tag' pc sig' he; cases he; simp [absV, midH]
  · intro tag' sig' he; cases he

theorem RV_incSeq {cap pol g lin tag sig} (hv : RV cap pol g lin (some ⟨.recv tag, 2, sig⟩)) :
    RV cap pol (setNext g (g.r.next + 1)) lin (some ⟨.recv tag, 3, sig⟩) := by
  obtain ⟨a, b, c, d⟩ := hv
  have hs := c tag 2 sig rfl (by omega) (by omega)
  simp [absV, midH] at hs a
  refine ⟨?_, by simp [midH, setNext], ?_, ?_⟩
  · simp [absV, midH, setNext]; exact a
  · intro tag' pc sig' he; cases he; simp [absV, midH, setNext]; exact hs
  · intro tag' sig' he; cases he

theorem RV_noDrop {cap pol g lin tag sig} (hv : RV cap pol g lin (some ⟨.recv tag, 3, sig⟩))
    (hf : ¬ (g.r.q.length = g.r.cap ∧ g.r.pol = .new)) : RV cap pol g lin (some ⟨.recv tag, 4, sig⟩) := by
  obtain ⟨a, b, c, d⟩ := hv
  have hs := c tag 3 sig rfl (by omega) (by omega)
  simp [absV, midH] at hs a b
  refine ⟨?_, by simp [midH]; exact b, ?_, ?_⟩
  · simp [absV, midH]; exact a
  · intro tag' pc sig' he; cases he; simp [absV, midH]; exact hs
  · intro tag' sig' he; cases he; exact hf

theorem RV_dropNew {cap pol g lin tag sig} (hv : RV cap pol g lin (some ⟨.recv tag, 3, sig⟩))
    (hf : g.r.q.length = g.r.cap ∧ g.r.pol = .new) :
    RV cap pol { g with dropped := g.dropped ++ [sig.seq] } (lin ++ [.recv tag]) none := by
  obtain ⟨a, b, c, d⟩ := hv
  have hs := c tag 3 sig rfl (by omega) (by omega)
  simp [absV, midH] at hs a b
  refine ⟨?_, by simp [midH], ?_, ?_⟩
  · rw [grun_snoc, ← a]
    simp [absV, midH, gstep, recv, setNext, hf, hs]
    exact RQ_eq _ _ _ _ _ rfl hf.2 rfl (by omega)
  · intro tag' pc sig' he; cases he
  · intro tag' sig' he; cases he

theorem RV_append {cap pol g lin tag sig} (hv : RV cap pol g lin (some ⟨.recv tag, 4, sig⟩)) :
    RV cap pol { setQ g (dequeAppend g.r.cap g.r.q sig) with
                 dropped := g.dropped ++ ((g.r.q ++ [sig]).take ((g.r.q ++ [sig]).length - g.r.cap)).map Sig.seq }
       (lin ++ [.recv tag]) (some ⟨.recv tag, 5, sig⟩) := by
  obtain ⟨a, b, c, d⟩ := hv
  have hs := c tag 4 sig rfl (by omega) (by omega)
  have hf := d tag sig rfl
  simp [absV, midH] at hs a b
  refine ⟨?_, by simp [midH], ?_, ?_⟩
  · rw [grun_snoc, ← a]
    simp [absV, midH, gstep, recv, setNext, setQ, hf, hs]
    omega
  · intro tag' pc sig' he; cases he; omega
  · intro tag' sig' he; cases he


theorem RV_pop {cap pol g lin h x rest} (hv : RV cap pol g lin h) (hm : midH h = false) (hq : g.r.q = x :: rest) :
    RV cap pol { setQ g rest with delivered := g.delivered ++ [x.seq] } (lin ++ [.get]) none := by
  obtain ⟨a, b, c, d⟩ := hv
  simp [absV, hm] at a
  refine ⟨?_, by simp [midH], ?_, ?_⟩
  · rw [grun_snoc, ← a]
    simp [absV, midH, gstep, getNext, setQ, hq]
  · intro tag' pc sig' he; cases he
  · intro tag' sig' he; cases he

theorem RV_clear {cap pol g lin sig} (hv : RV cap pol g lin (some ⟨.discard, 1, sig⟩)) :
    RV cap pol { setQ g [] with discarded := g.discarded ++ g.r.q.map Sig.seq } (lin ++ [.discard]) (some ⟨.discard, 2, sig⟩) := by
  obtain ⟨a, b, c, d⟩ := hv
  simp [absV, midH] at a
  refine ⟨?_, by simp [midH], ?_, ?_⟩
  · rw [grun_snoc, ← a]
    simp [absV, midH, gstep, discardAll, setQ]
  · intro tag' pc sig' he; cases he
  · intro tag' sig' he; cases he


theorem hold_some {s : St} {i : Nat} (h : s.lock = some i) :
    holdOf s = some ⟨(s.thr i).call, (s.thr i).pc, (s.thr i).sig⟩ := by simp [holdOf, h]

theorem RInv_Step0 {cap : Nat} {pol : Policy} {s s' : St} {i : Nat} (h : RInv cap pol s) (hs : Step0 s i s') :
    RInv cap pol s' := by
  unfold RInv at *
  cases hs
  case same => exact h
  case mkSig tag hc hpc hl =>
    rw [hold_some hl, hc, hpc] at h
    simpa [holdOf, hl, hc] using RV_mkSig h
  case incSeq tag hc hpc hl =>
    rw [hold_some hl, hc, hpc] at h
    simpa [holdOf, hl, hc] using RV_incSeq h
  case dropNew tag hc hpc hl hfull =>
    rw [hold_some hl, hc, hpc] at h
    simpa [holdOf, hl, hc, unlock] using RV_dropNew h hfull
  case noDrop tag hc hpc hl hfull =>
    rw [hold_some hl, hc, hpc] at h
    simpa [holdOf, hl, hc] using RV_noDrop h hfull
  case append tag hc hpc hl =>
    rw [hold_some hl, hc, hpc] at h
    simpa [holdOf, hl, hc] using RV_append h
  case pop task tmo x rest hc hpc hl hw hq =>
    have hm : midH (holdOf s) = false := by simp [hold_some hl, hc, midH]
    simpa [holdOf, hl, unlock] using RV_pop h hm hq
  case clear hc hpc hl =>
    rw [hold_some hl, hc, hpc] at h
    simpa [holdOf, hl, hc] using RV_clear h
  all_goals (refine RV_plain h ?_ ?_)
  all_goals (try (simp_all [holdOf, midH, plainH, unlock, upd_same, finish_thr_same]; done))
  · cases hcc : (s.thr i).call <;> simp_all [holdOf, plainH, upd_same]
  · cases hcc : (s.thr i).call <;> simp_all [holdOf, midH, pcBound, isGet]

theorem RInv_Env0 {cap : Nat} {pol : Policy} {s s' : St} {i : Nat} (h : RInv cap pol s) (hs : Env0 s i s') :
    RInv cap pol s' := by
  unfold RInv at *
  cases hs
  case same => exact h
  case call c hidle =>
    cases hl : s.lock with
    | none => simpa [holdOf, hl] using h
    | some k =>
      by_cases hk : k = i
      · subst hk
        refine RV_plain h ?_ ?_
        · simp [holdOf, hl, midH, hidle]
        · cases c <;> simp [holdOf, hl, plainH, upd_same]
      · simpa [holdOf, hl, upd_other _ _ _ _ hk] using h
  all_goals
    cases hl : s.lock with
    | none => simpa [holdOf, hl] using h
    | some k =>
      by_cases hk : k = i
      · subst hk; simpa [holdOf, hl, upd_same] using h
      · simpa [holdOf, hl, upd_other _ _ _ _ hk] using h

theorem RInv_cstep {cap : Nat} {pol : Policy} {s : St} (hl : LInv s) (h : RInv cap pol s) (a : Act) :
    RInv cap pol (cstep P0 s a) := by
  rcases cstep_cases s hl a with hs | hs
  · exact RInv_Step0 h hs
  · exact RInv_Env0 h hs

theorem Inv12_crun {cap : Nat} {pol : Policy} (sched : List Act) :
    ∀ s, LInv s → RInv cap pol s → LInv (crun P0 s sched) ∧ RInv cap pol (crun P0 s sched) := by
  induction sched with
  | nil => intro s h1 h2; exact ⟨h1, h2⟩
  | cons a rest ih => intro s h1 h2; exact ih _ (LInv_cstep h1 a) (RInv_cstep h1 h2 a)

end QmiModel.RecvConc
