import QmiModel.Lemmas.C01Progress
import QmiModel.Lemmas.C01CarrierL
/-! Quiescent ⇒ every call has its outcome **or is in `lost`** — no hypothesis on the client context. -/
namespace QmiModel.Rpc

variable (attr : ReqId → Attr)

theorem stuck_implies_done_or_lost {s : State} (hs : SInv Cfg.sound s) (ha : AInv s) (hc : CInvL attr s)
    (hq : Quiescent Cfg.sound attr s) : ∀ r ∈ s.issued, s.result r ≠ none ∨ r ∈ s.lost := by
  intro r hr
  cases hres : s.result r with
  | some o => exact Or.inl (by simp)
  | none =>
  refine Or.inr ?_
  have en : ∀ a, Internal a = true → (step Cfg.sound attr s a).isSome → False := by
    intro a hi he; rw [hq a hi] at he; simp at he
  have work : (r ∈ s.fifo ∨ ∃ x, s.phase = .busy x) → False := by
    intro hw
    rcases worker_enabled attr hs r hw with h | h | h
    · exact en _ rfl h
    · exact en _ rfl h
    · exact en _ rfl h
  have aup_of_conn : s.connA = true → s.aSock ≠ .down := by
    intro h2 hd
    have := ha.aSock_conn (by rw [hd]; simp)
    rw [this] at h2; simp at h2
  have bclosed : s.connA = true → s.connB = false → False := by
    intro h2 h3
    cases hw : s.wireBA with
    | nil => exact en _ rfl (eofA_enabled _ attr (aup_of_conn h2) h2 h3 hw)
    | cons m w => exact en _ rfl (recvA_enabled _ attr (aup_of_conn h2) h2 (by rw [hw]; simp))
  have bq : s.bQ ≠ [] → False := by
    intro hne
    by_cases hd : s.bSock = .down
    · exact hne (hs.bDown_q hd)
    · exact en _ rfl (loopB_enabled _ attr hd hne)
  rcases hc r hr hres with hl | g
  · exact hl
  · exfalso
    rcases g with g | g
    · exact en _ rfl (send_enabled _ attr g)
    · unfold Carrier at g
      cases hp : (attr r).place <;> simp only [hp] at g
      · rcases g with g | g
        · exact work (Or.inl g)
        · exact work (Or.inr ⟨r, g⟩)
      · rcases g with g | g | ⟨h1, h2, h3⟩
        · exact en _ rfl (enq_enabled _ attr g)
        · by_cases hd : s.aSock = .down
          · have := ha.aDown_q hd; rw [this] at g; simp at g
          · exact en _ rfl (loopA_enabled _ attr hd (ne_nil_of_mem' g))
        · rcases h3 with h3 | h3 | h3 | ⟨o', h3⟩ | ⟨o', h3⟩ | h3 | h3
          · by_cases hcb : s.connB = true
            · by_cases hd : s.bSock = .down
              · have := hs.bSock_conn (by rw [hd]; simp); rw [this] at hcb; simp at hcb
              · exact en _ rfl (recvB_enabled _ attr hd hcb (ne_nil_of_mem' h3))
            · exact bclosed h2 (by simpa using hcb)
          · exact work (Or.inl h3)
          · exact work (Or.inr ⟨r, h3⟩)
          · exact bq (ne_nil_of_mem' h3)
          · exact en _ rfl (recvA_enabled _ attr (aup_of_conn h2) h2 (ne_nil_of_mem' h3))
          · exact bclosed h2 h3
          · exact bq (ne_nil_of_mem' h3)

end QmiModel.Rpc
