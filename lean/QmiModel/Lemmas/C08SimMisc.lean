import QmiModel.Lemmas.C08SimCT
/-! C08, simulation layer — small invariants: a pending subscribe request has waiting receivers (`SubRcvInv`); the local
variants of subscribe / unsubscribe work on keys of the own context (`LkInv`); a positive reply that is about to be handled
belongs to an outstanding request whose publisher context is still connected (`HrInv`); a context has receivers for a
signal of a peer only while it is connected to that peer or about to clean up after it (`LsubInv`). -/
set_option linter.unusedSimpArgs false
namespace QmiModel.PubSub

def SubRcvInv (s : State) : Prop := ∀ c pid po, (s.ctx c).pobj pid = some po → po.sub = true → po.rcvs ≠ []

theorem handleReplyStep_subRcv {cs cs' : CtxSt} {id0 : ReqId} {ok : Bool} {more : List MOp} {o : Out}
    (h0 : ∀ pid po, cs.pobj pid = some po → po.sub = true → po.rcvs ≠ [])
    (h : handleReplyStep cs id0 ok = some (cs', more, o)) : ∀ pid po, cs'.pobj pid = some po → po.sub = true → po.rcvs ≠ [] := by
  unfold handleReplyStep at h
  split at h
  · simp only [Option.some.injEq, Prod.mk.injEq] at h; obtain ⟨rfl, -, -⟩ := h; exact h0
  · split at h
    · simp only [Option.some.injEq, Prod.mk.injEq] at h; obtain ⟨rfl, -, -⟩ := h; exact h0
    · split at h
      · simp only [Option.some.injEq, Prod.mk.injEq] at h; obtain ⟨rfl, -, -⟩ := h
        intro pid po h1 h2; simp only [upd] at h1; grind
      · split at h
        · simp only [Option.some.injEq, Prod.mk.injEq] at h; obtain ⟨rfl, -, -⟩ := h
          intro pid po h1 h2; simp only [upd] at h1; grind
        · simp only [Option.some.injEq, Prod.mk.injEq] at h; obtain ⟨rfl, -, -⟩ := h; exact h0

set_option maxHeartbeats 4000000 in
theorem subRcvInv_micro {s s' : State} {th : Th} {ch ch2 : Nat} {op : MOp} {rest : List MOp} {o : Out}
    (h : SubRcvInv s) (hs : microStep s th ch ch2 op rest = some (s', o)) : SubRcvInv s' := by
  have h0 := h th.ctx
  cases op <;> simp only [microStep] at hs
  all_goals (try (split at hs))
  all_goals (try (split at hs))
  all_goals (try (split at hs))
  all_goals (try (split at hs))
  all_goals (try (simp at hs))
  all_goals (try (have f2 := handleReplyStep_subRcv h0 ‹handleReplyStep _ _ _ = some _›))
  all_goals (try (obtain ⟨rfl, -⟩ := hs))
  all_goals (intro c; simp only [setProg_ctx, setCtx_ctx, State.setProg]; (try split))
  all_goals (try exact h c)
  all_goals (try (rename_i e; subst e))
  all_goals (try exact h0)
  all_goals (try exact f2)
  all_goals (intro pid po h1 h2; simp only [upd, peerRemovedStep] at h1)
  all_goals (first
    | (have := ins_ne_nil; grind)
    | (cases hp : (s.ctx th.ctx).pobj pid with
       | none => simp [hp] at h1
       | some po0 =>
         simp only [hp, Option.map_some, Option.some.injEq] at h1; subst h1
         simpa using h0 pid po0 hp (by simpa using h2)))

theorem subRcvInv_reach {s : State} (h : Reach s) : SubRcvInv s := by
  induction h with
  | init => intro c pid po h; simp [State.init, CtxSt.init] at h
  | step hr hs ih =>
    rename_i s0 s1 a o
    by_cases ha : ∃ th ch ch2, a = .micro th ch ch2
    · obtain ⟨th, ch, ch2, rfl⟩ := ha
      obtain ⟨-, op, rest, hp, hm⟩ := step_micro_inv hs
      exact subRcvInv_micro ih hm
    · intro c pid po h1
      rw [(step_nonmicro_tables (fun th ch ch2 e => ha ⟨th, ch, ch2, e⟩) hs c).pobj] at h1
      exact ih c pid po h1


/-! ### local subscribe / unsubscribe work on keys of the own context -/

def MOp.locKey : MOp → Option Key
  | .chkObj1 k _ => some k
  | .addLocal k _ => some k
  | .chkObj2 k _ => some k
  | .removeLocal k _ => some k
  | _ => none

def LkInv (s : State) : Prop := ∀ th op k, op ∈ s.prog th → op.locKey = some k → k.pc = .name th.ctx

theorem pushes_locKey {op op' : MOp} {k : Key} (hp : Pushes op op') (h : op'.locKey = some k) : op.locKey = some k := by
  cases op with
  | snapLocal => obtain ⟨_, _, rfl⟩ := hp; cases h
  | deliver => obtain ⟨_, rfl⟩ := hp; cases h
  | snapRemote => obtain ⟨_, rfl⟩ := hp; cases h
  | pubSend => rcases hp with ⟨_, rfl⟩ | ⟨_, rfl⟩ <;> cases h
  | sendChk d m =>
    rcases hp with rfl | hp
    · cases h
    · cases m <;> simp [onSendFail] at hp
      subst hp; cases h
  | chkObj2 => simp only [Pushes] at hp; subst hp; exact h
  | subRemote => rcases hp with ⟨_, rfl⟩ | ⟨_, rfl⟩ <;> cases h
  | unsubRemote => obtain ⟨_, rfl⟩ := hp; cases h
  | handleReply => obtain ⟨_, _, _, _, rfl⟩ := hp; cases h
  | objRemoved => obtain ⟨_, rfl⟩ := hp; cases h
  | notify => rcases hp with ⟨_, _, rfl⟩ | ⟨_, rfl⟩ <;> cases h
  | reqChk1 => rcases hp with rfl | rfl | rfl <;> cases h
  | reqChk2 => rcases hp with rfl | rfl | rfl <;> cases h
  | closeConn => obtain ⟨_, rfl⟩ := hp; cases h
  | _ => simp only [Pushes] at hp

theorem lkInv_micro {s s' : State} {th : Th} {ch ch2 : Nat} {op : MOp} {rest : List MOp} {o : Out}
    (h : LkInv s) (hprog : s.prog th = op :: rest) (hs : microStep s th ch ch2 op rest = some (s', o)) : LkInv s' := by
  have hf := microStep_frame hs
  intro th' op' k hm hk
  by_cases e : th' = th
  · subst e
    rcases microStep_prog hs with ⟨pushed, hp, hpu⟩ | ⟨⟨e, t, hp⟩, -⟩ | ⟨hp, -⟩
    · rw [hp] at hm
      rcases List.mem_append.1 hm with h1 | h1
      · exact h th' op k (by rw [hprog]; exact List.mem_cons_self) (pushes_locKey (hpu _ h1) hk)
      · exact h th' op' k (by rw [hprog]; exact List.mem_cons_of_mem _ h1) hk
    · rw [hp] at hm; simp only [List.mem_singleton] at hm; subst hm; cases hk
    · rw [hp] at hm; simp at hm
  · rw [hf.prog_other _ e] at hm; exact h th' op' k hm hk

theorem lk_beginProg (c : Ctx) (t : Tid) (n : Nat) (o : Op) : ∀ op ∈ beginProg c t n o, ∀ k, op.locKey = some k → k.pc = .name c := by
  cases o <;> simp only [beginProg] <;> (try split) <;> simp [MOp.locKey]
  all_goals (try (rename_i e; subst e))
  all_goals (try rfl)

theorem lkInv_nstep {s s' : State} (h : LkInv s) (hs : NStep s s') : LkInv s' := by
  have key : ∀ (th0 : Th) (pr : List MOp), (∀ op ∈ pr, ∀ k, op.locKey = some k → k.pc = .name th0.ctx) →
      ∀ th op k, op ∈ (if th = th0 then pr else s.prog th) → op.locKey = some k → k.pc = .name th.ctx := by
    intro th0 pr hpr th op k hm hk
    split at hm
    · rename_i e; subst e; exact hpr op hm k hk
    · exact h th op k hm hk
  have hdis : ∀ src m, ∀ op ∈ dispatch src m, ∀ k, op.locKey = some k → False := by
    intro src m op hm k hk
    cases m with
    | subReq id ob sg b => cases b <;> simp [dispatch] at hm <;> (try (rcases hm with rfl | rfl)) <;> (try subst hm) <;> cases hk
    | _ => simp [dispatch] at hm; subst hm; cases hk
  cases hs
  case beginPub c t ob sg _ _ =>
    intro th op k hm hk; simp only [setProg_prog] at hm
    exact key (.user c t) _ (lk_beginProg c t _ _) th op k hm hk
  case beginOther c t op _ _ _ =>
    intro th op' k hm hk; simp only [setProg_prog] at hm
    exact key (.user c t) _ (lk_beginProg c t _ _) th op' k hm hk
  case cbUnknown c d m q _ _ _ _ =>
    intro th op k hm hk; simp only [setProg_prog, setCtx_prog] at hm
    refine key (.sock c) _ ?_ th op k hm hk
    intro op' ho k' hk'; cases m <;> simp [onSendFail] at ho; subst ho; cases hk'
  case cbSent c d m q cn _ _ _ _ =>
    intro th op k hm hk; simp only [setProg_prog] at hm
    exact key (.sock c) [] (by simp) th op k hm hk
  case cbFail c d m q cn _ _ _ _ _ =>
    intro th op k hm hk; simp only [setProg_prog, setCtx_prog] at hm
    refine key (.sock c) _ ?_ th op k hm hk
    intro op' ho k' hk'; cases m <;> simp [onSendFail] at ho; subst ho; cases hk'
  case cbDiscNone c n t q _ _ _ _ =>
    intro th op k hm hk; simp only [setProg_prog, setCtx_prog] at hm
    exact key (.sock c) _ (by simp [MOp.locKey]) th op k hm hk
  case cbDisc c n t q cn _ _ _ _ =>
    intro th op k hm hk; simp only [setProg_prog, setCtx_prog] at hm
    exact key (.sock c) _ (by simp [MOp.locKey]) th op k hm hk
  case arrive cn cli m ms _ _ _ _ _ =>
    intro th op k hm hk; simp only [setProg_prog] at hm
    exact key _ _ (fun op' ho k' hk' => (hdis _ _ op' ho k' hk').elim) th op k hm hk
  case eof cn cli _ _ _ _ _ _ =>
    intro th op k hm hk; simp only [setProg_prog] at hm
    exact key _ _ (by simp [MOp.locKey]) th op k hm hk
  case connect => exact h
  case routerOk => exact h
  case stopReq => exact h
  case stop => exact h

theorem lkInv_reach {s : State} (h : Reach s) : LkInv s := by
  induction h with
  | init => intro th op k h; simp [State.init] at h
  | step hr hs ih =>
    rename_i s0 s1 a o
    by_cases ha : ∃ th ch ch2, a = .micro th ch ch2
    · obtain ⟨th, ch, ch2, rfl⟩ := ha
      obtain ⟨-, op, rest, hp, hm⟩ := step_micro_inv hs
      exact lkInv_micro ih hp hm
    · exact lkInv_nstep ih (step_nonmicro_cases (fun th ch ch2 e => ha ⟨th, ch, ch2, e⟩) hs)


/-! ### positive replies about to be handled -/

def HrInv (s : State) : Prop :=
  ∀ th id, MOp.handleReply id true ∈ s.prog th →
    ∃ pid po, (s.ctx th.ctx).byId id = some pid ∧ (s.ctx th.ctx).pobj pid = some po ∧ (s.ctx th.ctx).peers po.key.pc ≠ none

theorem pushes_hrTrue {op : MOp} {id : ReqId} (hp : Pushes op (.handleReply id true)) : False := by
  cases op with
  | snapLocal => obtain ⟨_, _, e⟩ := hp; cases e
  | deliver => obtain ⟨_, e⟩ := hp; cases e
  | snapRemote => obtain ⟨_, e⟩ := hp; cases e
  | pubSend => rcases hp with ⟨_, e⟩ | ⟨_, e⟩ <;> cases e
  | sendChk d m =>
    rcases hp with e | hp
    · cases e
    · cases m <;> simp [onSendFail] at hp
  | chkObj2 => simp only [Pushes] at hp; cases hp
  | subRemote => rcases hp with ⟨_, e⟩ | ⟨_, e⟩ <;> cases e
  | unsubRemote => obtain ⟨_, e⟩ := hp; cases e
  | handleReply => obtain ⟨_, _, _, _, e⟩ := hp; cases e
  | objRemoved => obtain ⟨_, e⟩ := hp; cases e
  | notify => rcases hp with ⟨_, _, e⟩ | ⟨_, e⟩ <;> cases e
  | reqChk1 => rcases hp with e | e | e <;> cases e
  | reqChk2 => rcases hp with e | e | e <;> cases e
  | closeConn => obtain ⟨_, e⟩ := hp; cases e
  | _ => simp only [Pushes] at hp

/-- a positive reply about to be handled is the whole program of a socket thread -/
theorem hrTrue_whole {s : State} (hd : DspInv s) {th : Th} {id : ReqId} (h : MOp.handleReply id true ∈ s.prog th) :
    s.prog th = [.handleReply id true] ∧ ∃ c, th = .sock c := by
  cases th with
  | user c t => have := hd.user c t _ h; simp [MOp.isDsp] at this
  | sock c =>
    refine ⟨?_, c, rfl⟩
    rcases hd.sock c with hfree | hform
    · have := hfree _ h; simp [MOp.isDsp] at this
    · generalize hl : s.prog (.sock c) = l at hform h
      cases hform <;> simp at h
      subst h; rfl

theorem hrInv_micro {s s' : State} {th : Th} {ch ch2 : Nat} {op : MOp} {rest : List MOp} {o : Out}
    (h : HrInv s) (hpi : PendInv s) (htok : TokInv s) (hdsp : DspInv s) (htd : TdInv s)
    (hprog : s.prog th = op :: rest) (hs : microStep s th ch ch2 op rest = some (s', o)) : HrInv s' := by
  have hf := microStep_frame hs
  intro th' id hm
  by_cases e : th' = th
  · subst e
    exfalso
    rcases microStep_prog hs with ⟨pushed, hp, hpu⟩ | ⟨⟨e, t, hp⟩, -⟩ | ⟨hp, -⟩
    · rw [hp] at hm
      rcases List.mem_append.1 hm with h1 | h1
      · exact pushes_hrTrue (hpu _ h1)
      · have := (hrTrue_whole hdsp (th := th') (id := id) (by rw [hprog]; exact List.mem_cons_of_mem _ h1)).1
        rw [hprog] at this
        simp only [List.cons.injEq] at this
        rw [this.2] at h1; simp at h1
    · rw [hp] at hm; simp at hm
    · rw [hp] at hm; simp at hm
  · rw [hf.prog_other _ e] at hm
    obtain ⟨pid, po, h1, h2, h3⟩ := h th' id hm
    by_cases hc : th'.ctx = th.ctx
    · obtain ⟨-, c, rfl⟩ := hrTrue_whole hdsp hm
      -- the acting thread is a user thread of the same context
      cases th with
      | sock c' => simp only [Th.ctx] at hc; subst hc; exact absurd rfl e
      | user c' t =>
        simp only [Th.ctx] at hc; subst hc
        have hk : PKeep (s.ctx c) (s'.ctx c) id := by
          refine microStep_pkeep (th := .user c t) (hpi c) hs id (fun ok e2 => ?_)
          have h0 : id ∈ progIds (s.prog (.user c t)) := by rw [hprog, e2]; simp [progIds, MOp.carId]
          have h1' : id ∈ progIds (s.prog (.sock c)) := by
            simp only [progIds, List.mem_filterMap]; exact ⟨_, hm, rfl⟩
          exact htok.dj_prog (.user c t) (.sock c) id (by simp) rfl h0 h1'
        obtain ⟨g1, po', g2, g3, -⟩ := hk pid po h1 h2
        refine ⟨pid, po', g1, g2, ?_⟩
        have hpop : op.isPop = false := by
          have := htd.user c t op (by rw [hprog]; exact List.mem_cons_self)
          cases op <;> simp_all [MOp.isTd, MOp.isPop]
        simp only [Th.ctx]
        rw [(microStep_fields hs).peers hpop c, g3]; exact h3
    · rw [hf.ctx_other _ hc]; exact ⟨pid, po, h1, h2, h3⟩


theorem HrInv.of {s s' : State} (h : HrInv s)
    (htab : ∀ c, (s'.ctx c).byId = (s.ctx c).byId ∧ (s'.ctx c).pobj = (s.ctx c).pobj)
    (hpeers : ∀ c n, (s.ctx c).peers n ≠ none → (s'.ctx c).peers n ≠ none)
    (hprog : ∀ th id, MOp.handleReply id true ∈ s'.prog th → MOp.handleReply id true ∈ s.prog th ∨
      ∃ pid po, (s.ctx th.ctx).byId id = some pid ∧ (s.ctx th.ctx).pobj pid = some po ∧ (s.ctx th.ctx).peers po.key.pc ≠ none) :
    HrInv s' := by
  intro th id hm
  rw [(htab _).1, (htab _).2]
  rcases hprog th id hm with h1 | ⟨pid, po, h1, h2, h3⟩
  · obtain ⟨pid, po, h1, h2, h3⟩ := h th id h1
    exact ⟨pid, po, h1, h2, hpeers _ _ h3⟩
  · exact ⟨pid, po, h1, h2, hpeers _ _ h3⟩

theorem hr_dispatch {src : Peer} {m : Msg} {id : ReqId} (h : MOp.handleReply id true ∈ dispatch src m) : m = .subReply id true := by
  cases m with
  | subReq id' ob sg b => cases b <;> simp [dispatch] at h
  | subReply id' ok => simp [dispatch] at h; obtain ⟨rfl, rfl⟩ := h; rfl
  | _ => simp [dispatch] at h

theorem hrInv_nstep {s s' : State} (h : HrInv s) (hty : TypInv s) (hsrv : SrvInv s) (hct : CtInv s) (hreg : RegInv s)
    (hs : NStep s s') : HrInv s' := by
  have plain : ∀ (th0 : Th) (pr : List MOp), (∀ id, MOp.handleReply id true ∉ pr) →
      ∀ th id, MOp.handleReply id true ∈ (if th = th0 then pr else s.prog th) → MOp.handleReply id true ∈ s.prog th := by
    intro th0 pr hpr th id hm
    split at hm
    · exact absurd hm (hpr id)
    · exact hm
  have hbp : ∀ c t n o id, MOp.handleReply id true ∉ beginProg c t n o := by
    intro c t n o id; cases o <;> simp only [beginProg] <;> (try split) <;> simp
  have hsf : ∀ m id, MOp.handleReply id true ∉ onSendFail m := by
    intro m id; cases m <;> simp [onSendFail]
  cases hs
  case beginPub c t ob sg _ _ =>
    exact h.of (fun _ => ⟨rfl, rfl⟩) (fun _ _ h => h) (fun th id hm => Or.inl (plain (.user c t) _ (hbp _ _ _ _) th id (by simpa only [setProg_prog] using hm)))
  case beginOther c t op _ _ _ =>
    exact h.of (fun _ => ⟨rfl, rfl⟩) (fun _ _ h => h) (fun th id hm => Or.inl (plain (.user c t) _ (hbp _ _ _ _) th id (by simpa only [setProg_prog] using hm)))
  case cbUnknown c d m q _ _ _ _ =>
    refine h.of ?_ ?_ (fun th id hm => Or.inl (plain (.sock c) _ (hsf m) th id (by simpa only [setProg_prog, setCtx_prog] using hm)))
    · intro x; simp only [setProg_ctx, setCtx_ctx]; split <;> (try (rename_i e; subst e)) <;> exact ⟨rfl, rfl⟩
    · intro x n hn; simp only [setProg_ctx, setCtx_ctx]; split <;> (try (rename_i e; subst e)) <;> exact hn
  case cbSent c d m q cn _ _ _ _ =>
    refine h.of ?_ ?_ (fun th id hm => Or.inl (plain (.sock c) [] (by simp) th id (by simp only [setProg_prog] at hm; exact hm)))
    · intro x; simp only [setProg_ctx, setCtx_ctx]; split <;> (try (rename_i e; subst e)) <;> exact ⟨rfl, rfl⟩
    · intro x n hn; simp only [setProg_ctx, setCtx_ctx]; split <;> (try (rename_i e; subst e)) <;> exact hn
  case cbFail c d m q cn _ _ _ _ _ =>
    refine h.of ?_ ?_ (fun th id hm => Or.inl (plain (.sock c) _ (hsf m) th id (by simpa only [setProg_prog, setCtx_prog] using hm)))
    · intro x; simp only [setProg_ctx, setCtx_ctx]; split <;> (try (rename_i e; subst e)) <;> exact ⟨rfl, rfl⟩
    · intro x n hn; simp only [setProg_ctx, setCtx_ctx]; split <;> (try (rename_i e; subst e)) <;> exact hn
  case cbDiscNone c n t q _ _ _ _ =>
    refine h.of ?_ ?_ (fun th id hm => Or.inl (plain (.sock c) [.finish t false] (by simp) th id (by simpa only [setProg_prog, setCtx_prog] using hm)))
    · intro x; simp only [setProg_ctx, setCtx_ctx]; split <;> (try (rename_i e; subst e)) <;> exact ⟨rfl, rfl⟩
    · intro x n hn; simp only [setProg_ctx, setCtx_ctx]; split <;> (try (rename_i e; subst e)) <;> exact hn
  case cbDisc c n t q cn _ _ _ _ =>
    refine h.of ?_ ?_ (fun th id hm => Or.inl (plain (.sock c) [.popPeer n, .peerRemoved n, .closeConn cn n.isName, .finish t true] (by simp) th id (by simpa only [setProg_prog, setCtx_prog] using hm)))
    · intro x; simp only [setProg_ctx, setCtx_ctx]; split <;> (try (rename_i e; subst e)) <;> exact ⟨rfl, rfl⟩
    · intro x n hn; simp only [setProg_ctx, setCtx_ctx]; split <;> (try (rename_i e; subst e)) <;> exact hn
  case eof cn cli _ _ _ _ _ _ =>
    exact h.of (fun _ => ⟨rfl, rfl⟩) (fun _ _ h => h) (fun th id hm => Or.inl (plain (.sock ((s.conn cn).half cli).owner)
      [.popPeer (srcName s cn cli), .peerRemoved (srcName s cn cli), .closeConn cn cli] (by simp) th id (by simpa only [setProg_prog] using hm)))
  case routerOk th => exact h.of (fun _ => ⟨rfl, rfl⟩) (fun _ _ h => h) (fun _ _ hm => Or.inl hm)
  case stopReq c _ =>
    refine h.of ?_ ?_ (fun _ _ hm => Or.inl hm)
    · intro x; simp only [setCtx_ctx]; split <;> (try (rename_i e; subst e)) <;> exact ⟨rfl, rfl⟩
    · intro x n hn; simp only [setCtx_ctx]; split <;> (try (rename_i e; subst e)) <;> exact hn
  case stop c _ =>
    refine h.of ?_ ?_ (fun _ _ hm => Or.inl hm)
    · intro x; simp only [setCtx_ctx]; split <;> (try (rename_i e; subst e)) <;> exact ⟨rfl, rfl⟩
    · intro x n hn; simp only [setCtx_ctx]; split <;> (try (rename_i e; subst e)) <;> exact hn
  case connect a p hne _ _ _ =>
    show HrInv (connState s a p)
    refine h.of ?_ ?_ (fun _ _ hm => Or.inl hm)
    · intro x; simp only [connState, setCtx_ctx]
      split <;> (try (rename_i e; subst e)) <;> (try split) <;> (try (rename_i e; subst e)) <;> exact ⟨rfl, rfl⟩
    · intro x n hn; rw [connState_peers s hne]
      split
      · simp
      · split
        · simp
        · exact hn
  case arrive cn cli m ms hcn _ hidle hopen hin =>
    refine h.of (fun _ => ⟨rfl, rfl⟩) (fun _ _ h => h) ?_
    intro th id hm
    simp only [setProg_prog] at hm
    split at hm
    · rename_i e; subst e
      right
      have hm' := hr_dispatch hm
      subst hm'
      have hmem : Msg.subReply id true ∈ ((s.conn cn).half cli).inbox := by rw [hin]; exact List.mem_cons_self
      have hup := hty.inbox cn cli _ hmem
      have hcli : cli = true := by cases cli <;> simp [Msg.isUp] at hup ⊢
      subst hcli
      have hp : id ∈ ((s.conn cn).half true).pend := by
        refine srv_in_pend hsrv hopen ?_
        simp only [srvPipe, List.mem_append, List.mem_filterMap]
        exact Or.inl (Or.inl (Or.inl ⟨_, hmem, rfl⟩))
      obtain ⟨pid, po, h1, h2, h3⟩ := hct.pend cn id hp
      refine ⟨pid, po, h1, h2, ?_⟩
      rw [h3]
      rcases hreg.reg cn true hopen with hr | hr
      · simp only [srcName, if_true] at hr
        have hr' : (s.ctx ((s.conn cn).half true).owner).peers (.name (srvOf s cn)) = some cn := hr
        simp only [Th.ctx]
        rw [hr']; simp
      · rw [hidle] at hr; simp at hr
    · exact Or.inl hm

theorem hrInv_reach {s : State} (h : Reach s) : HrInv s := by
  induction h with
  | init => intro th id h; simp [State.init] at h
  | step hr hs ih =>
    rename_i s0 s1 a o
    by_cases ha : ∃ th ch ch2, a = .micro th ch ch2
    · obtain ⟨th, ch, ch2, rfl⟩ := ha
      obtain ⟨-, op, rest, hp, hm⟩ := step_micro_inv hs
      exact hrInv_micro ih (pendInv_reach hr) (tokInv_reach hr) (dspInv_reach hr) (tdInv_reach hr) hp hm
    · exact hrInv_nstep ih (typInv_reach hr) (srvInv_reach hr) (ctInv_reach hr) (regInv_reach hr)
        (step_nonmicro_cases (fun th ch ch2 e => ha ⟨th, ch, ch2, e⟩) hs)


/-! ### receivers for a peer's signal only while connected to the peer -/

def LsubInv (s : State) : Prop :=
  ∀ c p' ob sg, (s.ctx c).lsubs ⟨.name p', ob, sg⟩ ≠ [] → p' ≠ c →
    (s.ctx c).peers (.name p') ≠ none ∨ MOp.peerRemoved (.name p') ∈ s.prog (.sock c)

theorem handleReplyStep_lsubs_grow {cs cs' : CtxSt} {id : ReqId} {ok : Bool} {more : List MOp} {o : Out}
    (h : handleReplyStep cs id ok = some (cs', more, o)) (k : Key) (hk : cs'.lsubs k ≠ []) :
    cs.lsubs k ≠ [] ∨ (ok = true ∧ ∃ pid po, cs.byId id = some pid ∧ cs.pobj pid = some po ∧ po.key = k) := by
  unfold handleReplyStep at h
  split at h
  · simp only [Option.some.injEq, Prod.mk.injEq] at h; obtain ⟨rfl, -, -⟩ := h; exact Or.inl hk
  · split at h
    · simp only [Option.some.injEq, Prod.mk.injEq] at h; obtain ⟨rfl, -, -⟩ := h; exact Or.inl hk
    · rename_i pid hpid _ po hpo
      split at h
      · simp only [Option.some.injEq, Prod.mk.injEq] at h; obtain ⟨rfl, -, -⟩ := h
        simp only [upd] at hk
        split at hk
        · rename_i e
          split at hk
          · rename_i hok
            right
            refine ⟨by cases ok <;> simp_all, pid, po, hpid, hpo, e.symm⟩
          · left; rw [e]; exact hk
        · exact Or.inl hk
      · split at h
        · simp only [Option.some.injEq, Prod.mk.injEq] at h; obtain ⟨rfl, -, -⟩ := h; exact Or.inl hk
        · simp only [Option.some.injEq, Prod.mk.injEq] at h; obtain ⟨rfl, -, -⟩ := h; exact Or.inl hk

set_option maxHeartbeats 4000000 in
/-- a table entry of `_local_subscriptions` becomes non-empty only through `_subscribe_local` or a positive reply -/
theorem microStep_lsubs_grow {s s' : State} {th : Th} {ch ch2 : Nat} {op : MOp} {rest : List MOp} {o : Out}
    (hs : microStep s th ch ch2 op rest = some (s', o)) (k : Key) (hk : (s'.ctx th.ctx).lsubs k ≠ []) :
    (s.ctx th.ctx).lsubs k ≠ [] ∨ (∃ r, op = .addLocal k r) ∨
    (∃ id pid po, op = .handleReply id true ∧ (s.ctx th.ctx).byId id = some pid ∧ (s.ctx th.ctx).pobj pid = some po ∧ po.key = k) := by
  cases op <;> simp only [microStep] at hs
  all_goals (try (split at hs))
  all_goals (try (split at hs))
  all_goals (try (split at hs))
  all_goals (try (split at hs))
  all_goals (try (simp at hs))
  all_goals (try (have f2 := handleReplyStep_lsubs_grow ‹handleReplyStep _ _ _ = some _› k))
  all_goals (try (obtain ⟨rfl, -⟩ := hs))
  all_goals (simp only [setProg_ctx, setCtx_ctx, State.setProg, if_true, peerRemovedStep] at hk)
  all_goals (first
    | (exact Or.inl hk)
    | (rcases f2 hk with h1 | ⟨rfl, pid, po, h1, h2, h3⟩
       · exact Or.inl h1
       · exact Or.inr (Or.inr ⟨_, pid, po, rfl, h1, h2, h3⟩))
    | skip)
  all_goals (try (simp only [upd] at hk))
  all_goals (try (split at hk))
  all_goals (first
    | (exact Or.inl hk)
    | (exact absurd rfl hk)
    | (rename_i e; subst e; exact Or.inr (Or.inl ⟨_, rfl⟩))
    | (rename_i e; subst e; exact Or.inl ‹_›)
    | (rename_i e; subst e; left; intro e2; rw [e2] at hk; simp at hk; done)
    | skip)


theorem lsubInv_micro {s s' : State} {th : Th} {ch ch2 : Nat} {op : MOp} {rest : List MOp} {o : Out}
    (h : LsubInv s) (hlk : LkInv s) (hhr : HrInv s) (htd : TdInv s)
    (hprog : s.prog th = op :: rest) (hs : microStep s th ch ch2 op rest = some (s', o)) : LsubInv s' := by
  have hf := microStep_frame hs
  intro c p' ob sg hne hpc
  by_cases hc : c = th.ctx
  · subst hc
    rcases microStep_lsubs_grow hs ⟨.name p', ob, sg⟩ hne with h0 | ⟨r, rfl⟩ | ⟨id, pid, po, rfl, h1, h2, h3⟩
    · rcases h _ p' ob sg h0 hpc with hp | hp
      · by_cases hpop : op.isPop = true
        · cases op <;> simp only [MOp.isPop] at hpop <;> try contradiction
          rename_i n
          cases th with
          | user c t =>
            have := htd.user c t _ (by rw [hprog]; exact List.mem_cons_self)
            simp [MOp.isTd] at this
          | sock c =>
            have hsh := htd.sock c
            rw [hprog] at hsh
            generalize hl : MOp.popPeer n :: rest = l at hsh
            cases hsh with
            | free hfree => subst hl; have := hfree _ List.mem_cons_self; simp [MOp.isTd] at this
            | pop n' cn cli r hr =>
              simp only [List.cons.injEq, MOp.popPeer.injEq] at hl
              obtain ⟨rfl, rfl⟩ := hl
              simp only [microStep, Option.some.injEq, Prod.mk.injEq] at hs
              obtain ⟨rfl, -⟩ := hs
              simp only [setProg_ctx, setCtx_ctx, if_true, setProg_prog, Th.ctx]
              by_cases hn : Peer.name p' = n
              · subst hn; right; simp
              · left; simp only [upd, if_neg hn]; exact hp
            | rem n' cn cli r hr => simp at hl
            | close cn cli r hr => simp at hl
        · left; rw [(microStep_fields hs).peers (by simpa using hpop)]; exact hp
      · cases th with
        | user c t => right; simp only [Th.ctx] at hp ⊢; rw [hf.prog_other (.sock c) (by simp)]; exact hp
        | sock c =>
          simp only [Th.ctx] at hp hne ⊢
          have hsh := htd.sock c
          rw [hprog] at hsh hp
          generalize hl : op :: rest = l at hsh hp
          cases hsh with
          | free hfree => have := hfree _ hp; simp [MOp.isTd] at this
          | pop n' cn cli r hr =>
            simp only [List.cons.injEq] at hl
            obtain ⟨rfl, rfl⟩ := hl
            simp only [microStep, Option.some.injEq, Prod.mk.injEq] at hs
            obtain ⟨rfl, -⟩ := hs
            right
            simp only [List.mem_cons, reduceCtorEq, MOp.peerRemoved.injEq, false_or] at hp
            rcases hp with rfl | hp
            · simp
            · have := hr _ hp; simp [MOp.isTd] at this
          | rem n' cn cli r hr =>
            simp only [List.cons.injEq] at hl
            obtain ⟨rfl, rfl⟩ := hl
            simp only [List.mem_cons, reduceCtorEq, MOp.peerRemoved.injEq, false_or] at hp
            rcases hp with rfl | hp
            · simp only [microStep, Option.some.injEq, Prod.mk.injEq] at hs
              obtain ⟨rfl, -⟩ := hs
              simp [peerRemovedStep, Th.ctx] at hne
            · have := hr _ hp; simp [MOp.isTd] at this
          | close cn cli r hr =>
            simp only [List.mem_cons, reduceCtorEq, false_or] at hp
            have := hr _ hp; simp [MOp.isTd] at this
    · have := hlk th _ _ (by rw [hprog]; exact List.mem_cons_self) rfl
      simp only [Peer.name.injEq] at this
      exact absurd this hpc
    · obtain ⟨pid', po', g1, g2, g3⟩ := hhr th id (by rw [hprog]; exact List.mem_cons_self)
      rw [h1] at g1; cases g1; rw [h2] at g2; cases g2
      left
      rw [(microStep_fields hs).peers rfl]
      rw [h3] at g3; exact g3
  · rw [hf.ctx_other c hc] at hne ⊢
    have : Th.sock c ≠ th := by intro e; subst e; exact hc rfl
    rw [hf.prog_other _ this]
    exact h c p' ob sg hne hpc


theorem LsubInv.of {s s' : State} (h : LsubInv s)
    (hl : ∀ c, (s'.ctx c).lsubs = (s.ctx c).lsubs)
    (hpeers : ∀ c n, (s.ctx c).peers n ≠ none → (s'.ctx c).peers n ≠ none)
    (hprog : ∀ c n, MOp.peerRemoved n ∈ s.prog (.sock c) → MOp.peerRemoved n ∈ s'.prog (.sock c)) : LsubInv s' := by
  intro c p' ob sg hne hpc
  rw [hl] at hne
  exact (h c p' ob sg hne hpc).imp (hpeers c _) (hprog c _)

theorem lsubInv_nstep {s s' : State} (h : LsubInv s) (hs : NStep s s') : LsubInv s' := by
  have idle : ∀ (c0 : Ctx) (pr : List MOp), s.prog (.sock c0) = [] →
      ∀ c n, MOp.peerRemoved n ∈ s.prog (.sock c) → MOp.peerRemoved n ∈ (if Th.sock c = Th.sock c0 then pr else s.prog (.sock c)) := by
    intro c0 pr hi c n hm
    split
    · rename_i e; cases e; rw [hi] at hm; simp at hm
    · exact hm
  have hq : ∀ (c : Ctx) (q : List Cb) (x : Ctx), ((s.setCtx c { (s.ctx c) with loopQ := q }).ctx x).lsubs = (s.ctx x).lsubs ∧
      ∀ n, (s.ctx x).peers n ≠ none → ((s.setCtx c { (s.ctx c) with loopQ := q }).ctx x).peers n ≠ none := by
    intro c q x; simp only [setCtx_ctx]; split <;> (try (rename_i e; subst e)) <;> exact ⟨rfl, fun _ h => h⟩
  cases hs
  case beginPub c t ob sg _ _ =>
    refine h.of (fun _ => rfl) (fun _ _ h => h) (fun c' n hm => ?_)
    simp only [setProg_prog]; rw [if_neg (by simp)]; exact hm
  case beginOther c t op _ _ _ =>
    refine h.of (fun _ => rfl) (fun _ _ h => h) (fun c' n hm => ?_)
    simp only [setProg_prog]; rw [if_neg (by simp)]; exact hm
  case cbUnknown c d m q _ hi _ _ =>
    exact h.of (fun x => (hq c q x).1) (fun x => (hq c q x).2) (fun c' n hm => by simp only [setProg_prog, setCtx_prog]; exact idle c _ hi c' n hm)
  case cbSent c d m q cn _ hi _ _ =>
    exact h.of (fun x => (hq c q x).1) (fun x => (hq c q x).2) (fun c' n hm => by simp only [setProg_prog]; exact idle c _ hi c' n hm)
  case cbFail c d m q cn _ hi _ _ _ =>
    exact h.of (fun x => (hq c q x).1) (fun x => (hq c q x).2) (fun c' n hm => by simp only [setProg_prog, setCtx_prog]; exact idle c _ hi c' n hm)
  case cbDiscNone c n t q _ hi _ _ =>
    exact h.of (fun x => (hq c q x).1) (fun x => (hq c q x).2) (fun c' n hm => by simp only [setProg_prog, setCtx_prog]; exact idle c _ hi c' n hm)
  case cbDisc c n t q cn _ hi _ _ =>
    exact h.of (fun x => (hq c q x).1) (fun x => (hq c q x).2) (fun c' n hm => by simp only [setProg_prog, setCtx_prog]; exact idle c _ hi c' n hm)
  case arrive cn cli m ms _ _ hi _ _ =>
    exact h.of (fun _ => rfl) (fun _ _ h => h) (fun c' n hm => by simp only [setProg_prog]; exact idle _ _ hi c' n hm)
  case eof cn cli _ _ hi _ _ _ =>
    exact h.of (fun _ => rfl) (fun _ _ h => h) (fun c' n hm => by simp only [setProg_prog]; exact idle _ _ hi c' n hm)
  case connect a p hne _ _ _ =>
    show LsubInv (connState s a p)
    refine h.of ?_ ?_ (fun _ _ hm => hm)
    · intro x; simp only [connState, setCtx_ctx]
      split <;> (try (rename_i e; subst e)) <;> (try split) <;> (try (rename_i e; subst e)) <;> rfl
    · intro x n hn; rw [connState_peers s hne]
      split
      · simp
      · split
        · simp
        · exact hn
  case routerOk => exact h.of (fun _ => rfl) (fun _ _ h => h) (fun _ _ hm => hm)
  case stopReq c _ =>
    refine h.of ?_ ?_ (fun _ _ hm => hm)
    · intro x; simp only [setCtx_ctx]; split <;> (try (rename_i e; subst e)) <;> rfl
    · intro x n hn; simp only [setCtx_ctx]; split <;> (try (rename_i e; subst e)) <;> exact hn
  case stop c _ =>
    refine h.of ?_ ?_ (fun _ _ hm => hm)
    · intro x; simp only [setCtx_ctx]; split <;> (try (rename_i e; subst e)) <;> rfl
    · intro x n hn; simp only [setCtx_ctx]; split <;> (try (rename_i e; subst e)) <;> exact hn

theorem lsubInv_reach {s : State} (h : Reach s) : LsubInv s := by
  induction h with
  | init => intro c p' ob sg h; simp [State.init, CtxSt.init] at h
  | step hr hs ih =>
    rename_i s0 s1 a o
    by_cases ha : ∃ th ch ch2, a = .micro th ch ch2
    · obtain ⟨th, ch, ch2, rfl⟩ := ha
      obtain ⟨-, op, rest, hp, hm⟩ := step_micro_inv hs
      exact lsubInv_micro ih (lkInv_reach hr) (hrInv_reach hr) (tdInv_reach hr) hp hm
    · exact lsubInv_nstep ih (step_nonmicro_cases (fun th ch ch2 e => ha ⟨th, ch, ch2, e⟩) hs)

end QmiModel.PubSub
