import QmiModel.Lemmas.C09Step
/-!
# C09 — the lock discipline of the receiver is invariant under every action (`LInv_crun`)

`Frame` says how one action of thread `i` can change the lock and the other threads; `cstep_cases` splits an action of
the interpreter on `P0` into a statement (`Step0`) or an environment action (`Env0`).
-/
set_option linter.unusedSimpArgs false
namespace QmiModel.RecvConc
open QmiModel.RecvQueue

/-- how one step of thread `i` changes the lock and the other threads: the frame every invariant uses -/
structure Frame (s s' : St) (i : Nat) : Prop where
  lock  : s'.lock = s.lock ∨ ((s.lock = none ∨ s.lock = some i) ∧ (s'.lock = none ∨ s'.lock = some i))
  other : ∀ j, j ≠ i → s'.thr j = s.thr j ∨ s'.thr j = { (s.thr j) with notified := true }

theorem Step0_frame {s s' : St} {i : Nat} (hs : Step0 s i s') : Frame s s' i := by
  cases hs <;> constructor <;> first
    | (intro j hj; simp [upd_other _ _ _ _ hj, finish_thr_other _ _ _ _ hj]; done)
    | (simp_all [unlock]; done)
    | skip
  · intro j hj
    simp only [upd_other _ _ _ _ hj]
    split <;> simp


theorem TOk_notified {l : Option Nat} {j : Nat} {t : Thr} (h : TOk l j t) : TOk l j { t with notified := true } :=
  ⟨h.pc_ok, h.holder, h.wpc_get, h.parked_w⟩

theorem LInv_Step0 {s s' : St} {i : Nat} (h : LInv s) (hs : Step0 s i s') : LInv s' := by
  have hf := Step0_frame hs
  intro j
  by_cases hj : j = i
  · subst hj
    obtain ⟨a, b, c, d⟩ := h j
    cases hs <;> (constructor <;> (try simp only [upd_same, finish_thr_same, finish_lock]))
    all_goals (try (simp_all [unlock, inside, pcBound, isGet, isTask]; done))
    · cases hcc : (s.thr j).call <;> simp_all [pcBound]
    · intro w hw; cases hw; rename_i task _ _ _ _ _ _ _; cases task <;> simp_all [isGet, isTask]
    · intro w hw; cases hw; rename_i task _ _ _ _ _ _ _ _; cases task <;> simp_all [isGet, isTask]
  · rcases hf.other j hj with e | e <;> rw [e]
    · exact TOk_frame (h j) hj hf.lock
    · exact TOk_notified (TOk_frame (h j) hj hf.lock)

/-- the actions that are not statements of a thread: a call begins, a stop request, a timer runs out, a wake-up -/
inductive Env0 (s : St) (i : Nat) : St → Prop
  | same : Env0 s i s
  | call (c : Call) (hidle : (s.thr i).call = .idle) :
      Env0 s i { s with thr := upd s.thr i { (s.thr i) with call := c, pc := 0, wpc := none, parked := false, notified := false,
                                                            expired := false, ret := false, res := none, sawEmpty := false } }
  | stop : Env0 s i { s with thr := upd s.thr i { (s.thr i) with stop := true } }
  | expire (task : Bool) (hc : (s.thr i).call = .get task .pos) :
      Env0 s i { s with thr := upd s.thr i { (s.thr i) with expired := true } }
  | wake (hp : (s.thr i).parked = true) : Env0 s i { s with thr := upd s.thr i { (s.thr i) with notified := true } }

def Act.thread : Act → Nat
  | .call i _ => i
  | .step i => i
  | .stop i => i
  | .expire i => i
  | .wake i => i

theorem cstep_cases (s : St) (h : LInv s) (a : Act) :
    Step0 s a.thread (cstep P0 s a) ∨ Env0 s a.thread (cstep P0 s a) := by
  cases a with
  | step i => left; simp only [cstep, Act.thread, stepThr_P0 s h i]; exact next0_Step0 s h i
  | call i c =>
    right; simp only [cstep, Act.thread]
    cases hc : (s.thr i).call with
    | idle => simp only; exact .call c hc
    | _ => exact .same
  | stop i => right; exact .stop
  | expire i =>
    right; simp only [cstep, Act.thread]
    cases hc : (s.thr i).call with
    | get task tmo => cases tmo with
      | pos => have := Env0.expire (s := s) (i := i) task hc; simpa only [hc] using this
      | _ => exact .same
    | _ => exact .same
  | wake i =>
    right; simp only [cstep, Act.thread]
    split
    · exact .wake ‹_›
    · exact .same

theorem Env0_frame {s s' : St} {i : Nat} (hs : Env0 s i s') : Frame s s' i := by
  cases hs <;> constructor <;> first
    | (intro j hj; simp [upd_other _ _ _ _ hj]; done)
    | (simp; done)

theorem LInv_Env0 {s s' : St} {i : Nat} (h : LInv s) (hs : Env0 s i s') : LInv s' := by
  have hf := Env0_frame hs
  intro j
  by_cases hj : j = i
  · subst hj
    obtain ⟨a, b, c, d⟩ := h j
    cases hs <;> (constructor <;> (try simp only [upd_same]))
    all_goals (try (simp_all [unlock, inside, pcBound, isGet, isTask]; done))
    · rename_i c _; cases c <;> simp_all [inside]
  · rcases hf.other j hj with e | e <;> rw [e]
    · exact TOk_frame (h j) hj hf.lock
    · exact TOk_notified (TOk_frame (h j) hj hf.lock)

theorem LInv_cstep {s : St} (h : LInv s) (a : Act) : LInv (cstep P0 s a) := by
  rcases cstep_cases s h a with hs | hs
  · exact LInv_Step0 h hs
  · exact LInv_Env0 h hs

theorem LInv_crun (sched : List Act) : ∀ s, LInv s → LInv (crun P0 s sched) := by
  induction sched with
  | nil => intro s h; exact h
  | cons a rest ih => intro s h; exact ih _ (LInv_cstep h a)

end QmiModel.RecvConc
