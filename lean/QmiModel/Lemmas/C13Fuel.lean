import QmiModel.Lemmas.C13Loops
/-!
# C13 helper lemmas, part 7: the fuel of the loops is never what stops them

`.exc .exhausted` is produced in two places: when the oracle script is empty (the real call would
block for ever; the harness raises `ScriptExhausted` at exactly that point) and when the `Nat` fuel
of a loop reaches zero.  Here: with the fuel `fuelOf dev` the second never happens — whenever a
call ends in `exhausted`, the device script is empty.
-/
namespace QmiModel.Transport

theorem popDev_meas_data (dg : Bool) (size : Nat) (d : Script) (b : Bytes)
    (h : (popDev dg size d).2.1 = .data b) (hb : b ≠ []) : meas (popDev dg size d).2.2 < meas d := by
  cases d with
  | nil => simp [popDev] at h
  | cons x rest =>
    obtain ⟨e, r⟩ := x
    cases r with
    | timeout => simp [popDev] at h
    | eof => simp [popDev] at h
    | data bs =>
      simp only [popDev] at h ⊢
      split
      · simp [meas, devBytes]; omega
      · rename_i hgt
        simp only [hgt, if_false] at h
        split
        · simp [meas, devBytes]; omega
        · rename_i hdg
          simp only [hdg] at h
          have hs : 0 < size := by
            rcases Nat.eq_zero_or_pos size with h0 | h0
            · subst h0; simp at h; exact (hb h).elim
            · exact h0
          simp [meas, devBytes, List.length_drop]; omega

theorem popDev_meas_quiet (dg : Bool) (size : Nat) (d : Script)
    (h : (popDev dg size d).2.1 = .timeout ∨ (popDev dg size d).2.1 = .eof) :
    meas (popDev dg size d).2.2 < meas d := by
  cases d with
  | nil => simp [popDev] at h
  | cons x rest =>
    obtain ⟨e, r⟩ := x
    cases r with
    | timeout => simp [popDev, meas, devBytes]
    | eof => simp [popDev, meas, devBytes]
    | data bs =>
      simp only [popDev] at h
      split at h
      · simp at h
      · split at h <;> simp at h

theorem readFromSocket_progress (s : St) (size : Nat) :
    match (readFromSocket s size).2 with
    | .ok _ => meas (readFromSocket s size).1.dev < meas s.dev
    | .exhausted => (readFromSocket s size).1.dev = []
    | _ => True := by
  have h1 := popDev_meas_data (s.kind == .udp) size s.dev
  have h2 := popDev_exhausted (s.kind == .udp) size s.dev
  unfold readFromSocket sockRecv
  generalize popDev (s.kind == .udp) size s.dev = r at *
  obtain ⟨e, rx, d'⟩ := r
  cases rx with
  | data b =>
    by_cases hb : b.isEmpty = true
    · simp only [hb, if_true]
    · simp only [hb]
      exact h1 b rfl (by simpa using hb)
  | timeout => trivial
  | eof => trivial
  | oserr l => trivial
  | exhausted => exact (h2 rfl).2

theorem sockReadLoop_fuel (n : Nat) (timeout : Option Int) (tstart : Nat) :
    ∀ (fuel : Nat) (tremain : Option Int) (s : St), meas s.dev < fuel →
      (sockReadLoop n timeout tstart fuel tremain s).2 = .exc .exhausted →
      (sockReadLoop n timeout tstart fuel tremain s).1.dev = [] := by
  intro fuel
  induction fuel with
  | zero => intro tremain s hm; omega
  | succ fuel ih =>
    intro tremain s hm h
    simp only [sockReadLoop] at h ⊢
    split at h
    · simp [takeBuf] at h
    · rename_i hlt
      simp only [hlt, if_false]
      have hD := setTimeout_dev s tremain
      generalize setTimeout s tremain = st at *
      obtain ⟨s0, ok⟩ := st
      cases ok with
      | false => simp at h
      | true =>
        simp only at h hD ⊢
        have hP := readFromSocket_progress s0 (max (n - s.buf.length) s.minP)
        generalize readFromSocket s0 (max (n - s.buf.length) s.minP) = rr at *
        obtain ⟨s1, ro⟩ := rr
        cases ro with
        | timeout => simp at h
        | eof => simp at h
        | runtime => simp at h
        | exhausted => exact hP
        | ok b =>
          simp only at h hP ⊢
          have hm2 : meas ({ s1 with buf := s1.buf ++ b } : St).dev < fuel := by
            show meas s1.dev < fuel
            rw [hD] at hP; omega
          cases timeout with
          | none => exact ih _ _ hm2 h
          | some t =>
            simp only at h ⊢
            split
            · rename_i hneg; simp [hneg] at h
            · rename_i hneg
              simp only [hneg, if_false] at h
              exact ih _ _ hm2 h

theorem sockUntilLoop_fuel (term : Bytes) (timeout : Option Int) (tstart : Nat) :
    ∀ (fuel : Nat) (tremain : Option Int) (s : St), meas s.dev < fuel →
      (sockUntilLoop term timeout tstart fuel tremain s).2 = .exc .exhausted →
      (sockUntilLoop term timeout tstart fuel tremain s).1.dev = [] := by
  intro fuel
  induction fuel with
  | zero => intro tremain s hm; omega
  | succ fuel ih =>
    intro tremain s hm h
    simp only [sockUntilLoop] at h ⊢
    have hD := setTimeout_dev s tremain
    generalize setTimeout s tremain = st at *
    obtain ⟨s0, ok⟩ := st
    cases ok with
    | false => simp at h
    | true =>
      simp only at h hD ⊢
      have hP := readFromSocket_progress s0 s.maxP
      generalize readFromSocket s0 s.maxP = rr at *
      obtain ⟨s1, ro⟩ := rr
      cases ro with
      | timeout => simp at h
      | eof => simp at h
      | runtime => simp at h
      | exhausted => exact hP
      | ok b =>
        simp only at h hP ⊢
        have hm2 : meas ({ s1 with buf := s1.buf ++ b } : St).dev < fuel := by
          show meas s1.dev < fuel
          rw [hD] at hP; omega
        split
        · rename_i p hf
          simp [hf, takeMsg, takeBuf] at h
        · rename_i hf
          simp only [hf] at h
          cases timeout with
          | none => exact ih _ _ hm2 h
          | some t =>
            simp only at h ⊢
            split
            · rename_i hneg; simp [hneg] at h
            · rename_i hneg
              simp only [hneg, if_false] at h
              exact ih _ _ hm2 h

theorem sockDiscardLoop_fuel : ∀ (fuel : Nat) (s : St), meas s.dev < fuel →
    (sockDiscardLoop fuel s).2 = .exc .exhausted → (sockDiscardLoop fuel s).1.dev = [] := by
  intro fuel
  induction fuel with
  | zero => intro s hm; omega
  | succ fuel ih =>
    intro s hm h
    simp only [sockDiscardLoop] at h ⊢
    have h1 := popDev_meas_data (s.kind == .udp) s.maxP s.dev
    have h2 := popDev_exhausted (s.kind == .udp) s.maxP s.dev
    unfold sockRecv at h ⊢
    generalize popDev (s.kind == .udp) s.maxP s.dev = r at *
    obtain ⟨e, rx, d'⟩ := r
    cases rx with
    | timeout => simp at h
    | eof => simp at h
    | oserr l => simp at h
    | exhausted => exact (h2 rfl).2
    | data b =>
      simp only at h ⊢
      split
      · rename_i hb; simp [hb] at h
      · rename_i hb
        simp only [hb] at h
        have := h1 b rfl (by simpa using hb)
        exact ih _ (by show meas d' < fuel; simp only at this; omega) h

/-- `Serial.read(size)` with `size > 0` makes progress or reports the empty script -/
theorem serRead_progress (s : St) (size : Nat) (hs : 0 < size) :
    match (serRead s size).2 with
    | some _ => meas (serRead s size).1.dev < meas s.dev
    | none => (serRead s size).1.dev = [] := by
  have h0 := popDev_meas false size hs s.dev
  have h2 := popDev_exhausted false size s.dev
  unfold serRead
  rw [if_neg (by omega)]
  generalize popDev false size s.dev = r at *
  obtain ⟨e, rx, d'⟩ := r
  cases rx with
  | exhausted => exact (h2 rfl).2
  | data b => exact h0 (by simp)
  | timeout => exact h0 (by simp)
  | eof => exact h0 (by simp)
  | oserr l => exact h0 (by simp)

theorem serRead_buf (s : St) (size : Nat) : (serRead s size).1.buf = s.buf := (serRead_spec s size).2.1

theorem serReadLoop_fuel (n : Nat) (timeout : Option Int) (tstart : Nat) :
    ∀ (fuel : Nat) (s : St), meas s.dev < fuel → s.buf.length < n →
      (serReadLoop n timeout tstart fuel s).2 = true → (serReadLoop n timeout tstart fuel s).1.dev = [] := by
  intro fuel
  induction fuel with
  | zero => intro s hm; omega
  | succ fuel ih =>
    intro s hm hlt h
    simp only [serReadLoop] at h ⊢
    have hP := serRead_progress s (n - s.buf.length) (by omega)
    have hB := serRead_buf s (n - s.buf.length)
    generalize serRead s (n - s.buf.length) = rr at *
    obtain ⟨s1, ob⟩ := rr
    cases ob with
    | none => exact hP
    | some b =>
      simp only at h hP hB ⊢
      have hm2 : meas ({ s1 with buf := s1.buf ++ b } : St).dev < fuel := by
        show meas s1.dev < fuel; omega
      split at h
      · simp at h
      · rename_i hge
        have hlt2 : ({ s1 with buf := s1.buf ++ b } : St).buf.length < n := by
          show (s1.buf ++ b).length < n
          simp only [List.length_append] at hge ⊢; omega
        have hge' : ¬ n ≤ (s1.buf ++ b).length := by
          simp only [List.length_append] at hge ⊢; omega
        simp only [hge', if_false]
        cases timeout with
        | none => exact ih _ hm2 hlt2 h
        | some t =>
          simp only at h ⊢
          split at h
          · simp at h
          · rename_i hd
            simp only [hd, if_false]
            exact ih _ hm2 hlt2 h

theorem serUntilLoop_fuel (term : Bytes) (timeout : Option Int) (tstart : Nat) :
    ∀ (fuel : Nat) (tremain : Option Int) (s : St), meas s.dev < fuel →
      (serUntilLoop term timeout tstart fuel tremain s).2 = .exc .exhausted →
      (serUntilLoop term timeout tstart fuel tremain s).1.dev = [] := by
  intro fuel
  induction fuel with
  | zero => intro tremain s hm; omega
  | succ fuel ih =>
    intro tremain s hm h
    simp only [serUntilLoop] at h ⊢
    split
    · rename_i hg; simp [hg] at h
    · rename_i hg
      simp only [hg] at h
      have hP := serRead_progress s 1 (by omega)
      generalize serRead s 1 = rr at *
      obtain ⟨s1, ob⟩ := rr
      cases ob with
      | none => exact hP
      | some b =>
        simp only at h hP ⊢
        have hm2 : meas ({ s1 with buf := s1.buf ++ b } : St).dev < fuel := by
          show meas s1.dev < fuel; omega
        split
        · rename_i he; simp [he, takeAll] at h
        · rename_i he
          simp only [he] at h
          cases timeout with
          | none => exact ih _ _ hm2 h
          | some t => exact ih _ _ hm2 h

theorem meas_lt_fuelOf (d : Script) : meas d < fuelOf d := by
  simp only [meas, fuelOf]; omega

theorem exh_of_eq {r : St × Out} {s' : St} (h : r = (s', .exc .exhausted))
    (H : r.2 = .exc .exhausted → r.1.dev = []) : s'.dev = [] := by
  subst h; exact H rfl

theorem sockRead_exh {s s' : St} {n : Nat} {t : Option Int} (h : sockRead s n t = (s', .exc .exhausted)) :
    s'.dev = [] := by
  simp only [sockRead] at h
  split at h
  · simp at h
  · exact exh_of_eq h (sockReadLoop_fuel _ _ _ _ _ _ (meas_lt_fuelOf _))

theorem sockUntil_exh {s s' : St} {term : Bytes} {t : Option Int} (h : sockUntil s term t = (s', .exc .exhausted)) :
    s'.dev = [] := by
  simp only [sockUntil] at h
  split at h
  · simp [takeMsg, takeBuf] at h
  · split at h
    · simp at h
    · exact exh_of_eq h (sockUntilLoop_fuel _ _ _ _ _ _ (meas_lt_fuelOf _))

theorem sockRut_exh {s s' : St} {n : Nat} {t : Option Int} (h : sockRut s n t = (s', .exc .exhausted)) :
    s'.dev = [] := by
  simp only [sockRut] at h
  split at h
  · simp [takeBuf] at h
  · split at h <;> simp [takeAll] at h
  · exact sockRead_exh h

theorem sockDiscard_exh {s s' : St} (h : sockDiscard s = (s', .exc .exhausted)) : s'.dev = [] := by
  simp only [sockDiscard] at h
  split at h
  · simp at h
  · exact exh_of_eq h (sockDiscardLoop_fuel _ _ (meas_lt_fuelOf _))

theorem serReadFinish_not_exh (s s' : St) (n : Nat) : serReadFinish s n ≠ (s', .exc .exhausted) := by
  simp only [serReadFinish]
  repeat' split
  all_goals simp [takeAll]

theorem serialRead_exh {s s' : St} {n : Nat} {t : Option Int} (h : serialRead s n t = (s', .exc .exhausted)) :
    s'.dev = [] := by
  simp only [serialRead] at h
  split at h
  · simp at h
  · split at h
    · simp [takeBuf] at h
    · rename_i hlt
      split at h
      · generalize inWaiting s = iw at h
        obtain ⟨sa, avail⟩ := iw
        simp only at h
        split at h
        · have hP := serRead_progress sa (n - s.buf.length) (by omega)
          generalize serRead sa (n - s.buf.length) = rr at *
          obtain ⟨s2, ob⟩ := rr
          cases ob with
          | none =>
            simp only [Prod.mk.injEq, and_true] at h
            subst h; exact hP
          | some b => exact absurd h (serReadFinish_not_exh _ _ _)
        · exact absurd h (serReadFinish_not_exh _ _ _)
      · have hL := serReadLoop_fuel n t s.clock (fuelOf s.dev) s (meas_lt_fuelOf _) (by omega)
        generalize serReadLoop n t s.clock (fuelOf s.dev) s = lr at *
        obtain ⟨s1, ex⟩ := lr
        cases ex with
        | true =>
          simp only [Prod.mk.injEq, and_true] at h
          subst h; exact hL rfl
        | false => exact absurd h (serReadFinish_not_exh _ _ _)

theorem serialUntil_exh {s s' : St} {term : Bytes} {t : Option Int} (h : serialUntil s term t = (s', .exc .exhausted)) :
    s'.dev = [] := by
  rw [serialUntil_eq] at h
  split at h
  · simp at h
  · split at h
    · simp [takeMsg, takeBuf] at h
    · exact exh_of_eq h (serUntilLoop_fuel _ _ _ _ _ _ (meas_lt_fuelOf _))

theorem serialRut_exh {s s' : St} {n : Nat} {t : Option Int} (h : serialRut s n t = (s', .exc .exhausted)) :
    s'.dev = [] := by
  simp only [serialRut] at h
  split at h
  · simp [takeAll] at h
  · exact serialRead_exh h

end QmiModel.Transport
