import QmiModel.Model.Discovery
/-! Helper lemmas for C18: the state-set matcher `globMatch` against the declarative `Matches`. -/
namespace QmiModel.Discovery

theorem nullable_nil : nullable [] = true := rfl

theorem nullable_cons (a : Char) (p : List Char) : nullable (a :: p) = (a == '*' && nullable p) := by
  simp [nullable, List.all_cons]

/-- a pattern matches the empty name iff it consists of stars only -/
theorem matches_nil_iff (p : List Char) : Matches p [] ↔ nullable p = true := by
  constructor
  · intro h
    generalize hs : ([] : List Char) = s at h
    induction h with
    | nil => rfl
    | starSkip _ ih => rw [nullable_cons, ih hs]; rfl
    | starTake _ _ _ => cases hs
    | any _ _ _ => cases hs
    | cls _ _ _ _ _ => cases hs
    | openLit _ _ _ => cases hs
    | lit _ _ _ _ _ _ => cases hs
  · intro h
    induction p with
    | nil => exact .nil
    | cons a p ih =>
      rw [nullable_cons] at h
      simp only [Bool.and_eq_true, beq_iff_eq] at h
      obtain ⟨rfl, hp⟩ := h
      exact .starSkip (ih hp)

theorem deriv_star (p : List Char) (c : Char) : deriv ('*' :: p) c = ('*' :: p) :: deriv p c := by
  simp [deriv]

theorem deriv_any (p : List Char) (c : Char) : deriv ('?' :: p) c = [p] := by
  simp [deriv]

theorem deriv_open_some (p : List Char) (c : Char) {stuff rest : List Char}
    (h : splitBracket p = some (stuff, rest)) :
    deriv ('[' :: p) c = if classMem stuff c then [rest] else [] := by
  simp [deriv, h]

theorem deriv_open_none (p : List Char) (c : Char) (h : splitBracket p = none) :
    deriv ('[' :: p) c = if c = '[' then [p] else [] := by
  simp [deriv, h]

theorem deriv_lit (a : Char) (p : List Char) (c : Char) (h1 : a ≠ '*') (h2 : a ≠ '?') (h3 : a ≠ '[') :
    deriv (a :: p) c = if a = c then [p] else [] := by
  simp [deriv, h1, h2, h3]

/-- one character of the name is consumed by passing to a derivative of the pattern -/
theorem matches_cons_iff (p : List Char) (c : Char) (s : List Char) :
    Matches p (c :: s) ↔ ∃ q, q ∈ deriv p c ∧ Matches q s := by
  constructor
  · intro h
    generalize hs : c :: s = s' at h
    induction h with
    | nil => cases hs
    | @starSkip p _ _ ih =>
      obtain ⟨q, hq, hm⟩ := ih hs
      exact ⟨q, by rw [deriv_star]; exact List.mem_cons_of_mem _ hq, hm⟩
    | @starTake p s0 c0 h _ =>
      cases hs
      exact ⟨'*' :: p, by rw [deriv_star]; exact List.mem_cons_self, h⟩
    | @any p s0 c0 h _ =>
      cases hs
      exact ⟨p, by rw [deriv_any]; exact List.mem_cons_self, h⟩
    | @cls p s0 stuff rest c0 hsp hcm h _ =>
      cases hs
      exact ⟨rest, by rw [deriv_open_some p _ hsp, hcm]; simp, h⟩
    | @openLit p s0 hsp h _ =>
      cases hs
      exact ⟨p, by rw [deriv_open_none p _ hsp]; simp, h⟩
    | @lit p s0 a h1 h2 h3 h _ =>
      cases hs
      exact ⟨p, by rw [deriv_lit c p c h1 h2 h3]; simp, h⟩
  · induction p with
    | nil => rintro ⟨q, hq, _⟩; simp [deriv] at hq
    | cons a p ih =>
      rintro ⟨q, hq, hm⟩
      by_cases h1 : a = '*'
      · subst h1
        rw [deriv_star] at hq
        rcases List.mem_cons.1 hq with rfl | hq
        · exact .starTake c hm
        · exact .starSkip (ih ⟨q, hq, hm⟩)
      · by_cases h2 : a = '?'
        · subst h2
          rw [deriv_any] at hq
          simp only [List.mem_singleton] at hq
          subst hq
          exact .any c hm
        · by_cases h3 : a = '['
          · subst h3
            cases hsp : splitBracket p with
            | none =>
              rw [deriv_open_none p c hsp] at hq
              split at hq
              · rename_i hc
                subst hc
                simp only [List.mem_singleton] at hq
                subst hq
                exact .openLit hsp hm
              · simp at hq
            | some pr =>
              obtain ⟨stuff, rest⟩ := pr
              rw [deriv_open_some p c hsp] at hq
              split at hq
              · rename_i hc
                simp only [List.mem_singleton] at hq
                subst hq
                exact .cls c hsp hc hm
              · simp at hq
          · rw [deriv_lit a p c h1 h2 h3] at hq
            split at hq
            · rename_i hc
              subst hc
              simp only [List.mem_singleton] at hq
              subst hq
              exact .lit a h1 h2 h3 hm
            · simp at hq

theorem mem_addNew (q x : List Char) (acc : List (List Char)) : q ∈ addNew x acc ↔ q = x ∨ q ∈ acc := by
  unfold addNew
  split
  · rename_i h
    have hx : x ∈ acc := List.contains_iff_mem.1 h
    constructor
    · exact Or.inr
    · rintro (rfl | h) <;> assumption
  · exact List.mem_cons

theorem mem_foldr_addNew (q : List Char) (l acc : List (List Char)) :
    q ∈ l.foldr addNew acc ↔ q ∈ l ∨ q ∈ acc := by
  induction l with
  | nil => simp
  | cons x l ih =>
    rw [List.foldr_cons, mem_addNew, ih, List.mem_cons]
    constructor
    · rintro (h | h | h)
      · exact Or.inl (Or.inl h)
      · exact Or.inl (Or.inr h)
      · exact Or.inr h
    · rintro ((h | h) | h)
      · exact Or.inl h
      · exact Or.inr (Or.inl h)
      · exact Or.inr (Or.inr h)

theorem mem_stepSet (q : List Char) (ps : List (List Char)) (c : Char) :
    q ∈ stepSet ps c ↔ ∃ p, p ∈ ps ∧ q ∈ deriv p c := by
  unfold stepSet
  induction ps with
  | nil => simp
  | cons p ps ih =>
    rw [List.foldr_cons, mem_foldr_addNew, ih]
    constructor
    · rintro (h | ⟨p', hp', h⟩)
      · exact ⟨p, List.mem_cons_self, h⟩
      · exact ⟨p', List.mem_cons_of_mem _ hp', h⟩
    · rintro ⟨p', hp', h⟩
      rcases List.mem_cons.1 hp' with rfl | hp'
      · exact Or.inl h
      · exact Or.inr ⟨p', hp', h⟩

theorem matchSet_nil (ps : List (List Char)) : matchSet ps [] = ps.any nullable := rfl

theorem matchSet_cons (ps : List (List Char)) (c : Char) (s : List Char) :
    matchSet ps (c :: s) = matchSet (stepSet ps c) s := rfl

/-- the state-set simulation accepts iff one of the patterns in the set matches -/
theorem matchSet_iff (ps : List (List Char)) (s : List Char) :
    matchSet ps s = true ↔ ∃ p, p ∈ ps ∧ Matches p s := by
  induction s generalizing ps with
  | nil =>
    rw [matchSet_nil, List.any_eq_true]
    constructor
    · rintro ⟨p, hp, h⟩; exact ⟨p, hp, (matches_nil_iff p).2 h⟩
    · rintro ⟨p, hp, h⟩; exact ⟨p, hp, (matches_nil_iff p).1 h⟩
  | cons c s ih =>
    rw [matchSet_cons, ih]
    constructor
    · rintro ⟨q, hq, hm⟩
      obtain ⟨p, hp, hqp⟩ := (mem_stepSet q ps c).1 hq
      exact ⟨p, hp, (matches_cons_iff p c s).2 ⟨q, hqp, hm⟩⟩
    · rintro ⟨p, hp, hm⟩
      obtain ⟨q, hqp, hm'⟩ := (matches_cons_iff p c s).1 hm
      exact ⟨q, (mem_stepSet q ps c).2 ⟨p, hp, hqp⟩, hm'⟩

/-- the executable matcher is exactly the declarative semantics -/
theorem globMatch_iff (p s : List Char) : globMatch p s = true ↔ Matches p s := by
  unfold globMatch
  rw [matchSet_iff]
  constructor
  · rintro ⟨q, hq, hm⟩
    simp only [List.mem_singleton] at hq
    subst hq
    exact hm
  · intro h
    exact ⟨p, List.mem_singleton.2 rfl, h⟩

/-! ### bracket expressions without hyphen -/

theorem splitChunks_no_hyphen (skip : Nat) (cur s : List Char) (h : '-' ∉ s) :
    splitChunks skip cur s = [cur.reverse ++ s] := by
  induction s generalizing skip cur with
  | nil => simp [splitChunks]
  | cons c t ih =>
    have hc : c ≠ '-' := fun e => h (e ▸ List.mem_cons_self)
    have ht : '-' ∉ t := fun e => h (List.mem_cons_of_mem _ e)
    rw [splitChunks, if_neg (by simp [hc]), ih _ _ ht]
    simp

theorem setMem_lits (l : List Char) (x : Char) : setMem (l.map .lit) x = true ↔ x ∈ l := by
  induction l with
  | nil => simp [setMem]
  | cons a l ih =>
    cases l with
    | nil =>
      simp only [List.map_cons, List.map_nil, setMem, STok.val, beq_iff_eq, List.mem_singleton]
      exact eq_comm
    | cons b l =>
      simp only [List.map_cons] at ih ⊢
      rw [setMem, Bool.or_eq_true, ih]
      simp only [STok.val, beq_iff_eq, List.mem_cons]
      constructor
      · rintro (h | h)
        · exact Or.inl h.symm
        · exact Or.inr h
      · rintro (h | h)
        · exact Or.inl h.symm
        · exact Or.inr h

theorem bracketToks_no_hyphen (stuff : List Char) (h : '-' ∉ stuff) : bracketToks stuff = stuff.map .lit := by
  unfold bracketToks
  rw [splitChunks_no_hyphen _ _ _ h]
  simp [mergeChunks, joinChunks]

end QmiModel.Discovery
