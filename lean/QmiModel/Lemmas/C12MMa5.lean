import QmiModel.Lemmas.C12MM
namespace QmiModel.Context
/-- kernel-checked: first maker `task` (constructor raises: true) against every second maker under all 512 schedules -/
theorem mmTable_task_true : mmTable (mmMk .task true) = true := by decide +kernel
end QmiModel.Context
