import QmiModel.Lemmas.C13Contracts
import QmiModel.Lemmas.C13Discard
/-!
# C13 helper lemmas, part 6: stream transports (TCP, serial) never report a lost datagram
-/
namespace QmiModel.Transport

/-- the call did not end in `QMI_RuntimeException` -/
def NoRt (r : St × Out) : Prop := r.2 ≠ .exc .runtime

theorem readFromSocket_no_runtime {s : St} (hk : s.kind ≠ .udp) (size : Nat) :
    (readFromSocket s size).2 ≠ .runtime := by
  have hdg : (s.kind == Kind.udp) = false := by
    cases hs : s.kind <;> simp_all
  have hno := popDev_stream_no_oserr size s.dev
  unfold readFromSocket sockRecv
  rw [hdg]
  generalize popDev false size s.dev = r at *
  obtain ⟨e, rx, d'⟩ := r
  cases rx with
  | data b' => simp only; split <;> simp
  | timeout => simp
  | eof => simp
  | oserr l => exact absurd rfl (hno l)
  | exhausted => simp

theorem sockReadLoop_noRt (n : Nat) (timeout : Option Int) (tstart : Nat) :
    ∀ (fuel : Nat) (tremain : Option Int) (s : St), s.kind ≠ .udp →
      NoRt (sockReadLoop n timeout tstart fuel tremain s) := by
  intro fuel
  induction fuel with
  | zero =>
    intro tremain s _
    simp only [sockReadLoop, NoRt]
    split <;> simp [takeBuf]
  | succ fuel ih =>
    intro tremain s hk
    simp only [sockReadLoop]
    split
    · simp [NoRt, takeBuf]
    · have hE := setTimeout_ext s tremain
      generalize setTimeout s tremain = st at *
      obtain ⟨s0, ok⟩ := st
      cases ok with
      | false => simp [NoRt]
      | true =>
        simp only
        have hk0 : s0.kind ≠ .udp := by rw [hE.same.kind]; exact hk
        have hR := readFromSocket_spec s0 (max (n - s.buf.length) s.minP)
        have hN := readFromSocket_no_runtime hk0 (max (n - s.buf.length) s.minP)
        generalize readFromSocket s0 (max (n - s.buf.length) s.minP) = rr at *
        obtain ⟨s1, ro⟩ := rr
        obtain ⟨hS, _, _⟩ := hR
        cases ro with
        | timeout => simp [NoRt]
        | eof => simp [NoRt]
        | exhausted => simp [NoRt]
        | runtime => exact absurd rfl hN
        | ok b =>
          have hk2 : ({ s1 with buf := s1.buf ++ b } : St).kind ≠ .udp := by
            show s1.kind ≠ .udp
            rw [hS.kind]; exact hk0
          simp only
          cases timeout with
          | none => exact ih _ _ hk2
          | some t =>
            simp only
            split
            · simp [NoRt]
            · exact ih _ _ hk2

theorem sockUntilLoop_noRt (term : Bytes) (timeout : Option Int) (tstart : Nat) :
    ∀ (fuel : Nat) (tremain : Option Int) (s : St), s.kind ≠ .udp →
      NoRt (sockUntilLoop term timeout tstart fuel tremain s) := by
  intro fuel
  induction fuel with
  | zero => intro tremain s _; simp [sockUntilLoop, NoRt]
  | succ fuel ih =>
    intro tremain s hk
    simp only [sockUntilLoop]
    have hE := setTimeout_ext s tremain
    generalize setTimeout s tremain = st at *
    obtain ⟨s0, ok⟩ := st
    cases ok with
    | false => simp [NoRt]
    | true =>
      simp only
      have hk0 : s0.kind ≠ .udp := by rw [hE.same.kind]; exact hk
      have hR := readFromSocket_spec s0 s.maxP
      have hN := readFromSocket_no_runtime hk0 s.maxP
      generalize readFromSocket s0 s.maxP = rr at *
      obtain ⟨s1, ro⟩ := rr
      obtain ⟨hS, _, _⟩ := hR
      cases ro with
      | timeout => simp [NoRt]
      | eof => simp [NoRt]
      | exhausted => simp [NoRt]
      | runtime => exact absurd rfl hN
      | ok b =>
        have hk2 : ({ s1 with buf := s1.buf ++ b } : St).kind ≠ .udp := by
          show s1.kind ≠ .udp
          rw [hS.kind]; exact hk0
        simp only
        split
        · simp [NoRt, takeMsg, takeBuf]
        · cases timeout with
          | none => exact ih _ _ hk2
          | some t =>
            simp only
            split
            · simp [NoRt]
            · exact ih _ _ hk2

theorem sockRead_noRt (s : St) (n : Nat) (t : Option Int) (hk : s.kind ≠ .udp) : NoRt (sockRead s n t) := by
  simp only [sockRead]
  split
  · simp [NoRt]
  · exact sockReadLoop_noRt _ _ _ _ _ _ hk

theorem sockUntil_noRt (s : St) (term : Bytes) (t : Option Int) (hk : s.kind ≠ .udp) : NoRt (sockUntil s term t) := by
  simp only [sockUntil]
  split
  · simp [NoRt, takeMsg, takeBuf]
  · split
    · simp [NoRt]
    · exact sockUntilLoop_noRt _ _ _ _ _ _ hk

theorem sockRut_noRt (s : St) (n : Nat) (t : Option Int) (hk : s.kind ≠ .udp) : NoRt (sockRut s n t) := by
  have h := sockRead_noRt s n t hk
  simp only [sockRut]
  generalize sockRead s n t = r at *
  obtain ⟨s1, o⟩ := r
  cases o with
  | exc e =>
    cases e with
    | runtime => exact absurd rfl h
    | eof => simp only; split <;> simp [NoRt, takeAll]
    | _ => simp [NoRt, takeBuf]
  | _ => simp [NoRt]

theorem serReadFinish_noRt (s : St) (n : Nat) : NoRt (serReadFinish s n) := by
  simp only [serReadFinish, NoRt]
  repeat' split
  all_goals simp [takeAll]

theorem serialRead_noRt (s : St) (n : Nat) (t : Option Int) : NoRt (serialRead s n t) := by
  simp only [serialRead]
  repeat' split
  all_goals first
    | exact serReadFinish_noRt _ _
    | simp [NoRt, takeBuf]

theorem serUntilLoop_noRt (term : Bytes) (timeout : Option Int) (tstart : Nat) :
    ∀ (fuel : Nat) (tremain : Option Int) (s : St), NoRt (serUntilLoop term timeout tstart fuel tremain s) := by
  intro fuel
  induction fuel with
  | zero => intro tremain s; simp only [serUntilLoop]; split <;> simp [NoRt]
  | succ fuel ih =>
    intro tremain s
    simp only [serUntilLoop]
    repeat' split
    all_goals first
      | exact ih _ _
      | simp [NoRt, takeAll]

theorem serialUntil_noRt (s : St) (term : Bytes) (t : Option Int) : NoRt (serialUntil s term t) := by
  rw [serialUntil_eq]
  repeat' split
  all_goals first
    | exact serUntilLoop_noRt _ _ _ _ _ _
    | simp [NoRt, takeMsg, takeBuf]

theorem serialRut_noRt (s : St) (n : Nat) (t : Option Int) : NoRt (serialRut s n t) := by
  have h := serialRead_noRt s n t
  simp only [serialRut]
  generalize serialRead s n t = r at *
  obtain ⟨s1, o⟩ := r
  cases o with
  | exc e =>
    cases e with
    | runtime => exact absurd rfl h
    | _ => simp [NoRt, takeAll]
  | _ => simp [NoRt]

theorem sockDiscardLoop_noRt : ∀ (fuel : Nat) (s : St), NoRt (sockDiscardLoop fuel s) := by
  intro fuel
  induction fuel with
  | zero => intro s; simp [sockDiscardLoop, NoRt]
  | succ fuel ih =>
    intro s
    simp only [sockDiscardLoop]
    repeat' split
    all_goals first
      | exact ih _
      | simp [NoRt]

end QmiModel.Transport
