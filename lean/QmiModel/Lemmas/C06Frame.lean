import QmiModel.Model.Frame
/-! Helper lemmas for C06: unfolding of the fuelled frame loop, chunking, framing round trip. Core only. -/
namespace QmiModel.Frame

theorem consumeF_fuel (env : Env) : ∀ (n m : Nat) (s : PState) (buf : Bytes),
    buf.length < n → buf.length < m → consumeF env n s buf = consumeF env m s buf := by
  intro n
  induction n with
  | zero => intro m s buf h; omega
  | succ n ih =>
    intro m s buf hn hm
    cases m with
    | zero => omega
    | succ m =>
      cases buf with
      | nil => simp [consumeF]
      | cons b rest =>
        simp only [consumeF]
        split
        · rfl
        · split
          · rfl
          · split
            · rfl
            · split
              · rfl
              · rename_i h1 h2 h3 h4
                have hl : ((rest.drop 8).drop (leNat (rest.take 8))).length < n := by
                  simp only [List.length_drop, List.length_cons] at *; omega
                have hl' : ((rest.drop 8).drop (leNat (rest.take 8))).length < m := by
                  simp only [List.length_drop, List.length_cons] at *; omega
                rw [ih m _ _ hl hl']

theorem consume_nil (env : Env) (s : PState) : consume env s [] = ⟨s, [], [], none⟩ := by
  simp [consume, consumeF]

theorem consume_cons (env : Env) (s : PState) (b : UInt8) (rest : Bytes) :
    consume env s (b :: rest) =
      if b ≠ 0x50 then ⟨s, b :: rest, [], some .marker⟩
      else if rest.length < 8 then ⟨s, b :: rest, [], none⟩
      else if leNat (rest.take 8) > env.maxSize then ⟨s, b :: rest, [], some .oversize⟩
      else if (rest.drop 8).length < leNat (rest.take 8) then ⟨s, b :: rest, [], none⟩
      else
        match (processMessage env s ((rest.drop 8).take (leNat (rest.take 8)))).err with
        | some w => ⟨(processMessage env s ((rest.drop 8).take (leNat (rest.take 8)))).st,
                     (rest.drop 8).drop (leNat (rest.take 8)),
                     (processMessage env s ((rest.drop 8).take (leNat (rest.take 8)))).evs, some w⟩
        | none =>
          ⟨(consume env (processMessage env s ((rest.drop 8).take (leNat (rest.take 8)))).st
              ((rest.drop 8).drop (leNat (rest.take 8)))).st,
           (consume env (processMessage env s ((rest.drop 8).take (leNat (rest.take 8)))).st
              ((rest.drop 8).drop (leNat (rest.take 8)))).buf,
           (processMessage env s ((rest.drop 8).take (leNat (rest.take 8)))).evs ++
             (consume env (processMessage env s ((rest.drop 8).take (leNat (rest.take 8)))).st
               ((rest.drop 8).drop (leNat (rest.take 8)))).evs,
           (consume env (processMessage env s ((rest.drop 8).take (leNat (rest.take 8)))).st
              ((rest.drop 8).drop (leNat (rest.take 8)))).err⟩ := by
  have hdef : ∀ s' t, consume env s' t = consumeF env (t.length + 1) s' t := fun _ _ => rfl
  rw [hdef, List.length_cons, consumeF]
  split
  · rfl
  · split
    · rfl
    · split
      · rfl
      · split
        · rfl
        · have hl : ((rest.drop 8).drop (leNat (rest.take 8))).length < rest.length + 1 := by
            simp only [List.length_drop]; omega
          dsimp only
          rw [hdef, consumeF_fuel env _ _ _ _ hl (Nat.lt_succ_self _)]
          rfl

/-- continue a `consume` result with more bytes -/
def CRes.andThen (env : Env) (r : CRes) (y : Bytes) : CRes :=
  match r.err with
  | some w => ⟨r.st, r.buf ++ y, r.evs, some w⟩
  | none => ⟨(consume env r.st (r.buf ++ y)).st, (consume env r.st (r.buf ++ y)).buf,
             r.evs ++ (consume env r.st (r.buf ++ y)).evs, (consume env r.st (r.buf ++ y)).err⟩

theorem consume_append (env : Env) (s : PState) (x y : Bytes) :
    consume env s (x ++ y) = (consume env s x).andThen env y := by
  induction h : x.length using Nat.strongRecOn generalizing x s with
  | _ n ih =>
    match x with
    | [] =>
      simp only [List.nil_append, consume_nil, CRes.andThen, List.nil_append]
    | b :: rest =>
      simp only [List.cons_append, consume_cons]
      by_cases hb : b ≠ 0x50
      · simp [hb, CRes.andThen]
      · simp only [hb, ↓reduceIte]
        by_cases h8 : rest.length < 8
        · simp only [h8, ↓reduceIte, CRes.andThen, List.cons_append, consume_cons, hb, List.nil_append]
        · have h8' : ¬ (rest ++ y).length < 8 := by simp only [List.length_append]; omega
          have ht : (rest ++ y).take 8 = rest.take 8 := by
            rw [List.take_append_of_le_length (by omega)]
          simp only [h8, h8', ↓reduceIte, ht]
          by_cases hs : leNat (rest.take 8) > env.maxSize
          · simp [hs, CRes.andThen]
          · simp only [hs, ↓reduceIte]
            have hd : (rest ++ y).drop 8 = rest.drop 8 ++ y := by
              rw [List.drop_append_of_le_length (by omega)]
            rw [hd]
            by_cases hl : (rest.drop 8).length < leNat (rest.take 8)
            · simp only [hl, ↓reduceIte, CRes.andThen, List.cons_append, consume_cons, hb, h8', ht, hs, hd,
                List.nil_append]
            · have hl' : ¬ (rest.drop 8 ++ y).length < leNat (rest.take 8) := by
                simp only [List.length_append, List.length_drop] at hl ⊢; omega
              simp only [hl, hl', ↓reduceIte]
              have hp : (rest.drop 8 ++ y).take (leNat (rest.take 8)) = (rest.drop 8).take (leNat (rest.take 8)) := by
                rw [List.take_append_of_le_length (by omega)]
              have hq : (rest.drop 8 ++ y).drop (leNat (rest.take 8)) = (rest.drop 8).drop (leNat (rest.take 8)) ++ y := by
                rw [List.drop_append_of_le_length (by omega)]
              rw [hp, hq]
              have hlen : ((rest.drop 8).drop (leNat (rest.take 8))).length < n := by
                simp only [← h, List.length_drop, List.length_cons]; omega
              clear hp hq hl hl' hd
              generalize (rest.drop 8).take (leNat (rest.take 8)) = p at *
              generalize (rest.drop 8).drop (leNat (rest.take 8)) = tl at *
              cases hpe : (processMessage env s p).err with
              | some w => simp only [CRes.andThen]
              | none =>
                simp only
                rw [ih tl.length hlen (processMessage env s p).st tl rfl]
                cases hc : (consume env (processMessage env s p).st tl).err with
                | some w => simp only [CRes.andThen, hc]
                | none => simp only [CRes.andThen, hc, List.append_assoc]

/-! ### framing round trip -/

theorem length_leBytes (k n : Nat) : (leBytes k n).length = k := by
  induction k generalizing n with
  | zero => rfl
  | succ k ih => simp [leBytes, ih]

theorem leNat_leBytes (k n : Nat) (h : n < 256 ^ k) : leNat (leBytes k n) = n := by
  induction k generalizing n with
  | zero => simp at h; subst h; rfl
  | succ k ih =>
    have hk : n / 256 < 256 ^ k := by
      rw [Nat.pow_succ] at h
      exact Nat.div_lt_of_lt_mul (by rw [Nat.mul_comm]; exact h)
    have := ih (n / 256) hk
    simp only [leNat, leBytes, List.foldr_cons] at this ⊢
    rw [this]
    have : (UInt8.ofNat (n % 256)).toNat = n % 256 := by
      simp [UInt8.toNat_ofNat']
    rw [this]
    omega

theorem consume_frame (env : Env) (s : PState) (p rest : Bytes)
    (hmax : p.length ≤ env.maxSize) (h64 : p.length < 2 ^ 64) :
    consume env s (frame p ++ rest) =
      match (processMessage env s p).err with
      | some w => ⟨(processMessage env s p).st, rest, (processMessage env s p).evs, some w⟩
      | none => ⟨(consume env (processMessage env s p).st rest).st, (consume env (processMessage env s p).st rest).buf,
                 (processMessage env s p).evs ++ (consume env (processMessage env s p).st rest).evs,
                 (consume env (processMessage env s p).st rest).err⟩ := by
  have h8 : (leBytes 8 p.length).length = 8 := length_leBytes 8 _
  have hle : leNat (leBytes 8 p.length) = p.length := leNat_leBytes 8 _ (by simpa using h64)
  simp only [frame, List.cons_append, consume_cons]
  generalize leBytes 8 p.length = hdr at *
  have ht : ((hdr ++ p) ++ rest).take 8 = hdr := by
    rw [List.append_assoc, List.take_append_of_le_length (by omega), List.take_of_length_le (by omega)]
  have hd : ((hdr ++ p) ++ rest).drop 8 = p ++ rest := by
    rw [List.append_assoc, List.drop_append_of_le_length (by omega), List.drop_of_length_le (by omega),
      List.nil_append]
  have hl : ¬ ((hdr ++ p) ++ rest).length < 8 := by
    simp only [List.length_append, h8]; omega
  simp only [hl, ht, hd, hle, ↓reduceIte]
  have h1 : ¬ ((80 : UInt8) ≠ 80) := by decide
  have h2 : ¬ p.length > env.maxSize := by omega
  have h3 : ¬ (p ++ rest).length < p.length := by simp only [List.length_append]; omega
  have h4 : (p ++ rest).take p.length = p := by simp
  have h5 : (p ++ rest).drop p.length = rest := by simp
  simp only [h1, h2, h3, h4, h5, ↓reduceIte]
  all_goals (cases (processMessage env s p).err <;> rfl)

/-- closing does not look at the receive buffer -/
theorem shutdown_buf (env : Env) (st : PState) (b1 b2 : Bytes) :
    shutdown env { st, buf := b1, closed := false } = shutdown env { st, buf := b2, closed := false } := by
  simp only [shutdown, closeConn]

theorem shutdown_closed (env : Env) (c : Conn) : (shutdown env c).conn.closed = true := by
  rfl

theorem feed_append (env : Env) (c : Conn) (a b : Bytes) :
    feed env c (a ++ b) = ((feed env (feed env c a).1 b).1, (feed env c a).2 ++ (feed env (feed env c a).1 b).2) := by
  by_cases hc : c.closed = true
  · simp [feed, hc]
  · simp only [feed, hc, Bool.false_eq_true, ↓reduceIte]
    rw [← List.append_assoc, consume_append]
    generalize consume env c.st (c.buf ++ a) = r
    obtain ⟨rst, rbuf, revs, rerr⟩ := r
    cases rerr with
    | some w =>
      simp only [CRes.andThen, shutdown_closed, ↓reduceIte, List.append_nil]
      rw [shutdown_buf env rst (rbuf ++ b) rbuf]
    | none =>
      simp only [CRes.andThen, Bool.false_eq_true, ↓reduceIte]
      generalize consume env rst (rbuf ++ b) = r2
      obtain ⟨st2, buf2, evs2, err2⟩ := r2
      cases err2 with
      | some w => simp only [List.append_assoc]
      | none => simp only

/-- **all segmentations**: feeding the chunks one by one is feeding their concatenation -/
theorem feedAll_cons (env : Env) (c : Conn) (d : Bytes) (ds : List Bytes) :
    feedAll env c (d :: ds) = feed env c (d ++ ds.flatten) := by
  induction ds generalizing c d with
  | nil => simp [feedAll]
  | cons d2 rest ih =>
    rw [feedAll]
    simp only [ih, List.flatten_cons, feed_append env c d]

theorem feed_closed (env : Env) (c : Conn) (d : Bytes) (h : c.closed = true) : feed env c d = (c, []) := by
  simp [feed, h]

/-! ### runs of frames -/

/-- the message a call of `deliver_message` was made with (handler invoked or not) -/
def Ev.attempt : Ev → Option Msg
  | .deliver m _ => some m
  | .undeliverable m _ => some m
  | _ => none

/-- everything handed to `MessageRouter.deliver_message`, in order -/
def attempts (es : List Ev) : List Msg := es.filterMap Ev.attempt

/-- the messages for which a handler's `handle_message` was called, in order -/
def delivered (es : List Ev) : List Msg := es.filterMap (fun e => match e with | .deliver m _ => some m | _ => none)

/-- what the receiving side does to a message: the source context becomes the local alias of the peer -/
def rewriteSrc (alias : Name) (m : Msg) : Msg := { m with src := ⟨alias, m.src.obj⟩ }

/-- `_process_message` on a list of payloads, stopping at the first exception -/
def procAll (env : Env) (s : PState) : List Bytes → PRes
  | [] => ⟨s, [], none⟩
  | p :: ps =>
    match (processMessage env s p).err with
    | some w => ⟨(processMessage env s p).st, (processMessage env s p).evs, some w⟩
    | none => ⟨(procAll env (processMessage env s p).st ps).st,
               (processMessage env s p).evs ++ (procAll env (processMessage env s p).st ps).evs,
               (procAll env (processMessage env s p).st ps).err⟩

/-- the byte stream a sender produces for a list of payloads -/
def frames (ps : List Bytes) : Bytes := (ps.map frame).flatten

theorem frames_cons (p : Bytes) (ps : List Bytes) : frames (p :: ps) = frame p ++ frames ps := by
  simp [frames]

theorem consume_frames (env : Env) (hmax : env.maxSize < 2 ^ 64) (ps : List Bytes) :
    ∀ (s : PState) (rest : Bytes), (∀ p ∈ ps, p.length ≤ env.maxSize) → (procAll env s ps).err = none →
    consume env s (frames ps ++ rest) =
      ⟨(consume env (procAll env s ps).st rest).st, (consume env (procAll env s ps).st rest).buf,
       (procAll env s ps).evs ++ (consume env (procAll env s ps).st rest).evs,
       (consume env (procAll env s ps).st rest).err⟩ := by
  induction ps with
  | nil => intro s rest _ _; simp [frames, procAll]
  | cons p ps ih =>
    intro s rest hsz herr
    have hp : p.length ≤ env.maxSize := hsz p (List.mem_cons_self)
    rw [frames_cons, List.append_assoc, consume_frame env s p _ hp (by omega)]
    simp only [procAll] at herr ⊢
    cases he : (processMessage env s p).err with
    | some w => simp [he] at herr
    | none =>
      simp only [he] at herr ⊢
      rw [ih _ rest (fun q hq => hsz q (List.mem_cons_of_mem _ hq)) herr]
      simp only [List.append_assoc]

/-! ### `_process_message`, case by case -/

theorem processMessage_err_no_events (env : Env) (s : PState) (p : Bytes) (w : Why)
    (h : (processMessage env s p).err = some w) : (processMessage env s p).evs = [] := by
  unfold processMessage at h ⊢
  cases hd : env.decode p with
  | undecodable => rfl
  | notMessage => rfl
  | handshake name ver server =>
    simp only [hd] at h ⊢
    cases hp : s.peer with
    | none =>
      cases name with
      | none => rfl
      | some pn' =>
        simp only []
        split
        · rfl
        · split <;> rfl
    | some pn => rfl
  | msg m =>
    simp only [hd] at h ⊢
    cases hp : s.peer with
    | none => rfl
    | some pn =>
      simp only [hp] at h
      by_cases h1 : m.dst.ctx ≠ env.ctxName
      · simp [h1]
      · by_cases h2 : m.src.ctx ≠ pn
        · simp [h1, h2]
        · simp only [h1, h2, ↓reduceIte] at h
          split at h <;> simp at h

theorem attempts_errBack (fits : Bool) (pn : Name) (m : Msg) (b : Body) : attempts (errBack fits pn m b) = [] := by
  unfold errBack; split <;> rfl

/-- a well-addressed message from the peer: handed to `deliver_message` exactly once, source rewritten to
    the alias, no exception, peer identity untouched -/
theorem processMessage_valid (env : Env) (s : PState) (p : Bytes) (m : Msg) (pn : Name)
    (hp : s.peer = some pn) (hd : env.decode p = .msg m)
    (hdst : m.dst.ctx = env.ctxName) (hsrc : m.src.ctx = pn) :
    (processMessage env s p).err = none ∧ (processMessage env s p).st.peer = some pn ∧
    (processMessage env s p).st.alias = s.alias ∧ (processMessage env s p).st.incoming = s.incoming ∧
    attempts (processMessage env s p).evs = [rewriteSrc s.alias m] := by
  unfold processMessage
  simp only [hd, hp, hdst, hsrc, ne_eq, not_true_eq_false, ↓reduceIte]
  have hat : ∀ f b, (errBack f pn (rewriteSrc s.alias m) b).filterMap Ev.attempt = [] := fun f b => attempts_errBack f _ _ _
  split <;> refine ⟨rfl, by dsimp only; split <;> first | rfl | exact hp, by dsimp only; split <;> rfl, by dsimp only; split <;> rfl, ?_⟩ <;>
    simp only [attempts, List.filterMap_cons, Ev.attempt, List.filterMap_nil] <;>
    first | rfl | (rw [show ({ m with src := ⟨s.alias, m.src.obj⟩ } : Msg) = rewriteSrc s.alias m from rfl, hat])


/-- the peer's first message is a handshake of the right direction that names the peer: identity learned,
    nothing delivered -/
theorem processMessage_handshake (env : Env) (s : PState) (p : Bytes) (pn : Name) (ver : Nat) (server : Bool)
    (hp : s.peer = none) (hd : env.decode p = .handshake (some pn) ver server) (hdir : server = !s.incoming) :
    processMessage env s p = ⟨{ s with peer := some pn, ver := some ver }, [], none⟩ := by
  unfold processMessage
  simp only [hd, hp, hdir]
  cases s.incoming <;> rfl

/-- a handshake accepted without exception always leaves the peer name set -/
theorem processMessage_handshake_sets_peer (env : Env) (s : PState) (p : Bytes) (name : Option Name) (ver : Nat)
    (server : Bool) (hp : s.peer = none) (hd : env.decode p = .handshake name ver server)
    (hok : (processMessage env s p).err = none) : ∃ pn, (processMessage env s p).st.peer = some pn := by
  unfold processMessage at hok ⊢
  simp only [hd, hp] at hok ⊢
  cases name with
  | none => simp at hok
  | some pn =>
    refine ⟨pn, ?_⟩
    simp only []
    split
    · rfl
    · split <;> rfl

/-- once the peer is known it stays known, whatever arrives -/
theorem processMessage_peer_some (env : Env) (s : PState) (p : Bytes) (pn : Name) (hp : s.peer = some pn) :
    (processMessage env s p).st.peer = some pn := by
  unfold processMessage
  cases env.decode p with
  | undecodable => exact hp
  | notMessage => exact hp
  | handshake name ver server => simp only [hp]
  | msg m =>
    simp only [hp]
    split
    · exact hp
    · split
      · exact hp
      · split <;> (dsimp only; split <;> first | rfl | exact hp)

theorem procAll_peer_some (env : Env) (ps : List Bytes) : ∀ (s : PState) (pn : Name), s.peer = some pn →
    (procAll env s ps).st.peer = some pn := by
  induction ps with
  | nil => intro s pn hp; exact hp
  | cons p ps ih =>
    intro s pn hp
    simp only [procAll]
    have h := processMessage_peer_some env s p pn hp
    cases (processMessage env s p).err with
    | some w => exact h
    | none => exact ih _ pn h

/-- a run of well-addressed messages after the handshake: no exception, one `deliver_message` per message,
    in order, each the decoded payload with only the source context rewritten -/
theorem procAll_valid (env : Env) (pn : Name) (ps : List Bytes) :
    ∀ (s : PState) (ms : List Msg), s.peer = some pn → ps.map env.decode = ms.map Decoded.msg →
      (∀ m ∈ ms, m.dst.ctx = env.ctxName ∧ m.src.ctx = pn) →
      (procAll env s ps).err = none ∧ (procAll env s ps).st.peer = some pn ∧
      (procAll env s ps).st.alias = s.alias ∧ (procAll env s ps).st.incoming = s.incoming ∧
      attempts (procAll env s ps).evs = ms.map (rewriteSrc s.alias) := by
  induction ps with
  | nil =>
    intro s ms hp hdec _
    cases ms with
    | nil => exact ⟨rfl, hp, rfl, rfl, rfl⟩
    | cons m ms => simp at hdec
  | cons p ps ih =>
    intro s ms hp hdec hv
    cases ms with
    | nil => simp at hdec
    | cons m ms =>
      simp only [List.map_cons, List.cons.injEq] at hdec
      obtain ⟨h1, h2, h3, h4, h5⟩ := processMessage_valid env s p m pn hp hdec.1
        (hv m List.mem_cons_self).1 (hv m List.mem_cons_self).2
      obtain ⟨i1, i2, i3, i4, i5⟩ := ih (processMessage env s p).st ms h2 hdec.2
        (fun x hx => hv x (List.mem_cons_of_mem _ hx))
      simp only [procAll, h1]
      refine ⟨i1, i2, i3.trans h3, i4.trans h4, ?_⟩
      simp only [attempts, List.filterMap_append, List.map_cons] at h5 i5 ⊢
      rw [h5, i5, h3]
      rfl

theorem procAll_append (env : Env) (s : PState) (ps qs : List Bytes) (h : (procAll env s ps).err = none) :
    procAll env s (ps ++ qs) =
      ⟨(procAll env (procAll env s ps).st qs).st, (procAll env s ps).evs ++ (procAll env (procAll env s ps).st qs).evs,
       (procAll env (procAll env s ps).st qs).err⟩ := by
  induction ps generalizing s with
  | nil => simp [procAll]
  | cons p ps ih =>
    simp only [procAll, List.cons_append] at h ⊢
    cases he : (processMessage env s p).err with
    | some w => simp [he] at h
    | none =>
      simp only [he] at h ⊢
      rw [ih _ h]
      simp only [List.append_assoc]

/-! ### each kind of protocol violation makes `_process_message` raise, before anything is delivered -/

theorem processMessage_undecodable (env : Env) (s : PState) (p : Bytes) (hd : env.decode p = .undecodable) :
    processMessage env s p = ⟨s, [], some .undecodable⟩ := by
  unfold processMessage; simp only [hd]

theorem processMessage_notMessage (env : Env) (s : PState) (p : Bytes) (hd : env.decode p = .notMessage) :
    processMessage env s p = ⟨s, [], some .notMessage⟩ := by
  unfold processMessage; simp only [hd]

theorem processMessage_second_handshake (env : Env) (s : PState) (p : Bytes) (pn : Name) (name : Option Name)
    (ver : Nat) (server : Bool) (hp : s.peer = some pn) (hd : env.decode p = .handshake name ver server) :
    processMessage env s p = ⟨s, [], some .secondHandshake⟩ := by
  unfold processMessage; simp only [hd, hp]

theorem processMessage_missing_handshake (env : Env) (s : PState) (p : Bytes) (m : Msg)
    (hp : s.peer = none) (hd : env.decode p = .msg m) :
    processMessage env s p = ⟨s, [], some .expectedHandshake⟩ := by
  unfold processMessage; simp only [hd, hp]

theorem processMessage_wrong_direction (env : Env) (s : PState) (p : Bytes) (pn : Name) (ver : Nat)
    (server : Bool) (hp : s.peer = none) (hd : env.decode p = .handshake (some pn) ver server)
    (hdir : server = s.incoming) :
    (processMessage env s p).evs = [] ∧
    (processMessage env s p).err = some (if s.incoming then .serverHsFromClient else .clientHsAsClient) := by
  unfold processMessage
  simp only [hd, hp, hdir]
  cases s.incoming <;> exact ⟨rfl, rfl⟩

theorem processMessage_nameless_handshake (env : Env) (s : PState) (p : Bytes) (ver : Nat) (server : Bool)
    (hp : s.peer = none) (hd : env.decode p = .handshake none ver server) :
    processMessage env s p = ⟨s, [], some .badHandshakeName⟩ := by
  unfold processMessage; simp only [hd, hp]

theorem processMessage_foreign_destination (env : Env) (s : PState) (p : Bytes) (m : Msg) (pn : Name)
    (hp : s.peer = some pn) (hd : env.decode p = .msg m) (hdst : m.dst.ctx ≠ env.ctxName) :
    processMessage env s p = ⟨s, [], some .badDestination⟩ := by
  unfold processMessage; simp only [hd, hp, hdst, ne_eq, not_false_eq_true, ↓reduceIte]

theorem processMessage_foreign_source (env : Env) (s : PState) (p : Bytes) (m : Msg) (pn : Name)
    (hp : s.peer = some pn) (hd : env.decode p = .msg m) (hdst : m.dst.ctx = env.ctxName) (hsrc : m.src.ctx ≠ pn) :
    processMessage env s p = ⟨s, [], some .badSource⟩ := by
  unfold processMessage
  simp only [hd, hp, hdst, hsrc, ne_eq, not_true_eq_false, not_false_eq_true, ↓reduceIte]

/-! ### closing -/

theorem clearPending_eq_map (env : Env) (peer : Option Name) (l : List (Nat × Addr × Addr)) :
    clearPending env peer l = l.map (clearEv env peer) := by
  induction l with
  | nil => rfl
  | cons e rest ih => simp only [clearPending, ih, List.map_cons]

theorem closeConn_eq (env : Env) (c : Conn) :
    closeConn env c = ⟨{ st := { c.st with pending := [] }, buf := [], closed := true },
                       c.st.pending.map (clearEv env c.st.peer)⟩ := by
  simp only [closeConn, clearPending_eq_map]

/-! ### the peer map and the connection table -/

theorem lookup_setConn_ne (i j : Nat) (c : Conn) (l : List (Nat × Conn)) (h : j ≠ i) :
    (setConn i c l).lookup j = l.lookup j := by
  have hji : (j == i) = false := by simp [h]
  induction l with
  | nil => simp only [setConn, List.lookup, hji]
  | cons e rest ih =>
    obtain ⟨k, v⟩ := e
    simp only [setConn]
    split
    · rename_i hk
      have hk' : k = i := hk
      subst hk'
      simp only [List.lookup, hji]
    · simp only [List.lookup, ih]

theorem lookup_setConn_eq (i : Nat) (c : Conn) (l : List (Nat × Conn)) :
    (setConn i c l).lookup i = some c := by
  induction l with
  | nil => simp [setConn]
  | cons e rest ih =>
    obtain ⟨k, v⟩ := e
    simp only [setConn]
    split
    · simp [List.lookup]
    · rename_i hk
      have hk' : ¬ k = i := hk
      have : (i == k) = false := by simp; exact fun h => hk' h.symm
      simp only [List.lookup, this, ih]

theorem lookup_erasePeer_ne (a b : Name) (l : List (Name × Nat)) (h : b ≠ a) :
    (erasePeer a l).lookup b = l.lookup b := by
  induction l with
  | nil => rfl
  | cons e rest ih =>
    obtain ⟨k, v⟩ := e
    simp only [erasePeer]
    split
    · rename_i hk
      have hk' : k = a := hk
      subst hk'
      have : (b == k) = false := by simp [h]
      simp only [List.lookup, this, ih]
    · simp only [List.lookup, ih]

theorem lookup_erasePeer_eq (a : Name) (l : List (Name × Nat)) : (erasePeer a l).lookup a = none := by
  induction l with
  | nil => rfl
  | cons e rest ih =>
    obtain ⟨k, v⟩ := e
    simp only [erasePeer]
    split
    · exact ih
    · rename_i hk
      have hk' : ¬ k = a := hk
      have : (a == k) = false := by simp; exact fun h => hk' h.symm
      simp only [List.lookup, this, ih]

theorem processMessage_alias (env : Env) (s : PState) (p : Bytes) :
    (processMessage env s p).st.alias = s.alias ∧ (processMessage env s p).st.incoming = s.incoming := by
  unfold processMessage
  cases env.decode p with
  | undecodable => exact ⟨rfl, rfl⟩
  | notMessage => exact ⟨rfl, rfl⟩
  | handshake name ver server =>
    cases s.peer with
    | none =>
      cases name with
      | none => exact ⟨rfl, rfl⟩
      | some pn' =>
        simp only []
        split
        · exact ⟨rfl, rfl⟩
        · split <;> exact ⟨rfl, rfl⟩
    | some pn => exact ⟨rfl, rfl⟩
  | msg m =>
    cases s.peer with
    | none => exact ⟨rfl, rfl⟩
    | some pn =>
      simp only []
      split
      · exact ⟨rfl, rfl⟩
      · split
        · exact ⟨rfl, rfl⟩
        · split <;> (dsimp only; split <;> exact ⟨rfl, rfl⟩)

theorem procAll_alias (env : Env) (ps : List Bytes) : ∀ s : PState,
    (procAll env s ps).st.alias = s.alias ∧ (procAll env s ps).st.incoming = s.incoming := by
  induction ps with
  | nil => intro s; exact ⟨rfl, rfl⟩
  | cons p ps ih =>
    intro s
    simp only [procAll]
    have h := processMessage_alias env s p
    cases (processMessage env s p).err with
    | some w => exact h
    | none => exact ⟨(ih _).1.trans h.1, (ih _).2.trans h.2⟩

/-- an exception in `_process_message` leaves the pending table as it was -/
theorem processMessage_err_pending (env : Env) (s : PState) (p : Bytes) (w : Why)
    (h : (processMessage env s p).err = some w) : (processMessage env s p).st.pending = s.pending := by
  unfold processMessage at h ⊢
  cases hd : env.decode p with
  | undecodable => rfl
  | notMessage => rfl
  | handshake name ver server =>
    simp only [hd] at h ⊢
    cases hp : s.peer with
    | none =>
      cases name with
      | none => rfl
      | some pn' =>
        simp only []
        split
        · rfl
        · split <;> rfl
    | some pn => rfl
  | msg m =>
    simp only [hd] at h ⊢
    cases hp : s.peer with
    | none => rfl
    | some pn =>
      simp only [hp] at h
      by_cases h1 : m.dst.ctx ≠ env.ctxName
      · simp [h1]
      · by_cases h2 : m.src.ctx ≠ pn
        · simp [h1, h2]
        · simp only [h1, h2, ↓reduceIte] at h
          split at h <;> simp at h

/-- the next bytes of the stream break the protocol: a wrong marker where a frame must start, a length over
    the limit, or a complete frame whose payload makes `_process_message` raise -/
inductive Offending (env : Env) (s : PState) : Bytes → Why → Prop
  | marker (b : UInt8) (rest : Bytes) : b ≠ 0x50 → Offending env s (b :: rest) .marker
  | oversize (n : Nat) (rest : Bytes) : env.maxSize < n → n < 2 ^ 64 →
      Offending env s (0x50 :: (leBytes 8 n ++ rest)) .oversize
  | payload (p rest : Bytes) (w : Why) : p.length ≤ env.maxSize → (processMessage env s p).err = some w →
      Offending env s (frame p ++ rest) w

theorem consume_offending (env : Env) (h64 : env.maxSize < 2 ^ 64) (s : PState) (x : Bytes) (w : Why)
    (h : Offending env s x w) :
    ∃ s' buf, consume env s x = ⟨s', buf, [], some w⟩ ∧ s'.pending = s.pending ∧ s'.alias = s.alias := by
  cases h with
  | marker b rest hb =>
    exact ⟨s, b :: rest, by simp only [consume_cons, hb, ne_eq, not_false_eq_true, ↓reduceIte], rfl, rfl⟩
  | oversize n rest hn hn64 =>
    refine ⟨s, 0x50 :: (leBytes 8 n ++ rest), ?_, rfl, rfl⟩
    have h8 : (leBytes 8 n).length = 8 := length_leBytes 8 n
    have hle : leNat (leBytes 8 n) = n := leNat_leBytes 8 n (by simpa using hn64)
    rw [consume_cons]
    generalize leBytes 8 n = hdr at *
    have ht : (hdr ++ rest).take 8 = hdr := by
      rw [List.take_append_of_le_length (by omega), List.take_of_length_le (by omega)]
    have hl : ¬ (hdr ++ rest).length < 8 := by simp only [List.length_append]; omega
    have h1 : ¬ ((80 : UInt8) ≠ 80) := by decide
    have h2 : leNat hdr > env.maxSize := by omega
    simp only [h1, hl, ht, h2, ↓reduceIte]
  | payload p rest w hsz herr =>
    refine ⟨(processMessage env s p).st, rest, ?_, processMessage_err_pending env s p w herr,
      (processMessage_alias env s p).1⟩
    rw [consume_frame env s p rest hsz (by omega), herr, processMessage_err_no_events env s p w herr]

/-- everything `close()` does to the local side: exactly one `deliver_message(error reply)` per pending entry -/
def closeEvs (env : Env) (st : PState) : List Ev := st.pending.map (clearEv env st.peer)

theorem attempt_clearEv (env : Env) (peer : Option Name) (e : Nat × Addr × Addr) :
    Ev.attempt (clearEv env peer e) = some (errReplyFor peer e) := by
  unfold clearEv; cases deliverLocal env (errReplyFor peer e) <;> rfl

theorem attempts_clearEv (env : Env) (peer : Option Name) (l : List (Nat × Addr × Addr)) :
    attempts (l.map (clearEv env peer)) = l.map (errReplyFor peer) := by
  induction l with
  | nil => rfl
  | cons e rest ih =>
    simp only [attempts, List.map_cons, List.filterMap_cons, attempt_clearEv] at ih ⊢
    rw [ih]

end QmiModel.Frame
