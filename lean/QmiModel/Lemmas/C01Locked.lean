import QmiModel.Lemmas.C01Basic
/-!
The repaired `MessageRouter`: `send_message` holds a lock from its checks until the message is queued in the
socket-manager thread, and `stop()` takes the same lock to queue `close_all` and to mark the router inactive.
In the model this is the sub-system `ReachL` in which `stopA` fires only while no sender is between its check and its
hand-over (`checked = []`).  For that sub-system nothing is ever lost: `lost = []` in every reachable state.
-/
namespace QmiModel.Rpc

variable (cfg : Cfg) (attr : ReqId → Attr)

/-- reachability with the send/stop lock of the repaired router -/
inductive ReachL : State → Prop
  | init : ReachL init
  | step {s s' a} : ReachL s → step cfg attr s a = some s' → (a = .stopA → s.checked = []) → ReachL s'

theorem ReachL.toReach {s : State} (h : ReachL cfg attr s) : Reach cfg attr s := by
  induction h with
  | init => exact Reach.init
  | step _ hs _ ih => exact Reach.step ih hs

/-- the callbacks queued behind the first `stopLoop` -/
def afterStop : List Cb → List Cb
  | [] => []
  | .stopLoop :: q => q
  | _ :: q => afterStop q

theorem afterStop_not_mem {q : List Cb} (h : Cb.stopLoop ∉ q) : afterStop q = [] := by
  induction q with
  | nil => rfl
  | cons c q ih =>
    have hq : Cb.stopLoop ∉ q := fun hm => h (List.mem_cons_of_mem _ hm)
    cases c
    case stopLoop => exact absurd List.mem_cons_self h
    all_goals simpa [afterStop] using ih hq

theorem afterStop_append_of_mem {q : List Cb} (l : List Cb) (h : Cb.stopLoop ∈ q) : afterStop (q ++ l) = afterStop q ++ l := by
  induction q with
  | nil => cases h
  | cons c q ih =>
    cases c
    case stopLoop => simp [afterStop]
    all_goals
      have hq : Cb.stopLoop ∈ q := by
        rcases List.mem_cons.mp h with h1 | h1
        · cases h1
        · exact h1
      simpa [afterStop] using ih hq

theorem afterStop_append_not_mem {q : List Cb} (l : List Cb) (h : Cb.stopLoop ∉ q) : afterStop (q ++ l) = afterStop l := by
  induction q with
  | nil => rfl
  | cons c q ih =>
    have hq : Cb.stopLoop ∉ q := fun hm => h (List.mem_cons_of_mem _ hm)
    cases c
    case stopLoop => exact absurd List.mem_cons_self h
    all_goals simpa [afterStop] using ih hq

theorem reqsOf_append (p q : List Cb) : reqsOf (p ++ q) = reqsOf p ++ reqsOf q := by
  induction p with
  | nil => rfl
  | cons c p ih => cases c <;> simp [reqsOf, ih]

structure LInv (s : State) : Prop where
  chk   : s.aRouter = false → s.checked = []
  stopd : (s.aSock ≠ .up ∨ Cb.stopLoop ∈ s.aQ) → s.aRouter = false
  after : reqsOf (afterStop s.aQ) = []
  down  : s.aSock ≠ .up → reqsOf s.aQ = []
  lost  : s.lost = []

theorem linv_init : LInv init := by
  constructor <;> simp [init, afterStop, reqsOf]

theorem linv_same {s t : State} (h : SameCore s t) (hi : LInv s) : LInv t := by
  obtain ⟨h1, h2, h3, h4, h5⟩ := hi
  refine ⟨?_, ?_, ?_, ?_, ?_⟩
  · rw [h.aRouter, h.checked]; exact h1
  · rw [h.aSock, h.aQ, h.aRouter]; exact h2
  · rw [h.aQ]; exact h3
  · rw [h.aSock, h.aQ]; exact h4
  · rw [h.lost]; exact h5

/-- popping the head of A's loop queue (any callback but `stopLoop`) keeps the invariant's queue clauses -/
theorem afterStop_tail {c : Cb} {q : List Cb} (hc : c ≠ .stopLoop) : afterStop (c :: q) = afterStop q := by
  cases c <;> first | rfl | exact absurd rfl hc

theorem reqsOf_tail_nil {c : Cb} {q : List Cb} (h : reqsOf (c :: q) = []) : reqsOf q = [] := by
  cases c <;> simp [reqsOf] at h ⊢ <;> exact h

theorem linv_step {s s' : State} {a : Act} (hi : LInv s) (h : step cfg attr s a = some s')
    (hl : a = .stopA → s.checked = []) : LInv s' := by
  obtain ⟨i1, i2, i3, i4, i5⟩ := hi
  cases a <;> simp only [step] at h
  case stopA =>
    have hc := hl rfl
    split at h <;> simp at h; subst h
    refine ⟨fun _ => hc, fun _ => rfl, ?_, ?_, i5⟩
    · by_cases hm : Cb.stopLoop ∈ s.aQ
      · have := i2 (Or.inr hm); simp_all
      · show reqsOf (afterStop (s.aQ ++ [Cb.closeAll, Cb.stopLoop])) = []
        rw [afterStop_append_not_mem _ hm]; simp [afterStop, reqsOf]
    · intro hd
      have := i2 (Or.inl hd); simp_all
  case discA =>
    split at h <;> simp at h; subst h
    next hc =>
    have hr : s.aRouter = true := hc.1
    have hns : Cb.stopLoop ∉ s.aQ := fun hm => by have := i2 (Or.inr hm); simp_all
    refine ⟨i1, ?_, ?_, ?_, i5⟩
    · intro hx
      rcases hx with hx | hx
      · exact i2 (Or.inl hx)
      · simp only [List.mem_append, List.mem_singleton] at hx
        rcases hx with hx | hx
        · exact absurd hx hns
        · cases hx
    · show reqsOf (afterStop (s.aQ ++ [Cb.closeAll])) = []
      rw [afterStop_append_not_mem _ hns]; simp [afterStop, reqsOf]
    · intro hd
      show reqsOf (s.aQ ++ [Cb.closeAll]) = []
      rw [reqsOf_append, i4 hd]; simp [reqsOf]
  case send r =>
    split at h
    · split at h
      · split at h <;> simp at h <;> subst h <;> exact ⟨i1, i2, i3, i4, i5⟩
      · split at h <;> simp at h <;> subst h
        · exact ⟨i1, i2, i3, i4, i5⟩
        · next hc =>
          refine ⟨?_, i2, i3, i4, i5⟩
          intro hr
          simp at hc
          simp_all
    · simp at h
  case enq r =>
    split at h
    · next hm =>
      have hr : s.aRouter = true := by
        by_cases hr : s.aRouter = true
        · exact hr
        · have := i1 (by simpa using hr); rw [this] at hm; cases hm
      have hup : s.aSock = .up := by
        by_cases hu : s.aSock = .up
        · exact hu
        · have := i2 (Or.inl hu); simp_all
      have hns : Cb.stopLoop ∉ s.aQ := fun hm' => by have := i2 (Or.inr hm'); simp_all
      split at h
      · next hd => rw [hup] at hd; cases hd
      · simp at h; subst h
        refine ⟨?_, ?_, ?_, ?_, i5⟩
        · intro hx; simp_all
        · intro hx
          rcases hx with hx | hx
          · exact i2 (Or.inl hx)
          · simp only [List.mem_append, List.mem_singleton] at hx
            rcases hx with hx | hx
            · exact absurd hx hns
            · cases hx
        · show reqsOf (afterStop (s.aQ ++ [Cb.sendReq r])) = []
          rw [afterStop_append_not_mem _ hns]; simp [afterStop, reqsOf]
        · intro hd; exact absurd hup hd
    · simp at h
  case loopA =>
    split at h
    · simp at h
    · next hnd =>
      split at h
      · simp at h
      · next r q hq =>
        -- sendReq r :: q
        have t3 : reqsOf (afterStop q) = [] := by rw [hq, afterStop_tail (by simp)] at i3; exact i3
        have t2 : (s.aSock ≠ .up ∨ Cb.stopLoop ∈ q) → s.aRouter = false := by
          intro hx; rcases hx with hx | hx
          · exact i2 (Or.inl hx)
          · exact i2 (Or.inr (by rw [hq]; exact List.mem_cons_of_mem _ hx))
        have t4 : s.aSock ≠ .up → reqsOf q = [] := fun hd => reqsOf_tail_nil (by rw [← hq]; exact i4 hd)
        repeat' split at h
        all_goals
          simp at h; subst h
          exact ⟨i1, t2, t3, t4, i5⟩
      · next r o q hq =>
        simp at h; subst h
        have t3 : reqsOf (afterStop q) = [] := by rw [hq, afterStop_tail (by simp)] at i3; exact i3
        have t2 : (s.aSock ≠ .up ∨ Cb.stopLoop ∈ q) → s.aRouter = false := by
          intro hx; rcases hx with hx | hx
          · exact i2 (Or.inl hx)
          · exact i2 (Or.inr (by rw [hq]; exact List.mem_cons_of_mem _ hx))
        have t4 : s.aSock ≠ .up → reqsOf q = [] := fun hd => reqsOf_tail_nil (by rw [← hq]; exact i4 hd)
        exact ⟨i1, t2, t3, t4, i5⟩
      · next q hq =>
        simp at h; subst h
        have t3 : reqsOf (afterStop q) = [] := by rw [hq, afterStop_tail (by simp)] at i3; exact i3
        have t2 : (s.aSock ≠ .up ∨ Cb.stopLoop ∈ q) → s.aRouter = false := by
          intro hx; rcases hx with hx | hx
          · exact i2 (Or.inl hx)
          · exact i2 (Or.inr (by rw [hq]; exact List.mem_cons_of_mem _ hx))
        have t4 : s.aSock ≠ .up → reqsOf q = [] := fun hd => reqsOf_tail_nil (by rw [← hq]; exact i4 hd)
        exact ⟨i1, t2, t3, t4, i5⟩
      · next q hq =>
        -- stopLoop :: q
        simp at h; subst h
        have hr : s.aRouter = false := i2 (Or.inr (by rw [hq]; exact List.mem_cons_self))
        have hq0 : reqsOf q = [] := by rw [hq] at i3; simpa [afterStop] using i3
        refine ⟨i1, fun _ => hr, ?_, fun _ => hq0, i5⟩
        show reqsOf (afterStop q) = []
        -- whatever follows a second stopLoop is a suffix of q
        have : ∀ l : List Cb, reqsOf l = [] → reqsOf (afterStop l) = [] := by
          intro l
          induction l with
          | nil => intro _; rfl
          | cons c l ih =>
            intro hl'
            cases c
            case sendReq => simp [reqsOf] at hl'
            case stopLoop => simpa [afterStop, reqsOf] using hl'
            all_goals
              simp only [reqsOf] at hl'
              simpa [afterStop] using ih hl'
        exact this q hq0
  case loopExitA =>
    split at h
    · next hst =>
      simp at h; subst h
      have hq0 : reqsOf s.aQ = [] := i4 (by rw [hst]; simp)
      have hr : s.aRouter = false := i2 (Or.inl (by rw [hst]; simp))
      refine ⟨i1, fun _ => hr, ?_, fun _ => ?_, ?_⟩
      · simp [afterStop, reqsOf]
      · simp [reqsOf]
      · show reqsOf s.aQ ++ s.lost = []
        rw [hq0, i5]; rfl
    · simp at h
  case finish o =>
    split at h
    · split at h
      · simp at h
      · split at h
        · simp at h; subst h; exact ⟨i1, i2, i3, i4, i5⟩
        · simp at h; subst h
          exact linv_same (route_core attr _ _ _) ⟨i1, i2, i3, i4, i5⟩
    · simp at h
  case drain =>
    split at h
    · split at h
      · simp at h; subst h
        exact linv_same (routeAll_core attr _ _ _) ⟨i1, i2, i3, i4, i5⟩
      · simp at h
    · simp at h
  all_goals
    repeat' split at h
    all_goals first
      | (simp at h; done)
      | (simp at h; subst h; exact ⟨i1, i2, i3, i4, i5⟩)

theorem linv_reach {s : State} (h : ReachL cfg attr s) : LInv s := by
  induction h with
  | init => exact linv_init
  | step _ hs hl ih => exact linv_step cfg attr ih hs hl

end QmiModel.Rpc
