import QmiModel.Lemmas.C13Loops
/-!
# C13 helper lemmas, part 9: deadline arithmetic of the serial transport

`SliceLe σ d`: every `Serial.read` of the script returns within `σ` ticks (the fixed device time-out
`SERIAL_READ_TIMEOUT` handed to pyserial: a read returns when it has the bytes or after one slice).
Then a call with time-out `t` returns at most `max t 0 + σ` after it started, and a non-blocking call
(`t ≤ 0`) takes no time at all.
-/
namespace QmiModel.Transport

def SliceLe (σ : Nat) (d : Script) : Prop := ∀ ev ∈ d, ev.elapsed ≤ σ

theorem popDev_slice (σ : Nat) (size : Nat) (d : Script) (h : SliceLe σ d) :
    (popDev false size d).1 ≤ σ ∧ SliceLe σ (popDev false size d).2.2 := by
  cases d with
  | nil => exact ⟨Nat.zero_le _, by intro ev hev; cases hev⟩
  | cons x rest =>
    obtain ⟨e, r⟩ := x
    have he : e ≤ σ := h ⟨e, r⟩ (by simp)
    have hrest : SliceLe σ rest := fun ev hev => h ev (List.mem_cons_of_mem _ hev)
    cases r with
    | timeout => exact ⟨he, hrest⟩
    | eof => exact ⟨he, hrest⟩
    | data bs =>
      simp only [popDev]
      split
      · exact ⟨he, hrest⟩
      · simp only [Bool.false_eq_true, if_false]
        refine ⟨he, ?_⟩
        intro ev hev
        simp only [List.mem_cons] at hev
        rcases hev with rfl | hev
        · exact Nat.zero_le _
        · exact hrest ev hev

theorem serRead_slice (σ : Nat) (s : St) (size : Nat) (h : SliceLe σ s.dev) :
    (serRead s size).1.clock ≤ s.clock + σ ∧ s.clock ≤ (serRead s size).1.clock ∧
    SliceLe σ (serRead s size).1.dev := by
  unfold serRead
  split
  · exact ⟨Nat.le_add_right _ _, Nat.le_refl _, h⟩
  · have hp := popDev_slice σ size s.dev h
    generalize popDev false size s.dev = r at *
    obtain ⟨e, rx, d'⟩ := r
    cases rx <;> exact ⟨by simp only; omega, by simp only; omega, hp.2⟩

/-- reading what `in_waiting` reported takes no time -/
theorem serRead_avail_clock (s : St) (size : Nat) (hs : size ≤ inWaitingOf s.dev) :
    (serRead s size).1.clock = s.clock := by
  unfold serRead
  split
  · rfl
  · rename_i hne
    cases hd : s.dev with
    | nil => simp [hd, inWaitingOf] at hs; omega
    | cons x rest =>
      obtain ⟨e, r⟩ := x
      cases e with
      | succ k => simp [hd, inWaitingOf] at hs; omega
      | zero =>
        cases r with
        | timeout => simp [hd, inWaitingOf] at hs; omega
        | eof => simp [hd, inWaitingOf] at hs; omega
        | data bs =>
          simp only [popDev]
          by_cases hle : bs.length ≤ size
          · simp [hle]
          · simp [hle]

theorem serRead_avail_slice (σ : Nat) (s : St) (size : Nat) (h : SliceLe σ s.dev) :
    SliceLe σ (serRead s size).1.dev := (serRead_slice σ s size h).2.2

/-- the `while True:` loop of `read`: entered no later than the deadline, left no later than deadline + σ -/
theorem serReadLoop_clock (σ n : Nat) (t : Int) (tstart : Nat) :
    ∀ (fuel : Nat) (s : St), SliceLe σ s.dev → (s.clock : Int) ≤ tstart + max t 0 →
      ((serReadLoop n (some t) tstart fuel s).1.clock : Int) ≤ tstart + max t 0 + σ := by
  intro fuel
  induction fuel with
  | zero => intro s _ hc; simp only [serReadLoop]; omega
  | succ fuel ih =>
    intro s hs hc
    simp only [serReadLoop]
    have hR := serRead_slice σ s (n - s.buf.length) hs
    generalize serRead s (n - s.buf.length) = rr at *
    obtain ⟨s1, ob⟩ := rr
    obtain ⟨h1, _, h3⟩ := hR
    have h1 : s1.clock ≤ s.clock + σ := h1
    have h3 : SliceLe σ s1.dev := h3
    cases ob with
    | none => simp only; omega
    | some b =>
      simp only
      split
      · simp only; omega
      · split
        · simp only; omega
        · rename_i hnot
          refine ih _ h3 ?_
          simp only at hnot ⊢
          omega

/-- the single-byte loop of `read_until` -/
theorem serUntilLoop_clock (σ : Nat) (term : Bytes) (t : Int) (tstart : Nat) :
    ∀ (fuel : Nat) (tremain : Option Int) (s : St), SliceLe σ s.dev →
      tremain = some ((tstart : Int) + t - (s.clock : Int)) →
      (s.clock : Int) ≤ tstart + max t 0 + σ →
      ((serUntilLoop term (some t) tstart fuel tremain s).1.clock : Int) ≤ tstart + max t 0 + σ := by
  intro fuel
  induction fuel with
  | zero =>
    intro tremain s _ _ hc
    simp only [serUntilLoop]
    split <;> exact hc
  | succ fuel ih =>
    intro tremain s hs htr hc
    simp only [serUntilLoop]
    split
    · exact hc
    · rename_i hgo
      have hpos : (0 : Int) < (tstart : Int) + t - (s.clock : Int) := by
        subst htr
        simpa [keepGoing] using hgo
      have hR := serRead_slice σ s 1 hs
      generalize serRead s 1 = rr at *
      obtain ⟨s1, ob⟩ := rr
      obtain ⟨h1, _, h3⟩ := hR
      have h1 : s1.clock ≤ s.clock + σ := h1
      have h3 : SliceLe σ s1.dev := h3
      cases ob with
      | none => simp only; omega
      | some b =>
        simp only
        split
        · simp only [takeAll]; omega
        · refine ih _ _ h3 rfl ?_
          simp only
          omega

theorem serReadFinish_clock (s : St) (n : Nat) : (serReadFinish s n).1.clock = s.clock := by
  simp only [serReadFinish]
  repeat' split
  all_goals rfl

/-- serial `read(n, t)` with `t ≤ 0` never waits -/
theorem serialRead_nonblocking_clock (s : St) (n : Nat) (t : Int) (ht : t ≤ 0) :
    (serialRead s n (some t)).1.clock = s.clock := by
  have hnb : nonBlocking (some t) = true := by simp [nonBlocking, ht]
  simp only [serialRead, hnb, if_true]
  split
  · rfl
  · split
    · rfl
    · simp only [inWaiting]
      by_cases hav : n - s.buf.length ≤ inWaitingOf s.dev
      · simp only [hav, if_true]
        have hc := serRead_avail_clock { s with io := s.io ++ [Io.iw] } (n - s.buf.length) hav
        generalize serRead { s with io := s.io ++ [Io.iw] } (n - s.buf.length) = rr at *
        obtain ⟨s2, ob⟩ := rr
        cases ob with
        | none => exact hc
        | some b => simp only; rw [serReadFinish_clock]; exact hc
      · simp only [hav, if_false]; rw [serReadFinish_clock]

theorem serialRead_clock (σ : Nat) (s : St) (n : Nat) (t : Int) (hs : SliceLe σ s.dev) :
    ((serialRead s n (some t)).1.clock : Int) ≤ s.clock + max t 0 + σ := by
  by_cases ht : t ≤ 0
  · rw [serialRead_nonblocking_clock s n t ht]; omega
  · have hnb : nonBlocking (some t) = false := by simp [nonBlocking]; omega
    simp only [serialRead, hnb]
    split
    · simp only; omega
    · split
      · simp only [takeBuf]; omega
      · simp only [Bool.false_eq_true, if_false]
        have hL := serReadLoop_clock σ n t s.clock (fuelOf s.dev) s hs (by omega)
        generalize serReadLoop n (some t) s.clock (fuelOf s.dev) s = lr at *
        obtain ⟨s1, ex⟩ := lr
        cases ex with
        | true => exact hL
        | false => simp only; rw [serReadFinish_clock]; exact hL

theorem serialRut_clock (σ : Nat) (s : St) (n : Nat) (t : Int) (hs : SliceLe σ s.dev) :
    ((serialRut s n (some t)).1.clock : Int) ≤ s.clock + max t 0 + σ := by
  have h := serialRead_clock σ s n t hs
  simp only [serialRut]
  generalize serialRead s n (some t) = r at *
  obtain ⟨s1, o⟩ := r
  cases o with
  | exc e => cases e <;> exact h
  | _ => exact h

theorem serialUntilPre_clock (σ : Nat) (s : St) (term : Bytes) (hs : SliceLe σ s.dev) :
    (serialUntilPre s term).clock = s.clock ∧ SliceLe σ (serialUntilPre s term).dev := by
  simp only [serialUntilPre]
  split
  · exact ⟨rfl, hs⟩
  · simp only [inWaiting]
    have hc := serRead_avail_clock { s with io := s.io ++ [Io.iw] } (inWaitingOf s.dev) (Nat.le_refl _)
    have hsl := serRead_avail_slice σ { s with io := s.io ++ [Io.iw] } (inWaitingOf s.dev) hs
    generalize serRead { s with io := s.io ++ [Io.iw] } (inWaitingOf s.dev) = rr at *
    obtain ⟨sb, ob⟩ := rr
    cases ob with
    | none => exact ⟨hc, hsl⟩
    | some b => exact ⟨hc, hsl⟩

theorem serialUntil_clock (σ : Nat) (s : St) (term : Bytes) (t : Int) (hs : SliceLe σ s.dev) :
    ((serialUntil s term (some t)).1.clock : Int) ≤ s.clock + max t 0 + σ := by
  rw [serialUntil_eq]
  split
  · simp only; omega
  · obtain ⟨hc, hsl⟩ := serialUntilPre_clock σ s term hs
    split
    · simp only [takeMsg, takeBuf, hc]; omega
    · have := serUntilLoop_clock σ term t (serialUntilPre s term).clock (fuelOf (serialUntilPre s term).dev)
        (some t) (serialUntilPre s term) hsl (by congr 1; omega) (by omega)
      rw [hc] at this
      rw [hc]
      exact this

end QmiModel.Transport
