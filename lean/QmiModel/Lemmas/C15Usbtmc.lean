import QmiModel.Model.Usbtmc
/-! Helper definitions and lemmas for the USBTMC theorems of C15 (core Lean only). -/
namespace QmiModel.C15
open QmiModel Usbtmc


theorem unLe32_le32 (n : Nat) (h : n < 4294967296) :
    unLe32 (UInt8.ofNat n) (UInt8.ofNat (n / 256)) (UInt8.ofNat (n / 65536)) (UInt8.ofNat (n / 16777216)) = n := by
  simp only [unLe32, UInt8.toNat_ofNat']
  omega

theorem pad4_lt (n : Nat) : pad4 n < 4 := by simp only [pad4]; omega
theorem pad4_align (n : Nat) : (n + pad4 n) % 4 = 0 := by simp only [pad4]; omega

theorem nextTag_pos (l : Nat) : 1 ≤ nextTag l := by simp only [nextTag]; omega
theorem nextTag_le (l : Nat) : nextTag l ≤ 255 := by simp only [nextTag]; omega
theorem nextTag_ne (l : Nat) (_h : l ≤ 255) : nextTag l ≠ l := by simp only [nextTag]; omega

theorem outTransfer_cons (tag : Nat) (block : Bytes) (eom : Bool) :
    outTransfer tag block eom =
      UInt8.ofNat 1 :: UInt8.ofNat tag :: UInt8.ofNat (invTag tag) :: 0 ::
      UInt8.ofNat block.length :: UInt8.ofNat (block.length / 256) :: UInt8.ofNat (block.length / 65536) ::
      UInt8.ofNat (block.length / 16777216) :: (if eom then 1 else 0) :: 0 :: 0 :: 0 ::
      (block ++ List.replicate (pad4 block.length) 0) := by
  simp [outTransfer, bulkOutHeader, le32, MSGID_DEV_DEP_MSG_OUT]

theorem dev_step_outTransfer (dv : Dev) (tag : Nat) (block : Bytes) (eom : Bool)
    (ht1 : 1 ≤ tag) (ht2 : tag ≤ 255) (hprev : dv.prev ≠ some tag)
    (hb0 : 0 < block.length) (hb : block.length < 4294967296) :
    dv.step (outTransfer tag block eom) =
      some (if eom then { prev := some tag, acc := [], msgs := dv.msgs ++ [dv.acc ++ block] }
            else { prev := some tag, acc := dv.acc ++ block, msgs := dv.msgs }) := by
  rw [outTransfer_cons]
  simp only [Dev.step, unLe32_le32 _ hb]
  have e1 : (UInt8.ofNat 1).toNat = MSGID_DEV_DEP_MSG_OUT := by decide
  have e2 : (UInt8.ofNat tag).toNat = tag := by simp [UInt8.toNat_ofNat']; omega
  have e3 : (UInt8.ofNat (invTag tag)).toNat = 255 - tag := by simp [UInt8.toNat_ofNat', invTag]; omega
  have e4 : (if eom then (1 : UInt8) else 0).toNat = if eom then 1 else 0 := by cases eom <;> rfl
  cases eom <;> simp [e2] <;>
    exact ⟨rfl, by omega, fun h => hprev h.symm, by simp only [invTag]; omega, by intro h; simp [h] at hb0⟩


theorem writeLoop_nil (mts : Nat) (fuel idx last : Nat) :
    writeLoop mts none fuel idx last [] = { last, sent := [] } := by
  cases fuel <;> simp [writeLoop]

theorem writeLoop_step (mts fuel idx last : Nat) (rest : Bytes) (hne : rest ≠ [])
    (hsz : (rest.take mts).length < 4294967296) :
    writeLoop mts none (fuel + 1) idx last rest =
      { writeLoop mts none fuel (idx + 1) (nextTag last) (rest.drop (rest.take mts).length) with
        sent := outTransfer (nextTag last) (rest.take mts) (decide (rest.length ≤ mts))
                :: (writeLoop mts none fuel (idx + 1) (nextTag last) (rest.drop (rest.take mts).length)).sent } := by
  have : rest.isEmpty = false := by cases rest <;> simp_all
  simp only [writeLoop, this, Bool.false_eq_true, if_false, packOut, hsz, if_true]
  simp [outTransfer]

theorem writeLoop_dev (mts : Nat) (hm : 1 ≤ mts) :
    ∀ (fuel idx last : Nat) (rest : Bytes) (dv : Dev), rest.length ≤ fuel → min mts rest.length < 4294967296 → last ≤ 255 →
      dv.prev ≠ some (nextTag last) → rest ≠ [] →
      (writeLoop mts none fuel idx last rest).exc = none
      ∧ 1 ≤ (writeLoop mts none fuel idx last rest).last ∧ (writeLoop mts none fuel idx last rest).last ≤ 255
      ∧ dv.run (writeLoop mts none fuel idx last rest).sent
          = some { prev := some (writeLoop mts none fuel idx last rest).last, acc := [],
                   msgs := dv.msgs ++ [dv.acc ++ rest] } := by
  intro fuel
  induction fuel with
  | zero =>
    intro idx last rest dv hlen _ _ _ hne
    exact absurd (List.length_eq_zero_iff.mp (Nat.le_zero.mp hlen)) hne
  | succ fuel ih =>
    intro idx last rest dv hlen hm32 hlast hprev hne
    have hpos : 0 < rest.length := List.length_pos_iff.mpr hne
    have hbl : (rest.take mts).length = min mts rest.length := List.length_take
    have hsz : (rest.take mts).length < 4294967296 := by rw [hbl]; omega
    rw [writeLoop_step mts fuel idx last rest hne hsz]
    have hstep := dev_step_outTransfer dv (nextTag last) (rest.take mts) (decide (rest.length ≤ mts))
      (nextTag_pos last) (nextTag_le last) hprev (by rw [hbl]; omega) hsz
    by_cases heom : rest.length ≤ mts
    · -- last transfer: everything that is left fits
      have htake : rest.take mts = rest := List.take_of_length_le heom
      have hdrop : rest.drop (rest.take mts).length = [] := by rw [htake]; simp
      rw [hdrop, writeLoop_nil]
      simp only [heom, decide_true, if_true] at hstep
      refine ⟨rfl, nextTag_pos last, nextTag_le last, ?_⟩
      rw [htake] at hstep
      simp only [heom, decide_true, Dev.run, htake, hstep]
    · have hlt : mts < rest.length := by omega
      have hbl' : (rest.take mts).length = mts := by rw [hbl]; omega
      have hne' : rest.drop (rest.take mts).length ≠ [] := by
        rw [hbl']; intro h
        have := congrArg List.length h
        simp at this; omega
      simp only [heom, decide_false, Bool.false_eq_true, if_false] at hstep
      have := ih (idx + 1) (nextTag last) (rest.drop (rest.take mts).length)
        { prev := some (nextTag last), acc := dv.acc ++ rest.take mts, msgs := dv.msgs }
        (by simp [hbl']; omega) (by simp [hbl']; omega) (nextTag_le last)
        (by simp only [ne_eq, Option.some.injEq]; exact (nextTag_ne _ (nextTag_le last)).symm) hne'
      obtain ⟨h1, h2, h3, h4⟩ := this
      refine ⟨h1, h2, h3, ?_⟩
      simp only [heom, decide_false, Dev.run, hstep, h4]
      rw [hbl']
      simp [List.append_assoc, List.take_append_drop]


theorem packOut_ok_length (last size : Nat) (eom : Bool) (l : Nat) (hdr : Bytes)
    (h : packOut last size eom = (l, .ok hdr)) : hdr.length = 12 := by
  simp only [packOut] at h
  split at h
  · simp only [Prod.mk.injEq, Except.ok.injEq] at h
    rw [← h.2]; simp [bulkOutHeader, le32]
  · simp at h

theorem writeLoop_aligned (mts : Nat) (fault : Option (Nat × Bool)) :
    ∀ (fuel idx last : Nat) (rest : Bytes), ∀ t ∈ (writeLoop mts fault fuel idx last rest).sent, t.length % 4 = 0 := by
  intro fuel
  induction fuel with
  | zero => intro idx last rest t ht; simp [writeLoop] at ht
  | succ fuel ih =>
    intro idx last rest t ht
    simp only [writeLoop] at ht
    split at ht
    · simp at ht
    · split at ht
      · simp at ht
      · rename_i l hdr hp
        have h12 := packOut_ok_length _ _ _ _ _ hp
        have hreq : (hdr ++ List.take mts rest ++ List.replicate (pad4 (List.take mts rest).length) (0 : UInt8)).length % 4 = 0 := by
          simp only [List.length_append, List.length_replicate, h12]
          have := pad4_align (List.take mts rest).length
          omega
        split at ht
        · split at ht
          · split at ht <;> (simp only [List.mem_singleton] at ht; subst ht; exact hreq)
          · simp only [List.mem_cons] at ht
            rcases ht with rfl | ht
            · exact hreq
            · exact ih _ _ _ t ht
        · simp only [List.mem_cons] at ht
          rcases ht with rfl | ht
          · exact hreq
          · exact ih _ _ _ t ht

/-- `last_btag` after `n` further Bulk-OUT headers -/
def tagAfter (last : Nat) : Nat → Nat
  | 0 => last
  | n + 1 => tagAfter (nextTag last) n

theorem tagAfter_closed (n : Nat) : ∀ last, 1 ≤ last → last ≤ 255 → tagAfter last n = (last - 1 + n) % 255 + 1 := by
  induction n with
  | zero => intro last h1 h2; simp only [tagAfter]; omega
  | succ n ih =>
    intro last h1 h2
    simp only [tagAfter]
    rw [ih (nextTag last) (nextTag_pos last) (nextTag_le last)]
    simp only [nextTag]; omega

/-- the EOM byte of a transfer (offset 8) -/
def eomByte (t : Bytes) : Option UInt8 := (t.drop 8).head?

theorem eomByte_outTransfer (tag : Nat) (block : Bytes) (eom : Bool) :
    eomByte (outTransfer tag block eom) = some (if eom then 1 else 0) := by
  rw [outTransfer_cons]; simp [eomByte]

theorem writeLoop_eom (mts : Nat) (hm : 1 ≤ mts) :
    ∀ (fuel idx last : Nat) (rest : Bytes), rest.length ≤ fuel → min mts rest.length < 4294967296 → rest ≠ [] →
      (writeLoop mts none fuel idx last rest).sent.map eomByte
        = List.replicate ((writeLoop mts none fuel idx last rest).sent.length - 1) (some 0) ++ [some 1]
      ∧ (writeLoop mts none fuel idx last rest).sent.length = (rest.length + mts - 1) / mts
      ∧ (writeLoop mts none fuel idx last rest).last = tagAfter last ((rest.length + mts - 1) / mts) := by
  intro fuel
  induction fuel with
  | zero =>
    intro idx last rest hlen _ hne
    exact absurd (List.length_eq_zero_iff.mp (Nat.le_zero.mp hlen)) hne
  | succ fuel ih =>
    intro idx last rest hlen hm32 hne
    have hpos : 0 < rest.length := List.length_pos_iff.mpr hne
    have hbl : (rest.take mts).length = min mts rest.length := List.length_take
    have hsz : (rest.take mts).length < 4294967296 := by rw [hbl]; omega
    rw [writeLoop_step mts fuel idx last rest hne hsz]
    by_cases heom : rest.length ≤ mts
    · have htake : rest.take mts = rest := List.take_of_length_le heom
      have hdrop : rest.drop (rest.take mts).length = [] := by rw [htake]; simp
      rw [hdrop, writeLoop_nil]
      have hq : (rest.length + mts - 1) / mts = 1 := by
        have : rest.length + mts - 1 = mts + (rest.length - 1) := by omega
        rw [this, Nat.add_div_left _ (by omega), Nat.div_eq_of_lt (by omega)]
      simp [eomByte_outTransfer, heom, hq, tagAfter]
    · have hlt : mts < rest.length := by omega
      have hbl' : (rest.take mts).length = mts := by rw [hbl]; omega
      have hne' : rest.drop (rest.take mts).length ≠ [] := by
        rw [hbl']; intro h
        have := congrArg List.length h
        simp at this; omega
      obtain ⟨h1, h2, h3⟩ := ih (idx + 1) (nextTag last) (rest.drop (rest.take mts).length)
        (by simp [hbl']; omega) (by simp [hbl']; omega) hne'
      have hlen' : (rest.drop (rest.take mts).length).length = rest.length - mts := by simp [hbl']
      have hq : (rest.length + mts - 1) / mts = (rest.length - mts + mts - 1) / mts + 1 := by
        have : rest.length + mts - 1 = mts + (rest.length - mts + mts - 1) := by omega
        rw [this, Nat.add_div_left _ (by omega)]
      have hpos' : 0 < (rest.length - mts + mts - 1) / mts := by
        apply Nat.div_pos <;> omega
      rw [hlen'] at h2 h3
      refine ⟨?_, ?_, ?_⟩
      · simp only [List.map_cons, eomByte_outTransfer, heom, decide_false, Bool.false_eq_true, if_false, h1,
          List.length_cons, Nat.add_sub_cancel]
        rw [h2]
        have : (rest.length - mts + mts - 1) / mts = ((rest.length - mts + mts - 1) / mts - 1) + 1 := by omega
        rw [this, List.replicate_succ]; simp
      · simp only [List.length_cons, h2, hq]
      · rw [h3, hq]; rfl



theorem Dev.run_append (dv : Dev) (a b : List Bytes) :
    dv.run (a ++ b) = match dv.run a with | some d => d.run b | none => none := by
  induction a generalizing dv with
  | nil => simp [Dev.run]
  | cons t ts ih =>
    simp only [List.cons_append, Dev.run]
    cases dv.step t with
    | none => rfl
    | some d => exact ih d

/-- several `write_raw` calls in a row on one instrument: final `last_btag` and all Bulk-OUT transfers -/
def writeMany (mts : Nat) : Nat → List Bytes → Nat × List Bytes
  | last, [] => (last, [])
  | last, d :: ds =>
    ((writeMany mts (writeRaw mts none last d).last ds).1,
     (writeRaw mts none last d).sent ++ (writeMany mts (writeRaw mts none last d).last ds).2)

theorem writeRaw_eq_loop (mts last : Nat) (d : Bytes) (hm : 1 ≤ mts) :
    writeRaw mts none last d = writeLoop mts none d.length 0 last d := by
  have : ¬ (mts = 0 ∧ (!d.isEmpty) = true) := by omega
  simp only [writeRaw, this, if_false]

end QmiModel.C15
