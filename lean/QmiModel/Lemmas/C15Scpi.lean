import QmiModel.Model.Scpi
/-! Helper lemmas for the SCPI theorems of C15 (core Lean only). -/
namespace QmiModel.C15
open QmiModel Scpi

theorem isPrefix_self_append (p r : Bytes) : isPrefix p (p ++ r) = true := by
  induction p with
  | nil => simp [isPrefix]
  | cons a p ih => simp [isPrefix, ih]

theorem isPrefix_append_of_le (p l r : Bytes) (h : p.length ≤ l.length) : isPrefix p (l ++ r) = isPrefix p l := by
  induction p generalizing l with
  | nil => simp [isPrefix]
  | cons a p ih =>
    cases l with
    | nil => simp at h
    | cons b l =>
      simp only [List.cons_append, isPrefix]
      rw [ih l (by simpa using h)]

/-- the terminator occurs in `reply ++ term` only at the very end -/
def FirstAtEnd (term reply : Bytes) : Prop :=
  ∀ k, k < reply.length → isPrefix term ((reply ++ term).drop k) = false

theorem splitAfter_reply (term reply rest : Bytes) (hne : term ≠ []) (h : FirstAtEnd term reply) :
    splitAfter term (reply ++ term ++ rest) = some (reply ++ term, rest) := by
  induction reply with
  | nil =>
    cases term with
    | nil => exact absurd rfl hne
    | cons b tl =>
      have := isPrefix_self_append (b :: tl) rest
      simp only [List.nil_append, List.cons_append] at this ⊢
      simp [splitAfter, this]
  | cons a r ih =>
    have h0 := h 0 (by simp)
    have hpre : isPrefix term (a :: (r ++ term ++ rest)) = false := by
      have := isPrefix_append_of_le term (a :: r ++ term) rest (by simp; omega)
      simp only [List.drop_zero] at h0
      rw [h0] at this
      simpa using this
    have hr : FirstAtEnd term r := by
      intro k hk
      have := h (k + 1) (by simpa using hk)
      simpa using this
    simp only [List.cons_append, splitAfter, hpre]
    have := ih hr
    simp only [List.append_assoc] at this ⊢
    simp [this]

theorem all_lt_of (l : List Nat) (h : ∀ c ∈ l, c < 128) : l.all (· < 128) = true := by
  simp only [List.all_eq_true, decide_eq_true_eq]; exact h

theorem written_app (l m : List Call) : written (l ++ m) = written l ++ written m := by
  induction l with
  | nil => simp [written]
  | cons c cs ih => cases c <;> simp [written, ih]

theorem endsWith_append (r t : Bytes) : endsWith (r ++ t) t = true := by
  simp [endsWith]

theorem stripTail_append (r t : Bytes) (h : t ≠ []) : stripTail (r ++ t) t.length = r := by
  have : t.length ≠ 0 := by simpa using h
  simp [stripTail, this]

theorem askPost_ok (cfg : Cfg) (reply : Bytes) (hterm : cfg.respTerm ≠ []) (hreply : ∀ b ∈ reply, b.toNat < 128) :
    askPost cfg (reply ++ cfg.respTerm) = .ok (reply.map UInt8.toNat) := by
  have : reply.all (fun x => x.toNat < 128) = true := by
    simp only [List.all_eq_true, decide_eq_true_eq]; exact hreply
  simp [askPost, endsWith_append, stripTail_append _ _ hterm, decodeAscii, this]

theorem splitAfter_isSome_of_suffix (term r rest : Bytes) : (splitAfter term (r ++ term ++ rest)).isSome = true := by
  induction r with
  | nil =>
    cases term with
    | nil => cases rest <;> simp [splitAfter, isPrefix]
    | cons b tl =>
      have := isPrefix_self_append (b :: tl) rest
      simp only [List.nil_append, List.cons_append] at this ⊢
      simp [splitAfter, this]
  | cons a r ih =>
    simp only [List.cons_append, splitAfter]
    split
    · rfl
    · revert ih
      cases splitAfter term (r ++ term ++ rest) <;> simp

theorem endsWith_split (l term : Bytes) (h : endsWith l term = true) : ∃ r, l = r ++ term := by
  simp only [endsWith, Bool.and_eq_true, decide_eq_true_eq, beq_iff_eq] at h
  refine ⟨l.take (l.length - term.length), ?_⟩
  conv => lhs; rw [← List.take_append_drop (l.length - term.length) l]
  rw [h.2]

theorem endsWith_false_of_splitAfter_none (l term : Bytes) (h : splitAfter term l = none) : endsWith l term = false := by
  cases hE : endsWith l term with
  | false => rfl
  | true =>
    obtain ⟨r, rfl⟩ := endsWith_split l term hE
    have := splitAfter_isSome_of_suffix term r []
    simp [h] at this

theorem readUntil_none (t1 : Tr) (term : Bytes) (to : Option Nat) (h : splitAfter term t1.rx = none) :
    (t1.readUntil term to).2 = .error .timeout ∨ (t1.readUntil term to).2 = .ok t1.rx := by
  simp only [Tr.readUntil, h]; split <;> split <;> simp

theorem read_prefix (t : Tr) (a b : Bytes) (to : Option Nat) (h : t.rx = a ++ b) :
    t.read a.length to = ({ t with rx := b, log := t.log ++ [.read a.length to] }, .ok a) := by
  simp [Tr.read, h]
theorem allDigits_single (k : UInt8) (h1 : 48 ≤ k.toNat) (h2 : k.toNat ≤ 57) : allDigits [k] = true := by
  simp [allDigits, isDigit, h1, h2]

theorem allDigits_of (ds : Bytes) (hne : ds ≠ []) (h : ∀ x ∈ ds, isDigit x = true) : allDigits ds = true := by
  simp only [allDigits, Bool.and_eq_true, Bool.not_eq_true', List.all_eq_true]
  exact ⟨by cases ds <;> simp_all, h⟩

theorem read_ok_inv (t t1 : Tr) (n : Nat) (to : Option Nat) (a : Bytes) (h : t.read n to = (t1, .ok a)) :
    t.rx = a ++ t1.rx ∧ a.length = n := by
  simp only [Tr.read] at h
  split at h
  · simp only [Prod.mk.injEq, Except.ok.injEq] at h
    obtain ⟨h1, h2⟩ := h
    subst h1 h2
    simp only [List.take_append_drop, List.length_take, true_and]
    omega
  · simp at h

theorem read_result (t : Tr) (n : Nat) (to : Option Nat) :
    (∃ t1 a, t.read n to = (t1, .ok a)) ∨ (∃ t1, t.read n to = (t1, .error .timeout)) := by
  simp only [Tr.read]
  split
  · exact Or.inl ⟨_, _, rfl⟩
  · exact Or.inr ⟨_, rfl⟩

theorem allDigits_inv (b : Bytes) (h : (!allDigits b) = false) : b ≠ [] ∧ ∀ x ∈ b, isDigit x = true := by
  simp only [allDigits, Bool.not_eq_false', Bool.and_eq_true, Bool.not_eq_true', List.all_eq_true] at h
  exact ⟨by intro hb; simp [hb] at h, h.2⟩

theorem digitsLE_lt (n : Nat) (h : n < 10) : digitsLE n = [UInt8.ofNat (48 + n)] := by
  rw [digitsLE]; simp [h]

theorem digitsLE_ge (n : Nat) (h : ¬ n < 10) : digitsLE n = UInt8.ofNat (48 + n % 10) :: digitsLE (n / 10) := by
  rw [digitsLE]; simp [h]

theorem toNat_digit (x : Nat) (h : x < 10) : (UInt8.ofNat (48 + x)).toNat = 48 + x := by
  simp [UInt8.toNat_ofNat']; omega

theorem digitsLE_spec (n : Nat) :
    digitsLE n ≠ [] ∧ (∀ x ∈ digitsLE n, isDigit x = true)
    ∧ (digitsLE n).foldr (fun d acc => acc * 10 + (d.toNat - 48)) 0 = n := by
  induction n using Nat.strongRecOn with
  | _ n ih =>
    by_cases h : n < 10
    · rw [digitsLE_lt n h]
      refine ⟨by simp, ?_, ?_⟩
      · intro x hx
        simp only [List.mem_singleton] at hx
        subst hx
        simp [isDigit]; omega
      · simp; omega
    · rw [digitsLE_ge n h]
      obtain ⟨_, h2, h3⟩ := ih (n / 10) (by omega)
      have hm : n % 10 < 10 := Nat.mod_lt _ (by omega)
      refine ⟨by simp, ?_, ?_⟩
      · intro x hx
        simp only [List.mem_cons] at hx
        rcases hx with rfl | hx
        · simp [isDigit]; omega
        · exact h2 x hx
      · simp only [List.foldr_cons, h3, toNat_digit _ hm]; omega

theorem digitsLE_length (k : Nat) : ∀ n, n < 10 ^ (k + 1) → (digitsLE n).length ≤ k + 1 := by
  induction k with
  | zero => intro n h; rw [digitsLE_lt n (by simpa using h)]; simp
  | succ k ih =>
    intro n h
    by_cases h10 : n < 10
    · rw [digitsLE_lt n h10]; simp
    · rw [digitsLE_ge n h10]
      have : n / 10 < 10 ^ (k + 1) := by
        rw [Nat.pow_succ] at h
        omega
      have := ih (n / 10) this
      simp; omega

theorem decimal_spec (n : Nat) :
    decimal n ≠ [] ∧ (∀ x ∈ decimal n, isDigit x = true) ∧ parseDec (decimal n) = n := by
  obtain ⟨h1, h2, h3⟩ := digitsLE_spec n
  refine ⟨by simpa [decimal] using h1, ?_, ?_⟩
  · intro x hx; exact h2 x (by simpa [decimal] using hx)
  · simp only [parseDec, decimal, List.foldl_reverse]; exact h3

end QmiModel.C15
