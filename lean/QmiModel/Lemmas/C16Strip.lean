import QmiModel.Model.Config
/-!
# C16 — comment stripping: specification of "token lines" and the scanner lemmas
-/
namespace QmiModel.Config

/-- the inside of a string literal: ordinary characters and backslash escapes -/
inductive StrBody : List Nat → Prop
  | nil : StrBody []
  | ch {c : Nat} {cs : List Nat} : c ≠ 34 → c ≠ 92 → StrBody cs → StrBody (c :: cs)
  | esc {c : Nat} {cs : List Nat} : c ≠ 10 → StrBody cs → StrBody (92 :: c :: cs)

/-- a line made of tokens: characters other than `#` and `"`, and complete string literals
(inside which `#`, `\"` and `\\` are data) -/
inductive Toks : List Nat → Prop
  | nil : Toks []
  | ch {c : Nat} {cs : List Nat} : c ≠ 35 → c ≠ 34 → Toks cs → Toks (c :: cs)
  | str {b cs : List Nat} : StrBody b → Toks cs → Toks (34 :: (b ++ 34 :: cs))

/-- no line terminator inside -/
def NoNL (l : List Nat) : Prop := ∀ c ∈ l, c ≠ 10 ∧ c ≠ 13

theorem scan_str_body {b : List Nat} (hb : StrBody b) (rest : List Nat) :
    scan .str (b ++ 34 :: rest) = (scan .out rest).map (fun r => b ++ 34 :: r) := by
  induction hb with
  | nil => simp [scan]
  | ch h1 h2 _ ih =>
    simp only [List.cons_append, scan, h1, h2, if_false, ih, Option.map_map]
    rfl
  | esc h1 _ ih =>
    simp only [List.cons_append, scan, h1, if_false, ih, Option.map_map]
    simp
    rfl

theorem scan_out_toks {t : List Nat} (ht : Toks t) (rest : List Nat) :
    scan .out (t ++ rest) = (scan .out rest).map (fun r => t ++ r) := by
  induction ht with
  | nil => simp
  | ch h1 h2 _ ih =>
    simp only [List.cons_append, scan, h1, h2, if_false, ih, Option.map_map]
    rfl
  | str hb _ ih =>
    simp only [List.cons_append, List.append_assoc, scan, if_true]
    have : (34 : Nat) ≠ 35 := by decide
    simp only [this, if_false, scan_str_body hb, ih, Option.map_map]
    rfl

theorem Toks.append {a b : List Nat} (ha : Toks a) (hb : Toks b) : Toks (a ++ b) := by
  induction ha with
  | nil => simpa using hb
  | ch h1 h2 _ ih => exact Toks.ch h1 h2 ih
  | str hs _ ih =>
    have := Toks.str hs ih
    simpa [List.append_assoc] using this

theorem splitLines_ne_nil (s : List Nat) : splitLines s ≠ [] := by
  induction s with
  | nil => simp [splitLines]
  | cons c cs ih =>
    simp only [splitLines]
    split
    · simp
    · split <;> simp

theorem splitLines_noNL {l : List Nat} (h : NoNL l) : splitLines l = [l] := by
  induction l with
  | nil => rfl
  | cons c cs ih =>
    have hc := h c (by simp)
    have hcs : NoNL cs := fun x hx => h x (by simp [hx])
    simp only [splitLines, ih hcs]
    simp [hc.1, hc.2]

theorem splitLines_append_nl {l : List Nat} (h : NoNL l) (rest : List Nat) :
    splitLines (l ++ 10 :: rest) = l :: splitLines rest := by
  induction l with
  | nil => simp [splitLines]
  | cons c cs ih =>
    have hc := h c (by simp)
    have hcs : NoNL cs := fun x hx => h x (by simp [hx])
    simp only [List.cons_append, splitLines, ih hcs]
    simp [hc.1, hc.2]

theorem splitLines_joinLines (L : List (List Nat)) (hne : L ≠ []) (h : ∀ l ∈ L, NoNL l) :
    splitLines (joinLines L) = L := by
  induction L with
  | nil => exact absurd rfl hne
  | cons l ls ih =>
    cases ls with
    | nil => simpa [joinLines] using splitLines_noNL (h l (by simp))
    | cons l2 ls2 =>
      simp only [joinLines]
      rw [splitLines_append_nl (h l (by simp))]
      rw [ih (by simp) (fun x hx => h x (by simp [hx]))]

end QmiModel.Config
