import QmiModel.Lemmas.C07NetReg
/-! C07, network layer — the publication a thread is sending (`FlowInv`): every program contains the network operations
of at most one publication, in one of five shapes; they belong to the publishing thread itself; remote-subscriber sets
are duplicate-free. -/
namespace QmiModel.PubSub

/-- the publication a network operation of `publish_signal` works on -/
def msgPub : Msg → Option Pub
  | .signal _ _ p => some p
  | _ => none

def MOp.netPub : MOp → Option Pub
  | .snapRemote _ _ p => some p
  | .pubSend _ _ _ p => some p
  | .sendChk _ m => msgPub m
  | .enq _ m => msgPub m
  | _ => none

def netFree (l : List MOp) : Prop := ∀ op ∈ l, op.netPub = none ∧ op.isSnapLocal = false

theorem netFree_nil : netFree [] := by simp [netFree]

theorem handleReplyStep_netFree {cs cs' : CtxSt} {id : ReqId} {ok : Bool} {more : List MOp} {o : Out}
    (h : handleReplyStep cs id ok = some (cs', more, o)) : netFree more := by
  intro op ho
  have := handleReplyStep_cars h op ho
  cases op <;> simp_all [MOp.isCar, MOp.netPub, MOp.isSnapLocal] <;>
    (rename_i d m; cases m <;> simp_all [MOp.isCar, MOp.netPub, msgPub])

theorem onSendFail_netFree (m : Msg) : netFree (onSendFail m) := by
  cases m <;> simp [onSendFail, netFree, MOp.netPub, MOp.isSnapLocal, msgPub]

set_option maxHeartbeats 2000000 in
/-- an operation that is not a network operation of `publish_signal` pushes no such operation and no `snapLocal` -/
theorem microStep_netShape {s s' : State} {th : Th} {ch ch2 : Nat} {op : MOp} {rest : List MOp} {o : Out}
    (hop : op.netPub = none) (hs : microStep s th ch ch2 op rest = some (s', o)) :
    ∃ x, netFree x ∧ (s'.prog th = x ++ rest ∨ (s'.prog th = x ∧ op.isSockOp = false)) := by
  cases op <;> simp only [MOp.netPub] at hop <;> (try contradiction) <;> simp only [microStep] at hs
  all_goals (try (split at hs))
  all_goals (try (split at hs))
  all_goals (try (split at hs))
  all_goals (try (split at hs))
  all_goals (try (simp at hs))
  all_goals (try (obtain ⟨rfl, -⟩ := hs))
  all_goals (simp only [setProg_prog, if_true, State.setProg, upd])
  all_goals (try split)
  all_goals first
    | exact ⟨[], netFree_nil, Or.inl rfl⟩
    | (refine ⟨[_], ?_, Or.inl rfl⟩; simp [netFree, MOp.netPub, MOp.isSnapLocal, msgPub, hop]; done)
    | (refine ⟨[_], ?_, Or.inr ⟨rfl, rfl⟩⟩; simp [netFree, MOp.netPub, MOp.isSnapLocal, msgPub, hop]; done)
    | (refine ⟨[_, _], ?_, Or.inl rfl⟩; simp [netFree, MOp.netPub, MOp.isSnapLocal, msgPub, hop]; done)
    | exact ⟨_, onSendFail_netFree _, Or.inl rfl⟩
    | exact ⟨_, handleReplyStep_netFree ‹_›, Or.inl rfl⟩
    | exact ⟨[], netFree_nil, Or.inr ⟨rfl, rfl⟩⟩
    | (refine ⟨_, ?_, Or.inl rfl⟩; intro op ho; simp only [List.mem_map] at ho; obtain ⟨_, -, rfl⟩ := ho; exact ⟨rfl, rfl⟩)
    | skip
  all_goals (refine ⟨[_], ?_, Or.inl rfl⟩; intro op ho; simp only [List.mem_singleton] at ho; subst ho; exact ⟨hop, rfl⟩)

/-- the network operations of `publish_signal` in a program -/
def netOps (l : List MOp) : List MOp := l.filter (fun op => op.netPub.isSome)

theorem netOps_cons_none {op : MOp} {l : List MOp} (h : op.netPub = none) : netOps (op :: l) = netOps l := by
  simp [netOps, h]
theorem netOps_cons_some {op : MOp} {l : List MOp} {p : Pub} (h : op.netPub = some p) : netOps (op :: l) = op :: netOps l := by
  simp [netOps, h]
theorem netOps_free {x : List MOp} (h : netFree x) : netOps x = [] := by
  simp only [netOps, List.filter_eq_nil_iff]
  intro op ho; simp [(h op ho).1]
theorem netOps_append (x y : List MOp) : netOps (x ++ y) = netOps x ++ netOps y := by simp [netOps]
theorem mem_netOps {op : MOp} {l : List MOp} : op ∈ netOps l ↔ op ∈ l ∧ op.netPub.isSome = true := by simp [netOps]

/-- the five stages of the remote half of `publish_signal` -/
inductive FlowShape : List MOp → Prop
  | none : FlowShape []
  | sr (ob : Obj) (sg : Sg) (q : Pub) : FlowShape [.snapRemote ob sg q]
  | ps (ps : List Peer) (ob : Obj) (sg : Sg) (q : Pub) : ps.Nodup → FlowShape [.pubSend ps ob sg q]
  | enq (d : Peer) (ob : Obj) (sg : Sg) (q : Pub) : FlowShape [.enq d (.signal ob sg q)]
  | both (d : Peer) (ps : List Peer) (ob : Obj) (sg : Sg) (q : Pub) : ps.Nodup → d ∉ ps →
      FlowShape [.enq d (.signal ob sg q), .pubSend ps ob sg q]

structure FlowInv (s : State) : Prop where
  shape : ∀ th, FlowShape (netOps (s.prog th))
  ident : ∀ th op p, op ∈ s.prog th → op.netPub = some p → th = .user p.c p.tid
  bound : ∀ th op p, op ∈ s.prog th → op.netPub = some p → p.seq < s.nextSeq p.tid
  rnodup : ∀ c k, ((s.ctx c).rsubs k).Nodup

theorem flowInv_init : FlowInv State.init := by
  constructor
  · intro th; exact FlowShape.none
  · intro th op p h; simp [State.init] at h
  · intro th op p h; simp [State.init] at h
  · intro c k; simp [State.init, CtxSt.init]

theorem rnodup_micro {s s' : State} {th : Th} {ch ch2 : Nat} {op : MOp} {rest : List MOp} {o : Out}
    (h : ∀ c k, ((s.ctx c).rsubs k).Nodup) (hs : microStep s th ch ch2 op rest = some (s', o)) :
    ∀ c k, ((s'.ctx c).rsubs k).Nodup := by
  by_cases hr : op.isRsub = true
  · cases op <;> simp only [MOp.isRsub] at hr <;> (try contradiction) <;> simp only [microStep] at hs
    all_goals (try (split at hs))
    all_goals (simp only [Option.some.injEq, Prod.mk.injEq] at hs; obtain ⟨rfl, -⟩ := hs)
    all_goals (intro c k; simp only [setProg_ctx, setCtx_ctx]; split)
    all_goals (try exact h c k)
    all_goals (rename_i e; subst e; simp only [upd, peerRemovedStep])
    all_goals (try split)
    all_goals (try split)
    all_goals first
      | exact h _ _
      | exact List.nodup_nil
      | exact (h _ _).filter _
      | (rw [List.nodup_append]; refine ⟨h _ _, by simp, ?_⟩; intro a ha b hb; simp at hb; subst hb; intro e; subst e; contradiction)
      | skip
  · intro c k; rw [(microStep_fields hs).rsubs (by simpa using hr)]; exact h c k

theorem nodup_erase_not_mem {l : List Peer} (h : l.Nodup) (d : Peer) : d ∉ l.erase d := by
  intro hm
  exact (List.Nodup.mem_erase_iff h).1 hm |>.1 rfl

/-- what the three network operations of `publish_signal` do to the program of their thread -/
theorem microStep_net_prog {s s' : State} {th : Th} {ch ch2 : Nat} {op : MOp} {rest : List MOp} {o : Out} {q : Pub}
    (hop : op.netPub = some q)
    (hsh : FlowShape (netOps (op :: rest))) (hrn : ∀ k, ((s.ctx th.ctx).rsubs k).Nodup)
    (hs : microStep s th ch ch2 op rest = some (s', o)) :
    FlowShape (netOps (s'.prog th)) ∧ ∀ op' ∈ s'.prog th, op' ∈ rest ∨ op'.netPub = some q := by
  rw [netOps_cons_some hop] at hsh
  cases op <;> simp only [MOp.netPub] at hop <;> try contradiction
  case snapRemote ob sg p =>
    simp only [Option.some.injEq] at hop; subst hop
    have hr0 : netOps rest = [] := by
      generalize hn : netOps rest = nr at hsh; cases hsh; rfl
    simp only [microStep, Option.some.injEq, Prod.mk.injEq] at hs
    obtain ⟨rfl, -⟩ := hs
    simp only [setProg_prog, if_true]
    split
    · exact ⟨by rw [hr0]; exact FlowShape.none, fun op' h => Or.inl h⟩
    · refine ⟨?_, ?_⟩
      · rw [netOps_cons_some (p := p) rfl, hr0]; exact FlowShape.ps _ _ _ _ (hrn _)
      · intro op' h; rcases List.mem_cons.1 h with rfl | h
        · exact Or.inr rfl
        · exact Or.inl h
  case pubSend ps ob sg p =>
    simp only [Option.some.injEq] at hop; subst hop
    have hr0 : netOps rest = [] ∧ ps.Nodup := by
      generalize hn : netOps rest = nr at hsh; cases hsh; exact ⟨rfl, ‹_›⟩
    simp only [microStep] at hs
    split at hs
    · simp at hs
    · rename_i d hfind
      have hnd := hr0.2.erase d
      have hni := nodup_erase_not_mem hr0.2 d
      split at hs <;> (simp only [Option.some.injEq, Prod.mk.injEq] at hs; obtain ⟨rfl, -⟩ := hs) <;>
        simp only [State.setProg, upd, if_true] <;> split
      · refine ⟨?_, ?_⟩
        · rw [netOps_cons_some (p := p) rfl, hr0.1]; exact FlowShape.enq _ _ _ _
        · intro op' h; rcases List.mem_cons.1 h with rfl | h
          · exact Or.inr rfl
          · exact Or.inl h
      · refine ⟨?_, ?_⟩
        · rw [netOps_cons_some (p := p) rfl, netOps_cons_some (p := p) rfl, hr0.1]; exact FlowShape.both _ _ _ _ _ hnd hni
        · intro op' h; rcases List.mem_cons.1 h with rfl | h
          · exact Or.inr rfl
          · rcases List.mem_cons.1 h with rfl | h
            · exact Or.inr rfl
            · exact Or.inl h
      · exact ⟨by rw [hr0.1]; exact FlowShape.none, fun op' h => Or.inl h⟩
      · refine ⟨?_, ?_⟩
        · rw [netOps_cons_some (p := p) rfl, hr0.1]; exact FlowShape.ps _ _ _ _ hnd
        · intro op' h; rcases List.mem_cons.1 h with rfl | h
          · exact Or.inr rfl
          · exact Or.inl h
  case enq d m =>
    have hr0 : FlowShape (netOps rest) := by
      cases m <;> simp only [msgPub] at hop <;> try contradiction
      generalize hn : netOps rest = nr at hsh
      cases hsh with
      | enq => exact FlowShape.none
      | both d ps ob sg q h1 h2 => exact FlowShape.ps _ _ _ _ h1
    simp only [microStep, Option.some.injEq, Prod.mk.injEq] at hs
    obtain ⟨rfl, -⟩ := hs
    simp only [setProg_prog, if_true]
    exact ⟨hr0, fun op' h => Or.inl h⟩

theorem flowInv_micro {s s' : State} {th : Th} {ch ch2 : Nat} {op : MOp} {rest : List MOp} {o : Out}
    (h : FlowInv s) (hprog : s.prog th = op :: rest) (hs : microStep s th ch ch2 op rest = some (s', o)) : FlowInv s' := by
  have hf := microStep_frame hs
  have hsh := h.shape th
  rw [hprog] at hsh
  -- the program of the acting thread
  have key : FlowShape (netOps (s'.prog th)) ∧
      ∀ op' ∈ s'.prog th, ∀ p, op'.netPub = some p → ∃ op0 ∈ s.prog th, op0.netPub = some p := by
    cases hq : op.netPub with
    | none =>
      obtain ⟨x, hx, e | ⟨e, -⟩⟩ := microStep_netShape hq hs
      · rw [e, netOps_append, netOps_free hx]
        rw [netOps_cons_none hq] at hsh
        refine ⟨hsh, ?_⟩
        intro op' hm p hp
        rcases List.mem_append.1 hm with h1 | h1
        · rw [(hx op' h1).1] at hp; cases hp
        · exact ⟨op', by rw [hprog]; exact List.mem_cons_of_mem _ h1, hp⟩
      · rw [e, netOps_free hx]
        refine ⟨FlowShape.none, ?_⟩
        intro op' hm p hp
        rw [(hx op' hm).1] at hp; cases hp
    | some q =>
      obtain ⟨k1, k2⟩ := microStep_net_prog hq hsh (h.rnodup th.ctx) hs
      refine ⟨k1, ?_⟩
      intro op' hm p hp
      rcases k2 op' hm with h1 | h1
      · exact ⟨op', by rw [hprog]; exact List.mem_cons_of_mem _ h1, hp⟩
      · rw [h1] at hp; simp only [Option.some.injEq] at hp; subst hp
        exact ⟨op, by rw [hprog]; exact List.mem_cons_self, hq⟩
  constructor
  · intro th'
    by_cases e : th' = th
    · subst e; exact key.1
    · rw [hf.prog_other _ e]; exact h.shape th'
  · intro th' op' p hm hp
    by_cases e : th' = th
    · subst e
      obtain ⟨op0, h0, h1⟩ := key.2 op' hm p hp
      exact h.ident _ op0 p h0 h1
    · rw [hf.prog_other _ e] at hm; exact h.ident th' op' p hm hp
  · intro th' op' p hm hp
    rw [hf.nextSeq]
    by_cases e : th' = th
    · subst e
      obtain ⟨op0, h0, h1⟩ := key.2 op' hm p hp
      exact h.bound _ op0 p h0 h1
    · rw [hf.prog_other _ e] at hm; exact h.bound th' op' p hm hp
  · exact rnodup_micro h.rnodup hs

theorem netFree_beginProg_other (c : Ctx) (t : Tid) (n : Nat) (o : Op) (h : ∀ ob sg, o ≠ .publish ob sg) :
    netOps (beginProg c t n o) = [] ∧ ∀ op ∈ beginProg c t n o, op.netPub = none := by
  cases o with
  | publish ob sg => exact absurd rfl (h ob sg)
  | _ => simp only [beginProg] <;> (try split) <;> simp [netOps, MOp.netPub, msgPub]

theorem netFree_dispatch (src : Peer) (m : Msg) : ∀ op ∈ dispatch src m, op.netPub = none := by
  cases m with
  | subReq id ob sg b => cases b <;> simp [dispatch, MOp.netPub, msgPub]
  | _ => simp [dispatch, MOp.netPub, msgPub]

/-- a step that only starts a program without network operations of `publish_signal` -/
theorem FlowInv.setFree {s s' : State} (h : FlowInv s) (th : Th) (pr : List MOp) (hpr : ∀ op ∈ pr, op.netPub = none)
    (hp : ∀ x, s'.prog x = if x = th then pr else s.prog x) (hq : s'.nextSeq = s.nextSeq)
    (hr : ∀ c, (s'.ctx c).rsubs = (s.ctx c).rsubs) : FlowInv s' := by
  constructor
  · intro x; rw [hp]; split
    · have : netOps pr = [] := by
        simp only [netOps, List.filter_eq_nil_iff]; intro op ho; simp [hpr op ho]
      rw [this]; exact FlowShape.none
    · exact h.shape x
  · intro x op p hm hq'; rw [hp] at hm; split at hm
    · rw [hpr op hm] at hq'; cases hq'
    · exact h.ident x op p hm hq'
  · intro x op p hm hq'; rw [hp] at hm; rw [hq]; split at hm
    · rw [hpr op hm] at hq'; cases hq'
    · exact h.bound x op p hm hq'
  · intro c k; rw [hr]; exact h.rnodup c k

theorem FlowInv.congr {s s' : State} (h : FlowInv s) (hp : s'.prog = s.prog) (hq : s'.nextSeq = s.nextSeq)
    (hr : ∀ c, (s'.ctx c).rsubs = (s.ctx c).rsubs) : FlowInv s' :=
  ⟨fun th => by rw [hp]; exact h.shape th, fun th op p hm => by rw [hp] at hm; exact h.ident th op p hm,
   fun th op p hm => by rw [hp] at hm; rw [hq]; exact h.bound th op p hm, fun c k => by rw [hr]; exact h.rnodup c k⟩

theorem flowInv_nstep {s s' : State} (h : FlowInv s) (hs : NStep s s') : FlowInv s' := by
  cases hs
  case beginPub c t ob sg _ hidle =>
    constructor
    · intro x; simp only [setProg_prog]; split
      · simp only [beginProg, netOps, MOp.netPub, List.filter, Option.isSome]; exact FlowShape.sr _ _ _
      · exact h.shape x
    · intro x op p hm hq; simp only [setProg_prog] at hm; split at hm
      · rename_i e; subst e
        simp only [beginProg, List.mem_cons, List.not_mem_nil, or_false] at hm
        rcases hm with rfl | rfl | rfl <;> simp only [MOp.netPub] at hq <;> (try cases hq)
        rfl
      · exact h.ident x op p hm hq
    · intro x op p hm hq; simp only [setProg_prog] at hm
      have mono : ∀ p : Pub, p.seq < s.nextSeq p.tid → p.seq < upd s.nextSeq t (s.nextSeq t + 1) p.tid := by
        intro p hp; simp only [upd]; split
        · rename_i e; rw [e] at hp; exact Nat.lt_succ_of_lt hp
        · exact hp
      split at hm
      · rename_i e; subst e
        simp only [beginProg, List.mem_cons, List.not_mem_nil, or_false] at hm
        rcases hm with rfl | rfl | rfl <;> simp only [MOp.netPub] at hq <;> (try cases hq)
        simp [upd]
      · exact mono p (h.bound x op p hm hq)
    · exact h.rnodup
  case beginOther c t op _ _ hno =>
    exact h.setFree (.user c t) _ (netFree_beginProg_other c t 0 op hno).2 (fun x => by simp only [setProg_prog]) rfl (fun _ => rfl)
  case cbUnknown c d m q _ _ _ _ =>
    exact h.setFree (.sock c) (onSendFail m) (fun op ho => (onSendFail_netFree m op ho).1)
      (fun x => by simp only [setProg_prog, setCtx_prog]) rfl (setCtx_rsubs_of_eq s c _ rfl)
  case cbSent c d m q cn _ _ _ _ =>
    exact h.setFree (.sock c) [] (fun op ho => by simp at ho) (fun x => by simp only [setProg_prog, setCtx_prog]) rfl
      (setCtx_rsubs_of_eq s c _ rfl)
  case cbFail c d m q cn _ _ _ _ _ =>
    exact h.setFree (.sock c) (onSendFail m) (fun op ho => (onSendFail_netFree m op ho).1)
      (fun x => by simp only [setProg_prog, setCtx_prog]) rfl (setCtx_rsubs_of_eq s c _ rfl)
  case cbDiscNone c n t q _ _ _ _ =>
    exact h.setFree (.sock c) [.finish t false] (fun op ho => by simp at ho; subst ho; rfl)
      (fun x => by simp only [setProg_prog, setCtx_prog]) rfl (setCtx_rsubs_of_eq s c _ rfl)
  case cbDisc c n t q cn _ _ _ _ =>
    exact h.setFree (.sock c) [.popPeer n, .peerRemoved n, .closeConn cn n.isName, .finish t true]
      (fun op ho => by simp at ho; rcases ho with rfl | rfl | rfl | rfl <;> rfl)
      (fun x => by simp only [setProg_prog, setCtx_prog]) rfl (setCtx_rsubs_of_eq s c _ rfl)
  case arrive cn cli m ms _ _ _ _ _ =>
    exact h.setFree (.sock ((s.conn cn).half cli).owner) (dispatch (srcName s cn cli) m) (netFree_dispatch _ _)
      (fun x => by simp only [setProg_prog]) rfl (fun _ => rfl)
  case eof cn cli _ _ _ _ _ _ =>
    exact h.setFree (.sock ((s.conn cn).half cli).owner) [.popPeer (srcName s cn cli), .peerRemoved (srcName s cn cli), .closeConn cn cli]
      (fun op ho => by simp at ho; rcases ho with rfl | rfl | rfl <;> rfl)
      (fun x => by simp only [setProg_prog]) rfl (fun _ => rfl)
  case connect a p hne _ _ _ =>
    refine h.congr rfl rfl ?_
    intro c; simp only [setCtx_ctx]; (repeat' split) <;> simp_all
  case routerOk => exact h.congr rfl rfl (fun _ => rfl)
  case stopReq c _ => exact h.congr rfl rfl (setCtx_rsubs_of_eq s c _ rfl)
  case stop c _ => exact h.congr rfl rfl (setCtx_rsubs_of_eq s c _ rfl)

theorem flowInv_reach {s : State} (h : Reach s) : FlowInv s := by
  induction h with
  | init => exact flowInv_init
  | step hr hs ih =>
    rename_i s0 s1 a o
    by_cases ha : ∃ th ch ch2, a = .micro th ch ch2
    · obtain ⟨th, ch, ch2, rfl⟩ := ha
      obtain ⟨-, op, rest, hp, hm⟩ := step_micro_inv hs
      exact flowInv_micro ih hp hm
    · exact flowInv_nstep ih (step_nonmicro_cases (fun th ch ch2 e => ha ⟨th, ch, ch2, e⟩) hs)

end QmiModel.PubSub
