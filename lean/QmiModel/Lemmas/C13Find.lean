import QmiModel.Model.Transport
/-!
# C13 helper lemmas, part 3: `bytearray.find` and "shortest message ending in the terminator"
-/
namespace QmiModel.Transport

/-- `bs` ends with `term` and no proper prefix of `bs` does: the shortest message -/
def Shortest (term bs : Bytes) : Prop :=
  term <:+ bs ∧ ∀ pre, pre <+: bs → pre ≠ bs → ¬ term <:+ pre

/-- `term` occurs nowhere in `l` -/
def NoOcc (term l : Bytes) : Prop := ∀ a b, l ≠ a ++ term ++ b

theorem findSub_none {term : Bytes} : ∀ {l : Bytes}, findSub term l = none → NoOcc term l := by
  intro l
  induction l with
  | nil =>
    intro h a b hab
    simp only [findSub] at h
    split at h
    · cases h
    · rename_i hne
      have h1 : a ++ term ++ b = [] := hab.symm
      simp only [List.append_eq_nil_iff] at h1
      exact hne (by simp [h1.1.2])
  | cons x xs ih =>
    intro h a b hab
    simp only [findSub] at h
    split at h
    · cases h
    · rename_i hpre
      cases hf : findSub term xs with
      | some p => simp [hf] at h
      | none =>
        cases a with
        | nil =>
          apply hpre
          rw [List.isPrefixOf_iff_prefix]
          exact ⟨b, by simpa using hab.symm⟩
        | cons y a' =>
          simp only [List.cons_append, List.cons.injEq] at hab
          exact ih hf a' b hab.2

/-- `find` returns the first occurrence -/
theorem findSub_some {term : Bytes} : ∀ {l : Bytes} {p : Nat}, findSub term l = some p →
    ∃ a b, l = a ++ term ++ b ∧ a.length = p ∧ ∀ a' b', l = a' ++ term ++ b' → p ≤ a'.length := by
  intro l
  induction l with
  | nil =>
    intro p h
    simp only [findSub] at h
    split at h
    · rename_i he
      have : term = [] := by simpa using he
      cases h
      exact ⟨[], [], by simp [this], rfl, fun _ _ _ => Nat.zero_le _⟩
    · cases h
  | cons x xs ih =>
    intro p h
    simp only [findSub] at h
    split at h
    · rename_i hpre
      cases h
      rw [List.isPrefixOf_iff_prefix] at hpre
      obtain ⟨b, hb⟩ := hpre
      exact ⟨[], b, by simpa using hb.symm, rfl, fun _ _ _ => Nat.zero_le _⟩
    · rename_i hpre
      cases hf : findSub term xs with
      | none => simp [hf] at h
      | some p' =>
        simp only [hf, Option.some.injEq] at h
        subst h
        obtain ⟨a, b, hl, hlen, hmin⟩ := ih hf
        refine ⟨x :: a, b, by simp [hl], by simp [hlen], ?_⟩
        intro a' b' hab
        cases a' with
        | nil =>
          exfalso
          apply hpre
          rw [List.isPrefixOf_iff_prefix]
          exact ⟨b', by simpa using hab.symm⟩
        | cons y a'' =>
          simp only [List.cons_append, List.cons.injEq] at hab
          have := hmin a'' b' hab.2
          simp only [List.length_cons]
          omega

theorem shortest_of_first {term l : Bytes} {p : Nat} (h : findSub term l = some p) :
    Shortest term (l.take (p + term.length)) := by
  obtain ⟨a, b, hl, hlen, hmin⟩ := findSub_some h
  have htake : l.take (p + term.length) = a ++ term := by
    rw [hl, ← hlen, List.append_assoc, List.take_append, List.take_of_length_le (by omega)]
    simp
  rw [htake]
  refine ⟨List.suffix_append _ _, ?_⟩
  intro pre hpre hne hsuf
  obtain ⟨c, hc⟩ := hpre
  obtain ⟨a', ha'⟩ := hsuf
  have hcne : c ≠ [] := by
    intro h0; subst h0; simp at hc; exact hne hc
  have hlen2 : pre.length + c.length = a.length + term.length := by
    have := congrArg List.length hc; simpa using this
  have hlen3 : pre.length = a'.length + term.length := by
    have := congrArg List.length ha'; simp at this; omega
  have hc0 : 0 < c.length := List.length_pos_iff.mpr hcne
  have : p ≤ a'.length := hmin a' (c ++ b) (by rw [hl, ← hc, ← ha']; simp)
  omega

/-- a proper prefix of `l ++ b` with `b` at most one byte is a prefix of `l` -/
theorem prefix_of_proper {l b pre : Bytes} (hb : b.length ≤ 1) (hp : pre <+: l ++ b) (hne : pre ≠ l ++ b) :
    pre <+: l := by
  match b, hb with
  | [], _ => simpa using hp
  | [x], _ =>
    rcases List.prefix_concat_iff.1 hp with h | h
    · exact absurd h hne
    · exact h

theorem noOcc_of_suffix_prefix {term l pre : Bytes} (hno : NoOcc term l) (hp : pre <+: l) : ¬ term <:+ pre := by
  intro hs
  obtain ⟨a, ha⟩ := hs
  obtain ⟨c, hc⟩ := hp
  exact hno a c (by rw [ha, hc])

/-- the serial single-byte loop: the buffer had no terminator, one more byte makes it end with one -/
theorem shortest_of_endsWith {term l b : Bytes} (hno : NoOcc term l) (hb : b.length ≤ 1)
    (he : endsWith (l ++ b) term = true) : Shortest term (l ++ b) := by
  simp only [endsWith] at he
  rw [List.isSuffixOf_iff_suffix] at he
  refine ⟨he, ?_⟩
  intro pre hp hne
  exact noOcc_of_suffix_prefix hno (prefix_of_proper hb hp hne)

/-- … or it still has none -/
theorem noOcc_step {term l b : Bytes} (hno : NoOcc term l) (hb : b.length ≤ 1)
    (he : ¬ endsWith (l ++ b) term = true) : NoOcc term (l ++ b) := by
  simp only [endsWith] at he
  rw [List.isSuffixOf_iff_suffix] at he
  intro a c hac
  match b, hb with
  | [], _ => exact hno a c (by simpa using hac)
  | [x], _ =>
    rcases List.eq_nil_or_concat c with hc | ⟨c', y, hc⟩
    · subst hc
      exact he ⟨a, by simpa using hac.symm⟩
    · subst hc
      have h1 : l ++ [x] = (a ++ term ++ c') ++ [y] := by simpa [List.concat_eq_append] using hac
      have h2 := List.append_inj' h1 rfl
      exact hno a c' h2.1

end QmiModel.Transport
