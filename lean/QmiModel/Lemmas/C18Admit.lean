import QmiModel.Lemmas.C18Packet
import QmiModel.Lemmas.C18Utf8
/-! Helper lemmas for C18: what `QMI_Context.__init__` guarantees about the names of a context that exists. -/
namespace QmiModel.Discovery

theorem char_le_toNat {a b : Char} : a ≤ b ↔ a.toNat ≤ b.toNat := by
  rw [Char.le_def]
  exact UInt32.le_iff_toNat_le

theorem nameChar_ascii {c : Char} (h : nameChar c = true) : c.toNat < 128 ∧ c.toNat ≠ 0 := by
  unfold nameChar at h
  simp only [Bool.or_eq_true, Bool.and_eq_true, beq_iff_eq, decide_eq_true_eq, char_le_toNat] at h
  rcases h with (((((rfl | rfl) | rfl) | rfl) | h) | h) | h
  · decide
  · decide
  · decide
  · decide
  · have h1 : ('a' : Char).toNat = 97 := rfl
    have h2 : ('z' : Char).toNat = 122 := rfl
    omega
  · have h1 : ('A' : Char).toNat = 65 := rfl
    have h2 : ('Z' : Char).toNat = 90 := rfl
    omega
  · have h1 : ('0' : Char).toNat = 48 := rfl
    have h2 : ('9' : Char).toNat = 57 := rfl
    omega

theorem utf8EncodeChar_ascii (c : Char) (h : c.toNat < 128) : utf8EncodeChar c = [UInt8.ofNat c.toNat] := by
  unfold utf8EncodeChar
  simp only
  rw [if_pos h]

theorem utf8Encode_ascii_length (s : List Char) (h : ∀ c ∈ s, c.toNat < 128) : (utf8Encode s).length = s.length := by
  induction s with
  | nil => rfl
  | cons c s ih =>
    unfold utf8Encode at *
    rw [List.flatMap_cons, List.length_append, utf8EncodeChar_ascii c (h c List.mem_cons_self),
      ih (fun x hx => h x (List.mem_cons_of_mem _ hx))]
    simp; omega

theorem eq_dropLast_append {α : Type} (l : List α) (x : α) (h : l.getLast? = some x) : l = l.dropLast ++ [x] := by
  induction l with
  | nil => simp at h
  | cons a l ih =>
    cases l with
    | nil => simp at h; simp [h]
    | cons b l =>
      rw [List.getLast?_cons_cons] at h
      have := ih h
      simp only [List.dropLast_cons_cons, List.cons_append]
      rw [← this]

/-- every character of a valid object name is a non-NUL ASCII character -/
theorem validObjectName_chars {L : Layout} {name : List Char} (h : validObjectName L name = true) :
    name.length ≤ L.maxNameChars ∧ ∀ c ∈ name, c.toNat < 128 ∧ c.toNat ≠ 0 := by
  unfold validObjectName at h
  simp only [Bool.and_eq_true, decide_eq_true_eq, List.all_eq_true] at h
  obtain ⟨⟨hlen, _⟩, hall⟩ := h
  refine ⟨hlen, ?_⟩
  intro c hc
  split at hall
  · rename_i hl
    have hsplit : name = name.dropLast ++ ['\n'] := eq_dropLast_append name '\n' hl
    rw [hsplit] at hc
    rcases List.mem_append.1 hc with hc | hc
    · exact nameChar_ascii (hall c hc)
    · simp only [List.mem_singleton] at hc; subst hc; decide
  · exact nameChar_ascii (hall c hc)


theorem contains_zero_false {bs : Bytes} (h : bs.contains 0 = false) : ∀ b ∈ bs, b ≠ 0 := by
  intro b hb hz
  subst hz
  have := List.contains_iff_mem.2 hb
  rw [h] at this
  cases this

/-- the names of a context that could be created fit the fields of the response packet and contain no zero byte -/
theorem admit_fits {L : Layout} (wf : WF L) {name wg : List Char} (h : admitContext L name wg = true) :
    (utf8Encode name).length ≤ L.nameLen ∧ (utf8Encode wg).length ≤ L.wgLen ∧
    (∀ b ∈ utf8Encode name, b ≠ 0) ∧ (∀ b ∈ utf8Encode wg, b ≠ 0) := by
  unfold admitContext at h
  simp only [Bool.and_eq_true, decide_eq_true_eq, Bool.not_eq_true'] at h
  obtain ⟨⟨hv, hlen⟩, hz⟩ := h
  obtain ⟨hn, hch⟩ := validObjectName_chars hv
  refine ⟨?_, hlen, ?_, contains_zero_false hz⟩
  · rw [utf8Encode_ascii_length name (fun c hc => (hch c hc).1)]
    have := wf.name_le
    omega
  · exact utf8Encode_ne_zero name (fun c hc => (hch c hc).2)

theorem admit_fits_cstr {L : Layout} (wf : WF L) {name wg : List Char} (h : admitContext L name wg = true) :
    (cstr (utf8Encode name)).length ≤ L.nameLen ∧ (cstr (utf8Encode wg)).length ≤ L.wgLen := by
  obtain ⟨h1, h2, h3, h4⟩ := admit_fits wf h
  rw [cstr_of_all_ne _ h3, cstr_of_all_ne _ h4]
  exact ⟨h1, h2⟩

end QmiModel.Discovery
