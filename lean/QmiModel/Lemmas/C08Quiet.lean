import QmiModel.Lemmas.C07Unsub
/-! C08: quiescence, the consistency statement, and a locality lemma for concrete runs (contexts / threads that no
action of a run mentions stay in their initial state). -/
namespace QmiModel.PubSub

/-- context `a` has a registered outgoing connection `cn` to context `p` -/
def Linked (s : State) (a p : Ctx) (cn : ConnId) : Prop := (s.ctx a).peers (.name p) = some cn

/-- nothing in flight: every thread of a live context idle, event loops empty, no pending request, every open
end of an existing connection of a live context has read everything and its other end is open (no unprocessed end-of-stream) -/
structure Quiescent (s : State) : Prop where
  idle : ∀ th, (s.ctx th.ctx).alive = true → s.prog th = []
  loops : ∀ c, (s.ctx c).alive = true → (s.ctx c).loopQ = []
  pend : ∀ c id, (s.ctx c).alive = true → (s.ctx c).byId id = none
  conns : ∀ cn cli, cn < s.nextConn → ((s.conn cn).half cli).isOpen = true → (s.ctx ((s.conn cn).half cli).owner).alive = true →
            ((s.conn cn).half cli).inbox = [] ∧ ((s.conn cn).half (!cli)).isOpen = true

/-- the statement of C08: a context transmits a signal to a connected peer exactly when that peer has a receiver on it -/
def Consistent (s : State) : Prop :=
  ∀ a p cn ob sg, (s.ctx a).alive = true → (s.ctx p).alive = true → Linked s a p cn →
    (Peer.alias cn ∈ (s.ctx p).rsubs ⟨ob, sg⟩ ↔ (s.ctx a).lsubs ⟨.name p, ob, sg⟩ ≠ [])

def Th.below (B T : Nat) : Th → Prop
  | .user c t => c < B ∧ t < T
  | .sock c => c < B

def Act.below (B T : Nat) : Act → Prop
  | .begin c t _ => c < B ∧ t < T
  | .micro th _ _ => th.below B T
  | .cb c _ => c < B
  | .arrive _ _ => True
  | .eof _ _ => True
  | .connect a p => a < B ∧ p < B
  | .routerOk th => th.below B T
  | .stopReq c => c < B
  | .stop c => c < B

def OwnersBelow (s : State) (B : Nat) : Prop := ∀ cn cli, ((s.conn cn).half cli).owner < B

theorem Th.below_ctx {B T : Nat} {th : Th} (h : th.below B T) : th.ctx < B := by
  cases th <;> simp_all [Th.below, Th.ctx]

set_option maxHeartbeats 1000000 in
theorem microStep_owner {s s' : State} {th : Th} {ch ch2 : Nat} {op : MOp} {rest : List MOp} {o : Out}
    (hs : microStep s th ch ch2 op rest = some (s', o)) : ∀ cn cli, ((s'.conn cn).half cli).owner = ((s.conn cn).half cli).owner := by
  cases op <;> simp only [microStep] at hs
  all_goals (try (split at hs))
  all_goals (try (split at hs))
  all_goals (try (split at hs))
  all_goals (try (split at hs))
  all_goals (try (simp at hs))
  all_goals (try (obtain ⟨rfl, -⟩ := hs))
  all_goals (intro cn cli)
  all_goals (try rfl)
  all_goals (simp only [setProg_conn, upd])
  all_goals (split <;> (try rfl))
  all_goals (rename_i e; subst e; cases cli <;> rename_i c2 <;> cases c2 <;> simp [Conn.half, Conn.setHalf])

theorem smSendStep_owner {s s1 : State} {c : Ctx} {d : Peer} {m : Msg} {ok : Bool} {pr : List MOp}
    (h : smSendStep s c d m ok = some (s1, pr)) : ∀ cn cli, ((s1.conn cn).half cli).owner = ((s.conn cn).half cli).owner := by
  unfold smSendStep at h
  dsimp only at h
  split at h
  · simp only [Option.some.injEq, Prod.mk.injEq] at h
    obtain ⟨rfl, rfl⟩ := h
    intro cn cli; rfl
  · split at h
    · simp only [Option.some.injEq, Prod.mk.injEq] at h
      obtain ⟨rfl, rfl⟩ := h
      intro cn cli
      simp only [upd]
      split
      · rename_i e; subst e
        cases cli <;> cases d <;> (split <;> (try split) <;> simp [Conn.half, Conn.setHalf, Peer.isName])
      · rfl
    · split at h
      · simp at h
      · simp only [Option.some.injEq, Prod.mk.injEq] at h
        obtain ⟨rfl, rfl⟩ := h
        intro cn cli; rfl


theorem ne_of_le_of_lt {B c c' : Nat} (h1 : B ≤ c') (h2 : c < B) : c' ≠ c := by omega

/-- one step of a bounded action leaves contexts `≥ B` and threads outside the bound alone -/
theorem step_bounded {s s' : State} {a : Act} {o : Out} {B T : Nat} (hB : 0 < B)
    (hs : step s a = some (s', o)) (ha : a.below B T) (ho : OwnersBelow s B) :
    OwnersBelow s' B ∧ (∀ c, B ≤ c → s'.ctx c = s.ctx c) ∧ (∀ th, ¬ th.below B T → s'.prog th = s.prog th) := by
  cases a with
  | micro th ch ch2 =>
    obtain ⟨-, op, rest, -, hm⟩ := step_micro_inv hs
    have hf := microStep_frame hm
    have hown := microStep_owner hm
    simp only [Act.below] at ha
    refine ⟨fun cn cli => by rw [hown]; exact ho cn cli, ?_, ?_⟩
    · intro c hc
      exact hf.ctx_other c (ne_of_le_of_lt hc (Th.below_ctx ha))
    · intro th' hn
      exact hf.prog_other th' (fun e => hn (e ▸ ha))
  | begin c t op =>
    simp only [Act.below] at ha
    simp only [step] at hs
    split at hs
    · cases op <;> simp at hs <;> obtain ⟨rfl, -⟩ := hs <;>
        (refine ⟨ho, fun c' _ => rfl, fun th' hn => ?_⟩
         simp only [setProg_prog, State.setProg, upd]
         split
         · rename_i e; subst e; exact absurd ha hn
         · rfl)
    · simp at hs
  | cb c ok =>
    simp only [Act.below] at ha
    simp only [step] at hs
    split at hs
    · split at hs
      · simp at hs
      · split at hs
        · simp at hs
        · rename_i heq
          obtain ⟨hcx, hpx, -, -, -, -⟩ := smSendStep_frame heq
          have hown := smSendStep_owner heq
          simp only [Option.some.injEq, Prod.mk.injEq] at hs
          obtain ⟨rfl, -⟩ := hs
          refine ⟨fun cn cli => ?_, fun c' hc' => ?_, fun th' hn => ?_⟩
          · simp only [setProg_conn]; rw [hown]; exact ho cn cli
          · simp only [setProg_ctx, hcx, setCtx_ctx]
            have : c' ≠ c := ne_of_le_of_lt hc' ha
            simp [this]
          · simp only [setProg_prog, hpx, setCtx_prog]
            split
            · rename_i e; subst e; exact absurd ha hn
            · rfl
      · split at hs
        all_goals
          simp at hs; obtain ⟨rfl, -⟩ := hs
          refine ⟨ho, fun c' hc' => ?_, fun th' hn => ?_⟩
          · simp only [setProg_ctx, setCtx_ctx]
            have : c' ≠ c := ne_of_le_of_lt hc' ha
            simp [this]
          · simp only [setProg_prog, setCtx_prog]
            split
            · rename_i e; subst e; exact absurd ha hn
            · rfl
    · simp at hs
  | arrive cn cli =>
    simp only [step] at hs
    split at hs
    · split at hs
      · simp at hs
      · simp only [Option.some.injEq, Prod.mk.injEq] at hs
        obtain ⟨rfl, -⟩ := hs
        refine ⟨fun cn' cli' => ?_, fun c' _ => rfl, fun th' hn => ?_⟩
        · have h0 := ho cn' cli'
          have h1 := ho cn cli
          simp only [State.setProg, upd]
          split
          · rename_i e; subst e
            rename_i m ms _
            cases m <;> cases cli <;> cases cli' <;> simp_all [Conn.half, Conn.setHalf] <;> (try split) <;> simp_all
          · exact h0
        · simp only [State.setProg, upd]
          split
          · rename_i e; subst e
            exact absurd (ho cn cli) hn
          · rfl
    · simp at hs
  | eof cn cli =>
    simp only [step] at hs
    split at hs
    · simp only [Option.some.injEq, Prod.mk.injEq] at hs
      obtain ⟨rfl, -⟩ := hs
      refine ⟨ho, fun c' _ => rfl, fun th' hn => ?_⟩
      simp only [setProg_prog]
      split
      · rename_i e; subst e; exact absurd (ho cn cli) hn
      · rfl
    · simp at hs
  | connect a p =>
    simp only [Act.below] at ha
    simp only [step] at hs
    split at hs
    · simp only [Option.some.injEq, Prod.mk.injEq] at hs
      obtain ⟨rfl, -⟩ := hs
      refine ⟨fun cn' cli' => ?_, fun c' hc' => ?_, fun th' _ => rfl⟩
      · simp only [setCtx_conn, upd]
        split
        · cases cli' <;> simp [Conn.half, ha.1, ha.2]
        · exact ho cn' cli'
      · simp only [setCtx_ctx]
        have h1 : c' ≠ a := ne_of_le_of_lt hc' ha.1
        have h2 : c' ≠ p := ne_of_le_of_lt hc' ha.2
        simp [h1, h2]
    · simp at hs
  | routerOk c =>
    simp only [step] at hs
    split at hs
    · simp only [Option.some.injEq, Prod.mk.injEq] at hs
      obtain ⟨rfl, -⟩ := hs
      exact ⟨ho, fun _ _ => rfl, fun _ _ => rfl⟩
    · simp at hs
  | stopReq c =>
    simp only [Act.below] at ha
    simp only [step] at hs
    split at hs
    · simp only [Option.some.injEq, Prod.mk.injEq] at hs
      obtain ⟨rfl, -⟩ := hs
      refine ⟨fun cn' cli' => ?_, fun c' hc' => ?_, fun th' _ => rfl⟩
      · have h0 := ho cn' cli'
        have h1 := ho cn' true
        have h2 := ho cn' false
        cases cli' <;> simp only [Conn.half] at h0 h1 h2 ⊢ <;> (repeat' split) <;> simp_all
      · simp only [setCtx_ctx]
        have : c' ≠ c := ne_of_le_of_lt hc' ha
        simp [this]
    · simp at hs
  | stop c =>
    simp only [Act.below] at ha
    simp only [step] at hs
    split at hs
    · simp only [Option.some.injEq, Prod.mk.injEq] at hs
      obtain ⟨rfl, -⟩ := hs
      refine ⟨fun cn' cli' => ?_, fun c' hc' => ?_, fun th' _ => rfl⟩
      · have h0 := ho cn' cli'
        have h1 := ho cn' true
        have h2 := ho cn' false
        cases cli' <;> simp only [Conn.half] at h0 h1 h2 ⊢ <;> (repeat' split) <;> simp_all
      · simp only [setCtx_ctx]
        have : c' ≠ c := ne_of_le_of_lt hc' ha
        simp [this]
    · simp at hs

/-- contexts / threads outside the bound of a run keep their initial state -/
theorem run_bounded {B T : Nat} (hB : 0 < B) : ∀ (as : List Act) {s s' : State}, run s as = some s' →
    (∀ a ∈ as, a.below B T) → OwnersBelow s B →
    (∀ c, B ≤ c → s'.ctx c = s.ctx c) ∧ (∀ th, ¬ th.below B T → s'.prog th = s.prog th) := by
  intro as
  induction as with
  | nil => intro s s' h _ _; simp only [run, Option.some.injEq] at h; subst h; exact ⟨fun _ _ => rfl, fun _ _ => rfl⟩
  | cons a as ih =>
    intro s s' h hall ho
    simp only [run] at h
    split at h
    · rename_i s1 o heq
      obtain ⟨ho1, h1, h2⟩ := step_bounded hB heq (hall a List.mem_cons_self) ho
      obtain ⟨h3, h4⟩ := ih h (fun a' ha' => hall a' (List.mem_cons_of_mem _ ha')) ho1
      exact ⟨fun c hc => by rw [h3 c hc, h1 c hc], fun th hn => by rw [h4 th hn, h2 th hn]⟩
    · simp at h

end QmiModel.PubSub
