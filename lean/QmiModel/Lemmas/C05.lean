import QmiModel.Model.RpcClass

/-! Helper lemmas for C05 (`Props/C05.lean`): list lookups along the MRO, the per-name form of the property,
membership lemmas for the syntactic cleanliness checks.  Core Lean only. -/
namespace QmiModel.RpcClass

theorem lookup_none_of_not_mem {β : Type} (t : List (Name × β)) (n : Name) (h : n ∉ tableKeys t) :
    lookup t n = none := by
  induction t with
  | nil => rfl
  | cons a r ih =>
    obtain ⟨k, v⟩ := a
    simp only [tableKeys, List.mem_cons, not_or] at h
    simp only [lookup]
    rw [if_neg (fun e => h.1 e.symm)]
    exact ih h.2

theorem resolve_none_of_not_mem (ts : List Table) (n : Name) (h : n ∉ keysOf ts) : resolve ts n = none := by
  induction ts with
  | nil => rfl
  | cons t r ih =>
    simp only [keysOf, List.mem_append, not_or] at h
    simp only [resolve, lookup_none_of_not_mem t n h.1]
    exact ih h.2

theorem mem_keys_of_resolve_some (ts : List Table) (n : Name) (k : Kind) (h : resolve ts n = some k) :
    n ∈ keysOf ts := by
  apply Classical.byContradiction
  intro hn
  rw [resolve_none_of_not_mem ts n hn] at h
  cases h

theorem mem_dedup (a : Name) (l : List Name) : a ∈ dedup l ↔ a ∈ l := by
  induction l with
  | nil => simp [dedup]
  | cons b l ih =>
    simp only [dedup]
    by_cases hb : b ∈ l
    · rw [if_pos hb, ih, List.mem_cons]
      constructor
      · exact Or.inr
      · rintro (rfl | h)
        · exact hb
        · exact h
    · rw [if_neg hb, List.mem_cons, List.mem_cons, ih]

/-- membership in the advertised list is exactly the class-level marker test of `make_interface_descriptor` -/
theorem mem_advertised_iff (C : RpcClass) (n : Name) : n ∈ advertised C ↔ isAdvertised C n = true := by
  unfold advertised
  rw [mem_dedup, List.mem_filter]
  constructor
  · exact fun h => h.2
  · intro h
    refine ⟨?_, h⟩
    unfold isAdvertised at h
    cases hr : resolve C.mro n with
    | none => rw [hr] at h; cases h
    | some k => exact mem_keys_of_resolve_some C.mro n k hr

theorem instLookup_of_unknown (C : RpcClass) (n : Name) (hn : n ∉ allNames C) : instLookup C n = .absent := by
  simp only [allNames, List.mem_append, not_or] at hn
  have h1 : resolve C.mro n = none := resolve_none_of_not_mem C.mro n hn.1
  have h2 : lookup C.inst n = none := lookup_none_of_not_mem C.inst n hn.2
  simp only [instLookup, h1, h2]

theorem isAdvertised_of_unknown (C : RpcClass) (n : Name) (hn : n ∉ allNames C) : isAdvertised C n = false := by
  simp only [allNames, List.mem_append, not_or] at hn
  simp only [isAdvertised, resolve_none_of_not_mem C.mro n hn.1]

/-- the static lookup fails only for names that are no class member -/
theorem resolve_none_of_instLookup_absent (C : RpcClass) (n : Name) (hg : instLookup C n = .absent) :
    resolve C.mro n = none := by
  cases hr : resolve C.mro n with
  | none => rfl
  | some k =>
    cases k <;> (cases hl : lookup C.inst n <;> simp [instLookup, hr, hl] at hg)

/-- without an instance attribute of that name the dispatch test *is* the descriptor's test -/
theorem instLookup_of_unshadowed (C : RpcClass) (n : Name) (hl : lookup C.inst n = none) :
    instLookup C n = .absent ∧ isAdvertised C n = false ∨ instLookup C n = .value (isAdvertised C n) := by
  cases hr : resolve C.mro n with
  | none => left; simp [instLookup, isAdvertised, hr, hl]
  | some k => right; cases k <;> simp [instLookup, isAdvertised, isRpcMember, hr, hl]

theorem propertyAt_of_nameOk (C : RpcClass) (n : Name) (h : nameOk C n = true) : PropertyAt C n := by
  unfold PropertyAt
  rw [mem_advertised_iff]
  unfold nameOk at h
  unfold invokable effects reply
  cases hg : instLookup C n with
  | absent =>
    have hr := resolve_none_of_instLookup_absent C n hg
    have ha : isAdvertised C n = false := by simp only [isAdvertised, hr]
    simp [ha]
  | value m =>
    rw [hg] at h
    simp only [Bool.and_eq_true, beq_iff_eq, Bool.or_eq_true, Bool.not_eq_true', Option.isNone_iff_eq_none] at h
    obtain ⟨h1, h2⟩ := h
    cases m with
    | false => simp [← h1]
    | true =>
      rcases h2 with h2 | h2
      · cases h2
      · simp [← h1, h2.1, h2.2]

theorem nameOk_of_propertyAt (C : RpcClass) (n : Name) (h : PropertyAt C n) :
    nameOk C n = true := by
  unfold PropertyAt at h
  rw [mem_advertised_iff] at h
  unfold invokable effects reply at h
  unfold nameOk
  cases hg : instLookup C n with
  | absent => rfl
  | value m =>
    rw [hg] at h
    cases m with
    | false =>
      have h1 : ¬ isAdvertised C n = true := fun e => by simpa using h.1.2 e
      simp [h1]
    | true =>
      have h1 : isAdvertised C n = true := h.1.1 rfl
      have h2 := h.2.1 rfl
      simp [h1, h2.1, h2.2]

theorem nameOk_of_wfExcept (C : RpcClass) (bad : List Name) (h : WellFormedExcept C bad) (n : Name)
    (hn : n ∈ allNames C) (hb : n ∉ bad) : nameOk C n = true := by
  unfold WellFormedExcept wfExceptB at h
  simp only [Bool.and_eq_true, List.all_eq_true, Bool.or_eq_true] at h
  rcases h.1 n hn with hc | hk
  · exact absurd (List.contains_iff_mem.mp hc) hb
  · exact hk

theorem mem_of_lookup_some {β : Type} (t : List (Name × β)) (n : Name) (v : β) (h : lookup t n = some v) :
    (n, v) ∈ t := by
  induction t with
  | nil => cases h
  | cons a r ih =>
    obtain ⟨k, w⟩ := a
    simp only [lookup] at h
    by_cases e : k = n
    · rw [if_pos e] at h
      injection h with h
      subst h; subst e
      exact List.mem_cons_self ..
    · rw [if_neg e] at h
      exact List.mem_cons_of_mem _ (ih h)

theorem mem_of_resolve_some (ts : List Table) (n : Name) (k : Kind) (h : resolve ts n = some k) :
    ∃ t, t ∈ ts ∧ (n, k) ∈ t := by
  induction ts with
  | nil => cases h
  | cons t r ih =>
    simp only [resolve] at h
    cases hl : lookup t n with
    | some k' =>
      rw [hl] at h
      injection h with h
      subst h
      exact ⟨t, List.mem_cons_self .., mem_of_lookup_some t n k' hl⟩
    | none =>
      rw [hl] at h
      obtain ⟨t', ht', hm⟩ := ih h
      exact ⟨t', List.mem_cons_of_mem _ ht', hm⟩

theorem tableClean_mem (bad : List Name) (t : Table) (h : tableCleanExcept bad t = true) (n : Name) (k : Kind)
    (hm : (n, k) ∈ t) : n ∈ bad ∨ cleanKind k = true := by
  induction t with
  | nil => cases hm
  | cons a r ih =>
    obtain ⟨n', k'⟩ := a
    simp only [tableCleanExcept, Bool.and_eq_true, Bool.or_eq_true] at h
    rcases List.mem_cons.mp hm with e | e
    · injection e with e1 e2
      subst e1; subst e2
      rcases h.1 with hc | hc
      · exact Or.inl (List.contains_iff_mem.mp hc)
      · exact Or.inr hc
    · exact ih h.2 e

theorem tablesClean_mem (bad : List Name) (ts : List Table) (h : tablesCleanExcept bad ts = true) (t : Table)
    (ht : t ∈ ts) : tableCleanExcept bad t = true := by
  induction ts with
  | nil => cases ht
  | cons a r ih =>
    simp only [tablesCleanExcept, Bool.and_eq_true] at h
    rcases List.mem_cons.mp ht with e | e
    · subst e; exact h.1
    · exact ih h.2 e

theorem instClean_mem (C : RpcClass) (bad : List Name) (l : List (Name × Bool)) (h : instCleanExcept C bad l = true)
    (n : Name) (m : Bool) (hm : (n, m) ∈ l) : n ∈ bad ∨ (m = false ∧ isAdvertised C n = false) := by
  induction l with
  | nil => cases hm
  | cons a r ih =>
    obtain ⟨n', m'⟩ := a
    simp only [instCleanExcept, Bool.and_eq_true, Bool.or_eq_true, Bool.not_eq_true'] at h
    rcases List.mem_cons.mp hm with e | e
    · injection e with e1 e2
      subst e1; subst e2
      rcases h.1 with hc | hc
      · exact Or.inl (List.contains_iff_mem.mp hc)
      · exact Or.inr hc
    · exact ih h.2 e

theorem nameOk_of_clean (C : RpcClass) (n : Name)
    (hk : ∀ k, resolve C.mro n = some k → cleanKind k = true)
    (hi : ∀ m, lookup C.inst n = some m → m = false ∧ isAdvertised C n = false) : nameOk C n = true := by
  cases hl : lookup C.inst n with
  | some m =>
    obtain ⟨hm, ha⟩ := hi m hl
    subst hm
    cases hr : resolve C.mro n with
    | none => simp [nameOk, instLookup, hr, hl, ha]
    | some k => cases k <;> simp [nameOk, instLookup, hr, hl, ha]
  | none =>
    cases hr : resolve C.mro n with
    | none => simp [nameOk, instLookup, hr, hl]
    | some k =>
      have hck := hk k hr
      cases k <;> simp [cleanKind] at hck <;>
        simp [nameOk, instLookup, isAdvertised, isRpcMember, declared, hr, hl, hck]

/-- every name is either member of the tables / the instance dict, or unknown to the object -/
theorem propertyAt_of_wfExcept (C : RpcClass) (bad : List Name) (h : WellFormedExcept C bad) (n : Name)
    (hb : n ∉ bad) : PropertyAt C n := by
  by_cases hn : n ∈ allNames C
  · exact propertyAt_of_nameOk C n (nameOk_of_wfExcept C bad h n hn hb)
  · apply propertyAt_of_nameOk
    simp only [nameOk, instLookup_of_unknown C n hn]

end QmiModel.RpcClass
