import QmiModel.Lemmas.C14
import QmiModel.Gen.TransportTables
/-!
# Helper lemmas for the round-trip theorems of C14 (core Lean only)
-/
namespace QmiModel.Descriptor

/-! ## the splitter on well-formed text -/

/-- a part that alternative 3 reads back unchanged: non-empty, no colon, not starting a bracket group -/
def Plain (p : Str) : Prop := p ≠ [] ∧ (∀ c ∈ p, c ≠ ':') ∧ p.head? ≠ some '['

/-- `":" ++ p₁ ++ ":" ++ p₂ …` -/
def joinTail : List Str → Str
  | [] => []
  | p :: ps => ':' :: (p ++ joinTail ps)

theorem tokOf_append (p r : Str) (hp : ∀ c ∈ p, c ≠ ':') (hr : r = [] ∨ r.head? = some ':') :
    tokOf (p ++ r) = p := by
  unfold tokOf
  induction p with
  | nil =>
    rcases hr with rfl | hr
    · rfl
    · cases r with
      | nil => rfl
      | cons c r' => simp only [List.head?_cons, Option.some.injEq] at hr; subst hr; simp
  | cons c p ih =>
    have hc : c ≠ ':' := hp c List.mem_cons_self
    simp only [List.cons_append, List.takeWhile_cons, bne_iff_ne, ne_eq, hc, not_false_eq_true, if_true]
    rw [ih (fun c' hc' => hp c' (List.mem_cons_of_mem _ hc'))]

theorem scan_skip (xs ys : Str) : scan xs.length (xs ++ ys) = scan 0 ys := by
  induction xs with
  | nil => rfl
  | cons x xs ih => simp only [List.length_cons, List.cons_append, scan]; exact ih

theorem scan_colon_plain (p r : Str) (hp : Plain p) (hr : r = [] ∨ r.head? = some ':') :
    scan 0 (':' :: (p ++ r)) = p :: scan 0 r := by
  obtain ⟨hne, hnc, hb⟩ := hp
  have htok := tokOf_append p r hnc hr
  cases p with
  | nil => exact absurd rfl hne
  | cons c p' =>
    have hcb : (c == '[') = false := by
      simp only [List.head?_cons, ne_eq, Option.some.injEq] at hb
      simpa using hb
    simp only [scan, beq_self_eq_true, if_true, List.cons_append, matchAfterColon, hcb, Bool.false_eq_true, if_false]
    simp only [alt3]
    rw [← List.cons_append, htok]
    simp only [List.isEmpty_cons, Bool.false_eq_true, if_false]
    rw [scan_skip]

theorem joinTail_head (ps : List Str) : joinTail ps = [] ∨ (joinTail ps).head? = some ':' := by
  cases ps with
  | nil => exact Or.inl rfl
  | cons p ps => exact Or.inr rfl

theorem scan_joinTail (ps : List Str) (h : ∀ p ∈ ps, Plain p) : scan 0 (joinTail ps) = ps := by
  induction ps with
  | nil => rfl
  | cons p ps ih =>
    simp only [joinTail]
    rw [scan_colon_plain p (joinTail ps) (h p List.mem_cons_self) (joinTail_head ps)]
    rw [ih (fun q hq => h q (List.mem_cons_of_mem _ hq))]

/-- **the splitter reads back what was joined** -/
theorem regexParts_join (p0 : Str) (ps : List Str) (h0 : p0 ≠ []) (h0c : ∀ c ∈ p0, c ≠ ':') (h : ∀ p ∈ ps, Plain p) :
    regexParts (p0 ++ joinTail ps) = p0 :: ps := by
  have htok := tokOf_append p0 (joinTail ps) h0c (joinTail_head ps)
  cases p0 with
  | nil => exact absurd rfl h0
  | cons c p' =>
    have hc : (c == ':') = false := by simpa using h0c c List.mem_cons_self
    simp only [regexParts, List.cons_append, hc, Bool.false_eq_true, if_false]
    rw [← List.cons_append, htok, scan_skip, scan_joinTail ps h]

/-! ### the bracket alternative -/

theorem lastCloser_none (r : Str) (h : ∀ c ∈ r, isCloser c = false) : lastCloser r = none := by
  induction r with
  | nil => rfl
  | cons c r ih =>
    simp only [lastCloser]
    split
    · rfl
    · rw [ih (fun c' hc' => h c' (List.mem_cons_of_mem _ hc'))]
      simp [h c List.mem_cons_self]

theorem lastCloser_bracket (g r : Str) (hg : ∀ c ∈ g, c ≠ '\n') (hr : ∀ c ∈ r, isCloser c = false) :
    lastCloser (g ++ ']' :: r) = some (g, r) := by
  induction g with
  | nil =>
    simp only [List.nil_append, lastCloser, lastCloser_none r hr]
    simp [isCloser]
  | cons c g ih =>
    have hc : (c == '\n') = false := by simpa using hg c List.mem_cons_self
    simp only [List.cons_append, lastCloser, hc, Bool.false_eq_true, if_false]
    rw [ih (fun c' hc' => hg c' (List.mem_cons_of_mem _ hc'))]

/-- a bracketed part `:[h]` followed by text without `]`/`$` is read back as `h` -/
theorem scan_colon_bracket (h r : Str) (hne : h ≠ []) (hnl : ∀ c ∈ h, c ≠ '\n') (hr : ∀ c ∈ r, isCloser c = false) :
    scan 0 (':' :: '[' :: (h ++ ']' :: r)) = h :: scan 0 r := by
  cases h with
  | nil => exact absurd rfl hne
  | cons c g =>
    have hc : (c == '\n') = false := by simpa using hnl c List.mem_cons_self
    have hlc := lastCloser_bracket g r (fun c' hc' => hnl c' (List.mem_cons_of_mem _ hc')) hr
    simp only [scan, beq_self_eq_true, if_true, matchAfterColon, List.cons_append, bracketGroup, hc,
      Bool.false_eq_true, if_false, hlc, Option.map_some]
    have : g ++ ']' :: r = (g ++ [']']) ++ r := by simp
    rw [this]
    have hl : (c :: g).length = (g ++ [']']).length := by simp
    rw [hl, scan_skip]


/-! ## numbers: what `"%d"` / `"0x%04x"` print, `int()` reads back -/

/-- `0-9a-f` -/
def isLowerHex (c : Char) : Bool := (48 ≤ c.toNat && c.toNat ≤ 57) || (97 ≤ c.toNat && c.toNat ≤ 102)

theorem lowerHex_ne {c x : Char} (h : isLowerHex c = true) (hx : isLowerHex x = false) : c ≠ x := by
  intro e; subst e; rw [h] at hx; cases hx

theorem lowerHex_norm {c : Char} (h : isLowerHex c = true) : normChar c = c := by
  unfold isLowerHex at h
  simp only [Bool.or_eq_true, Bool.and_eq_true, decide_eq_true_eq] at h
  have : c.toNat < 127 := by omega
  simp [normChar, this]

theorem lowerHex_notSpace {c : Char} (h : isLowerHex c = true) : isCSpace c = false := by
  unfold isLowerHex at h
  simp only [Bool.or_eq_true, Bool.and_eq_true, decide_eq_true_eq] at h
  unfold isCSpace
  simp only [Bool.or_eq_false_iff, beq_eq_false_iff_ne, ne_eq, Bool.and_eq_false_iff, decide_eq_false_iff_not]
  omega

theorem lowerHex_digitVal {c : Char} (h : isLowerHex c = true) : digitVal c < 16 := by
  unfold isLowerHex at h
  simp only [Bool.or_eq_true, Bool.and_eq_true, decide_eq_true_eq] at h
  unfold digitVal isAsciiDigit isAsciiLower isAsciiUpper
  rcases h with h | h
  · have : (decide (48 ≤ c.toNat) && decide (c.toNat ≤ 57)) = true := by simp [h.1, h.2]
    simp only [this, if_true]; omega
  · have h1 : (decide (48 ≤ c.toNat) && decide (c.toNat ≤ 57)) = false := by
      simp only [Bool.and_eq_false_iff, decide_eq_false_iff_not]; omega
    have h2 : (decide (97 ≤ c.toNat) && decide (c.toNat ≤ 122)) = true := by
      simp only [Bool.and_eq_true, decide_eq_true_eq]; omega
    simp only [h1, h2, Bool.false_eq_true, if_false, if_true]; omega

theorem hexDigitChar_spec : ∀ d, d < 16 → isLowerHex (hexDigitChar d) = true ∧ digitVal (hexDigitChar d) = d := by
  decide

def valOf (b : Nat) (cs : Str) (acc : Nat) : Nat := cs.foldl (fun a c => a * b + digitVal c) acc

theorem valOf_append (b : Nat) (xs ys : Str) (a : Nat) : valOf b (xs ++ ys) a = valOf b ys (valOf b xs a) := by
  simp [valOf, List.foldl_append]

/-- what `toDigitsAux` prints: at least one digit, only `0-9a-f`, value `n`, no longer than needed -/
theorem toDigitsAux_spec (b : Nat) (hb : 2 ≤ b) (hb16 : b ≤ 16) :
    ∀ fuel n acc, n < fuel →
      ∃ ds, toDigitsAux b fuel n acc = ds ++ acc ∧ ds ≠ [] ∧
        (∀ c ∈ ds, isLowerHex c = true ∧ digitVal c < b) ∧
        (∀ a, valOf b ds a = a * b ^ ds.length + n) ∧
        (∀ k, 1 ≤ k → n < b ^ k → ds.length ≤ k) := by
  intro fuel
  induction fuel with
  | zero => intro n acc h; omega
  | succ fuel ih =>
    intro n acc hn
    have hmod : n % b < 16 := by have := Nat.mod_lt n (by omega : b > 0); omega
    obtain ⟨hd1, hd2⟩ := hexDigitChar_spec (n % b) hmod
    simp only [toDigitsAux]
    by_cases hq : n / b = 0
    · simp only [hq, if_true]
      have hnb : n < b := by
        rcases Nat.div_eq_zero_iff.1 hq with h | h
        · omega
        · exact h
      refine ⟨[hexDigitChar (n % b)], rfl, by simp, ?_, ?_, ?_⟩
      · intro c hc
        simp only [List.mem_singleton] at hc
        subst hc
        exact ⟨hd1, by rw [hd2]; exact Nat.mod_lt n (by omega)⟩
      · intro a
        simp only [valOf, List.foldl_cons, List.foldl_nil, hd2, List.length_singleton, Nat.pow_one]
        rw [Nat.mod_eq_of_lt hnb]
      · intro k hk _
        simpa using hk
    · simp only [hq, if_false]
      have hpos : 0 < n := by
        apply Nat.pos_of_ne_zero
        intro h0; subst h0; simp at hq
      have hlt : n / b < fuel := by
        have : n / b < n := Nat.div_lt_self hpos (by omega)
        omega
      obtain ⟨ds', e1, e2, e3, e4, e5⟩ := ih (n / b) (hexDigitChar (n % b) :: acc) hlt
      refine ⟨ds' ++ [hexDigitChar (n % b)], by rw [e1]; simp, by simp, ?_, ?_, ?_⟩
      · intro c hc
        simp only [List.mem_append, List.mem_singleton] at hc
        rcases hc with hc | hc
        · exact e3 c hc
        · subst hc
          exact ⟨hd1, by rw [hd2]; exact Nat.mod_lt n (by omega)⟩
      · intro a
        rw [valOf_append, e4 a]
        simp only [valOf, List.foldl_cons, List.foldl_nil, hd2, List.length_append, List.length_singleton, Nat.pow_succ]
        have := Nat.div_add_mod n b
        rw [Nat.add_mul, Nat.mul_assoc, Nat.add_assoc]
        congr 1
        rw [Nat.mul_comm (n / b) b]
        exact this
      · intro k hk hnk
        have hk2 : 2 ≤ k := by
          apply Nat.le_of_not_lt
          intro hk1
          have : k = 1 := by omega
          subst this
          simp only [Nat.pow_one] at hnk
          exact hq (Nat.div_eq_of_lt hnk)
        have : n / b < b ^ (k - 1) := by
          apply Nat.div_lt_of_lt_mul
          have : b ^ k = b * b ^ (k - 1) := by
            rw [← Nat.pow_succ', Nat.succ_eq_add_one, Nat.sub_add_cancel (by omega)]
          omega
        have := e5 (k - 1) (by omega) this
        simp only [List.length_append, List.length_singleton]
        omega

theorem scanDigits_all (b : Nat) (cs : Str) (hne : cs ≠ []) (h : ∀ c ∈ cs, c ≠ '_' ∧ digitVal c < b) :
    ∀ (p : Prev) (acc nd : Nat), scanDigits b p acc nd cs = some (valOf b cs acc, nd + cs.length, []) := by
  induction cs with
  | nil => exact absurd rfl hne
  | cons c cs ih =>
    intro p acc nd
    obtain ⟨h1, h2⟩ := h c List.mem_cons_self
    have hc : (c == '_') = false := by simpa using h1
    simp only [scanDigits, hc, Bool.false_eq_true, if_false, h2, if_true]
    cases cs with
    | nil => simp [scanDigits, valOf]
    | cons c' cs' =>
      rw [ih (by simp) (fun x hx => h x (List.mem_cons_of_mem _ hx)) .digit]
      simp only [valOf, List.foldl_cons, List.length_cons]
      have : nd + 1 + (cs'.length + 1) = nd + (cs'.length + 1 + 1) := by omega
      rw [this]


theorem map_norm_lowerHex (cs : Str) (h : ∀ c ∈ cs, isLowerHex c = true) : cs.map normChar = cs := by
  induction cs with
  | nil => rfl
  | cons c cs ih =>
    simp only [List.map_cons, lowerHex_norm (h c List.mem_cons_self)]
    rw [ih (fun x hx => h x (List.mem_cons_of_mem _ hx))]

theorem intBody10_digits (cs : Str) (hne : cs ≠ []) (h : ∀ c ∈ cs, isLowerHex c = true ∧ digitVal c < 10)
    (hl : cs.length ≤ 4300) : intBody 10 cs = some (valOf 10 cs 0, []) := by
  have hs := scanDigits_all 10 cs hne
    (fun c hc => ⟨lowerHex_ne (h c hc).1 (by decide), (h c hc).2⟩) .start 0 0
  unfold intBody
  simp only [show ((10 : Nat) == 16) = false by decide, show ((10 : Nat) == 8) = false by decide,
    show ((10 : Nat) == 2) = false by decide, Bool.false_and, Bool.or_self, Bool.false_eq_true, if_false, hs]
  simp only [Nat.zero_add, maxStrDigits, beq_self_eq_true, Bool.true_and, decide_eq_true_eq]
  have : ¬ cs.length > 4300 := by omega
  simp [this]

/-- `int(str(n))` for a number printed with at most 4300 digits -/
theorem pyInt10_digits (cs : Str) (hne : cs ≠ []) (h : ∀ c ∈ cs, isLowerHex c = true ∧ digitVal c < 10)
    (hl : cs.length ≤ 4300) : pyInt 10 cs = some (Int.ofNat (valOf 10 cs 0)) := by
  have hmap := map_norm_lowerHex cs (fun c hc => (h c hc).1)
  have hb := intBody10_digits cs hne h hl
  cases cs with
  | nil => exact absurd rfl hne
  | cons c r =>
    have hc := (h c List.mem_cons_self).1
    have hsp := lowerHex_notSpace hc
    have hm : (c == '-') = false := by simpa using lowerHex_ne hc (x := '-') (by decide)
    have hp : (c == '+') = false := by simpa using lowerHex_ne hc (x := '+') (by decide)
    unfold pyInt
    rw [hmap]
    simp only [dropCSpace, hsp, Bool.false_eq_true, if_false, hm, hp,
      show ((10 : Nat) != 0) = true by decide, if_true, hb, Bool.false_and]


theorem intBody16_0x (cs : Str) (hne : cs ≠ []) (h : ∀ c ∈ cs, isLowerHex c = true) :
    intBody 16 ('0' :: 'x' :: cs) = some (valOf 16 cs 0, []) := by
  have hs := scanDigits_all 16 cs hne
    (fun c hc => ⟨lowerHex_ne (h c hc) (by decide), lowerHex_digitVal (h c hc)⟩) .start 0 0
  cases cs with
  | nil => exact absurd rfl hne
  | cons c r =>
    have hu : (c == '_') = false := by simpa using lowerHex_ne (h c List.mem_cons_self) (x := '_') (by decide)
    unfold intBody
    simp only [beq_self_eq_true, Bool.true_and, Bool.true_or, if_true, List.drop_succ_cons, List.drop_zero,
      hu, Bool.false_eq_true, if_false, hs, show ((16 : Nat) == 10) = false by decide, Bool.false_and]

/-- `int("0x" + hexdigits, 16)` -/
theorem pyInt16_0x (cs : Str) (hne : cs ≠ []) (h : ∀ c ∈ cs, isLowerHex c = true) :
    pyInt 16 ('0' :: 'x' :: cs) = some (Int.ofNat (valOf 16 cs 0)) := by
  have hmap : ('0' :: 'x' :: cs).map normChar = '0' :: 'x' :: cs := by
    simp only [List.map_cons, map_norm_lowerHex cs h]
    rw [show normChar '0' = '0' by decide, show normChar 'x' = 'x' by decide]
  have hb := intBody16_0x cs hne h
  unfold pyInt
  rw [hmap]
  simp only [dropCSpace, show isCSpace '0' = false by decide, Bool.false_eq_true, if_false,
    show ('0' == '-') = false by decide, show ('0' == '+') = false by decide,
    show ((16 : Nat) != 0) = true by decide, if_true, hb, Bool.false_and]


theorem valOf_zeros (b k : Nat) (ds : Str) : valOf b (List.replicate k '0' ++ ds) 0 = valOf b ds 0 := by
  rw [valOf_append]
  have : valOf b (List.replicate k '0') 0 = 0 := by
    induction k with
    | zero => rfl
    | succ k ih =>
      rw [List.replicate_succ]
      simp only [valOf, List.foldl_cons, show digitVal '0' = 0 by decide, Nat.zero_mul, Nat.add_zero]
      exact ih
  rw [this]

/-- `"{:04x}".format(n)` for a non-negative `n`: non-empty, only `0-9a-f`, value `n` -/
theorem fmt04x_spec (n : Nat) :
    fmt04x (Int.ofNat n) ≠ [] ∧ (∀ c ∈ fmt04x (Int.ofNat n), isLowerHex c = true) ∧
      valOf 16 (fmt04x (Int.ofNat n)) 0 = n := by
  obtain ⟨ds, e1, e2, e3, e4, _⟩ := toDigitsAux_spec 16 (by decide) (by decide) (n + 1) n [] (by omega)
  have hf : fmt04x (Int.ofNat n) = List.replicate (4 - ds.length) '0' ++ ds := by
    unfold fmt04x
    have : ¬ ((n : Int) < 0) := by omega
    simp only [Int.ofNat_eq_natCast, this, if_false, zfill, toHex, Int.toNat_natCast, e1, List.append_nil]
  rw [hf]
  refine ⟨by simp [e2], ?_, ?_⟩
  · intro c hc
    simp only [List.mem_append, List.mem_replicate] at hc
    rcases hc with ⟨_, rfl⟩ | hc
    · decide
    · exact (e3 c hc).1
  · rw [valOf_zeros 16 _, e4 0]; simp

/-- **`int("0x%04x" % n, 16) = n`** -/
theorem hex_read (n : Nat) : pyInt 16 ('0' :: 'x' :: fmt04x (Int.ofNat n)) = some (Int.ofNat n) := by
  obtain ⟨h1, h2, h3⟩ := fmt04x_spec n
  rw [pyInt16_0x _ h1 h2, h3]

/-- `str(n)`: non-empty, only decimal digits, value `n`, at most `k` digits when `n < 10^k` -/
theorem toDec_spec (n : Nat) :
    toDec n ≠ [] ∧ (∀ c ∈ toDec n, isLowerHex c = true ∧ digitVal c < 10) ∧ valOf 10 (toDec n) 0 = n ∧
      (∀ k, 1 ≤ k → n < 10 ^ k → (toDec n).length ≤ k) := by
  obtain ⟨ds, e1, e2, e3, e4, e5⟩ := toDigitsAux_spec 10 (by decide) (by decide) (n + 1) n [] (by omega)
  have : toDec n = ds := by simp [toDec, e1]
  rw [this]
  exact ⟨e2, e3, by rw [e4 0]; simp, e5⟩

/-- **`int(str(n)) = n`** (below CPython's 4300-digit conversion limit) -/
theorem dec_read (n : Nat) (h : n < 10 ^ 4300) : pyInt 10 (toDec n) = some (Int.ofNat n) := by
  obtain ⟨h1, h2, h3, h4⟩ := toDec_spec n
  rw [pyInt10_digits _ h1 h2 (h4 4300 (by decide) h), h3]


/-! ## escaping of string values -/

theorem unescape_cons_ne (c : Char) (x : Str) (h : c ≠ '%') : unescape (c :: x) = c :: unescape x := by
  have hc : (c == '%') = false := by simpa using h
  cases x with
  | nil => rfl
  | cons b x =>
    cases x with
    | nil => rfl
    | cons d r => simp only [unescape, hc, Bool.false_and, Bool.false_eq_true, if_false]

/-- **`_unescape(_escape(s)) == s` for every string** -/
theorem unescape_escape (s : Str) : unescape (escape s) = s := by
  induction s with
  | nil => rfl
  | cons c cs ih =>
    simp only [escape]
    by_cases h1 : (c == '%') = true
    · have : c = '%' := by simpa using h1
      subst this
      simp only [beq_self_eq_true, if_true, unescape, Bool.true_and, Bool.and_true]
      simp [ih]
    · have h1' : (c == '%') = false := by simpa using h1
      simp only [h1', Bool.false_eq_true, if_false]
      by_cases h2 : (c == ':') = true
      · have : c = ':' := by simpa using h2
        subst this
        simp only [beq_self_eq_true, if_true, unescape, Bool.true_and, Bool.and_true]
        simp [ih]
      · have h2' : (c == ':') = false := by simpa using h2
        simp only [h2', Bool.false_eq_true, if_false]
        rw [unescape_cons_ne c _ (by simpa using h1'), ih]

/-- an escaped string contains no colon -/
theorem escape_no_colon (s : Str) : ∀ c ∈ escape s, c ≠ ':' := by
  induction s with
  | nil => intro c hc; simp [escape] at hc
  | cons a r ih =>
    intro c hc
    simp only [escape] at hc
    split at hc
    · simp only [List.mem_cons] at hc
      rcases hc with rfl | rfl | rfl | hc
      · decide
      · decide
      · decide
      · exact ih c hc
    · split at hc
      · simp only [List.mem_cons] at hc
        rcases hc with rfl | rfl | rfl | hc
        · decide
        · decide
        · decide
        · exact ih c hc
      · rename_i h2
        simp only [List.mem_cons] at hc
        rcases hc with rfl | hc
        · simpa using h2
        · exact ih c hc

/-! ## evaluating `create_transport` on the generated tables with symbolic values -/

section eval
open QmiModel.Gen.TransportTables

def sSerialnr : Str := ['s','e','r','i','a','l','n','r']
def sTcp : Str := ['t','c','p']
def sUdp : Str := ['u','d','p']
def sVxi11 : Str := ['v','x','i','1','1']
def sConnectTimeout : Str := ['c','o','n','n','e','c','t','_','t','i','m','e','o','u','t']
def sAddress : Str := ['_','a','d','d','r','e','s','s']
def sConnectTimeoutAttr : Str := ['_','c','o','n','n','e','c','t','_','t','i','m','e','o','u','t']
def sHostAttr : Str := ['_','h','o','s','t']

theorem badHost_false_of_valid {h : Str} (vh : validateHost h = .ok ()) :
    (!(isValidHostname h) && !(isValidIp h)) = false := by
  unfold validateHost at vh
  by_cases h1 : isValidHostname h = true
  · simp [h1]
  · by_cases h2 : isValidIp h = true
    · simp [h2]
    · simp [h1, h2] at vh

def clsTcp : Str := ['Q','M','I','_','T','c','p','T','r','a','n','s','p','o','r','t']
def clsUdp : Str := ['Q','M','I','_','U','d','p','T','r','a','n','s','p','o','r','t']
def clsVxi11 : Str := ['Q','M','I','_','V','x','i','1','1','T','r','a','n','s','p','o','r','t']

theorem breakEq_none (cs : Str) (h : ∀ c ∈ cs, c ≠ '=') : breakEq cs = none := by
  induction cs with
  | nil => rfl
  | cons c cs ih =>
    have hc : (c == '=') = false := by simpa using h c List.mem_cons_self
    simp only [breakEq, hc, Bool.false_eq_true, if_false, ih (fun x hx => h x (List.mem_cons_of_mem _ hx)), Option.map_none]

theorem isKw_false (cs : Str) (h : ∀ c ∈ cs, c ≠ '=') : isKw cs = false := by
  unfold isKw
  rw [List.any_eq_false]
  intro c hc
  simpa using h c hc

/-- the usbtmc branch on three keyword tokens whose pieces and conversions are known -/
theorem usbtmc_eval (win : Bool) (s t1 t2 t3 w1 w2 w3 : Str) (x1 x2 : Int)
    (hparts : parseParts s = .ok [sUsbtmc, t1, t2, t3])
    (k1 : isKw t1 = true) (k2 : isKw t2 = true) (k3 : isKw t3 = true)
    (s1 : splitEq t1 = [sVendorid, w1]) (s2 : splitEq t2 = [sProductid, w2]) (s3 : splitEq t3 = [sSerialnr, w3])
    (c1 : convKw .int w1 = .ok (.int x1)) (c2 : convKw .int w2 = .ok (.int x2))
    (r1 : 0 ≤ x1 ∧ x1 ≤ 65535) (r2 : 0 ≤ x2 ∧ x2 ≤ 65535) :
    ∃ cls, createTransport env win s [] =
      .ok ⟨cls, [(sVendorid, [.int x1]), (sProductid, [.int x2]), (sSerialnr, [.str (unescape w3)])]⟩ := by
  have hf : findIface env sUsbtmc = some usbtmc := by decide
  unfold createTransport
  rw [hparts]
  simp only [List.headD_cons, hf]
  rw [pps_eq [] hparts (by simpa using hf)]
  unfold parseParams
  simp only [List.drop_succ_cons, List.drop_zero, List.filter_cons, k1, k2, k3, Bool.not_true, Bool.false_eq_true,
    if_false, if_true, List.filter_nil]
  have v1 : ¬ (x1 < 0) ∧ ¬ (x1 > 65535) := by omega
  have v2 : ¬ (x2 < 0) ∧ ¬ (x2 > 65535) := by omega
  cases win <;>
  simp [usbtmc, Iface.ctor, parsePositional, parseKeywords, s1, s2, s3, findParam, c1, c2,
    (show convKw .str w3 = .ok (.str (unescape w3)) from rfl), catchValueError,
    dset, dupdate, dictOf, dget, dhas, requiredNames, knownName, bindArgs, bindEach, construct, exec, Cond.holds, arg,
    sVendorid, sProductid, sSerialnr, v1, v2]

/-- the tcp branch on a host token and a port token -/
theorem tcp_eval (win : Bool) (s h pt : Str) (port : Int)
    (hparts : parseParts s = .ok [sTcp, h, pt])
    (kh : isKw h = false) (kp : isKw pt = false) (cp : pyInt 10 pt = some port)
    (vh : validateHost h = .ok ()) (hl : h ≠ sLocalhost) (rp : 1 ≤ port ∧ port ≤ 65535) :
    createTransport env win s [] =
      .ok ⟨clsTcp, [(sAddress, [.str h, .int port]), (sConnectTimeoutAttr, [.int 10])]⟩ := by
  have hf : findIface env sTcp = some tcp := by decide
  unfold createTransport
  rw [hparts]
  simp only [List.headD_cons, hf]
  rw [pps_eq [] hparts (by simpa using hf)]
  unfold parseParams
  simp only [List.drop_succ_cons, List.drop_zero, List.filter_cons, kh, kp, Bool.not_false, Bool.false_eq_true,
    if_false, if_true, List.filter_nil]
  have v1 : ¬ (port < 1) ∧ ¬ (port > 65535) := by omega
  have hl' : (h = sLocalhost) = False := eq_false hl
  cases win <;>
  simp [tcp, Iface.ctor, parsePositional, parseKeywords, convPos, cp, catchValueError,
    dset, dupdate, dictOf, dget, dhas, requiredNames, knownName, bindArgs, bindEach, construct, exec, Cond.holds, arg,
    sAddress, sConnectTimeoutAttr, clsTcp, v1, badHost_false_of_valid vh, hl']

/-- the udp branch on a host token and a port token -/
theorem udp_eval (win : Bool) (s h pt : Str) (port : Int)
    (hparts : parseParts s = .ok [sUdp, h, pt])
    (kh : isKw h = false) (kp : isKw pt = false) (cp : pyInt 10 pt = some port)
    (vh : validateHost h = .ok ()) (hl : h ≠ sLocalhost) (rp : 1 ≤ port ∧ port ≤ 65535) (hr : port ≠ 35999) :
    createTransport env win s [] = .ok ⟨clsUdp, [(sAddress, [.str h, .int port])]⟩ := by
  have hf : findIface env sUdp = some udp := by decide
  unfold createTransport
  rw [hparts]
  simp only [List.headD_cons, hf]
  rw [pps_eq [] hparts (by simpa using hf)]
  unfold parseParams
  simp only [List.drop_succ_cons, List.drop_zero, List.filter_cons, kh, kp, Bool.not_false, Bool.false_eq_true,
    if_false, if_true, List.filter_nil]
  have v1 : ¬ (port < 1) ∧ ¬ (port > 65535) := by omega
  have hl' : (h = sLocalhost) = False := eq_false hl
  have hr' : (port = 35999) = False := eq_false hr
  cases win <;>
  simp [udp, Iface.ctor, parsePositional, parseKeywords, convPos, cp, catchValueError,
    dset, dupdate, dictOf, dget, dhas, requiredNames, knownName, bindArgs, bindEach, construct, exec, Cond.holds, arg,
    sAddress, clsUdp, v1, badHost_false_of_valid vh, hl', hr']

/-- the vxi11 branch on a host token -/
theorem vxi11_eval (win : Bool) (s h : Str)
    (hparts : parseParts s = .ok [sVxi11, h]) (kh : isKw h = false) (vh : validateHost h = .ok ()) :
    createTransport env win s [] = .ok ⟨clsVxi11, [(sHostAttr, [.str h])]⟩ := by
  have hf : findIface env sVxi11 = some vxi11 := by decide
  unfold createTransport
  rw [hparts]
  simp only [List.headD_cons, hf]
  rw [pps_eq [] hparts (by simpa using hf)]
  unfold parseParams
  simp only [List.drop_succ_cons, List.drop_zero, List.filter_cons, kh, Bool.not_false, Bool.false_eq_true,
    if_false, if_true, List.filter_nil]
  cases win <;>
  simp [vxi11, Iface.ctor, parsePositional, parseKeywords, convPos, catchValueError,
    dset, dupdate, dictOf, dget, dhas, requiredNames, knownName, bindArgs, bindEach, construct, exec, Cond.holds, arg,
    sHostAttr, clsVxi11, badHost_false_of_valid vh]

end eval


/-! ## what the splitter makes of the rendered descriptors -/

theorem lowerHex_plain_chars {cs : Str} (h : ∀ c ∈ cs, isLowerHex c = true) :
    (∀ c ∈ cs, c ≠ ':') ∧ (∀ c ∈ cs, c ≠ '=') ∧ (∀ c ∈ cs, isCloser c = false) := by
  refine ⟨fun c hc => lowerHex_ne (h c hc) (by decide), fun c hc => lowerHex_ne (h c hc) (by decide), ?_⟩
  intro c hc
  have h1 : c ≠ ']' := lowerHex_ne (h c hc) (by decide)
  have h2 : c ≠ '$' := lowerHex_ne (h c hc) (by decide)
  simp [isCloser, h1, h2]

theorem parseParts_usbtmc (v p : Nat) (sn : Str) :
    parseParts (renderUsbtmc (Int.ofNat v) (Int.ofNat p) sn) =
      .ok [sUsbtmc, sVendorKw ++ fmt04x (Int.ofNat v), sProductKw ++ fmt04x (Int.ofNat p), sSerialKw ++ escape sn] := by
  obtain ⟨_, hv, _⟩ := fmt04x_spec v
  obtain ⟨_, hp, _⟩ := fmt04x_spec p
  have hs : renderUsbtmc (Int.ofNat v) (Int.ofNat p) sn =
      sUsbtmc ++ joinTail [sVendorKw ++ fmt04x (Int.ofNat v), sProductKw ++ fmt04x (Int.ofNat p), sSerialKw ++ escape sn] := by
    simp [renderUsbtmc, joinTail]
  have pl : ∀ (pre body : Str), pre ≠ [] → (∀ c ∈ pre, c ≠ ':') → pre.head? ≠ some '[' → (∀ c ∈ body, c ≠ ':') →
      Plain (pre ++ body) := by
    intro pre body h1 h2 h3 h4
    refine ⟨by simp [h1], ?_, ?_⟩
    · intro c hc
      rcases List.mem_append.1 hc with hc | hc
      · exact h2 c hc
      · exact h4 c hc
    · cases pre with
      | nil => exact absurd rfl h1
      | cons a r => simpa using h3
  unfold parseParts
  rw [hs, regexParts_join _ _ (by decide) (by decide)]
  · rfl
  · intro q hq
    simp only [List.mem_cons, List.mem_nil_iff, or_false] at hq
    rcases hq with rfl | rfl | rfl
    · exact pl _ _ (by decide) (by decide) (by decide) (lowerHex_plain_chars hv).1
    · exact pl _ _ (by decide) (by decide) (by decide) (lowerHex_plain_chars hp).1
    · exact pl _ _ (by decide) (by decide) (by decide) (escape_no_colon sn)

/-- `<iface>:<host>:<port>` with the host bracketed when it contains a colon -/
theorem parseParts_hostPort (iface h : Str) (port : Nat) (hi : iface ≠ []) (hic : ∀ c ∈ iface, c ≠ ':')
    (hne : h ≠ []) (hnl : ∀ c ∈ h, c ≠ '\n') (hb : h.head? ≠ some '[') :
    parseParts (renderHostPort iface h port) = .ok [iface, h, toDec port] := by
  obtain ⟨d1, d2, _, _⟩ := toDec_spec port
  have dpl := lowerHex_plain_chars (fun c hc => (d2 c hc).1)
  have hdec : Plain (toDec port) := by
    refine ⟨d1, dpl.1, ?_⟩
    cases hd : toDec port with
    | nil => exact absurd hd d1
    | cons a r =>
      have : isLowerHex a = true := (d2 a (by rw [hd]; exact List.mem_cons_self)).1
      simpa using lowerHex_ne this (x := '[') (by decide)
  unfold parseParts
  by_cases hc : h.any (· == ':') = true
  · -- bracketed
    have hs : renderHostPort iface h port = iface ++ (':' :: '[' :: (h ++ ']' :: joinTail [toDec port])) := by
      simp [renderHostPort, renderHost, hc, joinTail]
    have htok := tokOf_append iface (':' :: '[' :: (h ++ ']' :: joinTail [toDec port])) hic (Or.inr rfl)
    have hrest : ∀ c ∈ joinTail [toDec port], isCloser c = false := by
      intro c hc'
      simp only [joinTail, List.append_nil, List.mem_cons] at hc'
      rcases hc' with rfl | hc'
      · decide
      · exact dpl.2.2 c hc'
    rw [hs]
    cases iface with
    | nil => exact absurd rfl hi
    | cons a r =>
      have ha : (a == ':') = false := by simpa using hic a List.mem_cons_self
      simp only [regexParts, List.cons_append, ha, Bool.false_eq_true, if_false]
      rw [← List.cons_append, htok, scan_skip, scan_colon_bracket h _ hne hnl hrest,
        scan_joinTail [toDec port] (by intro q hq; simp only [List.mem_singleton] at hq; subst hq; exact hdec)]
      rfl
  · -- plain
    have hc' : h.any (· == ':') = false := by
      cases hh : h.any (· == ':') with
      | false => rfl
      | true => exact absurd hh hc
    have hcol : ∀ c ∈ h, c ≠ ':' := by
      intro c hcm
      have := (List.any_eq_false.1 hc') c hcm
      simpa using this
    have hs : renderHostPort iface h port = iface ++ joinTail [h, toDec port] := by
      simp [renderHostPort, renderHost, hc', joinTail]
    rw [hs, regexParts_join iface _ hi hic]
    · rfl
    · intro q hq
      simp only [List.mem_cons, List.mem_nil_iff, or_false] at hq
      rcases hq with rfl | rfl
      · exact ⟨hne, hcol, hb⟩
      · exact hdec

/-- `<iface>:<host>` -/
theorem parseParts_host (iface h : Str) (hi : iface ≠ []) (hic : ∀ c ∈ iface, c ≠ ':')
    (hne : h ≠ []) (hnl : ∀ c ∈ h, c ≠ '\n') (hb : h.head? ≠ some '[') :
    parseParts (iface ++ ':' :: renderHost h) = .ok [iface, h] := by
  unfold parseParts
  by_cases hc : h.any (· == ':') = true
  · have hs : iface ++ ':' :: renderHost h = iface ++ (':' :: '[' :: (h ++ ']' :: [])) := by
      simp [renderHost, hc]
    have htok := tokOf_append iface (':' :: '[' :: (h ++ ']' :: [])) hic (Or.inr rfl)
    rw [hs]
    cases iface with
    | nil => exact absurd rfl hi
    | cons a r =>
      have ha : (a == ':') = false := by simpa using hic a List.mem_cons_self
      simp only [regexParts, List.cons_append, ha, Bool.false_eq_true, if_false]
      rw [← List.cons_append, htok, scan_skip, scan_colon_bracket h [] hne hnl (by simp)]
      rfl
  · have hc' : h.any (· == ':') = false := by
      cases hh : h.any (· == ':') with
      | false => rfl
      | true => exact absurd hh hc
    have hcol : ∀ c ∈ h, c ≠ ':' := by
      intro c hcm
      have := (List.any_eq_false.1 hc') c hcm
      simpa using this
    have hs : iface ++ ':' :: renderHost h = iface ++ joinTail [h] := by
      simp [renderHost, hc', joinTail]
    rw [hs, regexParts_join iface _ hi hic]
    · rfl
    · intro q hq
      simp only [List.mem_singleton] at hq
      subst hq
      exact ⟨hne, hcol, hb⟩

end QmiModel.Descriptor
