import QmiModel.Lemmas.C08NetLive
/-! C08, network layer — request tokens are neither lost nor duplicated (`TokInv`): the request ids carried by the programs
of a context's threads, by its event-loop queue and by the pending tables of its connection ends are pairwise distinct;
on the server side of a connection the requests / handler / replies in flight form, in pipeline order, a subsequence of
the client end's pending table. -/
namespace QmiModel.PubSub

/-- the request id an operation carries for its own context -/
def MOp.carId : MOp → Option ReqId
  | .sendChk _ m => m.reqId?
  | .enq _ m => m.reqId?
  | .handleReply id _ => some id
  | _ => none

def Cb.carId : Cb → Option ReqId
  | .smSend _ m => m.reqId?
  | _ => none

def progIds (l : List MOp) : List ReqId := l.filterMap MOp.carId
def lqIds (l : List Cb) : List ReqId := l.filterMap Cb.carId

theorem progIds_cons (op : MOp) (l : List MOp) : progIds (op :: l) = op.carId.toList ++ progIds l := by
  simp only [progIds, List.filterMap_cons]; cases op.carId <;> simp
theorem progIds_append (x y : List MOp) : progIds (x ++ y) = progIds x ++ progIds y := by simp [progIds]
theorem lqIds_cons (cb : Cb) (l : List Cb) : lqIds (cb :: l) = cb.carId.toList ++ lqIds l := by
  simp only [lqIds, List.filterMap_cons]; cases cb.carId <;> simp
theorem lqIds_append (x y : List Cb) : lqIds (x ++ y) = lqIds x ++ lqIds y := by simp [lqIds]

theorem carId_of_not_isCar {op : MOp} (h : op.isCar = false) : op.carId = none := by
  cases op <;> simp_all [MOp.isCar, MOp.carId] <;> (rename_i d m; cases m <;> simp_all [MOp.isCar, Msg.reqId?])

theorem progIds_carFree {l : List MOp} (h : carFree l) : progIds l = [] := by
  simp only [progIds, List.filterMap_eq_nil_iff]
  exact fun op ho => carId_of_not_isCar (h op ho)

theorem handleReplyStep_ids {cs cs' : CtxSt} {id : ReqId} {ok : Bool} {more : List MOp} {o : Out}
    (h : handleReplyStep cs id ok = some (cs', more, o)) :
    (progIds more = [] ∧ cs'.nextReq = cs.nextReq) ∨ (progIds more = [cs.nextReq] ∧ cs'.nextReq = cs.nextReq + 1) := by
  unfold handleReplyStep at h
  split at h
  · simp only [Option.some.injEq, Prod.mk.injEq] at h; obtain ⟨rfl, rfl, -⟩ := h; exact Or.inl ⟨rfl, rfl⟩
  · split at h
    · simp only [Option.some.injEq, Prod.mk.injEq] at h; obtain ⟨rfl, rfl, -⟩ := h; exact Or.inl ⟨rfl, rfl⟩
    · split at h
      · simp only [Option.some.injEq, Prod.mk.injEq] at h; obtain ⟨rfl, rfl, -⟩ := h; exact Or.inl ⟨rfl, rfl⟩
      · split at h
        · simp only [Option.some.injEq, Prod.mk.injEq] at h; obtain ⟨rfl, rfl, -⟩ := h
          exact Or.inr ⟨by simp [progIds, MOp.carId, Msg.reqId?], rfl⟩
        · simp only [Option.some.injEq, Prod.mk.injEq] at h; obtain ⟨rfl, rfl, -⟩ := h; exact Or.inl ⟨rfl, rfl⟩

set_option maxHeartbeats 2000000 in
/-- **what a micro step does to the request ids carried by the program of its thread**: unchanged; the head id is handed
to the event loop (`enq`) or consumed (`handleReply`, possibly issuing a fresh one); a fresh one is issued; the ids of a
closed connection end come back as error replies; or the program ends -/
theorem microStep_progIds {s s' : State} {th : Th} {ch ch2 : Nat} {op : MOp} {rest : List MOp} {o : Out}
    (hs : microStep s th ch ch2 op rest = some (s', o)) :
    (progIds (s'.prog th) = progIds (op :: rest) ∧ (s'.ctx th.ctx).nextReq = (s.ctx th.ctx).nextReq) ∨
    (∃ d m, op = .enq d m ∧ progIds (s'.prog th) = progIds rest ∧ (s'.ctx th.ctx).nextReq = (s.ctx th.ctx).nextReq) ∨
    (∃ id ok, op = .handleReply id ok ∧
      ((progIds (s'.prog th) = progIds rest ∧ (s'.ctx th.ctx).nextReq = (s.ctx th.ctx).nextReq) ∨
       (progIds (s'.prog th) = (s.ctx th.ctx).nextReq :: progIds rest ∧ (s'.ctx th.ctx).nextReq = (s.ctx th.ctx).nextReq + 1))) ∨
    (op.carId = none ∧ progIds (s'.prog th) = (s.ctx th.ctx).nextReq :: progIds rest ∧
      (s'.ctx th.ctx).nextReq = (s.ctx th.ctx).nextReq + 1) ∨
    (∃ cn cli, op = .closeConn cn cli ∧ progIds (s'.prog th) = ((s.conn cn).half cli).pend ++ progIds rest ∧
      (s'.ctx th.ctx).nextReq = (s.ctx th.ctx).nextReq) ∨
    (op.carId = none ∧ progIds (s'.prog th) = [] ∧ (s'.ctx th.ctx).nextReq = (s.ctx th.ctx).nextReq) := by
  cases op <;> simp only [microStep] at hs
  all_goals (try (split at hs))
  all_goals (try (split at hs))
  all_goals (try (split at hs))
  all_goals (try (split at hs))
  all_goals (try (simp at hs))
  all_goals (try (obtain ⟨rfl, -⟩ := hs))
  all_goals (try (have hh := handleReplyStep_ids ‹handleReplyStep _ _ _ = some _›))
  all_goals (simp only [setProg_prog, setProg_ctx, setCtx_ctx, if_true, State.setProg, upd])
  all_goals first
    | (refine Or.inl ⟨?_, by first | rfl | trivial⟩; simp [progIds, MOp.carId, Msg.reqId?, List.filterMap_cons]; done)
    | (refine Or.inl ⟨?_, by first | rfl | trivial⟩; split <;> simp [progIds, MOp.carId, Msg.reqId?, List.filterMap_cons]; done)
    | (refine Or.inl ⟨?_, by first | rfl | trivial⟩; rename_i d m _
       cases m <;> simp [progIds, MOp.carId, Msg.reqId?, List.filterMap_cons, onSendFail]; done)
    | (refine Or.inr (Or.inl ⟨_, _, rfl, ?_, by first | rfl | trivial⟩); first | rfl | trivial | (simp [progIds]; done))
    | (refine Or.inr (Or.inr (Or.inl ⟨_, _, rfl, ?_⟩))
       rcases hh with ⟨h1, h2⟩ | ⟨h1, h2⟩
       · exact Or.inl ⟨by rw [progIds_append, h1]; rfl, h2⟩
       · exact Or.inr ⟨by rw [progIds_append, h1]; rfl, h2⟩)
    | (refine Or.inr (Or.inr (Or.inr (Or.inl ⟨rfl, ?_, by first | rfl | trivial⟩)))
       simp [progIds, MOp.carId, Msg.reqId?, List.filterMap_cons]; done)
    | (refine Or.inr (Or.inr (Or.inr (Or.inr (Or.inl ⟨_, _, rfl, ?_, by first | rfl | trivial⟩))))
       rw [progIds_append]; simp [progIds, MOp.carId, List.filterMap_map, Function.comp_def]; done)
    | (refine Or.inr (Or.inr (Or.inr (Or.inr (Or.inr ⟨rfl, ?_, by first | rfl | trivial⟩))))
       simp [progIds, MOp.carId, List.filterMap_cons]; done)
    | skip

/-! ### the server side of a connection: requests, handler and replies in flight -/

def msgRepId : Msg → Option ReqId
  | .subReply id _ => some id
  | _ => none

def cbRepId (n : ConnId) : Cb → Option ReqId
  | .smSend d m => if d = .alias n then msgRepId m else none
  | _ => none

def opSrvId (n : ConnId) : MOp → Option ReqId
  | .reqChk1 src id _ _ => if src = .alias n then some id else none
  | .reqChk2 src id _ _ => if src = .alias n then some id else none
  | .sendChk d m => if d = .alias n then msgRepId m else none
  | .enq d m => if d = .alias n then msgRepId m else none
  | _ => none

def srvIds (n : ConnId) (l : List MOp) : List ReqId := l.filterMap (opSrvId n)

/-- the ids of the requests of connection `n` that are with the server, in pipeline order: replies in the client's
inbox, replies in the server's event-loop queue, the server's handler, requests in the server's inbox -/
def srvPipe (s : State) (n : ConnId) : List ReqId :=
  ((s.conn n).half true).inbox.filterMap msgRepId ++
  (s.ctx ((s.conn n).half false).owner).loopQ.filterMap (cbRepId n) ++
  srvIds n (s.prog (.sock ((s.conn n).half false).owner)) ++
  ((s.conn n).half false).inbox.filterMap Msg.reqId?

theorem srvIds_cons (n : ConnId) (op : MOp) (l : List MOp) : srvIds n (op :: l) = (opSrvId n op).toList ++ srvIds n l := by
  simp only [srvIds, List.filterMap_cons]; cases opSrvId n op <;> simp
theorem srvIds_append (n : ConnId) (x y : List MOp) : srvIds n (x ++ y) = srvIds n x ++ srvIds n y := by simp [srvIds]

theorem sublist_erase_of_cons {α : Type} [DecidableEq α] {x : α} : ∀ {l p : List α}, (x :: l).Sublist p → l.Sublist (p.erase x)
  | l, [], h => by cases h
  | l, y :: p', h => by
    by_cases e : y = x
    · subst e
      rw [List.erase_cons_head]
      cases h with
      | cons _ h' => exact (List.sublist_of_cons_sublist h')
      | cons_cons _ h' => exact h'
    · rw [List.erase_cons_tail (by simpa using e)]
      cases h with
      | cons _ h' => exact (sublist_erase_of_cons h').cons _
      | cons_cons _ h' => exact absurd rfl e

theorem handleReplyStep_srvIds {cs cs' : CtxSt} {id : ReqId} {ok : Bool} {more : List MOp} {o : Out} (n : ConnId)
    (h : handleReplyStep cs id ok = some (cs', more, o)) : srvIds n more = [] := by
  simp only [srvIds, List.filterMap_eq_nil_iff]
  intro op ho
  have := handleReplyStep_cars h op ho
  cases op <;> simp_all [MOp.isCar, opSrvId] <;> (rename_i d m; cases m <;> simp_all [MOp.isCar, msgRepId])

set_option maxHeartbeats 2000000 in
/-- a micro step never creates a server-side token: what its thread's program holds afterwards it held before -/
theorem microStep_srvIds {s s' : State} {th : Th} {ch ch2 : Nat} {op : MOp} {rest : List MOp} {o : Out} (n : ConnId)
    (hs : microStep s th ch ch2 op rest = some (s', o)) :
    (srvIds n (s'.prog th)).Sublist (srvIds n (op :: rest)) := by
  cases op <;> simp only [microStep] at hs
  all_goals (try (split at hs))
  all_goals (try (split at hs))
  all_goals (try (split at hs))
  all_goals (try (split at hs))
  all_goals (try (simp at hs))
  all_goals (try (obtain ⟨rfl, -⟩ := hs))
  all_goals (try (have hh := handleReplyStep_srvIds n ‹handleReplyStep _ _ _ = some _›))
  all_goals (simp only [setProg_prog, if_true, State.setProg, upd])
  all_goals (try split)
  all_goals first
    | (rw [srvIds_cons]; exact List.sublist_append_right _ _)
    | (rw [srvIds_append, hh]; rw [srvIds_cons]; exact List.sublist_append_right _ _)
    | (simp only [srvIds_cons, srvIds_append, opSrvId, msgRepId, Option.toList, List.nil_append, List.append_nil, ite_self]
       first
         | exact List.Sublist.refl _
         | exact List.sublist_append_right _ _
         | (split <;> first | exact List.Sublist.refl _ | exact List.sublist_append_right _ _ | exact List.nil_sublist _)
         | exact List.nil_sublist _)
    | skip
  case closeConn cn cli =>
    have : srvIds n (List.map (fun id => MOp.handleReply id false) ((s.conn cn).half cli).pend) = [] := by
      simp [srvIds, List.filterMap_map, Function.comp_def, opSrvId]
    rw [srvIds_append, this, srvIds_cons]
    exact List.sublist_append_right _ _
  -- `sendChk` whose peer is unknown: the failure continuation carries no server-side token
  rename_i d m _
  have : srvIds n (onSendFail m) = [] := by cases m <;> simp [onSendFail, srvIds, opSrvId]
  rw [srvIds_append, this, srvIds_cons]
  exact List.sublist_append_right _ _

/-- on the server side of a connection nothing is duplicated or invented: the requests of connection `n` that are with the
server form a subsequence of the pending table of the (open) client end; user threads never handle peer requests -/
structure SrvInv (s : State) : Prop where
  pipe : ∀ n, ((s.conn n).half true).isOpen = true → (srvPipe s n).Sublist ((s.conn n).half true).pend
  user : ∀ c t n, srvIds n (s.prog (.user c t)) = []

theorem srvInv_init : SrvInv State.init := by
  constructor
  · intro n h; simp [State.init, Conn.half, Half.init] at h
  · intro c t n; simp [State.init, srvIds]

theorem cbRepId_smSend (n : ConnId) (d : Peer) (m : Msg) : cbRepId n (.smSend d m) = opSrvId n (.enq d m) := rfl

theorem srvInv_micro {s s' : State} {th : Th} {ch ch2 : Nat} {op : MOp} {rest : List MOp} {o : Out}
    (h : SrvInv s) (hprog : s.prog th = op :: rest) (hs : microStep s th ch ch2 op rest = some (s', o)) : SrvInv s' := by
  have hf := microStep_frame hs
  have hown := microStep_owner hs
  constructor
  · intro n hop
    have hhalf : (s'.conn n).half true = (s.conn n).half true := by
      rcases microStep_half hs n true with e | ⟨e, -, -, -⟩
      · exact e
      · rw [e] at hop; cases hop
    rw [hhalf] at hop ⊢
    refine List.Sublist.trans ?_ (h.pipe n hop)
    have hS : (((s'.conn n).half false).inbox.filterMap Msg.reqId?).Sublist (((s.conn n).half false).inbox.filterMap Msg.reqId?) := by
      rcases microStep_half hs n false with e | ⟨-, -, e, -⟩ <;> rw [e]
      · exact List.Sublist.refl _
      · exact List.nil_sublist _
    have hH : (srvIds n (s'.prog (.sock ((s.conn n).half false).owner))).Sublist (srvIds n (s.prog (.sock ((s.conn n).half false).owner))) := by
      by_cases e : Th.sock ((s.conn n).half false).owner = th
      · subst e; rw [hprog]; exact microStep_srvIds n hs
      · rw [hf.prog_other _ e]; exact List.Sublist.refl _
    simp only [srvPipe, hown, hhalf]
    rcases microStep_loopQ_cases hs ((s.conn n).half false).owner with e | ⟨hc, d, m, rfl, e⟩ | ⟨hc, n', t', e⟩
    · rw [e]; exact (((List.Sublist.refl _).append (List.Sublist.refl _)).append hH).append hS
    · rw [e, List.filterMap_append]
      simp only [List.filterMap_cons, List.filterMap_nil, cbRepId_smSend]
      by_cases e2 : Th.sock ((s.conn n).half false).owner = th
      · -- the handler hands its reply to the event loop: same position in the pipeline
        have hpr : s'.prog th = rest := by
          simp only [microStep, Option.some.injEq, Prod.mk.injEq] at hs
          obtain ⟨rfl, -⟩ := hs; simp
        rw [e2, hpr, hprog, srvIds_cons]
        cases opSrvId n (MOp.enq d m) with
        | none => simp only [Option.toList, List.append_nil, List.nil_append]
                  exact (((List.Sublist.refl _).append (List.Sublist.refl _)).append (List.Sublist.refl _)).append hS
        | some x =>
          simp only [Option.toList, List.append_assoc, List.singleton_append]
          exact (List.Sublist.refl _).append ((List.Sublist.refl _).append ((List.Sublist.refl _).append hS))
      · -- a user thread: what it hands to the event loop is no reply to a peer request
        have hnone : opSrvId n (MOp.enq d m) = none := by
          cases th with
          | sock c0 => simp only [Th.ctx] at hc; rw [hc] at e2; exact absurd rfl e2
          | user c0 t0 =>
            have := h.user c0 t0 n
            rw [hprog, srvIds_cons] at this
            cases hx : opSrvId n (MOp.enq d m) with
            | none => rfl
            | some x => rw [hx] at this; simp at this
        rw [hnone]
        simp only [List.append_nil]
        exact (((List.Sublist.refl _).append (List.Sublist.refl _)).append hH).append hS
    · rw [e, List.filterMap_append]
      simp only [List.filterMap_cons, List.filterMap_nil, cbRepId, List.append_nil]
      exact (((List.Sublist.refl _).append (List.Sublist.refl _)).append hH).append hS
  · intro c t n
    by_cases e : Th.user c t = th
    · subst e
      have := microStep_srvIds n hs
      rw [← hprog, h.user c t n] at this
      exact List.sublist_nil.1 this
    · rw [hf.prog_other _ e]; exact h.user c t n

/-- actions after which every server-side pipeline is a subsequence of what it was, pending tables unchanged -/
theorem SrvInv.ofSub {s s' : State} (h : SrvInv s)
    (huser : ∀ c t n, srvIds n (s'.prog (.user c t)) = [])
    (hown : ∀ n b, ((s'.conn n).half b).owner = ((s.conn n).half b).owner)
    (hopen : ∀ n, ((s'.conn n).half true).isOpen = true → ((s.conn n).half true).isOpen = true)
    (hpend : ∀ n, ((s'.conn n).half true).pend = ((s.conn n).half true).pend)
    (hin : ∀ n b, ((s'.conn n).half b).inbox.Sublist ((s.conn n).half b).inbox)
    (hlq : ∀ c, (s'.ctx c).loopQ.Sublist (s.ctx c).loopQ)
    (hpr : ∀ n c, (srvIds n (s'.prog (.sock c))).Sublist (srvIds n (s.prog (.sock c)))) : SrvInv s' := by
  refine ⟨?_, huser⟩
  intro n hop
  rw [hpend]
  refine List.Sublist.trans ?_ (h.pipe n (hopen n hop))
  simp only [srvPipe, hown]
  exact ((((hin n true).filterMap _).append ((hlq _).filterMap _)).append (hpr n _)).append ((hin n false).filterMap _)

theorem srvIds_beginProg (n : ConnId) (c : Ctx) (t : Tid) (k : Nat) (o : Op) : srvIds n (beginProg c t k o) = [] := by
  cases o <;> simp only [beginProg] <;> (try split) <;> simp [srvIds, opSrvId]

theorem srvIds_onSendFail (n : ConnId) (m : Msg) : srvIds n (onSendFail m) = [] := by
  cases m <;> simp [onSendFail, srvIds, opSrvId]

theorem setProg_user_srvIds (s : State) (c0 : Ctx) (pr : List MOp) (h : ∀ c t n, srvIds n (s.prog (.user c t)) = [])
    (c : Ctx) (t : Tid) (n : ConnId) : srvIds n ((s.setProg (.sock c0) pr).prog (.user c t)) = [] := by
  simp only [setProg_prog]; rw [if_neg (by simp)]; exact h c t n

theorem setProg_sock_srvIds (s : State) (c0 : Ctx) (pr : List MOp) (hidle : s.prog (.sock c0) = []) (hpr : ∀ n, srvIds n pr = [])
    (n : ConnId) (c : Ctx) : (srvIds n ((s.setProg (.sock c0) pr).prog (.sock c))).Sublist (srvIds n (s.prog (.sock c))) := by
  simp only [setProg_prog]; split
  · rw [hpr]; exact List.nil_sublist _
  · exact List.Sublist.refl _

theorem cbRepId_fresh {N : Nat} {l : List Cb} (h : ∀ cb ∈ l, cb.ok N = true) : l.filterMap (cbRepId N) = [] := by
  simp only [List.filterMap_eq_nil_iff]
  intro cb hcb
  have := h cb hcb
  cases cb with
  | smSend d m =>
    simp only [cbRepId]
    split
    · rename_i e; subst e
      simp only [Cb.ok, sendOk, Peer.isName, Peer.okA] at this
      split at this <;> simp at this
    · rfl
  | disconnect n t => rfl

theorem srvIds_fresh {N : Nat} {l : List MOp} (h : okOps N l = true) : srvIds N l = [] := by
  simp only [srvIds, List.filterMap_eq_nil_iff]
  intro op ho
  have := List.all_eq_true.1 h op ho
  cases op <;> simp only [opSrvId] <;> try rfl
  all_goals (split <;> try rfl)
  all_goals (rename_i e; subst e)
  all_goals (simp only [MOp.ok, sendOk, Peer.isName, Peer.okA] at this)
  all_goals (first | (simp at this; done) | (split at this <;> simp at this))

/-- what the socket thread does with a message it has read, as far as server-side tokens of connection `n` go -/
theorem srvIds_dispatch (s : State) (n cn : ConnId) (cli : Bool) {m : Msg} (hm : m.isUp = !cli) :
    srvIds n (dispatch (srcName s cn cli) m) = if cli = false ∧ n = cn then m.reqId?.toList else [] := by
  cases cli with
  | true =>
    cases m <;> simp_all [Msg.isUp, dispatch, srvIds, opSrvId]
  | false =>
    cases m with
    | subReq id ob sg b =>
      by_cases e : n = cn
      · subst e; cases b <;> simp [dispatch, srvIds, opSrvId, srcName, Msg.reqId?, msgRepId, List.filterMap_cons]
      · have e' : ¬ cn = n := fun x => e x.symm
        cases b <;> simp [dispatch, srvIds, opSrvId, srcName, e, e']
    | _ => simp [Msg.isUp] at hm

theorem srvInv_nstep {s s' : State} (h : SrvInv s) (ht : TopoInv s) (hty : TypInv s) (hs : NStep s s') : SrvInv s' := by
  cases hs
  case beginPub c t ob sg _ _ =>
    refine h.ofSub ?_ (fun _ _ => rfl) (fun _ h => h) (fun _ => rfl) (fun _ _ => List.Sublist.refl _) (fun _ => List.Sublist.refl _) ?_
    · intro c' t' n; simp only [setProg_prog]; split
      · exact srvIds_beginProg _ _ _ _ _
      · exact h.user c' t' n
    · intro n c'; simp only [setProg_prog]; rw [if_neg (by simp)]; exact List.Sublist.refl _
  case beginOther c t op _ _ _ =>
    refine h.ofSub ?_ (fun _ _ => rfl) (fun _ h => h) (fun _ => rfl) (fun _ _ => List.Sublist.refl _) (fun _ => List.Sublist.refl _) ?_
    · intro c' t' n; simp only [setProg_prog]; split
      · exact srvIds_beginProg _ _ _ _ _
      · exact h.user c' t' n
    · intro n c'; simp only [setProg_prog]; rw [if_neg (by simp)]; exact List.Sublist.refl _
  case routerOk =>
    exact h.ofSub h.user (fun _ _ => rfl) (fun _ h => h) (fun _ => rfl) (fun _ _ => List.Sublist.refl _) (fun _ => List.Sublist.refl _)
      (fun _ _ => List.Sublist.refl _)
  case stopReq c _ =>
    exact h.ofSub h.user (fun _ _ => rfl) (fun _ h => h) (fun _ => rfl) (fun _ _ => List.Sublist.refl _)
      (setCtx_loopQ_sublist s c _ (List.Sublist.refl _)) (fun _ _ => List.Sublist.refl _)
  case eof cn cli _ _ hidle _ _ _ =>
    exact h.ofSub (setProg_user_srvIds s _ _ h.user) (fun _ _ => rfl) (fun _ h => h) (fun _ => rfl) (fun _ _ => List.Sublist.refl _)
      (fun _ => List.Sublist.refl _) (setProg_sock_srvIds s _ _ hidle (by intro n; simp [srvIds, opSrvId]))
  case cbUnknown c d m q _ hidle hq _ =>
    exact h.ofSub (setProg_user_srvIds (s.setCtx c _) _ _ h.user) (fun _ _ => rfl) (fun _ h => h) (fun _ => rfl)
      (fun _ _ => List.Sublist.refl _) (setCtx_loopQ_sublist s c _ (by rw [hq]; exact List.sublist_cons_self _ _))
      (setProg_sock_srvIds (s.setCtx c _) _ _ hidle (fun n => srvIds_onSendFail n m))
  case cbFail c d m q cn _ hidle hq _ _ =>
    exact h.ofSub (setProg_user_srvIds (s.setCtx c _) _ _ h.user) (fun _ _ => rfl) (fun _ h => h) (fun _ => rfl)
      (fun _ _ => List.Sublist.refl _) (setCtx_loopQ_sublist s c _ (by rw [hq]; exact List.sublist_cons_self _ _))
      (setProg_sock_srvIds (s.setCtx c _) _ _ hidle (fun n => srvIds_onSendFail n m))
  case cbDiscNone c n t q _ hidle hq _ =>
    exact h.ofSub (setProg_user_srvIds (s.setCtx c _) _ _ h.user) (fun _ _ => rfl) (fun _ h => h) (fun _ => rfl)
      (fun _ _ => List.Sublist.refl _) (setCtx_loopQ_sublist s c _ (by rw [hq]; exact List.sublist_cons_self _ _))
      (setProg_sock_srvIds (s.setCtx c _) _ _ hidle (by intro n; simp [srvIds, opSrvId]))
  case cbDisc c n t q cn _ hidle hq _ =>
    exact h.ofSub (setProg_user_srvIds (s.setCtx c _) _ _ h.user) (fun _ _ => rfl) (fun _ h => h) (fun _ => rfl)
      (fun _ _ => List.Sublist.refl _) (setCtx_loopQ_sublist s c _ (by rw [hq]; exact List.sublist_cons_self _ _))
      (setProg_sock_srvIds (s.setCtx c _) _ _ hidle (by intro n; simp [srvIds, opSrvId]))
  case stop c _ =>
    refine h.ofSub h.user (fun n b => stopConn_owner c _ b) ?_ (fun n => stopConn_pend c _ true) ?_
      (setCtx_loopQ_sublist s c _ (List.nil_sublist _)) (fun _ _ => List.Sublist.refl _)
    · intro n ho; simp only [stopConn_isOpen] at ho; split at ho
      · cases ho
      · exact ho
    · intro n b; simp only [stopConn_inbox]; split
      · exact List.nil_sublist _
      · exact List.Sublist.refl _
  case connect a p hne _ _ _ =>
    show SrvInv (connState s a p)
    refine ⟨?_, fun c t n => h.user c t n⟩
    intro n hop
    by_cases e : n = s.nextConn
    · subst e
      have h1 : (((connState s a p).conn s.nextConn).half true).inbox = [] := by rw [connState_conn]; simp [newConn, Conn.half]
      have h2 : (((connState s a p).conn s.nextConn).half false).inbox = [] := by rw [connState_conn]; simp [newConn, Conn.half]
      simp only [srvPipe, h1, h2, connState_loopQ, connState_prog, List.filterMap_nil, List.nil_append, List.append_nil]
      rw [cbRepId_fresh (hty.cbs _), srvIds_fresh (hty.ops _)]
      exact List.nil_sublist _
    · have hc : (connState s a p).conn n = s.conn n := by rw [connState_conn, if_neg e]
      rw [hc] at hop ⊢
      simp only [srvPipe, hc, connState_loopQ, connState_prog]
      exact h.pipe n hop
  case cbSent c d m q cn _ hidle hq hpeer =>
    have hok : sendOk s.nextConn d m = true := hty.cbs c (.smSend d m) (by rw [hq]; exact List.mem_cons_self)
    have hdir := sendOk_dir hok
    refine ⟨?_, setProg_user_srvIds _ _ _ h.user⟩
    intro n hop
    change (((upd s.conn cn (sentConn (s.conn cn) d.isName m)) n).half true).isOpen = true at hop
    have hopen0 : ((s.conn n).half true).isOpen = true := by
      simp only [upd] at hop; split at hop
      · rename_i e; subst e; rw [sentConn_isOpen] at hop; exact hop
      · exact hop
    have hbase := h.pipe n hopen0
    -- the four parts of the pipeline and the pending table after the step
    have hown : ∀ b, (((upd s.conn cn (sentConn (s.conn cn) d.isName m)) n).half b).owner = ((s.conn n).half b).owner := by
      intro b; simp only [upd]; split
      · rename_i e; subst e; exact sentConn_owner _ _ _ _
      · rfl
    have hinb : ∀ b, (((upd s.conn cn (sentConn (s.conn cn) d.isName m)) n).half b).inbox =
        if n = cn ∧ b = (!d.isName) ∧ ((s.conn n).half b).isOpen = true then ((s.conn n).half b).inbox ++ [m] else ((s.conn n).half b).inbox := by
      intro b; simp only [upd]
      by_cases e : n = cn
      · subst e; simp only [if_true, sentConn_inbox, true_and]
      · simp [e]
    have hpend : (((upd s.conn cn (sentConn (s.conn cn) d.isName m)) n).half true).pend =
        if n = cn ∧ d.isName = true then ((s.conn n).half true).pend ++ m.reqId?.toList else ((s.conn n).half true).pend := by
      simp only [upd]
      by_cases e : n = cn
      · subst e; simp only [if_true, sentConn_pend, true_and]
        cases d.isName <;> cases m.reqId? <;> simp
      · simp [e]
    have hprog : (({ (s.setCtx c { (s.ctx c) with loopQ := q }) with conn := upd s.conn cn (sentConn (s.conn cn) d.isName m) }).setProg (.sock c) []).prog
        (.sock ((s.conn n).half false).owner) = s.prog (.sock ((s.conn n).half false).owner) := by
      simp only [setProg_prog]; split
      · rename_i e; simp only [Th.sock.injEq] at e; rw [e, hidle]
      · rfl
    have hlq : ((s.setCtx c { (s.ctx c) with loopQ := q }).ctx ((s.conn n).half false).owner).loopQ =
        if ((s.conn n).half false).owner = c then q else (s.ctx ((s.conn n).half false).owner).loopQ := by
      simp only [setCtx_ctx]; split <;> rfl
    show (((((upd s.conn cn (sentConn (s.conn cn) d.isName m)) n).half true).inbox.filterMap msgRepId ++
      ((s.setCtx c { (s.ctx c) with loopQ := q }).ctx (((upd s.conn cn (sentConn (s.conn cn) d.isName m)) n).half false).owner).loopQ.filterMap (cbRepId n) ++
      srvIds n ((({ (s.setCtx c { (s.ctx c) with loopQ := q }) with conn := upd s.conn cn (sentConn (s.conn cn) d.isName m) }).setProg (.sock c) []).prog
        (.sock (((upd s.conn cn (sentConn (s.conn cn) d.isName m)) n).half false).owner)) ++
      (((upd s.conn cn (sentConn (s.conn cn) d.isName m)) n).half false).inbox.filterMap Msg.reqId?)).Sublist
      (((upd s.conn cn (sentConn (s.conn cn) d.isName m)) n).half true).pend
    rw [hown, hprog, hlq, hinb, hinb, hpend]
    simp only [srvPipe] at hbase
    cases hd : d.isName with
    | true =>
      -- a request (or nothing relevant) goes up: appended to the server's inbox and to the pending table together
      have hup : m.isUp = true := by rw [hdir, hd]
      have hrep : msgRepId m = none := by cases m <;> simp_all [Msg.isUp, msgRepId]
      have hq' : ∀ x, (if x = c then q else (s.ctx x).loopQ).filterMap (cbRepId n) = (s.ctx x).loopQ.filterMap (cbRepId n) := by
        intro x; split
        · rename_i e; subst e; rw [hq, List.filterMap_cons]
          have : cbRepId n (Cb.smSend d m) = none := by
            cases d with
            | name y => simp [cbRepId]
            | alias y => simp [Peer.isName] at hd
          rw [this]
        · rfl
      rw [hq']
      simp only [Bool.not_true, Bool.true_eq_false, false_and, and_false, if_false, and_true]
      by_cases e : n = cn
      · subst e
        simp only [true_and]
        split
        · rw [List.filterMap_append, ← List.append_assoc]
          simp only [List.filterMap_cons, List.filterMap_nil]
          cases m.reqId? with
          | none => simpa using hbase
          | some x => simpa using hbase.append (List.Sublist.refl [x])
        · exact hbase.trans (List.sublist_append_left _ _)
      · simp only [e, false_and, if_false]; exact hbase
    | false =>
      -- a reply (or a signal / notice) goes down: from the head of the server's queue to the tail of the client's inbox
      have hup : m.isUp = false := by rw [hdir, hd]
      have hreq : m.reqId? = none := by cases m <;> simp_all [Msg.isUp, Msg.reqId?]
      obtain ⟨k, rfl⟩ : ∃ k, d = .alias k := by
        cases d with
        | name y => simp [Peer.isName] at hd
        | alias k => exact ⟨k, rfl⟩
      obtain ⟨rfl, -, hsrv⟩ := ht.peersA c k cn hpeer
      have hS : ∀ (l : List Msg), (l ++ [m]).filterMap Msg.reqId? = l.filterMap Msg.reqId? := by
        intro l; rw [List.filterMap_append]; simp [hreq]
      simp only [Bool.not_false, Bool.false_eq_true, and_false, if_false, true_and]
      by_cases e : n = cn
      · subst e
        simp only [true_and, hsrv, if_true, hopen0]
        rw [hsrv, hq, List.filterMap_cons] at hbase
        simp only [cbRepId, if_true] at hbase
        have hS' : (if ((s.conn n).half false).isOpen = true then ((s.conn n).half false).inbox ++ [m] else ((s.conn n).half false).inbox).filterMap Msg.reqId?
            = ((s.conn n).half false).inbox.filterMap Msg.reqId? := by
          split
          · exact hS _
          · rfl
        simp only [Bool.true_eq_false, false_and, if_false]
        rw [List.filterMap_append]
        simp only [List.filterMap_cons, List.filterMap_nil]
        cases hr : msgRepId m with
        | none => rw [hr] at hbase; simpa using hbase
        | some x => rw [hr] at hbase; simpa using hbase
      · simp only [e, false_and, if_false]
        refine List.Sublist.trans ?_ hbase
        refine (((List.Sublist.refl _).append ?_).append (List.Sublist.refl _)).append (List.Sublist.refl _)
        split
        · rename_i e2; rw [e2, hq, List.filterMap_cons]
          have e' : ¬ cn = n := fun x => e x.symm
          have : cbRepId n (Cb.smSend (Peer.alias cn) m) = none := by simp [cbRepId, e']
          rw [this]; exact List.Sublist.refl _
        · exact List.Sublist.refl _
  case arrive cn cli m ms hlt _ hidle hopen hin =>
    have hup : m.isUp = !cli := hty.inbox cn cli m (by rw [hin]; exact List.mem_cons_self)
    refine ⟨?_, setProg_user_srvIds _ _ _ h.user⟩
    intro n hop
    change (((upd s.conn cn ((s.conn cn).setHalf cli (readHalf ((s.conn cn).half cli) m ms))) n).half true).isOpen = true at hop
    have hown : ∀ b, (((upd s.conn cn ((s.conn cn).setHalf cli (readHalf ((s.conn cn).half cli) m ms))) n).half b).owner =
        ((s.conn n).half b).owner := by
      intro b; simp only [upd]; split
      · rename_i e; subst e; rw [half_setHalf']; split
        · rename_i e; subst e; exact readHalf_owner _ _ _
        · rfl
      · rfl
    have hopen0 : ((s.conn n).half true).isOpen = true := by
      simp only [upd] at hop; split at hop
      · rename_i e; subst e; rw [half_setHalf'] at hop; split at hop
        · rename_i e; subst e; rw [readHalf_isOpen] at hop; exact hop
        · exact hop
      · exact hop
    have hbase := h.pipe n hopen0
    have hinb : ∀ b, (((upd s.conn cn ((s.conn cn).setHalf cli (readHalf ((s.conn cn).half cli) m ms))) n).half b).inbox =
        if n = cn ∧ b = cli then ms else ((s.conn n).half b).inbox := by
      intro b; simp only [upd]
      by_cases e : n = cn
      · subst e; simp only [if_true, half_setHalf', true_and]; split
        · rename_i e; subst e; exact readHalf_inbox _ _ _
        · rfl
      · simp [e]
    have hpend : (((upd s.conn cn ((s.conn cn).setHalf cli (readHalf ((s.conn cn).half cli) m ms))) n).half true).pend =
        if n = cn ∧ cli = true then (match msgRepId m with | some id => ((s.conn n).half true).pend.erase id | none => ((s.conn n).half true).pend)
        else ((s.conn n).half true).pend := by
      simp only [upd]
      by_cases e : n = cn
      · subst e; simp only [if_true, half_setHalf', true_and]
        cases cli with
        | true => cases m <;> simp [readHalf, msgRepId]
        | false => simp
      · simp [e]
    have hprog : ∀ x, (({ s with conn := upd s.conn cn ((s.conn cn).setHalf cli (readHalf ((s.conn cn).half cli) m ms)) }).setProg
        (.sock ((s.conn cn).half cli).owner) (dispatch (srcName s cn cli) m)).prog (.sock x) =
        if x = ((s.conn cn).half cli).owner then dispatch (srcName s cn cli) m else s.prog (.sock x) := by
      intro x; simp only [setProg_prog, Th.sock.injEq]
    show (((((upd s.conn cn ((s.conn cn).setHalf cli (readHalf ((s.conn cn).half cli) m ms))) n).half true).inbox.filterMap msgRepId ++
      (s.ctx (((upd s.conn cn ((s.conn cn).setHalf cli (readHalf ((s.conn cn).half cli) m ms))) n).half false).owner).loopQ.filterMap (cbRepId n) ++
      srvIds n ((({ s with conn := upd s.conn cn ((s.conn cn).setHalf cli (readHalf ((s.conn cn).half cli) m ms)) }).setProg
        (.sock ((s.conn cn).half cli).owner) (dispatch (srcName s cn cli) m)).prog
        (.sock (((upd s.conn cn ((s.conn cn).setHalf cli (readHalf ((s.conn cn).half cli) m ms))) n).half false).owner)) ++
      (((upd s.conn cn ((s.conn cn).setHalf cli (readHalf ((s.conn cn).half cli) m ms))) n).half false).inbox.filterMap Msg.reqId?)).Sublist
      (((upd s.conn cn ((s.conn cn).setHalf cli (readHalf ((s.conn cn).half cli) m ms))) n).half true).pend
    rw [hown, hprog, hinb, hinb, hpend]
    simp only [srvPipe] at hbase
    -- the handler part: the program of the server's socket thread of connection `n`
    have hH : srvIds n (if ((s.conn n).half false).owner = ((s.conn cn).half cli).owner then dispatch (srcName s cn cli) m
          else s.prog (.sock ((s.conn n).half false).owner)) =
        if ((s.conn n).half false).owner = ((s.conn cn).half cli).owner then
          (if cli = false ∧ n = cn then m.reqId?.toList else []) else srvIds n (s.prog (.sock ((s.conn n).half false).owner)) := by
      split
      · exact srvIds_dispatch s n cn cli hup
      · rfl
    have hH0 : ((s.conn n).half false).owner = ((s.conn cn).half cli).owner → srvIds n (s.prog (.sock ((s.conn n).half false).owner)) = [] := by
      intro e; rw [e, hidle]; rfl
    rw [hH]
    cases cli with
    | true =>
      have hrq : m.reqId? = none := by cases m <;> simp_all [Msg.isUp, Msg.reqId?]
      simp only [Bool.true_eq_false, false_and, if_false, and_true, and_false]
      have hHH : (if ((s.conn n).half false).owner = ((s.conn cn).half true).owner then ([] : List ReqId)
          else srvIds n (s.prog (.sock ((s.conn n).half false).owner))) = srvIds n (s.prog (.sock ((s.conn n).half false).owner)) := by
        split
        · rename_i e; exact (hH0 e).symm
        · rfl
      rw [hHH]
      by_cases e : n = cn
      · subst e
        simp only [if_true]
        rw [hin, List.filterMap_cons] at hbase
        cases hr : msgRepId m with
        | none => rw [hr] at hbase; simpa using hbase
        | some id =>
          rw [hr] at hbase
          simp only [List.cons_append] at hbase
          exact sublist_erase_of_cons hbase
      · simp only [e, if_false]; exact hbase
    | false =>
      simp only [Bool.false_eq_true, and_false, if_false, true_and]
      by_cases e : n = cn
      · subst e
        simp only [if_true]
        rw [hin, List.filterMap_cons] at hbase
        rw [hH0 rfl] at hbase
        cases hr : m.reqId? with
        | none => rw [hr] at hbase; simpa using hbase
        | some id => rw [hr] at hbase; simpa using hbase
      · simp only [e, if_false]
        have hHH : (if ((s.conn n).half false).owner = ((s.conn cn).half false).owner then ([] : List ReqId)
            else srvIds n (s.prog (.sock ((s.conn n).half false).owner))) = srvIds n (s.prog (.sock ((s.conn n).half false).owner)) := by
          split
          · rename_i e2; exact (hH0 e2).symm
          · rfl
        rw [hHH]; exact hbase

theorem srvInv_reach {s : State} (h : Reach s) : SrvInv s := by
  induction h with
  | init => exact srvInv_init
  | step hr hs ih =>
    rename_i s0 s1 a o
    by_cases ha : ∃ th ch ch2, a = .micro th ch ch2
    · obtain ⟨th, ch, ch2, rfl⟩ := ha
      obtain ⟨-, op, rest, hp, hm⟩ := step_micro_inv hs
      exact srvInv_micro ih hp hm
    · exact srvInv_nstep ih (topoInv_reach hr) (typInv_reach hr) (step_nonmicro_cases (fun th ch ch2 e => ha ⟨th, ch, ch2, e⟩) hs)

/-! ### the client side: every request id is carried at most once -/

structure TokInv (s : State) : Prop where
  nd_prog : ∀ th, (progIds (s.prog th)).Nodup
  dj_prog : ∀ th th' id, th ≠ th' → th.ctx = th'.ctx → id ∈ progIds (s.prog th) → id ∉ progIds (s.prog th')
  nd_lq : ∀ c, (lqIds (s.ctx c).loopQ).Nodup
  dj_prog_lq : ∀ th id, id ∈ progIds (s.prog th) → id ∉ lqIds (s.ctx th.ctx).loopQ
  nd_pend : ∀ n, ((s.conn n).half true).pend.Nodup
  dj_pend : ∀ n n' id, n ≠ n' → ((s.conn n).half true).owner = ((s.conn n').half true).owner →
    id ∈ ((s.conn n).half true).pend → id ∉ ((s.conn n').half true).pend
  dj_prog_pend : ∀ th n id, ((s.conn n).half true).owner = th.ctx → id ∈ progIds (s.prog th) → id ∉ ((s.conn n).half true).pend
  dj_lq_pend : ∀ n id, id ∈ lqIds (s.ctx ((s.conn n).half true).owner).loopQ → id ∉ ((s.conn n).half true).pend
  bound : ∀ th id, id ∈ progIds (s.prog th) → id < (s.ctx th.ctx).nextReq

/-- the state after a step, as far as tokens go: the program ids of one thread, the queue ids of its context, the pending
table of one connection end and `nextReq` of that context may differ -/
theorem TokInv.of {s s' : State} (h : TokInv s) (hid : IdInv s) (th : Th) (n0 : ConnId)
    (hown : ∀ n, ((s'.conn n).half true).owner = ((s.conn n).half true).owner)
    (hP : ∀ x, x ≠ th → s'.prog x = s.prog x)
    (hL : ∀ c, c ≠ th.ctx → (s'.ctx c).loopQ = (s.ctx c).loopQ)
    (hN : ∀ n, n ≠ n0 → ((s'.conn n).half true).pend = ((s.conn n).half true).pend)
    (hB : ∀ c, (s.ctx c).nextReq ≤ (s'.ctx c).nextReq)
    (hn0 : ((s'.conn n0).half true).pend ≠ ((s.conn n0).half true).pend → ((s.conn n0).half true).owner = th.ctx)
    -- every id held at a changed place afterwards was held at a changed place before, or is fresh
    (hsrc : ∀ id, (id ∈ progIds (s'.prog th) ∨ id ∈ lqIds (s'.ctx th.ctx).loopQ ∨
          (id ∈ ((s'.conn n0).half true).pend ∧ ((s.conn n0).half true).owner = th.ctx)) →
        (id ∈ progIds (s.prog th) ∨ id ∈ lqIds (s.ctx th.ctx).loopQ ∨ (id ∈ ((s.conn n0).half true).pend ∧ ((s.conn n0).half true).owner = th.ctx)) ∨
        ((s.ctx th.ctx).nextReq ≤ id ∧ id < (s'.ctx th.ctx).nextReq))
    -- and the changed places are duplicate-free and pairwise disjoint afterwards
    (hnd : (progIds (s'.prog th)).Nodup ∧ (lqIds (s'.ctx th.ctx).loopQ).Nodup ∧ ((s'.conn n0).half true).pend.Nodup)
    (hdj : (∀ id ∈ progIds (s'.prog th), id ∉ lqIds (s'.ctx th.ctx).loopQ) ∧
           (((s.conn n0).half true).owner = th.ctx → (∀ id ∈ progIds (s'.prog th), id ∉ ((s'.conn n0).half true).pend) ∧
             (∀ id ∈ lqIds (s'.ctx th.ctx).loopQ, id ∉ ((s'.conn n0).half true).pend)))
    (hbd : ∀ id ∈ progIds (s'.prog th), id < (s'.ctx th.ctx).nextReq) : TokInv s' := by
  -- ids below `nextReq`
  have blq : ∀ c id, id ∈ lqIds (s.ctx c).loopQ → id < (s.ctx c).nextReq := by
    intro c id hm
    simp only [lqIds, List.mem_filterMap] at hm
    obtain ⟨cb, hcb, he⟩ := hm
    have := hid.cbs c cb hcb
    cases cb with
    | smSend d m => cases m <;> simp_all [Cb.carId, Msg.reqId?, Cb.idOk, Msg.idOk]
    | disconnect n t => simp [Cb.carId] at he
  have bpd : ∀ n id, id ∈ ((s.conn n).half true).pend → id < (s.ctx ((s.conn n).half true).owner).nextReq := fun n id => hid.pend n true id
  obtain ⟨nd1, nd2, nd3⟩ := hnd
  obtain ⟨dj1, dj2⟩ := hdj
  -- an id held at a changed place afterwards is not held at an unchanged place of the same context
  have key1 : ∀ id, (id ∈ progIds (s'.prog th) ∨ id ∈ lqIds (s'.ctx th.ctx).loopQ ∨
        (id ∈ ((s'.conn n0).half true).pend ∧ ((s.conn n0).half true).owner = th.ctx)) →
      ∀ th', th' ≠ th → th'.ctx = th.ctx → id ∉ progIds (s.prog th') := by
    intro id hh th' hne hc hm
    rcases hsrc id hh with (h1 | h1 | ⟨h1, h2⟩) | ⟨h1, -⟩
    · exact h.dj_prog th th' id (Ne.symm hne) hc.symm h1 hm
    · exact h.dj_prog_lq th' id hm (by rw [hc]; exact h1)
    · exact h.dj_prog_pend th' n0 id (by rw [h2, hc]) hm h1
    · have := h.bound th' id hm; rw [hc] at this; exact absurd this (Nat.not_lt.2 h1)
  have key2 : ∀ id, (id ∈ progIds (s'.prog th) ∨ id ∈ lqIds (s'.ctx th.ctx).loopQ ∨
        (id ∈ ((s'.conn n0).half true).pend ∧ ((s.conn n0).half true).owner = th.ctx)) →
      ∀ n, n ≠ n0 → ((s.conn n).half true).owner = th.ctx → id ∉ ((s.conn n).half true).pend := by
    intro id hh n hne hc hm
    rcases hsrc id hh with (h1 | h1 | ⟨h1, h2⟩) | ⟨h1, -⟩
    · exact h.dj_prog_pend th n id hc h1 hm
    · exact h.dj_lq_pend n id (by rw [hc]; exact h1) hm
    · exact h.dj_pend n n0 id hne (by rw [hc, h2]) hm h1
    · have := bpd n id hm; rw [hc] at this; exact absurd this (Nat.not_lt.2 h1)
  constructor
  · intro x
    by_cases e : x = th
    · subst e; exact nd1
    · rw [hP x e]; exact h.nd_prog x
  · intro x x' id hne hc hm hm'
    by_cases e : x = th
    · subst e
      rw [hP x' (Ne.symm hne)] at hm'
      exact key1 id (Or.inl hm) x' (Ne.symm hne) hc.symm hm'
    · by_cases e' : x' = th
      · subst e'
        rw [hP x e] at hm
        exact key1 id (Or.inl hm') x e hc hm
      · rw [hP x e] at hm; rw [hP x' e'] at hm'
        exact h.dj_prog x x' id hne hc hm hm'
  · intro c
    by_cases e : c = th.ctx
    · subst e; exact nd2
    · rw [hL c e]; exact h.nd_lq c
  · intro x id hm hm'
    by_cases e : x = th
    · subst e; exact dj1 id hm hm'
    · rw [hP x e] at hm
      by_cases ec : x.ctx = th.ctx
      · rw [ec] at hm'
        exact key1 id (Or.inr (Or.inl hm')) x e ec hm
      · rw [hL _ ec] at hm'; exact h.dj_prog_lq x id hm hm'
  · intro n
    by_cases e : n = n0
    · subst e; exact nd3
    · rw [hN n e]; exact h.nd_pend n
  · intro n n' id hne hc hm hm'
    rw [hown, hown] at hc
    by_cases e : n = n0
    · subst e
      rw [hN n' (Ne.symm hne)] at hm'
      by_cases eq : ((s'.conn n).half true).pend = ((s.conn n).half true).pend
      · rw [eq] at hm; exact h.dj_pend n n' id hne hc hm hm'
      · exact key2 id (Or.inr (Or.inr ⟨hm, hn0 eq⟩)) n' (Ne.symm hne) (by rw [← hc]; exact hn0 eq) hm'
    · by_cases e' : n' = n0
      · subst e'
        rw [hN n e] at hm
        by_cases eq : ((s'.conn n').half true).pend = ((s.conn n').half true).pend
        · rw [eq] at hm'; exact h.dj_pend n n' id hne hc hm hm'
        · exact key2 id (Or.inr (Or.inr ⟨hm', hn0 eq⟩)) n e (by rw [hc]; exact hn0 eq) hm
      · rw [hN n e] at hm; rw [hN n' e'] at hm'
        exact h.dj_pend n n' id hne hc hm hm'
  · intro x n id hc hm hm'
    rw [hown] at hc
    by_cases e : x = th
    · subst e
      by_cases e' : n = n0
      · subst e'; exact (dj2 hc).1 id hm hm'
      · rw [hN n e'] at hm'; exact key2 id (Or.inl hm) n e' hc hm'
    · rw [hP x e] at hm
      by_cases e' : n = n0
      · subst e'
        by_cases eq : ((s'.conn n).half true).pend = ((s.conn n).half true).pend
        · rw [eq] at hm'; exact h.dj_prog_pend x n id hc hm hm'
        · have := hn0 eq
          exact key1 id (Or.inr (Or.inr ⟨hm', this⟩)) x e (by rw [← hc, this]) hm
      · rw [hN n e'] at hm'; exact h.dj_prog_pend x n id hc hm hm'
  · intro n id hm hm'
    rw [hown] at hm
    by_cases ec : ((s.conn n).half true).owner = th.ctx
    · rw [ec] at hm
      by_cases e' : n = n0
      · subst e'; exact (dj2 ec).2 id hm hm'
      · rw [hN n e'] at hm'; exact key2 id (Or.inr (Or.inl hm)) n e' ec hm'
    · rw [hL _ ec] at hm
      by_cases e' : n = n0
      · subst e'
        by_cases eq : ((s'.conn n).half true).pend = ((s.conn n).half true).pend
        · rw [eq] at hm'; exact h.dj_lq_pend n id hm hm'
        · exact absurd (hn0 eq) ec
      · rw [hN n e'] at hm'; exact h.dj_lq_pend n id hm hm'
  · intro x id hm
    by_cases e : x = th
    · subst e; exact hbd id hm
    · rw [hP x e] at hm
      exact Nat.lt_of_lt_of_le (h.bound x id hm) (hB _)


theorem tokInv_init : TokInv State.init := by
  constructor <;> simp [State.init, CtxSt.init, progIds, lqIds, Conn.half, Half.init]

theorem lqIds_micro {s s' : State} {th : Th} {ch ch2 : Nat} {op : MOp} {rest : List MOp} {o : Out}
    (hs : microStep s th ch ch2 op rest = some (s', o)) (c : Ctx) :
    lqIds (s'.ctx c).loopQ = lqIds (s.ctx c).loopQ ∨
    (c = th.ctx ∧ ∃ d m, op = .enq d m ∧ lqIds (s'.ctx c).loopQ = lqIds (s.ctx c).loopQ ++ m.reqId?.toList) := by
  rcases microStep_loopQ_cases hs c with e | ⟨hc, d, m, rfl, e⟩ | ⟨hc, n, t, e⟩
  · left; rw [e]
  · right; refine ⟨hc, d, m, rfl, ?_⟩
    rw [e, lqIds_append, lqIds_cons]; simp [Cb.carId, lqIds]
  · left; rw [e, lqIds_append]; simp [lqIds, Cb.carId]

theorem tokInv_micro {s s' : State} {th : Th} {ch ch2 : Nat} {op : MOp} {rest : List MOp} {o : Out}
    (h : TokInv s) (hid : IdInv s) (hown0 : OwnInv s) (hprog : s.prog th = op :: rest)
    (hs : microStep s th ch ch2 op rest = some (s', o)) : TokInv s' := by
  have hf := microStep_frame hs
  have hown := microStep_owner hs
  have hB : ∀ c, (s.ctx c).nextReq ≤ (s'.ctx c).nextReq := by
    intro c
    by_cases e : c = th.ctx
    · subst e
      have hops := hid.ops th
      rw [hprog, idOps_cons, Bool.and_eq_true] at hops
      exact (microStep_idOps hops.1 hops.2 (hid.cbs th.ctx) hs).1
    · rw [hf.ctx_other c e]; exact Nat.le_refl _
  have hP : ∀ x, x ≠ th → s'.prog x = s.prog x := hf.prog_other
  have hL : ∀ c, c ≠ th.ctx → (s'.ctx c).loopQ = (s.ctx c).loopQ := fun c e => by rw [hf.ctx_other c e]
  -- old facts about the changed places
  have o1 := h.nd_prog th
  have o2 := h.nd_lq th.ctx
  have o3 := h.dj_prog_lq th
  have o4 := h.bound th
  rw [hprog] at o1 o3 o4
  -- pending tables: unchanged, or the one closed by this step is emptied
  by_cases hcl : ∃ cn, op = .closeConn cn true
  · obtain ⟨cn, rfl⟩ := hcl
    have hth := (hown0.close th cn true (by rw [hprog]; exact List.mem_cons_self)).2
    have o5 := h.dj_prog_pend th cn
    have o6 := h.dj_lq_pend cn
    have o7 := h.nd_pend cn
    have o8 := hid.pend cn true
    rw [hprog] at o5
    rw [hth] at o6 o8
    simp only [microStep, Option.some.injEq, Prod.mk.injEq] at hs
    obtain ⟨rfl, -⟩ := hs
    have hpr : progIds ((List.map (fun id => MOp.handleReply id false) ((s.conn cn).half true).pend) ++ rest) =
        ((s.conn cn).half true).pend ++ progIds rest := by
      rw [progIds_append]; simp [progIds, List.filterMap_map, Function.comp_def, MOp.carId]
    have hpd : ∀ n, (((upd s.conn cn ((s.conn cn).setHalf true { (s.conn cn).half true with isOpen := false, inbox := [], pend := [] })) n).half true).pend =
        if n = cn then [] else ((s.conn n).half true).pend := by
      intro n; simp only [upd]; split
      · rename_i e; subst e; simp [half_setHalf']
      · rfl
    refine h.of hid th cn (fun n => hown n true) hP hL ?_ hB (fun _ => hth) ?_ ?_ ?_ ?_
    · intro n hn; show (((upd s.conn cn _) n).half true).pend = _; rw [hpd, if_neg hn]
    · intro id hh
      left
      simp only [setProg_prog, if_true, setProg_ctx, setProg_conn, hpr, hpd, List.mem_append, List.not_mem_nil, or_false] at hh
      rw [hprog, progIds_cons]
      simp only [MOp.carId, Option.toList, List.nil_append]
      rcases hh with (h1 | h1) | h1 | ⟨h1, -⟩
      · exact Or.inr (Or.inr ⟨h1, hth⟩)
      · exact Or.inl h1
      · exact Or.inr (Or.inl h1)
      · exact absurd h1 (by simp)
    · simp only [setProg_prog, if_true, setProg_ctx, setProg_conn, hpr, hpd]
      rw [progIds_cons] at o1 o5
      simp only [MOp.carId, Option.toList, List.nil_append] at o1 o5
      refine ⟨List.nodup_append.2 ⟨o7, o1, ?_⟩, o2, List.nodup_nil⟩
      intro a ha b hb e; subst e; exact o5 a hth hb ha
    · simp only [setProg_prog, if_true, setProg_ctx, setProg_conn, hpr, hpd]
      rw [progIds_cons] at o3
      simp only [MOp.carId, Option.toList, List.nil_append] at o3
      refine ⟨?_, fun _ => ⟨by simp, by simp⟩⟩
      intro id hm
      rcases List.mem_append.1 hm with h1 | h1
      · exact fun hq => o6 id hq h1
      · exact o3 id h1
    · intro id hm
      simp only [setProg_prog, if_true, setProg_ctx, hpr] at hm ⊢
      rw [progIds_cons] at o4
      simp only [MOp.carId, Option.toList, List.nil_append] at o4
      rcases List.mem_append.1 hm with h1 | h1
      · exact o8 id h1
      · exact o4 id h1
  · -- every other operation leaves the pending tables of client ends alone
    have hpd : ∀ n, ((s'.conn n).half true).pend = ((s.conn n).half true).pend := by
      intro n
      rcases microStep_half hs n true with e | ⟨-, -, -, e⟩
      · rw [e]
      · exact absurd ⟨n, e⟩ hcl
    have hlq := lqIds_micro hs th.ctx
    have hnr : (s.ctx th.ctx).nextReq ≤ (s'.ctx th.ctx).nextReq := hB _
    have blq : ∀ id, id ∈ lqIds (s.ctx th.ctx).loopQ → id < (s.ctx th.ctx).nextReq := by
      intro id hm
      simp only [lqIds, List.mem_filterMap] at hm
      obtain ⟨cb, hcb, he⟩ := hm
      have := hid.cbs th.ctx cb hcb
      cases cb with
      | smSend d m => cases m <;> simp_all [Cb.carId, Msg.reqId?, Cb.idOk, Msg.idOk]
      | disconnect n t => simp [Cb.carId] at he
    by_cases henq : ∃ d m, op = .enq d m
    · -- `enq`: the id (if any) moves from the head of the program to the tail of the event-loop queue
      obtain ⟨d, m, rfl⟩ := henq
      have e1 : progIds (s'.prog th) = progIds rest := by
        simp only [microStep, Option.some.injEq, Prod.mk.injEq] at hs
        obtain ⟨rfl, -⟩ := hs; simp
      have e2 : (s'.ctx th.ctx).nextReq = (s.ctx th.ctx).nextReq := by
        simp only [microStep, Option.some.injEq, Prod.mk.injEq] at hs
        obtain ⟨rfl, -⟩ := hs; simp
      have e3 : lqIds (s'.ctx th.ctx).loopQ = lqIds (s.ctx th.ctx).loopQ ++ m.reqId?.toList := by
        simp only [microStep, Option.some.injEq, Prod.mk.injEq] at hs
        obtain ⟨rfl, -⟩ := hs
        simp [State.setProg, State.setCtx, upd, lqIds, List.filterMap_cons, Cb.carId]
        cases m.reqId? <;> rfl
      rw [progIds_cons] at o1 o3 o4
      simp only [MOp.carId] at o1 o3 o4
      have o5 := h.dj_prog_pend th 0
      have o6 := h.dj_lq_pend 0
      have o7 := h.nd_pend 0
      rw [hprog, progIds_cons] at o5
      simp only [MOp.carId] at o5
      refine h.of hid th 0 (fun n => hown n true) hP hL (fun n _ => hpd n) hB (fun e => absurd (hpd 0) e) ?_ ?_ ?_ ?_
      all_goals (simp only [hpd, e1, e2, e3, hprog, progIds_cons, MOp.carId])
      all_goals (cases hr : m.reqId? <;> simp only [hr, Option.toList, List.nil_append, List.append_nil, List.singleton_append] at *)
      all_goals (try grind [List.nodup_append, List.nodup_cons])
    · have e3 : lqIds (s'.ctx th.ctx).loopQ = lqIds (s.ctx th.ctx).loopQ := by
        rcases hlq with e3 | ⟨-, d', m', e4, -⟩
        · exact e3
        · exact absurd ⟨d', m', e4⟩ henq
      have o5 := h.dj_prog_pend th 0
      have o6 := h.dj_lq_pend 0
      have o7 := h.nd_pend 0
      have bp0 := hid.pend 0 true
      rw [hprog] at o5
      -- how the ids in the program of the acting thread change
      have hcases : (progIds (s'.prog th) = progIds (op :: rest) ∧ (s'.ctx th.ctx).nextReq = (s.ctx th.ctx).nextReq) ∨
          ((progIds (s'.prog th)).Sublist (progIds (op :: rest)) ∧ (s'.ctx th.ctx).nextReq = (s.ctx th.ctx).nextReq) ∨
          (∃ l, l.Sublist (progIds (op :: rest)) ∧ progIds (s'.prog th) = (s.ctx th.ctx).nextReq :: l ∧
            (s'.ctx th.ctx).nextReq = (s.ctx th.ctx).nextReq + 1) := by
        rcases microStep_progIds hs with ⟨e1, e2⟩ | ⟨d, m, e, -⟩ | ⟨id0, ok0, rfl, ⟨e1, e2⟩ | ⟨e1, e2⟩⟩ | ⟨e0, e1, e2⟩ |
          ⟨cn, cli, rfl, e1, e2⟩ | ⟨e0, e1, e2⟩
        · exact Or.inl ⟨e1, e2⟩
        · exact absurd ⟨d, m, e⟩ henq
        · right; left; rw [e1, progIds_cons]; exact ⟨List.sublist_append_right _ _, e2⟩
        · right; right; exact ⟨progIds rest, by rw [progIds_cons]; exact List.sublist_append_right _ _, e1, e2⟩
        · right; right; exact ⟨progIds rest, by rw [progIds_cons]; exact List.sublist_append_right _ _, e1, e2⟩
        · cases cli with
          | true => exact absurd ⟨cn, rfl⟩ hcl
          | false =>
            left; rw [e1, hid.pendS cn, progIds_cons]; simp [MOp.carId, e2]
        · right; left; rw [e1]; exact ⟨List.nil_sublist _, e2⟩
      refine h.of hid th 0 (fun n => hown n true) hP hL (fun n _ => hpd n) hB (fun e => absurd (hpd 0) e) ?_ ?_ ?_ ?_
      all_goals (try simp only [hpd, e3, hprog])
      all_goals (rcases hcases with ⟨e1, e2⟩ | ⟨e1, e2⟩ | ⟨l, e0, e1, e2⟩)
      all_goals (try simp only [e1, e2])
      all_goals (try (have hsub := e1.subset))
      all_goals (try (have hsub := e0.subset))
      all_goals (try (have hnd := e1.nodup o1))
      all_goals (try (have hnd := e0.nodup o1))
      all_goals (try grind [List.nodup_cons])

/-- actions after which every token place holds a subset of what it held, nothing moved -/
theorem TokInv.ofSub {s s' : State} (h : TokInv s)
    (hP : ∀ x, progIds (s'.prog x) = progIds (s.prog x))
    (hL : ∀ c, (lqIds (s'.ctx c).loopQ).Sublist (lqIds (s.ctx c).loopQ))
    (hN : ∀ n, (((s'.conn n).half true).pend = ((s.conn n).half true).pend ∧
                ((s'.conn n).half true).owner = ((s.conn n).half true).owner) ∨ ((s'.conn n).half true).pend = [])
    (hB : ∀ c, (s'.ctx c).nextReq = (s.ctx c).nextReq) : TokInv s' := by
  constructor
  · intro x; rw [hP]; exact h.nd_prog x
  · intro x x' id hne hc hm hm'; rw [hP] at hm hm'; exact h.dj_prog x x' id hne hc hm hm'
  · intro c; exact (hL c).nodup (h.nd_lq c)
  · intro x id hm hm'; rw [hP] at hm; exact h.dj_prog_lq x id hm ((hL _).subset hm')
  · intro n
    rcases hN n with ⟨e, -⟩ | e <;> rw [e]
    · exact h.nd_pend n
    · exact List.nodup_nil
  · intro n n' id hne hc hm hm'
    rcases hN n with ⟨e, eo⟩ | e
    · rcases hN n' with ⟨e', eo'⟩ | e'
      · rw [e] at hm; rw [e'] at hm'; rw [eo, eo'] at hc
        exact h.dj_pend n n' id hne hc hm hm'
      · rw [e'] at hm'; simp at hm'
    · rw [e] at hm; simp at hm
  · intro x n id hc hm hm'
    rw [hP] at hm
    rcases hN n with ⟨e, eo⟩ | e
    · rw [e] at hm'; rw [eo] at hc; exact h.dj_prog_pend x n id hc hm hm'
    · rw [e] at hm'; simp at hm'
  · intro n id hm hm'
    rcases hN n with ⟨e, eo⟩ | e
    · rw [e] at hm'; rw [eo] at hm; exact h.dj_lq_pend n id ((hL _).subset hm) hm'
    · rw [e] at hm'; simp at hm'
  · intro x id hm; rw [hP] at hm; rw [hB]; exact h.bound x id hm

theorem progIds_beginProg (c : Ctx) (t : Tid) (k : Nat) (o : Op) : progIds (beginProg c t k o) = [] := by
  cases o <;> simp only [beginProg] <;> (try split) <;> simp [progIds, MOp.carId]

theorem setProg_progIds_nil (s : State) (th : Th) (pr : List MOp) (hidle : s.prog th = []) (hpr : progIds pr = []) (x : Th) :
    progIds ((s.setProg th pr).prog x) = progIds (s.prog x) := by
  simp only [setProg_prog]; split
  · rename_i e; subst e; rw [hpr, hidle]; rfl
  · rfl

theorem setCtx_lqIds_sublist (s : State) (c : Ctx) (cs : CtxSt) (h : (lqIds cs.loopQ).Sublist (lqIds (s.ctx c).loopQ)) (x : Ctx) :
    (lqIds ((s.setCtx c cs).ctx x).loopQ).Sublist (lqIds (s.ctx x).loopQ) := by
  simp only [setCtx_ctx]; split
  · rename_i e; subst e; exact h
  · exact List.Sublist.refl _

theorem setCtx_nextReq_eq (s : State) (c : Ctx) (cs : CtxSt) (h : cs.nextReq = (s.ctx c).nextReq) (x : Ctx) :
    ((s.setCtx c cs).ctx x).nextReq = (s.ctx x).nextReq := setCtx_nextReq_of_eq s c cs h x

theorem progIds_onSendFail (m : Msg) : progIds (onSendFail m) = m.reqId?.toList := by
  cases m <;> simp [onSendFail, progIds, MOp.carId, Msg.reqId?]

theorem progIds_dispatch (src : Peer) (m : Msg) : progIds (dispatch src m) = (msgRepId m).toList := by
  cases m with
  | subReq id ob sg b => cases b <;> simp [dispatch, progIds, MOp.carId, Msg.reqId?, msgRepId]
  | _ => simp [dispatch, progIds, MOp.carId, msgRepId]

theorem lqIds_bound {s : State} (hid : IdInv s) (c : Ctx) : ∀ id, id ∈ lqIds (s.ctx c).loopQ → id < (s.ctx c).nextReq := by
  intro id hm
  simp only [lqIds, List.mem_filterMap] at hm
  obtain ⟨cb, hcb, he⟩ := hm
  have := hid.cbs c cb hcb
  cases cb with
  | smSend d m => cases m <;> simp_all [Cb.carId, Msg.reqId?, Cb.idOk, Msg.idOk]
  | disconnect n t => simp [Cb.carId] at he

/-- a callback whose message cannot be sent: its request id (if any) comes back as an error reply in the socket thread -/
theorem tokInv_cbBack {s : State} {c : Ctx} {d : Peer} {m : Msg} {q : List Cb} (h : TokInv s) (hid : IdInv s)
    (hidle : s.prog (.sock c) = []) (hq : (s.ctx c).loopQ = .smSend d m :: q) :
    TokInv ((s.setCtx c { (s.ctx c) with loopQ := q }).setProg (.sock c) (onSendFail m)) := by
  have hL0 : lqIds (s.ctx c).loopQ = m.reqId?.toList ++ lqIds q := by rw [hq, lqIds_cons]; rfl
  have o2 : (m.reqId?.toList ++ lqIds q).Nodup := hL0 ▸ h.nd_lq c
  have o6 : ((s.conn 0).half true).owner = c → ∀ id, id ∈ m.reqId?.toList ++ lqIds q → id ∉ ((s.conn 0).half true).pend := by
    intro hc id hm; exact h.dj_lq_pend 0 id (by rw [hc, hL0]; exact hm)
  have o7 := h.nd_pend 0
  have blq : ∀ id, id ∈ m.reqId?.toList ++ lqIds q → id < (s.ctx c).nextReq := by
    intro id hm; exact lqIds_bound hid c id (by rw [hL0]; exact hm)
  have hnr : ∀ x, ((s.setCtx c { (s.ctx c) with loopQ := q }).ctx x).nextReq = (s.ctx x).nextReq := setCtx_nextReq_eq s c _ rfl
  have hlq : ((s.setCtx c { (s.ctx c) with loopQ := q }).ctx c).loopQ = q := by simp
  have hP0 : progIds (s.prog (.sock c)) = [] := by rw [hidle]; rfl
  refine h.of hid (.sock c) 0 (fun _ => rfl) ?_ ?_ (fun _ _ => rfl) (fun x => by rw [setProg_ctx, hnr]; exact Nat.le_refl _)
    (fun e => absurd rfl e) ?_ ?_ ?_ ?_
  · intro x hx; simp only [setProg_prog]; rw [if_neg hx]; rfl
  · intro x hx; simp only [setProg_ctx, setCtx_ctx, Th.ctx] at hx ⊢; rw [if_neg hx]
  all_goals (simp only [setProg_prog, if_true, setProg_ctx, setProg_conn, setCtx_conn, Th.ctx, hlq, hnr, hP0, progIds_onSendFail, hL0])
  all_goals (clear hlq hnr)
  all_goals (generalize m.reqId?.toList = X at *)
  all_goals (generalize lqIds q = Q at *)
  all_goals (generalize ((s.conn 0).half true).pend = N at *)
  all_goals (try grind [List.nodup_append])
  exact fun id hm => blq id (List.mem_append_left _ hm)

/-- a request is written to its connection: its id moves from the head of the event-loop queue to the pending table -/
theorem tokInv_cbSent {s : State} {c : Ctx} {d : Peer} {m : Msg} {q : List Cb} {cn : ConnId} (h : TokInv s) (hid : IdInv s)
    (hty : TypInv s) (hown0 : OwnInv s) (hidle : s.prog (.sock c) = []) (hq : (s.ctx c).loopQ = .smSend d m :: q)
    (hpeer : (s.ctx c).peers d = some cn) :
    TokInv (({ (s.setCtx c { (s.ctx c) with loopQ := q }) with conn := upd s.conn cn (sentConn (s.conn cn) d.isName m) }).setProg (.sock c) []) := by
  have hok : sendOk s.nextConn d m = true := hty.cbs c (.smSend d m) (by rw [hq]; exact List.mem_cons_self)
  have hdir := sendOk_dir hok
  have hoc := (hown0.peers c d cn hpeer).2
  have hL0 : lqIds (s.ctx c).loopQ = m.reqId?.toList ++ lqIds q := by rw [hq, lqIds_cons]; rfl
  have o2 : (m.reqId?.toList ++ lqIds q).Nodup := hL0 ▸ h.nd_lq c
  have o7 := h.nd_pend cn
  have hnr : ∀ x, ((s.setCtx c { (s.ctx c) with loopQ := q }).ctx x).nextReq = (s.ctx x).nextReq := setCtx_nextReq_eq s c _ rfl
  have hlq : ((s.setCtx c { (s.ctx c) with loopQ := q }).ctx c).loopQ = q := by simp
  have hP0 : progIds (s.prog (.sock c)) = [] := by rw [hidle]; rfl
  have hownc : ∀ n, (((upd s.conn cn (sentConn (s.conn cn) d.isName m)) n).half true).owner = ((s.conn n).half true).owner := by
    intro n; simp only [upd]; split
    · rename_i e; subst e; exact sentConn_owner _ _ _ _
    · rfl
  have hpend : ∀ n, (((upd s.conn cn (sentConn (s.conn cn) d.isName m)) n).half true).pend =
      if n = cn ∧ d.isName = true then ((s.conn n).half true).pend ++ m.reqId?.toList else ((s.conn n).half true).pend := by
    intro n; simp only [upd]
    by_cases e : n = cn
    · subst e; simp only [if_true, sentConn_pend, true_and]
      cases d.isName <;> cases m.reqId? <;> simp
    · simp [e]
  -- when the message goes down (a reply, a signal, a notice) it carries no request id
  have hX : d.isName = false → m.reqId? = none := by
    intro hd
    have : m.isUp = false := by rw [hdir, hd]
    cases m <;> simp_all [Msg.isUp, Msg.reqId?]
  have o6 : ((s.conn cn).half true).owner = c → ∀ id, id ∈ m.reqId?.toList ++ lqIds q → id ∉ ((s.conn cn).half true).pend := by
    intro hc id hm; exact h.dj_lq_pend cn id (by rw [hc, hL0]; exact hm)
  refine h.of hid (.sock c) cn hownc ?_ ?_ ?_ (fun x => by rw [setProg_ctx, hnr]; exact Nat.le_refl _) ?_ ?_ ?_ ?_ ?_
  · intro x hx; simp only [setProg_prog]; rw [if_neg hx]; rfl
  · intro x hx; simp only [setProg_ctx, setCtx_ctx, Th.ctx] at hx ⊢; rw [if_neg hx]
  · intro n hn; show (((upd s.conn cn _) n).half true).pend = _; rw [hpend]; simp [hn]
  · intro hne
    change (((upd s.conn cn (sentConn (s.conn cn) d.isName m)) cn).half true).pend ≠ _ at hne
    rw [hpend] at hne
    cases hd : d.isName with
    | true => rw [hd] at hoc; exact hoc
    | false => simp [hd] at hne
  all_goals (simp only [setProg_prog, if_true, setProg_ctx, setProg_conn, Th.ctx, hlq, hnr, hL0])
  all_goals (rw [show progIds ([] : List MOp) = [] from rfl])
  all_goals (try rw [hP0])
  all_goals (have hp := hpend cn; simp only [true_and] at hp; (try rw [hp]); clear hp hpend hlq hnr hownc)
  all_goals (cases hd : d.isName)
  all_goals (try (have hx := hX hd; rw [hx] at *))
  all_goals (simp only [Bool.false_eq_true, if_false, if_true, Option.toList, List.nil_append, List.append_nil] at *)
  all_goals (try (rw [hd] at hoc))
  all_goals (generalize lqIds q = Q at *)
  all_goals (generalize ((s.conn cn).half true).pend = N at *)
  all_goals (try (generalize m.reqId?.toList = X at *))
  all_goals (try grind [List.nodup_append])

/-- a message is read: a reply takes its request id from the pending table into the socket thread's program -/
theorem tokInv_arrive {s : State} {cn : ConnId} {cli : Bool} {m : Msg} {ms : List Msg} (h : TokInv s) (hid : IdInv s)
    (hty : TypInv s) (hsrv : SrvInv s) (hidle : s.prog (.sock ((s.conn cn).half cli).owner) = [])
    (hopen : ((s.conn cn).half cli).isOpen = true) (hin : ((s.conn cn).half cli).inbox = m :: ms) :
    TokInv (({ s with conn := upd s.conn cn ((s.conn cn).setHalf cli (readHalf ((s.conn cn).half cli) m ms)) }).setProg
        (.sock ((s.conn cn).half cli).owner) (dispatch (srcName s cn cli) m)) := by
  have hup : m.isUp = !cli := hty.inbox cn cli m (by rw [hin]; exact List.mem_cons_self)
  have hownc : ∀ n, (((upd s.conn cn ((s.conn cn).setHalf cli (readHalf ((s.conn cn).half cli) m ms))) n).half true).owner =
      ((s.conn n).half true).owner := by
    intro n; simp only [upd]; split
    · rename_i e; subst e; rw [half_setHalf']; split
      · rename_i e; subst e; exact readHalf_owner _ _ _
      · rfl
    · rfl
  have hpend : ∀ n, (((upd s.conn cn ((s.conn cn).setHalf cli (readHalf ((s.conn cn).half cli) m ms))) n).half true).pend =
      if n = cn ∧ cli = true then (match msgRepId m with | some id => ((s.conn n).half true).pend.erase id | none => ((s.conn n).half true).pend)
      else ((s.conn n).half true).pend := by
    intro n; simp only [upd]
    by_cases e : n = cn
    · subst e; simp only [if_true, half_setHalf', true_and]
      cases cli with
      | true => cases m <;> simp [readHalf, msgRepId]
      | false => simp
    · simp [e]
  have hP0 : progIds (s.prog (.sock ((s.conn cn).half cli).owner)) = [] := by rw [hidle]; rfl
  -- a reply that arrives is registered on the client end
  have hreg : cli = true → ∀ id, msgRepId m = some id → id ∈ ((s.conn cn).half true).pend := by
    intro hc id hr
    subst hc
    have := hsrv.pipe cn hopen
    simp only [srvPipe, hin, List.filterMap_cons, hr] at this
    exact this.subset (by simp)
  have hrep0 : cli = false → msgRepId m = none := by
    intro hc; subst hc
    cases m <;> simp_all [Msg.isUp, msgRepId]
  have o2 := h.nd_lq ((s.conn cn).half cli).owner
  have o6 := h.dj_lq_pend cn
  have o7 := h.nd_pend cn
  have o8 := hid.pend cn true
  refine h.of hid (.sock ((s.conn cn).half cli).owner) cn hownc ?_ (fun _ _ => rfl) ?_ (fun _ => Nat.le_refl _) ?_ ?_ ?_ ?_ ?_
  · intro x hx; simp only [setProg_prog]; rw [if_neg hx]
  · intro n hn; show (((upd s.conn cn _) n).half true).pend = _; rw [hpend]; simp [hn]
  · intro hne
    change (((upd s.conn cn ((s.conn cn).setHalf cli (readHalf ((s.conn cn).half cli) m ms))) cn).half true).pend ≠ _ at hne
    rw [hpend] at hne
    cases cli with
    | true => rfl
    | false => simp at hne
  all_goals (simp only [setProg_prog, if_true, setProg_ctx, setProg_conn, Th.ctx, progIds_dispatch])
  all_goals (try rw [hP0])
  all_goals (have hp := hpend cn; simp only [true_and] at hp; (try rw [hp]); clear hp hpend hownc)
  all_goals (cases cli)
  all_goals (try (have hx := hrep0 rfl; rw [hx] at *))
  all_goals (try (have hrg := hreg rfl))
  all_goals (simp only [Bool.false_eq_true, if_false, if_true, Option.toList] at *)
  all_goals (try (cases hr : msgRepId m <;> simp only [hr, Option.toList] at *))
  all_goals (try (have hrg' := hrg _ rfl))
  all_goals (generalize ((s.conn cn).half true).pend = N at *)
  all_goals (try grind [List.Nodup.erase, List.mem_of_mem_erase, List.Nodup.mem_erase_iff])

theorem tokInv_nstep {s s' : State} (h : TokInv s) (hid : IdInv s) (hty : TypInv s) (hown0 : OwnInv s) (hsrv : SrvInv s)
    (hs : NStep s s') : TokInv s' := by
  cases hs
  case beginPub c t ob sg _ hidle =>
    exact h.ofSub (setProg_progIds_nil s _ _ hidle (progIds_beginProg _ _ _ _)) (fun _ => List.Sublist.refl _)
      (fun _ => Or.inl ⟨rfl, rfl⟩) (fun _ => rfl)
  case beginOther c t op _ hidle _ =>
    exact h.ofSub (setProg_progIds_nil s _ _ hidle (progIds_beginProg _ _ _ _)) (fun _ => List.Sublist.refl _)
      (fun _ => Or.inl ⟨rfl, rfl⟩) (fun _ => rfl)
  case routerOk => exact h.ofSub (fun _ => rfl) (fun _ => List.Sublist.refl _) (fun _ => Or.inl ⟨rfl, rfl⟩) (fun _ => rfl)
  case stopReq c _ =>
    exact h.ofSub (fun _ => rfl) (setCtx_lqIds_sublist s c _ (List.Sublist.refl _)) (fun _ => Or.inl ⟨rfl, rfl⟩)
      (setCtx_nextReq_eq s c _ rfl)
  case eof cn cli _ _ hidle _ _ _ =>
    exact h.ofSub (setProg_progIds_nil s _ _ hidle (by simp [progIds, MOp.carId])) (fun _ => List.Sublist.refl _)
      (fun _ => Or.inl ⟨rfl, rfl⟩) (fun _ => rfl)
  case cbDiscNone c n t q _ hidle hq _ =>
    refine h.ofSub (setProg_progIds_nil (s.setCtx c _) _ _ hidle (by simp [progIds, MOp.carId])) ?_
      (fun _ => Or.inl ⟨rfl, rfl⟩) (setCtx_nextReq_eq s c _ rfl)
    exact setCtx_lqIds_sublist s c _ (by rw [hq, lqIds_cons]; exact List.sublist_append_right _ _)
  case cbDisc c n t q cn _ hidle hq _ =>
    refine h.ofSub (setProg_progIds_nil (s.setCtx c _) _ _ hidle (by simp [progIds, MOp.carId])) ?_
      (fun _ => Or.inl ⟨rfl, rfl⟩) (setCtx_nextReq_eq s c _ rfl)
    exact setCtx_lqIds_sublist s c _ (by rw [hq, lqIds_cons]; exact List.sublist_append_right _ _)
  case stop c _ =>
    refine h.ofSub (fun _ => rfl) (setCtx_lqIds_sublist s c _ (List.nil_sublist _)) ?_ (setCtx_nextReq_eq s c _ rfl)
    intro n; left
    exact ⟨stopConn_pend c _ true, stopConn_owner c _ true⟩
  case connect a p hne _ _ _ =>
    show TokInv (connState s a p)
    refine h.ofSub (fun _ => rfl) (fun c => by rw [connState_loopQ]; exact List.Sublist.refl _) ?_ ?_
    · intro n; rw [connState_conn]; split
      · right; simp [newConn, Conn.half]
      · left; exact ⟨rfl, rfl⟩
    · intro c; simp only [connState, setCtx_ctx]; (repeat' split) <;> simp_all
  case cbUnknown c d m q _ hidle hq _ => exact tokInv_cbBack h hid hidle hq
  case cbFail c d m q cn _ hidle hq _ _ => exact tokInv_cbBack h hid hidle hq
  case cbSent c d m q cn _ hidle hq hpeer => exact tokInv_cbSent h hid hty hown0 hidle hq hpeer
  case arrive cn cli m ms hlt _ hidle hopen hin => exact tokInv_arrive h hid hty hsrv hidle hopen hin

theorem tokInv_reach {s : State} (h : Reach s) : TokInv s := by
  induction h with
  | init => exact tokInv_init
  | step hr hs ih =>
    rename_i s0 s1 a o
    by_cases ha : ∃ th ch ch2, a = .micro th ch ch2
    · obtain ⟨th, ch, ch2, rfl⟩ := ha
      obtain ⟨-, op, rest, hp, hm⟩ := step_micro_inv hs
      exact tokInv_micro ih (idInv_reach hr) (ownInv_reach hr) hp hm
    · exact tokInv_nstep ih (idInv_reach hr) (typInv_reach hr) (ownInv_reach hr) (srvInv_reach hr)
        (step_nonmicro_cases (fun th ch ch2 e => ha ⟨th, ch, ch2, e⟩) hs)

end QmiModel.PubSub
