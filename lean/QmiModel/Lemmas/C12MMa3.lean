import QmiModel.Lemmas.C12MM
namespace QmiModel.Context
/-- kernel-checked: first maker `instr` (constructor raises: true) against every second maker under all 512 schedules -/
theorem mmTable_instr_true : mmTable (mmMk .instr true) = true := by decide +kernel
end QmiModel.Context
