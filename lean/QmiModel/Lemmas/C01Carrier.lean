import QmiModel.Lemmas.C01Struct
/-! The carrier (no-loss) invariant of the RPC model, for the repaired configuration `Cfg.sound`
and a client context that is not stopped. -/
namespace QmiModel.Rpc

variable (attr : ReqId → Attr)

/-- where a remote request that has been put on the wire can be (besides A's pending table) -/
def Mid (s : State) (r : ReqId) : Prop :=
  Msg.req r ∈ s.wireAB ∨ r ∈ s.fifo ∨ s.phase = .busy r ∨ (∃ o, Cb.sendRep r o ∈ s.bQ) ∨
  (∃ o, Msg.rep r o ∈ s.wireBA) ∨ s.connB = false ∨ Cb.closeAll ∈ s.bQ

/-- a live carrier of request `r`: something in the system that will lead to its future being set -/
def Carrier (s : State) (r : ReqId) : Prop :=
  match (attr r).place with
  | .loc => r ∈ s.fifo ∨ s.phase = .busy r
  | .rem => r ∈ s.checked ∨ Cb.sendReq r ∈ s.aQ ∨ (r ∈ s.pendA ∧ s.connA = true ∧ Mid s r)

def Good (s : State) (r : ReqId) : Prop := r ∈ s.unsent ∨ Carrier attr s r

/-- every issued call without an outcome has a live carrier (as long as the client context is not stopped) -/
def CInv (s : State) : Prop :=
  s.aStop = false → ∀ r ∈ s.issued, s.result r = none → Good attr s r

theorem cinv_init : CInv attr init := by
  intro _ r hr; simp [init] at hr

/-! ### at most once -/

theorem result_stable (cfg : Cfg) {s s' : State} {a : Act} (h : step cfg attr s a = some s') (x v)
    (hx : s.result x = some v) : s'.result x = some v := by
  cases a <;> simp only [step] at h
  case issue r => split at h <;> simp at h; subst h; exact hx
  case unregister => simp at h; subst h; exact hx
  case stop1 => split at h <;> simp at h; subst h; exact hx
  case stop2 => split at h <;> simp at h; subst h; exact hx
  case stopB => split at h <;> simp at h; subst h; exact hx
  case stopA => split at h <;> simp at h; subst h; exact hx
  case discA => split at h <;> simp at h; subst h; exact hx
  case send r =>
    split at h
    · split at h
      · split at h <;> simp at h <;> subst h
        · exact hx
        · exact setRes_stable _ _ _ _ _ hx
      · split at h <;> simp at h <;> subst h
        · exact setRes_stable _ _ _ _ _ hx
        · exact hx
    · simp at h
  case enq r =>
    split at h
    · split at h <;> simp at h <;> subst h <;> exact hx
    · simp at h
  case loopA =>
    split at h
    · simp at h
    · split at h
      · simp at h
      · split at h
        · simp at h; subst h; exact setRes_stable _ _ _ _ _ hx
        · split at h
          · split at h <;> simp at h <;> subst h
            · exact hx
            · exact setRes_stable _ _ _ _ _ hx
          · split at h <;> simp at h <;> subst h
            · exact setRes_stable _ _ _ _ _ hx
            · exact hx
      · simp at h; subst h; exact hx
      · simp at h; subst h; exact setAll_stable _ _ _ _ _ hx
      · simp at h; subst h; exact hx
  case loopExitA => split at h <;> simp at h; subst h; exact hx
  case recvA =>
    split at h
    · simp at h
    · split at h <;> simp at h <;> subst h
      · exact setRes_stable _ _ _ _ _ hx
      · exact hx
  case eofA => split at h <;> simp at h; subst h; exact setAll_stable _ _ _ _ _ hx
  case loopB =>
    split at h
    · simp at h
    · split at h
      · simp at h
      · split at h
        · simp at h; subst h; exact hx
        · split at h
          · split at h <;> simp at h <;> subst h <;> exact hx
          · split at h
            · split at h <;> simp at h <;> subst h <;> exact hx
            · split at h <;> simp at h <;> subst h <;> exact hx
      · simp at h; subst h; exact hx
      · simp at h; subst h; exact hx
      · simp at h; subst h; exact hx
  case loopExitB => split at h <;> simp at h; subst h; exact hx
  case recvB =>
    split at h
    · simp at h
    · split at h
      · split at h <;> simp at h <;> subst h <;> exact hx
      · simp at h; subst h; exact hx
      · simp at h
  case eofB => split at h <;> simp at h; subst h; exact hx
  case pop =>
    split at h
    · split at h <;> simp at h; subst h; exact hx
    · simp at h
  case finish o =>
    split at h
    · split at h
      · simp at h
      · split at h
        · simp at h; subst h; exact hx
        · simp at h; subst h; exact route_result_stable attr _ _ _ _ _ hx
    · simp at h
  case drain =>
    split at h
    · split at h
      · simp at h; subst h; exact routeAll_result_stable attr _ _ _ _ _ hx
      · simp at h
    · simp at h

theorem aStop_back (cfg : Cfg) {s s' : State} {a : Act} (h : step cfg attr s a = some s')
    (hx : s'.aStop = false) : s.aStop = false := by
  cases a <;> simp only [step] at h
  case finish o =>
    split at h
    · split at h
      · simp at h
      · split at h
        · simp at h; subst h; exact hx
        · simp at h; subst h; rw [(route_core attr _ _ _).aStop] at hx; exact hx
    · simp at h
  case drain =>
    split at h
    · split at h
      · simp at h; subst h; rw [(routeAll_core attr _ _ _).aStop] at hx; exact hx
      · simp at h
    · simp at h
  case stopA => split at h <;> simp at h; subst h; simp at hx
  all_goals
    repeat' split at h
    all_goals first
      | (simp at h; done)
      | (simp at h; subst h; exact hx)

theorem result_none_back (cfg : Cfg) {s s' : State} {a : Act} (h : step cfg attr s a = some s') (x)
    (hx : s'.result x = none) : s.result x = none := by
  cases hs : s.result x with
  | none => rfl
  | some v => rw [result_stable attr cfg h x v hs] at hx; simp at hx

end QmiModel.Rpc

namespace QmiModel.Rpc
variable (attr : ReqId → Attr)

theorem setAll_mem_ne_none {rs : List ReqId} {f o x} (hx : x ∈ rs) : setAll f rs o x ≠ none := by
  intro h; exact (setAll_none h).2 hx

theorem setRes_self_ne_none (f : ReqId → Option Outcome) (r o) : setRes f r o r ≠ none := by
  intro h; exact (setRes_none h).2 rfl

theorem route_loc_result (s : State) (r o) (hp : (attr r).place = .loc) : (route attr s r o).result r ≠ none := by
  unfold route; rw [hp]; exact setRes_self_ne_none _ _ _

theorem route_rem_bQ (s : State) (r o) (hp : (attr r).place = .rem) :
    Cb.sendRep r o ∈ (route attr s r o).bQ ∨ ¬ (s.bRouter ∧ s.connB ∧ s.bSock ≠ .down) := by
  unfold route; rw [hp]
  by_cases hc : s.bRouter ∧ s.connB ∧ s.bSock ≠ .down
  · simp only [hc, and_self, ne_eq, not_false_eq_true, if_true]; exact Or.inl (by simp)
  · exact Or.inr hc

theorem routeAll_loc_result (s : State) (rs o) (r) (hr : r ∈ rs) (hp : (attr r).place = .loc) :
    (routeAll attr s rs o).result r ≠ none := by
  induction rs generalizing s with
  | nil => simp at hr
  | cons x rs ih =>
    rw [routeAll_cons]
    simp only [List.mem_cons] at hr
    rcases hr with rfl | hr
    · intro hn
      have := route_loc_result attr s r o hp
      cases hv : (route attr s r o).result r with
      | none => exact this hv
      | some v => rw [routeAll_result_stable attr _ _ _ _ _ hv] at hn; simp at hn
    · exact ih _ hr

theorem routeAll_rem_bQ (s : State) (rs o) (r) (hr : r ∈ rs) (hp : (attr r).place = .rem) :
    Cb.sendRep r o ∈ (routeAll attr s rs o).bQ ∨ ¬ (s.bRouter ∧ s.connB ∧ s.bSock ≠ .down) := by
  induction rs generalizing s with
  | nil => simp at hr
  | cons x rs ih =>
    rw [routeAll_cons]
    simp only [List.mem_cons] at hr
    rcases hr with rfl | hr
    · rcases route_rem_bQ attr s r o hp with h1 | h1
      · exact Or.inl (routeAll_bQ_mem attr _ _ _ _ h1)
      · exact Or.inr h1
    · have c := route_core attr s x o
      rcases ih (route attr s x o) hr with h1 | h1
      · exact Or.inl h1
      · rw [c.bRouter, c.connB, c.bSock] at h1; exact Or.inr h1

/-- B's side cannot send any more: then the connection is closed on B's side, or will be (closeAll queued) -/
theorem b_cannot_send {s : State} (hs : SInv Cfg.sound s) (h : ¬ (s.bRouter ∧ s.connB ∧ s.bSock ≠ .down)) :
    s.connB = false ∨ Cb.closeAll ∈ s.bQ := by
  by_cases h1 : s.bRouter = true
  · by_cases h2 : s.connB = true
    · by_cases h3 : s.bSock = .down
      · exact Or.inl (hs.bSock_conn (by rw [h3]; simp))
      · exact absurd ⟨h1, h2, h3⟩ h
    · exact Or.inl (by simpa using h2)
  · rcases hs.bRouter_cl (by simpa using h1) with h2 | h2
    · exact Or.inr h2
    · exact Or.inl h2

end QmiModel.Rpc
