import QmiModel.Model.LoopTask
/-!
# C10 — inductive invariant of the `QMI_LoopTask.run` model
-/
namespace QmiModel.LoopTask
open QmiModel.Task (Outcome)

def LPc.isDone : LPc → Bool | .done _ => true | _ => false
def LPc.isFinalize : LPc → Bool | .finalize _ => true | _ => false
/-- the iteration's update / processing phase -/
def LPc.early : LPc → Bool | .process | .iter => true | _ => false
/-- inside the try block, the current iteration's `loop_iteration` already done (or no iteration begun) -/
def LPc.late : LPc → Bool
  | .top | .upd | .status | .pubStatus | .pubSignals | .timing | .sleeping | .immClock | .selfStop | .clock0 => true
  | _ => false

structure LInv (s : LState) : Prop where
  fin_def    : s.finalizes = if (s.lpc.isDone = true ∧ s.prepared = true) then 1 else 0
  unprepared : s.prepared = false → (s.lpc = .start ∨ s.lpc.isDone = true)
  start_unprep : s.lpc = .start → s.prepared = false
  upd_iter_lo : s.nIter ≤ s.nUpd
  upd_iter_hi : s.nUpd ≤ s.nIter + 1
  late_eq    : s.lpc.late = true → s.nUpd = s.nIter
  early_eq   : s.lpc.early = true → s.nUpd = s.nIter + 1
  start_zero : s.lpc = .start → (s.nUpd = 0 ∧ s.nIter = 0 ∧ s.nProc = 0 ∧ s.updTrue = 0 ∧ s.statusTrue = 0 ∧
                                 s.nPubStatus = 0)
  proc_eq    : s.lpc ≠ .process → s.nProc = s.updTrue
  proc_pend  : s.lpc = .process → s.updTrue = s.nProc + 1
  pub_eq     : s.lpc ≠ .pubStatus → s.nPubStatus = s.statusTrue
  pub_pend   : s.lpc = .pubStatus → s.statusTrue = s.nPubStatus + 1
  fin_nostop : s.lpc ≠ .finalize .stopExc
  fin_other  : ∀ o, s.lpc = .finalize o → (o = .otherExc ↔ s.tryOther = true)
  try_open   : (s.lpc.late = true ∨ s.lpc.early = true ∨ s.lpc = .start) → (s.tryOther = false ∧ s.tryStop = false)
  one_exit   : ¬ (s.tryOther = true ∧ s.tryStop = true)

theorem linv_init (p : Nat) (pol : Policy) : LInv (linit p pol) := by
  constructor <;> simp [linit, LPc.isDone, LPc.late, LPc.early]

syntax "linv_tac " ident : tactic
macro_rules
  | `(tactic| linv_tac $hs) => `(tactic| (
      simp only [lstep, afterHook, leaveTry] at $hs:ident
      (repeat' split at $hs:ident) <;>
        first
        | contradiction
        | (simp only [Option.some.injEq] at $hs:ident; subst $hs:ident
           constructor <;> first | grind [LPc.isDone, LPc.late, LPc.early, LPc.isFinalize]
                                 | simp_all [LPc.isDone, LPc.late, LPc.early, LPc.isFinalize])))

theorem linv_hook {s s' : LState} (h : Hook) (r : Outcome) (hi : LInv s) (hs : lstep s (.hook h r) = some s') :
    LInv s' := by
  obtain ⟨⟩ := hi
  cases h <;> cases r <;> linv_tac hs
theorem linv_clock {s s' : LState} (n : Nat) (hi : LInv s) (hs : lstep s (.clock n) = some s') : LInv s' := by
  obtain ⟨⟩ := hi; linv_tac hs
theorem linv_testStop {s s' : LState} (b : Bool) (hi : LInv s) (hs : lstep s (.testStop b) = some s') : LInv s' := by
  obtain ⟨⟩ := hi; linv_tac hs
theorem linv_updDone {s s' : LState} (b : Bool) (hi : LInv s) (hs : lstep s (.updDone b) = some s') : LInv s' := by
  obtain ⟨⟩ := hi; linv_tac hs
theorem linv_statusDone {s s' : LState} (b : Bool) (hi : LInv s) (hs : lstep s (.statusDone b) = some s') : LInv s' := by
  obtain ⟨⟩ := hi; linv_tac hs
theorem linv_wake {s s' : LState} (b : Bool) (hi : LInv s) (hs : lstep s (.wake b) = some s') : LInv s' := by
  obtain ⟨⟩ := hi; linv_tac hs
theorem linv_selfStop {s s' : LState} (hi : LInv s) (hs : lstep s .selfStopDone = some s') : LInv s' := by
  obtain ⟨⟩ := hi; linv_tac hs

theorem linv_step {s s' : LState} {a : LAct} (hi : LInv s) (hs : lstep s a = some s') : LInv s' := by
  cases a with
  | hook h r => exact linv_hook h r hi hs
  | clock n => exact linv_clock n hi hs
  | testStop b => exact linv_testStop b hi hs
  | updDone b => exact linv_updDone b hi hs
  | statusDone b => exact linv_statusDone b hi hs
  | wake b => exact linv_wake b hi hs
  | selfStopDone => exact linv_selfStop hi hs

theorem lexec_cons {s : LState} {a : LAct} {tr : List LAct} {s' : LState} :
    lexec s (a :: tr) = some s' ↔ ∃ s1, lstep s a = some s1 ∧ lexec s1 tr = some s' := by
  simp only [lexec]
  cases h : lstep s a with
  | none => simp
  | some s1 => simp

theorem linv_exec {tr : List LAct} {s s' : LState} (hi : LInv s) (he : lexec s tr = some s') : LInv s' := by
  induction tr generalizing s with
  | nil => simp only [lexec, Option.some.injEq] at he; exact he ▸ hi
  | cons a t ih =>
    obtain ⟨s1, h1, h2⟩ := lexec_cons.1 he
    exact ih (linv_step hi h1) h2

end QmiModel.LoopTask
