import QmiModel.Model.Adbasic
/-! Termination of the include walk of `parse_adbasic_program` (work-list + `files_parsed`). Core Lean only. -/
namespace QmiModel.Adbasic

/-- what parsing one file contributes: its symbols and its resolved includes (`none`: `open` failed) -/
def stepOf (fs : Files) (incDir f : Str) : Option (List Sym × List Str) :=
  match openFile fs f with
  | .ok raw => some ((scanFile f raw).1, resolvedIncludes incDir f (scanFile f raw).2)
  | .error _ => none

theorem dropSeen_head_not_seen (seen wl : List Str) (f : Str) (rest : List Str)
    (h : dropSeen seen wl = f :: rest) : normpath f ∉ seen := by
  induction wl with
  | nil => simp [dropSeen] at h
  | cons g gs ih =>
    simp only [dropSeen] at h
    split at h
    · exact ih h
    · injection h with h1 h2
      subst h1
      assumption

theorem parseLoop_done (fs : Files) (incDir : Str) (n : Nat) (wl seen : List Str) (acc : List Sym)
    (h : dropSeen seen wl = []) : parseLoop fs incDir n wl seen acc = .ok acc := by
  cases n <;> simp [parseLoop, h]

theorem parseLoop_succ_of_step (fs : Files) (incDir f : Str) (wl rest seen : List Str) (acc : List Sym) (n : Nat)
    {syms : List Sym} {incs : List Str} (hd : dropSeen seen wl = f :: rest)
    (h : stepOf fs incDir f = some (syms, incs)) :
    parseLoop fs incDir (n + 1) wl seen acc
      = parseLoop fs incDir n (rest ++ incs) (normpath f :: seen) (acc ++ syms) := by
  unfold stepOf at h
  cases ho : openFile fs f with
  | error e => rw [ho] at h; simp at h
  | ok raw =>
    rw [ho] at h
    simp only [Option.some.injEq, Prod.mk.injEq] at h
    simp only [parseLoop, hd, ho]
    rw [← h.1, ← h.2]

theorem parseLoop_succ_of_fail (fs : Files) (incDir f : Str) (wl rest seen : List Str) (acc : List Sym) (n : Nat)
    (hd : dropSeen seen wl = f :: rest) (h : stepOf fs incDir f = none) :
    ∃ e, parseLoop fs incDir (n + 1) wl seen acc = .exc e := by
  unfold stepOf at h
  cases ho : openFile fs f with
  | error e => exact ⟨e, by simp [parseLoop, hd, ho]⟩
  | ok raw => rw [ho] at h; simp at h

/-- more fuel never changes a finished walk -/
theorem parseLoop_mono (fs : Files) (incDir : Str) (n : Nat) (wl seen : List Str) (acc : List Sym)
    (h : parseLoop fs incDir n wl seen acc ≠ .outOfFuel) :
    ∀ m, n ≤ m → parseLoop fs incDir m wl seen acc = parseLoop fs incDir n wl seen acc := by
  induction n generalizing wl seen acc with
  | zero =>
    intro m _
    cases hd : dropSeen seen wl with
    | nil => rw [parseLoop_done _ _ _ _ _ _ hd, parseLoop_done _ _ _ _ _ _ hd]
    | cons f rest => simp [parseLoop, hd] at h
  | succ n ih =>
    intro m hm
    cases hd : dropSeen seen wl with
    | nil => rw [parseLoop_done _ _ _ _ _ _ hd, parseLoop_done _ _ _ _ _ _ hd]
    | cons f rest =>
      obtain ⟨m', rfl⟩ : ∃ m', m = m' + 1 := ⟨m - 1, by omega⟩
      cases hs : stepOf fs incDir f with
      | none =>
        unfold stepOf at hs
        cases ho : openFile fs f with
        | error e => simp [parseLoop, hd, ho]
        | ok raw => rw [ho] at hs; simp at hs
      | some p =>
        obtain ⟨syms, incs⟩ := p
        rw [parseLoop_succ_of_step fs incDir f wl rest seen acc m' hd hs,
            parseLoop_succ_of_step fs incDir f wl rest seen acc n hd hs]
        rw [parseLoop_succ_of_step fs incDir f wl rest seen acc n hd hs] at h
        exact ih _ _ _ h m' (by omega)

/-- entries of the file map whose key has not been parsed yet -/
def unseen : Files → List Str → Nat
  | [], _ => 0
  | (k, _) :: rest, seen => (if k ∈ seen then 0 else 1) + unseen rest seen

theorem unseen_le_length (fs : Files) (seen : List Str) : unseen fs seen ≤ fs.length := by
  induction fs with
  | nil => simp [unseen]
  | cons kv rest ih =>
    obtain ⟨k, v⟩ := kv
    simp only [unseen, List.length_cons]
    split <;> omega

theorem unseen_cons_le (fs : Files) (seen : List Str) (x : Str) : unseen fs (x :: seen) ≤ unseen fs seen := by
  induction fs with
  | nil => simp [unseen]
  | cons kv rest ih =>
    obtain ⟨k, v⟩ := kv
    simp only [unseen]
    by_cases h1 : k ∈ seen
    · have : k ∈ x :: seen := List.mem_cons_of_mem _ h1
      simp only [h1, this, if_true]; omega
    · by_cases h2 : k ∈ x :: seen
      · simp only [h1, h2, if_true, if_false]; omega
      · simp only [h1, h2, if_false]; omega

/-- parsing a file that exists and was not parsed before uses up one of the unparsed entries -/
theorem unseen_lt (fs : Files) (seen : List Str) (k raw : Str) (hg : filesGet fs k = some raw) (hk : k ∉ seen) :
    unseen fs (k :: seen) < unseen fs seen := by
  induction fs with
  | nil => simp [filesGet] at hg
  | cons kv rest ih =>
    obtain ⟨k', v⟩ := kv
    simp only [filesGet] at hg
    simp only [unseen]
    by_cases hkk : (k' == k) = true
    · have e : k' = k := by simpa using hkk
      subst e
      have h2 : k' ∈ k' :: seen := List.mem_cons_self
      have := unseen_cons_le rest seen k'
      simp only [hk, h2, if_true, if_false]; omega
    · simp only [hkk] at hg
      have i := ih hg
      by_cases h1 : k' ∈ seen
      · have : k' ∈ k :: seen := List.mem_cons_of_mem _ h1
        simp only [h1, this, if_true]; omega
      · by_cases h2 : k' ∈ k :: seen
        · simp only [h1, h2, if_true, if_false]; omega
        · simp only [h1, h2, if_false]; omega

theorem openFile_ok_filesGet (fs : Files) (f raw : Str) (h : openFile fs f = .ok raw) :
    filesGet fs (normpath f) = some raw := by
  unfold openFile at h
  split at h
  · simp at h
  · cases hg : filesGet fs (normpath f) with
    | none => rw [hg] at h; simp at h
    | some raw' => rw [hg] at h; simp only at h; injection h with h; rw [h]

/-- the walk ends as soon as the `open()` budget exceeds the number of files not parsed yet -/
theorem parseLoop_terminates (fs : Files) (incDir : Str) (n : Nat) (wl seen : List Str) (acc : List Sym)
    (hfuel : unseen fs seen < n) : parseLoop fs incDir n wl seen acc ≠ .outOfFuel := by
  induction n generalizing wl seen acc with
  | zero => omega
  | succ n ih =>
    cases hd : dropSeen seen wl with
    | nil => rw [parseLoop_done _ _ _ _ _ _ hd]; simp
    | cons f rest =>
      cases ho : openFile fs f with
      | error e => simp [parseLoop, hd, ho]
      | ok raw =>
        have hs : stepOf fs incDir f = some ((scanFile f raw).1, resolvedIncludes incDir f (scanFile f raw).2) := by
          simp [stepOf, ho]
        rw [parseLoop_succ_of_step fs incDir f wl rest seen acc n hd hs]
        apply ih
        have := unseen_lt fs seen (normpath f) raw (openFile_ok_filesGet fs f raw ho)
          (dropSeen_head_not_seen seen wl f rest hd)
        omega

end QmiModel.Adbasic
