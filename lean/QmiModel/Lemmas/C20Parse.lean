import QmiModel.Model.Adbasic
/-! Termination of the include walk of `parse_adbasic_program` under acyclicity. Core Lean only. -/
namespace QmiModel.Adbasic

/-- what parsing one file contributes: its symbols and its resolved includes (`none`: `open` failed) -/
def stepOf (fs : Files) (incDir f : Str) : Option (List Sym × List Str) :=
  match openFile fs f with
  | .ok raw => some ((scanFile f raw).1, resolvedIncludes incDir f (scanFile f raw).2)
  | .error _ => none

theorem parseLoop_succ_of_step (fs : Files) (incDir f : Str) (rest : List Str) (acc : List Sym) (n : Nat)
    {syms : List Sym} {incs : List Str} (h : stepOf fs incDir f = some (syms, incs)) :
    parseLoop fs incDir (n + 1) (f :: rest) acc = parseLoop fs incDir n (rest ++ incs) (acc ++ syms) := by
  unfold stepOf at h
  cases ho : openFile fs f with
  | error e => rw [ho] at h; simp at h
  | ok raw =>
    rw [ho] at h
    simp only [Option.some.injEq, Prod.mk.injEq] at h
    simp only [parseLoop, ho]
    rw [← h.1, ← h.2]

theorem parseLoop_succ_of_fail (fs : Files) (incDir f : Str) (rest : List Str) (acc : List Sym) (n : Nat)
    (h : stepOf fs incDir f = none) :
    ∃ e, parseLoop fs incDir (n + 1) (f :: rest) acc = .exc e := by
  unfold stepOf at h
  cases ho : openFile fs f with
  | error e => exact ⟨e, by simp [parseLoop, ho]⟩
  | ok raw => rw [ho] at h; simp at h

/-- more fuel never changes a finished walk -/
theorem parseLoop_mono (fs : Files) (incDir : Str) (n : Nat) (wl : List Str) (acc : List Sym)
    (h : parseLoop fs incDir n wl acc ≠ .outOfFuel) :
    ∀ m, n ≤ m → parseLoop fs incDir m wl acc = parseLoop fs incDir n wl acc := by
  induction n generalizing wl acc with
  | zero =>
    intro m _
    cases wl with
    | nil => cases m <;> simp [parseLoop]
    | cons f rest => simp [parseLoop] at h
  | succ n ih =>
    intro m hm
    cases wl with
    | nil => cases m <;> simp [parseLoop]
    | cons f rest =>
      obtain ⟨m', rfl⟩ : ∃ m', m = m' + 1 := ⟨m - 1, by omega⟩
      cases hs : stepOf fs incDir f with
      | none =>
        unfold stepOf at hs
        cases ho : openFile fs f with
        | error e => simp [parseLoop, ho]
        | ok raw => rw [ho] at hs; simp at hs
      | some p =>
        obtain ⟨syms, incs⟩ := p
        rw [parseLoop_succ_of_step fs incDir f rest acc m' hs, parseLoop_succ_of_step fs incDir f rest acc n hs]
        rw [parseLoop_succ_of_step fs incDir f rest acc n hs] at h
        exact ih _ _ h m' (by omega)

/-- total weight of a work-list -/
def weight (w : Str → Nat) : List Str → Nat
  | [] => 0
  | f :: fs => w f + weight w fs

theorem weight_append (w : Str → Nat) (a b : List Str) : weight w (a ++ b) = weight w a + weight w b := by
  induction a with
  | nil => simp [weight]
  | cons x xs ih => simp [weight, ih]; omega

theorem weight_le (w : Str → Nat) (l : List Str) (c : Nat) (h : ∀ x ∈ l, w x ≤ c) : weight w l ≤ l.length * c := by
  induction l with
  | nil => simp [weight]
  | cons x xs ih =>
    have h1 := h x (List.mem_cons_self)
    have h2 := ih (fun y hy => h y (List.mem_cons_of_mem _ hy))
    simp only [weight, List.length_cons, Nat.succ_mul]
    omega

/-- the walk ends whenever the fuel covers the weight `Σ (B+1)^rank` of the work-list, where `rank`
strictly decreases along include edges and no file has more than `B` (resolved) includes -/
theorem parseLoop_terminates (fs : Files) (incDir : Str) (rank : Str → Nat) (B : Nat) (P : Str → Prop)
    (hacyc : ∀ f syms incs, P f → stepOf fs incDir f = some (syms, incs) →
      incs.length ≤ B ∧ ∀ g ∈ incs, rank g < rank f ∧ P g)
    (n : Nat) (wl : List Str) (acc : List Sym) (hwl : ∀ f ∈ wl, P f)
    (hfuel : weight (fun f => (B + 1) ^ rank f) wl ≤ n) :
    parseLoop fs incDir n wl acc ≠ .outOfFuel := by
  induction n generalizing wl acc with
  | zero =>
    cases wl with
    | nil => simp [parseLoop]
    | cons f rest =>
      exfalso
      simp only [weight] at hfuel
      have : 0 < (B + 1) ^ rank f := Nat.pow_pos (by omega)
      omega
  | succ n ih =>
    cases wl with
    | nil => simp [parseLoop]
    | cons f rest =>
      cases hs : stepOf fs incDir f with
      | none =>
        obtain ⟨e, he⟩ := parseLoop_succ_of_fail fs incDir f rest acc n hs
        rw [he]; simp
      | some p =>
        obtain ⟨syms, incs⟩ := p
        rw [parseLoop_succ_of_step fs incDir f rest acc n hs]
        obtain ⟨hB, hr'⟩ := hacyc f syms incs (hwl f List.mem_cons_self) hs
        have hr : ∀ g ∈ incs, rank g < rank f := fun g hg => (hr' g hg).1
        apply ih
        · intro g hg
          rcases List.mem_append.1 hg with h | h
          · exact hwl g (List.mem_cons_of_mem _ h)
          · exact (hr' g h).2
        rw [weight_append]
        simp only [weight] at hfuel
        have hpos : 0 < (B + 1) ^ rank f := Nat.pow_pos (by omega)
        cases incs with
        | nil => simp only [weight]; omega
        | cons g gs =>
          have hrf : 1 ≤ rank f := by
            have := hr g (List.mem_cons_self); omega
          have hw : weight (fun f => (B + 1) ^ rank f) (g :: gs) ≤ (g :: gs).length * (B + 1) ^ (rank f - 1) := by
            apply weight_le
            intro x hx
            exact Nat.pow_le_pow_right (by omega) (by have := hr x hx; omega)
          have hsplit : (B + 1) ^ rank f = (B + 1) * (B + 1) ^ (rank f - 1) := by
            have : rank f = (rank f - 1) + 1 := by omega
            rw [this, Nat.pow_succ, Nat.mul_comm]; simp
          have hpos' : 0 < (B + 1) ^ (rank f - 1) := Nat.pow_pos (by omega)
          have hmul : (g :: gs).length * (B + 1) ^ (rank f - 1) ≤ B * (B + 1) ^ (rank f - 1) :=
            Nat.mul_le_mul_right _ hB
          have : B * (B + 1) ^ (rank f - 1) + (B + 1) ^ (rank f - 1) = (B + 1) * (B + 1) ^ (rank f - 1) := by
            rw [Nat.add_mul]; simp
          omega

/-! ### the number of includes of a file is bounded over a finite file map -/

theorem scanLines_incs (file : Str) (nr : Nat) (ls : List Str) :
    (scanLines file nr ls).2 = ls.filterMap matchInclude := by
  induction ls generalizing nr with
  | nil => simp [scanLines]
  | cons l ls ih =>
    simp only [scanLines, List.filterMap_cons]
    rw [← ih (nr + 1)]
    cases matchInclude l <;> rfl

/-- the `#Include` lines of a source text -/
def includeLines (raw : Str) : List Str := (splitLines (universalNewlines raw)).filterMap matchInclude

theorem scanFile_incs (file raw : Str) : (scanFile file raw).2 = includeLines raw := by
  simp [scanFile, scanLines_incs, includeLines]

/-- the largest number of `#Include` lines in any file of the map -/
def maxIncs : Files → Nat
  | [] => 0
  | (_, raw) :: rest => max (includeLines raw).length (maxIncs rest)

theorem filesGet_maxIncs (fs : Files) (p raw : Str) (h : filesGet fs p = some raw) :
    (includeLines raw).length ≤ maxIncs fs := by
  induction fs with
  | nil => simp [filesGet] at h
  | cons kv rest ih =>
    obtain ⟨k, v⟩ := kv
    simp only [filesGet] at h
    simp only [maxIncs]
    split at h
    · injection h with h; subst h; omega
    · have := ih h; omega

theorem stepOf_incs_le (fs : Files) (incDir f : Str) (syms : List Sym) (incs : List Str)
    (h : stepOf fs incDir f = some (syms, incs)) : incs.length ≤ maxIncs fs := by
  unfold stepOf at h
  cases ho : openFile fs f with
  | error e => rw [ho] at h; simp at h
  | ok raw =>
    rw [ho] at h
    simp only [Option.some.injEq, Prod.mk.injEq] at h
    rw [← h.2, scanFile_incs]
    unfold openFile at ho
    split at ho
    · simp at ho
    · cases hg : filesGet fs (normpath f) with
      | none => rw [hg] at ho; simp at ho
      | some raw' =>
        rw [hg] at ho
        simp only at ho
        injection ho with ho
        subst ho
        exact Nat.le_trans (List.length_filterMap_le _ _) (filesGet_maxIncs fs _ _ hg)

end QmiModel.Adbasic
