import QmiModel.Lemmas.C08Sim2
/-! C08, simulation layer — micro steps of the publisher context: event-loop hand-overs, the threads that remove or
create an object, connection cleanup; and their assembly. -/
set_option linter.unusedSimpArgs false
namespace QmiModel.PubSub
open Proto

set_option maxHeartbeats 1000000 in
/-- a hand-over to the event loop of the publisher context that is neither a reply nor a removal notice -/
theorem sim_p_enq {s s' : State} {th : Th} {ch ch2 : Nat} {op : MOp} {rest : List MOp} {o : Out}
    (hr : Reach s) (hprog : s.prog th = op :: rest) (hs : microStep s th ch ch2 op rest = some (s', o))
    {cn : ConnId} {ob : Obj} {sg : Sg} {x : AS} (hth : th.ctx = srvOf s cn) (hne : cliOf s cn ≠ srvOf s cn)
    (h2 : op.isRem = false) (h3 : op.isEnq = true) (h4 : op.isDsp = false)
    (h : Sim s cn ob sg x) : Sim s' cn ob sg x := by
  have pf := pframe_micro hr hprog hs hth hne
  have hf := microStep_frame hs
  have hfl := microStep_fields hs
  have hdsp := dspInv_reach hr
  have hrem := remInv_reach hr
  have hfree : dspFree (op :: rest) := by
    cases th with
    | user c t => exact hprog ▸ hdsp.user c t
    | sock c =>
      rcases hdsp.sock c with hfr | hform
      · exact hprog ▸ hfr
      · rw [hprog] at hform
        generalize hl : op :: rest = l at hform
        cases hform <;> simp only [List.cons.injEq] at hl <;> obtain ⟨rfl, -⟩ := hl <;> simp [MOp.isDsp] at h4
  have hrfree : remFree (op :: rest) := by
    cases th with
    | sock c => exact hprog ▸ hrem.sock c
    | user c t =>
      rcases hrem.user c t with hfr | hform
      · exact hprog ▸ hfr
      · rw [hprog] at hform
        generalize hl : op :: rest = l at hform
        cases hform <;> simp only [List.cons.injEq] at hl <;> obtain ⟨rfl, -⟩ := hl <;> simp [MOp.isRem] at h2
  have hlq : ∃ cb, (s'.ctx (srvOf s cn)).loopQ = (s.ctx (srvOf s cn)).loopQ ++ [cb] ∧ ∀ cur, relevCb cn ob sg cur cb = none := by
    rw [← hth]
    cases op <;> simp only [MOp.isEnq] at h3 <;> try contradiction
    · rename_i d m
      simp only [microStep, Option.some.injEq, Prod.mk.injEq] at hs
      obtain ⟨rfl, -⟩ := hs
      refine ⟨.smSend d m, by simp, fun cur => ?_⟩
      cases m <;> simp_all [relevCb, relev, MOp.isRem, MOp.isDsp]
    · rename_i n
      cases th with
      | user c t =>
        simp only [microStep, Option.some.injEq, Prod.mk.injEq] at hs
        obtain ⟨rfl, -⟩ := hs
        exact ⟨.disconnect n t, by simp, fun cur => rfl⟩
      | sock c => simp [microStep] at hs
  obtain ⟨cb, hq, hirr⟩ := hlq
  refine sim_stutter pf.srv ?_ ?_ (fun id _ => pf.fail id) h
  · rw [pf.view]
    refine ⟨?_, Iff.rfl, ?_, rfl, ?_, ?_, Iff.rfl, Iff.rfl, fun _ _ => Iff.rfl⟩
    · simp only [viewOf]; rw [hfl.rsubs (by cases op <;> simp_all [MOp.isEnq, MOp.isRsub])]
    · simp only [viewOf]; rw [microStep_objs h2 hs]
    · intro id _
      simp only [viewOf]
      by_cases e : Th.sock (srvOf s cn) = th
      · subst e
        rw [hdlTok_dspFree (dspFree_micro hfree hs), hprog, hdlTok_dspFree hfree]
      · rw [hf.prog_other _ e]
    · simp only [dV, viewOf]; rw [hq]; simp; exact hirr _
  · intro th' hth'
    by_cases e : th' = th
    · subst e
      rw [remPhase_remFree (remFree_micro hrfree hs), hprog, remPhase_remFree hrfree]
    · rw [hf.prog_other _ e]


set_option maxHeartbeats 1000000 in
/-- `handle_peer_context_removed` for another peer in the publisher's socket thread -/
theorem sim_p_peerRemoved {s s' : State} {th : Th} {ch ch2 : Nat} {n : Peer} {rest : List MOp} {o : Out}
    (hr : Reach s) (hprog : s.prog th = .peerRemoved n :: rest) (hs : microStep s th ch ch2 (.peerRemoved n) rest = some (s', o))
    {cn : ConnId} {ob : Obj} {sg : Sg} {x : AS} (hth : th.ctx = srvOf s cn) (hl : Live s cn)
    (h : Sim s cn ob sg x) : Sim s' cn ob sg x := by
  have hlf := live_facts hr hl
  have pf := pframe_micro hr hprog hs hth hlf.ne
  have hf := microStep_frame hs
  have hfl := microStep_fields hs
  have hdsp := dspInv_reach hr
  have hrem := remInv_reach hr
  -- the thread is the socket thread, and the peer is not the one of this connection
  obtain ⟨c, rfl⟩ : ∃ c, th = .sock c := by
    cases th with
    | sock c => exact ⟨c, rfl⟩
    | user c t =>
      have := (tdInv_reach hr).user c t _ (by rw [hprog]; exact List.mem_cons_self)
      simp [MOp.isTd] at this
  simp only [Th.ctx] at hth; subst hth
  have hn : n ≠ .alias cn := by
    intro e; subst e
    exact not_cleaning hr hl.regP hprog rfl
  have hfree : dspFree (MOp.peerRemoved n :: rest) := by
    rcases hdsp.sock (srvOf s cn) with hfr | hform
    · exact hprog ▸ hfr
    · rw [hprog] at hform
      generalize hl : MOp.peerRemoved n :: rest = l at hform
      cases hform <;> simp at hl
  have hrfree : remFree (MOp.peerRemoved n :: rest) := hprog ▸ hrem.sock (srvOf s cn)
  have hctx : (Th.sock (srvOf s cn)).ctx = srvOf s cn := rfl
  refine sim_stutter pf.srv ?_ ?_ (fun id _ => pf.fail id) h
  · rw [pf.view]
    refine ⟨?_, Iff.rfl, ?_, rfl, ?_, ?_, Iff.rfl, Iff.rfl, fun _ _ => Iff.rfl⟩
    · simp only [microStep, Option.some.injEq, Prod.mk.injEq] at hs
      rw [hctx] at hs
      obtain ⟨rfl, -⟩ := hs
      simp only [viewOf, setProg_ctx, setCtx_ctx, if_true, peerRemovedStep, List.mem_filter, decide_eq_true_eq, ne_eq]
      exact ⟨fun h => h.1, fun h => ⟨h, fun e => hn e.symm⟩⟩
    · simp only [viewOf]; rw [microStep_objs rfl hs]
    · intro id _
      simp only [viewOf]
      rw [hdlTok_dspFree (dspFree_micro hfree hs), hprog, hdlTok_dspFree hfree]
    · simp only [dV, viewOf]; rw [hfl.loopQ rfl]
  · intro th' hth'
    by_cases e : th' = .sock (srvOf s cn)
    · subst e
      rw [remPhase_remFree (remFree_micro hrfree hs), hprog, remPhase_remFree hrfree]
    · rw [hf.prog_other _ e]


theorem mem_notifyList {cs : CtxSt} {ob : Obj} {sg : Sg} {d : Peer} :
    (sg, d) ∈ notifyList cs ob ↔ (⟨ob, sg⟩ : RKey) ∈ cs.rdom ∧ d ∈ cs.rsubs ⟨ob, sg⟩ := by
  simp only [notifyList, List.mem_flatMap, List.mem_filter, List.mem_map, decide_eq_true_eq, Prod.mk.injEq]
  constructor
  · rintro ⟨k, ⟨h1, h2⟩, d', h3, h4, h5⟩
    cases k; simp only at h2 h4; subst h2 h4 h5; exact ⟨h1, h3⟩
  · rintro ⟨h1, h2⟩
    exact ⟨⟨ob, sg⟩, ⟨h1, rfl⟩, d, h2, rfl, rfl⟩

/-- a step of the publisher's side that changes only the tables (and the removal phase) -/
theorem sim_p_tables {s s' : State} {cn : ConnId} {ob : Obj} {sg : Sg} (pf : PFrame s s' cn)
    {rm rm' : Rm} {failed : Bool}
    (hfs : ∀ id, curOf (s.ctx (cliOf s cn)) (keyOf s cn ob sg) = some id → (failed = true ↔ FailCar s cn id))
    (hpsp : s'.prog (.sock (srvOf s cn)) = s.prog (.sock (srvOf s cn)))
    (hlq : (s'.ctx (srvOf s cn)).loopQ = (s.ctx (srvOf s cn)).loopQ)
    (hrm' : RmRel s' cn ob sg rm') :
    Sim s' cn ob sg { absOf s cn ob sg rm failed with R := decide (Peer.alias cn ∈ (s'.ctx (srvOf s cn)).rsubs ⟨ob, sg⟩), obj := (s'.ctx (srvOf s cn)).objs ob, rm := rm' } := by
  have := pf.sim' (ob := ob) (sg := sg) hfs hrm'
    (v' := { viewOf s cn ob sg with rs := (s'.ctx (srvOf s cn)).rsubs ⟨ob, sg⟩, obj := (s'.ctx (srvOf s cn)).objs ob })
    (by rw [pf.view, hpsp, hlq]; rfl)
  rw [absV_tables (rm := rm)] at this
  exact this


set_option maxHeartbeats 2000000 in
/-- a step of `remove_rpc_object` / `make_rpc_object` in a thread of the publisher context -/
theorem sim_p_rem {s s' : State} {th : Th} {ch ch2 : Nat} {op : MOp} {rest : List MOp} {o : Out}
    (hr : Reach s) (hprog : s.prog th = op :: rest) (hs : microStep s th ch ch2 op rest = some (s', o))
    {cn : ConnId} {ob : Obj} {sg : Sg} {x : AS} (hth : th.ctx = srvOf s cn) (hl : Live s cn) (h2 : op.isRem = true)
    (h : Sim s cn ob sg x) : ∃ x', Sim s' cn ob sg x' ∧ (x' = x ∨ x' ∈ next x) := by
  have hlf := live_facts hr hl
  have pf := pframe_micro hr hprog hs hth hlf.ne
  have hf := microStep_frame hs
  have hrem := remInv_reach hr
  obtain ⟨c, t, rfl⟩ : ∃ c t, th = .user c t := by
    cases th with
    | user c t => exact ⟨c, t, rfl⟩
    | sock c => have := hrem.sock c op (by rw [hprog]; simp); rw [h2] at this; cases this
  simp only [Th.ctx] at hth; subst hth
  have hform : RemForm (op :: rest) := by
    rcases hrem.user (srvOf s cn) t with hfr | hform
    · have := hfr op (by rw [hprog]; simp); rw [h2] at this; cases this
    · exact hprog ▸ hform
  have hpsp : s'.prog (.sock (srvOf s cn)) = s.prog (.sock (srvOf s cn)) := hf.prog_other _ (by simp)
  have hoth : ∀ th', th' ≠ Th.user (srvOf s cn) t → s'.prog th' = s.prog th' := hf.prog_other
  obtain ⟨rm, failed, hrel, hfs, rfl⟩ := h
  -- nothing visible happens
  have hst : (Peer.alias cn ∈ (s'.ctx (srvOf s cn)).rsubs ⟨ob, sg⟩ ↔ Peer.alias cn ∈ (s.ctx (srvOf s cn)).rsubs ⟨ob, sg⟩) →
      (s'.ctx (srvOf s cn)).objs ob = (s.ctx (srvOf s cn)).objs ob →
      ((s'.ctx (srvOf s cn)).loopQ.filterMap (relevCb cn ob sg (curOf (s.ctx (cliOf s cn)) (keyOf s cn ob sg))) =
        (s.ctx (srvOf s cn)).loopQ.filterMap (relevCb cn ob sg (curOf (s.ctx (cliOf s cn)) (keyOf s cn ob sg)))) →
      remPhase cn ob sg (s'.prog (.user (srvOf s cn) t)) = remPhase cn ob sg (s.prog (.user (srvOf s cn) t)) →
      ∃ x', Sim s' cn ob sg x' ∧ (x' = absOf s cn ob sg rm failed ∨ x' ∈ next (absOf s cn ob sg rm failed)) := by
    intro hrs hobj hlq hph
    refine ⟨_, sim_p_stutter pf hrs hobj hlq (fun _ _ => by rw [hpsp]) ?_ ⟨rm, failed, hrel, hfs, rfl⟩, Or.inl rfl⟩
    intro th' _
    by_cases e : th' = .user (srvOf s cn) t
    · subst e; exact hph
    · rw [hoth th' e]
  -- the removal phase of the other threads, when this thread holds the object or nobody does
  have hupd : (∀ th' : Th, th' ≠ .user (srvOf s cn) t → th'.ctx = srvOf s cn → remPhase cn ob sg (s.prog th') = .none) →
      RmRel s' cn ob sg (remPhase cn ob sg (s'.prog (.user (srvOf s cn) t))) :=
    fun hu => RmRel.update pf.srv (.user (srvOf s cn) t) rfl hoth hu
  have hctx : (Th.user (srvOf s cn) t).ctx = srvOf s cn := rfl
  generalize hl0 : op :: rest = l at hform
  cases hform <;> simp only [List.cons.injEq] at hl0 <;> obtain ⟨rfl, rfl⟩ := hl0 <;> simp only [microStep] at hs <;>
    rw [hctx] at hs
  case rm0 ob' =>
    split at hs <;> simp only [Option.some.injEq, Prod.mk.injEq] at hs <;> obtain ⟨rfl, -⟩ := hs
    · rename_i hpres
      by_cases e : ob' = ob
      · subst e
        have hnone := rem_none_of_not_reserved hrem (cn := cn) (ob := ob') (sg := sg) (c := srvOf s cn) (by rw [hpres]; simp)
        have hrm0 : rm = .none := by
          cases hrmv : rm with
          | none => rfl
          | _ =>
            obtain ⟨th', hth', e'⟩ := hrel.ex (by rw [hrmv]; simp)
            rw [hnone th' hth', hrmv] at e'; cases e'
        have hsim := sim_p_tables pf (rm := rm) hfs hpsp (by simp) (hupd (fun th' _ hc => hnone th' hc))
        refine ⟨_, hsim, Or.inr ?_⟩
        simp only [setProg_prog, if_true, remPhase, setProg_ctx, setCtx_ctx, upd]
        exact next_mark (x := absOf s cn ob' sg rm failed) hpres (by rw [← hrm0]; rfl)
      · refine hst (by simp) (by simp [upd, Ne.symm e]) (by simp) ?_
        rw [hprog]; simp [remPhase, e]
    · refine hst (by simp) (by simp) (by simp) ?_
      rw [hprog]; simp [remPhase]
  case rm1 ob' =>
    simp only [Option.some.injEq, Prod.mk.injEq] at hs; obtain ⟨rfl, -⟩ := hs
    by_cases e : ob' = ob
    · subst e
      have hhold : holds ob' (s.prog (.user (srvOf s cn) t)) = true := by rw [hprog]; simp [holds]
      have hrmpre : rm = .pre := by
        have := hrel.all (.user (srvOf s cn) t) rfl (by rw [hprog]; simp [remPhase])
        rw [hprog] at this; simpa [remPhase] using this.symm
      have hsim := sim_p_tables pf (rm := rm) hfs hpsp (by simp) (hupd (fun th' hne hc => rem_unique hrem hhold th' hne hc))
      refine ⟨_, hsim, Or.inr ?_⟩
      have hmem : (sg, Peer.alias cn) ∈ notifyList (s.ctx (srvOf s cn)) ob' ↔ Peer.alias cn ∈ (s.ctx (srvOf s cn)).rsubs ⟨ob', sg⟩ := by
        rw [mem_notifyList]
        refine ⟨fun h => h.2, fun h => ⟨rdomInv_reach hr _ _ (by intro e; rw [e] at h; simp at h), h⟩⟩
      by_cases hR : Peer.alias cn ∈ (s.ctx (srvOf s cn)).rsubs ⟨ob', sg⟩
      · have hne : notifyList (s.ctx (srvOf s cn)) ob' ≠ [] := by
          intro e; have := hmem.2 hR; rw [e] at this; simp at this
        simp only [setProg_prog, if_true, if_neg hne, remPhase, if_pos (hmem.2 hR), setProg_ctx, setCtx_ctx]
        have := next_objRemovedR (x := absOf s cn ob' sg rm failed) (by rw [hrmpre]; rfl) (absOf_R.2 hR)
        refine cast (congrArg (· ∈ next _) ?_) this
        refine AS.ext' ?_ rfl rfl rfl rfl rfl rfl rfl rfl
        simp
      · have hph : remPhase cn ob' sg (if notifyList (s.ctx (srvOf s cn)) ob' = [] then [MOp.delObj ob', .ret (.rm ob')]
            else [.notify (notifyList (s.ctx (srvOf s cn)) ob') ob', .delObj ob', .ret (.rm ob')]) = .post := by
          split
          · simp [remPhase]
          · simp [remPhase, mt hmem.1 hR]
        simp only [setProg_prog, if_true, hph, setProg_ctx, setCtx_ctx]
        have hRf : (absOf s cn ob' sg rm failed).R = false := by
          cases hv : (absOf s cn ob' sg rm failed).R with
          | false => rfl
          | true => exact absurd (absOf_R.1 hv) hR
        have := next_objRemovedNoR (x := absOf s cn ob' sg rm failed) (by rw [hrmpre]; rfl) hRf
        refine cast (congrArg (· ∈ next _) ?_) this
        refine AS.ext' ?_ rfl rfl rfl rfl rfl rfl rfl rfl
        simp [hRf]
    · refine hst (by simp [Ne.symm e]) (by simp) (by simp) ?_
      rw [hprog]
      by_cases hns : notifyList (s.ctx (srvOf s cn)) ob' = [] <;> simp [hns, remPhase, e]
  case rm5 ob' =>
    simp only [Option.some.injEq, Prod.mk.injEq] at hs; obtain ⟨rfl, -⟩ := hs
    by_cases e : ob' = ob
    · subst e
      have hhold : holds ob' (s.prog (.user (srvOf s cn) t)) = true := by rw [hprog]; simp [holds]
      have hrmpost : rm = .post := by
        have := hrel.all (.user (srvOf s cn) t) rfl (by rw [hprog]; simp [remPhase])
        rw [hprog] at this; simpa [remPhase] using this.symm
      have hsim := sim_p_tables pf (rm := rm) hfs hpsp (by simp) (hupd (fun th' hne hc => rem_unique hrem hhold th' hne hc))
      refine ⟨_, hsim, Or.inr ?_⟩
      simp only [setProg_prog, if_true, remPhase, setProg_ctx, setCtx_ctx, upd]
      exact next_del (x := absOf s cn ob' sg rm failed) (by rw [hrmpost]; rfl)
    · refine hst (by simp) (by simp [upd, Ne.symm e]) (by simp) ?_
      rw [hprog]; simp [remPhase, e]
  case mk0 ob' =>
    split at hs <;> simp only [Option.some.injEq, Prod.mk.injEq] at hs <;> obtain ⟨rfl, -⟩ := hs
    · rename_i habs
      by_cases e : ob' = ob
      · subst e
        have hnone := rem_none_of_not_reserved hrem (cn := cn) (ob := ob') (sg := sg) (c := srvOf s cn) (by rw [habs]; simp)
        have hrm0 : rm = .none := by
          cases hrmv : rm with
          | none => rfl
          | _ =>
            obtain ⟨th', hth', e'⟩ := hrel.ex (by rw [hrmv]; simp)
            rw [hnone th' hth', hrmv] at e'; cases e'
        have hsim := sim_p_tables pf (rm := rm) hfs hpsp (by simp) (hupd (fun th' _ hc => hnone th' hc))
        refine ⟨_, hsim, Or.inr ?_⟩
        simp only [setProg_prog, if_true, remPhase, setProg_ctx, setCtx_ctx, upd]
        have := next_reserve (x := absOf s cn ob' sg rm failed) habs (by rw [← hrm0]; rfl)
        refine cast (congrArg (· ∈ next _) ?_) this
        exact AS.ext' rfl rfl rfl (by rw [← hrm0]; rfl) rfl rfl rfl rfl rfl
      · refine hst (by simp) (by simp [upd, Ne.symm e]) (by simp) ?_
        rw [hprog]; simp [remPhase]
    · refine hst (by simp) (by simp) (by simp) ?_
      rw [hprog]; simp [remPhase]
  case mk1 ob' =>
    simp only [Option.some.injEq, Prod.mk.injEq] at hs; obtain ⟨rfl, -⟩ := hs
    by_cases e : ob' = ob
    · subst e
      have hhold : holds ob' (s.prog (.user (srvOf s cn) t)) = true := by rw [hprog]; simp [holds]
      have hres := hrem.res _ ob' hhold
      have hnone : ∀ th' : Th, th'.ctx = srvOf s cn → remPhase cn ob' sg (s.prog th') = .none := by
        intro th' hc
        by_cases e : th' = .user (srvOf s cn) t
        · subst e; rw [hprog]; rfl
        · exact rem_unique hrem hhold th' e hc
      have hrm0 : rm = .none := by
        cases hrmv : rm with
        | none => rfl
        | _ =>
          obtain ⟨th', hth', e'⟩ := hrel.ex (by rw [hrmv]; simp)
          rw [hnone th' hth', hrmv] at e'; cases e'
      have hsim := sim_p_tables pf (rm := rm) hfs hpsp (by simp) (hupd (fun th' _ hc => hnone th' hc))
      refine ⟨_, hsim, Or.inr ?_⟩
      simp only [setProg_prog, if_true, remPhase, setProg_ctx, setCtx_ctx, upd]
      have := next_register (x := absOf s cn ob' sg rm failed) hres (by rw [← hrm0]; rfl)
      refine cast (congrArg (· ∈ next _) ?_) this
      exact AS.ext' rfl rfl rfl (by rw [← hrm0]; rfl) rfl rfl rfl rfl rfl
    · refine hst (by simp) (by simp [upd, Ne.symm e]) (by simp) ?_
      rw [hprog]; simp [remPhase]
  case rm3 d sg0 ns ob' hnd hnot =>
    simp only [Option.some.injEq, Prod.mk.injEq] at hs; obtain ⟨rfl, -⟩ := hs
    by_cases hm : ob' = ob ∧ d = .alias cn ∧ sg0 = sg
    · obtain ⟨rfl, rfl, rfl⟩ := hm
      have hhold : holds ob' (s.prog (.user (srvOf s cn) t)) = true := by rw [hprog]; simp [holds]
      have hrmnp : rm = .np := by
        have := hrel.all (.user (srvOf s cn) t) rfl (by rw [hprog]; simp [remPhase])
        rw [hprog] at this; simpa [remPhase] using this.symm
      have hrm' := hupd (fun th' hne hc => rem_unique hrem hhold th' hne hc)
      simp only [setProg_prog, if_true, remPhase, if_neg hnot] at hrm'
      have hsim := pf.sim' (ob := ob') (sg := sg0) hfs hrm'
        (v' := { viewOf s cn ob' sg0 with lq := (viewOf s cn ob' sg0).lq ++ [.smSend (.alias cn) (.removed ob' sg0)] })
        (by rw [pf.view, hpsp]; simp [viewOf])
      refine ⟨_, hsim, Or.inr ?_⟩
      rw [show (Cb.smSend (.alias cn) (.removed ob' sg0)) =
        .smSend (.alias cn) (.removed (keyOf s cn ob' sg0).ob (keyOf s cn ob' sg0).sg) from rfl, absV_enq_N (rm := rm)]
      exact next_notice (x := absOf s cn ob' sg0 rm failed) (by rw [hrmnp]; rfl)
    · refine hst (by simp) (by simp) ?_ ?_
      · simp only [setProg_ctx, setCtx_ctx, if_true, List.filterMap_append, List.filterMap_cons, List.filterMap_nil]
        have : relevCb cn ob sg (curOf (s.ctx (cliOf s cn)) (keyOf s cn ob sg)) (.smSend d (.removed ob' sg0)) = none := by
          simp only [relevCb, relev]
          split
          · rename_i e1; split
            · rename_i e2; exact absurd ⟨e2.1, e1, e2.2⟩ hm
            · rfl
          · rfl
        rw [this]; simp
      · rw [hprog]
        simp only [setProg_prog, if_true, remPhase]
        by_cases e : ob' = ob
        · subst e
          have : ¬(d = Peer.alias cn ∧ sg0 = sg) := fun h => hm ⟨rfl, h.1, h.2⟩
          simp [this]
        · simp [e]
  case rm4 d sg0 ob' =>
    simp only [Option.some.injEq, Prod.mk.injEq] at hs; obtain ⟨rfl, -⟩ := hs
    by_cases hm : ob' = ob ∧ d = .alias cn ∧ sg0 = sg
    · obtain ⟨rfl, rfl, rfl⟩ := hm
      have hhold : holds ob' (s.prog (.user (srvOf s cn) t)) = true := by rw [hprog]; simp [holds]
      have hrmnp : rm = .np := by
        have := hrel.all (.user (srvOf s cn) t) rfl (by rw [hprog]; simp [remPhase])
        rw [hprog] at this; simpa [remPhase] using this.symm
      have hrm' := hupd (fun th' hne hc => rem_unique hrem hhold th' hne hc)
      simp only [setProg_prog, if_true, remPhase] at hrm'
      have hsim := pf.sim' (ob := ob') (sg := sg0) hfs hrm'
        (v' := { viewOf s cn ob' sg0 with lq := (viewOf s cn ob' sg0).lq ++ [.smSend (.alias cn) (.removed ob' sg0)] })
        (by rw [pf.view, hpsp]; simp [viewOf])
      refine ⟨_, hsim, Or.inr ?_⟩
      rw [show (Cb.smSend (.alias cn) (.removed ob' sg0)) =
        .smSend (.alias cn) (.removed (keyOf s cn ob' sg0).ob (keyOf s cn ob' sg0).sg) from rfl, absV_enq_N (rm := rm)]
      exact next_notice (x := absOf s cn ob' sg0 rm failed) (by rw [hrmnp]; rfl)
    · refine hst (by simp) (by simp) ?_ ?_
      · simp only [setProg_ctx, setCtx_ctx, if_true, List.filterMap_append, List.filterMap_cons, List.filterMap_nil]
        have : relevCb cn ob sg (curOf (s.ctx (cliOf s cn)) (keyOf s cn ob sg)) (.smSend d (.removed ob' sg0)) = none := by
          simp only [relevCb, relev]
          split
          · rename_i e1; split
            · rename_i e2; exact absurd ⟨e2.1, e1, e2.2⟩ hm
            · rfl
          · rfl
        rw [this]; simp
      · rw [hprog]
        simp only [setProg_prog, if_true, remPhase]
        by_cases e : ob' = ob
        · subst e
          have : ¬(d = Peer.alias cn ∧ sg0 = sg) := fun h => hm ⟨rfl, h.1, h.2⟩
          simp [this]
        · simp [e]
  case rm2 ns ob' hnd =>
    split at hs
    · simp at hs
    · rename_i x hfind
      have hx : x ∈ ns := List.mem_of_find?_eq_some hfind
      have herase : ∀ y, y ≠ x → (y ∈ ns.erase x ↔ y ∈ ns) := fun y hy => List.mem_erase_of_ne hy
      have hphase : ∀ pr : List MOp,
          (pr = (if ns.erase x = [] then [MOp.delObj ob', .ret (.rm ob')] else [.notify (ns.erase x) ob', .delObj ob', .ret (.rm ob')]) ∧
            x ≠ (sg, Peer.alias cn)) ∨
          pr = .enq x.2 (.removed ob' x.1) :: (if ns.erase x = [] then [MOp.delObj ob', .ret (.rm ob')]
            else [.notify (ns.erase x) ob', .delObj ob', .ret (.rm ob')]) →
          remPhase cn ob sg pr = remPhase cn ob sg [.notify ns ob', .delObj ob', .ret (.rm ob')] := by
        intro pr hpr
        by_cases e : ob' = ob
        · subst e
          by_cases hxo : x = (sg, Peer.alias cn)
          · rcases hpr with ⟨-, h⟩ | rfl
            · exact absurd hxo h
            · subst hxo; simp [remPhase, hx]
          · have hnot : ¬(x.2 = Peer.alias cn ∧ x.1 = sg) := fun h => hxo (Prod.ext h.2 h.1)
            have hm := herase (sg, Peer.alias cn) (Ne.symm hxo)
            by_cases hns : ns.erase x = []
            · have : (sg, Peer.alias cn) ∉ ns := by rw [← hm, hns]; simp
              rcases hpr with ⟨rfl, -⟩ | rfl <;> simp [remPhase, hns, this, hnot]
            · rcases hpr with ⟨rfl, -⟩ | rfl <;> simp [remPhase, hns, hm, hnot]
        · rcases hpr with ⟨rfl, -⟩ | rfl
          · by_cases hns : ns.erase x = [] <;> simp [remPhase, hns, e]
          · simp [remPhase, e]
      split at hs <;> simp only [Option.some.injEq, Prod.mk.injEq] at hs <;> obtain ⟨rfl, -⟩ := hs
      · refine hst Iff.rfl rfl rfl ?_
        rw [hprog]
        exact hphase _ (Or.inr (by simp [State.setProg, upd]))
      · rename_i hcond
        refine hst Iff.rfl rfl rfl ?_
        rw [hprog]
        refine hphase _ (Or.inl ⟨by simp [State.setProg, upd], ?_⟩)
        intro hxo
        apply hcond
        have h1 := hl.regP; have h2 := hl.upP
        simp [hxo, h1, h2]


/-- **micro steps of the publisher context** -/
theorem sim_micro_p {s s' : State} {th : Th} {ch ch2 : Nat} {op : MOp} {rest : List MOp} {o : Out}
    (hr : Reach s) (hprog : s.prog th = op :: rest) (hs : microStep s th ch ch2 op rest = some (s', o))
    {cn : ConnId} {ob : Obj} {sg : Sg} {x : AS} (hth : th.ctx = srvOf s cn) (hl : Live s cn)
    (h : Sim s cn ob sg x) : ∃ x', Sim s' cn ob sg x' ∧ (x' = x ∨ x' ∈ next x) := by
  have hlf := live_facts hr hl
  by_cases h4 : op.isDsp = true
  · exact sim_p_dsp hr hprog hs hth hl h4 h
  · have h4' : op.isDsp = false := by simpa using h4
    by_cases h2 : op.isRem = true
    · exact sim_p_rem hr hprog hs hth hl h2 h
    · have h2' : op.isRem = false := by simpa using h2
      by_cases h3 : op.isEnq = true
      · exact ⟨x, sim_p_enq hr hprog hs hth hlf.ne h2' h3 h4' h, Or.inl rfl⟩
      · have h3' : op.isEnq = false := by simpa using h3
        by_cases h1 : op.isRsub = true
        · cases op <;> simp only [MOp.isRsub] at h1 <;> try contradiction
          all_goals (first | (simp [MOp.isDsp] at h4; done) | (simp [MOp.isRem] at h2; done) | skip)
          exact ⟨x, sim_p_peerRemoved hr hprog hs hth hl h, Or.inl rfl⟩
        · exact ⟨x, sim_p_quiet hr hprog hs hth hlf.ne (by simpa using h1) h2' h3' h4' h, Or.inl rfl⟩

end QmiModel.PubSub
