import QmiModel.Model.Transport
/-!
# C13 helper lemmas, part 1: stream accounting through the primitives and the read loops
-/
namespace QmiModel.Transport

/-- everything that ever came from the device, in stream order: handed out / discarded / lost, then
buffered, then still to be delivered by the device -/
def tot (s : St) : Bytes := logBytes s.log ++ s.buf ++ devBytes s.dev

/-- configuration and open flag are unchanged -/
structure Same (s s' : St) : Prop where
  kind : s'.kind = s.kind
  minP : s'.minP = s.minP
  maxP : s'.maxP = s.maxP
  isOpen : s'.isOpen = s.isOpen
  wlog : s'.wlog = s.wlog

/-- `s'` differs from `s` only in that more device bytes moved to the end of the buffer:
nothing was handed out, discarded or lost -/
structure Ext (s s' : St) : Prop where
  same : Same s s'
  log : s'.log = s.log
  more : ∃ extra, s'.buf = s.buf ++ extra ∧ extra ++ devBytes s'.dev = devBytes s.dev

theorem Same.refl (s : St) : Same s s := ⟨rfl, rfl, rfl, rfl, rfl⟩
theorem Same.trans {a b c : St} (h1 : Same a b) (h2 : Same b c) : Same a c :=
  ⟨h2.kind.trans h1.kind, h2.minP.trans h1.minP, h2.maxP.trans h1.maxP, h2.isOpen.trans h1.isOpen, h2.wlog.trans h1.wlog⟩

theorem Ext.refl (s : St) : Ext s s := ⟨Same.refl s, rfl, [], (List.append_nil _).symm, rfl⟩

theorem Ext.trans {a b c : St} (h1 : Ext a b) (h2 : Ext b c) : Ext a c := by
  obtain ⟨x, hx1, hx2⟩ := h1.more
  obtain ⟨y, hy1, hy2⟩ := h2.more
  refine ⟨h1.same.trans h2.same, h2.log.trans h1.log, x ++ y, ?_, ?_⟩
  · rw [hy1, hx1, List.append_assoc]
  · rw [List.append_assoc, hy2, hx2]

theorem Ext.tot_eq {a b : St} (h : Ext a b) : tot b = tot a := by
  obtain ⟨x, hx1, hx2⟩ := h.more
  simp only [QmiModel.Transport.tot, h.log, hx1, ← hx2, List.append_assoc]

theorem Ext.buf_dev {a b : St} (h : Ext a b) : b.buf ++ devBytes b.dev = a.buf ++ devBytes a.dev := by
  obtain ⟨x, hx1, hx2⟩ := h.more
  rw [hx1, List.append_assoc, hx2]

theorem logBytes_append (l₁ l₂ : List (Tag × Bytes)) : logBytes (l₁ ++ l₂) = logBytes l₁ ++ logBytes l₂ := by
  induction l₁ with
  | nil => rfl
  | cons x xs ih => obtain ⟨t, b⟩ := x; simp only [List.cons_append, logBytes, ih, List.append_assoc]

@[simp] theorem logBytes_single (t : Tag) (b : Bytes) : logBytes [(t, b)] = b := by simp [logBytes]

theorem devBytes_append (d₁ d₂ : Script) : devBytes (d₁ ++ d₂) = devBytes d₁ ++ devBytes d₂ := by
  induction d₁ with
  | nil => rfl
  | cons x xs ih =>
    obtain ⟨e, r⟩ := x
    cases r <;> simp only [List.cons_append, devBytes, ih, List.append_assoc]

/-! ## the device primitive -/

theorem popDev_bytes (dg : Bool) (size : Nat) (d : Script) :
    rxBytes (popDev dg size d).2.1 ++ devBytes (popDev dg size d).2.2 = devBytes d := by
  cases d with
  | nil => rfl
  | cons x rest =>
    obtain ⟨e, r⟩ := x
    cases r with
    | timeout => rfl
    | eof => rfl
    | data bs =>
      simp only [popDev]
      split
      · rfl
      · split
        · rfl
        · simp only [rxBytes, devBytes, ← List.append_assoc, List.take_append_drop]

/-- a stream-type receive never returns more than was asked for -/
theorem popDev_stream_le (size : Nat) (d : Script) (b : Bytes)
    (h : (popDev false size d).2.1 = .data b) : b.length ≤ size := by
  cases d with
  | nil => simp [popDev] at h
  | cons x rest =>
    obtain ⟨e, r⟩ := x
    cases r with
    | timeout => simp [popDev] at h
    | eof => simp [popDev] at h
    | data bs =>
      simp only [popDev] at h
      split at h
      · simp only [Rx.data.injEq] at h; subst h; assumption
      · simp only [Bool.false_eq_true, if_false, Rx.data.injEq] at h
        subst h; simp only [List.length_take]; omega

/-- a stream-type receive never loses a datagram -/
theorem popDev_stream_no_oserr (size : Nat) (d : Script) (l : Bytes) :
    (popDev false size d).2.1 ≠ .oserr l := by
  cases d with
  | nil => simp [popDev]
  | cons x rest =>
    obtain ⟨e, r⟩ := x
    cases r with
    | timeout => simp [popDev]
    | eof => simp [popDev]
    | data bs =>
      simp only [popDev]
      split
      · simp
      · simp

/-- fuel measure: every receive of at least one byte that is not `exhausted` strictly decreases it -/
def meas (d : Script) : Nat := d.length + (devBytes d).length

theorem popDev_meas (dg : Bool) (size : Nat) (hs : 0 < size) (d : Script)
    (h : (popDev dg size d).2.1 ≠ .exhausted) : meas (popDev dg size d).2.2 < meas d := by
  cases d with
  | nil => simp [popDev] at h
  | cons x rest =>
    obtain ⟨e, r⟩ := x
    cases r with
    | timeout => simp [popDev, meas, devBytes]
    | eof => simp [popDev, meas, devBytes]
    | data bs =>
      simp only [popDev]
      split
      · simp [meas, devBytes]; omega
      · split
        · simp [meas, devBytes]; omega
        · simp [meas, devBytes, List.length_drop]; omega

theorem popDev_exhausted (dg : Bool) (size : Nat) (d : Script)
    (h : (popDev dg size d).2.1 = .exhausted) : d = [] ∧ (popDev dg size d).2.2 = [] := by
  cases d with
  | nil => exact ⟨rfl, rfl⟩
  | cons x rest =>
    obtain ⟨e, r⟩ := x
    cases r with
    | timeout => simp [popDev] at h
    | eof => simp [popDev] at h
    | data bs =>
      simp only [popDev] at h
      split at h
      · simp at h
      · split at h <;> simp at h

/-! ## socket primitives -/

theorem sockRecv_spec (s : St) (size : Nat) (v : Bool) :
    Same s (sockRecv s size v).1 ∧ (sockRecv s size v).1.log = s.log ∧ (sockRecv s size v).1.buf = s.buf ∧
    rxBytes (sockRecv s size v).2 ++ devBytes (sockRecv s size v).1.dev = devBytes s.dev :=
  ⟨⟨rfl, rfl, rfl, rfl, rfl⟩, rfl, rfl, popDev_bytes _ _ _⟩

theorem setTimeout_ext (s : St) (v : Option Int) : Ext s (setTimeout s v).1 :=
  ⟨⟨rfl, rfl, rfl, rfl, rfl⟩, rfl, [], by simp [setTimeout], by simp [setTimeout]⟩

theorem setTimeout_dev (s : St) (v : Option Int) : (setTimeout s v).1.dev = s.dev := rfl
theorem setTimeout_buf (s : St) (v : Option Int) : (setTimeout s v).1.buf = s.buf := rfl

/-- what `_read_from_socket` does to the accounting -/
theorem readFromSocket_spec (s : St) (size : Nat) :
    Same s (readFromSocket s size).1 ∧ (readFromSocket s size).1.buf = s.buf ∧
    match (readFromSocket s size).2 with
    | .ok b => (readFromSocket s size).1.log = s.log ∧ b ≠ [] ∧ b ++ devBytes (readFromSocket s size).1.dev = devBytes s.dev
    | .runtime => ∃ l, (readFromSocket s size).1.log = s.log ++ [(Tag.lost, l)] ∧
                    l ++ devBytes (readFromSocket s size).1.dev = devBytes s.dev
    | _ => (readFromSocket s size).1.log = s.log ∧ devBytes (readFromSocket s size).1.dev = devBytes s.dev := by
  have h := sockRecv_spec s size true
  obtain ⟨h1, h2, h3, h4⟩ := h
  unfold readFromSocket
  generalize sockRecv s size true = r at *
  obtain ⟨s1, rx⟩ := r
  cases rx with
  | data b =>
    simp only
    split
    · rename_i hb
      have : b = [] := by simpa using hb
      subst this
      exact ⟨h1, h3, h2, by simpa [rxBytes] using h4⟩
    · rename_i hb
      exact ⟨h1, h3, h2, by simpa using hb, by simpa [rxBytes] using h4⟩
  | timeout => exact ⟨h1, h3, h2, by simpa [rxBytes] using h4⟩
  | eof => exact ⟨h1, h3, h2, by simpa [rxBytes] using h4⟩
  | exhausted => exact ⟨h1, h3, h2, by simpa [rxBytes] using h4⟩
  | oserr l =>
    refine ⟨⟨h1.kind, h1.minP, h1.maxP, h1.isOpen, h1.wlog⟩, h3, l, ?_, ?_⟩
    · have h2' : s1.log = s.log := h2
      show s1.log ++ [(Tag.lost, l)] = s.log ++ [(Tag.lost, l)]
      rw [h2']
    · simpa [rxBytes] using h4

end QmiModel.Transport
