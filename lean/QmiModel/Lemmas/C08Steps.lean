import QmiModel.Lemmas.C08Pend
/-! C08: what the individual steps of removal, disconnect and failed subscription do to the tables. -/
namespace QmiModel.PubSub

/-- every key with a non-empty remote-subscriber set is in the iteration domain `rdom` (= is a dict key) -/
def RdomInv (s : State) : Prop := ∀ c k, (s.ctx c).rsubs k ≠ [] → k ∈ (s.ctx c).rdom

theorem handleReplyStep_rsubs {cs cs' : CtxSt} {id : ReqId} {ok : Bool} {more : List MOp} {o : Out}
    (hs : handleReplyStep cs id ok = some (cs', more, o)) : cs'.rsubs = cs.rsubs ∧ cs'.rdom = cs.rdom ∧ cs'.objs = cs.objs ∧ cs'.peers = cs.peers := by
  unfold handleReplyStep at hs
  split at hs
  · simp only [Option.some.injEq, Prod.mk.injEq] at hs; obtain ⟨rfl, rfl, rfl⟩ := hs; exact ⟨rfl, rfl, rfl, rfl⟩
  · split at hs
    · simp only [Option.some.injEq, Prod.mk.injEq] at hs; obtain ⟨rfl, rfl, rfl⟩ := hs; exact ⟨rfl, rfl, rfl, rfl⟩
    · split at hs
      · simp only [Option.some.injEq, Prod.mk.injEq] at hs
        obtain ⟨rfl, -, -⟩ := hs
        exact ⟨rfl, rfl, rfl, rfl⟩
      · split at hs
        · simp only [Option.some.injEq, Prod.mk.injEq] at hs
          obtain ⟨rfl, -, -⟩ := hs
          exact ⟨rfl, rfl, rfl, rfl⟩
        · simp only [Option.some.injEq, Prod.mk.injEq] at hs
          obtain ⟨rfl, -, -⟩ := hs
          exact ⟨rfl, rfl, rfl, rfl⟩

set_option maxHeartbeats 1000000 in
theorem rdomInv_micro {s s' : State} {th : Th} {ch ch2 : Nat} {op : MOp} {rest : List MOp} {o : Out}
    (h : RdomInv s) (hs : microStep s th ch ch2 op rest = some (s', o)) : RdomInv s' := by
  have h0 := h th.ctx
  have m1 : ∀ {l : List Peer} {p : Peer → Bool}, l.filter p ≠ [] → l ≠ [] := by
    intro l p hne e; subst e; simp at hne
  cases op <;> simp only [microStep] at hs
  all_goals (try (split at hs))
  all_goals (try (split at hs))
  all_goals (try (split at hs))
  all_goals (try (split at hs))
  all_goals (try (simp at hs))
  all_goals (try (obtain ⟨rfl, -⟩ := hs))
  all_goals (intro c k; simp only [setProg_ctx, setCtx_ctx, State.setProg]; (try split))
  all_goals (try exact h c k)
  all_goals (try (rename_i e; subst e))
  all_goals (try exact h0 k)
  all_goals (try exact (by
    have hq := handleReplyStep_rsubs ‹handleReplyStep _ _ _ = some _›
    rw [hq.1, hq.2.1]; exact h0 k))
  all_goals (try (simp only [upd, peerRemovedStep] at * <;> grind))

theorem rdomInv_reach {s : State} (h : Reach s) : RdomInv s := by
  induction h with
  | init => intro c k hne; simp [State.init, CtxSt.init] at hne
  | step _ hs ih =>
    rename_i s0 s1 a o _
    by_cases ha : ∃ th ch ch2, a = .micro th ch ch2
    · obtain ⟨th, ch, ch2, rfl⟩ := ha
      obtain ⟨-, op, rest, -, hm⟩ := step_micro_inv hs
      exact rdomInv_micro ih hm
    · have ha' : ∀ th ch ch2, a ≠ .micro th ch ch2 := fun th ch ch2 e => ha ⟨th, ch, ch2, e⟩
      intro c k hne
      have e := step_nonmicro_tables ha' hs c
      rw [e.rsubs] at hne; rw [e.rdom]; exact ih c k hne

end QmiModel.PubSub
