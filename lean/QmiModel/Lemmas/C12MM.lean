import QmiModel.Lemmas.C12Conc
/-! `make ‖ make` for the same name, for every pair of object kinds and every combination of failing constructors:
definitions and the schedule-normalisation lemma.  The kernel-checked tables are in `C12MMa0 … C12MMa5` (one first
maker per file, so that they build in parallel). -/
namespace QmiModel.Context

/-- arguments of a maker of name 4 -/
def mmMk (k : Kind) (cf : Bool) : MakeArgs := { k := k, n := 4, ctorF := cf, relF := false, runB := .loop }

/-- all second makers: every kind, constructor succeeding or raising -/
def mmSeconds : List MakeArgs :=
  [mmMk .rpc false, mmMk .rpc true, mmMk .instr false, mmMk .instr true, mmMk .task false, mmMk .task true]

/-- an active context holding only `$context` -/
def mmCtx : Ctx := populated false []

def okCount (st : C2State) : Nat :=
  (if mResult st.m1 == some .ok then 1 else 0) + (if mResult st.m2 == some .ok then 1 else 0)

/-- both makers have their answer; at most one got `ok`; the name is in the map exactly when one did; no reservation is
left (`None` entry); managers, handlers and map entries correspond one to one; nothing was released; and when neither
constructor fails exactly one maker wins -/
def C2State.settled (a1 a2 : MakeArgs) (st : C2State) : Bool :=
  st.m1.isDone && st.m2.isDone && st.c.objMap.all (fun e => e.2.isSome) &&
  (st.c.objMap.filter (fun e => e.1 == 4)).length == okCount st && okCount st ≤ 1 &&
  st.c.mgrs.length == st.c.objMap.length && st.c.handlers.length == st.c.objMap.length &&
  st.c.released.isEmpty &&
  ((a1.ctorF || a2.ctorF) || okCount st == 1)

/-- the table obligation for one first maker -/
def mmTable (a1 : MakeArgs) : Bool :=
  mmSeconds.all fun a2 => (allScheds 9).all fun s => (c2run a1 a2 (c2init mmCtx) s 9).settled a1 a2

theorem c2run_norm (a1 a2 : MakeArgs) : ∀ (k : Nat) (st : C2State) (l : List Bool),
    c2run a1 a2 st l k = c2run a1 a2 st (normSched k l) k
  | 0, _, _ => rfl
  | k + 1, st, l => by
    simp only [c2run, normSched, List.headD_cons, List.tail_cons]
    exact c2run_norm a1 a2 k _ l.tail

/-- a checked table gives the statement for every schedule -/
theorem mmTable_all {a1 : MakeArgs} (h : mmTable a1 = true) {a2 : MakeArgs} (h2 : a2 ∈ mmSeconds) (sched : List Bool) :
    (c2run a1 a2 (c2init mmCtx) sched 9).settled a1 a2 = true := by
  rw [c2run_norm]
  simp only [mmTable, List.all_eq_true] at h
  exact h a2 h2 _ (normSched_mem 9 sched)

theorem mem_mmSeconds (k : Kind) (cf : Bool) : mmMk k cf ∈ mmSeconds := by
  cases k <;> cases cf <;> simp [mmSeconds]

end QmiModel.Context
